/-
C05 — theorems about the glue around the evaluator (round h):
  * provisioning (`Provision.lean`) hands the evaluator exactly the route tree the config lists:
    every matcher set (EMPTY ones included), in order; every handler, in order; every route in
    place with its group and terminal flag — and why dropping an empty set would change routing;
  * the per-request state the routing reads: ONE group map per request — created once, handed on
    by every error hand-off (`WithError` in `Server.ServeHTTP` and in `Subroute.ServeHTTP`);
  * the source facts both rest on (`…_matches_source`, regenerated from /repo on every run).
-/
import CaddyModel.C05.Provision
import CaddyModel.C05.Lemmas
import CaddyModel.C05.WitnessData
import CaddyModel.Gen.RouteCompile

namespace CaddyModel.C05

/-! ### provisioning -/

mutual
theorem provMatcher_id : ∀ (m : Matcher), provMatcher m = m
  | .atom f vals => by simp [provMatcher]
  | .err kind st => by simp [provMatcher]
  | .legacy b => by simp [provMatcher]
  | .errRange lo hi => by simp [provMatcher]
  | .errIn codes => by simp [provMatcher]
  | .errSel ranges codes => by simp [provMatcher]
  | .not sets => by
    rw [provMatcher, provSetsInto_app sets []]; simp
theorem provSetInto_app : ∀ (s acc : List Matcher), provSetInto acc s = acc ++ s
  | [], acc => by simp [provSetInto]
  | m :: ms, acc => by
    rw [provSetInto, provMatcher_id m, provSetInto_app ms]; simp
theorem provSetsInto_app : ∀ (ss acc : List (List Matcher)), provSetsInto acc ss = acc ++ ss
  | [], acc => by simp [provSetsInto]
  | s :: ss, acc => by
    rw [provSetsInto, provSetInto_app s [], provSetsInto_app ss]; simp
end

/-- **`FromInterface` appends one matcher set per loaded set** — whatever the set holds, an empty
    set included — behind what the field held before, in the listed order. -/
theorem fromInterface_appends_every_set (ms loaded : List (List Matcher)) :
    fromInterface ms loaded = ms ++ loaded := provSetsInto_app loaded ms

example : fromInterface [] [[.atom .host [9]], [], [.legacy true]] = [[.atom .host [9]], [], [.legacy true]] := rfl

/-- the number of matcher sets, and which of them are empty, survive provisioning -/
theorem provisioning_keeps_empty_matcher_sets (loaded : List (List Matcher)) :
    (fromInterface [] loaded).length = loaded.length ∧
    (fromInterface [] loaded).map List.isEmpty = loaded.map List.isEmpty := by
  rw [fromInterface_appends_every_set]; simp

example : (fromInterface [] [[.atom .host [9]], []]).map List.isEmpty = [false, true] := by decide

/-- consequence of the appending shape, as the code has it: `ProvisionMatchers` is not idempotent —
    a second call on the same route doubles its matcher sets (harmless for routing: OR of the same
    sets; `App.Provision` calls it once per route). -/
theorem second_provisioning_appends_again (loaded : List (List Matcher)) :
    fromInterface (fromInterface [] loaded) loaded = loaded ++ loaded := by
  simp [fromInterface_appends_every_set]

example : fromInterface (fromInterface [] [[.legacy true]]) [[.legacy true]] = [[.legacy true], [.legacy true]] := rfl

mutual
theorem provHandlersInto_app : ∀ (hs acc : List Handler), provHandlersInto acc hs = acc ++ hs
  | [], acc => by simp [provHandlersInto]
  | h :: hs, acc => by
    rw [provHandlersInto, provHandler_id h, provHandlersInto_app hs]; simp
theorem provHandler_id : ∀ (h : Handler), provHandler h = h
  | .pass id => by simp [provHandler]
  | .respond id st => by simp [provHandler]
  | .rewrite id p => by simp [provHandler]
  | .fail id st => by simp [provHandler]
  | .strip => by simp [provHandler]
  | .raise src => by simp [provHandler]
  | .answer src => by simp [provHandler]
  | .invoke n => by simp [provHandler]
  | .sub rs hasErrs errs => by
    rw [provHandler, provRoutes_id rs, provRoutes_id errs]
theorem provRoutes_id : ∀ (rs : List Route), provRoutes rs = rs
  | [] => by simp [provRoutes]
  | rt :: rs => by
    rw [provRoutes, provRoute_id rt, provRoutes_id rs]
theorem provRoute_id : ∀ (rt : Route), provRoute rt = rt
  | .mk g sets hs term => by
    rw [provRoute, fromInterface_appends_every_set, provHandlersInto_app hs []]; simp
end

/-- **provisioning preserves the route tree**: the evaluator ranges over exactly the routes the
    config lists — same order, same groups and terminal flags, same matcher sets (empty ones
    included) and the same handlers in the same order, at every nesting depth (subroutes, their
    error routes, the sets of `not`). -/
theorem provisioning_preserves_route_tree (rs : List Route) : provRoutes rs = rs := provRoutes_id rs

example : provRoutes [.mk 1 [[], [.not [[], [.legacy false]]]] [.sub [.mk 0 [[]] [.pass 1] true] true [.mk 2 [] [.respond 2 200] false]] false]
    = [.mk 1 [[], [.not [[], [.legacy false]]]] [.sub [.mk 0 [[]] [.pass 1] true] true [.mk 2 [] [.respond 2 200] false]] false] := rfl

/-- the clause-shaped readings: order of routes (groups, terminal flags), matcher sets per route,
    handlers per route -/
theorem provisioning_keeps_route_order (rs : List Route) :
    (provRoutes rs).map Route.group = rs.map Route.group ∧
    (provRoutes rs).map Route.terminal = rs.map Route.terminal ∧
    (provRoutes rs).map Route.sets = rs.map Route.sets ∧
    (provRoutes rs).map Route.handlers = rs.map Route.handlers := by
  rw [provisioning_preserves_route_tree]; simp

example : (provRoutes [.mk 2 [[]] [] true, .mk 0 [] [.pass 1] false]).map Route.group = [2, 0] := by decide

/-- serving a provisioned configuration is serving the configuration as listed: every theorem of
    Props.lean about `serve` / `serveNamed` speaks about what `App.Provision` builds. -/
theorem serve_provisioned_is_serve_listed (env routes errs : List Route) (hasErrs : Bool) (req : Req) :
    serveProvisioned env routes hasErrs errs req = serveNamed env routes hasErrs errs req := by
  simp [serveProvisioned, provisioning_preserves_route_tree]

example : serveProvisioned [] [.mk 0 [[.atom .host [9]], []] [.respond 1 200] false] false [] wReq
    = ⟨[⟨1, 1, none, none, 1⟩], some 200⟩ := by decide

/-- **why the empty set must survive**: a route one of whose matcher sets is empty applies to every
    request for which the sets in front of it do not match (and do not fail) — "at least one set
    all of whose matchers match" is satisfied by a set without matchers. -/
theorem empty_matcher_set_makes_route_apply (pre post : List (List Matcher)) (r : Req)
    (h : ∀ s ∈ pre, evalSet s r = .ok false) : anyMatch (pre ++ [] :: post) r = .ok true := by
  have hne : (pre ++ [] :: post).isEmpty = false := by cases pre <;> simp
  simp only [anyMatch, hne]
  induction pre with
  | nil => simp [evalAny, evalSet]
  | cons s pre ih =>
    have hs := h s (by simp)
    simp only [List.cons_append, evalAny, hs]
    exact ih (fun s' hs' => h s' (by simp [hs']))
      (by cases pre <;> simp)

example : anyMatch ([[.atom .host [9]]] ++ [] :: []) wReq = .ok true := by decide

/-- … and dropping it changes what is served: with the empty set the route answers, without it the
    request falls through to the empty default response. A provisioning step that skips empty
    sets (seeded C05-empty-matcher-set-dropped-at-provision) is therefore a routing defect. -/
theorem dropping_an_empty_set_changes_routing :
    ∃ (g : Nat) (sets : List (List Matcher)) (hs : List Handler) (req : Req),
      serve [.mk g sets hs false] false [] req ≠ serve [.mk g (dropEmptySets sets) hs false] false [] req :=
  ⟨0, [[.atom .host [9]], []], [.respond 1 200], wReq, by decide⟩

/-- worse when ALL sets are empty: dropping them leaves a route without matcher sets, which still
    applies — so that slip is only visible through routes that mix empty and non-empty sets -/
theorem dropping_only_empty_sets_is_invisible (n : Nat) (r : Req) :
    anyMatch (dropEmptySets (List.replicate (n + 1) [])) r = anyMatch (List.replicate (n + 1) []) r := by
  have h1 : ∀ k, dropEmptySets (List.replicate k ([] : List Matcher)) = [] := by
    intro k; induction k with
    | zero => rfl
    | succ k ih => simp [List.replicate_succ, dropEmptySets, ih]
  rw [h1]
  simp [anyMatch, List.replicate_succ, evalAny, evalSet]

example : anyMatch (dropEmptySets [[], []]) wReq = anyMatch [[], []] wReq := by decide

/-! ### the request state the routing reads: one group map per request -/

/-- **every error hand-off keeps the request's group map**: `HTTPErrorConfig.WithError` only adds
    the error to the context (and the placeholders to the shared replacer); neither the server's
    catch (restore of the original URI) nor a subroute's catch (its own request object) creates a
    new map — the map of the error chain IS the map of the failed chain. -/
theorem error_handoff_keeps_the_group_map (frame req r' : Req) (st : Nat) :
    (withError st r').groups = r'.groups ∧
    (catchAt frame st r').groups = r'.groups ∧
    (serverCatch req st r').groups = r'.groups := by
  simp [withError, catchAt, serverCatch, newObject]

example : (serverCatch wReq 404 { wReq with groups := [2, 1] }).groups = [2, 1] := by decide

/-- **one group map per request**: along primary chain, subroutes with error routes, and the
    server's error chain, the set of satisfied groups starts empty (`PrepareRequest`) and only
    grows: whatever group was satisfied when the primary chain failed is still satisfied at every
    point the error chain reaches. -/
theorem one_group_map_per_request (errs : List Route) (req r' r'' : Req) (st : Nat) (t t'' : Trace)
    (hc : specRoutes errs (serverCatch req st r') t = .cont r'' t'') :
    ∀ g ∈ r'.groups, g ∈ r''.groups := by
  intro g hg
  have := specRoutes_keeps errs (serverCatch req st r') t
  rw [hc] at this
  exact this g (by simpa [withError, serverCatch, newObject] using hg)

example : specRoutes [.mk 2 [] [.pass 7] false, .mk 1 [] [.pass 8] false] (serverCatch wReq 404 { wReq with groups := [2] }) []
    = .cont { serverCatch wReq 404 { wReq with groups := [2] } with groups := [1, 2] } [⟨8, 1, some 404, some 404, 1⟩] := by decide

/-- the same inside a subroute: its error routes start from the groups its own routes satisfied -/
theorem subroute_error_routes_share_the_group_map (es : List Route) (frame r' r'' : Req) (st : Nat) (t t'' : Trace)
    (hc : specRoutes es (catchAt frame st r') t = .cont r'' t'') :
    ∀ g ∈ r'.groups, g ∈ r''.groups := by
  intro g hg
  have := specRoutes_keeps es (catchAt frame st r') t
  rw [hc] at this
  exact this g (by simpa [withError, catchAt, newObject] using hg)

example : (catchAt wReq 500 { wReq with groups := [1] }).groups = [1] := by decide

/-- a fresh map per chain (what the seeded change C05-witherror-resets-route-groups does) is a
    different server: an error route of a group the primary chain already satisfied would run. -/
theorem fresh_group_map_in_error_chain_changes_routing :
    ∃ (routes errs : List Route) (req r' : Req) (st : Nat) (t : Trace),
      runRoutes routes emptyK { req with groups := [], ctxErr := none, replStatus := none } [] = .err t st r' ∧
      runRoutes errs errorEmptyK (serverCatch req st r') t
        ≠ runRoutes errs errorEmptyK { serverCatch req st r' with groups := [] } t :=
  ⟨[.mk 1 [] [.fail 1 404] false], [.mk 1 [] [.respond 2 200] false], wReq,
    { wReq with groups := [1] }, 404, [⟨1, 1, none, none, 1⟩], by decide⟩

/-! ### observation: group names of Caddyfile named routes (outside the property's quantifier) -/

/-- the tree the Caddyfile adapter emits for
    `&(nr) { handle /b { respond 201 }  handle { respond 202 } }` invoked from
    `handle /a { invoke nr }  handle { respond 203 }`: `extractNamedRoutes` counts groups with a
    counter of its own, so the named route's handle blocks carry group `g` = the group of the
    site's handle blocks (real adapter output: "group2" four times) -/
def namedGroupSite : List Route :=
  [ .mk 2 [[.atom .path [1]]] [.sub [.mk 0 [] [.invoke 1] false] false []] false,
    .mk 2 [] [.sub [.mk 0 [] [.answer (.lit 203)] false] false []] false ]
def namedGroupEnv (g : Nat) : List Route :=
  [ .mk 0 [] [.sub [ .mk g [[.atom .path [3]]] [.sub [.mk 0 [] [.answer (.lit 201)] false] false []] false,
                     .mk g [] [.sub [.mk 0 [] [.answer (.lit 202)] false] false []] false ] false []] false ]

/-- the server evaluates that tree exactly by the rules — groups are global to the request — and
    so skips every handle block of the named route: the request for `/a` gets the empty default
    response instead of the 202 the Caddyfile prescribes; with a group name of its own (candidate
    adapter patch) the named route answers. Not a clause of C05 (the emitted tree is evaluated
    correctly); reported as an adapter observation. -/
theorem named_route_in_invokers_group_is_skipped_observation :
    serveNamed (namedGroupEnv 2) namedGroupSite false [] wReq = ⟨[], none⟩ ∧
    serveNamed (namedGroupEnv 3) namedGroupSite false [] wReq = ⟨[], some 202⟩ := by decide

/-! ### source facts (regenerated from /repo on every run) -/

/-- the request-context values the routing reads are written at these places and nowhere else
    (sites identified by the key argument of `context.WithValue`, counted over the functions
    reachable from each entry point by same-package static calls — helper extraction and renames
    do not change the counts): vars table and original-request copy once each from `PrepareRequest`,
    the error once from `WithError` (reached from `Subroute.ServeHTTP` and `Server.ServeHTTP`), which
    writes NOTHING else; the second vars/original-request write of the totals is the active health
    checker's synthetic request (property C09). -/
theorem request_context_writes_match_source :
    Gen.requestCtxWrites = [
  ("PrepareRequest", "WithValue VarsCtxKey", 1),
  ("PrepareRequest", "WithValue OriginalRequestCtxKey", 1),
  ("PrepareRequest", "WithValue ErrorCtxKey", 0),
  ("wrapRoute", "WithValue VarsCtxKey", 0),
  ("wrapRoute", "WithValue OriginalRequestCtxKey", 0),
  ("wrapRoute", "WithValue ErrorCtxKey", 0),
  ("HTTPErrorConfig.WithError", "WithValue VarsCtxKey", 0),
  ("HTTPErrorConfig.WithError", "WithValue OriginalRequestCtxKey", 0),
  ("HTTPErrorConfig.WithError", "WithValue ErrorCtxKey", 1),
  ("Subroute.ServeHTTP", "WithValue VarsCtxKey", 0),
  ("Subroute.ServeHTTP", "WithValue OriginalRequestCtxKey", 0),
  ("Subroute.ServeHTTP", "WithValue ErrorCtxKey", 1),
  ("Server.ServeHTTP", "WithValue VarsCtxKey", 0),
  ("Server.ServeHTTP", "WithValue OriginalRequestCtxKey", 0),
  ("Server.ServeHTTP", "WithValue ErrorCtxKey", 1),
  ("total modules/caddyhttp/**", "WithValue VarsCtxKey", 2),
  ("total modules/caddyhttp/**", "WithValue OriginalRequestCtxKey", 2),
  ("total modules/caddyhttp/**", "WithValue ErrorCtxKey", 1)] := by decide

/-- the group map: exactly ONE `WithValue(routeGroupCtxKey)` in the tree, reachable from
    `PrepareRequest` and from no other entry point — none from `WithError`, `Subroute.ServeHTTP` or
    the server's error path; one reader, reachable from `wrapRoute`; no other mention. -/
theorem route_group_map_sites_match_source :
    Gen.routeGroupCtxUses = [
  ("PrepareRequest", "WithValue routeGroupCtxKey", 1),
  ("PrepareRequest", "Value routeGroupCtxKey", 0),
  ("wrapRoute", "WithValue routeGroupCtxKey", 0),
  ("wrapRoute", "Value routeGroupCtxKey", 1),
  ("HTTPErrorConfig.WithError", "WithValue routeGroupCtxKey", 0),
  ("HTTPErrorConfig.WithError", "Value routeGroupCtxKey", 0),
  ("Subroute.ServeHTTP", "WithValue routeGroupCtxKey", 0),
  ("Subroute.ServeHTTP", "Value routeGroupCtxKey", 0),
  ("Server.ServeHTTP", "WithValue routeGroupCtxKey", 0),
  ("Server.ServeHTTP", "Value routeGroupCtxKey", 0),
  ("total modules/caddyhttp/**", "WithValue routeGroupCtxKey", 1),
  ("total modules/caddyhttp/**", "Value routeGroupCtxKey", 1),
  ("total modules/caddyhttp/**", "other routeGroupCtxKey", 0)] := by decide

/-- `FromInterface` appends `matcherSet` to `*ms` unconditionally, once per round of its outer loop
    (the shape `provSetsInto` has), and so does `MatchNot.Provision` for the sets of a `not`; `ProvisionHandlers` appends every loaded handler and wraps every
    handler, in order (`provHandlersInto`). -/
theorem provisioning_loops_match_source :
    Gen.fromInterfaceLoopBody = ["decl", "range matcherSetIfaces", "*ms = append(*ms,matcherSet)"] ∧
    Gen.matchNotProvisionLoopBody = ["decl", "range modMap", "m.MatcherSets = append(m.MatcherSets,ms)"] ∧
    Gen.provisionHandlersLoops =
      [ "range ?: r.Handlers = append(r.Handlers,?)",
        "range r.Handlers: r.middleware = append(r.middleware,wrapMiddleware(ctx,midhandler,metrics))" ] := by
  refine ⟨?_, ?_, ?_⟩ <;> decide

end CaddyModel.C05
