/-
C02 — clauses of the property that the unchanged tree violates: the full statement, its negation
proved on a concrete run of the model, and the protocol line that replays the same run on the
implementation (exported as `witnessLines` in Driver.lean, reported as KNOWN-FINDING).
-/
import CaddyModel.C02.Lemmas

namespace CaddyModel.C02

def wU0 : Addr := ⟨true, 0⟩
def wT0 : Addr := ⟨false, 0⟩
def wSched : Sched := ⟨1, 0, 0, 0, 0, 1⟩

/-- the facts about a state that the refutations below need (a record, so that equality is decided
    by one derived instance) -/
structure Facts where
  zombies : List Gen
  phase : Phase
  drained : Bool
  curAddrs : Option (List Addr)
  cur : Option Gen
  next : Option Gen
  retiring : Option Gen
  everRejected : Bool
  t0 : List Conn
  u0 : List Conn
  u0file : Bool
deriving DecidableEq

def factsOf (s : State) : Facts :=
  ⟨s.zombies, s.phase, s.drained, s.cur.map Cfg.addrs, genOf s.cur, genOf s.next, genOf s.retiring, s.everRejected,
   connect s wT0, connect s wU0, (s.socks wU0).file⟩

/-! ### a dropped unix socket is not closed — `C02 seq 0 0 u0;- - -` -/

/-- load `[u0]`, then load a config without listeners -/
def wDropSteps : List Step :=
  reloadSteps ⟨0, [wU0]⟩ none wSched ++ reloadSteps ⟨1, []⟩ (some ⟨0, [wU0]⟩) wSched

theorem wDrop_facts : (run init wDropSteps).map factsOf
    = some ⟨[], .idle, true, some [], some 1, none, some 0, false, [.refused], [.hangs], true⟩ := by decide

/-- Full statement: *after the reload has returned and the old configuration has drained, an address
    that the new configuration dropped is closed* —
    `∀ s a, Reach s → s.zombies = [] → settled s → (∀ c, s.cur = some c → a ∉ c.addrs) → closed s a`.
    It fails for unix sockets, without any rejected load: `unixListener.Close` leaks the descriptor it
    duplicates to learn the path and unlinks a name that is not the path; the socket stays in LISTEN,
    connections are accepted by the kernel and never served, the file stays. -/
theorem dropped_address_closed_full_fails :
    ¬ (∀ (s : State) (a : Addr), Reach s → s.zombies = [] → settled s →
        (∀ c, s.cur = some c → a ∉ c.addrs) → closed s a) := by
  intro H
  cases hr : run init wDropSteps with
  | none => have := wDrop_facts; rw [hr] at this; cases this
  | some s =>
    have hf := wDrop_facts
    rw [hr] at hf
    simp only [Option.map_some, Option.some.injEq, factsOf, Facts.mk.injEq] at hf
    obtain ⟨hz, hp, hd, hc, _, _, _, _, _, hcon, _⟩ := hf
    have := H s wU0 (Reach.init.run _ _ hr) hz ⟨hp, hd⟩ (by
      intro c hc'; rw [hc'] at hc; simp at hc; rw [hc]; simp)
    unfold closed at this
    rw [hcon] at this
    rcases this with h | h <;> cases h

/-! ### a config that was rejected keeps answering — `C02 seq 0 0 u0;!u0;u0 - -` (and F2) -/

/-- load `[u0]`; a load of `[u0]` that is rejected after its apps started (it reused the socket, so
    `unixSockets` now points at its listener, which is closed when the rejected config is stopped);
    then a load of `[t0, u0]`: t0 is bound, the reuse of u0 fails, the HTTP app's Start fails and
    nobody closes t0. -/
def wStaleSteps : List Step :=
  reloadSteps ⟨0, [wU0]⟩ none wSched ++
  [.begin ⟨1, [wU0]⟩, .bind wU0, .cb .started 1, .reject, .cb .stopping 1, .close 1 wU0, .cb .cleanup 1, .ret] ++
  [.begin ⟨2, [wT0, wU0]⟩, .bind wT0, .bindStale wU0, .cb .cleanup 2, .ret]

theorem wStale_facts : (run init wStaleSteps).map factsOf
    = some ⟨[2], .idle, true, some [wU0], some 0, none, none, true, [.answered 2], [.answered 0], true⟩ := by decide

theorem connect_answered_mem {s : State} {a : Addr} {g : Gen} (h : connect s a = [.answered g]) : servers s a = [g] := by
  unfold connect at h
  split at h
  · cases hl : (s.socks a).gens with
    | nil => rw [hl] at h; cases h
    | cons x rest =>
      rw [hl] at h
      cases rest with
      | nil => simp at h; simp [servers, hl, h]
      | cons y r => simp at h
  · split at h
    · cases h
    · split at h
      · cases h
      · split at h <;> cases h

/-- Full statement: *a new connection is answered by either the old or the new configuration* —
    `∀ s a g, Reach s → g ∈ servers s a → alive s g` (no hypothesis on `zombies`).
    It fails after a rejected load: config 2 was rejected, yet it answers on t0 for ever, an address
    the running config does not even listen on (so the drained-state clauses fail as well). -/
theorem served_by_old_or_new_full_fails :
    ¬ (∀ (s : State) (a : Addr) (g : Gen), Reach s → g ∈ servers s a → alive s g) := by
  intro H
  cases hr : run init wStaleSteps with
  | none => have := wStale_facts; rw [hr] at this; cases this
  | some s =>
    have hf := wStale_facts
    rw [hr] at hf
    simp only [Option.map_some, Option.some.injEq, factsOf, Facts.mk.injEq] at hf
    obtain ⟨_, _, _, _, hc, hn, hre, _, ht, _, _⟩ := hf
    have hs := connect_answered_mem ht
    have := H s wT0 2 (Reach.init.run _ _ hr) (by rw [hs]; simp)
    unfold alive at this
    rw [hc, hn, hre] at this
    rcases this with h | h | h <;> cases h

/-- … and *after the drain only the new configuration answers / a dropped address is closed* fail in
    the same state: settled, t0 not in the running config, a listener still open on it -/
theorem after_drain_only_new_full_fails :
    ¬ (∀ (s : State) (a : Addr), Reach s → settled s → (∀ c, s.cur = some c → a ∉ c.addrs) → servers s a = []) := by
  intro H
  cases hr : run init wStaleSteps with
  | none => have := wStale_facts; rw [hr] at this; cases this
  | some s =>
    have hf := wStale_facts
    rw [hr] at hf
    simp only [Option.map_some, Option.some.injEq, factsOf, Facts.mk.injEq] at hf
    obtain ⟨_, hp, hd, hc, _, _, _, _, ht, _, _⟩ := hf
    have hs := connect_answered_mem ht
    have := H s wT0 (Reach.init.run _ _ hr) ⟨hp, hd⟩ (by
      intro c hc'; rw [hc'] at hc; simp at hc; rw [hc]; decide)
    rw [hs] at this; cases this

/-- the stale entry is what the model says the implementation hits: in the state before the third
    load, `reuseUnixSocket` would duplicate a closed listener -/
example : ((run init (wStaleSteps.take 14)).map fun s => ((s.socks wU0).stale, (s.socks wU0).umap, servers s wU0, s.everRejected))
    = some (true, some 1, [0], true) := by decide

end CaddyModel.C02
