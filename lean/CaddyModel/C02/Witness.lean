/-
C02 — the two clauses of the property that the code violated before it was repaired. For each: the
history, what the machine of `Model.lean` (the code as it is now) does with it, and what the same
machine with the OLD effects did — the `…_old_code_fails` theorems, which show that the full-strength
theorems of `Props.lean` are not vacuous. The protocol lines of the histories are replayed on the
implementation on every run (corpus/C02/regress.txt).
-/
import CaddyModel.C02.Lemmas

namespace CaddyModel.C02

def wU0 : Addr := ⟨true, 0⟩
def wT0 : Addr := ⟨false, 0⟩
def wSched : Sched := ⟨1, 0, 0, 0, 0, 1⟩

/-- the facts about a state that the refutations below need (a record, so that equality is decided
    by one derived instance) -/
structure Facts where
  zombies : List Gen
  phase : Phase
  drained : Bool
  curAddrs : Option (List Addr)
  cur : Option Gen
  next : Option Gen
  retiring : Option Gen
  t0 : List Conn
  u0 : List Conn
  u0file : Bool
deriving DecidableEq

def factsOf (s : State) : Facts :=
  ⟨s.zombies, s.phase, s.drained, s.cur.map Cfg.addrs, genOf s.cur, genOf s.next, genOf s.retiring,
   connect s wT0, connect s wU0, (s.socks wU0).file⟩

/-! ### a dropped unix socket, before and after the repair of `unixListener.Close` -/

/-- load `[u0]`, then load a config without listeners (`C02 seq 0 0 u0;- - -`, corpus/C02/regress.txt) -/
def wDropSteps : List Step :=
  reloadSteps ⟨0, [wU0]⟩ none wSched ++ reloadSteps ⟨1, []⟩ (some ⟨0, [wU0]⟩) wSched

/-- the code as it is now: the socket is gone -/
theorem wDrop_facts : (run init wDropSteps).map factsOf
    = some ⟨[], .idle, true, some [], some 1, none, some 0, [.refused], [.noent], false⟩ := by decide

/-- `unixListener.Close` at count 0 before the repair: it called `File()` to learn the path — which
    duplicates the descriptor (never closed again: the socket stays in LISTEN) and whose `Name()` is
    `"unix:<path>->"`, so the unlink failed and the file stayed -/
def closeUnixOld (k : Sock) (h : Handle) : Sock :=
  if k.ucnt ≤ 1 then
    { pool := poolAfterClose k h, ucnt := 0, umap := none, file := k.file, leaks := k.leaks + 1, hs := k.hs.erase h }
  else closeUnix k h

def closeSockOld (a : Addr) (k : Sock) (g : Gen) : Sock :=
  match k.hs.find? (fun h => h.gen == g) with
  | none => k
  | some h => if a.unix then closeUnixOld k h else closeTcp k h

/-- `reuseUnixSocket` before the repair: the `unixSockets` entry was replaced by the newest duplicate -/
def bindUnixOld (k : Sock) (g : Gen) : Sock :=
  match k.umap with
  | some _ => { k with ucnt := k.ucnt + 1, umap := some g, leaks := k.leaks + 1, hs := k.hs ++ [⟨g, .dup⟩] }
  | none => bindUnix k g

def bindSockOld (a : Addr) (k : Sock) (g : Gen) : Sock :=
  if a.unix then bindUnixOld k g else bindTcp k g

/-- … so it could point at a listener that is already closed -/
def staleOld (k : Sock) : Bool :=
  match k.umap with
  | some g => !k.holds g
  | none => false

def enabledOld (s : State) : Step → Bool
  | .bind a => bindable s a && !(a.unix && staleOld (s.socks a))
  | .bindStale a => bindable s a && a.unix && staleOld (s.socks a)
  | st => enabled s st

def effOld (s : State) : Step → State
  | .close g a => { s with socks := setSock s.socks a (closeSockOld a (s.socks a) g) }
  | .bind a => { s with socks := setSock s.socks a (bindSockOld a (s.socks a) (nextGen s)), phase := .start }
  | st => eff s st

def runOld (s : State) : List Step → Option State
  | [] => some s
  | st :: rest => if enabledOld s st then runOld (effOld s st) rest else none

/-- **Non-vacuity of `dropped_address_closed`: the old code violated it.**  The same history on the
    machine with the old close: settled, nothing rejected, the new config does not list u0 — and a
    connection to u0 is accepted by the kernel and never served, the file is still there. -/
theorem dropped_address_closed_old_code_fails : (runOld init wDropSteps).map factsOf
    = some ⟨[], .idle, true, some [], some 1, none, some 0, [.refused], [.hangs], true⟩ := by decide

/-! ### a reload rejected after it had started, before and after the repair of `reuseUnixSocket` -/

/-- load `[u0]`; a load of `[u0]` that is rejected after its apps started (it reused the socket; in the
    old code `unixSockets` then pointed at its listener, which is the one closed when the rejected
    config is stopped); then a load of `[t0, u0]` (`C02 seq 0 0 u0;!u0;t0,u0 - -`, corpus/C02/regress.txt) -/
def wRejectedSteps : List Step :=
  reloadSteps ⟨0, [wU0]⟩ none wSched ++
  [.begin ⟨1, [wU0]⟩, .bind wU0, .cb .started 1, .reject, .cb .stopping 1, .close 1 wU0, .cb .cleanup 1, .ret]

/-- the code as it is now: the third load is an ordinary reload -/
theorem wRejected_facts :
    (run init (wRejectedSteps ++ reloadSteps ⟨2, [wT0, wU0]⟩ (some ⟨0, [wU0]⟩) wSched)).map factsOf
    = some ⟨[], .idle, true, some [wT0, wU0], some 2, none, some 0, [.answered 2], [.answered 2], true⟩ := by decide

/-- the old machine: t0 is bound, the reuse of u0 fails, the HTTP app's Start fails and nobody closes t0 -/
def wStaleSteps : List Step :=
  wRejectedSteps ++ [.begin ⟨2, [wT0, wU0]⟩, .bind wT0, .bindStale wU0, .cb .cleanup 2, .ret]

/-- **Non-vacuity of `served_by_old_or_new`, `after_drain_only_new`, `dropped_address_has_no_listener`:
    the old code violated them.**  After the history above on the old machine: settled, config 0 is
    running (it lists u0 only), config 2 was rejected — and config 2 answers on t0, for ever
    (`zombies = [2]`): answered by a config that is neither old nor new, on an address the running
    config does not listen on. -/
theorem served_by_old_or_new_old_code_fails : (runOld init wStaleSteps).map factsOf
    = some ⟨[2], .idle, true, some [wU0], some 0, none, none, [.answered 2], [.answered 0], true⟩ := by decide

/-- the stale entry itself: in the old machine's state before the third load, `reuseUnixSocket` would
    duplicate a closed listener; the same history cannot even be written for the new machine, where the
    failing `Listen` is never enabled -/
example : ((runOld init wRejectedSteps).map fun s => (staleOld (s.socks wU0), (s.socks wU0).umap, (s.socks wU0).gens))
    = some (true, some 1, [0]) := by decide
example : (run init wStaleSteps).isNone = true := by decide

/-! ### abstract unix sockets: what skipping the last close's cleanup for them would do -/

def wA0 : Addr := ⟨true, 30⟩

/-- `unlinkUnixSocket` returning early for abstract names (before it closes the descriptor caddy keeps and
    deletes the `unixSockets` entry): the last close leaves the entry, the kept descriptor — and with it
    the kernel name — in place -/
def closeUnixKeepAbstract (a : Addr) (k : Sock) (h : Handle) : Sock :=
  if a.abstract && decide (k.ucnt ≤ 1) then
    { pool := poolAfterClose k h, ucnt := 0, umap := k.umap, file := k.file, leaks := k.leaks + 1, hs := k.hs.erase h }
  else closeUnix k h

def closeSockKeepAbstract (a : Addr) (k : Sock) (g : Gen) : Sock :=
  match k.hs.find? (fun h => h.gen == g) with
  | none => k
  | some h => if a.unix then closeUnixKeepAbstract a k h else closeTcp k h

def effKeepAbstract (s : State) : Step → State
  | .close g a => { s with socks := setSock s.socks a (closeSockKeepAbstract a (s.socks a) g) }
  | st => eff s st

def runKeepAbstract (s : State) : List Step → Option State
  | [] => some s
  | st :: rest => if enabled s st then runKeepAbstract (effKeepAbstract s st) rest else none

/-- load `[a0]`, then a config without listeners (`C02 seq 0 0 a0;- - -`) -/
def wAbsSteps : List Step :=
  reloadSteps ⟨0, [wA0]⟩ none wSched ++ reloadSteps ⟨1, []⟩ (some ⟨0, [wA0]⟩) wSched

/-- **Non-vacuity of `dropped_abstract_socket_is_refused`.**  The code's machine: refused, entry gone.
    With the early return: the name stays bound for the life of the process, a connect is accepted by the
    kernel and never served, the table entry (counter 0) stays for a later config to "reuse". -/
theorem dropped_abstract_socket_kept_open_fails :
    ((run init wAbsSteps).map fun s => (connect s wA0, (s.socks wA0).umap, (s.socks wA0).ucnt)) = some ([.refused], none, 0) ∧
    ((runKeepAbstract init wAbsSteps).map fun s => (connect s wA0, (s.socks wA0).umap, (s.socks wA0).ucnt))
      = some ([.hangs], some 0, 0) := by decide

/-! ### request contexts: what deriving them from the config's context would do -/

/-- the machine with request contexts descending from the config's context (`BaseContext` returning the
    server's `ctx`): cancelling the config cancels its in-flight requests -/
def effCfgCtx (s : State) : Step → State
  | .cancelCtx g => { s with cancelled := g :: s.cancelled, ctxLost := lostByCancel true s g ++ s.ctxLost }
  | st => eff s st

def runCfgCtx (s : State) : List Step → Option State
  | [] => some s
  | st :: rest => if enabled s st then runCfgCtx (effCfgCtx s st) rest else none

/-- a request accepted by config 0, a reload to config 1, config 0's context cancelled after its apps were
    stopped, the request answered afterwards -/
def wCtxSteps : List Step :=
  reloadSteps ⟨0, [wT0]⟩ none wSched ++
  [.accept 7 0 wT0, .begin ⟨1, [wT0]⟩, .bind wT0, .cb .started 1, .swap, .cb .stopping 0, .close 0 wT0, .cancelCtx 0,
   .cb .cleanup 0, .ret, .complete 7 0]

/-- **Non-vacuity of `inflight_completed_by_acceptor_with_live_context`.**  Same history: the code's
    machine keeps the request's context; with contexts derived from the config's context the request
    loses it at the reload (reverse_proxy then abandons the upstream request, the client gets an empty
    answer) although the connection is never cut. -/
theorem request_context_from_config_context_fails :
    ((run init wCtxSteps).map fun s => (s.ctxLost, s.done)) = some ([], [(7, 0)]) ∧
    ((runCfgCtx init wCtxSteps).map fun s => (s.ctxLost, s.done)) = some ([(7, 0)], [(7, 0)]) := by decide

end CaddyModel.C02
