/-
C02 — the small abstract account the property talks about.

The property speaks about three things only: who can answer a fresh connection to an address
(`servers`), whether an address is closed, and which config answers a request that was in flight.
It does not mention pools, counters, descriptors or files; `Props.lean` connects the two levels.
-/
import CaddyModel.C02.Model

namespace CaddyModel.C02

/-- configs that may answer a fresh connection to `a` in state `s` -/
def servers (s : State) (a : Addr) : List Gen := (s.socks a).gens

/-- nothing listens on `a` any more: a connect is refused (or the socket file is gone) -/
def closed (s : State) (a : Addr) : Prop :=
  connect s a = [.refused] ∨ connect s a = [.noent]

/-- the reload is over and the replaced config has drained -/
def settled (s : State) : Prop := s.phase = .idle ∧ s.drained = true

/-- the configs a client may legitimately be talking to while a reload is in progress: the one that
    is running, the one being started, the one being stopped -/
def alive (s : State) (g : Gen) : Prop :=
  genOf s.cur = some g ∨ genOf s.next = some g ∨ genOf s.retiring = some g

/-- **Spec of one reload**, on the observable projection: after `new` has replaced `old` and `old`
    has drained, exactly `new` answers on the addresses of `new`, everything else is closed. -/
def reloadSpec (new : Cfg) (s : State) : Prop :=
  (∀ a, a ∈ new.addrs → servers s a = [new.gen]) ∧ (∀ a, a ∉ new.addrs → closed s a)

/-- every config this run loads keeps listening on `a` (and the run never stops caddy) -/
def keeps (a : Addr) : List Step → Bool
  | [] => true
  | .begin c :: rest => c.addrs.contains a && keeps a rest
  | .stopAll :: _ => false
  | _ :: rest => keeps a rest

/-- the requests this run saw accepted: (token, accepting config) -/
def acceptedOf : List Step → List (Nat × Gen)
  | [] => []
  | .accept t g _ :: rest => (t, g) :: acceptedOf rest
  | _ :: rest => acceptedOf rest

/-- the step removes the socket file of `a` from the filesystem (the only unlink the code performs
    that works: `reuseUnixSocket` before a fresh bind) -/
def unlinks (s : State) (st : Step) (a : Addr) : Prop :=
  st = .bind a ∧ a.unix = true ∧ (s.socks a).umap = none

end CaddyModel.C02
