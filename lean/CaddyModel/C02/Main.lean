import CaddyModel.Util.DrvMain
import CaddyModel.C02.Driver

def main (args : List String) : IO Unit :=
  CaddyModel.drvMain "C02" CaddyModel.C02.handle CaddyModel.C02.witnessLines args
