/-
C02 — the shared QUIC listener (`NetworkAddress.ListenQUIC`, `sharedQuicListener`, `sharedQUICState`,
`fakeCloseQuicListener`; listeners.go:425-635), as the code is.

HTTP/3 listeners of consecutive configs do not bind a socket each. The first `ListenQUIC` on an address
constructs one `sharedQuicListener` (booking the udp socket once, under the udp key) and every `ListenQUIC`
takes one reference on it in `listenerPool` under the quic key; `Close` on a `fakeCloseQuicListener` cancels
its context, removes its tls.Config from `sharedQUICState.tlsConfs` and drops its reference; the last
reference destructs the listener and the socket. Which config's tls.Config answers a handshake is
`activeTlsConf`: set by the constructor, NOT changed by later `addState`s, replaced by "another" entry of the
map only when the active one is cancelled. (The comment in ListenQUIC says the latest config is returned;
the code returns the OLDEST open one — `active_is_oldest_open`. Either is "the old or the new config".)
"Another" is the first key Go's map iteration yields: with more than one left (the oldest of three open
listeners is closed) it is the runtime's choice. The deterministic model (`QState`, lines satisfying `qOk`)
takes the oldest; the general model (`QPoss`) carries the SET of configs that may be active and is what
the driver runs: `possible_active_is_open` is what holds in general.
-/
namespace CaddyModel.C02

structure QState where
  opened : List Nat     -- generations whose listener is open, in order of ListenQUIC (= keys of tlsConfs)
  active : Option Nat   -- activeTlsConf
deriving DecidableEq, Repr

def QState.init : QState := ⟨[], none⟩

/-- references on the quic key / on the udp key -/
def QState.quicRefs (s : QState) : Nat := s.opened.length
def QState.udpRefs (s : QState) : Nat := if s.opened.isEmpty then 0 else 1

/-- `ListenQUIC` with the tls.Config of generation `g` -/
def qListen (s : QState) (g : Nat) : QState :=
  if s.opened.isEmpty then ⟨[g], some g⟩ else ⟨s.opened ++ [g], s.active⟩

/-- `fakeCloseQuicListener.Close` of generation `g` -/
def qClose (s : QState) (g : Nat) : QState :=
  ⟨s.opened.erase g, if s.active = some g then (s.opened.erase g).head? else s.active⟩

inductive QOp where
  | listen (g : Nat)
  | close (g : Nat)
  | dial
deriving DecidableEq, Repr

/-- what a handshake from a fresh client is answered with -/
def qDial (s : QState) : Option Nat := if s.opened.isEmpty then none else s.active

def qStep (s : QState) : QOp → QState
  | .listen g => qListen s g
  | .close g => qClose s g
  | .dial => s

/-- the lines the harness generates: fresh generations, at most three listeners open, only open listeners
    are closed, and never the oldest of three (Go's map order would pick its successor) -/
def qOk (s : QState) (used : List Nat) : List QOp → Bool
  | [] => true
  | .listen g :: rest => !used.contains g && s.opened.length < 3 && qOk (qListen s g) (g :: used) rest
  | .close g :: rest =>
    s.opened.contains g && !(s.opened.head? == some g && s.opened.length ≥ 3) && qOk (qClose s g) used rest
  | .dial :: rest => qOk s used rest

def qRun (s : QState) : List QOp → QState
  | [] => s
  | op :: rest => qRun (qStep s op) rest

structure QInv (s : QState) (used : List Nat) : Prop where
  oldest : s.active = s.opened.head? ∨ s.opened = []
  nodup : s.opened.Nodup
  sub : ∀ g, g ∈ s.opened → g ∈ used

theorem QInv.step {s : QState} {used : List Nat} (h : QInv s used) :
    ∀ (op : QOp) (rest : List QOp), qOk s used (op :: rest) = true →
      ∃ used', QInv (qStep s op) used' ∧ qOk (qStep s op) used' rest = true
  | .dial, rest, hk => ⟨used, h, by simpa [qOk, qStep] using hk⟩
  | .listen g, rest, hk => by
    simp only [qOk, Bool.and_eq_true, Bool.not_eq_true', decide_eq_true_eq] at hk
    obtain ⟨⟨hnu, _⟩, hrest⟩ := hk
    have hng : g ∉ s.opened := fun hm => by
      have := h.sub g hm
      simp [this] at hnu
    refine ⟨g :: used, ?_, hrest⟩
    simp only [qStep, qListen]
    split
    · rename_i he
      exact ⟨Or.inl rfl, by simp, by simp⟩
    · rename_i hne
      refine ⟨?_, ?_, ?_⟩
      · rcases h.oldest with ho | ho
        · left
          cases hl : s.opened with
          | nil => simp [hl] at hne
          | cons x t => simp [hl] at ho ⊢; exact ho
        · simp [ho] at hne
      · rw [List.nodup_append]
        exact ⟨h.nodup, by simp, fun a ha b hb => by simp at hb; subst hb; exact fun e => hng (e ▸ ha)⟩
      · intro x hx
        rcases List.mem_append.mp hx with hx | hx
        · exact List.mem_cons_of_mem _ (h.sub x hx)
        · simp at hx; subst hx; exact List.mem_cons_self
  | .close g, rest, hk => by
    simp only [qOk, Bool.and_eq_true] at hk
    refine ⟨used, ?_, hk.2⟩
    simp only [qStep, qClose]
    refine ⟨?_, h.nodup.erase g, fun x hx => h.sub x (List.mem_of_mem_erase hx)⟩
    cases hl : s.opened with
    | nil => right; simp
    | cons x t =>
      left
      rcases h.oldest with ho | ho
      · rw [hl] at ho
        simp only [List.head?_cons] at ho
        by_cases hx : x = g
        · subst hx
          simp [ho]
        · have : s.active ≠ some g := by rw [ho]; simpa using hx
          simp only [if_neg this]
          rw [List.erase_cons_tail (by simpa using hx)]
          simpa using ho
      · rw [hl] at ho; cases ho

theorem QInv.run : ∀ (ops : List QOp) {s : QState} {used : List Nat}, QInv s used → qOk s used ops = true →
    ∃ used', QInv (qRun s ops) used'
  | [], s, used, h, _ => ⟨used, h⟩
  | op :: rest, s, used, h, hk => by
    obtain ⟨used', h', hk'⟩ := h.step op rest hk
    exact QInv.run rest h' hk'

theorem QInv.init : QInv QState.init [] := ⟨Or.inr rfl, by simp [QState.init], fun g hg => by simp [QState.init] at hg⟩

/-! ### what the property needs of the shared QUIC listener -/

/-- **A handshake is answered by the oldest config whose listener is open** — in particular by one that
    is open: the old or the new config, never a closed one, and always someone while any is open. -/
theorem active_is_oldest_open (ops : List QOp) (hk : qOk QState.init [] ops = true) :
    qDial (qRun QState.init ops) = (qRun QState.init ops).opened.head? := by
  obtain ⟨_, h⟩ := QInv.run ops QInv.init hk
  unfold qDial
  cases hl : (qRun QState.init ops).opened with
  | nil => simp
  | cons x t =>
    rcases h.oldest with ho | ho
    · simp [ho, hl]
    · rw [hl] at ho; cases ho

/-- **after the drain only the new config answers**: when one listener is left it is the active one -/
theorem quic_after_drain_only_new (ops : List QOp) (hk : qOk QState.init [] ops = true) (g : Nat)
    (h1 : (qRun QState.init ops).opened = [g]) : qDial (qRun QState.init ops) = some g := by
  rw [active_is_oldest_open ops hk, h1]; rfl

/-- the socket is bound exactly as long as a listener is open; one reference per open listener -/
theorem quic_refs (s : QState) : s.quicRefs = s.opened.length ∧ (s.udpRefs = 1 ↔ s.opened ≠ []) := by
  refine ⟨rfl, ?_⟩
  unfold QState.udpRefs
  cases s.opened <;> simp

/-- (as the code is) while both are open, the OLD config's tls.Config answers, not the latest one -/
theorem latest_config_does_not_win :
    qDial (qRun QState.init [.listen 0, .listen 1]) = some 0 ∧
    qDial (qRun QState.init [.listen 0, .listen 1, .close 0]) = some 1 ∧
    qDial (qRun QState.init [.listen 0, .listen 1, .close 1]) = some 0 := by decide

example : qOk QState.init [] [.listen 0, .listen 1, .listen 2, .dial, .close 1, .dial, .close 0, .dial, .close 2] = true := by decide
example : qOk QState.init [] [.listen 0, .listen 1, .listen 2, .close 0] = false := by decide

/-! ### in general: the set of configs that may be active -/

structure QPoss where
  opened : List Nat
  poss : List Nat     -- the configs `activeTlsConf` may be, over all choices of Go's map iteration
deriving DecidableEq, Repr

def QPoss.init : QPoss := ⟨[], []⟩

def qpListen (s : QPoss) (g : Nat) : QPoss :=
  if s.opened.isEmpty then ⟨[g], [g]⟩ else ⟨s.opened ++ [g], s.poss⟩

/-- if the closed config may be the active one, any of the remaining ones may become active -/
def qpClose (s : QPoss) (g : Nat) : QPoss :=
  ⟨s.opened.erase g, s.poss.filter (fun a => a != g) ++ (if s.poss.contains g then s.opened.erase g else [])⟩

def qpStep (s : QPoss) : QOp → QPoss
  | .listen g => qpListen s g
  | .close g => qpClose s g
  | .dial => s

/-- fresh generations, at most three listeners open, only open listeners are closed — in any order -/
def qpOk (s : QPoss) (used : List Nat) : List QOp → Bool
  | [] => true
  | .listen g :: rest => !used.contains g && s.opened.length < 3 && qpOk (qpListen s g) (g :: used) rest
  | .close g :: rest => s.opened.contains g && qpOk (qpClose s g) used rest
  | .dial :: rest => qpOk s used rest

def qpRun (s : QPoss) : List QOp → QPoss
  | [] => s
  | op :: rest => qpRun (qpStep s op) rest

structure QPInv (s : QPoss) (used : List Nat) : Prop where
  sub : ∀ a, a ∈ s.poss → a ∈ s.opened
  some : s.opened ≠ [] → s.poss ≠ []
  usedSub : ∀ g, g ∈ s.opened → g ∈ used

theorem QPInv.step {s : QPoss} {used : List Nat} (h : QPInv s used) :
    ∀ (op : QOp) (rest : List QOp), qpOk s used (op :: rest) = true →
      ∃ used', QPInv (qpStep s op) used' ∧ qpOk (qpStep s op) used' rest = true
  | .dial, rest, hk => ⟨used, h, by simpa [qpOk, qpStep] using hk⟩
  | .listen g, rest, hk => by
    simp only [qpOk, Bool.and_eq_true] at hk
    refine ⟨g :: used, ?_, hk.2⟩
    simp only [qpStep, qpListen]
    split
    · exact ⟨by simp, by simp, by simp⟩
    · rename_i hne
      have hne' : s.opened ≠ [] := fun e => hne (by simp [e])
      refine ⟨fun a ha => List.mem_append_left _ (h.sub a ha), fun _ => h.some hne', ?_⟩
      intro x hx
      rcases List.mem_append.mp hx with hx | hx
      · exact List.mem_cons_of_mem _ (h.usedSub x hx)
      · simp at hx; subst hx; exact List.mem_cons_self
  | .close g, rest, hk => by
    simp only [qpOk, Bool.and_eq_true] at hk
    refine ⟨used, ?_, hk.2⟩
    simp only [qpStep, qpClose]
    refine ⟨?_, ?_, fun x hx => h.usedSub x (List.mem_of_mem_erase hx)⟩
    · intro a ha
      rcases List.mem_append.mp ha with ha | ha
      · have hm := List.mem_filter.mp ha
        have hne : a ≠ g := by simpa using hm.2
        exact (List.mem_erase_of_ne hne).mpr (h.sub a hm.1)
      · split at ha
        · exact ha
        · cases ha
    · intro hrest
      have hop : s.opened ≠ [] := fun e => hrest (by simp [e])
      obtain ⟨a, ha⟩ := List.exists_mem_of_ne_nil _ (h.some hop)
      by_cases hag : a = g
      · subst hag
        have : s.poss.contains a = true := by simpa using ha
        simp only [this, if_true]
        intro e
        exact hrest (List.append_eq_nil_iff.mp e).2
      · intro e
        have : a ∈ s.poss.filter (fun x => x != g) := List.mem_filter.mpr ⟨ha, by simpa using hag⟩
        rw [(List.append_eq_nil_iff.mp e).1] at this
        cases this

theorem QPInv.run : ∀ (ops : List QOp) {s : QPoss} {used : List Nat}, QPInv s used → qpOk s used ops = true →
    ∃ used', QPInv (qpRun s ops) used'
  | [], s, used, h, _ => ⟨used, h⟩
  | op :: rest, s, used, h, hk => by
    obtain ⟨used', h', hk'⟩ := h.step op rest hk
    exact QPInv.run rest h' hk'

theorem QPInv.init : QPInv QPoss.init [] := ⟨by simp [QPoss.init], by simp [QPoss.init], by simp [QPoss.init]⟩

/-- **Whatever Go's map iteration picks — also when the oldest of three open listeners is closed — a
    handshake is answered by a config whose listener is open, and by some config as long as any listener
    is open.**  (Which one is not determined then: it need be neither the oldest nor the latest.) -/
theorem possible_active_is_open (ops : List QOp) (hk : qpOk QPoss.init [] ops = true) :
    (∀ a, a ∈ (qpRun QPoss.init ops).poss → a ∈ (qpRun QPoss.init ops).opened) ∧
    ((qpRun QPoss.init ops).opened ≠ [] → (qpRun QPoss.init ops).poss ≠ []) := by
  obtain ⟨_, h⟩ := QPInv.run ops QPInv.init hk
  exact ⟨h.sub, h.some⟩

/-- … and once a single listener is left it is the one that answers, whatever was picked before -/
theorem possible_active_after_drain (ops : List QOp) (hk : qpOk QPoss.init [] ops = true) (g : Nat)
    (h1 : (qpRun QPoss.init ops).opened = [g]) : ∀ a, a ∈ (qpRun QPoss.init ops).poss → a = g := by
  intro a ha
  have := (possible_active_is_open ops hk).1 a ha
  rw [h1] at this
  simpa using this

-- closing the oldest of three: either of the two others may answer; closing one of them settles it
example : (qpRun QPoss.init [.listen 0, .listen 1, .listen 2, .close 0]).poss = [1, 2] := by decide
example : (qpRun QPoss.init [.listen 0, .listen 1, .listen 2, .close 0, .close 1]).poss = [2, 2] := by decide
example : qpOk QPoss.init [] [.listen 0, .listen 1, .listen 2, .close 0, .dial, .close 1, .dial] = true := by decide

end CaddyModel.C02
