import CaddyModel.C02.Props
import CaddyModel.C02.Witness
import CaddyModel.C02.Key
import CaddyModel.C02.Quic
open CaddyModel.C02
#print axioms current_config_holds_its_addresses
#print axioms retained_never_unbound
#print axioms retained_never_unbound_every_prefix
#print axioms retained_usage_count_positive
#print axioms pool_counts_holders
#print axioms served_by_old_or_new
#print axioms one_reload_alive_old_or_new
#print axioms connect_current_address_answered
#print axioms after_drain_only_new
#print axioms dropped_address_has_no_listener
#print axioms dropped_address_closed
#print axioms reload_meets_spec
#print axioms reload_state_meets_spec
#print axioms unix_unlink_only_at_zero
#print axioms held_unix_socket_has_file
#print axioms unix_socket_file_iff_held
#print axioms connect_never_hangs
#print axioms inflight_completed_by_acceptor
#print axioms accepted_by_a_holder
#print axioms reload_is_a_run
#print axioms reload_never_unbinds_retained
#print axioms reload_sequence_is_a_run
#print axioms admin_listener_never_unbound
#print axioms admin_retained_never_unbound
#print axioms admin_served_by_current_or_replaced
#print axioms admin_after_drain
#print axioms admin_not_rolled_back
#print axioms admin_reorder_breaks_it
#print axioms reorder_breaks_it
#print axioms dropped_address_closed_old_code_fails
#print axioms served_by_old_or_new_old_code_fails
#print axioms bookKey_ignores_permission_bits
#print axioms bookKey_is_bare_path
#print axioms usageKey_eq_bookKey_of_not_unix
#print axioms parseAddr_size_pos
#print axioms usageKey_vs_bookKey_with_permission_bits
#print axioms usage_key_expression_matches_source
#print axioms active_is_oldest_open
#print axioms quic_after_drain_only_new
#print axioms quic_refs
#print axioms latest_config_does_not_win
#print axioms retained_tcp_usage_at_least_two_at_stop
#print axioms closing_tcp_usage_is_one_at_stop
#print axioms shutdown_delay_decision_exact_for_tcp
#print axioms retained_unix_usage_is_one_at_stop
#print axioms possible_active_is_open
#print axioms possible_active_after_drain
#print axioms range_socket_key_eq_single
