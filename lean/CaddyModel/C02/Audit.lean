import CaddyModel.C02.Props
open CaddyModel.C02
#print axioms run_nil
