/-
C02 — the glue between a listen address as written in a config and the key under which its listener is
booked: `ParseNetworkAddressWithDefaults` after `SplitNetworkAddress` (listeners.go:322-372),
`internal.SplitUnixSocketPermissionsBits`, `PortRangeSize` / `Expand` / `At` / `JoinHostPort`, the `address`
and `lnKey` of `NetworkAddress.listen` (listeners.go:150-183), the key of `ListenQUIC` (436) and the key the
consumers of `ListenerUsage` derive (modules/caddyhttp/app.go: `addr.JoinHostPort(0)` of `na.Expand()`).
`SplitNetworkAddress` / `net.SplitHostPort` are the byte-level model of C13 (`C13/Listen.lean`,
`splitNetworkAddress`): the driver runs it on the address and checks it against what the real
`SplitNetworkAddress` returned.
-/
namespace CaddyModel.C02

structure NetAddr where
  network : String
  host : String
  startPort : Nat
  endPort : Nat
deriving DecidableEq, Repr

def isUnixNet (n : String) : Bool := n.startsWith "unix"
def isFdNet (n : String) : Bool := n.startsWith "fd"

/-- `strconv.ParseUint(s, base, bits)` for base 8 / 10: digits only, non-empty, below `2^bits` -/
def parseUintChars (base limit : Nat) : List Char → Nat → Option Nat
  | [], acc => some acc
  | c :: rest, acc =>
    if '0' ≤ c ∧ c.toNat < 48 + base then
      (if acc * base + (c.toNat - 48) < limit then parseUintChars base limit rest (acc * base + (c.toNat - 48)) else none)
    else none

def parseUint (base limit : Nat) (s : String) : Option Nat :=
  if s.isEmpty then none else parseUintChars base limit s.toList 0

/-- `internal.SplitUnixSocketPermissionsBits`: (path, mode); `none` = error. Default mode 0200; the
    owner needs the write bit. (Modes ≥ 2^19 would render type letters in `FileMode.String()`: the
    harness does not generate them.) -/
def splitPerm (host : String) : Option (String × Nat) :=
  match host.splitOn "|" with
  | [p] => some (p, 0o200)
  | p :: rest =>
    match parseUint 8 (2 ^ 32) ("|".intercalate rest) with
    | some m => if m / 128 % 2 == 1 then some (p, m) else none
    | none => none
  | [] => none

/-- the port part: `""` → default, `a` or `a-b` with 16-bit decimals, `b ≥ a` -/
def parsePorts (port : String) (dflt : Nat) : Option (Nat × Nat) :=
  if port.isEmpty then some (dflt, dflt) else
  match port.splitOn "-" with
  | [a] => (parseUint 10 65536 a).map fun x => (x, x)
  | a :: rest =>
    match parseUint 10 65536 a, parseUint 10 65536 ("-".intercalate rest) with
    | some x, some y => if y < x then none else some (x, y)
    | _, _ => none
  | [] => none

/-- `ParseNetworkAddressWithDefaults` once the network is known -/
def parseAddrNw (nw host port : String) : Option NetAddr :=
  if isUnixNet nw then
    match splitPerm host with
    | some _ => some ⟨nw, host, 0, 0⟩
    | none => none
  else if isFdNet nw then some ⟨nw, host, 0, 0⟩
  else
    match parsePorts port 0 with
    | some p => some ⟨nw, host, p.1, p.2⟩
    | none => none

/-- `ParseNetworkAddressWithDefaults(addr, "tcp", 0)` given what `SplitNetworkAddress` returned -/
def parseAddr (network host port : String) : Option NetAddr :=
  parseAddrNw (if network.isEmpty then "tcp" else network) host port

def NetAddr.size (na : NetAddr) : Nat := if na.endPort < na.startPort then 0 else na.endPort - na.startPort + 1

/-- `net.JoinHostPort` -/
def joinHostPort (host : String) (port : Nat) : String :=
  if host.contains ':' then "[" ++ host ++ "]:" ++ toString port
  else host ++ ":" ++ toString port

/-- `na.JoinHostPort(offset)` -/
def NetAddr.joinHostPort (na : NetAddr) (off : Nat) : String :=
  if isUnixNet na.network || isFdNet na.network then na.host else C02.joinHostPort na.host (na.startPort + off)

/-- the `address` that `listen` binds (and `reuseUnixSocket` looks up): a unix socket's path without its
    permission bits -/
def NetAddr.bindAddress (na : NetAddr) (off : Nat) : String :=
  if isUnixNet na.network then
    match splitPerm na.host with
    | some (p, _) => p
    | none => na.host
  else na.joinHostPort off

def listenerKey (network addr : String) : String := network ++ "/" ++ addr

/-- the key `listen` books the listener under -/
def NetAddr.bookKey (na : NetAddr) (off : Nat) : String := listenerKey na.network (na.bindAddress off)

/-- the key the HTTP app's Stop asks `ListenerUsage` about for this socket (`na.Expand()`, `JoinHostPort(0)`) -/
def NetAddr.usageKey (na : NetAddr) (off : Nat) : String := listenerKey na.network (na.joinHostPort off)

/-- the call site `usageKey` transliterates, in the notation of the regenerated fact
    `Gen.listenerUsageCalls` (arguments | enclosing range loops): the HTTP app's Stop asks about every
    socket of every address of every server, `na.Expand()` turning a port range into single-port
    addresses, whose `JoinHostPort(0)` is `na.JoinHostPort(off)` of the range.
    `Props.usage_key_expression_matches_source` ties it to the source; the harness's `key` op
    (harness/internal/c02/key.go) evaluates the same expression on the real `NetworkAddress`. -/
def usageCallSite : String :=
  "addr.Network, addr.JoinHostPort(0) | server in app.Servers; na in server.addresses; addr in na.Expand()"

/-- the key of the shared QUIC listener -/
def NetAddr.quicKey (na : NetAddr) (off : Nat) : String := listenerKey ("quic" ++ na.network) (na.joinHostPort off)

/-- `parseAdminListenAddr`: exactly one socket -/
def adminAddrOk (na : NetAddr) : Bool := na.size == 1

/-! ### what the property needs of this glue -/

/-- **The booking key of a unix socket does not depend on how its permission bits are written** — the
    listener of `unix//p|0660` and of `unix//p|0620` (or of `unix//p`) is one pool entry, so a reload that
    only changes the bits takes the socket over instead of unlinking it. -/
theorem bookKey_ignores_permission_bits (nw p : String) (h1 h2 : String) (m1 m2 : Nat) (hu : isUnixNet nw = true)
    (e1 : splitPerm h1 = some (p, m1)) (e2 : splitPerm h2 = some (p, m2)) (off1 off2 : Nat) :
    (NetAddr.mk nw h1 0 0).bookKey off1 = (NetAddr.mk nw h2 0 0).bookKey off2 := by
  simp [NetAddr.bookKey, NetAddr.bindAddress, hu, e1, e2]

/-- … and it is the bare path: the key `reuseUnixSocket(network, address)` looks up -/
theorem bookKey_is_bare_path (nw h p : String) (m : Nat) (hu : isUnixNet nw = true) (e : splitPerm h = some (p, m))
    (off : Nat) : (NetAddr.mk nw h 0 0).bookKey off = nw ++ "/" ++ p := by
  simp [NetAddr.bookKey, NetAddr.bindAddress, listenerKey, hu, e]

/-- for everything that is not a unix socket the consumers of `ListenerUsage` derive the booking key -/
theorem usageKey_eq_bookKey_of_not_unix (na : NetAddr) (h : isUnixNet na.network = false) (off : Nat) :
    na.usageKey off = na.bookKey off := by
  simp [NetAddr.usageKey, NetAddr.bookKey, NetAddr.bindAddress, h]

/-- **A socket of a port range and the same port written as an address of its own share the booking key**
    (and the usage and QUIC keys): a reload from `h:8080-8081` to `h:8080` keeps that listener, one from
    `h:8080` to the range adds one. This is why the lifecycle machine can work on sockets: the harness
    writes p0, p1 as the range `r0` or singly, the keys are the same. -/
theorem range_socket_key_eq_single (nw h : String) (sp ep off : Nat) :
    (NetAddr.mk nw h sp ep).bookKey off = (NetAddr.mk nw h (sp + off) (sp + off)).bookKey 0 ∧
    (NetAddr.mk nw h sp ep).usageKey off = (NetAddr.mk nw h (sp + off) (sp + off)).usageKey 0 ∧
    (NetAddr.mk nw h sp ep).quicKey off = (NetAddr.mk nw h (sp + off) (sp + off)).quicKey 0 := by
  simp [NetAddr.bookKey, NetAddr.usageKey, NetAddr.quicKey, NetAddr.bindAddress, NetAddr.joinHostPort]

/-- the sockets of a port range: as many as ports, none for an inverted range -/
theorem size_eq (na : NetAddr) (h : na.startPort ≤ na.endPort) : na.size = na.endPort - na.startPort + 1 := by
  simp [NetAddr.size, Nat.not_lt.mpr h]

theorem parsePorts_le (port : String) (d : Nat) (p : Nat × Nat) (hp : parsePorts port d = some p) : p.1 ≤ p.2 := by
  unfold parsePorts at hp
  split at hp
  · cases hp; exact Nat.le_refl _
  · split at hp
    · rename_i a _
      cases ha : parseUint 10 65536 a with
      | none => simp [ha] at hp
      | some x => simp [ha] at hp; subst hp; exact Nat.le_refl _
    · split at hp
      · split at hp
        · cases hp
        · rename_i hnot; cases hp; exact Nat.le_of_not_lt hnot
      · cases hp
    · cases hp

/-- a parsed address never has an inverted range, so it has at least one socket -/
theorem parseAddr_size_pos (nw host port : String) (na : NetAddr) (h : parseAddrNw nw host port = some na) :
    1 ≤ na.size := by
  unfold parseAddrNw at h
  split at h
  · split at h
    · cases h; simp [NetAddr.size]
    · cases h
  · split at h
    · cases h; simp [NetAddr.size]
    · split at h
      · rename_i p hp
        cases h
        have hle := parsePorts_le port 0 p hp
        simp [NetAddr.size, Nat.not_lt.mpr hle]
      · cases h

/-! ### non-vacuity and the known mismatch -/

example : (NetAddr.mk "tcp" "127.0.0.1" 8080 8082).size = 3 := by decide
example : (NetAddr.mk "tcp" "127.0.0.1" 9 8).size = 0 := by decide
-- (string-level instances — `unix//p|0660`, `[::1]:443`, `90-80` … — are exercised through the driver's
-- `key` op against the real functions: `String.splitOn` does not reduce in the kernel)

/-- (as the code is) for a unix socket written with permission bits the consumers of `ListenerUsage` ask
    about `network/host` with the bits, while the listener is booked under `network/path`: whenever the
    host differs from its path the lookup finds nothing and `shutdown_delay` is enforced although the
    listener stays through the reload. Not a clause of C02 (the address keeps being served); reported. -/
theorem usageKey_vs_bookKey_with_permission_bits (nw h p : String) (m : Nat) (hu : isUnixNet nw = true)
    (e : splitPerm h = some (p, m)) (off : Nat) :
    (NetAddr.mk nw h 0 0).usageKey off = nw ++ "/" ++ h ∧ (NetAddr.mk nw h 0 0).bookKey off = nw ++ "/" ++ p := by
  simp [NetAddr.usageKey, NetAddr.joinHostPort, NetAddr.bookKey, NetAddr.bindAddress, listenerKey, hu, e]

end CaddyModel.C02
