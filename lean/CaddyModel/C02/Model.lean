/-
C02 — model of the listener bookkeeping across config reloads, as the code is.

One address (`Addr`) has a `Sock` record:
  * `pool`   usage count of its key in `listenerPool` (listeners.go / listen_unix.go:161,293)
  * `ucnt`   the shared `*int32` counter of its `unixSockets` entry (0 = no entry)
  * `umap`   the `unixSockets` entry exists (tagged with the generation that bound the socket afresh)
  * `file`   the socket file exists on disk
  * `leaks`  duplicated descriptors nobody closes, which would keep the kernel socket listening after its
             last listener was closed. The code no longer has any (`reuseUnixSocket` closes the file it
             duplicates from, `unixListener.Close` takes the path from the address): `Reach.clean` proves
             the field stays 0; it is kept so that the behaviour before the repair can be stated (Witness.lean)
  * `hs`     the open listeners (who is accepting on this address), each tagged with the config
             generation that bound it and with how: `fresh` = `listenReusable` (a real bind, wrapped
             in `deleteListener`, counted in `listenerPool`), `dup` = `reuseUnixSocket` (a bare
             `*unixListener` on a duplicated descriptor, NOT counted in `listenerPool`)

Quirks kept on purpose:
  * a reused unix socket does not touch `listenerPool`; only the first binder's close deletes from it;
  * the last close of a unix socket (`unixListener.Close` at count 0) forgets the socket and unlinks its
    path, both under `unixSocketsMu`;
  * the `unixSockets` entry is a descriptor of the pool's own (`keepUnixSocket`), duplicated from on every
    reuse and closed by the last close: it cannot go stale, in whichever order listeners are closed.
    (Before the repair the entry was the most recent listener handed out; when that one was closed
    first — a reload rejected after it had started — the next `reuseUnixSocket` failed, the HTTP app's
    `Start` failed half-way and the listeners it had already bound were never closed. The step `bindStale`
    and the field `zombies` describe that failure; they are kept, never enabled / always empty
    (`Reach.noZombies`), so that the old behaviour stays expressible: Witness.lean.)

The lifecycle is a labelled transition system at lifecycle-step grain (`Step`): `begin` (Load:
provision phase of a new config), one `cb` per Provision/Start/Stop/Cleanup/event callback of any
module, one `bind` per listener of the new config, `swap`, `reject`, one `close` per listener of the
replaced config (issued asynchronously by `http.Server.Shutdown`, hence interleaved arbitrarily with the
remaining callbacks), `ret`, `stopAll` (caddy.Stop), `gc`, the client-side steps `accept` /
`complete` of in-flight requests, and `adminReplace` / `adminClose` for the admin endpoint, which is replaced
at the beginning of every load (new listener first, old server shut down asynchronously afterwards) and
is neither rolled back when the load is rejected nor stopped by caddy.Stop.  `enabled` is the guard ("can the code do this now"), `eff` the
effect; `step?` = guard + effect.  A reload begins only when the listeners of the previously
replaced config have been closed (`drained`; assumption recorded in props.d/C02.json).
-/
namespace CaddyModel.C02

structure Addr where
  unix : Bool
  id : Nat
deriving DecidableEq, Repr

/-- a config generation (position of the config in the load history); plain `Nat` so that `omega` sees it -/
scoped notation "Gen" => Nat

inductive HKind where
  | fresh | dup
deriving DecidableEq, Repr

structure Handle where
  gen : Gen
  kind : HKind
deriving DecidableEq, Repr

structure Sock where
  pool : Nat
  ucnt : Nat
  umap : Option Gen
  file : Bool
  leaks : Nat
  hs : List Handle
deriving DecidableEq, Repr

/-- an abstract unix socket (`unix/@name`, Linux): a name in the kernel's namespace instead of a file.
    It follows the same bookkeeping — `unixSockets` entry, shared counter, the descriptor caddy keeps,
    closed and forgotten by the last close — minus the file: for such an address `Sock.file` stands for
    "the name is bound" (it appears with the bind and goes when the last descriptor is closed; nothing is
    unlinked, `unlinkUnixSocket` skips the unlink for names starting with '@'), and a connect to an
    unbound name is refused rather than ENOENT. (Harness convention: ids from 30.) -/
def Addr.abstract (a : Addr) : Bool := a.unix && decide (30 ≤ a.id)

def Sock.empty : Sock := ⟨0, 0, none, false, 0, []⟩

def Sock.holds (k : Sock) (g : Gen) : Bool := k.hs.any (fun h => h.gen == g)

/-- generations that can answer a connection to this address -/
def Sock.gens (k : Sock) : List Gen := k.hs.map Handle.gen

/-- `NetworkAddress.Listen` on a tcp address: `listenReusable` binds with SO_REUSEPORT and
    counts the key in `listenerPool`. -/
def bindTcp (k : Sock) (g : Gen) : Sock :=
  { k with pool := k.pool + 1, hs := k.hs ++ [⟨g, .fresh⟩] }

/-- `NetworkAddress.Listen` on a unix address: reuse the descriptor if the socket is
    in `unixSockets`, otherwise unlink the path and bind afresh. -/
def bindUnix (k : Sock) (g : Gen) : Sock :=
  match k.umap with
  | some _ => { k with ucnt := k.ucnt + 1, hs := k.hs ++ [⟨g, .dup⟩] }
  | none => { pool := k.pool + 1, ucnt := 1, umap := some g, file := true, leaks := 0, hs := k.hs ++ [⟨g, .fresh⟩] }

def bindSock (a : Addr) (k : Sock) (g : Gen) : Sock :=
  if a.unix then bindUnix k g else bindTcp k g

def poolAfterClose (k : Sock) (h : Handle) : Nat :=
  if h.kind = .fresh then k.pool - 1 else k.pool

/-- closing handle `h` of a unix socket: `deleteListener.Close` (fresh only) then
    `unixListener.Close` -/
def closeUnix (k : Sock) (h : Handle) : Sock :=
  if k.ucnt ≤ 1 then
    { pool := poolAfterClose k h, ucnt := 0, umap := none, file := false, leaks := k.leaks, hs := k.hs.erase h }
  else
    { k with pool := poolAfterClose k h, ucnt := k.ucnt - 1, hs := k.hs.erase h }

def closeTcp (k : Sock) (h : Handle) : Sock :=
  { k with pool := k.pool - 1, hs := k.hs.erase h }

/-- the listener generation `g` holds on this address is closed (no-op if it holds none) -/
def closeSock (a : Addr) (k : Sock) (g : Gen) : Sock :=
  match k.hs.find? (fun h => h.gen == g) with
  | none => k
  | some h => if a.unix then closeUnix k h else closeTcp k h

structure Cfg where
  gen : Gen
  addrs : List Addr
deriving DecidableEq, Repr

inductive Phase where
  | idle | prov | start | stopping
deriving DecidableEq, Repr

structure State where
  socks : Addr → Sock
  cur : Option Cfg        -- currentCtx
  next : Option Cfg       -- the config being provisioned / started by the Load in progress
  retiring : Option Cfg   -- the config whose apps were (are being) stopped by the last load
  zombies : List Gen      -- rejected configs whose HTTP app failed in Start: nobody closes their listeners
  phase : Phase
  fresh : Gen             -- every generation begun so far is < fresh
  inflight : List (Nat × Gen)   -- requests parked in a handler: (token, accepting config)
  done : List (Nat × Gen)       -- completed requests: (token, config whose handler answered)
  -- the admin endpoint: a second client of the same listener bookkeeping (admin.go:replaceLocalAdminServer).
  -- Its addresses are disjoint from the HTTP app's, so its part of the pool is kept as a separate map.
  asocks : Addr → Sock
  adm : Option (Gen × Addr)          -- localAdminServer: the load that started it, its address
  admRetired : List (Gen × Addr)     -- replaced admin servers whose Shutdown has not closed the listener yet
  -- request contexts. A request's context descends from the http.Server's base context
  -- (context.Background: `(*App).start` sets no BaseContext; ConnContext only adds a value), NOT from
  -- the context of the config that owns the server, which unsyncedStop cancels right after the apps'
  -- Stop — while requests may still be in flight (Stop does not wait for them on a reload).
  cancelled : List Gen               -- configs whose context has been cancelled (cfg.cancelFunc)
  ctxLost : List (Nat × Gen)         -- in-flight requests whose own context was cancelled under them

def init : State :=
  { socks := fun _ => Sock.empty, cur := none, next := none, retiring := none, zombies := [],
    phase := .idle, fresh := 0, inflight := [], done := [],
    asocks := fun _ => Sock.empty, adm := none, admRetired := [], cancelled := [], ctxLost := [] }

def setSock (f : Addr → Sock) (a : Addr) (k : Sock) : Addr → Sock :=
  fun b => if b = a then k else f b

def genOf (c : Option Cfg) : Option Gen := c.map Cfg.gen

def State.holds (s : State) (a : Addr) (g : Gen) : Bool := (s.socks a).holds g

/-- number of open listeners on `a` -/
def State.holders (s : State) (a : Addr) : Nat := (s.socks a).hs.length

def allBound (s : State) (c : Cfg) : Bool := c.addrs.all (fun a => s.holds a c.gen)

/-- every listener of the replaced config has been closed -/
def State.drained (s : State) : Bool :=
  match s.retiring with
  | none => true
  | some r => r.addrs.all (fun a => !s.holds a r.gen)

def State.loading (s : State) : Bool := s.phase = .prov || s.phase = .start

inductive CbKind where
  | provision | start | started | stopping | stop | cleanup
deriving DecidableEq, Repr

inductive Step where
  | begin (c : Cfg)
  | cb (k : CbKind) (g : Gen)
  | bind (a : Addr)
  | bindStale (a : Addr)
  | swap
  | reject
  | close (g : Gen) (a : Addr)
  | ret
  | stopAll
  | gc (a : Addr)
  | accept (t : Nat) (g : Gen) (a : Addr)
  | complete (t : Nat) (g : Gen)
  | adminReplace (g : Gen) (a : Option Addr)  -- provisionContext: start the new admin listener (none: disabled), then retire the old server
  | adminClose (g : Gen) (a : Addr)           -- stopAdminServer (asynchronous): Shutdown closes the replaced server's listener
  | cancelCtx (g : Gen)                        -- unsyncedStop: cfg.cancelFunc() of the config that was just stopped (before its Cleanups)
deriving DecidableEq, Repr

def isRetiring (s : State) (g : Gen) : Bool := genOf s.retiring == some g

def bindable (s : State) (a : Addr) : Bool :=
  match s.next with
  | some c => s.loading && c.addrs.contains a && !s.holds a c.gen
  | none => false

/-- generations are load indices: the admin server being replaced was started by an earlier load -/
def admGenOk (s : State) (g : Gen) : Bool :=
  (match s.adm with
   | some (g0, _) => decide (g0 < g)
   | none => true) && s.admRetired.all (fun p => decide (p.1 < g))

/-- what cancelling the context of config `g` does to the requests in flight: nothing, as the code is
    (`fromConfig = false`); had request contexts been derived from the config's context
    (`fromConfig = true`, e.g. a `BaseContext` returning the server's `ctx`), every request the config
    accepted and has not answered yet would lose its context at once -/
def lostByCancel (fromConfig : Bool) (s : State) (g : Gen) : List (Nat × Gen) :=
  if fromConfig then s.inflight.filter (fun p => p.2 == g) else []

def enabled (s : State) : Step → Bool
  | .begin c => s.phase = .idle && s.drained && decide (s.fresh ≤ c.gen) && decide c.addrs.Nodup
  | .cb .provision g => s.phase = .prov && genOf s.next == some g
  | .cb .start g => s.loading && genOf s.next == some g
  | .cb .started g =>
    match s.next with
    | some c => s.loading && c.gen == g && allBound s c
    | none => false
  | .cb .stopping g => s.phase = .stopping && isRetiring s g
  | .cb _ g => s.phase = .stopping && (isRetiring s g || s.zombies.contains g)
  | .bind a => bindable s a
  | .bindStale _ => false   -- `Listen` on a socket we have open cannot fail any more (see the header)
  | .swap =>
    match s.next with
    | some c => s.loading && allBound s c
    | none => false
  | .reject => s.loading && s.next.isSome
  | .close g a => isRetiring s g && s.holds a g
  | .ret => s.phase = .stopping
  | .stopAll => s.phase = .idle && s.drained
  | .gc _ => true
  | .accept _ g a => s.holds a g
  | .complete t g => s.inflight.contains (t, g)
  | .adminReplace g a =>
    s.phase = .prov && genOf s.next == some g && admGenOk s g &&
      (match a with
       | some a => !(s.asocks a).holds g
       | none => true)
  | .adminClose g a => s.admRetired.contains (g, a)
  | .cancelCtx g => s.phase = .stopping && isRetiring s g && !s.cancelled.contains g

def admAfter (g : Gen) : Option Addr → Option (Gen × Addr)
  | some a => some (g, a)
  | none => none

def asocksAfter (s : State) (g : Gen) : Option Addr → (Addr → Sock)
  | some a => setSock s.asocks a (bindSock a (s.asocks a) g)
  | none => s.asocks

def nextGen (s : State) : Gen :=
  match s.next with
  | some c => c.gen
  | none => 0

def eff (s : State) : Step → State
  | .begin c => { s with next := some c, retiring := none, phase := .prov, fresh := c.gen + 1 }
  | .cb .start _ => { s with phase := .start }
  | .cb _ _ => s
  | .bind a => { s with socks := setSock s.socks a (bindSock a (s.socks a) (nextGen s)), phase := .start }
  | .bindStale _ => { s with next := none, retiring := none, zombies := nextGen s :: s.zombies, phase := .stopping }
  | .swap => { s with cur := s.next, next := none, retiring := s.cur, phase := .stopping }
  | .reject => { s with next := none, retiring := s.next, phase := .stopping }
  | .close g a => { s with socks := setSock s.socks a (closeSock a (s.socks a) g) }
  | .ret => { s with phase := .idle }
  | .stopAll => { s with cur := none, retiring := s.cur, phase := .stopping }
  | .gc a => { s with socks := setSock s.socks a { s.socks a with leaks := 0 } }
  | .accept t g _ => { s with inflight := (t, g) :: s.inflight }
  | .complete t g => { s with inflight := s.inflight.erase (t, g), done := (t, g) :: s.done }
  | .adminReplace g a =>
    { s with asocks := asocksAfter s g a, adm := admAfter g a, admRetired := s.adm.toList ++ s.admRetired }
  | .adminClose g a =>
    { s with asocks := setSock s.asocks a (closeSock a (s.asocks a) g), admRetired := s.admRetired.erase (g, a) }
  | .cancelCtx g => { s with cancelled := g :: s.cancelled, ctxLost := lostByCancel false s g ++ s.ctxLost }

def step? (s : State) (st : Step) : Option State :=
  if enabled s st then some (eff s st) else none

def run (s : State) : List Step → Option State
  | [] => some s
  | st :: rest =>
    match step? s st with
    | some s' => run s' rest
    | none => none

/-- the same machine without guards: what the effects would do in an order the code does not
    produce (used to show what a reordering of stop-old before start-new would cause) -/
def runUnguarded (s : State) : List Step → State
  | [] => s
  | st :: rest => runUnguarded (eff s st) rest

/-- outcome of a fresh connection to an address -/
inductive Conn where
  | answered (g : Gen)
  | refused
  | noent
  | hangs      -- accepted by the kernel (a leaked descriptor keeps the socket listening), never served
deriving DecidableEq, Repr

/-- what a connect may yield in this state (which of several listeners gets the connection is the
    kernel's choice) -/
def connect (s : State) (a : Addr) : List Conn :=
  if (s.socks a).hs ≠ [] then (s.socks a).gens.map Conn.answered
  else if !a.unix then [.refused]
  else if !(s.socks a).file then (if a.abstract then [.refused] else [.noent])
  else if (s.socks a).leaks > 0 then [.hangs]
  else [.refused]

/-! ### the code's reload as an explicit step list -/

/-- everything the Go runtime decides during one reload that does not change the bookkeeping but
    moves lifecycle callbacks around the binds and closes: how many module callbacks run in each
    slot (apps are started / stopped in map order, so the HTTP app's binds and the initiation of its
    closes fall anywhere among the other apps' callbacks) -/
structure Sched where
  prov : Nat          -- Provision callbacks of the new config
  startBefore : Nat   -- Start callbacks of other apps before the HTTP app binds
  startAfter : Nat    -- … and after
  stopBefore : Nat    -- Stop callbacks of the old config's other apps before the old listeners close
  stopAfter : Nat
  cleanup : Nat
deriving Repr

/-- stop phase of the replaced config: "stopping" event, Stop of every app (the HTTP app's Stop makes
    `http.Server.Shutdown` close the listeners), Cleanup of every module -/
def stopSteps (old : Option Cfg) (π : Sched) : List Step :=
  match old with
  | none => []
  | some o =>
    [.cb .stopping o.gen] ++ List.replicate π.stopBefore (.cb .stop o.gen)
      ++ o.addrs.map (.close o.gen)
      ++ List.replicate π.stopAfter (.cb .stop o.gen)
      ++ List.replicate π.cleanup (.cb .cleanup o.gen)

/-- Load of `new` on top of the running config `old` (caddy.go:325-363), every close issued
    synchronously inside the old HTTP app's Stop. -/
def reloadSteps (new : Cfg) (old : Option Cfg) (π : Sched) : List Step :=
  [.begin new] ++ List.replicate π.prov (.cb .provision new.gen)
    ++ List.replicate π.startBefore (.cb .start new.gen)
    ++ new.addrs.map .bind
    ++ List.replicate π.startAfter (.cb .start new.gen)
    ++ [.cb .started new.gen, .swap]
    ++ stopSteps old π
    ++ [.ret]

/-- the mutation the property names: stop the old config first, then start the new one -/
def reorderedSteps (new : Cfg) (old : Gen) (closes : List Addr) : List Step :=
  [.begin new] ++ closes.map (.close old) ++ new.addrs.map .bind ++ [.swap, .ret]

end CaddyModel.C02
