/-
C02 line-protocol driver.

  seq <grace_ms> <napps> <cfgs> <inflight> <trace>

(see harness/internal/c02/c02.go for the field grammar).  The answer has two parts:
  * the summary the model predicts from the scenario alone (one block per load and one for the final
    caddy.Stop: result, bookkeeping snapshot and who answers after drain, the bookkeeping of each
    address right after its bind and right before/after its close; then the in-flight answers);
  * `accept` iff the recorded step trace is a run of the transition system (`step?` is defined at every
    step), the model's bookkeeping equals the recorded snapshot at every step, and every recorded
    answer is one the model allows in that state — else `reject@<event index>:<why>`.
-/
import CaddyModel.Util.Hex
import CaddyModel.C02.Model
import CaddyModel.C02.Key
import CaddyModel.C02.Listen
import CaddyModel.C02.Quic
import CaddyModel.C13.Listen

namespace CaddyModel.C02

/-! ### the address universe of the harness -/

def admM0 : Addr := ⟨false, 10⟩
def admM1 : Addr := ⟨true, 10⟩

/-- v0: network unixpacket at the PATH OF u0 — unix network kinds share the file namespace, but the
    listener bookkeeping keys a socket by network + path -/
def pktV0 : Addr := ⟨true, 20⟩
def unixU0 : Addr := ⟨true, 0⟩

/-- a0: an abstract unix socket (`unix/@verif-c02-<pid>-0`) -/
def absA0 : Addr := ⟨true, 30⟩

/-- the address of the other network kind at the same path -/
def sibling (a : Addr) : Option Addr :=
  if a == unixU0 then some pktV0 else if a == pktV0 then some unixU0 else none

/-- `unixSocketPathInUse` (listen_unix.go): a listener of ours of another unix network kind is open at
    this path. `reuseUnixSocket` then refuses to unlink and bind ("socket file … is in use by …"): the
    HTTP app's Start fails, closes what it had bound (abortStart) and the load is rejected. -/
def pathBusy (s : State) (a : Addr) : Bool :=
  match sibling a with
  | some b => (s.socks b).umap.isSome
  | none => false

/-- the socket file at the path of `a` exists (shared by the network kinds) -/
def pathFile (s : State) (a : Addr) : Bool :=
  (s.socks a).file || (match sibling a with
                       | some b => (s.socks b).file
                       | none => false)

/-- the two sockets of the port range r0 -/
def rngP0 : Addr := ⟨false, 3⟩
def rngP1 : Addr := ⟨false, 4⟩

/-- protocol order: t0 t1 t2 m0 p0 p1 u0 u1 m1 (m0, m1: the admin endpoint's addresses; p0, p1: two
    consecutive ports, one address spec `r0` when a server lists them next to each other) -/
def addrUniverse : List Addr := [⟨false, 0⟩, ⟨false, 1⟩, ⟨false, 2⟩, admM0, rngP0, rngP1, ⟨true, 0⟩, ⟨true, 1⟩, admM1, pktV0, absA0]

def isAdminAddr (a : Addr) : Bool := a.id == 10

/-- the bookkeeping record of an address: the admin endpoint's part of the pool is kept apart -/
def sockOf (s : State) (a : Addr) : Sock := if isAdminAddr a then s.asocks a else s.socks a

def addrOfName : String → Option Addr
  | "t0" => some ⟨false, 0⟩
  | "t1" => some ⟨false, 1⟩
  | "t2" => some ⟨false, 2⟩
  | "u0" => some ⟨true, 0⟩
  | "u1" => some ⟨true, 1⟩
  | "p0" => some rngP0
  | "p1" => some rngP1
  | "v0" => some pktV0
  | "a0" => some absA0
  | _ => none

def adminOfName : String → Option Addr
  | "m0" => some admM0
  | "m1" => some admM1
  | _ => none

def addrName (a : Addr) : String :=
  if isAdminAddr a then (if a.unix then "m1" else "m0")
  else if a == pktV0 then "v0"
  else if a == absA0 then "a0"
  else if a.unix then "u" ++ toString a.id
  else if a.id ≥ 3 then "p" ++ toString (a.id - 3)
  else "t" ++ toString a.id

/-- position in the protocol order (admin addresses are never bound by the HTTP app) -/
def addrIdx (a : Addr) : Nat := if a == absA0 then 10 else if a == pktV0 then 9 else if a.unix then 6 + a.id else if a.id ≥ 3 then a.id + 1 else a.id

def digitCh (n : Nat) : Char := if n > 9 then '+' else Char.ofNat (48 + n)

def genCh (g : Gen) : Char := "0123456789ABCDEFGHIJKLMNOPQRSTUVWXYZ".toList.getD (g % 36) '?'

def sockStr (a : Addr) (k : Sock) : String :=
  -- (an abstract socket has no file for the harness to look at: its third character is always 0)
  if a.unix then String.ofList [digitCh k.pool, digitCh k.ucnt, if k.file && !a.abstract then '1' else '0']
  else String.ofList [digitCh k.pool]

/-- the file character of u0 / v0 is the file at their common path -/
def snapStr (s : State) : String :=
  String.join (addrUniverse.map fun a =>
    if (sibling a).isSome then sockStr a { s.socks a with file := pathFile s a } else sockStr a (sockOf s a))

/-! ### scenario -/

structure CfgSpec where
  same : Bool
  fail : Bool
  addrs : List Addr
  admin : Option Addr
  busy : Bool := false   -- derived (markBusy): binds a unix socket path a listener of another kind holds
deriving Repr

/-- a config is refused when it lists u0 and v0 together, or one of them while the running config holds
    the other -/
def markBusy (curr : Option CfgSpec) : List CfgSpec → List CfgSpec
  | [] => []
  | c :: rest =>
    if c.same then c :: markBusy curr rest else
    let other (a : Addr) : Bool := match curr with
      | some o => o.addrs.contains a
      | none => false
    let b := (c.addrs.contains unixU0 && c.addrs.contains pktV0) || (c.addrs.contains unixU0 && other pktV0)
              || (c.addrs.contains pktV0 && other unixU0)
    let c' := { c with busy := b }
    c' :: markBusy (if !c.fail && !b then some c' else curr) rest

structure TokSpec where
  load : Nat
  addr : Addr
  rel : Char
deriving Repr

/-- canonical decimal (what Go's `strconv.Itoa(strconv.Atoi(s)) == s` accepts) -/
def canonNat (s : String) : Option Nat :=
  match s.toNat? with
  | some n => if toString n == s then some n else none
  | none => none

/-- `r0` is the port range: both sockets, in port order -/
def parseSrv (s : String) : Option (List Addr) :=
  ((s.splitOn ",").mapM fun n => if n == "r0" then some [rngP0, rngP1] else (addrOfName n).map fun a => [a]).map List.flatten

def parseBody (fail : Bool) (body : String) (admin : Option Addr) : Option CfgSpec :=
  if body == "-" then some ⟨false, fail, [], admin, false⟩ else
  match (body.splitOn "+").mapM parseSrv with
  | some srvs =>
    let as := srvs.flatten
    if as.Nodup then some ⟨false, fail, as, admin, false⟩ else none
  | none => none

def parseCfg (s : String) : Option CfgSpec :=
  if s == "=" then some ⟨true, false, [], none, false⟩ else
  let fail := s.startsWith "!"
  let rest := if fail then (s.drop 1).toString else s
  match rest.splitOn "@" with
  | [body] => parseBody fail body none
  | body :: adm =>
    -- Go: strings.Cut at the first "@"; what follows must be exactly m0 or m1
    match adminOfName ("@".intercalate adm) with
    | some a => parseBody fail body (some a)
    | none => none
  | [] => none

/-- `running[k]`: index of the config that is running just before load `k` -/
def runningBefore (cfgs : List CfgSpec) : Nat → Option Nat
  | 0 => none
  | k + 1 =>
    match cfgs[k]? with
    | some c => if !c.same && !c.fail && !c.busy then some k else runningBefore cfgs k
    | none => runningBefore cfgs k

def allowedRel (cfgs : List CfgSpec) (k : Nat) : List Char :=
  if k == cfgs.length then ['t', 'r', 'd'] else
  match cfgs[k]? with
  | some c => if c.same then [] else if c.busy then ['p', 'r', 'd'] else if c.fail then ['p', 's', 'r', 'd'] else ['p', 's', 't', 'r', 'd']
  | none => []

def parseTok (cfgs : List CfgSpec) (s : String) : Option TokSpec :=
  match s.splitOn ":" with
  | [ks, as, rs] =>
    match canonNat ks, addrOfName as, rs.toList.map Char.toLower with   -- upper case: through reverse_proxy
    | some k, some a, [r] =>
      if rs.toList != [r] && a == pktV0 then none else   -- no proxied request over the seqpacket address
      if k < 1 || k > cfgs.length then none else
      match runningBefore cfgs k with
      | some o =>
        match cfgs[o]? with
        | some oc => if oc.addrs.contains a && (allowedRel cfgs k).contains r then some ⟨k, a, r⟩ else none
        | none => none
      | none => none
    | _, _, _ => none
  | _ => none

structure Scenario where
  cfgs : List CfgSpec
  toks : List TokSpec
  delay : Bool      -- a shutdown_delay is configured

/-- `<grace>` or `<grace>d<delay>`: (grace, delay configured) -/
def parseGrace (f : String) : Option (Nat × Bool) :=
  match f.splitOn "d" with
  | [g] => (canonNat g).map fun x => (x, false)
  | [g, d] =>
    match canonNat g, canonNat d with
    | some x, some y => if 1 ≤ y && y ≤ 2000 then some (x, true) else none
    | _, _ => none
  | _ => none

def parseScenario (grace napps cfgs toks : String) : Option Scenario :=
  match parseGrace grace, canonNat napps, ((cfgs.splitOn ";").mapM parseCfg).map (markBusy none) with
  | some (g, dl), some na, some cs =>
    if g > 60000 || na > 2 || cs.isEmpty || cs.length > 400 then none else
    match cs.head? with
    | some c0 =>
      if c0.same then none else
      if toks == "-" then some ⟨cs, [], dl⟩ else
      match (toks.splitOn ";").mapM (parseTok cs) with
      | some ts => if ts.length > 8 then none else some ⟨cs, ts, dl⟩
      | none => none
    | none => none
  | _, _, _ => none

/-! ### summary predicted from the scenario -/

def runList (s : State) (steps : List Step) : Option State := run s steps

/-- `connect` on the record of an address (HTTP or admin part of the pool) -/
def connectSock (a : Addr) (k : Sock) : List Conn :=
  if k.hs ≠ [] then k.gens.map Conn.answered
  else if !a.unix then [.refused]
  else if !k.file then [.noent]
  else if k.leaks > 0 then [.hangs]
  else [.refused]

/-- who answers (canonical letter) after drain -/
def drainedAns (s : State) (a : Addr) : Char :=
  match connectSock a (sockOf s a) with
  | .answered g :: _ => genCh g
  | .hangs :: _ => 'l'
  | _ => 'c'

def ansStr (s : State) : String := String.ofList (addrUniverse.map (drainedAns s))

def sortByIdx (l : List (Nat × String)) : List String :=
  (l.mergeSort (fun x y => x.1 ≤ y.1)).map (·.2)

/-- bind every address of the list, recording the address's bookkeeping after its bind -/
def bindAll (s : State) : List Addr → Option (State × List (Nat × String))
  | [] => some (s, [])
  | a :: rest =>
    match step? s (.bind a) with
    | some s' =>
      match bindAll s' rest with
      | some (s'', l) => some (s'', (addrIdx a, addrName a ++ "=" ++ sockStr a (s'.socks a)) :: l)
      | none => none
    | none => none

def closeAll (s : State) (g : Gen) : List Addr → Option (State × List (Nat × String))
  | [] => some (s, [])
  | a :: rest =>
    match step? s (.close g a) with
    | some s' =>
      match closeAll s' g rest with
      | some (s'', l) =>
        some (s'', (addrIdx a, addrName a ++ "=" ++ sockStr a (s.socks a) ++ ">" ++ sockStr a (s'.socks a)) :: l)
      | none => none
    | none => none

def curCfg (s : State) : Cfg :=
  match s.cur with
  | some c => c
  | none => ⟨0, []⟩

def block (res : String) (s : State) (binds closes : List (Nat × String)) (sd : String := "-") : String :=
  res ++ ":" ++ snapStr s ++ ":" ++ ansStr s ++ ":" ++ ",".intercalate (sortByIdx binds) ++ ":" ++ ",".intercalate (sortByIdx closes)
    ++ ":" ++ sd

/-- what the HTTP app's Stop gets from `caddy.ListenerUsage(addr.Network, addr.JoinHostPort(0))` for a
    listener address of the config being stopped: the `listenerPool` count under the consumer's key —
    which for u1, written with permission bits, is a key nothing is booked under (Key.lean) -/
def usageAtStop (s : State) (a : Addr) : Nat := if a.unix && a.id == 1 then 0 else (s.socks a).pool

/-- `(*App).Stop`: shutdown_delay is enforced (and `{http.shutting_down}` turns true) iff a delay is
    configured and some listener address of the app has a usage count below 2 -/
def stopDelays (delay : Bool) (s : State) (c : Cfg) : String :=
  if delay && c.addrs.any (fun a => usageAtStop s a < 2) then String.ofList [genCh c.gen] else "-"

/-- the replaced admin servers shut down -/
def settleAdmin (s : State) : Option State := run s (s.admRetired.map fun p => .adminClose p.1 p.2)

/-- one load of the sequence on the canonical schedule; `none` = the model got stuck (cannot happen
    for parsed scenarios; printed as `model-stuck`) ; the Bool says "stop here" (stale) -/
def loadBlock (dl : Bool) (s : State) (k : Nat) (c : CfgSpec) : Option (State × String × Bool) :=
  if c.same then some (s, block "same" s [] [], false) else
  if c.busy then
    -- Listen refuses the socket path: Start fails, what was bound is closed again, the load is rejected
    -- (which listeners were bound before the refused one is Go's map order: not part of the block)
    match (run s [.begin ⟨k, c.addrs⟩, .adminReplace k c.admin, .reject, .ret]).bind settleAdmin with
    | some s' => some (s', block "busy" s' [] [], false)
    | none => none
  else
  match run s [.begin ⟨k, c.addrs⟩, .adminReplace k c.admin] with
  | none => none
  | some s1 =>
    match bindAll s1 c.addrs with
    | none => none
    | some (s2, binds) =>
      if c.fail then
        match run s2 [.cb .started k, .reject] with
        | none => none
        | some s3 =>
          match closeAll s3 k c.addrs with
          | none => none
          | some (s4, closes) =>
            match (step? s4 .ret).bind settleAdmin with
            | some s5 => some (s5, block "err" s5 binds closes (stopDelays dl s3 ⟨k, c.addrs⟩), false)
            | none => none
      else
        let old := curCfg s2
        match run s2 [.cb .started k, .swap] with
        | none => none
        | some s3 =>
          match closeAll s3 old.gen old.addrs with
          | none => none
          | some (s4, closes) =>
            match (step? s4 .ret).bind settleAdmin with
            | some s5 => some (s5, block "ok" s5 binds closes (stopDelays dl s3 old), false)
            | none => none

def stopBlock (dl : Bool) (s : State) : Option String :=
  let old := curCfg s
  match step? s .stopAll with
  | none => none
  | some s1 =>
    match closeAll s1 old.gen old.addrs with
    | none => none
    | some (s2, closes) =>
      match step? s2 .ret with
      | some s3 => some (block "ok" s3 [] closes (stopDelays dl s1 old))
      | none => none

/-- (blocks, index of the last load that was attempted) -/
def summaryLoop (dl : Bool) (s : State) (k : Nat) : List CfgSpec → Option (List String × Nat)
  | [] =>
    match stopBlock dl s with
    | some b => some ([b], k)
    | none => none
  | c :: rest =>
    match loadBlock dl s k c with
    | none => none
    | some (s', b, stop) =>
      if stop then some ([b], k) else
      match summaryLoop dl s' (k + 1) rest with
      | some (bs, last) => some (b :: bs, last)
      | none => none

def tokAnswers (sc : Scenario) (last : Nat) : String :=
  let cs := sc.toks.filterMap fun t =>
    if t.load ≤ last then (runningBefore sc.cfgs t.load).map genCh else none
  if cs.isEmpty then "-" else String.ofList cs

def summary (sc : Scenario) : String :=
  match summaryLoop sc.delay init 0 sc.cfgs with
  | some (bs, last) => " ".intercalate bs ++ " " ++ tokAnswers sc last
  | none => "model-stuck"

/-! ### validating a recorded trace -/

/-- snapshot positions of an admin address (t0 t1 t2 m0 p0 p1 | u0 u1 m1, three characters per unix socket) -/
def adminPositions (a : Addr) : List Nat := if a.unix then [12, 13, 14] else [3]

/-- The model's bookkeeping equals the recorded snapshot. The Shutdown of a replaced admin server runs
    concurrently with the harness's snapshot (it is not one of the closes the harness serialises), so the
    characters of an admin address on which a replaced server's listener is still open in the model are
    not compared: the snapshot may show the state before, after or in the middle of that close. -/
def parseSnapOk (s : State) (snap : String) : Bool :=
  let skip := (s.admRetired.map fun p => adminPositions p.2).flatten
  let m := (snapStr s).toList
  let o := snap.toList
  m.length == o.length &&
  ((List.range m.length).all fun i => skip.contains i || m[i]? == o[i]?)

def retiringGen (s : State) : Option Gen := genOf s.retiring

/-- is answer `ch` to a fresh connection to `a` possible, given the bookkeeping at snapshot time
    (listeners of the retiring config may have been closed between the snapshot and the connect) -/
def closingGen (s : State) (a : Addr) (g : Gen) : Bool :=
  if isAdminAddr a then s.admRetired.contains (g, a) else retiringGen s == some g

def answerOk (s : State) (a : Addr) (ch : Char) : Bool :=
  let gs := (sockOf s a).gens
  let closedOk : Bool :=
    if !a.unix || a.abstract then ch == 'r'
    else if !pathFile s a then ch == 'n'
    else ch == 'r' || ch == 'o'
  -- the file at the path belongs to a listener of the other network kind that is being closed: it may
  -- be gone by the time of the connect
  let sibClosing : Bool :=
    match sibling a with
    | some b => !(s.socks b).gens.isEmpty && (s.socks b).gens.all (closingGen s b)
    | none => false
  if ch == '-' then true
  else if gs.isEmpty then closedOk || (sibClosing && ch == 'n')
  else if gs.any (fun g => genCh g == ch) then true
  else if !a.unix && ch == 's' && gs.any (closingGen s a) then true
  else if gs.all (closingGen s a) then
    -- every listener may be closed (and a unix socket's file removed) before the connect
    -- (a connection queued on the socket when its last listener is closed is reset)
    -- (`unixListener.Close` closes the descriptor first and unlinks the file afterwards: in between the
    -- file is there and nobody listens — refused; `pathFile` does not see the admin endpoint's file)
    closedOk || (a.unix && (ch == 'n' || ch == 's' || ch == 'r'))
  else false

def answersOk (s : State) (ans : String) : Bool :=
  ans.length == addrUniverse.length &&
  (addrUniverse.zip ans.toList).all (fun p => answerOk s p.1 p.2)

def tokId (s : String) : Option Nat :=
  if s.startsWith "k" then (s.drop 1).toString.toNat? else none

structure VState where
  s : State
  sc : Scenario

inductive Verdict where
  | ok (s : State)
  | bad (why : String)

def stepV (s : State) (st : Step) (why : String) : Verdict :=
  match step? s st with
  | some s' => .ok s'
  | none => .bad ("not-enabled:" ++ why)

/-- the Shutdown of a replaced admin server is not observed as an event: infer the `adminClose` steps
    that the recorded snapshot shows have happened -/
def inferAdminCloses (s : State) (snap : String) : State :=
  s.admRetired.foldl (fun st p =>
    match step? st (.adminClose p.1 p.2) with
    | some st' =>
      -- apply the close only when the snapshot shows exactly the state after it (a snapshot taken in the
      -- middle of the close is left for the next event; the address stays masked until then)
      let obs := String.ofList ((adminPositions p.2).filterMap fun i => snap.toList[i]?)
      if obs == sockStr p.2 (st'.asocks p.2) && obs != sockStr p.2 (st.asocks p.2) then st' else st
    | none => st) s

def checkObs (s : State) (snap ans : String) : Option String :=
  if !parseSnapOk s snap then some ("snapshot model=" ++ snapStr s)
  else if !answersOk s ans then some ("answer model-state=" ++ snapStr s)
  else none

def cbKind (kind mod : String) : Option CbKind :=
  match kind with
  | "P" => if mod == "l" then some .started else some .provision
  | "S" => some .start
  | "T" => some .stop
  | "C" => some .cleanup
  | "E" => if mod == "started" then some .started else if mod == "stopping" then some .stopping else none
  | _ => none

def validateEvent (sc : Scenario) (s : State) (ev : String) : Verdict :=
  let parts := ev.splitOn ":"
  match parts with
  | [] => .bad "parse"
  | head :: obs =>
    let h := head.splitOn "."
    match h, obs with
    | ["L", ks], [snap, ans] =>
      match ks.toNat?, checkObs s snap ans with
      | some k, none =>
        if k == sc.cfgs.length then stepV s .stopAll "stopAll" else
        match sc.cfgs[k]? with
        | some c => if c.same then .ok s else stepV s (.begin ⟨k, c.addrs⟩) "begin"
        | none => .bad "load-index"
      | _, some w => .bad w
      | none, _ => .bad "parse"
    | ["R", ks, res], [snap, ans] =>
      match ks.toNat?, checkObs s snap ans with
      | some _, none => if res == "same" then .ok s else stepV s .ret "ret"
      | _, some w => .bad w
      | none, _ => .bad "parse"
    | ["D", _], [snap, ans] =>
      match checkObs s snap ans with
      | none => if s.drained && s.phase = .idle && s.admRetired.isEmpty then .ok s else .bad "not-drained"
      | some w => .bad w
    | ["M", ks, an], [] =>
      match ks.toNat? with
      | some k =>
        if an == "-" then stepV s (.adminReplace k none) "adminReplace" else
        match adminOfName an with
        | some a => stepV s (.adminReplace k (some a)) "adminReplace"
        | none => .bad "parse"
      | none => .bad "parse"
    | ["K", gs], [] =>
      -- the first Cleanup of a config is about to run: its context has been cancelled
      match gs.toNat? with
      | some g => stepV s (.cancelCtx g) "cancelCtx"
      | none => .bad "parse"
    | ["W", _], [] => stepV s .swap "swap"
    | ["J", _], [] => stepV s .reject "reject"
    | ["Z", ks], [] =>
      -- the HTTP app's Start failed: only when a listed socket path is held under another network kind
      match ks.toNat?.bind (fun k => sc.cfgs[k]?) with
      | some c =>
        if c.addrs.any (fun a => !s.holds a (nextGen s) && pathBusy s a) ||
           (c.addrs.contains unixU0 && c.addrs.contains pktV0) then stepV s .reject "reject"
        else .bad "http-app-start-failed"
      | none => .bad "parse"
    | ["B", gs, an], [snap] =>
      match gs.toNat?, addrOfName an with
      | some g, some a =>
        if genOf s.next != some g then .bad "bind-by-non-loading-config" else
        if pathBusy s a then .bad "bind-over-a-socket-path-held-under-another-network-kind" else
        match step? s (.bind a) with
        | some s' => if parseSnapOk s' snap then .ok s' else .bad ("snapshot-after-bind model=" ++ snapStr s')
        | none => .bad "not-enabled:bind"
      | _, _ => .bad "parse"
    | ["X", gs, an], [snap, snap2] =>
      match gs.toNat?, addrOfName an with
      | some g, some a =>
        if !parseSnapOk s snap then .bad ("snapshot-before-close model=" ++ snapStr s) else
        match step? s (.close g a) with
        | some s' =>
          let s'' := inferAdminCloses s' snap2
          if parseSnapOk s'' snap2 then .ok s'' else .bad ("snapshot-after-close model=" ++ snapStr s'')
        | none => .bad "not-enabled:close"
      | _, _ => .bad "parse"
    | ["A", gs, ts, an], [] =>
      match gs.toNat?, tokId ts, addrOfName an with
      | some g, some t, some a => stepV s (.accept t g a) "accept"
      | _, _, _ => .bad "parse"
    | ["F", gs, ts], [res] =>
      match gs.toNat?, tokId ts with
      | some g, some t =>
        if res.endsWith "!" then .bad "in-flight-request-context-cancelled" -- the model keeps it: ctxLost = []
        else if res != String.ofList [genCh g] then .bad "in-flight-request-not-answered-by-acceptor"
        else stepV s (.complete t g) "complete"
      | _, _ => .bad "parse"
    | [kind, gs, mod], [snap, ans] =>
      match cbKind kind mod, gs.toNat?, checkObs s snap ans with
      | some ck, some g, none => stepV s (.cb ck g) ("cb-" ++ kind)
      | _, _, some w => .bad w
      | _, _, _ => .bad "parse"
    | _, _ => .bad "parse"

def eventSnap (ev : String) : Option String :=
  match ev.splitOn ":" with
  | _ :: snap :: _ => some snap
  | _ => none

def validateLoop (sc : Scenario) (s : State) (i : Nat) : List String → String
  | [] => "accept"
  | ev :: rest =>
    match validateEvent sc (match eventSnap ev with
                            | some snap => inferAdminCloses s snap
                            | none => s) ev with
    | .ok s' => validateLoop sc s' (i + 1) rest
    | .bad why => "reject@" ++ toString i ++ ":" ++ why

def validate (sc : Scenario) (trace : String) : String :=
  if trace == "-" then "accept" else validateLoop sc init 0 (trace.splitOn ";")

def hexStr (s : String) : String := Hex.encode s.toUTF8.toList

def unhexStr (s : String) : Option String := (Hex.decode s).map bytesToString

/-- `key <L|N> <addr> <network> <host> <port>` (hex; the last three are what the real SplitNetworkAddress
    returned): parse result, sockets, and the keys of the first socket; with `L` the harness really
    listens on the address, reads the booked key off the pool and asks `ListenerUsage` the way the HTTP
    app's Stop does -/
def handleKey (listen addr nw host port : String) : String :=
  match unhexStr nw, unhexStr host, unhexStr port with
  | some n, some h, some p =>
    -- SplitNetworkAddress / net.SplitHostPort: the byte-level model (C13/Listen.lean) must say what the
    -- real splitter said
    if (Hex.decode addr).bind C13.splitNetworkAddress != some (n.toUTF8.toList, h.toUTF8.toList, p.toUTF8.toList) then
      "split-model-differs" else
    match parseAddr n h p with
    | none => "err"
    | some na =>
      "ok " ++ hexStr na.network ++ " " ++ hexStr na.host ++ " " ++ toString na.startPort ++ " " ++ toString na.endPort
        ++ " " ++ toString na.size ++ " " ++ hexStr (na.joinHostPort (na.size - 1))
        ++ " " ++ (if adminAddrOk na then "1" else "0")
        ++ " " ++ hexStr na.str
        ++ (if listen == "L" then
              " " ++ hexStr (na.bookKey 0) ++ " " ++ (if na.usageKey 0 == na.bookKey 0 then "1" else "0")
            else if listen == "F" then
              -- an inherited descriptor (fd/N): two listeners one after the other, usage 1 then 2, the second
              -- still serves after the first closed, usage 0 after both closed, and (as the code is, by design)
              -- the descriptor caddy was given is never closed: the socket keeps accepting
              " " ++ hexStr (na.bookKey 0) ++ (if na.usageKey 0 == na.bookKey 0 then " 1 2" else " 0 0") ++ " 1 0 1"
            else "")
  | _, _, _ => "bad-op"

/-- `quic <op>;<op>;…` (see harness/internal/c02/quic.go) -/
def parseQOp (s : String) : Option QOp :=
  match s.toList with
  | ['q'] => some .dial
  | ['l', d] => if d.isDigit then some (.listen (d.toNat - 48)) else none
  | ['c', d] => if d.isDigit then some (.close (d.toNat - 48)) else none
  | _ => none

/-- `q`: the config that answers if the model determines it, `?` if Go's map iteration decided -/
def qOutputs (s : QPoss) : List QOp → List String
  | [] => []
  | op :: rest =>
    let s' := qpStep s op
    (match op with
     | .dial => (match s.poss.eraseDups with
                 | [] => "x"
                 | [g] => toString g
                 | _ => "?")
     | _ => toString s'.opened.length ++ (if s'.opened.isEmpty then "0" else "1")) :: qOutputs s' rest

def handleQuic (ops : String) : String :=
  let parts := ops.splitOn ";"
  if parts.length > 40 then "bad-op" else
  match parts.mapM parseQOp with
  | some l => if qpOk QPoss.init [] l then " ".intercalate (qOutputs QPoss.init l) else "bad-op"
  | none => "bad-op"

/-! ### `val`: listen entries through Provision / Validate / start (see harness/internal/c02/val.go) -/

def protoTokOk (s : String) : Bool := !s.isEmpty && s.toList.all fun c => c.isLower || c.isDigit

def parseProtoList (placeholder : Bool) (s : String) : Option (List String) :=
  (s.splitOn "+").mapM fun t =>
    if placeholder && t == "_" then some "" else if protoTokOk t then some t else none

/-- one entry: the parsed address and its `listen_protocols` entry (`none` = no `#`) -/
def parseValEntry (s : String) : Option (NetAddr × Option (Option (List String))) :=
  match s.splitOn "#" with
  | hx :: rest =>
    if hx == "-" || hx.isEmpty then none else
    match Hex.decode hx with
    | none => none
    | some bytes =>
      if Hex.encode bytes != hx || !(bytes.all fun b => 32 ≤ b.toNat && b.toNat < 127) then none else
      match C13.splitNetworkAddress bytes with
      | none => none
      | some (n, h, p) =>
        match parseAddr (bytesToString n) (bytesToString h) (bytesToString p) with
        | none => none
        | some na =>
          match rest with
          | [] => some (na, none)
          | [lp] =>
            if lp == "n" then some (na, some none)
            else if lp == "e" then some (na, some (some []))
            else (parseProtoList true lp).map fun l => (na, some (some l))
          | _ => none
  | [] => none

def parseValSrv (s : String) : Option SrvSpec :=
  match s.splitOn "|" with
  | [head0, body] =>
    let extra := head0.endsWith "~"
    let head := if extra then (head0.dropEnd 1).toString else head0
    match (if head == "-" then some [] else parseProtoList false head) with
    | none => none
    | some protos =>
      let ents := body.splitOn ","
      if ents.length > 4 then none else
      match ents.mapM parseValEntry with
      | none => none
      | some es =>
        let present := extra || es.any fun e => e.2.isSome
        let lps : List (Option (List String)) := es.map fun e => match e.2 with
          | some x => x
          | none => none
        some ⟨es.map (·.1), protos, if present then some (if extra then lps ++ [none] else lps) else none⟩
  | _ => none

/-- run-length encoding of a sorted list: `k=n` -/
def countRuns : List String → List String
  | [] => []
  | k :: rest =>
    match countRuns rest with
    | [] => [k ++ "=1"]
    | r :: more =>
      match r.splitOn "=" with
      | [k', n] => if k' == k then (k ++ "=" ++ toString (n.toNat! + 1)) :: more else (k ++ "=1") :: r :: more
      | _ => (k ++ "=1") :: r :: more

def handleVal (mode srvs : String) : String :=
  let parts := srvs.splitOn ";"
  if parts.length > 3 then "bad-op" else
  match parts.mapM parseValSrv with
  | none => "bad-op"
  | some ss =>
    -- the closed form of Validate's key and `JoinNetworkAddress` on the formatted port must agree
    if (ss.flatMap SrvSpec.sockets).any (fun p => p.1.repeatKey p.2 != p.1.repeatKeyJoined p.2) then "model-incoherent" else
    match validateApp ss with
    | .protoRejected => "proto-rejected"
    | .repeatedAddr => "repeated"
    | .ok bound =>
      if mode == "N" then "ok" else
      let keys := (bound.map hexStr).mergeSort (fun a b => decide (a ≤ b))
      if keys.isEmpty then "ok -" else "ok " ++ ",".intercalate (countRuns keys)

def handle : List String → String
  | ["quic", ops] => handleQuic ops
  | ["val", mode, srvs] => if mode == "N" || mode == "L" then handleVal mode srvs else "bad-op"
  | ["key", listen, addr, nw, host, port] => if listen == "L" || listen == "N" || listen == "F" then handleKey listen addr nw host port else "bad-op"
  | ["seq", grace, napps, cfgs, toks, trace] =>
    match parseScenario grace napps cfgs toks with
    | some sc => summary sc ++ " " ++ validate sc trace
    | none => "bad-op"
  | _ => "bad-op"

/-- counter-example lines replayed on the implementation on every run (see Witness.lean) -/
def witnessLines : List String := []

end CaddyModel.C02
