/-
C02 — the admin endpoint as a second client of the listener bookkeeping: invariants of
`adminReplace` / `adminClose` (new listener first, old server shut down afterwards, asynchronously).
-/
import CaddyModel.C02.Reload

namespace CaddyModel.C02

def isAdminStep : Step → Bool
  | .adminReplace _ _ => true
  | .adminClose _ _ => true
  | _ => false

/-- no other step touches the admin endpoint: not a rejected load, not caddy.Stop -/
theorem eff_admin_frame {s : State} {st : Step} (h : isAdminStep st = false) :
    (eff s st).asocks = s.asocks ∧ (eff s st).adm = s.adm ∧ (eff s st).admRetired = s.admRetired := by
  cases st with
  | adminReplace g a => simp [isAdminStep] at h
  | adminClose g a => simp [isAdminStep] at h
  | cb k g => cases k <;> exact ⟨rfl, rfl, rfl⟩
  | _ => exact ⟨rfl, rfl, rfl⟩

structure AInv (s : State) : Prop where
  holds : ∀ g a, s.adm = some (g, a) → (s.asocks a).holds g = true
  retOlder : ∀ g a, (g, a) ∈ s.admRetired → ∀ g' a', s.adm = some (g', a') → g < g'
  owner : ∀ a h, h ∈ (s.asocks a).hs → s.adm = some (h.gen, a) ∨ (h.gen, a) ∈ s.admRetired
  nodup : ∀ a, ((s.asocks a).hs.map Handle.gen).Nodup
  books : ∀ a, SockOk a (s.asocks a)
  clean : ∀ a, SockClean a (s.asocks a)

theorem AInv.init : AInv init := by
  constructor <;> simp [C02.init, Sock.empty]
  · intro a; exact SockOk.empty a
  · intro a; exact SockClean.empty a

theorem admGenOk_adm {s : State} {g : Gen} (h : admGenOk s g = true) {g0 : Gen} {a0 : Addr}
    (ha : s.adm = some (g0, a0)) : g0 < g := by
  unfold admGenOk at h
  rw [ha] at h
  simp only [Bool.and_eq_true, decide_eq_true_eq] at h
  exact h.1

theorem admGenOk_ret {s : State} {g : Gen} (h : admGenOk s g = true) {g1 : Gen} {a1 : Addr}
    (hm : (g1, a1) ∈ s.admRetired) : g1 < g := by
  unfold admGenOk at h
  simp only [Bool.and_eq_true, List.all_eq_true, decide_eq_true_eq] at h
  exact h.2 (g1, a1) hm

theorem AInv.replaceSome {s : State} (hi : AInv s) {g : Gen} {a : Addr}
    (hok : admGenOk s g = true) (hnh : (s.asocks a).holds g = false) :
    AInv (eff s (.adminReplace g (some a))) := by
  obtain ⟨kd, hkd⟩ := bindSock_hs a (s.asocks a) g
  have hsock : ∀ b, b ≠ a → setSock s.asocks a (bindSock a (s.asocks a) g) b = s.asocks b :=
    fun b hne => setSock_ne _ _ hne
  have hret : ∀ p, p ∈ s.adm.toList ++ s.admRetired → p.1 < g := by
    intro p hp
    rcases List.mem_append.mp hp with h | h
    · cases ha : s.adm with
      | none => rw [ha] at h; cases h
      | some q =>
        rw [ha] at h; simp at h; subst h
        exact admGenOk_adm hok (g0 := p.1) (a0 := p.2) ha
    · exact admGenOk_ret hok (a1 := p.2) h
  simp only [eff, asocksAfter, admAfter]
  refine ⟨?_, ?_, ?_, ?_, ?_, ?_⟩ <;> try dsimp only
  · intro g' a' h'; cases h'; rw [setSock_same]; exact holds_bindSock_self _ _ _
  · intro g1 a1 hm g' a' h'; cases h'; exact hret (g1, a1) hm
  · intro b h hm
    by_cases hba : b = a
    · subst hba; rw [setSock_same, hkd, List.mem_append] at hm
      rcases hm with hm | hm
      · right
        rcases hi.owner b h hm with ho | ho
        · exact List.mem_append_left _ (by rw [ho]; simp)
        · exact List.mem_append_right _ ho
      · simp at hm; subst hm; exact Or.inl rfl
    · rw [hsock b hba] at hm
      right
      rcases hi.owner b h hm with ho | ho
      · exact List.mem_append_left _ (by rw [ho]; simp)
      · exact List.mem_append_right _ ho
  · intro b
    by_cases hba : b = a
    · subst hba; rw [setSock_same, hkd, List.map_append, List.nodup_append]
      refine ⟨hi.nodup b, by simp, ?_⟩
      intro x hx y hy
      simp at hy; subst hy
      obtain ⟨h, hm, hg⟩ := List.mem_map.mp hx
      exact fun e => (Sock.holds_false_iff _ _).mp hnh h hm (hg.trans e)
    · rw [hsock b hba]; exact hi.nodup b
  · intro b
    by_cases hba : b = a
    · subst hba; rw [setSock_same]; exact (hi.books b).bind g
    · rw [hsock b hba]; exact hi.books b
  · intro b
    by_cases hba : b = a
    · subst hba; rw [setSock_same]; exact (hi.clean b).bind g
    · rw [hsock b hba]; exact hi.clean b

theorem AInv.replaceNone {s : State} (hi : AInv s) {g : Gen} : AInv (eff s (.adminReplace g none)) := by
  simp only [eff, asocksAfter, admAfter]
  refine ⟨?_, ?_, ?_, hi.nodup, hi.books, hi.clean⟩ <;> try dsimp only
  · intro g' a' h'; cases h'
  · intro g1 a1 _ g' a' h'; cases h'
  · intro b h hm
    right
    rcases hi.owner b h hm with ho | ho
    · exact List.mem_append_left _ (by rw [ho]; simp)
    · exact List.mem_append_right _ ho

theorem AInv.close {s : State} (hi : AInv s) {g : Gen} {a : Addr} (hm : (g, a) ∈ s.admRetired) :
    AInv (eff s (.adminClose g a)) := by
  have hsock : ∀ b, b ≠ a → setSock s.asocks a (closeSock a (s.asocks a) g) b = s.asocks b :=
    fun b hne => setSock_ne _ _ hne
  simp only [eff]
  refine ⟨?_, ?_, ?_, ?_, ?_, ?_⟩ <;> try dsimp only
  · intro g' a' h'
    by_cases hba : a' = a
    · subst hba
      rw [setSock_same, holds_closeSock_of_ne _ _ _ _ (Nat.ne_of_gt (hi.retOlder g a' hm g' a' h'))]
      exact hi.holds g' a' h'
    · rw [hsock a' hba]; exact hi.holds g' a' h'
  · intro g1 a1 h1 g' a' h'; exact hi.retOlder g1 a1 (List.mem_of_mem_erase h1) g' a' h'
  · intro b h hmem
    by_cases hba : b = a
    · subst hba
      rw [setSock_same] at hmem
      have hne : h.gen ≠ g := by
        intro e
        have := not_holds_closeSock b (s.asocks b) g (hi.nodup b)
        rw [Sock.holds_false_iff] at this
        exact this h hmem e
      rcases hi.owner b h (mem_closeSock _ _ _ hmem) with ho | ho
      · exact Or.inl ho
      · exact Or.inr ((List.mem_erase_of_ne (by intro e; cases e; exact hne rfl)).mpr ho)
    · rw [hsock b hba] at hmem
      rcases hi.owner b h hmem with ho | ho
      · exact Or.inl ho
      · exact Or.inr ((List.mem_erase_of_ne (by intro e; cases e; exact hba rfl)).mpr ho)
  · intro b
    by_cases hba : b = a
    · subst hba; rw [setSock_same]
      exact List.Nodup.sublist ((closeSock_sublist _ _ _).map _) (hi.nodup b)
    · rw [hsock b hba]; exact hi.nodup b
  · intro b
    by_cases hba : b = a
    · subst hba; rw [setSock_same]; exact (hi.books b).close g
    · rw [hsock b hba]; exact hi.books b
  · intro b
    by_cases hba : b = a
    · subst hba; rw [setSock_same]; exact (hi.clean b).close (hi.books b) g
    · rw [hsock b hba]; exact hi.clean b

theorem AInv.step {s s' : State} {st : Step} (hi : AInv s) (h : step? s st = some s') : AInv s' := by
  obtain ⟨he, rfl⟩ := step?_some h
  by_cases ha : isAdminStep st = true
  · cases st with
    | adminReplace g a =>
      simp only [enabled, Bool.and_eq_true] at he
      cases a with
      | none => exact hi.replaceNone
      | some a => exact hi.replaceSome he.1.2 (by simpa using he.2)
    | adminClose g a =>
      exact hi.close (by simpa [enabled] using he)
    | _ => simp [isAdminStep] at ha
  · obtain ⟨e1, e2, e3⟩ := eff_admin_frame (s := s) (st := st) (by simpa using ha)
    exact ⟨by rw [e1, e2]; exact hi.holds, by rw [e2, e3]; exact hi.retOlder, by rw [e1, e2, e3]; exact hi.owner,
      by rw [e1]; exact hi.nodup, by rw [e1]; exact hi.books, by rw [e1]; exact hi.clean⟩

theorem Reach.ainv {s : State} (h : Reach s) : AInv s := by
  induction h with
  | init => exact AInv.init
  | step st _ hs ih => exact ih.step hs

/-- every admin server this run starts listens on `a` (and none is disabled) -/
def keepsAdmin (a : Addr) : List Step → Bool
  | [] => true
  | .adminReplace _ b :: rest => b == some a && keepsAdmin a rest
  | _ :: rest => keepsAdmin a rest

theorem keepsAdmin_run {a : Addr} : ∀ (steps : List Step) {s s' : State}, (∃ g, s.adm = some (g, a)) →
    run s steps = some s' → keepsAdmin a steps = true → ∃ g, s'.adm = some (g, a)
  | [], s, s', hq, hr, _ => by simp [C02.run] at hr; exact hr ▸ hq
  | st :: rest, s, s', hq, hr, hk => by
    unfold C02.run at hr
    split at hr
    · rename_i s1 hs1
      obtain ⟨_, rfl⟩ := step?_some hs1
      by_cases ha : isAdminStep st = true
      · cases st with
        | adminReplace g b =>
          simp only [keepsAdmin, Bool.and_eq_true, beq_iff_eq] at hk
          refine keepsAdmin_run rest ⟨g, ?_⟩ hr hk.2
          rw [hk.1]; rfl
        | adminClose g b => exact keepsAdmin_run rest (s := eff s (.adminClose g b)) hq hr (by simpa [keepsAdmin] using hk)
        | _ => simp [isAdminStep] at ha
      · obtain ⟨_, e2, _⟩ := eff_admin_frame (s := s) (st := st) (by simpa using ha)
        refine keepsAdmin_run rest (by rw [e2]; exact hq) hr ?_
        cases st with
        | adminReplace g b => simp [isAdminStep] at ha
        | cb k g => simpa [keepsAdmin] using hk
        | _ => simpa [keepsAdmin] using hk
    · cases hr

end CaddyModel.C02
