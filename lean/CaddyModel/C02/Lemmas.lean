/-
C02 — helper lemmas: what `bindSock` / `closeSock` do to the list of open listeners, the
reachability relation, and the invariants of the transition system (`Inv`: ownership and
ordering of generations; `SockOk`: counters = what the listener list says).
-/
import CaddyModel.C02.Model
import CaddyModel.C02.Spec

namespace CaddyModel.C02

/-! ### one address -/

theorem Sock.holds_iff (k : Sock) (g : Gen) : k.holds g = true ↔ ∃ h, h ∈ k.hs ∧ h.gen = g := by
  simp [Sock.holds, List.any_eq_true]

theorem Sock.holds_false_iff (k : Sock) (g : Gen) : k.holds g = false ↔ ∀ h, h ∈ k.hs → h.gen ≠ g := by
  rw [← Bool.not_eq_true, Sock.holds_iff]
  constructor
  · intro h x hx he; exact h ⟨x, hx, he⟩
  · intro h ⟨x, hx, he⟩; exact h x hx he

theorem bindSock_hs (a : Addr) (k : Sock) (g : Gen) :
    ∃ kd, (bindSock a k g).hs = k.hs ++ [⟨g, kd⟩] := by
  unfold bindSock bindUnix bindTcp
  split
  · split <;> exact ⟨_, rfl⟩
  · exact ⟨_, rfl⟩

theorem closeSock_hs (a : Addr) (k : Sock) (g : Gen) :
    (closeSock a k g).hs =
      match k.hs.find? (fun h => h.gen == g) with
      | none => k.hs
      | some h => k.hs.erase h := by
  unfold closeSock
  cases hf : k.hs.find? (fun h => h.gen == g) with
  | none => rfl
  | some h0 =>
    simp only
    unfold closeUnix closeTcp
    split
    · split <;> rfl
    · rfl

theorem closeSock_sublist (a : Addr) (k : Sock) (g : Gen) : (closeSock a k g).hs.Sublist k.hs := by
  rw [closeSock_hs]
  split
  · exact List.Sublist.refl _
  · exact List.erase_sublist

theorem mem_closeSock (a : Addr) (k : Sock) (g : Gen) {h : Handle} (hm : h ∈ (closeSock a k g).hs) : h ∈ k.hs :=
  (closeSock_sublist a k g).subset hm

theorem mem_closeSock_of_ne (a : Addr) (k : Sock) (g : Gen) {h : Handle} (hne : h.gen ≠ g)
    (hm : h ∈ k.hs) : h ∈ (closeSock a k g).hs := by
  rw [closeSock_hs]
  split
  · exact hm
  · rename_i h0 hf
    have h0g : h0.gen = g := by simpa using List.find?_some hf
    have : h ≠ h0 := fun e => hne (e ▸ h0g)
    exact (List.mem_erase_of_ne this).mpr hm

theorem holds_closeSock_of_ne (a : Addr) (k : Sock) (g g' : Gen) (hne : g' ≠ g) :
    (closeSock a k g).holds g' = k.holds g' := by
  cases hk : k.holds g'
  · rw [Sock.holds_false_iff] at hk ⊢
    intro h hm; exact hk h (mem_closeSock a k g hm)
  · rw [Sock.holds_iff] at hk ⊢
    obtain ⟨h, hm, he⟩ := hk
    exact ⟨h, mem_closeSock_of_ne a k g (he ▸ hne) hm, he⟩

theorem holds_closeSock_le (a : Addr) (k : Sock) (g g' : Gen) (h : (closeSock a k g).holds g' = true) :
    k.holds g' = true := by
  rw [Sock.holds_iff] at h ⊢
  obtain ⟨x, hm, he⟩ := h
  exact ⟨x, mem_closeSock a k g hm, he⟩

theorem holds_bindSock_self (a : Addr) (k : Sock) (g : Gen) : (bindSock a k g).holds g = true := by
  obtain ⟨kd, e⟩ := bindSock_hs a k g
  rw [Sock.holds_iff, e]
  exact ⟨⟨g, kd⟩, by simp, rfl⟩

theorem holds_bindSock_of_holds (a : Addr) (k : Sock) (g g' : Gen) (h : k.holds g' = true) :
    (bindSock a k g).holds g' = true := by
  obtain ⟨kd, e⟩ := bindSock_hs a k g
  rw [Sock.holds_iff] at h ⊢
  obtain ⟨x, hm, he⟩ := h
  exact ⟨x, by rw [e]; exact List.mem_append_left _ hm, he⟩

theorem holds_bindSock_of_ne (a : Addr) (k : Sock) (g g' : Gen) (hne : g' ≠ g) :
    (bindSock a k g).holds g' = k.holds g' := by
  obtain ⟨kd, e⟩ := bindSock_hs a k g
  cases hk : k.holds g'
  · rw [Sock.holds_false_iff] at hk ⊢
    intro h hm
    rw [e, List.mem_append] at hm
    rcases hm with hm | hm
    · exact hk h hm
    · simp at hm; subst hm; exact fun e' => hne e'.symm
  · exact holds_bindSock_of_holds a k g g' hk

/-! ### counters agree with the listener list -/

/-- the bookkeeping of one address is consistent with its list of open listeners -/
structure SockOk (a : Addr) (k : Sock) : Prop where
  tcpPool : a.unix = false → k.pool = k.hs.length
  ucnt : a.unix = true → k.ucnt = k.hs.length
  umapNone : a.unix = true → (k.umap = none ↔ k.hs = [])
  fileHeld : a.unix = true → k.hs ≠ [] → k.file = true

theorem SockOk.empty (a : Addr) : SockOk a Sock.empty := by
  constructor <;> simp [Sock.empty]

theorem SockOk.bind {a : Addr} {k : Sock} (h : SockOk a k) (g : Gen) : SockOk a (bindSock a k g) := by
  unfold bindSock
  cases hu : a.unix
  · simp only [Bool.false_eq_true, if_false]
    have ff : a.unix = true → False := by simp [hu]
    refine ⟨fun _ => ?_, fun h' => (ff h').elim, fun h' => (ff h').elim, fun h' => (ff h').elim⟩
    have := h.tcpPool hu
    simp [bindTcp]; omega
  · simp only [if_true]
    have tt : a.unix = false → False := by simp [hu]
    unfold bindUnix
    cases hm : k.umap with
    | none =>
      have he : k.hs = [] := (h.umapNone hu).mp hm
      refine ⟨fun h' => (tt h').elim, fun _ => ?_, fun _ => ?_, fun _ _ => rfl⟩
      · simp [he]
      · simp
    | some g0 =>
      have hne : k.hs ≠ [] := fun e => by have := (h.umapNone hu).mpr e; simp [hm] at this
      refine ⟨fun h' => (tt h').elim, fun _ => ?_, fun _ => ?_, fun _ _ => ?_⟩
      · have := h.ucnt hu
        simp; omega
      · simp
      · exact h.fileHeld hu hne

theorem SockOk.close {a : Addr} {k : Sock} (h : SockOk a k) (g : Gen) : SockOk a (closeSock a k g) := by
  unfold closeSock
  split
  · exact h
  · rename_i h0 hf
    have hm : h0 ∈ k.hs := List.mem_of_find?_eq_some hf
    have hlen : (k.hs.erase h0).length = k.hs.length - 1 := List.length_erase_of_mem hm
    have hpos : 0 < k.hs.length := List.length_pos_of_mem hm
    have hne0 : k.hs ≠ [] := List.ne_nil_of_mem hm
    cases hu : a.unix
    · simp only [Bool.false_eq_true, if_false]
      have ff : a.unix = true → False := by simp [hu]
      refine ⟨fun _ => ?_, fun h' => (ff h').elim, fun h' => (ff h').elim, fun h' => (ff h').elim⟩
      have := h.tcpPool hu
      simp only [closeTcp]; omega
    · simp only [if_true]
      have tt : a.unix = false → False := by simp [hu]
      unfold closeUnix
      have hc := h.ucnt hu
      split
      · rename_i hle
        have he : k.hs.erase h0 = [] := by
          apply List.eq_nil_of_length_eq_zero; omega
        refine ⟨fun h' => (tt h').elim, fun _ => ?_, fun _ => ?_, fun _ hx => ?_⟩
        · simp [he]
        · simp [he]
        · exact absurd he hx
      · rename_i hgt
        have hne : k.hs.erase h0 ≠ [] := by
          intro e; rw [e] at hlen; simp at hlen; omega
        refine ⟨fun h' => (tt h').elim, fun _ => ?_, fun _ => ?_, fun _ _ => ?_⟩
        · simp only; omega
        · simp only
          constructor
          · intro e; exact absurd ((h.umapNone hu).mp e) hne0
          · intro e; exact absurd e hne
        · exact h.fileHeld hu hne0

theorem SockOk.gc {a : Addr} {k : Sock} (h : SockOk a k) : SockOk a { k with leaks := 0 } :=
  ⟨h.tcpPool, h.ucnt, h.umapNone, h.fileHeld⟩

/-- nothing is left behind: an unheld unix socket has no file, no descriptor is leaked -/
structure SockClean (a : Addr) (k : Sock) : Prop where
  fileGone : a.unix = true → k.hs = [] → k.file = false
  noLeak : k.leaks = 0

theorem SockClean.empty (a : Addr) : SockClean a Sock.empty := ⟨fun _ _ => rfl, rfl⟩

theorem SockClean.bind {a : Addr} {k : Sock} (h : SockClean a k) (g : Gen) : SockClean a (bindSock a k g) := by
  obtain ⟨kd, hkd⟩ := bindSock_hs a k g
  refine ⟨fun _ he => ?_, ?_⟩
  · rw [hkd] at he; simp at he
  · unfold bindSock bindUnix bindTcp
    split
    · split
      · exact h.noLeak
      · rfl
    · exact h.noLeak

theorem SockClean.close {a : Addr} {k : Sock} (hok : SockOk a k) (h : SockClean a k) (g : Gen) :
    SockClean a (closeSock a k g) := by
  unfold closeSock
  split
  · exact h
  · rename_i h0 hf
    have hm : h0 ∈ k.hs := List.mem_of_find?_eq_some hf
    have hlen : (k.hs.erase h0).length = k.hs.length - 1 := List.length_erase_of_mem hm
    cases hu : a.unix
    · simp only [Bool.false_eq_true, if_false]
      exact ⟨fun h' => by simp [hu] at h', h.noLeak⟩
    · simp only [if_true]
      unfold closeUnix
      split
      · exact ⟨fun _ _ => rfl, h.noLeak⟩
      · rename_i hgt
        refine ⟨fun _ he => ?_, h.noLeak⟩
        have hc := hok.ucnt hu
        simp only at he
        rw [he] at hlen
        simp at hlen
        omega

/-! ### the transition system -/

@[simp] theorem setSock_same (f : Addr → Sock) (a : Addr) (k : Sock) : setSock f a k a = k := by
  simp [setSock]

theorem setSock_ne (f : Addr → Sock) {a b : Addr} (k : Sock) (h : b ≠ a) : setSock f a k b = f b := by
  simp [setSock, h]

theorem step?_some {s s' : State} {st : Step} (h : step? s st = some s') : enabled s st = true ∧ s' = eff s st := by
  unfold step? at h
  split at h
  · exact ⟨by assumption, by cases h; rfl⟩
  · cases h

/-- states the code can reach -/
inductive Reach : State → Prop where
  | init : Reach init
  | step {s s' : State} (st : Step) : Reach s → step? s st = some s' → Reach s'

theorem Reach.run {s : State} (h : Reach s) : ∀ (steps : List Step) (s' : State), run s steps = some s' → Reach s' := by
  intro steps
  induction steps generalizing s with
  | nil => intro s' hr; simp [C02.run] at hr; exact hr ▸ h
  | cons st rest ih =>
    intro s' hr
    unfold C02.run at hr
    split at hr
    · rename_i s1 hs1
      exact ih (Reach.step st h hs1) s' hr
    · cases hr

theorem run_append (s : State) (xs ys : List Step) :
    run s (xs ++ ys) = (run s xs).bind (fun s' => run s' ys) := by
  induction xs generalizing s with
  | nil => rfl
  | cons x xs ih =>
    simp only [List.cons_append, run]
    cases step? s x with
    | none => rfl
    | some s1 => exact ih s1

/-- a prefix of an accepted run is an accepted run -/
theorem run_prefix {s s' : State} {xs ys : List Step} (h : run s (xs ++ ys) = some s') :
    ∃ s1, run s xs = some s1 ∧ run s1 ys = some s' := by
  rw [run_append] at h
  cases h1 : run s xs with
  | none => simp [h1] at h
  | some s1 => exact ⟨s1, rfl, by simpa [h1] using h⟩

def State.owns (s : State) (g : Gen) : Prop :=
  genOf s.cur = some g ∨ genOf s.next = some g ∨ genOf s.retiring = some g ∨ g ∈ s.zombies

/-- ownership and ordering of config generations -/
structure Inv (s : State) : Prop where
  curHolds : ∀ c, s.cur = some c → ∀ a, a ∈ c.addrs → s.holds a c.gen = true
  curLt : ∀ c, s.cur = some c → c.gen < s.fresh
  nextLt : ∀ c, s.next = some c → c.gen < s.fresh
  hLt : ∀ a h, h ∈ (s.socks a).hs → h.gen < s.fresh
  curNeNext : ∀ c n, s.cur = some c → s.next = some n → c.gen ≠ n.gen
  curNeRet : ∀ c r, s.cur = some c → s.retiring = some r → c.gen ≠ r.gen
  nextRet : ∀ n, s.next = some n → s.retiring = none
  idleNext : s.phase = .idle → s.next = none
  stoppingNext : s.phase = .stopping → s.next = none
  owner : ∀ a h, h ∈ (s.socks a).hs → s.owns h.gen
  membCur : ∀ c a, s.cur = some c → s.holds a c.gen = true → a ∈ c.addrs
  membNext : ∀ c a, s.next = some c → s.holds a c.gen = true → a ∈ c.addrs
  membRet : ∀ c a, s.retiring = some c → s.holds a c.gen = true → a ∈ c.addrs
  nodup : ∀ a, ((s.socks a).hs.map Handle.gen).Nodup
  books : ∀ a, SockOk a (s.socks a)

theorem Inv.init : Inv init := by
  constructor <;> simp [C02.init, State.holds, Sock.empty, Sock.holds, State.owns, genOf]
  intro a; exact SockOk.empty a


/-! ### guards, unpacked -/

theorem bindable_some {s : State} {a : Addr} (h : bindable s a = true) :
    ∃ c, s.next = some c ∧ a ∈ c.addrs ∧ s.holds a c.gen = false := by
  unfold bindable at h
  split at h
  · rename_i c hc
    simp only [Bool.and_eq_true, Bool.not_eq_true', List.contains_iff_mem] at h
    exact ⟨c, hc, h.1.2, h.2⟩
  · cases h

theorem drained_not_holds {s : State} {r : Cfg} {a : Addr} (hd : s.drained = true)
    (hr : s.retiring = some r) (ha : a ∈ r.addrs) : s.holds a r.gen = false := by
  unfold State.drained at hd
  rw [hr] at hd
  simp only [List.all_eq_true, Bool.not_eq_true'] at hd
  exact hd a ha

theorem isRetiring_some {s : State} {g : Gen} (h : isRetiring s g = true) :
    ∃ r, s.retiring = some r ∧ r.gen = g := by
  unfold isRetiring genOf at h
  cases hr : s.retiring with
  | none => simp [hr] at h
  | some r => simp [hr] at h; exact ⟨r, rfl, h⟩

theorem mem_hs_holds {s : State} {a : Addr} {h : Handle} (hm : h ∈ (s.socks a).hs) : s.holds a h.gen = true :=
  (Sock.holds_iff _ _).mpr ⟨h, hm, rfl⟩

/-- a handle owned only by a drained retiring config cannot exist -/
theorem Inv.owns_after_drop {s : State} (hi : Inv s) (hd : s.drained = true) (hn : s.next = none)
    {a : Addr} {h : Handle} (hm : h ∈ (s.socks a).hs) :
    genOf s.cur = some h.gen ∨ h.gen ∈ s.zombies := by
  rcases hi.owner a h hm with ho | ho | ho | ho
  · exact Or.inl ho
  · simp [hn, genOf] at ho
  · exfalso
    cases hr : s.retiring with
    | none => simp [hr, genOf] at ho
    | some r =>
      simp [hr, genOf] at ho
      have h1 : s.holds a r.gen = true := ho ▸ mem_hs_holds hm
      have h2 := drained_not_holds hd hr (hi.membRet r a hr h1)
      rw [h1] at h2; cases h2
  · exact Or.inr ho

/-! ### every step preserves the invariant -/

theorem Inv.begin {s : State} (hi : Inv s) {c : Cfg} (he : enabled s (.begin c) = true) : Inv (eff s (.begin c)) := by
  simp only [enabled, Bool.and_eq_true, decide_eq_true_eq] at he
  obtain ⟨⟨⟨hph, hd⟩, hf⟩, _⟩ := he
  have hn := hi.idleNext hph
  simp only [eff]
  refine ⟨hi.curHolds, ?_, ?_, ?_, ?_, ?_, ?_, ?_, ?_, ?_, hi.membCur, ?_, ?_, hi.nodup, hi.books⟩ <;> try dsimp only
  · intro c0 h0; have := hi.curLt c0 h0; omega
  · intro c' h'; cases h'; omega
  · intro a h hm; have := hi.hLt a h hm; omega
  · intro c0 n h0 h'; cases h'; have := hi.curLt c0 h0; omega
  · intro c0 r _ h'; cases h'
  · intro _ _; rfl
  · intro h'; cases h'
  · intro h'; cases h'
  · intro a h hm
    rcases hi.owns_after_drop hd hn hm with ho | ho
    · exact Or.inl ho
    · exact Or.inr (Or.inr (Or.inr ho))
  · intro c' a h' hh; cases h'
    obtain ⟨x, hx, hg⟩ := (Sock.holds_iff _ _).mp hh
    have := hi.hLt a x hx
    omega
  · intro c' a h'; cases h'

theorem Inv.bind {s : State} (hi : Inv s) {a : Addr} (hb : bindable s a = true) : Inv (eff s (.bind a)) := by
  obtain ⟨c, hc, hac, hnh⟩ := bindable_some hb
  have hng : nextGen s = c.gen := by simp [nextGen, hc]
  obtain ⟨kd, hkd⟩ := bindSock_hs a (s.socks a) c.gen
  simp only [eff, hng]
  have hsock : ∀ b, b ≠ a → setSock s.socks a (bindSock a (s.socks a) c.gen) b = s.socks b :=
    fun b hne => setSock_ne _ _ hne
  refine ⟨?_, hi.curLt, hi.nextLt, ?_, hi.curNeNext, hi.curNeRet, hi.nextRet, ?_, ?_, ?_, ?_, ?_, ?_, ?_, ?_⟩ <;> try dsimp only
  · intro c0 h0 b hb0
    simp only [State.holds]
    by_cases hba : b = a
    · subst hba; rw [setSock_same]; exact holds_bindSock_of_holds _ _ _ _ (hi.curHolds c0 h0 b hb0)
    · rw [hsock b hba]; exact hi.curHolds c0 h0 b hb0
  · intro b h hm
    by_cases hba : b = a
    · subst hba; rw [setSock_same, hkd, List.mem_append] at hm
      rcases hm with hm | hm
      · exact hi.hLt b h hm
      · simp at hm; subst hm; exact hi.nextLt c hc
    · rw [hsock b hba] at hm; exact hi.hLt b h hm
  · intro h'; cases h'
  · intro h'; cases h'
  · intro b h hm
    by_cases hba : b = a
    · subst hba; rw [setSock_same, hkd, List.mem_append] at hm
      rcases hm with hm | hm
      · exact hi.owner b h hm
      · simp at hm; subst hm; exact Or.inr (Or.inl (by simp [genOf, hc]))
    · rw [hsock b hba] at hm; exact hi.owner b h hm
  · intro c0 b h0 hh
    simp only [State.holds] at hh
    by_cases hba : b = a
    · subst hba; rw [setSock_same, holds_bindSock_of_ne _ _ _ _ (hi.curNeNext c0 c h0 hc)] at hh
      exact hi.membCur c0 b h0 hh
    · rw [hsock b hba] at hh; exact hi.membCur c0 b h0 hh
  · intro c' b h' hh
    rw [hc] at h'; cases h'
    simp only [State.holds] at hh
    by_cases hba : b = a
    · subst hba; exact hac
    · rw [hsock b hba] at hh; exact hi.membNext c b hc hh
  · intro r b hr; rw [hi.nextRet c hc] at hr; cases hr
  · intro b
    by_cases hba : b = a
    · subst hba; rw [setSock_same, hkd, List.map_append, List.nodup_append]
      refine ⟨hi.nodup b, by simp, ?_⟩ <;> try dsimp only
      intro x hx y hy
      simp at hy; subst hy
      obtain ⟨h, hm, hg⟩ := List.mem_map.mp hx
      exact fun e => (Sock.holds_false_iff _ _).mp hnh h hm (hg.trans e)
    · rw [hsock b hba]; exact hi.nodup b
  · intro b
    by_cases hba : b = a
    · subst hba; rw [setSock_same]; exact (hi.books b).bind c.gen
    · rw [hsock b hba]; exact hi.books b

theorem Inv.bindStale {s : State} (hi : Inv s) {a : Addr} (hb : bindable s a = true) : Inv (eff s (.bindStale a)) := by
  obtain ⟨c, hc, _, _⟩ := bindable_some hb
  have hng : nextGen s = c.gen := by simp [nextGen, hc]
  simp only [eff, hng]
  refine ⟨hi.curHolds, hi.curLt, ?_, hi.hLt, ?_, ?_, ?_, ?_, ?_, ?_, hi.membCur, ?_, ?_, hi.nodup, hi.books⟩ <;> try dsimp only
  · intro c' h'; cases h'
  · intro c0 n _ h'; cases h'
  · intro c0 r _ h'; cases h'
  · intro n h'; cases h'
  · intro h'; cases h'
  · intro _; rfl
  · intro b h hm
    rcases hi.owner b h hm with ho | ho | ho | ho
    · exact Or.inl ho
    · refine Or.inr (Or.inr (Or.inr ?_))
      simp [genOf, hc] at ho; simp [ho]
    · rw [hi.nextRet c hc] at ho; simp [genOf] at ho
    · exact Or.inr (Or.inr (Or.inr (List.mem_cons_of_mem _ ho)))
  · intro c' b h'; cases h'
  · intro c' b h'; cases h'

theorem Inv.swap {s : State} (hi : Inv s) (he : enabled s .swap = true) : Inv (eff s .swap) := by
  simp only [enabled] at he
  split at he
  · rename_i c hc
    simp only [Bool.and_eq_true] at he
    have hab : ∀ a, a ∈ c.addrs → s.holds a c.gen = true := by
      have := he.2; unfold allBound at this; simpa [List.all_eq_true] using this
    have hret := hi.nextRet c hc
    simp only [eff, hc]
    refine ⟨?_, ?_, ?_, hi.hLt, ?_, ?_, ?_, ?_, ?_, ?_, ?_, ?_, ?_, hi.nodup, hi.books⟩ <;> try dsimp only
    · intro c' h' a ha; cases h'; exact hab a ha
    · intro c' h'; cases h'; exact hi.nextLt c hc
    · intro c' h'; cases h'
    · intro c' n _ h'; cases h'
    · intro c' r h' hr; cases h'; exact (hi.curNeNext r c hr hc).symm
    · intro n h'; cases h'
    · intro h'; cases h'
    · intro _; rfl
    · intro b h hm
      rcases hi.owner b h hm with ho | ho | ho | ho
      · exact Or.inr (Or.inr (Or.inl ho))
      · exact Or.inl (by simpa [hc] using ho)
      · rw [hret] at ho; simp [genOf] at ho
      · exact Or.inr (Or.inr (Or.inr ho))
    · intro c' b h' hh; cases h'; exact hi.membNext c b hc hh
    · intro c' b h'; cases h'
    · intro c' b h' hh; exact hi.membCur c' b h' hh
  · cases he

theorem Inv.reject {s : State} (hi : Inv s) (he : enabled s .reject = true) : Inv (eff s .reject) := by
  simp only [enabled, Bool.and_eq_true] at he
  cases hc : s.next with
  | none => simp [hc] at he
  | some c =>
    have hret := hi.nextRet c hc
    simp only [eff, hc]
    refine ⟨hi.curHolds, hi.curLt, ?_, hi.hLt, ?_, ?_, ?_, ?_, ?_, ?_, hi.membCur, ?_, ?_, hi.nodup, hi.books⟩ <;> try dsimp only
    · intro c' h'; cases h'
    · intro c' n _ h'; cases h'
    · intro c' r h' hr; cases hr; exact hi.curNeNext c' c h' hc
    · intro n h'; cases h'
    · intro h'; cases h'
    · intro _; rfl
    · intro b h hm
      rcases hi.owner b h hm with ho | ho | ho | ho
      · exact Or.inl ho
      · exact Or.inr (Or.inr (Or.inl (by simpa [hc] using ho)))
      · rw [hret] at ho; simp [genOf] at ho
      · exact Or.inr (Or.inr (Or.inr ho))
    · intro c' b h'; cases h'
    · intro c' b h' hh; cases h'; exact hi.membNext c b hc hh

theorem Inv.close {s : State} (hi : Inv s) {g : Gen} {a : Addr} (hr : isRetiring s g = true) : Inv (eff s (.close g a)) := by
  obtain ⟨r, hr, hrg⟩ := isRetiring_some hr
  simp only [eff]
  have hsock : ∀ b, b ≠ a → setSock s.socks a (closeSock a (s.socks a) g) b = s.socks b :=
    fun b hne => setSock_ne _ _ hne
  have hle : ∀ b g', (setSock s.socks a (closeSock a (s.socks a) g) b).holds g' = true → s.holds b g' = true := by
    intro b g' hh
    by_cases hba : b = a
    · subst hba; rw [setSock_same] at hh; exact holds_closeSock_le _ _ _ _ hh
    · rw [hsock b hba] at hh; exact hh
  have hmem : ∀ b h, h ∈ (setSock s.socks a (closeSock a (s.socks a) g) b).hs → h ∈ (s.socks b).hs := by
    intro b h hm
    by_cases hba : b = a
    · subst hba; rw [setSock_same] at hm; exact mem_closeSock _ _ _ hm
    · rw [hsock b hba] at hm; exact hm
  refine ⟨?_, hi.curLt, hi.nextLt, ?_, hi.curNeNext, hi.curNeRet, hi.nextRet, hi.idleNext, hi.stoppingNext, ?_, ?_, ?_, ?_, ?_, ?_⟩ <;> try dsimp only
  · intro c0 h0 b hb0
    simp only [State.holds]
    by_cases hba : b = a
    · subst hba
      rw [setSock_same, holds_closeSock_of_ne _ _ _ _ (hrg ▸ hi.curNeRet c0 r h0 hr)]
      exact hi.curHolds c0 h0 b hb0
    · rw [hsock b hba]; exact hi.curHolds c0 h0 b hb0
  · intro b h hm; exact hi.hLt b h (hmem b h hm)
  · intro b h hm; exact hi.owner b h (hmem b h hm)
  · intro c0 b h0 hh; exact hi.membCur c0 b h0 (hle b _ hh)
  · intro c0 b h0 hh; exact hi.membNext c0 b h0 (hle b _ hh)
  · intro c0 b h0 hh; exact hi.membRet c0 b h0 (hle b _ hh)
  · intro b
    by_cases hba : b = a
    · subst hba; rw [setSock_same]
      exact List.Nodup.sublist ((closeSock_sublist _ _ _).map _) (hi.nodup b)
    · rw [hsock b hba]; exact hi.nodup b
  · intro b
    by_cases hba : b = a
    · subst hba; rw [setSock_same]; exact (hi.books b).close g
    · rw [hsock b hba]; exact hi.books b

theorem Inv.stopAll {s : State} (hi : Inv s) (he : enabled s .stopAll = true) : Inv (eff s .stopAll) := by
  simp only [enabled, Bool.and_eq_true, decide_eq_true_eq] at he
  obtain ⟨hph, hd⟩ := he
  have hn := hi.idleNext hph
  simp only [eff]
  refine ⟨?_, ?_, hi.nextLt, hi.hLt, ?_, ?_, ?_, ?_, ?_, ?_, ?_, hi.membNext, ?_, hi.nodup, hi.books⟩ <;> try dsimp only
  · intro c h'; cases h'
  · intro c h'; cases h'
  · intro c n h'; cases h'
  · intro c r h'; cases h'
  · intro n h'; rw [hn] at h'; cases h'
  · intro h'; cases h'
  · intro _; exact hn
  · intro b h hm
    rcases hi.owns_after_drop hd hn hm with ho | ho
    · exact Or.inr (Or.inr (Or.inl ho))
    · exact Or.inr (Or.inr (Or.inr ho))
  · intro c b h'; cases h'
  · intro c b h' hh; exact hi.membCur c b h' hh

/-- steps that leave generations, phase-independent structure and every listener list alone -/
theorem Inv.frame {s s' : State} (hi : Inv s)
    (hcur : s'.cur = s.cur) (hnext : s'.next = s.next) (hret : s'.retiring = s.retiring)
    (hz : s'.zombies = s.zombies) (hf : s'.fresh = s.fresh)
    (hhs : ∀ a, (s'.socks a).hs = (s.socks a).hs)
    (hidle : s'.phase = .idle → s'.next = none) (hstop : s'.phase = .stopping → s'.next = none)
    (hb : ∀ a, SockOk a (s'.socks a)) : Inv s' := by
  have hh : ∀ a g, s'.holds a g = s.holds a g := by
    intro a g; simp [State.holds, Sock.holds, hhs a]
  refine ⟨?_, ?_, ?_, ?_, ?_, ?_, ?_, hidle, hstop, ?_, ?_, ?_, ?_, ?_, hb⟩
  · intro c h a ha; rw [hh]; exact hi.curHolds c (hcur ▸ h) a ha
  · intro c h; rw [hf]; exact hi.curLt c (hcur ▸ h)
  · intro c h; rw [hf]; exact hi.nextLt c (hnext ▸ h)
  · intro a h hm; rw [hf]; exact hi.hLt a h (hhs a ▸ hm)
  · intro c n h1 h2; exact hi.curNeNext c n (hcur ▸ h1) (hnext ▸ h2)
  · intro c r h1 h2; exact hi.curNeRet c r (hcur ▸ h1) (hret ▸ h2)
  · intro n h; rw [hret]; exact hi.nextRet n (hnext ▸ h)
  · intro a h hm
    have := hi.owner a h (hhs a ▸ hm)
    unfold State.owns at this ⊢
    rw [hcur, hnext, hret, hz]; exact this
  · intro c a h hx; rw [hh] at hx; exact hi.membCur c a (hcur ▸ h) hx
  · intro c a h hx; rw [hh] at hx; exact hi.membNext c a (hnext ▸ h) hx
  · intro c a h hx; rw [hh] at hx; exact hi.membRet c a (hret ▸ h) hx
  · intro a; rw [hhs a]; exact hi.nodup a

theorem Inv.step {s s' : State} {st : Step} (hi : Inv s) (h : step? s st = some s') : Inv s' := by
  obtain ⟨he, rfl⟩ := step?_some h
  cases st with
  | begin c => exact hi.begin he
  | bind a => exact hi.bind he
  | bindStale a => simp [enabled] at he
  | swap => exact hi.swap he
  | reject => exact hi.reject he
  | close g a =>
    simp only [enabled, Bool.and_eq_true] at he
    exact hi.close he.1
  | stopAll => exact hi.stopAll he
  | ret =>
    simp only [enabled, decide_eq_true_eq] at he
    exact hi.frame rfl rfl rfl rfl rfl (fun _ => rfl) (fun _ => hi.stoppingNext he) (fun h' => by cases h') hi.books
  | gc a =>
    refine hi.frame rfl rfl rfl rfl rfl ?_ hi.idleNext hi.stoppingNext ?_
    · intro b
      simp only [eff]
      by_cases hba : b = a
      · subst hba; rw [setSock_same]
      · rw [setSock_ne _ _ hba]
    · intro b
      simp only [eff]
      by_cases hba : b = a
      · subst hba; rw [setSock_same]; exact (hi.books b).gc
      · rw [setSock_ne _ _ hba]; exact hi.books b
  | accept t g a => exact hi.frame rfl rfl rfl rfl rfl (fun _ => rfl) hi.idleNext hi.stoppingNext hi.books
  | adminReplace g a => exact hi.frame rfl rfl rfl rfl rfl (fun _ => rfl) hi.idleNext hi.stoppingNext hi.books
  | adminClose g a => exact hi.frame rfl rfl rfl rfl rfl (fun _ => rfl) hi.idleNext hi.stoppingNext hi.books
  | cancelCtx g => exact hi.frame rfl rfl rfl rfl rfl (fun _ => rfl) hi.idleNext hi.stoppingNext hi.books
  | complete t g => exact hi.frame rfl rfl rfl rfl rfl (fun _ => rfl) hi.idleNext hi.stoppingNext hi.books
  | cb k g =>
    cases k with
    | start => exact hi.frame rfl rfl rfl rfl rfl (fun _ => rfl) (fun h' => by cases h') (fun h' => by cases h') hi.books
    | provision => exact hi
    | started => exact hi
    | stopping => exact hi
    | stop => exact hi
    | cleanup => exact hi

theorem Reach.inv {s : State} (h : Reach s) : Inv s := by
  induction h with
  | init => exact Inv.init
  | step st _ hs ih => exact ih.step hs

theorem Reach.clean {s : State} (h : Reach s) : ∀ a, SockClean a (s.socks a) := by
  induction h with
  | init => intro a; exact SockClean.empty a
  | step st hr hs ih =>
    obtain ⟨_, rfl⟩ := step?_some hs
    intro b
    cases st with
    | bind a =>
      simp only [eff]
      by_cases hba : b = a
      · subst hba; rw [setSock_same]; exact (ih b).bind _
      · rw [setSock_ne _ _ hba]; exact ih b
    | close g a =>
      simp only [eff]
      by_cases hba : b = a
      · subst hba; rw [setSock_same]; exact (ih b).close (hr.inv.books b) g
      · rw [setSock_ne _ _ hba]; exact ih b
    | gc a =>
      simp only [eff]
      by_cases hba : b = a
      · subst hba; rw [setSock_same]; exact ⟨(ih b).fileGone, rfl⟩
      · rw [setSock_ne _ _ hba]; exact ih b
    | cb k g => cases k <;> exact ih b
    | _ => exact ih b

/-! ### a run whose every config keeps an address -/

/-- the running config listens on `a`, and so does the one being loaded -/
def KeepInv (a : Addr) (s : State) : Prop :=
  (∃ c, s.cur = some c ∧ a ∈ c.addrs) ∧ (∀ n, s.next = some n → a ∈ n.addrs)

theorem KeepInv.step {a : Addr} {s s' : State} {st : Step} {rest : List Step} (hq : KeepInv a s)
    (h : step? s st = some s') (hk : keeps a (st :: rest) = true) : KeepInv a s' ∧ keeps a rest = true := by
  obtain ⟨he, rfl⟩ := step?_some h
  obtain ⟨⟨c, hc, hac⟩, hn⟩ := hq
  cases st with
  | begin c' =>
    simp only [keeps, Bool.and_eq_true, List.contains_iff_mem] at hk
    refine ⟨⟨⟨c, hc, hac⟩, ?_⟩, hk.2⟩
    intro n h'; simp only [eff] at h'; cases h'; exact hk.1
  | stopAll => simp [keeps] at hk
  | swap =>
    simp only [enabled] at he
    split at he
    · rename_i n hn'
      refine ⟨⟨⟨n, by simp [eff, hn'], hn n hn'⟩, ?_⟩, by simpa [keeps] using hk⟩
      intro m h'; simp [eff] at h'
    · cases he
  | reject => exact ⟨⟨⟨c, hc, hac⟩, fun m h' => by simp [eff] at h'⟩, by simpa [keeps] using hk⟩
  | bindStale b => exact ⟨⟨⟨c, hc, hac⟩, fun m h' => by simp [eff] at h'⟩, by simpa [keeps] using hk⟩
  | bind b => exact ⟨⟨⟨c, hc, hac⟩, hn⟩, by simpa [keeps] using hk⟩
  | close g b => exact ⟨⟨⟨c, hc, hac⟩, hn⟩, by simpa [keeps] using hk⟩
  | ret => exact ⟨⟨⟨c, hc, hac⟩, hn⟩, by simpa [keeps] using hk⟩
  | gc b => exact ⟨⟨⟨c, hc, hac⟩, hn⟩, by simpa [keeps] using hk⟩
  | accept t g b => exact ⟨⟨⟨c, hc, hac⟩, hn⟩, by simpa [keeps] using hk⟩
  | adminReplace g b => exact ⟨⟨⟨c, hc, hac⟩, hn⟩, by simpa [keeps] using hk⟩
  | adminClose g b => exact ⟨⟨⟨c, hc, hac⟩, hn⟩, by simpa [keeps] using hk⟩
  | cancelCtx g => exact ⟨⟨⟨c, hc, hac⟩, hn⟩, by simpa [keeps] using hk⟩
  | complete t g => exact ⟨⟨⟨c, hc, hac⟩, hn⟩, by simpa [keeps] using hk⟩
  | cb k g => cases k <;> exact ⟨⟨⟨c, hc, hac⟩, hn⟩, by simpa [keeps] using hk⟩

theorem KeepInv.run {a : Addr} : ∀ (steps : List Step) {s s' : State}, KeepInv a s →
    run s steps = some s' → keeps a steps = true → KeepInv a s'
  | [], s, s', hq, hr, _ => by simp [C02.run] at hr; exact hr ▸ hq
  | st :: rest, s, s', hq, hr, hk => by
    unfold C02.run at hr
    split at hr
    · rename_i s1 hs1
      obtain ⟨hq1, hk1⟩ := hq.step hs1 hk
      exact KeepInv.run rest hq1 hr hk1
    · cases hr

theorem keeps_append_left (a : Addr) : ∀ (xs ys : List Step), keeps a (xs ++ ys) = true → keeps a xs = true
  | [], _, _ => rfl
  | st :: rest, ys, h => by
    cases st with
    | begin c =>
      simp only [List.cons_append, keeps, Bool.and_eq_true] at h ⊢
      exact ⟨h.1, keeps_append_left a rest ys h.2⟩
    | stopAll => simp [keeps] at h
    | swap | reject | ret => simpa [keeps] using keeps_append_left a rest ys (by simpa [keeps] using h)
    | bindStale b | bind b | gc b => simpa [keeps] using keeps_append_left a rest ys (by simpa [keeps] using h)
    | close g b | complete g b | cb g b => simpa [keeps] using keeps_append_left a rest ys (by simpa [keeps] using h)
    | accept t g b => simpa [keeps] using keeps_append_left a rest ys (by simpa [keeps] using h)
    | adminReplace g b | adminClose g b => simpa [keeps] using keeps_append_left a rest ys (by simpa [keeps] using h)
    | cancelCtx g => simpa [keeps] using keeps_append_left a rest ys (by simpa [keeps] using h)

/-! ### one reload: the only configs alive are the old and the new one -/

/-- no second Load, no caddy.Stop -/
def oneReload : List Step → Bool
  | [] => true
  | .begin _ :: _ => false
  | .stopAll :: _ => false
  | _ :: rest => oneReload rest

theorem alive_step {s s' : State} {st : Step} {P : Gen → Prop} (hP : ∀ g, alive s g → P g)
    (h : step? s st = some s') (ho : oneReload (st :: rest) = true) :
    (∀ g, alive s' g → P g) ∧ oneReload rest = true := by
  obtain ⟨he, rfl⟩ := step?_some h
  cases st with
  | begin c => simp [oneReload] at ho
  | stopAll => simp [oneReload] at ho
  | swap =>
    refine ⟨?_, by simpa [oneReload] using ho⟩
    intro g hg
    simp only [alive, eff, genOf, Option.map_none] at hg
    rcases hg with hg | hg | hg
    · exact hP g (Or.inr (Or.inl hg))
    · cases hg
    · exact hP g (Or.inl hg)
  | reject =>
    refine ⟨?_, by simpa [oneReload] using ho⟩
    intro g hg
    simp only [alive, eff, genOf, Option.map_none] at hg
    rcases hg with hg | hg | hg
    · exact hP g (Or.inl hg)
    · cases hg
    · exact hP g (Or.inr (Or.inl hg))
  | bindStale b =>
    refine ⟨?_, by simpa [oneReload] using ho⟩
    intro g hg
    simp only [alive, eff, genOf, Option.map_none] at hg
    rcases hg with hg | hg | hg
    · exact hP g (Or.inl hg)
    · cases hg
    · cases hg
  | bind b => exact ⟨fun g hg => hP g hg, by simpa [oneReload] using ho⟩
  | close g b => exact ⟨fun g hg => hP g hg, by simpa [oneReload] using ho⟩
  | ret => exact ⟨fun g hg => hP g hg, by simpa [oneReload] using ho⟩
  | gc b => exact ⟨fun g hg => hP g hg, by simpa [oneReload] using ho⟩
  | accept t g b => exact ⟨fun g hg => hP g hg, by simpa [oneReload] using ho⟩
  | adminReplace g b => exact ⟨fun g hg => hP g hg, by simpa [oneReload] using ho⟩
  | adminClose g b => exact ⟨fun g hg => hP g hg, by simpa [oneReload] using ho⟩
  | cancelCtx g => exact ⟨fun g hg => hP g hg, by simpa [oneReload] using ho⟩
  | complete t g => exact ⟨fun g hg => hP g hg, by simpa [oneReload] using ho⟩
  | cb k g => cases k <;> exact ⟨fun g hg => hP g hg, by simpa [oneReload] using ho⟩

theorem alive_run {P : Gen → Prop} : ∀ (steps : List Step) {s s' : State}, (∀ g, alive s g → P g) →
    run s steps = some s' → oneReload steps = true → ∀ g, alive s' g → P g
  | [], s, s', hP, hr, _ => by simp [C02.run] at hr; exact hr ▸ hP
  | st :: rest, s, s', hP, hr, ho => by
    unfold C02.run at hr
    split at hr
    · rename_i s1 hs1
      obtain ⟨hP1, ho1⟩ := alive_step hP hs1 ho
      exact alive_run rest hP1 hr ho1
    · cases hr

/-! ### in-flight requests -/

theorem inflight_frame {s : State} {st : Step} (h1 : ∀ t g a, st ≠ .accept t g a) (h2 : ∀ t g, st ≠ .complete t g) :
    (eff s st).inflight = s.inflight ∧ (eff s st).done = s.done := by
  cases st with
  | accept t g a => exact absurd rfl (h1 t g a)
  | complete t g => exact absurd rfl (h2 t g)
  | cb k g => cases k <;> exact ⟨rfl, rfl⟩
  | _ => exact ⟨rfl, rfl⟩

theorem acceptedOf_frame {st : Step} (h1 : ∀ t g a, st ≠ .accept t g a) (rest : List Step) :
    acceptedOf (st :: rest) = acceptedOf rest := by
  cases st with
  | accept t g a => exact absurd rfl (h1 t g a)
  | _ => rfl

/-- conservation: nothing is completed that was not accepted (by that very config), and nothing
    accepted disappears — whatever lifecycle steps happen in between -/
theorem inflight_run : ∀ (steps : List Step) {s s' : State}, run s steps = some s' →
    (∀ p, p ∈ s'.done → p ∈ s.done ∨ p ∈ s.inflight ∨ p ∈ acceptedOf steps) ∧
    (∀ p, p ∈ s'.inflight → p ∈ s.inflight ∨ p ∈ acceptedOf steps) ∧
    (∀ p, (p ∈ s.done ∨ p ∈ s.inflight ∨ p ∈ acceptedOf steps) → p ∈ s'.done ∨ p ∈ s'.inflight)
  | [], s, s', hr => by
    simp [C02.run] at hr; subst hr
    refine ⟨fun p h => Or.inl h, fun p h => Or.inl h, ?_⟩
    intro p h; rcases h with h | h | h
    · exact Or.inl h
    · exact Or.inr h
    · simp [acceptedOf] at h
  | st :: rest, s, s', hr => by
    unfold C02.run at hr
    split at hr
    · rename_i s1 hs1
      obtain ⟨he, rfl⟩ := step?_some hs1
      obtain ⟨ih1, ih2, ih3⟩ := inflight_run rest hr
      by_cases hacc : ∃ t g a, st = .accept t g a
      · obtain ⟨t, g, a, rfl⟩ := hacc
        simp only [eff, acceptedOf, List.mem_cons] at ih1 ih2 ih3 ⊢
        refine ⟨?_, ?_, ?_⟩
        · intro p hp; rcases ih1 p hp with h | h | h
          · exact Or.inl h
          · rcases h with h | h
            · exact Or.inr (Or.inr (Or.inl h))
            · exact Or.inr (Or.inl h)
          · exact Or.inr (Or.inr (Or.inr h))
        · intro p hp; rcases ih2 p hp with h | h
          · rcases h with h | h
            · exact Or.inr (Or.inl h)
            · exact Or.inl h
          · exact Or.inr (Or.inr h)
        · intro p hp; apply ih3; rcases hp with h | h | h
          · exact Or.inl h
          · exact Or.inr (Or.inl (Or.inr h))
          · rcases h with h | h
            · exact Or.inr (Or.inl (Or.inl h))
            · exact Or.inr (Or.inr h)
      · by_cases hcom : ∃ t g, st = .complete t g
        · obtain ⟨t, g, rfl⟩ := hcom
          have hin : (t, g) ∈ s.inflight := by simpa [enabled] using he
          simp only [eff, acceptedOf, List.mem_cons] at ih1 ih2 ih3 ⊢
          refine ⟨?_, ?_, ?_⟩
          · intro p hp; rcases ih1 p hp with h | h | h
            · rcases h with h | h
              · exact Or.inr (Or.inl (h ▸ hin))
              · exact Or.inl h
            · exact Or.inr (Or.inl (List.mem_of_mem_erase h))
            · exact Or.inr (Or.inr h)
          · intro p hp; rcases ih2 p hp with h | h
            · exact Or.inl (List.mem_of_mem_erase h)
            · exact Or.inr h
          · intro p hp; apply ih3; rcases hp with h | h | h
            · exact Or.inl (Or.inr h)
            · by_cases hpe : p = (t, g)
              · exact Or.inl (Or.inl hpe)
              · exact Or.inr (Or.inl ((List.mem_erase_of_ne hpe).mpr h))
            · exact Or.inr (Or.inr h)
        · have h1 : ∀ t g a, st ≠ .accept t g a := fun t g a e => hacc ⟨t, g, a, e⟩
          have h2 : ∀ t g, st ≠ .complete t g := fun t g e => hcom ⟨t, g, e⟩
          obtain ⟨e1, e2⟩ := inflight_frame (s := s) h1 h2
          rw [acceptedOf_frame h1, ← e1, ← e2]
          exact ⟨ih1, ih2, ih3⟩
    · cases hr

/-! ### no config is ever left half-started -/

theorem gen_ne_of_mem_erase {h0 x : Handle} : ∀ {l : List Handle}, (l.map Handle.gen).Nodup → h0 ∈ l →
    x ∈ l.erase h0 → x.gen ≠ h0.gen
  | [], _, hm, _ => by cases hm
  | y :: t, hnd, hm, hx => by
    rw [List.map_cons, List.nodup_cons] at hnd
    by_cases hy : y = h0
    · subst hy
      rw [List.erase_cons_head] at hx
      intro e
      exact hnd.1 (e ▸ List.mem_map_of_mem hx)
    · have hm' : h0 ∈ t := by
        rcases List.mem_cons.mp hm with e | e
        · exact absurd e.symm hy
        · exact e
      rw [List.erase_cons_tail (by simpa using hy)] at hx
      rcases List.mem_cons.mp hx with e | e
      · subst e
        intro e'
        exact hnd.1 (e' ▸ List.mem_map_of_mem hm')
      · exact gen_ne_of_mem_erase hnd.2 hm' e

/-- `bindStale` is never enabled, so `zombies` stays empty -/
theorem Reach.noZombies {s : State} (h : Reach s) : s.zombies = [] := by
  induction h with
  | init => rfl
  | step st _ hs ih =>
    obtain ⟨he, rfl⟩ := step?_some hs
    cases st with
    | bindStale a => simp [enabled] at he
    | cb k g => cases k <;> exact ih
    | _ => exact ih

end CaddyModel.C02
