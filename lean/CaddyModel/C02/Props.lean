/-
C02 — property theorems (kept apart from the helper lemmas).

Statement: while one configuration is replaced by another that keeps a listener address (TCP or unix
socket), that address never stops being served: at every step of the reload a new connection to it is
accepted and answered by either the old or the new configuration, and requests already in flight when
the reload began are completed by the configuration that accepted them.  After the reload has returned
and the old configuration has drained, only the new configuration answers, and an address that the new
configuration dropped is closed.

All theorems quantify over `Reach` — every state of every run of the transition system of
`Model.lean`: every sequence of loads (accepted or rejected, identical, modified, listener-set-changing),
every number and position of lifecycle callbacks around the binds and closes (= every app order), every
interleaving of the asynchronous listener closes with the remaining callbacks and with client steps.
Since a prefix of a run is a run (`run_prefix`), "for every reachable state" is "at every lifecycle step".

Two clauses used to fail (a dropped unix socket was not closed; a config rejected after start could keep
answering): the code was repaired, the theorems hold at full strength, and `Witness.lean` shows on the
machine with the old effects that they are not vacuous (`…_old_code_fails`).
-/
import CaddyModel.C02.Lemmas
import CaddyModel.C02.Reload
import CaddyModel.C02.Admin
import CaddyModel.C02.Key
import CaddyModel.C02.Listen
import CaddyModel.C02.Quic
import CaddyModel.Gen.Glue
import CaddyModel.C02.Witness

namespace CaddyModel.C02

/-! ### never unbound -/

/-- **The running config holds every one of its addresses — in every reachable state.**  New listeners
    are bound before the swap, only configs that are no longer current are ever closed. -/
theorem current_config_holds_its_addresses {s : State} (h : Reach s) {c : Cfg} (hc : s.cur = some c)
    {a : Addr} (ha : a ∈ c.addrs) : s.holds a c.gen = true ∧ 1 ≤ s.holders a := by
  have hh := h.inv.curHolds c hc a ha
  refine ⟨hh, ?_⟩
  obtain ⟨x, hx, _⟩ := (Sock.holds_iff _ _).mp hh
  exact List.length_pos_of_mem hx

/-- **retained_never_unbound.**  Start anywhere reachable with a running config that listens on `a`;
    run any steps — any number of reloads, accepted or rejected, in any schedule — in which every config
    loaded keeps `a`.  Then at the end (hence, by `retained_never_unbound_every_prefix`, after every
    prefix) at least one listener is open on `a`: holders ≥ 1. -/
theorem retained_never_unbound {s0 s : State} (h0 : Reach s0) {a : Addr} (hq : KeepInv a s0)
    (steps : List Step) (hk : keeps a steps = true) (hr : run s0 steps = some s) : 1 ≤ s.holders a := by
  obtain ⟨⟨c, hc, hac⟩, _⟩ := KeepInv.run steps hq hr hk
  exact (current_config_holds_its_addresses (h0.run steps s hr) hc hac).2

/-- the same at every lifecycle step inside the run -/
theorem retained_never_unbound_every_prefix {s0 s : State} (h0 : Reach s0) {a : Addr} (hq : KeepInv a s0)
    (steps pre suf : List Step) (hs : steps = pre ++ suf) (hk : keeps a steps = true)
    (s1 : State) (h1 : run s0 pre = some s1) (_ : run s1 suf = some s) : 1 ≤ s1.holders a :=
  retained_never_unbound h0 hq pre (keeps_append_left a pre suf (hs ▸ hk)) h1

/-- … and in the counters the code keeps: `listenerPool` for tcp, the `unixSockets` counter for unix
    sockets, never reach zero for an address of the running config; the socket file exists. -/
theorem retained_usage_count_positive {s : State} (h : Reach s) {c : Cfg} (hc : s.cur = some c)
    {a : Addr} (ha : a ∈ c.addrs) :
    (a.unix = false → 1 ≤ (s.socks a).pool) ∧ (a.unix = true → 1 ≤ (s.socks a).ucnt ∧ (s.socks a).file = true) := by
  have hpos := (current_config_holds_its_addresses h hc ha).2
  have hb := h.inv.books a
  unfold State.holders at hpos
  refine ⟨fun hu => by rw [hb.tcpPool hu]; exact hpos, fun hu => ⟨by rw [hb.ucnt hu]; exact hpos, ?_⟩⟩
  exact hb.fileHeld hu (fun e => by rw [e] at hpos; simp at hpos)

/-- the counters say how many listeners are open -/
theorem pool_counts_holders {s : State} (h : Reach s) (a : Addr) :
    (a.unix = false → (s.socks a).pool = s.holders a) ∧ (a.unix = true → (s.socks a).ucnt = s.holders a) :=
  ⟨(h.inv.books a).tcpPool, (h.inv.books a).ucnt⟩

/-! ### who answers -/

/-- **served_by_old_or_new.**  Whoever answers a connection is the running config, the one being started
    or the one being stopped — in every reachable state. (Before the repair of `reuseUnixSocket` a config
    rejected after start could be left half-started and answer for ever:
    `Witness.served_by_old_or_new_old_code_fails`.) -/
theorem served_by_old_or_new {s : State} (h : Reach s) {a : Addr} {g : Gen}
    (hg : g ∈ servers s a) : alive s g := by
  have hz := h.noZombies
  obtain ⟨x, hx, rfl⟩ := List.mem_map.mp hg
  rcases h.inv.owner a x hx with ho | ho | ho | ho
  · exact Or.inl ho
  · exact Or.inr (Or.inl ho)
  · exact Or.inr (Or.inr ho)
  · rw [hz] at ho; cases ho

/-- **… and during one reload these are the old and the new config.**  From a state where `old` runs
    and nothing is being loaded or stopped, `begin new` followed by any steps of that one load. -/
theorem one_reload_alive_old_or_new {s0 s : State} {old new : Cfg} (hc : s0.cur = some old)
    (steps : List Step) (ho : oneReload steps = true) (hr : run s0 (.begin new :: steps) = some s)
    {g : Gen} (hg : alive s g) : g = old.gen ∨ g = new.gen := by
  unfold run at hr
  split at hr
  · rename_i s1 hs1
    obtain ⟨_, rfl⟩ := step?_some hs1
    refine alive_run (P := fun g => g = old.gen ∨ g = new.gen) steps ?_ hr ho g hg
    intro g' hg'
    simp only [alive, eff, genOf, hc, Option.map_some, Option.map_none, Option.some.injEq] at hg'
    rcases hg' with e | e | e
    · exact Or.inl e.symm
    · exact Or.inr e.symm
    · cases e
  · cases hr

/-- **served_by_old_or_new**, client's view: a connection to an address the running config listens on
    is always answered (never refused, never missing, never hanging), and by a config that is alive. -/
theorem connect_current_address_answered {s : State} (h : Reach s) {c : Cfg}
    (hc : s.cur = some c) {a : Addr} (ha : a ∈ c.addrs) :
    connect s a ≠ [] ∧ ∀ o, o ∈ connect s a → ∃ g, o = .answered g ∧ alive s g := by
  have hz := h.noZombies
  have hpos := (current_config_holds_its_addresses h hc ha).2
  have hne : (s.socks a).hs ≠ [] := fun e => by unfold State.holders at hpos; rw [e] at hpos; simp at hpos
  unfold connect
  rw [if_pos hne]
  refine ⟨?_, ?_⟩
  · intro e
    have : (s.socks a).gens = [] := by simpa using e
    exact hne (by simpa [Sock.gens] using this)
  · intro o ho
    obtain ⟨g, hg, rfl⟩ := List.mem_map.mp ho
    exact ⟨g, rfl, served_by_old_or_new h hg⟩

/-! ### after the drain -/

/-- **after_drain_only_new.**  Once the load has returned and the replaced config has
    drained, the running config is the only one that answers on its addresses. -/
theorem after_drain_only_new {s : State} (h : Reach s) (hs : settled s)
    {c : Cfg} (hc : s.cur = some c) {a : Addr} (ha : a ∈ c.addrs) : servers s a = [c.gen] := by
  have hz := h.noZombies
  have hi := h.inv
  have hn := hi.idleNext hs.1
  have hall : ∀ g, g ∈ servers s a → g = c.gen := by
    intro g hg
    obtain ⟨x, hx, rfl⟩ := List.mem_map.mp hg
    rcases hi.owns_after_drop hs.2 hn hx with ho | ho
    · simpa [genOf, hc] using ho.symm
    · rw [hz] at ho; cases ho
  have hnd : (servers s a).Nodup := hi.nodup a
  have hmem : c.gen ∈ servers s a := by
    obtain ⟨x, hx, he⟩ := (Sock.holds_iff _ _).mp (hi.curHolds c hc a ha)
    exact List.mem_map.mpr ⟨x, hx, he⟩
  cases hl : servers s a with
  | nil => rw [hl] at hmem; cases hmem
  | cons g rest =>
    rw [hl] at hall hnd
    have hg : g = c.gen := hall g (by simp)
    cases rest with
    | nil => rw [hg]
    | cons g2 r2 =>
      have h2 : g2 = c.gen := hall g2 (by simp)
      simp [hg, h2] at hnd

/-- **dropped: nobody answers.**  After the drain no listener is left on an address the running config
    does not listen on (in particular one the new config dropped). -/
theorem dropped_address_has_no_listener {s : State} (h : Reach s) (hs : settled s)
    {a : Addr} (ha : ∀ c, s.cur = some c → a ∉ c.addrs) : servers s a = [] ∧ s.holders a = 0 := by
  have hz := h.noZombies
  have hi := h.inv
  have hn := hi.idleNext hs.1
  have hnil : (s.socks a).hs = [] := by
    cases hl : (s.socks a).hs with
    | nil => rfl
    | cons x rest =>
      exfalso
      have hx : x ∈ (s.socks a).hs := by rw [hl]; simp
      rcases hi.owns_after_drop hs.2 hn hx with ho | ho
      · cases hc : s.cur with
        | none => simp [genOf, hc] at ho
        | some c =>
          simp [genOf, hc] at ho
          exact ha c hc (hi.membCur c a hc (ho ▸ mem_hs_holds hx))
      · rw [hz] at ho; cases ho
  simp [servers, Sock.gens, State.holders, hnil]

/-- **dropped_address_closed.**  A dropped address is closed as soon as the replaced config has drained:
    a tcp address and an abstract unix socket refuse connections, a unix socket's file is gone. (Before the repair of
    `unixListener.Close` the unix half failed: `Witness.dropped_address_closed_old_code_fails`.) -/
theorem dropped_address_closed {s : State} (h : Reach s) (hs : settled s)
    {a : Addr} (ha : ∀ c, s.cur = some c → a ∉ c.addrs) : closed s a := by
  have hz := h.noZombies
  have hnil : (s.socks a).hs = [] := by
    have := (dropped_address_has_no_listener h hs ha).2
    exact List.eq_nil_of_length_eq_zero this
  unfold closed connect
  rw [if_neg (by simp [hnil])]
  cases hu : a.unix
  · left; simp
  · cases hab : a.abstract
    · right; simp [(h.clean a).fileGone hu hnil, hab]
    · left; simp [(h.clean a).fileGone hu hnil, hab]

/-- **… for every address kind, abstract unix sockets included**: a dropped abstract socket (no file to
    tell by) refuses connections — its last close closes the descriptor caddy kept and forgets the socket,
    so the kernel name is unbound; it does not go on accepting connections nobody serves.
    (`Witness.dropped_abstract_socket_kept_open_fails`: with an early return for abstract names it does.) -/
theorem dropped_abstract_socket_is_refused {s : State} (h : Reach s) (hs : settled s)
    {a : Addr} (hab : a.abstract = true) (ha : ∀ c, s.cur = some c → a ∉ c.addrs) :
    connect s a = [.refused] ∧ (s.socks a).umap = none ∧ (s.socks a).ucnt = 0 := by
  have hnil : (s.socks a).hs = [] :=
    List.eq_nil_of_length_eq_zero (dropped_address_has_no_listener h hs ha).2
  have hu : a.unix = true := by
    unfold Addr.abstract at hab; simp only [Bool.and_eq_true] at hab; exact hab.1
  refine ⟨?_, ((h.inv.books a).umapNone hu).mpr hnil, by rw [(h.inv.books a).ucnt hu, hnil]; rfl⟩
  unfold connect
  rw [if_neg (by simp [hnil])]
  simp [hu, (h.clean a).fileGone hu hnil, hab]

/-- a connection never hangs on a socket nobody serves: no descriptor is leaked -/
theorem connect_never_hangs {s : State} (h : Reach s) (a : Addr) : Conn.hangs ∉ connect s a := by
  unfold connect
  split
  · simp
  · split
    · simp
    · split
      · split <;> simp
      · simp [(h.clean a).noLeak]

/-- the whole clause as a spec of one reload, for the drained state it ends in -/
theorem reload_state_meets_spec {s : State} (h : Reach s) (hs : settled s)
    {new : Cfg} (hc : s.cur = some new) : reloadSpec new s := by
  have hz := h.noZombies
  refine ⟨fun a ha => after_drain_only_new h hs hc ha, fun a ha => ?_⟩
  apply dropped_address_closed h hs
  intro c hc'; rw [hc] at hc'; cases hc'; exact ha

/-! ### the unix socket file -/

/-- **unix_unlink_only_at_zero.**  The unlink before a fresh bind is enabled only when no listener is
    open on that socket … -/
theorem unix_unlink_only_at_zero {s : State} (h : Reach s) {st : Step} {a : Addr}
    (hu : unlinks s st a) : s.holders a = 0 := by
  obtain ⟨_, hux, hm⟩ := hu
  have := ((h.inv.books a).umapNone hux).mp hm
  simp [State.holders, this]

/-- … and in every reachable state the socket file exists exactly as long as a listener is open on the
    socket: no close but the last one removes it, and the last one does. -/
theorem unix_socket_file_iff_held {s : State} (h : Reach s) {a : Addr} (hu : a.unix = true) :
    (s.socks a).file = true ↔ 1 ≤ s.holders a := by
  constructor
  · intro hf
    cases hl : (s.socks a).hs with
    | nil => rw [(h.clean a).fileGone hu hl] at hf; cases hf
    | cons x r => simp [State.holders, hl]
  · intro hh
    exact (h.inv.books a).fileHeld hu (fun e => by unfold State.holders at hh; rw [e] at hh; simp at hh)

/-- as long as a listener is open on a unix socket its file exists -/
theorem held_unix_socket_has_file {s : State} (h : Reach s) {a : Addr} (hu : a.unix = true)
    (hh : 1 ≤ s.holders a) : (s.socks a).file = true :=
  (unix_socket_file_iff_held h hu).mpr hh

/-! ### in-flight requests -/

/-- **inflight_completed_by_acceptor.**  In every run from the initial state: a completed request was
    accepted, and it was completed by the very config that accepted it; and no accepted request is ever
    lost — it is completed or still in flight — whatever reloads, stops and cleanups happen meanwhile. -/
theorem inflight_completed_by_acceptor (steps : List Step) {s : State} (hr : run init steps = some s) :
    (∀ t g, (t, g) ∈ s.done → (t, g) ∈ acceptedOf steps) ∧
    (∀ t g, (t, g) ∈ acceptedOf steps → (t, g) ∈ s.done ∨ (t, g) ∈ s.inflight) := by
  obtain ⟨h1, _, h3⟩ := inflight_run steps hr
  refine ⟨fun t g hd => ?_, fun t g ha => h3 (t, g) (Or.inr (Or.inr ha))⟩
  rcases h1 (t, g) hd with h | h | h
  · simp [init] at h
  · simp [init] at h
  · exact h

/-- no step makes an in-flight request lose its context -/
theorem Reach.ctxKept {s : State} (h : Reach s) : s.ctxLost = [] := by
  induction h with
  | init => rfl
  | step st _ hs ih =>
    obtain ⟨_, rfl⟩ := step?_some hs
    cases st with
    | cancelCtx g => simpa [eff, lostByCancel] using ih
    | cb k g => cases k <;> exact ih
    | _ => exact ih

/-- **In-flight requests keep their context across the reload.**  In every run from the initial state —
    every history of reloads, with the context of each replaced config cancelled right after its apps
    were stopped (`cancelCtx`, while requests may still be in flight) — every accepted request is
    completed by the config that accepted it or is still in flight, and none of them has had its own
    context cancelled under it: a request's context descends from the server's base context, not from
    the config's. (`Witness.request_context_from_config_context_fails`: with the other parent it does.) -/
theorem inflight_completed_by_acceptor_with_live_context (steps : List Step) {s : State}
    (hr : run init steps = some s) :
    (∀ t g, (t, g) ∈ s.done → (t, g) ∈ acceptedOf steps) ∧
    (∀ t g, (t, g) ∈ acceptedOf steps → (t, g) ∈ s.done ∨ (t, g) ∈ s.inflight) ∧
    s.ctxLost = [] :=
  ⟨(inflight_completed_by_acceptor steps hr).1, (inflight_completed_by_acceptor steps hr).2,
   (Reach.init.run steps s hr).ctxKept⟩

/-- what the model's "a request's context descends from the server's base context" rests on: no
    http.Server of the HTTP app has a `BaseContext` (so the base is `context.Background()`), and every
    `ConnContext` only wraps the context it is given (a value added in `(*App).start`, the registered
    conn-context functions chained in `configureServer`) — none returns a context of its own, such as
    the server's / config's `ctx`. In the notation of the regenerated fact `Gen.httpServerContextFields`. -/
def requestContextParents : List String :=
  ["app.go ConnContext: func returning context.WithValue(ctx,ConnCtxKey,c)",
   "server.go server.ConnContext = func returning f(baseConnContextFunc(ctx,c),c)",
   "server.go server.ConnContext = f"]

/-- **request_context_parents_match_source**: regenerated from /repo on every run; a `BaseContext`, or a
    `ConnContext` returning something else, breaks this obligation (second line of defence behind the
    in-flight probes, which produce the failing input). -/
theorem request_context_parents_match_source : Gen.httpServerContextFields = requestContextParents := by decide

/-- a request can only be accepted by a config that has a listener open on the address -/
theorem accepted_by_a_holder {s : State} {t : Nat} {g : Gen} {a : Addr}
    (he : enabled s (.accept t g a) = true) : g ∈ servers s a := by
  obtain ⟨x, hx, hg⟩ := (Sock.holds_iff _ _).mp (by simpa [enabled, State.holds] using he)
  exact List.mem_map.mpr ⟨x, hx, hg⟩

/-! ### the code's own reload, and sequences of them -/

/-- **`reload old new π` is a run of the machine, for every config pair and every schedule**, and it
    ends settled with the new config running: the theorems above therefore speak about every prefix
    of the step list the code executes. -/
theorem reload_is_a_run {s0 : State} (h0 : Reach s0) (hs : settled s0)
    (new : Cfg) (hf : s0.fresh ≤ new.gen) (hnd : new.addrs.Nodup) (π : Sched) :
    ∃ s, run s0 (reloadSteps new s0.cur π) = some s ∧ Reach s ∧ settled s ∧ s.cur = some new := by
  obtain ⟨s, h1, hr1, hp1, hd1, hc1, _⟩ := reloadSteps_run h0 hs.1 hs.2 new hf hnd π
  exact ⟨s, h1, hr1, ⟨hp1, hd1⟩, hc1⟩

/-- **retained_never_unbound, in the form of the design: ∀ prefix of (reload old new π), holders a ≥ 1**
    for every address both configs listen on — for all configs, all schedules π. -/
theorem reload_never_unbinds_retained {s0 : State} (h0 : Reach s0) (hs : settled s0) {old : Cfg}
    (hc : s0.cur = some old) (new : Cfg) (π : Sched) {a : Addr} (hao : a ∈ old.addrs) (han : a ∈ new.addrs)
    (pre suf : List Step) (hsplit : reloadSteps new (some old) π = pre ++ suf)
    (s1 : State) (h1 : run s0 pre = some s1) : 1 ≤ s1.holders a := by
  have hq : KeepInv a s0 := ⟨⟨old, hc, hao⟩, fun n hn => by rw [h0.inv.idleNext hs.1] at hn; cases hn⟩
  have hk : keeps a pre = true := keeps_append_left a pre suf (hsplit ▸ keeps_reloadSteps han (some old) π)
  exact retained_never_unbound h0 hq pre hk h1

/-- **the reload meets its spec**: after `reload old new π` (any π) exactly the new config answers on
    its addresses and every other address is closed. -/
theorem reload_meets_spec {s0 : State} (h0 : Reach s0) (hs : settled s0)
    (new : Cfg) (hf : s0.fresh ≤ new.gen) (hnd : new.addrs.Nodup) (π : Sched) :
    ∃ s, run s0 (reloadSteps new s0.cur π) = some s ∧ reloadSpec new s := by
  obtain ⟨s, h1, hr1, hs1, hc1⟩ := reload_is_a_run h0 hs new hf hnd π
  exact ⟨s, h1, reload_state_meets_spec hr1 hs1 hc1⟩

/-- **every sequence of reloads** (any configs with increasing generations and duplicate-free address
    lists, any schedule for each reload) is a run from the initial state and ends settled. -/
theorem reload_sequence_is_a_run (cfgs : List (Cfg × Sched)) (hok : okSeq 0 cfgs) :
    ∃ s, run init (reloadSeq none cfgs) = some s ∧ Reach s ∧ settled s := by
  obtain ⟨s, h1, hr, hp, hd⟩ := reloadSeq_run cfgs (s0 := init) Reach.init rfl rfl hok
  exact ⟨s, h1, hr, ⟨hp, hd⟩⟩

/-! ### example configs -/

def exT0 : Addr := ⟨false, 0⟩
def exU0 : Addr := ⟨true, 0⟩
def exOld : Cfg := ⟨0, [exT0, exU0]⟩
def exNew : Cfg := ⟨1, [exU0, exT0]⟩
def exSched : Sched := ⟨3, 1, 1, 1, 1, 4⟩

/-! ### the admin endpoint: a second client of the same bookkeeping -/

/-- **The running admin server has its listener open — in every reachable state**: the new admin listener
    is bound before the server it replaces is shut down; rejected loads and caddy.Stop do not touch it. -/
theorem admin_listener_never_unbound {s : State} (h : Reach s) {g : Gen} {a : Addr}
    (ha : s.adm = some (g, a)) : (s.asocks a).holds g = true ∧ 1 ≤ (s.asocks a).hs.length := by
  have hh := h.ainv.holds g a ha
  obtain ⟨x, hx, _⟩ := (Sock.holds_iff _ _).mp hh
  exact ⟨hh, List.length_pos_of_mem hx⟩

/-- **A retained admin address is never unbound**: over any run (any number of loads, accepted or
    rejected, caddy.Stop included) in which every admin server that is started listens on `a`, a
    listener is open on `a` in the end — hence after every prefix. -/
theorem admin_retained_never_unbound {s0 s : State} (h0 : Reach s0) {a : Addr} (hq : ∃ g, s0.adm = some (g, a))
    (steps : List Step) (hk : keepsAdmin a steps = true) (hr : run s0 steps = some s) :
    1 ≤ (s.asocks a).hs.length := by
  obtain ⟨g, hg⟩ := keepsAdmin_run steps hq hr hk
  exact (admin_listener_never_unbound (h0.run steps s hr) hg).2

/-- whoever answers on an admin address is the running admin server or one that was replaced and whose
    listener is not closed yet -/
theorem admin_served_by_current_or_replaced {s : State} (h : Reach s) {a : Addr} {g : Gen}
    (hg : g ∈ (s.asocks a).gens) : s.adm = some (g, a) ∨ (g, a) ∈ s.admRetired := by
  obtain ⟨x, hx, rfl⟩ := List.mem_map.mp hg
  exact h.ainv.owner a x hx

/-- once the replaced admin servers have shut down, only the running one answers, on its address only -/
theorem admin_after_drain {s : State} (h : Reach s) (hd : s.admRetired = []) :
    (∀ g a, s.adm = some (g, a) → (s.asocks a).gens = [g]) ∧
    (∀ b, (∀ g, s.adm ≠ some (g, b)) → (s.asocks b).hs = []) := by
  have hi := h.ainv
  have hall : ∀ b x, x ∈ (s.asocks b).hs → s.adm = some (x.gen, b) := by
    intro b x hx
    rcases hi.owner b x hx with ho | ho
    · exact ho
    · rw [hd] at ho; cases ho
  refine ⟨fun g a ha => ?_, fun b hb => ?_⟩
  · obtain ⟨x, hx, hxg⟩ := (Sock.holds_iff _ _).mp (hi.holds g a ha)
    have hnd : (s.asocks a).gens.Nodup := hi.nodup a
    have hgen : ∀ y, y ∈ (s.asocks a).gens → y = g := by
      intro y hy
      obtain ⟨z, hz, rfl⟩ := List.mem_map.mp hy
      have := hall a z hz
      rw [ha] at this
      simpa using (Prod.mk.inj (Option.some.inj this)).1.symm
    have hmem : g ∈ (s.asocks a).gens := List.mem_map.mpr ⟨x, hx, hxg⟩
    cases hl : (s.asocks a).gens with
    | nil => rw [hl] at hmem; cases hmem
    | cons y rest =>
      rw [hl] at hgen hnd
      have hy := hgen y (by simp)
      cases rest with
      | nil => rw [hy]
      | cons y2 r2 =>
        have h2 := hgen y2 (by simp)
        simp [hy, h2] at hnd
  · cases hl : (s.asocks b).hs with
    | nil => rfl
    | cons x rest => exact absurd (hall b x (by rw [hl]; simp)) (hb x.gen)

/-- (as the code is) a rejected load and caddy.Stop leave the admin endpoint that the load started in place -/
theorem admin_not_rolled_back (s : State) :
    (eff s .reject).adm = s.adm ∧ (eff s .stopAll).adm = s.adm ∧
    (eff s .reject).asocks = s.asocks ∧ (eff s .stopAll).asocks = s.asocks := ⟨rfl, rfl, rfl, rfl⟩

def exM0 : Addr := ⟨false, 10⟩

/-- a load of config 1 on top of config 0, both with the admin endpoint on m0, the old admin server's
    listener closed late -/
def exAdminReload : List Step :=
  [.begin ⟨0, [exT0]⟩, .adminReplace 0 (some exM0), .bind exT0, .swap, .ret,
   .begin ⟨1, [exT0]⟩, .adminReplace 1 (some exM0), .cb .provision 1, .bind exT0, .cb .started 1, .swap, .close 0 exT0, .ret,
   .adminClose 0 exM0]

/-- **admin_reorder_breaks_it**: shutting the old admin server down before the new listener is bound
    leaves the admin address without a listener; the machine refuses that order (the old server is
    not retired before the new one is started). -/
theorem admin_reorder_breaks_it :
    ((run init (exAdminReload.take 6)).map fun s =>
        ((runUnguarded s [.adminClose 0 exM0]).asocks exM0).hs.length) = some 0 ∧
    ((run init (exAdminReload.take 6)).bind fun s => run s [.adminClose 0 exM0, .adminReplace 1 (some exM0)]) = none ∧
    ((run init exAdminReload).map fun s => ((s.asocks exM0).gens, (s.asocks exM0).pool, s.admRetired)) = some ([1], 1, []) := by
  decide

/-! ### the usage count the HTTP app's Stop reads (shutdown_delay decision) -/

/-- **At the moment the replaced config is stopped, a tcp address the new config keeps has a usage count
    of at least 2** (the old listener is still open, the new one was bound before the swap): the test
    `ListenerUsage < 2` of `(*App).Stop` does not fire for it — shutdown_delay is not enforced because
    of a listener that stays. -/
theorem retained_tcp_usage_at_least_two_at_stop {s : State} (h : Reach s) {o c : Cfg}
    (hr : s.retiring = some o) (hc : s.cur = some c) {a : Addr} (hu : a.unix = false)
    (hao : s.holds a o.gen = true) (hac : a ∈ c.addrs) : 2 ≤ (s.socks a).pool := by
  have hi := h.inv
  rw [(hi.books a).tcpPool hu]
  obtain ⟨x, hx, hxg⟩ := (Sock.holds_iff _ _).mp hao
  obtain ⟨y, hy, hyg⟩ := (Sock.holds_iff _ _).mp (hi.curHolds c hc a hac)
  have hne : x ≠ y := fun e => hi.curNeRet c o hc hr (by rw [← hyg, ← hxg, e])
  cases hl : (s.socks a).hs with
  | nil => rw [hl] at hx; cases hx
  | cons z t =>
    cases t with
    | nil =>
      rw [hl] at hx hy
      simp at hx hy
      exact absurd (hx.trans hy.symm) hne
    | cons z2 t2 => simp

/-- … and a tcp address the new config drops has a usage count of exactly 1: the test fires exactly for
    the listeners that are about to close. -/
theorem closing_tcp_usage_is_one_at_stop {s : State} (h : Reach s) {o : Cfg}
    (hr : s.retiring = some o) (hn : s.next = none) {a : Addr} (hu : a.unix = false)
    (hao : s.holds a o.gen = true) (hna : ∀ c, s.cur = some c → a ∉ c.addrs) : (s.socks a).pool = 1 := by
  have hi := h.inv
  rw [(hi.books a).tcpPool hu]
  have hall : ∀ x, x ∈ (s.socks a).hs → x.gen = o.gen := by
    intro x hx
    rcases hi.owner a x hx with ho | ho | ho | ho
    · cases hc : s.cur with
      | none => simp [genOf, hc] at ho
      | some c =>
        simp [genOf, hc] at ho
        exact absurd (hi.membCur c a hc (ho ▸ mem_hs_holds hx)) (hna c hc)
    · simp [genOf, hn] at ho
    · simpa [genOf, hr] using ho.symm
    · rw [h.noZombies] at ho; cases ho
  obtain ⟨x, hx, _⟩ := (Sock.holds_iff _ _).mp hao
  have hnd := hi.nodup a
  cases hl : (s.socks a).hs with
  | nil => rw [hl] at hx; cases hx
  | cons z t =>
    cases t with
    | nil => rfl
    | cons z2 t2 =>
      rw [hl] at hall hnd
      have e1 := hall z (by simp)
      have e2 := hall z2 (by simp)
      simp [e1, e2] at hnd

/-- **For tcp the decision is exact**: at stop time, `ListenerUsage < 2` for an address of the replaced
    config iff the new config does not keep it. -/
theorem shutdown_delay_decision_exact_for_tcp {s : State} (h : Reach s) {o c : Cfg}
    (hr : s.retiring = some o) (hc : s.cur = some c) (hn : s.next = none) {a : Addr} (hu : a.unix = false)
    (hao : s.holds a o.gen = true) : (s.socks a).pool < 2 ↔ a ∉ c.addrs := by
  constructor
  · intro hlt hac
    have := retained_tcp_usage_at_least_two_at_stop h hr hc hu hao hac
    omega
  · intro hna
    have := closing_tcp_usage_is_one_at_stop h hr hn hu hao (fun c' hc' => by rw [hc] at hc'; cases hc'; exact hna)
    omega

/-- (as the code is) a retained unix socket has a usage count of 1 at stop time — taking the socket over
    does not touch `listenerPool` — so `shutdown_delay` is enforced although the listener stays.
    Observed on the implementation (block field `sd`); not a clause of C02: the address keeps being
    served, by the old config during the delay. -/
theorem retained_unix_usage_is_one_at_stop :
    ((run init ([.begin ⟨0, [exU0]⟩, .bind exU0, .swap, .ret, .begin ⟨1, [exU0]⟩, .bind exU0, .cb .started 1, .swap])).map
      fun s => ((s.socks exU0).pool, (s.socks exU0).ucnt, s.holders exU0, genOf s.retiring)) = some (1, 2, 2, some 0) := by
  decide

-- the hypotheses of the three theorems above, met right after the swap of a reload that keeps t0 and drops u0
example : ((run init (reloadSteps exOld none (.mk 2 0 1 0 0 0) ++
      [.begin ⟨1, [exT0]⟩, .bind exT0, .cb .started 1, .swap])).map
    fun s => (genOf s.retiring, genOf s.cur, genOf s.next)) = some (some 0, some 1, none) := by decide
example : ((run init (reloadSteps exOld none (.mk 2 0 1 0 0 0) ++
      [.begin ⟨1, [exT0]⟩, .bind exT0, .cb .started 1, .swap])).map
    fun s => (s.holds exT0 0, (s.socks exT0).pool, s.holds exU0 0, (s.socks exU0).pool)) = some (true, 2, true, 1) := by decide

/-! ### the consumer of the usage count, tied to the source -/

/-- **usage_key_expression_matches_source.**  `(*App).Stop` contains exactly one `caddy.ListenerUsage`
    call, with exactly the arguments and enclosing loops that `NetAddr.usageKey` models and that the
    harness's `key` op evaluates on the real code (`exp[0].Network, exp[0].JoinHostPort(0)` of
    `na.Expand()`): regenerated from /repo on every run, so a changed or additional call site breaks
    this obligation instead of silently drifting away from the model. -/
theorem usage_key_expression_matches_source : Gen.listenerUsageCalls = [usageCallSite] := by decide

/-! ### the order matters -/

/-- the state after the first load of `exOld` -/
def exRunning : Option State := run init (reloadSteps exOld none (.mk 2 0 1 0 0 0))

/-- **reorder_breaks_it.**  The same effects in the order "stop the old config, then start the new one"
    (the mutation the property names) pass through a state in which a retained address has NO holder —
    and the transition system refuses that order. -/
theorem reorder_breaks_it :
    -- old closes first: t0 is unbound although both configs listen on it
    (exRunning.map fun s => (runUnguarded s ([.begin exNew] ++ [exT0, exU0].map (.close 0))).holders exT0) = some 0 ∧
    (exRunning.map fun s => (runUnguarded s ([.begin exNew] ++ [exT0, exU0].map (.close 0))).holders exU0) = some 0 ∧
    -- the code's order never gets there: the reordered step list is not a run
    (exRunning.bind fun s => run s (reorderedSteps exNew 0 [exT0, exU0])) = none ∧
    -- while the code's own order is one, and keeps a holder throughout
    (exRunning.bind fun s => (run s (reloadSteps exNew (some exOld) exSched)).map fun s' => (s'.holders exT0, s'.holders exU0))
      = some (1, 1) := by
  decide

/-! ### non-vacuity: the hypotheses are met by concrete non-trivial runs (kernel-evaluated) -/

/-- a two-reload history with a retained tcp and a retained unix address, callbacks in every slot -/
def exHistory : List Step :=
  reloadSteps exOld none (.mk 2 0 1 0 0 0) ++ reloadSteps exNew (some exOld) exSched

-- it is a run, it ends settled with the new config running and no zombies: the hypotheses of
-- `after_drain_only_new`, `dropped_address_has_no_listener`, `reload_state_meets_spec`
example : ((run init exHistory).map fun s => (s.phase, s.drained, s.zombies)) = some (.idle, true, []) := by decide
example : ((run init exHistory).map fun s => (genOf s.cur, servers s exT0, servers s exU0)) = some (some 1, [1], [1]) := by decide

-- in the middle of the second reload (after the binds, before the swap) both configs answer:
-- the hypotheses of `served_by_old_or_new` / `connect_current_address_answered` with two alive configs
example : ((run init (reloadSteps exOld none (.mk 2 0 1 0 0 0) ++ [.begin exNew, .cb .provision 1, .bind exU0, .bind exT0])).map
    fun s => (connect s exT0, connect s exU0, (s.socks exT0).pool, (s.socks exU0).pool, (s.socks exU0).ucnt))
    = some ([.answered 0, .answered 1], [.answered 0, .answered 1], 2, 1, 2) := by decide

-- `keeps` / `KeepInv`: every config of the second reload keeps t0
example : keeps exT0 (reloadSteps exNew (some exOld) exSched) = true := by decide
example : oneReload ((reloadSteps exNew (some exOld) exSched).drop 1) = true := by decide

-- an asynchronous close: the old listeners are closed only after the load has returned
example : ((run init (reloadSteps exOld none (.mk 2 0 1 0 0 0) ++
      [.begin exNew, .bind exT0, .bind exU0, .cb .started 1, .swap, .cb .stopping 0, .cb .cleanup 0, .ret,
       .close 0 exU0, .close 0 exT0])).map fun s => (s.drained, servers s exT0, (s.socks exU0).pool, (s.socks exU0).ucnt))
    = some (true, [1], 0, 1) := by decide

-- a rejected reload: the old config keeps answering, alone again after the rejected one is closed
example : ((run init (reloadSteps exOld none (.mk 2 0 1 0 0 0) ++
      [.begin exNew, .bind exT0, .bind exU0, .cb .started 1, .reject, .cb .stopping 1, .close 1 exT0, .close 1 exU0, .ret])).map
    fun s => (genOf s.cur, servers s exT0, servers s exU0))
    = some (some 0, [0], [0]) := by decide

-- in-flight: accepted by the old config before the reload, completed by it after the old listeners closed
example : ((run init (reloadSteps exOld none (.mk 2 0 1 0 0 0) ++ [.accept 7 0 exT0] ++
      reloadSteps exNew (some exOld) exSched ++ [.complete 7 0])).map fun s => (s.inflight, s.done))
    = some ([], [(7, 0)]) := by decide
-- the old config's context is cancelled while the request is in flight: the request keeps its context
example : ((run init (reloadSteps exOld none (.mk 2 0 1 0 0 0) ++ [.accept 7 0 exT0,
      .begin exNew, .bind exU0, .bind exT0, .cb .started 1, .swap, .cb .stopping 0, .close 0 exT0, .close 0 exU0,
      .cancelCtx 0, .cb .cleanup 0, .ret, .complete 7 0])).map fun s => (s.cancelled, s.ctxLost, s.done))
    = some ([0], [], [(7, 0)]) := by decide
-- … and it cannot be completed by the other config
example : (run init (reloadSteps exOld none (.mk 2 0 1 0 0 0) ++ [.accept 7 0 exT0] ++
      reloadSteps exNew (some exOld) exSched ++ [.complete 7 1])).isNone = true := by decide

-- hypotheses of `reload_is_a_run` / `reload_meets_spec` / `reload_never_unbinds_retained`: a reachable
-- settled state with a running config, a fresh generation for the next config
example : ((run init exHistory).map fun s => (s.fresh, genOf s.cur)) = some (2, some 1) := by decide
-- a strict prefix of the second reload: after both binds, before the swap, holders = 2 on both addresses
example : ((run init (reloadSteps exOld none (.mk 2 0 1 0 0 0) ++ (reloadSteps exNew (some exOld) exSched).take 7)).map
    fun s => (s.holders exT0, s.holders exU0, genOf s.cur)) = some (2, 2, some 0) := by decide

-- `okSeq` / `reloadSeq`: a three-config history with a listener-set change
example : okSeq 0 [(exOld, exSched), (exNew, exSched), (⟨5, [exT0]⟩, exSched)] := by
  simp [okSeq, exOld, exNew, exT0, exU0]
example : ((run init (reloadSeq none [(exOld, exSched), (exNew, exSched), (⟨5, [exT0]⟩, exSched)])).map
    fun s => (servers s exT0, servers s exU0, connect s exU0)) = some ([5], [], [.noent]) := by decide

-- admin: in the middle of the second load both admin servers have their listener open on m0
example : ((run init (exAdminReload.take 8)).map fun s => ((s.asocks exM0).gens, (s.asocks exM0).pool, s.adm, s.admRetired))
    = some ([0, 1], 2, some (1, exM0), [(0, exM0)]) := by decide
example : keepsAdmin exM0 exAdminReload = true := by decide
-- a rejected load that moves the admin endpoint: the move stays (admin_not_rolled_back)
example : ((run init ([.begin ⟨0, [exT0]⟩, .adminReplace 0 (some exM0), .bind exT0, .swap, .ret,
      .begin ⟨1, [exT0]⟩, .adminReplace 1 none, .bind exT0, .reject, .close 1 exT0, .ret, .adminClose 0 exM0])).map
    fun s => (genOf s.cur, s.adm, (s.asocks exM0).hs.length)) = some (some 0, none, 0) := by decide

-- `unlinks`: the fresh bind of a unix socket is the unlinking step, and nobody holds it then
example : unlinks init (.bind exU0) exU0 := ⟨rfl, rfl, rfl⟩

end CaddyModel.C02
