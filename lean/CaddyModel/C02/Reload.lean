/-
C02 — the code's own reload (`reloadSteps`: every close issued synchronously, callbacks in every slot)
is a run of the transition system, for every config, every running config and every schedule `π`.
This is what makes the `Reach`-quantified theorems of `Props.lean` speak about "every prefix of
`reload old new π`" and, by iteration, about every sequence of reloads.
-/
import CaddyModel.C02.Lemmas

namespace CaddyModel.C02

/-! ### address lists of configs are duplicate-free -/

structure NDInv (s : State) : Prop where
  cur : ∀ c, s.cur = some c → c.addrs.Nodup
  next : ∀ c, s.next = some c → c.addrs.Nodup
  retiring : ∀ c, s.retiring = some c → c.addrs.Nodup

theorem NDInv.init : NDInv init := by constructor <;> simp [C02.init]

theorem NDInv.step {s s' : State} {st : Step} (hi : NDInv s) (h : step? s st = some s') : NDInv s' := by
  obtain ⟨he, rfl⟩ := step?_some h
  cases st with
  | begin c =>
    simp only [enabled, Bool.and_eq_true, decide_eq_true_eq] at he
    refine ⟨hi.cur, ?_, ?_⟩ <;> simp only [eff]
    · intro c' h'; cases h'; exact he.2
    · intro c' h'; cases h'
  | swap =>
    refine ⟨?_, ?_, ?_⟩ <;> simp only [eff]
    · exact hi.next
    · intro c' h'; cases h'
    · exact hi.cur
  | reject =>
    refine ⟨hi.cur, ?_, ?_⟩ <;> simp only [eff]
    · intro c' h'; cases h'
    · exact hi.next
  | bindStale a =>
    refine ⟨hi.cur, ?_, ?_⟩ <;> simp only [eff]
    · intro c' h'; cases h'
    · intro c' h'; cases h'
  | stopAll =>
    refine ⟨?_, hi.next, ?_⟩ <;> simp only [eff]
    · intro c' h'; cases h'
    · exact hi.cur
  | bind a => exact ⟨hi.cur, hi.next, hi.retiring⟩
  | close g a => exact ⟨hi.cur, hi.next, hi.retiring⟩
  | ret => exact ⟨hi.cur, hi.next, hi.retiring⟩
  | gc a => exact ⟨hi.cur, hi.next, hi.retiring⟩
  | accept t g a => exact ⟨hi.cur, hi.next, hi.retiring⟩
  | complete t g => exact ⟨hi.cur, hi.next, hi.retiring⟩
  | adminReplace g a => exact ⟨hi.cur, hi.next, hi.retiring⟩
  | adminClose g a => exact ⟨hi.cur, hi.next, hi.retiring⟩
  | cancelCtx g => exact ⟨hi.cur, hi.next, hi.retiring⟩
  | cb k g => cases k <;> exact ⟨hi.cur, hi.next, hi.retiring⟩

theorem Reach.nd {s : State} (h : Reach s) : NDInv s := by
  induction h with
  | init => exact NDInv.init
  | step st _ hs ih => exact ih.step hs

/-! ### chaining runs -/

theorem run_chain {s : State} {xs ys : List Step} {P Q : State → Prop}
    (h1 : ∃ s1, run s xs = some s1 ∧ P s1) (h2 : ∀ s1, P s1 → ∃ s2, run s1 ys = some s2 ∧ Q s2) :
    ∃ s2, run s (xs ++ ys) = some s2 ∧ Q s2 := by
  obtain ⟨s1, hr1, hp⟩ := h1
  obtain ⟨s2, hr2, hq⟩ := h2 s1 hp
  exact ⟨s2, by rw [run_append, hr1]; exact hr2, hq⟩

theorem run_single {s s' : State} {st : Step} (h : step? s st = some s') : run s [st] = some s' := by
  simp [run, h]

/-- a step that is enabled and leaves every state satisfying `P` inside `P` can be repeated -/
theorem run_replicate {P : State → Prop} {st : Step}
    (hstep : ∀ s, P s → ∃ s', step? s st = some s' ∧ P s') :
    ∀ (n : Nat) (s : State), P s → ∃ s', run s (List.replicate n st) = some s' ∧ P s'
  | 0, s, hp => ⟨s, rfl, hp⟩
  | n + 1, s, hp => by
    obtain ⟨s1, h1, hp1⟩ := hstep s hp
    obtain ⟨s2, h2, hp2⟩ := run_replicate hstep n s1 hp1
    exact ⟨s2, by simp [List.replicate_succ, run, h1, h2], hp2⟩

/-! ### the loading half -/

/-- `c` is being loaded on top of `s0`; exactly the addresses in `B` are bound so far -/
structure LoadSt (s0 : State) (c : Cfg) (B : List Addr) (s : State) : Prop where
  reach : Reach s
  next : s.next = some c
  loading : s.loading = true
  cur : s.cur = s0.cur
  zombies : s.zombies = s0.zombies
  heldIn : ∀ a, a ∈ B → s.holds a c.gen = true
  notHeld : ∀ a, a ∉ B → s.holds a c.gen = false
  mono : ∀ a g, s0.holds a g = true → s.holds a g = true

theorem LoadSt.cbStart {s0 s : State} {c : Cfg} {B : List Addr} (h : LoadSt s0 c B s) :
    ∃ s', step? s (.cb .start c.gen) = some s' ∧ LoadSt s0 c B s' := by
  have he : enabled s (.cb .start c.gen) = true := by simp [enabled, h.loading, genOf, h.next]
  have hs : step? s (.cb .start c.gen) = some (eff s (.cb .start c.gen)) := by simp [step?, he]
  refine ⟨_, hs, ⟨h.reach.step _ hs, h.next, ?_, h.cur, h.zombies, h.heldIn, h.notHeld, h.mono⟩⟩
  simp [eff, State.loading]

theorem LoadSt.cbProvision {s0 s : State} {c : Cfg} {B : List Addr} (h : LoadSt s0 c B s) (hp : s.phase = .prov) :
    ∃ s', step? s (.cb .provision c.gen) = some s' ∧ (LoadSt s0 c B s' ∧ s'.phase = .prov) := by
  have he : enabled s (.cb .provision c.gen) = true := by simp [enabled, hp, genOf, h.next]
  exact ⟨s, by simp [step?, he, eff], h, hp⟩

theorem LoadSt.bind {s0 s : State} {c : Cfg} {B : List Addr} (h : LoadSt s0 c B s) {a : Addr}
    (ha : a ∈ c.addrs) (hb : a ∉ B) : ∃ s', step? s (.bind a) = some s' ∧ LoadSt s0 c (a :: B) s' := by
  have hbd : bindable s a = true := by
    simp [bindable, h.next, h.loading, ha, h.notHeld a hb]
  have he : enabled s (.bind a) = true := by simp [enabled, hbd]
  have hs : step? s (.bind a) = some (eff s (.bind a)) := by simp [step?, he]
  have hng : nextGen s = c.gen := by simp [nextGen, h.next]
  refine ⟨_, hs, ⟨h.reach.step _ hs, ?_, ?_, ?_, ?_, ?_, ?_, ?_⟩⟩
  · simp [eff, h.next]
  · simp [eff, State.loading]
  · simp [eff, h.cur]
  · simp [eff, h.zombies]
  · intro b hb'
    simp only [eff, State.holds, hng]
    by_cases hba : b = a
    · subst hba; rw [setSock_same]; exact holds_bindSock_self _ _ _
    · rw [setSock_ne _ _ hba]
      rcases List.mem_cons.mp hb' with e | e
      · exact absurd e hba
      · exact h.heldIn b e
  · intro b hb'
    have hba : b ≠ a := fun e => hb' (e ▸ List.mem_cons_self)
    simp only [eff, State.holds]
    rw [setSock_ne _ _ hba]
    exact h.notHeld b (fun e => hb' (List.mem_cons_of_mem _ e))
  · intro b g hg
    simp only [eff, State.holds, hng]
    by_cases hba : b = a
    · subst hba; rw [setSock_same]; exact holds_bindSock_of_holds _ _ _ _ (h.mono b g hg)
    · rw [setSock_ne _ _ hba]; exact h.mono b g hg

theorem LoadSt.binds {s0 : State} {c : Cfg} : ∀ (as : List Addr) {B : List Addr} {s : State}, LoadSt s0 c B s →
    (∀ a, a ∈ as → a ∈ c.addrs) → (∀ a, a ∈ as → a ∉ B) → as.Nodup →
    ∃ s', run s (as.map .bind) = some s' ∧ LoadSt s0 c (as.reverse ++ B) s'
  | [], B, s, h, _, _, _ => ⟨s, rfl, by simpa using h⟩
  | a :: rest, B, s, h, hin, hnb, hnd => by
    rw [List.nodup_cons] at hnd
    obtain ⟨s1, h1, hl1⟩ := h.bind (hin a List.mem_cons_self) (hnb a List.mem_cons_self)
    obtain ⟨s2, h2, hl2⟩ := LoadSt.binds rest hl1 (fun b hb => hin b (List.mem_cons_of_mem _ hb))
      (fun b hb => by
        intro hm
        rcases List.mem_cons.mp hm with e | e
        · exact hnd.1 (e ▸ hb)
        · exact hnb b (List.mem_cons_of_mem _ hb) e) hnd.2
    refine ⟨s2, by simp [run, h1, h2], ?_⟩
    simpa [List.reverse_cons, List.append_assoc] using hl2

/-! ### the stopping half -/

/-- `o` is being stopped; exactly the addresses in `C` have been closed so far -/
structure StopSt (o : Cfg) (C : List Addr) (s : State) : Prop where
  reach : Reach s
  retiring : s.retiring = some o
  phase : s.phase = .stopping
  held : ∀ a, a ∈ o.addrs → a ∉ C → s.holds a o.gen = true
  closed : ∀ a, a ∈ C → s.holds a o.gen = false

theorem not_holds_closeSock (a : Addr) (k : Sock) (g : Gen) (hnd : (k.hs.map Handle.gen).Nodup) :
    (closeSock a k g).holds g = false := by
  rw [Sock.holds_false_iff, closeSock_hs]
  cases hf : k.hs.find? (fun h => h.gen == g) with
  | none =>
    intro h hm
    have := List.find?_eq_none.mp hf h hm
    simpa using this
  | some h0 =>
    intro h hm
    have h0g : h0.gen = g := by simpa using List.find?_some hf
    exact h0g ▸ gen_ne_of_mem_erase hnd (List.mem_of_find?_eq_some hf) hm

theorem StopSt.cb {o : Cfg} {C : List Addr} {s : State} (h : StopSt o C s) {k : CbKind}
    (hk : k = .stopping ∨ k = .stop ∨ k = .cleanup) :
    ∃ s', step? s (.cb k o.gen) = some s' ∧ StopSt o C s' := by
  have hr : isRetiring s o.gen = true := by simp [isRetiring, genOf, h.retiring]
  have he : enabled s (.cb k o.gen) = true := by
    rcases hk with rfl | rfl | rfl <;> simp [enabled, h.phase, hr]
  have : eff s (.cb k o.gen) = s := by rcases hk with rfl | rfl | rfl <;> rfl
  exact ⟨s, by simp [step?, he, this], h⟩

theorem StopSt.close {o : Cfg} {C : List Addr} {s : State} (h : StopSt o C s) {a : Addr}
    (ha : a ∈ o.addrs) (hc : a ∉ C) : ∃ s', step? s (.close o.gen a) = some s' ∧ StopSt o (a :: C) s' := by
  have hr : isRetiring s o.gen = true := by simp [isRetiring, genOf, h.retiring]
  have he : enabled s (.close o.gen a) = true := by simp [enabled, hr, h.held a ha hc]
  have hs : step? s (.close o.gen a) = some (eff s (.close o.gen a)) := by simp [step?, he]
  refine ⟨_, hs, ⟨h.reach.step _ hs, ?_, ?_, ?_, ?_⟩⟩
  · simp [eff, h.retiring]
  · simp [eff, h.phase]
  · intro b hb hb'
    have hba : b ≠ a := fun e => hb' (e ▸ List.mem_cons_self)
    simp only [eff, State.holds]
    rw [setSock_ne _ _ hba]
    exact h.held b hb (fun e => hb' (List.mem_cons_of_mem _ e))
  · intro b hb
    simp only [eff, State.holds]
    by_cases hba : b = a
    · subst hba; rw [setSock_same]; exact not_holds_closeSock _ _ _ (h.reach.inv.nodup b)
    · rw [setSock_ne _ _ hba]
      rcases List.mem_cons.mp hb with e | e
      · exact absurd e hba
      · exact h.closed b e

theorem StopSt.closes {o : Cfg} : ∀ (as : List Addr) {C : List Addr} {s : State}, StopSt o C s →
    (∀ a, a ∈ as → a ∈ o.addrs) → (∀ a, a ∈ as → a ∉ C) → as.Nodup →
    ∃ s', run s (as.map (.close o.gen)) = some s' ∧ StopSt o (as.reverse ++ C) s'
  | [], C, s, h, _, _, _ => ⟨s, rfl, by simpa using h⟩
  | a :: rest, C, s, h, hin, hnc, hnd => by
    rw [List.nodup_cons] at hnd
    obtain ⟨s1, h1, hl1⟩ := h.close (hin a List.mem_cons_self) (hnc a List.mem_cons_self)
    obtain ⟨s2, h2, hl2⟩ := StopSt.closes rest hl1 (fun b hb => hin b (List.mem_cons_of_mem _ hb))
      (fun b hb => by
        intro hm
        rcases List.mem_cons.mp hm with e | e
        · exact hnd.1 (e ▸ hb)
        · exact hnc b (List.mem_cons_of_mem _ hb) e) hnd.2
    refine ⟨s2, by simp [run, h1, h2], ?_⟩
    simpa [List.reverse_cons, List.append_assoc] using hl2

/-- the stop phase of `reloadSteps` runs, and leaves the replaced config drained -/
theorem stopSteps_run {s : State} (hr : Reach s) (hph : s.phase = .stopping) (π : Sched)
    (hheld : ∀ o, s.retiring = some o → ∀ a, a ∈ o.addrs → s.holds a o.gen = true) :
    ∃ s', run s (stopSteps s.retiring π) = some s' ∧
      (Reach s' ∧ s'.phase = .stopping ∧ s'.drained = true ∧ s'.cur = s.cur ∧ s'.zombies = s.zombies) := by
  cases hro : s.retiring with
  | none =>
    refine ⟨s, rfl, hr, hph, ?_, rfl, rfl⟩
    simp [State.drained, hro]
  | some o =>
    have hnd : o.addrs.Nodup := hr.nd.retiring o hro
    have h0 : StopSt o [] s := ⟨hr, hro, hph, fun a ha _ => hheld o hro a ha, fun a ha => by cases ha⟩
    -- a StopSt keeps cur and zombies: carried separately through a wrapper predicate
    let P : List Addr → State → Prop := fun C s' => StopSt o C s' ∧ s'.cur = s.cur ∧ s'.zombies = s.zombies
    have hcb : ∀ (k : CbKind) (C : List Addr), (k = .stopping ∨ k = .stop ∨ k = .cleanup) → ∀ s1, P C s1 →
        ∃ s2, step? s1 (.cb k o.gen) = some s2 ∧ P C s2 := by
      intro k C hk s1 hp
      obtain ⟨s2, h2, hst⟩ := hp.1.cb hk
      obtain ⟨_, rfl⟩ := step?_some h2
      have : eff s1 (.cb k o.gen) = s1 := by rcases hk with rfl | rfl | rfl <;> rfl
      exact ⟨_, h2, hst, by rw [this]; exact hp.2.1, by rw [this]; exact hp.2.2⟩
    have hcloses : ∀ s1, P [] s1 → ∃ s2, run s1 (o.addrs.map (.close o.gen)) = some s2 ∧ P (o.addrs.reverse ++ []) s2 := by
      intro s1 hp
      -- closes change only `socks`
      have hgen : ∀ (as : List Addr) (C : List Addr) (s1 : State), P C s1 → (∀ a, a ∈ as → a ∈ o.addrs) →
          (∀ a, a ∈ as → a ∉ C) → as.Nodup → ∃ s2, run s1 (as.map (.close o.gen)) = some s2 ∧ P (as.reverse ++ C) s2 := by
        intro as
        induction as with
        | nil => intro C s1 hp _ _ _; exact ⟨s1, rfl, by simpa using hp⟩
        | cons a rest ih =>
          intro C s1 hp hin hnc hnd'
          rw [List.nodup_cons] at hnd'
          obtain ⟨s2, h2, hst⟩ := hp.1.close (hin a List.mem_cons_self) (hnc a List.mem_cons_self)
          obtain ⟨_, rfl⟩ := step?_some h2
          have hp2 : P (a :: C) (eff s1 (.close o.gen a)) := ⟨hst, by simp [eff, hp.2.1], by simp [eff, hp.2.2]⟩
          obtain ⟨s3, h3, hp3⟩ := ih (a :: C) _ hp2 (fun b hb => hin b (List.mem_cons_of_mem _ hb))
            (fun b hb => by
              intro hm
              rcases List.mem_cons.mp hm with e | e
              · exact hnd'.1 (e ▸ hb)
              · exact hnc b (List.mem_cons_of_mem _ hb) e) hnd'.2
          exact ⟨s3, by simp [run, h2, h3], by simpa [List.reverse_cons, List.append_assoc] using hp3⟩
      exact hgen o.addrs [] s1 hp (fun _ h => h) (fun _ _ h => by cases h) hnd
    have hfin : ∃ s', run s (stopSteps (some o) π) = some s' ∧ P (o.addrs.reverse ++ []) s' := by
      unfold stopSteps
      simp only
      refine run_chain (P := P (o.addrs.reverse ++ [])) (run_chain (P := P (o.addrs.reverse ++ []))
        (run_chain (P := P []) (run_chain (P := P []) ?_ ?_) hcloses) ?_) ?_
      · obtain ⟨s2, h2, hp2⟩ := hcb .stopping [] (Or.inl rfl) s ⟨h0, rfl, rfl⟩
        exact ⟨s2, run_single h2, hp2⟩
      · intro s1 hp; exact run_replicate (hcb .stop [] (Or.inr (Or.inl rfl))) _ s1 hp
      · intro s1 hp; exact run_replicate (hcb .stop _ (Or.inr (Or.inl rfl))) _ s1 hp
      · intro s1 hp; exact run_replicate (hcb .cleanup _ (Or.inr (Or.inr rfl))) _ s1 hp
    obtain ⟨s', hrun, hst, hc, hz⟩ := hfin
    refine ⟨s', hrun, hst.reach, hst.phase, ?_, hc, hz⟩
    simp only [State.drained, hst.retiring, List.all_eq_true, Bool.not_eq_true']
    intro a ha
    exact hst.closed a (by simpa using ha)

/-- **the code's reload is a run.**  From any reachable settled state, for any config with a fresh
    generation and duplicate-free addresses, and for
    any schedule `π`, `reloadSteps` is accepted by the transition system and ends settled with the
    new config running. -/
theorem reloadSteps_run {s0 : State} (h0 : Reach s0) (hph : s0.phase = .idle) (hd : s0.drained = true)
    (new : Cfg) (hf : s0.fresh ≤ new.gen) (hnd : new.addrs.Nodup) (π : Sched) :
    ∃ s, run s0 (reloadSteps new s0.cur π) = some s ∧
      (Reach s ∧ s.phase = .idle ∧ s.drained = true ∧ s.cur = some new ∧ s.zombies = s0.zombies) := by
  have hi0 := h0.inv
  -- begin
  have heb : enabled s0 (.begin new) = true := by simp [enabled, hph, hd, hf, hnd]
  have hsb : step? s0 (.begin new) = some (eff s0 (.begin new)) := by simp [step?, heb]
  have hL0 : LoadSt s0 new [] (eff s0 (.begin new)) ∧ (eff s0 (.begin new)).phase = .prov := by
    refine ⟨⟨h0.step _ hsb, rfl, rfl, rfl, rfl, (fun a h => by cases h), ?_, fun a g h => h⟩, rfl⟩
    intro a _
    simp only [eff, State.holds]
    rw [Sock.holds_false_iff]
    intro h hm e
    have := hi0.hLt a h hm
    omega
  unfold reloadSteps
  -- loading half: up to and including the swap
  have hload : ∃ s3, run s0 ([.begin new] ++ List.replicate π.prov (.cb .provision new.gen)
        ++ List.replicate π.startBefore (.cb .start new.gen) ++ new.addrs.map .bind
        ++ List.replicate π.startAfter (.cb .start new.gen) ++ [.cb .started new.gen, .swap]) = some s3 ∧
      (Reach s3 ∧ s3.phase = .stopping ∧ s3.cur = some new ∧ s3.retiring = s0.cur ∧ s3.zombies = s0.zombies ∧
        ∀ a g, s0.holds a g = true → s3.holds a g = true) := by
    refine run_chain (P := LoadSt s0 new (new.addrs.reverse ++ []))
      (run_chain (P := LoadSt s0 new (new.addrs.reverse ++ []))
        (run_chain (P := LoadSt s0 new []) (run_chain (P := LoadSt s0 new [])
          (run_chain (P := fun s => LoadSt s0 new [] s ∧ s.phase = .prov) ⟨_, run_single hsb, hL0⟩ ?_) ?_) ?_) ?_) ?_
    · intro s1 hp
      obtain ⟨s2, h2, hp2⟩ := run_replicate (P := fun s => LoadSt s0 new [] s ∧ s.phase = .prov)
        (fun s hp => hp.1.cbProvision hp.2) π.prov s1 hp
      exact ⟨s2, h2, hp2.1⟩
    · intro s1 hp; exact run_replicate (fun s hp => hp.cbStart) _ s1 hp
    · intro s1 hp; exact hp.binds new.addrs (fun _ h => h) (fun _ _ h => by cases h) hnd
    · intro s1 hp; exact run_replicate (fun s hp => hp.cbStart) _ s1 hp
    · intro s1 hp
      have hab : allBound s1 new = true := by
        simp only [allBound, List.all_eq_true]
        intro a ha; exact hp.heldIn a (by simpa using ha)
      have he1 : enabled s1 (.cb .started new.gen) = true := by simp [enabled, hp.next, hp.loading, hab]
      have hs1 : step? s1 (.cb .started new.gen) = some s1 := by simp [step?, he1, eff]
      have he2 : enabled s1 .swap = true := by simp [enabled, hp.next, hp.loading, hab]
      have hs2 : step? s1 .swap = some (eff s1 .swap) := by simp [step?, he2]
      refine ⟨eff s1 .swap, by simp [run, hs1, hs2], (hp.reach.step _ hs1).step _ hs2, rfl, ?_, ?_, ?_, ?_⟩
      · simp [eff, hp.next]
      · simp [eff, hp.cur]
      · simp [eff, hp.zombies]
      · intro a g hg; exact hp.mono a g hg
  -- stopping half and return
  refine run_chain (P := fun s => Reach s ∧ s.phase = .stopping ∧ s.drained = true ∧ s.cur = some new ∧ s.zombies = s0.zombies)
    (run_chain hload ?_) ?_
  · intro s3 ⟨hr3, hp3, hc3, hret3, hz3, hmono⟩
    have := stopSteps_run hr3 hp3 π (by
      intro o ho a ha
      rw [hret3] at ho
      exact hmono a o.gen (hi0.curHolds o ho a ha))
    rw [hret3] at this
    obtain ⟨s4, h4, hr4, hp4, hd4, hc4, hz4⟩ := this
    exact ⟨s4, h4, hr4, hp4, hd4, hc4.trans hc3, hz4.trans hz3⟩
  · intro s4 ⟨hr4, hp4, hd4, hc4, hz4⟩
    have he : enabled s4 .ret = true := by simp [enabled, hp4]
    have hs : step? s4 .ret = some (eff s4 .ret) := by simp [step?, he]
    refine ⟨_, run_single hs, hr4.step _ hs, rfl, ?_, ?_, ?_⟩
    · simpa [eff, State.drained, State.holds] using hd4
    · simp [eff, hc4]
    · simp [eff, hz4]

/-! ### sequences of reloads -/

def isBegin : Step → Bool
  | .begin _ => true
  | _ => false

theorem eff_fresh {s : State} {st : Step} (h : isBegin st = false) : (eff s st).fresh = s.fresh := by
  cases st with
  | begin c => simp [isBegin] at h
  | cb k g => cases k <;> rfl
  | _ => rfl

theorem run_fresh : ∀ (steps : List Step) {s s' : State}, run s steps = some s' →
    steps.all (fun st => !isBegin st) = true → s'.fresh = s.fresh
  | [], s, s', hr, _ => by simp [run] at hr; rw [hr]
  | st :: rest, s, s', hr, ha => by
    simp only [List.all_cons, Bool.and_eq_true, Bool.not_eq_true'] at ha
    unfold run at hr
    split at hr
    · rename_i s1 hs1
      obtain ⟨_, rfl⟩ := step?_some hs1
      rw [run_fresh rest hr ha.2, eff_fresh ha.1]
    · cases hr

theorem reloadSteps_tail_noBegin (new : Cfg) (old : Option Cfg) (π : Sched) :
    ((reloadSteps new old π).drop 1).all (fun st => !isBegin st) = true := by
  cases old <;>
    simp [reloadSteps, stopSteps, List.all_append, List.all_map, List.all_replicate, isBegin, Function.comp_def]

theorem reloadSteps_head (new : Cfg) (old : Option Cfg) (π : Sched) :
    reloadSteps new old π = .begin new :: (reloadSteps new old π).drop 1 := by
  simp [reloadSteps, List.append_assoc]

/-- a history of reloads: each config is loaded on top of the previous one -/
def reloadSeq : Option Cfg → List (Cfg × Sched) → List Step
  | _, [] => []
  | old, (c, π) :: rest => reloadSteps c old π ++ reloadSeq (some c) rest

/-- generations increase, address lists are duplicate-free -/
def okSeq : Nat → List (Cfg × Sched) → Prop
  | _, [] => True
  | n, (c, _) :: rest => n ≤ c.gen ∧ c.addrs.Nodup ∧ okSeq (c.gen + 1) rest

/-- **every sequence of reloads is a run** (and ends settled), for
    every list of configs and every schedule of each reload. -/
theorem reloadSeq_run : ∀ (cfgs : List (Cfg × Sched)) {s0 : State}, Reach s0 → s0.phase = .idle →
    s0.drained = true → okSeq s0.fresh cfgs →
    ∃ s, run s0 (reloadSeq s0.cur cfgs) = some s ∧ (Reach s ∧ s.phase = .idle ∧ s.drained = true)
  | [], s0, h0, hp, hd, _ => ⟨s0, rfl, h0, hp, hd⟩
  | (c, π) :: rest, s0, h0, hp, hd, hok => by
    obtain ⟨hf, hnd, hok'⟩ := hok
    obtain ⟨s1, h1, hr1, hp1, hd1, hc1, _⟩ := reloadSteps_run h0 hp hd c hf hnd π
    have hfresh1 : s1.fresh = c.gen + 1 := by
      rw [reloadSteps_head] at h1
      unfold run at h1
      split at h1
      · rename_i sb hsb
        obtain ⟨_, rfl⟩ := step?_some hsb
        rw [run_fresh _ h1 (reloadSteps_tail_noBegin c s0.cur π)]; rfl
      · cases h1
    obtain ⟨s2, h2, hfin⟩ := reloadSeq_run rest hr1 hp1 hd1 (hfresh1 ▸ hok')
    refine ⟨s2, ?_, hfin⟩
    simp only [reloadSeq]
    rw [run_append, h1]
    simp only [Option.bind_some]
    rw [← hc1]; exact h2

/-! ### `keeps` on the code's reload -/

theorem keeps_append (a : Addr) : ∀ (xs ys : List Step), keeps a (xs ++ ys) = (keeps a xs && keeps a ys)
  | [], _ => by simp [keeps]
  | st :: rest, ys => by
    have ih := keeps_append a rest ys
    cases st with
    | begin c => simp [keeps, ih, Bool.and_assoc]
    | stopAll => simp [keeps]
    | cb k g => simp [keeps, ih]
    | bind b => simp [keeps, ih]
    | bindStale b => simp [keeps, ih]
    | swap => simp [keeps, ih]
    | reject => simp [keeps, ih]
    | close g b => simp [keeps, ih]
    | ret => simp [keeps, ih]
    | gc b => simp [keeps, ih]
    | accept t g b => simp [keeps, ih]
    | complete t g => simp [keeps, ih]
    | adminReplace g b => simp [keeps, ih]
    | adminClose g b => simp [keeps, ih]
    | cancelCtx g => simp [keeps, ih]

theorem keeps_replicate_cb (a : Addr) (k : CbKind) (g : Gen) : ∀ n, keeps a (List.replicate n (.cb k g)) = true
  | 0 => rfl
  | n + 1 => by simp [List.replicate_succ, keeps, keeps_replicate_cb a k g n]

theorem keeps_map_bind (a : Addr) : ∀ (as : List Addr), keeps a (as.map .bind) = true
  | [] => rfl
  | b :: rest => by simp [keeps, keeps_map_bind a rest]

theorem keeps_map_close (a : Addr) (g : Gen) : ∀ (as : List Addr), keeps a (as.map (.close g)) = true
  | [] => rfl
  | b :: rest => by simp [keeps, keeps_map_close a g rest]

theorem keeps_reloadSteps {a : Addr} {new : Cfg} (ha : a ∈ new.addrs) (old : Option Cfg) (π : Sched) :
    keeps a (reloadSteps new old π) = true := by
  cases old <;>
    simp [reloadSteps, stopSteps, keeps_append, keeps_replicate_cb, keeps_map_bind, keeps_map_close, keeps, ha]

end CaddyModel.C02
