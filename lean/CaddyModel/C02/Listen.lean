/-
C02 (round h) — what the HTTP app does with its `listen` entries before a listener exists:

  * `(*App).Provision` (modules/caddyhttp/app.go:224-292): the server's protocol set (default h1 h2 h3),
    the normalisation of `listen_protocols` (a `""` stands for the server's protocols; an entry that comes
    out empty is stored as nil and falls back to the server's protocols in `start`), the three rejections
    (h2 / h2c without h1 on the server, count mismatch, h2 / h2c without h1 on an entry);
  * `(*App).Validate` (413-433): "each server must use distinct listener addresses" — the key it compares,
    `JoinNetworkAddress(network, host, FormatUint(start+i))`, next to the key `listen` books the socket
    under (`NetAddr.bookKey`, Key.lean);
  * `(*App).start` (518-547): the guard under which an entry is turned into a stream listener at all
    (`h1ok || h2ok && useTLS || h2cok`): an entry whose protocols are h3 only is never bound on tcp;
  * `JoinNetworkAddress` / `NetworkAddress.String` / `port` (listeners.go:281-296, 413-424).

The `val` op of the driver runs `validateApp` against the real `caddy.Validate` / `caddy.Load`; the `seq`
histories use `bindsStream` for entries written with a protocol suffix. The guard and the key expression
are regenerated source facts (`Gen.httpListenGuards`, `Gen.httpRepeatedListenKey`).
-/
import CaddyModel.C02.Key
import CaddyModel.Gen.Glue

namespace CaddyModel.C02

/-- `net.JoinHostPort` on strings -/
def joinHostPortS (host port : String) : String :=
  if host.contains ':' then "[" ++ host ++ "]:" ++ port else host ++ ":" ++ port

/-- `JoinNetworkAddress(network, host, port)` -/
def joinNetworkAddress (network host port : String) : String :=
  (if network.isEmpty then "" else network ++ "/") ++
    (if (!host.isEmpty && port.isEmpty) || isUnixNet network || isFdNet network then host
     else if !port.isEmpty then joinHostPortS host port else "")

/-- `na.port()` -/
def NetAddr.portStr (na : NetAddr) : String :=
  if na.startPort == na.endPort then toString na.startPort else toString na.startPort ++ "-" ++ toString na.endPort

/-- `na.String()`: the default network is left out -/
def NetAddr.str (na : NetAddr) : String :=
  joinNetworkAddress (if na.network == "tcp" && (!na.host.isEmpty || !na.portStr.isEmpty) then "" else na.network)
    na.host na.portStr

/-- the key `Validate` stores a socket of a listen entry under. At this call site the port is
    `strconv.FormatUint(…)`, never empty, so the two `port == ""` tests of `JoinNetworkAddress` are dead
    (the driver checks on every `val` line that this closed form and `joinNetworkAddress` agree). -/
def NetAddr.repeatKey (na : NetAddr) (off : Nat) : String :=
  (if na.network.isEmpty then "" else na.network ++ "/") ++
    (if isUnixNet na.network || isFdNet na.network then na.host else C02.joinHostPort na.host (na.startPort + off))

def NetAddr.repeatKeyJoined (na : NetAddr) (off : Nat) : String :=
  joinNetworkAddress na.network na.host (toString (na.startPort + off))

/-! ### protocols -/

/-- "cannot enable HTTP/2 or H2C without enabling HTTP/1.1" -/
def h2WithoutH1 (ps : List String) : Bool := !ps.contains "h1" && (ps.contains "h2" || ps.contains "h2c")

/-- one non-null `listen_protocols` entry after Provision: the named protocols in their order, then — if
    a `""` was among them — the server's protocols that were not named, in the server's order -/
def normLnProtos (srv ln : List String) : List String :=
  if ln.contains "" then ln.filter (fun p => p != "") ++ srv.filter (fun p => !(ln.filter (fun p => p != "")).contains p)
  else ln.filter (fun p => p != "")

/-- the protocols `start` uses for the entry: an entry that came out empty was stored as nil -/
def effProtos (srv : List String) : Option (List String) → List String
  | none => srv
  | some ln => if (normLnProtos srv ln).isEmpty then srv else normLnProtos srv ln

/-- `start`: is a stream listener created for a socket of the entry? -/
def bindsStream (ps : List String) (useTLS : Bool) : Bool :=
  ps.contains "h1" || (ps.contains "h2" && useTLS) || ps.contains "h2c"

/-- the guard in the notation of the regenerated fact `Gen.httpListenGuards` -/
def listenGuardSite : List String :=
  ["if h1ok||h2ok&&useTLS||h2cok",
   "h1ok := present protocolsUnique[\"h1\"]",
   "h2ok := present protocolsUnique[\"h2\"]",
   "useTLS := len(srv.TLSConnPolicies)>0&&int(listenAddr.StartPort+portOffset)!=app.httpPort()",
   "h2cok := present protocolsUnique[\"h2c\"]"]

/-- the repeated-address key in the notation of `Gen.httpRepeatedListenKey` -/
def repeatKeySite : List String :=
  ["addr := caddy.JoinNetworkAddress(listenAddr.Network,listenAddr.Host,strconv.FormatUint(uint64(listenAddr.StartPort+i),10)) | range app.Servers; range srv.Listen; for i<listenAddr.PortRangeSize()",
   "lookup lnAddrs[addr] | range app.Servers; range srv.Listen; for i<listenAddr.PortRangeSize()",
   "store lnAddrs[addr] | range app.Servers; range srv.Listen; for i<listenAddr.PortRangeSize()"]

structure SrvSpec where
  listen : List NetAddr
  protos : List String                           -- `protocols` as written ([] = not configured)
  lnProtos : Option (List (Option (List String)))  -- `listen_protocols`: absent | entries (null | list)
deriving Repr

def SrvSpec.srvProtos (s : SrvSpec) : List String := if s.protos.isEmpty then ["h1", "h2", "h3"] else s.protos

def lnRejected (srv : List String) : Option (List String) → Bool
  | none => false
  | some ln => h2WithoutH1 (normLnProtos srv ln)

/-- Provision of one server: the protocols of every listen entry; `none` = the config is rejected -/
def provisionSrv (s : SrvSpec) : Option (List (List String)) :=
  if h2WithoutH1 s.srvProtos then none else
  match s.lnProtos with
  | none => some (s.listen.map fun _ => s.srvProtos)
  | some lps =>
    if lps.length != s.listen.length then none
    else if lps.any (lnRejected s.srvProtos) then none
    else some (lps.map (effProtos s.srvProtos))

/-- the sockets of a listen entry -/
def entrySockets (na : NetAddr) : List (NetAddr × Nat) := (List.range na.size).map fun i => (na, i)

def SrvSpec.sockets (s : SrvSpec) : List (NetAddr × Nat) := s.listen.flatMap entrySockets

/-- Validate: some key is claimed twice (whichever order Go's map iteration visits the servers in) -/
def repeated (ss : List SrvSpec) : Bool :=
  !decide ((ss.flatMap SrvSpec.sockets).map fun p => p.1.repeatKey p.2).Nodup

/-- the booking keys of the stream listeners `start` creates for one server (no TLS policies) -/
def boundKeys (s : SrvSpec) (eff : List (List String)) : List String :=
  (s.listen.zip eff).flatMap fun p => if bindsStream p.2 false then (entrySockets p.1).map fun q => q.1.bookKey q.2 else []

inductive Verdict3 where
  | protoRejected
  | repeatedAddr
  | ok (bound : List String)
deriving Repr, DecidableEq

def collectBound : List SrvSpec → List String
  | [] => []
  | s :: rest =>
    match provisionSrv s with
    | some eff => boundKeys s eff ++ collectBound rest
    | none => collectBound rest

def validateApp (ss : List SrvSpec) : Verdict3 :=
  if ss.any (fun s => (provisionSrv s).isNone) then .protoRejected
  else if repeated ss then .repeatedAddr
  else .ok (collectBound ss)

/-! ### theorems -/

/-- for everything but a unix socket the address `listen` binds is the address as written -/
theorem plain_spelling_of_not_unix (na : NetAddr) (off : Nat) (h : isUnixNet na.network = false) :
    na.bindAddress off = na.joinHostPort off := by
  simp [NetAddr.bindAddress, h]

/-- **repeatKey_eq_bookKey_of_plain_spelling.**  The key `Validate` compares is the key the listener is
    booked under whenever the bind address is the address as written (every tcp / udp / fd address; a unix
    socket written without permission bits). -/
theorem repeatKey_eq_bookKey_of_plain_spelling (na : NetAddr) (off : Nat) (hne : na.network.isEmpty = false)
    (hplain : na.bindAddress off = na.joinHostPort off) : na.repeatKey off = na.bookKey off := by
  simp [NetAddr.repeatKey, NetAddr.bookKey, listenerKey, hplain, hne, NetAddr.joinHostPort, String.append_assoc]

example : (NetAddr.mk "tcp" "127.0.0.1" 8080 8082).repeatKey 1 = (NetAddr.mk "tcp" "127.0.0.1" 8080 8082).bookKey 1 :=
  repeatKey_eq_bookKey_of_plain_spelling _ _ (by decide) (plain_spelling_of_not_unix _ _ (by decide))

/-- **accepted_config_has_one_listener_per_socket_partial.**  (the assumption "one listener per (config,
    socket)" of the lifecycle machine, as a theorem)  A config `Validate` accepts — no repeated key — books
    pairwise different pool keys for its sockets, PROVIDED every address is written plainly. Full
    statement (without `hplain`) is false: `repeated_check_misses_permission_bits`. -/
theorem accepted_config_has_one_listener_per_socket_partial (socks : List (NetAddr × Nat))
    (hne : ∀ p ∈ socks, p.1.network.isEmpty = false)
    (hplain : ∀ p ∈ socks, p.1.bindAddress p.2 = p.1.joinHostPort p.2)
    (h : (socks.map fun p => p.1.repeatKey p.2).Nodup) : (socks.map fun p => p.1.bookKey p.2).Nodup := by
  have e : (socks.map fun p => p.1.repeatKey p.2) = (socks.map fun p => p.1.bookKey p.2) :=
    List.map_congr_left fun p hp => repeatKey_eq_bookKey_of_plain_spelling p.1 p.2 (hne p hp) (hplain p hp)
  rw [← e]; exact h

example : ∀ p ∈ [(NetAddr.mk "tcp" "h" 80 81, 0), (NetAddr.mk "udp" "h" 80 81, 1)],
    p.1.network.isEmpty = false ∧ p.1.bindAddress p.2 = p.1.joinHostPort p.2 := by
  intro p hp
  simp only [List.mem_cons, List.not_mem_nil, or_false] at hp
  rcases hp with rfl | rfl
  · exact ⟨by decide, plain_spelling_of_not_unix _ _ (by decide)⟩
  · exact ⟨by decide, plain_spelling_of_not_unix _ _ (by decide)⟩

/-- **repeated_check_misses_permission_bits** (`…_full_fails` of the clause above, as the code is).  Two
    spellings of one unix socket that differ in their permission bits have different `Validate` keys and
    the same booking key: a config whose servers both list the socket is accepted, and the second `Listen`
    takes the first one's socket over (`reuseUnixSocket`): one socket, two servers of ONE config accepting
    on it. Not a clause of C02 (the address is served, by the running config); reported. The `val` op shows
    it on the real code (counter 2 on one `unixSockets` entry). -/
theorem repeated_check_misses_permission_bits (nw h1 h2 p : String) (m1 m2 : Nat) (hu : isUnixNet nw = true)
    (e1 : splitPerm h1 = some (p, m1)) (e2 : splitPerm h2 = some (p, m2)) (hd : h1 ≠ h2) :
    (NetAddr.mk nw h1 0 0).repeatKey 0 ≠ (NetAddr.mk nw h2 0 0).repeatKey 0 ∧
    (NetAddr.mk nw h1 0 0).bookKey 0 = (NetAddr.mk nw h2 0 0).bookKey 0 := by
  refine ⟨?_, bookKey_ignores_permission_bits nw p h1 h2 m1 m2 hu e1 e2 0 0⟩
  intro h
  apply hd
  simpa [NetAddr.repeatKey, hu] using h

/-- **bindsStream_without_tls_iff_h1.**  For a protocol set Provision accepted and a server without TLS
    policies, a socket of the entry is bound exactly when h1 is among the protocols. -/
theorem bindsStream_without_tls_iff_h1 (ps : List String) (h : h2WithoutH1 ps = false) :
    bindsStream ps false = ps.contains "h1" := by
  unfold bindsStream h2WithoutH1 at *
  cases h1 : ps.contains "h1" <;> cases h2 : ps.contains "h2" <;> cases h2c : ps.contains "h2c" <;> simp_all

example : h2WithoutH1 ["h1", "h3"] = false ∧ bindsStream ["h1", "h3"] false = true := by decide

/-- **h3_only_entry_binds_no_stream_listener.**  A listen entry whose protocols are h3 only is not bound on
    its stream socket, with or without TLS: a retained listen address whose definition changes to h3 only
    is, for the listener bookkeeping, a dropped address (and is closed after the drain:
    `dropped_address_closed`). -/
theorem h3_only_entry_binds_no_stream_listener (tls : Bool) : bindsStream ["h3"] tls = false := by
  cases tls <;> decide

/-- a `listen_protocols` entry without the placeholder `""` is kept as written -/
theorem normLnProtos_without_placeholder (srv ln : List String) (h : ln.contains "" = false) :
    normLnProtos srv ln = ln := by
  have hm : "" ∉ ln := by simpa using h
  simp only [normLnProtos, h]
  simp only [Bool.false_eq_true, if_false]
  apply List.filter_eq_self.mpr
  intro a ha
  simp only [bne_iff_ne, ne_eq]
  intro e; exact hm (e ▸ ha)

example : normLnProtos ["h1", "h2", "h3"] ["h3", ""] = ["h3", "h1", "h2"] := by decide

/-- (as the code is) an empty `listen_protocols` entry `[]` is stored as nil and behaves like `null`: the
    entry gets the server's protocols -/
theorem empty_listen_protocols_entry_is_null (srv : List String) : effProtos srv (some []) = effProtos srv none := by
  simp [effProtos, normLnProtos]

/-- **listen_guard_matches_source**: the only `if` around a `.Listen(` call in `(*App).start` and the
    definitions of its operands, regenerated from /repo on every run. -/
theorem listen_guard_matches_source : Gen.httpListenGuards = listenGuardSite := by decide

set_option maxRecDepth 8192 in
/-- **repeated_listen_key_matches_source**: the key expression of `Validate`'s map of claimed addresses, its
    lookup and its store with their enclosing loops, regenerated from /repo on every run. -/
theorem repeated_listen_key_matches_source : Gen.httpRepeatedListenKey = repeatKeySite := by decide

end CaddyModel.C02
