/-
C15 — the glue in front of the modelled core: how an `encode` directive of a Caddyfile becomes the
configuration the handler runs with.

* `parseEncode`   = `(*Encode).UnmarshalCaddyfile` (encode/caddyfile.go:57-137, as of commit e21a4a9) on the
                    token structure the dispenser hands it: the arguments on the directive line and the lines of
                    the block (a line = its tokens, a `match` line may carry a nested block). Kept quirks: inside
                    the block the dispenser is a plain token stream, so tokens left over after
                    `minimum_length <n>` are read as further entries; a second `match` is an error; an encoder
                    named twice IN THE BLOCK is listed twice (and then rejected by `Validate`).
* `parseMatchSeg` = `caddyhttp.ParseNamedResponseMatcher` + `MatchHeader.UnmarshalCaddyfile`
                    (responsematchers.go:70-120, matchers.go:965-1004) for `status …`, `header F v`, `header !F`.
* `loadEncode`    = JSON round trip, `Provision` (defaults: minimum_length 512, the Content-Type matcher,
                    gzip level 5) and `Validate` (gzip level range, `prefer` ⊆ enabled without duplicates).
Outside (`unsupported`): nested blocks on other lines than `match` / `gzip` / `zstd`, status arguments with
other bytes than digits, `x`, `+`, `-`.
-/
import CaddyModel.C15.Model

namespace CaddyModel.C15

/-- `minimum_length` -/
def tMinimumLength : Bytes := [109, 105, 110, 105, 109, 117, 109, 95, 108, 101, 110, 103, 116, 104]
/-- `match` -/
def tMatch : Bytes := [109, 97, 116, 99, 104]
/-- `header` -/
def tHeader : Bytes := [104, 101, 97, 100, 101, 114]
/-- `status` -/
def tStatus : Bytes := [115, 116, 97, 116, 117, 115]
/-- `xx` -/
def tXX : Bytes := [120, 120]
/-- `fastest` -/
def tFastest : Bytes := [102, 97, 115, 116, 101, 115, 116]
/-- `default` -/
def tDefault : Bytes := [100, 101, 102, 97, 117, 108, 116]
/-- `better` -/
def tBetter : Bytes := [98, 101, 116, 116, 101, 114]
/-- `best` -/
def tBest : Bytes := [98, 101, 115, 116]

/-- the same constants as text, for the `#guard` in Driver.lean -/
def cfConstTexts : List (Bytes × String) := [
  (tMinimumLength, "minimum_length"),
  (tMatch, "match"),
  (tHeader, "header"),
  (tStatus, "status"),
  (tXX, "xx"),
  (tFastest, "fastest"),
  (tDefault, "default"),
  (tBetter, "better"),
  (tBest, "best")
]

/-- one line of the block: its tokens and, for `match {`, the lines of the nested block -/
structure Line where
  toks : List Bytes
  sub : Option (List (List Bytes))
deriving DecidableEq, Repr

/-- what `UnmarshalCaddyfile` has collected -/
structure CfState where
  minLen : Int                 -- `enc.MinLength`
  matcher : Option Matcher     -- `enc.Matcher`
  matchSeen : Bool             -- `responseMatchers["match"]` is defined
  encs : List Bytes            -- keys of `enc.EncodingsRaw`
  gzipLevel : Int              -- `Gzip.Level` of the gzip entry (last one configured)
  prefer : List Bytes

inductive CfRes (σ : Type) where
  | ok (s : σ)
  | parseErr        -- `UnmarshalCaddyfile` returns an error
  | loadErr         -- loading the module (Provision / Validate) fails
  | unsupported     -- outside the modelled token shapes

def CfState.empty : CfState := ⟨0, none, false, [], 0, []⟩

/-! ### response matcher segment -/

/-- `headers[field] = nil` -/
def mapSetNil : List (Bytes × Option (List Bytes)) → Bytes → List (Bytes × Option (List Bytes))
  | [], k => [(k, none)]
  | (k', v) :: t, k => if k' = k then (k, none) :: t else (k', v) :: mapSetNil t k

/-- `http.Header(m).Add(field, val)` (the key is canonicalised by the caller) -/
def mapAdd : List (Bytes × Option (List Bytes)) → Bytes → Bytes → List (Bytes × Option (List Bytes))
  | [], k, v => [(k, some [v])]
  | (k', vs) :: t, k, v =>
    if k' = k then (k, some ((match vs with | some l => l | none => []) ++ [v])) :: t
    else (k', vs) :: mapAdd t k v

/-- `MatchHeader.UnmarshalCaddyfile` on the tokens after `header`: a field and a value (or `!field` alone);
    whatever follows on the line is read in rounds of "one token that is skipped (the loop's `d.Next()`), then
    again a field and a value" -/
def parseHeaderSeg (m : Matcher) : List Bytes → CfRes Matcher
  | [] => .parseErr                                   -- "expected field"
  | [f] =>
    match f with
    | 33 :: name =>
      if name.isEmpty then .parseErr                  -- "must have field name following ! character"
      else .ok { m with headers := mapSetNil m.headers name }
    | _ => .parseErr                                  -- "expected both field and value"
  | [f, v] =>
    match f with
    | 33 :: _ => .parseErr                            -- "null matching headers cannot have a field value"
    | _ => .ok { m with headers := mapAdd m.headers (canonKey f) v }
  | f :: v :: _ :: more =>
    match f with
    | 33 :: _ => .parseErr
    | _ => parseHeaderSeg { m with headers := mapAdd m.headers (canonKey f) v } more

def statusTokOk (t : Bytes) : Bool :=
  !t.isEmpty && t.length ≤ 10 && t.all (fun c => (48 ≤ c && c ≤ 57) || c == 120 || c == 43 || c == 45)

/-- one `status` argument: `2xx` means the class 2; otherwise `strconv.Atoi` -/
def parseStatusTok (t : Bytes) : Option Int :=
  atoi (if t.length = 3 && hasSuffix tXX t then t.take 1 else t)

def parseStatusArgs (m : Matcher) (args : List Bytes) : CfRes Matcher :=
  if args.isEmpty then .parseErr
  else if !args.all statusTokOk then .unsupported
  else match args.mapM parseStatusTok with
    | none => .parseErr
    | some cs => .ok { m with codes := some ((match m.codes with | some l => l | none => []) ++ cs) }

/-- one entry of the matcher definition: the tokens from `header` / `status` to the end of the line -/
def parseMatchEntry (m : Matcher) : List Bytes → CfRes Matcher
  | [] => .ok m
  | t :: rest =>
    if t = tHeader then parseHeaderSeg m rest
    else if t = tStatus then parseStatusArgs m rest
    else .parseErr                                    -- "unrecognized response matcher"

def parseMatchLines (m : Matcher) : List (List Bytes) → CfRes Matcher
  | [] => .ok m
  | l :: ls =>
    match parseMatchEntry m l with
    | .ok m' => parseMatchLines m' ls
    | .parseErr => .parseErr
    | .loadErr => .loadErr
    | .unsupported => .unsupported

/-- `ParseNamedResponseMatcher` on `match <rest…> [{ sub }]` -/
def parseMatchSeg (rest : List Bytes) (sub : Option (List (List Bytes))) : CfRes Matcher :=
  match rest, sub with
  | [], none => .ok ⟨none, []⟩
  | [], some ls => parseMatchLines ⟨none, []⟩ ls
  | r, none => parseMatchEntry ⟨none, []⟩ r
  | _, some _ => .unsupported

/-! ### the block -/

def zstdLevelOk (l : Bytes) : Bool :=
  toLower l == tFastest || toLower l == tDefault || toLower l == tBetter || toLower l == tBest

def addKey (l : List Bytes) (k : Bytes) : List Bytes := if l.contains k then l else l ++ [k]

/-- the tokens of one block line, read as the token stream `for d.NextBlock(0)` sees -/
def procToks (sub : Option (List (List Bytes))) : List Bytes → CfState → CfRes CfState
  | [], st => if sub.isSome then .unsupported else .ok st
  | t :: rest, st =>
    if t = tMinimumLength then
      match rest with
      | [] => .parseErr                                 -- ArgErr
      | v :: more =>
        match atoi v with
        | none => .parseErr
        | some n => procToks sub more { st with minLen := n }
    else if t = tMatch then
      if st.matchSeen then .parseErr                    -- "matcher is defined more than once"
      else match parseMatchSeg rest sub with
        | .ok m => .ok { st with matcher := some m, matchSeen := true }
        | .parseErr => .parseErr
        | .loadErr => .loadErr
        | .unsupported => .unsupported
    else if t = vGzip then
      match rest with
      | [] => .ok { st with encs := addKey st.encs vGzip, gzipLevel := 0, prefer := st.prefer ++ [vGzip] }
      | l :: _ =>
        match atoi l with
        | none => .parseErr
        | some n => .ok { st with encs := addKey st.encs vGzip, gzipLevel := n, prefer := st.prefer ++ [vGzip] }
    else if t = vZstd then
      match rest with
      | [] => .ok { st with encs := addKey st.encs vZstd, prefer := st.prefer ++ [vZstd] }
      | l :: _ =>
        if zstdLevelOk l then .ok { st with encs := addKey st.encs vZstd, prefer := st.prefer ++ [vZstd] }
        else .parseErr
    else if sub.isSome then .unsupported
    else .parseErr                                      -- no such encoder module

def procBlock : List Line → CfState → CfRes CfState
  | [], st => .ok st
  | l :: ls, st =>
    match procToks l.sub l.toks st with
    | .ok st' => procBlock ls st'
    | .parseErr => .parseErr
    | .loadErr => .loadErr
    | .unsupported => .unsupported

/-- the formats named on the directive line: skipped when the block configured them already -/
def procArgs : List Bytes → CfState → CfRes CfState
  | [], st => .ok st
  | a :: as, st =>
    if st.encs.contains a then procArgs as st
    else if a = vGzip || a = vZstd then procArgs as { st with encs := st.encs ++ [a], prefer := st.prefer ++ [a] }
    else .parseErr                                      -- "finding encoder module"

/-- `UnmarshalCaddyfile`: block first, then the line (default `zstd gzip` when nothing at all is named) -/
def parseEncode (args : List Bytes) (block : List Line) : CfRes CfState :=
  match procBlock block CfState.empty with
  | .ok st => procArgs (if st.prefer.isEmpty && args.isEmpty then [vZstd, vGzip] else args) st
  | r => r

/-! ### the token shapes the model covers (a static test, the same one the harness applies) -/

def entrySupported : List Bytes → Bool
  | [] => true
  | t :: rest => if t = tStatus then rest.all statusTokOk else true

/-- nested blocks are modelled after `match` (the matcher definition) and after `gzip` / `zstd` (ignored by
    those modules' unmarshalers) -/
def lineSupported (l : Line) : Bool :=
  match l.toks with
  | [] => false
  | t :: rest =>
    if t = tMatch then
      (match l.sub with
        | none => entrySupported rest
        | some ls => rest.isEmpty && ls.all entrySupported)
    else (l.sub.isNone || t = vGzip || t = vZstd) && (t != tMinimumLength || !rest.contains tMatch)

/-! ### loading the module -/

/-- the configuration the handler runs with -/
structure Loaded where
  offered : List Bytes
  prefer : List Bytes
  minLen : Int
  matcher : Matcher

/-- gzip's `Provision` + `Validate`: 0 means 5; the level must lie in [-3, 9] -/
def gzipLevelOk (l : Int) : Bool := l = 0 || (-3 ≤ l && l ≤ 9)

def loadEncode (st : CfState) : CfRes Loaded :=
  if st.encs.contains vGzip && !gzipLevelOk st.gzipLevel then .loadErr
  else if !validatePrefer st.encs st.prefer then .loadErr
  else .ok ⟨st.encs, st.prefer, provisionMinLen st.minLen, provisionMatcher st.matcher⟩

def adaptEncode (args : List Bytes) (block : List Line) : CfRes Loaded :=
  match parseEncode args block with
  | .ok st => loadEncode st
  | .parseErr => .parseErr
  | .loadErr => .loadErr
  | .unsupported => .unsupported

/-- offered / prefer / minimum length of a loaded configuration (for kernel-evaluated examples) -/
def loadedSummary : CfRes Loaded → Option (List Bytes × List Bytes × Int)
  | .ok c => some (c.offered, c.prefer, c.minLen)
  | _ => none

def isLoadErr {σ : Type} : CfRes σ → Bool
  | .loadErr => true
  | _ => false

end CaddyModel.C15
