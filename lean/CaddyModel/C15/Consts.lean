/-
C15 — byte-string constants (generated once by a script from the Go string literals;
`Driver.lean` re-checks each against its text with `#guard`). Kept as explicit byte lists so that
`decide` can evaluate the model in the kernel.
-/
import CaddyModel.Util.Hex

namespace CaddyModel.C15

/-- `Content-Encoding` -/
def kCE : Bytes := [67, 111, 110, 116, 101, 110, 116, 45, 69, 110, 99, 111, 100, 105, 110, 103]
/-- `Content-Length` -/
def kCL : Bytes := [67, 111, 110, 116, 101, 110, 116, 45, 76, 101, 110, 103, 116, 104]
/-- `Content-Type` -/
def kCT : Bytes := [67, 111, 110, 116, 101, 110, 116, 45, 84, 121, 112, 101]
/-- `Cache-Control` -/
def kCC : Bytes := [67, 97, 99, 104, 101, 45, 67, 111, 110, 116, 114, 111, 108]
/-- `Vary` -/
def kVary : Bytes := [86, 97, 114, 121]
/-- `Accept-Ranges` -/
def kAR : Bytes := [65, 99, 99, 101, 112, 116, 45, 82, 97, 110, 103, 101, 115]
/-- `Etag` -/
def kEtag : Bytes := [69, 116, 97, 103]
/-- `Accept-Encoding` -/
def vAE : Bytes := [65, 99, 99, 101, 112, 116, 45, 69, 110, 99, 111, 100, 105, 110, 103]
/-- `accept-encoding` -/
def vAELower : Bytes := [97, 99, 99, 101, 112, 116, 45, 101, 110, 99, 111, 100, 105, 110, 103]
/-- `no-transform` -/
def vNoTransform : Bytes := [110, 111, 45, 116, 114, 97, 110, 115, 102, 111, 114, 109]
/-- `W/` -/
def vWeakPrefix : Bytes := [87, 47]
/-- `q=` -/
def vQEq : Bytes := [113, 61]
/-- `identity` -/
def vIdentity : Bytes := [105, 100, 101, 110, 116, 105, 116, 121]
/-- `gzip` -/
def vGzip : Bytes := [103, 122, 105, 112]
/-- `zstd` -/
def vZstd : Bytes := [122, 115, 116, 100]
/-- `vprobe` -/
def vProbe : Bytes := [118, 112, 114, 111, 98, 101]
/-- `0123456789.+-_abcdefinptxy` -/
def floatAlphabet : Bytes := [48, 49, 50, 51, 52, 53, 54, 55, 56, 57, 46, 43, 45, 95, 97, 98, 99, 100, 101, 102, 105, 110, 112, 116, 120, 121]

/-- the default response matcher of `Encode.Provision` (encode.go:87-126): Content-Type patterns -/
def defaultCtPats : List Bytes := [
  [97, 112, 112, 108, 105, 99, 97, 116, 105, 111, 110, 47, 97, 116, 111, 109, 43, 120, 109, 108, 42],  -- application/atom+xml*
  [97, 112, 112, 108, 105, 99, 97, 116, 105, 111, 110, 47, 101, 111, 116, 42],  -- application/eot*
  [97, 112, 112, 108, 105, 99, 97, 116, 105, 111, 110, 47, 102, 111, 110, 116, 42],  -- application/font*
  [97, 112, 112, 108, 105, 99, 97, 116, 105, 111, 110, 47, 103, 101, 111, 43, 106, 115, 111, 110, 42],  -- application/geo+json*
  [97, 112, 112, 108, 105, 99, 97, 116, 105, 111, 110, 47, 103, 114, 97, 112, 104, 113, 108, 43, 106, 115, 111, 110, 42],  -- application/graphql+json*
  [97, 112, 112, 108, 105, 99, 97, 116, 105, 111, 110, 47, 106, 97, 118, 97, 115, 99, 114, 105, 112, 116, 42],  -- application/javascript*
  [97, 112, 112, 108, 105, 99, 97, 116, 105, 111, 110, 47, 106, 115, 111, 110, 42],  -- application/json*
  [97, 112, 112, 108, 105, 99, 97, 116, 105, 111, 110, 47, 108, 100, 43, 106, 115, 111, 110, 42],  -- application/ld+json*
  [97, 112, 112, 108, 105, 99, 97, 116, 105, 111, 110, 47, 109, 97, 110, 105, 102, 101, 115, 116, 43, 106, 115, 111, 110, 42],  -- application/manifest+json*
  [97, 112, 112, 108, 105, 99, 97, 116, 105, 111, 110, 47, 111, 112, 101, 110, 116, 121, 112, 101, 42],  -- application/opentype*
  [97, 112, 112, 108, 105, 99, 97, 116, 105, 111, 110, 47, 111, 116, 102, 42],  -- application/otf*
  [97, 112, 112, 108, 105, 99, 97, 116, 105, 111, 110, 47, 114, 115, 115, 43, 120, 109, 108, 42],  -- application/rss+xml*
  [97, 112, 112, 108, 105, 99, 97, 116, 105, 111, 110, 47, 116, 114, 117, 101, 116, 121, 112, 101, 42],  -- application/truetype*
  [97, 112, 112, 108, 105, 99, 97, 116, 105, 111, 110, 47, 116, 116, 102, 42],  -- application/ttf*
  [97, 112, 112, 108, 105, 99, 97, 116, 105, 111, 110, 47, 118, 110, 100, 46, 97, 112, 105, 43, 106, 115, 111, 110, 42],  -- application/vnd.api+json*
  [97, 112, 112, 108, 105, 99, 97, 116, 105, 111, 110, 47, 118, 110, 100, 46, 109, 115, 45, 102, 111, 110, 116, 111, 98, 106, 101, 99, 116, 42],  -- application/vnd.ms-fontobject*
  [97, 112, 112, 108, 105, 99, 97, 116, 105, 111, 110, 47, 119, 97, 115, 109, 42],  -- application/wasm*
  [97, 112, 112, 108, 105, 99, 97, 116, 105, 111, 110, 47, 120, 45, 104, 116, 116, 112, 100, 45, 99, 103, 105, 42],  -- application/x-httpd-cgi*
  [97, 112, 112, 108, 105, 99, 97, 116, 105, 111, 110, 47, 120, 45, 106, 97, 118, 97, 115, 99, 114, 105, 112, 116, 42],  -- application/x-javascript*
  [97, 112, 112, 108, 105, 99, 97, 116, 105, 111, 110, 47, 120, 45, 111, 112, 101, 110, 116, 121, 112, 101, 42],  -- application/x-opentype*
  [97, 112, 112, 108, 105, 99, 97, 116, 105, 111, 110, 47, 120, 45, 111, 116, 102, 42],  -- application/x-otf*
  [97, 112, 112, 108, 105, 99, 97, 116, 105, 111, 110, 47, 120, 45, 112, 101, 114, 108, 42],  -- application/x-perl*
  [97, 112, 112, 108, 105, 99, 97, 116, 105, 111, 110, 47, 120, 45, 112, 114, 111, 116, 111, 98, 117, 102, 42],  -- application/x-protobuf*
  [97, 112, 112, 108, 105, 99, 97, 116, 105, 111, 110, 47, 120, 45, 116, 116, 102, 42],  -- application/x-ttf*
  [97, 112, 112, 108, 105, 99, 97, 116, 105, 111, 110, 47, 120, 104, 116, 109, 108, 43, 120, 109, 108, 42],  -- application/xhtml+xml*
  [97, 112, 112, 108, 105, 99, 97, 116, 105, 111, 110, 47, 120, 109, 108, 42],  -- application/xml*
  [102, 111, 110, 116, 47, 116, 116, 102, 42],  -- font/ttf*
  [102, 111, 110, 116, 47, 111, 116, 102, 42],  -- font/otf*
  [105, 109, 97, 103, 101, 47, 115, 118, 103, 43, 120, 109, 108, 42],  -- image/svg+xml*
  [105, 109, 97, 103, 101, 47, 118, 110, 100, 46, 109, 105, 99, 114, 111, 115, 111, 102, 116, 46, 105, 99, 111, 110, 42],  -- image/vnd.microsoft.icon*
  [105, 109, 97, 103, 101, 47, 120, 45, 105, 99, 111, 110, 42],  -- image/x-icon*
  [109, 117, 108, 116, 105, 112, 97, 114, 116, 47, 98, 97, 103, 42],  -- multipart/bag*
  [109, 117, 108, 116, 105, 112, 97, 114, 116, 47, 109, 105, 120, 101, 100, 42],  -- multipart/mixed*
  [116, 101, 120, 116, 47, 42]  -- text/*
]

/-- the same constants as text, for the `#guard`s in Driver.lean -/
def constTexts : List (Bytes × String) := [
  (kCE, "Content-Encoding"),
  (kCL, "Content-Length"),
  (kCT, "Content-Type"),
  (kCC, "Cache-Control"),
  (kVary, "Vary"),
  (kAR, "Accept-Ranges"),
  (kEtag, "Etag"),
  (vAE, "Accept-Encoding"),
  (vAELower, "accept-encoding"),
  (vNoTransform, "no-transform"),
  (vWeakPrefix, "W/"),
  (vQEq, "q="),
  (vIdentity, "identity"),
  (vGzip, "gzip"),
  (vZstd, "zstd"),
  (vProbe, "vprobe"),
  (floatAlphabet, "0123456789.+-_abcdefinptxy")
]
def defaultCtPatTexts : List String := ["application/atom+xml*", "application/eot*", "application/font*", "application/geo+json*", "application/graphql+json*", "application/javascript*", "application/json*", "application/ld+json*", "application/manifest+json*", "application/opentype*", "application/otf*", "application/rss+xml*", "application/truetype*", "application/ttf*", "application/vnd.api+json*", "application/vnd.ms-fontobject*", "application/wasm*", "application/x-httpd-cgi*", "application/x-javascript*", "application/x-opentype*", "application/x-otf*", "application/x-perl*", "application/x-protobuf*", "application/x-ttf*", "application/xhtml+xml*", "application/xml*", "font/ttf*", "font/otf*", "image/svg+xml*", "image/vnd.microsoft.icon*", "image/x-icon*", "multipart/bag*", "multipart/mixed*", "text/*"]

end CaddyModel.C15
