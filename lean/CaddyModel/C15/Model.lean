/-
C15 — model of modules/caddyhttp/encode/encode.go, transliterated function by function:

* `acceptedEncodings`      = `AcceptedEncodings`   (encode.go:472-537) — q-values are exact integers in
                             thousandths; `sort.Slice` is Go's insertion sort (what pdqsort runs for ≤ 12 elements)
* `chooseEncoding`/`rewriteINM` = `ServeHTTP`      (encode.go:153-180)
* `rwWriteHeader`, `rwWrite`, `rwFlush`, `rwReadFrom`, `rwClose`, `rwInit`
                           = the `responseWriter` methods (encode.go:239-451)
* the wrapped `http.ResponseWriter` is a recording writer with net/http's header discipline
  (`dsWriteHeader`, `dsWrite`, `dsFlush`): 1xx headers are sent at once and do not freeze the header map,
  the first other `WriteHeader` (or the first body byte / flush: implicit 200) snapshots it.
* the encoder (gzip / zstd) is ABSTRACT: bytes handed to it are logged as `Ev.e`, `Flush`/`Close` as
  `Ev.ef`/`Ev.ec`; the single assumption about the codecs (decode ∘ encode = id) lives in `Spec.clientBody`.
* payloads are an abstract type `α` with a size (`Cfg.size`) — `Bytes` in the theorems, a length in the driver;
  `http.DetectContentType` is the parameter `Cfg.detect`; the response matcher is the parameter `Cfg.matcher`
  (`Matcher.matches` is the concrete `caddyhttp.ResponseMatcher` family used by the driver).
Quirks are kept: only the first `;`-parameter of an Accept-Encoding element is read, `*` is not a wildcard, only
a single-valued `If-None-Match` is un-suffixed, a 1xx status without a final WriteHeader is forwarded twice.
(The `ReadFrom` of before commit 954786b — which lost the deferred status when `minimum_length < 0` — is kept
as `rwReadFromOld` in Witness.lean.)
-/
import CaddyModel.C15.Consts

namespace CaddyModel.C15

/-! ## Go `strings` on ASCII byte strings -/

/-- `unicode.IsSpace` restricted to ASCII (the protocol only carries bytes < 0x80) -/
def isSpace (b : UInt8) : Bool := b == 32 || (9 ≤ b && b ≤ 13)

def trimLeft : Bytes → Bytes
  | [] => []
  | b :: bs => if isSpace b then trimLeft bs else b :: bs

/-- `strings.TrimSpace` -/
def trimSpace (s : Bytes) : Bytes := (trimLeft (trimLeft s).reverse).reverse

def lowerByte (b : UInt8) : UInt8 := if 65 ≤ b && b ≤ 90 then b + 32 else b

/-- `strings.ToLower` -/
def toLower (s : Bytes) : Bytes := s.map lowerByte

/-- `strings.Split(s, sep)` for a one-byte separator (always at least one element) -/
def splitOn (sep : UInt8) : Bytes → List Bytes
  | [] => [[]]
  | b :: bs =>
    if b = sep then [] :: splitOn sep bs
    else match splitOn sep bs with
      | [] => [[b]]
      | x :: xs => (b :: x) :: xs

/-- `strings.HasPrefix(s, p)` -/
def hasPrefix (p s : Bytes) : Bool := p.isPrefixOf s
/-- `strings.HasSuffix(s, p)` -/
def hasSuffix (p s : Bytes) : Bool := p.isSuffixOf s
/-- `strings.Contains(s, sub)` -/
def containsSub (sub : Bytes) : Bytes → Bool
  | [] => sub.isEmpty
  | b :: bs => sub.isPrefixOf (b :: bs) || containsSub sub bs

/-- `strings.TrimSuffix(s, suf)` -/
def trimSuffix (suf s : Bytes) : Bytes := if hasSuffix suf s then s.take (s.length - suf.length) else s

def isDigit (b : UInt8) : Bool := 48 ≤ b && b ≤ 57

/-- value of a non-empty all-digit string -/
def digitsVal : Bytes → Nat → Option Nat
  | [], acc => some acc
  | b :: bs, acc => if isDigit b then digitsVal bs (acc * 10 + (b.toNat - 48)) else none

def natOfDigits (s : Bytes) : Option Nat := if s.isEmpty then none else digitsVal s 0

/-- `strconv.Atoi` on a 64-bit platform: optional sign, decimal digits, range error outside int64 -/
def atoi (s : Bytes) : Option Int :=
  match s with
  | 43 :: r => match natOfDigits r with
    | some n => if n ≤ 9223372036854775807 then some (Int.ofNat n) else none
    | none => none
  | 45 :: r => match natOfDigits r with
    | some n => if n ≤ 9223372036854775808 then some (-(Int.ofNat n)) else none
    | none => none
  | _ => match natOfDigits s with
    | some n => if n ≤ 9223372036854775807 then some (Int.ofNat n) else none
    | none => none

/-! ## `http.Header` (keys are canonical already; `Get`/`Set`/`Add`/`Del`/`Values`) -/

abbrev Hdr := List (Bytes × List Bytes)

def hValues : Hdr → Bytes → List Bytes
  | [], _ => []
  | (k', vs) :: t, k => if k' = k then vs else hValues t k

/-- `Header.Get`: first value, `""` when absent -/
def hGet (h : Hdr) (k : Bytes) : Bytes :=
  match hValues h k with
  | [] => []
  | v :: _ => v

def hDel (h : Hdr) (k : Bytes) : Hdr := h.filter (fun e => !(e.1 == k))
def hSet (h : Hdr) (k v : Bytes) : Hdr := (k, [v]) :: hDel h k
def hAdd (h : Hdr) (k v : Bytes) : Hdr := (k, hValues h k ++ [v]) :: hDel h k

/-- `isEncodeAllowed` on the string `h.Get("Cache-Control")` (encode.go:149-151) -/
def transformAllowed (cacheControl : Bytes) : Bool := !containsSub vNoTransform cacheControl

def isEncodeAllowed (h : Hdr) : Bool := transformAllowed (hGet h kCC)

/-- one `Vary` value lists `Accept-Encoding` (`strings.EqualFold` after `TrimSpace`) -/
def varyValueHas (v : Bytes) : Bool := (splitOn 44 v).any (fun x => toLower (trimSpace x) == vAELower)

/-- `hasVaryValue(hdr, "Accept-Encoding")` (encode.go:453-463) -/
def hasVary (h : Hdr) : Bool := (hValues h kVary).any varyValueHas

/-! ## `AcceptedEncodings` (encode.go:472-537) -/

/-- outcome of `strconv.ParseFloat(s, 32)` as far as the code looks at it -/
inductive QRes where
  | val (thousandths : Nat)   -- a decimal with ≤ 3 fractional digits (value ≥ 1 is reported as ≥ 1000)
  | err                       -- syntax error: the default q = 1 stays
  | unsupported               -- may parse (exponents, hex floats, inf/nan, > 3 decimals, `_`): outside the model
deriving DecidableEq, Repr

/-- `ddd` → thousandths for up to three fractional digits -/
def fracThousandths : Bytes → Option Nat
  | [] => some 0
  | [a] => if isDigit a then some ((a.toNat - 48) * 100) else none
  | [a, b] => if isDigit a && isDigit b then some ((a.toNat - 48) * 100 + (b.toNat - 48) * 10) else none
  | [a, b, c] => if isDigit a && isDigit b && isDigit c then
      some ((a.toNat - 48) * 100 + (b.toNat - 48) * 10 + (c.toNat - 48)) else none
  | _ => none

/-- unsigned decimal `int[.frac]` / `.frac` → thousandths -/
def decimalThousandths (s : Bytes) : Option Nat :=
  match splitOn 46 s with
  | [i] => (natOfDigits i).map (· * 1000)
  | [i, f] =>
    if i.isEmpty && f.isEmpty then none
    else match (if i.isEmpty then some 0 else natOfDigits i), fracThousandths f with
      | some iv, some fv => some (iv * 1000 + fv)
      | _, _ => none
  | _ => none

/-- the part after `q=`: the decimal grammar is evaluated exactly; a byte that no Go float literal can
    contain is a certain syntax error; everything else is outside the model -/
def parseQ (s : Bytes) : QRes :=
  if s.isEmpty then .err
  else match (match s with
      | 43 :: r => (decimalThousandths r).map (fun v => (true, v))
      | 45 :: r => (decimalThousandths r).map (fun v => (false, v))
      | _ => (decimalThousandths s).map (fun v => (true, v))) with
    | some (true, v) => .val v
    | some (false, v) => if v = 0 then .val 0 else .err   -- negative: `qFactorFloat >= 0` fails, q stays 1
    | none => if s.all (fun b => floatAlphabet.contains b) then .unsupported else .err

/-- the q-factor (thousandths) the code ends up with for the parameter string `parts[1]` -/
def qOfParam (param : Bytes) : Nat :=
  if hasPrefix vQEq (toLower (trimSpace param)) then
    match parseQ ((toLower (trimSpace param)).drop 2) with
    | .val v => if v ≤ 1000 then v else 1000
    | .err => 1000
    | .unsupported => 1000
  else 1000

def paramSupported (param : Bytes) : Bool :=
  if hasPrefix vQEq (toLower (trimSpace param)) then
    parseQ ((toLower (trimSpace param)).drop 2) != .unsupported
  else true

/-- name and q-factor of one comma-separated element -/
def elemName (elem : Bytes) : Bytes :=
  match splitOn 59 elem with
  | [] => []
  | p0 :: _ => toLower (trimSpace p0)

def elemQ (elem : Bytes) : Nat :=
  match splitOn 59 elem with
  | _ :: p1 :: _ => qOfParam p1
  | _ => 1000

def elemSupported (elem : Bytes) : Bool :=
  match splitOn 59 elem with
  | _ :: p1 :: _ => paramSupported p1
  | _ => true

structure Pref where
  name : Bytes
  q : Nat          -- thousandths
  order : Int      -- preferOrder
deriving DecidableEq, Repr

/-- `slices.Index` -/
def indexOf (x : Bytes) : List Bytes → Option Nat
  | [] => none
  | y :: ys => if y = x then some 0 else (indexOf x ys).map (· + 1)

def preferOrder (prefer : List Bytes) (name : Bytes) : Int :=
  match indexOf name prefer with
  | some i => Int.ofNat (prefer.length - i)
  | none => -1

/-- one loop iteration: `none` = `continue` (q below the threshold, or a WebSocket handshake) -/
def elemPref (prefer : List Bytes) (ws : Bool) (elem : Bytes) : Option Pref :=
  if elemQ elem = 0 then none
  else if ws && elemName elem != vIdentity then none
  else some ⟨elemName elem, elemQ elem, preferOrder prefer (elemName elem)⟩

/-- the comparator handed to `sort.Slice` (|Δq| < 0.00001 ⇔ equal thousandths) -/
def prefLess (a b : Pref) : Bool := if a.q = b.q then a.order > b.order else a.q > b.q

/-- inner loop of `insertionSort`: `x` bubbles left past every element it is `less` than;
    the sorted prefix is kept reversed -/
def insertRev (x : Pref) : List Pref → List Pref
  | [] => [x]
  | y :: ys => if prefLess x y then y :: insertRev x ys else x :: y :: ys

/-- `sort.Slice` for ≤ 12 elements (pdqsort's insertion-sort cut-off) -/
def goSort (l : List Pref) : List Pref := (l.foldl (fun acc x => insertRev x acc) []).reverse

def acceptedPrefs (ae : Bytes) (ws : Bool) (prefer : List Bytes) : List Pref :=
  (splitOn 44 ae).filterMap (elemPref prefer ws)

def acceptedEncodings (ae : Bytes) (ws : Bool) (prefer : List Bytes) : List Bytes :=
  if ae.isEmpty then [] else (goSort (acceptedPrefs ae ws prefer)).map (·.name)

/-- the model is claimed faithful only here: every q-string is in the decimal grammar or certainly
    malformed, and `sort.Slice` still runs its stable insertion sort -/
def aeSupported (ae : Bytes) : Bool :=
  (splitOn 44 ae).all elemSupported && (splitOn 44 ae).length ≤ 12

/-! ## `ServeHTTP` (encode.go:153-180) -/

structure Req where
  isConnect : Bool
  acceptEnc : Bytes      -- `r.Header.Get("Accept-Encoding")`
  wsKey : Bool           -- `Sec-WebSocket-Key` present and non-empty
  cacheControl : Bytes   -- request `Cache-Control`
  ifNoneMatch : Bytes
deriving Repr

/-- first accepted encoding that has a writer pool; `none` = the response writer is not wrapped -/
def chooseEncoding (offered prefer : List Bytes) (req : Req) : Option Bytes :=
  if transformAllowed req.cacheControl then
    (acceptedEncodings req.acceptEnc req.wsKey prefer).find? (fun n => offered.contains n)
  else none

/-- `"-" + encName + "\""` -/
def etagSuffix (name : Bytes) : Bytes := 45 :: (name ++ [34])

/-- the `If-None-Match` value the next handler sees when `name` was chosen -/
def rewriteINM (name inm : Bytes) : Bytes :=
  if !inm.isEmpty && !hasPrefix vWeakPrefix inm && hasSuffix (etagSuffix name) inm then
    trimSuffix (etagSuffix name) inm ++ [34]
  else inm

/-- ETag adjustment of `init` -/
def adjustEtag (name etag : Bytes) : Bytes := trimSuffix [34] etag ++ etagSuffix name

/-! ## the response writer -/

/-- what the wrapped `http.ResponseWriter` (and, through it, the client) is handed, newest first -/
inductive Ev (α : Type) where
  | wh (status : Nat) (snap : Hdr)  -- `WriteHeader(status)`; `snap` = the header map at that instant
  | w (c : α)                       -- plain body bytes (`Write` / `ReadFrom`)
  | e (c : α)                       -- bytes handed to the encoder (`rw.w.Write`)
  | ef                              -- `rw.w.Flush()`
  | ec                              -- `rw.w.Close()`
  | fl                              -- `Flush()` of the wrapped writer
deriving DecidableEq, Repr

structure Cfg (α : Type) where
  minLen : Int                      -- after Provision (0 has become 512)
  matcher : Nat → Hdr → Bool        -- `enc.Matcher.Match(status, header)`
  size : α → Nat                    -- `len(p)`
  detect : α → Bytes                -- `http.DetectContentType(p)`

/-- `Provision`: `MinLength == 0` means the default -/
def defaultMinLength : Nat := 512

def provisionMinLen (configured : Int) : Int := if configured = 0 then Int.ofNat defaultMinLength else configured

structure St (α : Type) where
  encName : Bytes
  encOpen : Bool                    -- `rw.w != nil`
  statusCode : Nat
  wroteHeader : Bool
  isConnect : Bool
  hdr : Hdr                         -- the live header map `rw.Header()`
  sent : Option (Nat × Hdr)         -- status and header snapshot of the final response, once fixed
  log : List (Ev α)                 -- newest first
  unreal : Bool                     -- a `ReadFrom` chunk did not fit the buffer the code passed to `Read`

def St.init {α : Type} (name : Bytes) (isConnect : Bool) : St α :=
  ⟨name, false, 0, false, isConnect, [], none, [], false⟩

def is1xx (s : Nat) : Bool := 100 ≤ s && s ≤ 199

/-- net/http (server.go `WriteHeader`): 1xx other than 101 Switching Protocols is sent as an informational
    response and does not fix the final header -/
def isInformational (s : Nat) : Bool := is1xx s && s != 101

section
variable {α : Type}

/-! ### the wrapped writer -/

def fixSent (status : Nat) (h : Hdr) : Option (Nat × Hdr) → Option (Nat × Hdr)
  | none => some (status, h)
  | some x => some x

def dsWriteHeader (st : St α) (s : Nat) : St α :=
  { st with log := .wh s st.hdr :: st.log,
            sent := if isInformational s then st.sent else fixSent s st.hdr st.sent }

/-- net/http sends `200` with the current header map when a body byte or a flush arrives first -/
def implicitHeader (st : St α) : St α := { st with sent := fixSent 200 st.hdr st.sent }

def dsWrite (st : St α) (c : α) : St α := { implicitHeader st with log := .w c :: st.log }
def dsFlush (st : St α) : St α := { implicitHeader st with log := .fl :: st.log }
def encWrite (st : St α) (c : α) : St α := { implicitHeader st with log := .e c :: st.log }
def encFlush (st : St α) : St α := { implicitHeader st with log := .ef :: st.log }
def encClose (st : St α) : St α := { implicitHeader st with log := .ec :: st.log, encOpen := false }

/-! ### `WriteHeader` (encode.go:239-263) -/

def vary304 (status : Nat) (st : St α) : St α :=
  if status == 304 && !hasVary st.hdr then { st with hdr := hAdd st.hdr kVary vAE } else st

def connectImmediate (status : Nat) (st : St α) : St α :=
  if st.isConnect && (200 ≤ status && status ≤ 299) then { dsWriteHeader st status with wroteHeader := true } else st

def informational (status : Nat) (st : St α) : St α :=
  if is1xx status then dsWriteHeader st status else st

def rwWriteHeader (st : St α) (status : Nat) : St α :=
  informational status (connectImmediate status (vary304 status { st with statusCode := status }))

/-- "WriteHeader wasn't called and is a CONNECT request, treat it as a success" -/
def connectDefault (st : St α) : St α :=
  if st.isConnect && !st.wroteHeader && st.statusCode == 0 then rwWriteHeader st 200 else st

/-! ### `init` (encode.go:426-451) -/

def etagStep (name : Bytes) (h : Hdr) : Hdr :=
  if !(hGet h kEtag).isEmpty && !hasPrefix vWeakPrefix (hGet h kEtag) then
    hSet h kEtag (adjustEtag name (hGet h kEtag))
  else h

def varyStep (h : Hdr) : Hdr := if hasVary h then h else hAdd h kVary vAE

/-- the header edits of `init`, in the order of the code -/
def initHdr (name : Bytes) (h : Hdr) : Hdr :=
  etagStep name (hDel (varyStep (hSet (hDel h kCL) kCE name)) kAR)

/-- the same edits as data: which `http.Header` method `init` calls on which field, in source order
    (tied to the source by `Props.init_edits_match_source`) -/
inductive InitEdit where
  | del (k : Bytes)        -- `hdr.Del(k)`
  | setCoding (k : Bytes)  -- `hdr.Set(k, rw.encodingName)`
  | addVary (k : Bytes)    -- `if !hasVaryValue(…) { hdr.Add(k, "Accept-Encoding") }`
  | setEtag (k : Bytes)    -- `if etag != "" && !weak { hdr.Set(k, adjusted) }`
deriving DecidableEq, Repr

def initEdits : List InitEdit := [.del kCL, .setCoding kCE, .addVary kVary, .del kAR, .setEtag kEtag]

def applyInitEdit (name : Bytes) (h : Hdr) : InitEdit → Hdr
  | .del k => hDel h k
  | .setCoding k => hSet h k name
  | .addVary k => if (hValues h k).any varyValueHas then h else hAdd h k vAE
  | .setEtag k =>
    if !(hGet h k).isEmpty && !hasPrefix vWeakPrefix (hGet h k) then hSet h k (adjustEtag name (hGet h k)) else h

/-- `Del` / `Set` / `Add` + field, as the extractor prints a call -/
def InitEdit.describe : InitEdit → Bytes
  | .del k => [68, 101, 108, 32] ++ k
  | .setCoding k => [83, 101, 116, 32] ++ k
  | .addVary k => [65, 100, 100, 32] ++ k
  | .setEtag k => [83, 101, 116, 32] ++ k

def initOk (cfg : Cfg α) (st : St α) : Bool :=
  (hGet st.hdr kCE).isEmpty && isEncodeAllowed st.hdr && cfg.matcher st.statusCode st.hdr

def rwInit (cfg : Cfg α) (st : St α) : St α :=
  if initOk cfg st then { st with encOpen := true, hdr := initHdr st.encName st.hdr } else st

/-! ### `Write` (encode.go:301-348) -/

def clGtMin (cfg : Cfg α) (h : Hdr) : Bool :=
  match atoi (hGet h kCL) with
  | some cl => decide (cl > cfg.minLen)
  | none => false

def gtMinLength (cfg : Cfg α) (st : St α) (p : α) : Bool :=
  decide ((Int.ofNat (cfg.size p)) > cfg.minLen) || clGtMin cfg st.hdr

def sniffType (cfg : Cfg α) (st : St α) (p : α) : St α :=
  if (hGet st.hdr kCT).isEmpty then { st with hdr := hSet st.hdr kCT (cfg.detect p) } else st

def decide1 (cfg : Cfg α) (st : St α) (p : α) : St α :=
  if !st.wroteHeader && decide (cfg.minLen > 0) then
    if gtMinLength cfg st p then rwInit cfg (sniffType cfg st p) else st
  else st

/-- "make sure the header is written exactly once" -/
def commitHeader (st : St α) : St α :=
  if !st.wroteHeader then
    { (if st.statusCode != 0 then dsWriteHeader st st.statusCode else st) with wroteHeader := true }
  else st

def emit (st : St α) (p : α) : St α := if st.encOpen then encWrite st p else dsWrite st p

def rwWrite (cfg : Cfg α) (st : St α) (p : α) : St α :=
  if cfg.size p == 0 then st
  else emit (commitHeader (decide1 cfg (connectDefault st) p)) p

/-! ### `FlushError` (encode.go:272-296) -/

def flushThrough (st : St α) : St α := dsFlush (if st.encOpen then encFlush st else st)

def rwFlush (st : St α) : St α :=
  if !(connectDefault st).wroteHeader then connectDefault st else flushThrough (connectDefault st)

/-! ### `ReadFrom` (encode.go:362-391); `rw.ResponseWriter` is always a `*ResponseWriterWrapper`,
    hence always an `io.ReaderFrom` — the `!ok` branch is dead -/

/-- `const sniffLen = 512` (encode.go, "copied from stdlib") -/
def sniffLen : Nat := 512

/-- `io.CopyBuffer(writerOnly{rw}, io.LimitReader(r, sniffLen), buf)`: `n` = bytes the limit still allows;
    returns the state, the unread chunks and the remaining allowance -/
def sniffLoop (cfg : Cfg α) : List α → Nat → St α → St α × List α × Nat
  | [], n, st => (st, [], n)
  | c :: cs, n, st =>
    if n = 0 then (st, c :: cs, 0)
    else sniffLoop cfg cs (n - cfg.size c)
      { rwWrite cfg st c with unreal := st.unreal || decide (cfg.size c > n) }

/-- the rest goes to the encoder (`io.Copy(rw.w, r)`) or straight down (`rf.ReadFrom(r)`); before the reader
    is handed to the wrapped writer the header is committed if nothing above did it (encode.go:389-397,
    commit 954786b: no sniffing happened because `minimum_length` is negative) -/
def copyRest (st : St α) (chunks : List α) : St α :=
  if st.encOpen then chunks.foldl encWrite st else chunks.foldl dsWrite (commitHeader st)

def afterSniff (res : St α × List α × Nat) : St α :=
  if res.2.2 = 0 then copyRest res.1 res.2.1 else res.1

def nonEmpty (cfg : Cfg α) (chunks : List α) : List α := chunks.filter (fun c => cfg.size c != 0)

def rwReadFrom (cfg : Cfg α) (st : St α) (chunks : List α) : St α :=
  if !st.wroteHeader && decide (cfg.minLen > 0) then afterSniff (sniffLoop cfg (nonEmpty cfg chunks) sniffLen st)
  else copyRest st (nonEmpty cfg chunks)

/-! ### `Close` (encode.go:395-418) -/

def closeHeader (cfg : Cfg α) (st : St α) : St α :=
  if !st.wroteHeader then commitHeader (if clGtMin cfg st.hdr then rwInit cfg st else st) else st

def rwClose (cfg : Cfg α) (st : St α) : St α :=
  if (closeHeader cfg st).encOpen then encClose (closeHeader cfg st) else closeHeader cfg st

/-! ## the next handler: a script of calls on the writer it was given -/

inductive Op (α : Type) where
  | writeHeader (status : Nat)
  | write (p : α)
  | flush
  | readFrom (chunks : List α)     -- what the successive `Read` calls return
  | hset (k v : Bytes)
  | hadd (k v : Bytes)
  | hdel (k : Bytes)
deriving DecidableEq, Repr

/-- one call on the encode `responseWriter` -/
def step (cfg : Cfg α) (st : St α) : Op α → St α
  | .writeHeader s => rwWriteHeader st s
  | .write p => rwWrite cfg st p
  | .flush => rwFlush st
  | .readFrom cs => rwReadFrom cfg st cs
  | .hset k v => { st with hdr := hSet st.hdr k v }
  | .hadd k v => { st with hdr := hAdd st.hdr k v }
  | .hdel k => { st with hdr := hDel st.hdr k }

/-- the same call on the wrapped writer itself (no encoding was negotiated) -/
def plainStep (cfg : Cfg α) (st : St α) : Op α → St α
  | .writeHeader s => dsWriteHeader st s
  | .write p => if cfg.size p == 0 then implicitHeader st else dsWrite st p
  | .flush => dsFlush st
  | .readFrom cs => (nonEmpty cfg cs).foldl dsWrite st
  | .hset k v => { st with hdr := hSet st.hdr k v }
  | .hadd k v => { st with hdr := hAdd st.hdr k v }
  | .hdel k => { st with hdr := hDel st.hdr k }

def run (cfg : Cfg α) (st : St α) (ops : List (Op α)) : St α := ops.foldl (step cfg) st

/-- handler runs, then the deferred `Close` -/
def runWrapped (cfg : Cfg α) (name : Bytes) (isConnect : Bool) (ops : List (Op α)) : St α :=
  rwClose cfg (run cfg (St.init name isConnect) ops)

def runPlain (cfg : Cfg α) (isConnect : Bool) (ops : List (Op α)) : St α :=
  ops.foldl (plainStep cfg) (St.init [] isConnect)

structure Result (α : Type) where
  sel : Option Bytes       -- negotiated encoding
  inm : Bytes              -- `If-None-Match` as seen by the next handler
  final : St α

/-- `Encode.ServeHTTP` in front of the scripted handler -/
def serve (cfg : Cfg α) (offered prefer : List Bytes) (req : Req) (ops : List (Op α)) : Result α :=
  match chooseEncoding offered prefer req with
  | some name => ⟨some name, rewriteINM name req.ifNoneMatch, runWrapped cfg name req.isConnect ops⟩
  | none => ⟨none, req.ifNoneMatch, runPlain cfg req.isConnect ops⟩

end

/-! ## the `caddyhttp.ResponseMatcher` family used by the driver -/

/-- one allowed value of `matchHeaders` (matchers.go:1043-1054) -/
def patMatch (allowed actual : Bytes) : Bool :=
  if allowed = [42] then true
  else if hasPrefix [42] allowed && hasSuffix [42] allowed then containsSub ((allowed.drop 1).dropLast) actual
  else if hasPrefix [42] allowed then hasSuffix (allowed.drop 1) actual
  else if hasSuffix [42] allowed then hasPrefix allowed.dropLast actual
  else allowed = actual

/-- `caddyhttp.StatusCodeMatches` -/
def statusCodeMatches (actual : Nat) (configured : Int) : Bool :=
  Int.ofNat actual = configured ||
    (configured < 100 && Int.ofNat actual ≥ configured * 100 && Int.ofNat actual < (configured + 1) * 100)

/-- `textproto.CanonicalMIMEHeaderKey` on a field name made of letters, digits and `-` -/
def canonKeyAux : Bytes → Bool → Bytes
  | [], _ => []
  | c :: cs, upper =>
    (if upper then (if 97 ≤ c && c ≤ 122 then c - 32 else c) else lowerByte c) :: canonKeyAux cs (c == 45)

/-- `validHeaderFieldByte` (net/textproto): the token characters -/
def headerFieldByte (b : UInt8) : Bool :=
  (48 ≤ b && b ≤ 57) || (65 ≤ b && b ≤ 90) || (97 ≤ b && b ≤ 122) ||
  b == 33 || b == 35 || b == 36 || b == 37 || b == 38 || b == 39 || b == 42 || b == 43 || b == 45 || b == 46 ||
  b == 94 || b == 95 || b == 96 || b == 124 || b == 126

/-- a name with a byte outside the token characters is returned unchanged -/
def canonKey (k : Bytes) : Bytes := if k.all headerFieldByte then canonKeyAux k true else k

structure Matcher where
  codes : Option (List Int)                      -- `StatusCode` (`none` = nil: any status)
  headers : List (Bytes × Option (List Bytes))   -- `Headers`: raw map key ↦ allowed values (`none` = nil: must be absent)

/-- one entry of `matchHeaders` (matchers.go:1024-1065): nil = the field must be absent, an empty non-nil
    list = it must exist, otherwise some actual value must match some allowed value -/
def headerFieldOk (h : Hdr) (field : Bytes) (allowed : Option (List Bytes)) : Bool :=
  match allowed with
  | none => (hValues h (canonKey field)).isEmpty
  | some [] => !(hValues h (canonKey field)).isEmpty
  | some pats => (hValues h (canonKey field)).any (fun actual => pats.any (fun p => patMatch p actual))

def Matcher.matches (m : Matcher) (status : Nat) (h : Hdr) : Bool :=
  (match m.codes with
    | none => true
    | some cs => cs.any (statusCodeMatches status)) &&
  m.headers.all (fun e => headerFieldOk h e.1 e.2)

/-- `Provision`: the default response matcher (encode.go:84-127) -/
def defaultMatcher : Matcher := ⟨none, [(kCT, some defaultCtPats)]⟩

/-- `Provision`: `enc.Matcher == nil` means the default -/
def provisionMatcher : Option Matcher → Matcher
  | none => defaultMatcher
  | some m => m

/-- `Validate` (encode.go:133-147): every preferred encoding is enabled, none is listed twice -/
def validatePrefer (offered : List Bytes) : List Bytes → Bool
  | [] => true
  | p :: ps => offered.contains p && !ps.contains p && validatePrefer offered ps

end CaddyModel.C15
