/-
C15 line-protocol driver. One case = one request through `Encode.ServeHTTP` in front of a scripted handler:

  <enc> <prefer> <min> <matcher> <method> <ae> <ws> <rcc> <inm> <dct> <rf> <script>

  enc, prefer  `-` or comma-separated encoder names (gzip|zstd|vprobe); prefer ⊆ enc, no duplicates (else Validate fails)
  min          configured `minimum_length` (integer, 0 = default 512)
  matcher      `d` (default Content-Type list) | `c:<codes>:<pats>`; codes `*` (nil) | `_` (empty) | n,n,…;
               pats `*` (no header constraint) | `_` (Content-Type must exist) | hex,hex,…
               | `m:<codes>:<entries>`: any header fields; entries `*` | hexkey=(`!` absent | `_` present | hex|hex…)&…
  method       G | H | C (CONNECT)
  ae, rcc, inm, dct   `~` (absent) or hex: Accept-Encoding, request Cache-Control, If-None-Match,
               http.DetectContentType(first non-empty payload)
  ws, rf       0|1: Sec-WebSocket-Key present; wrapped writer implements io.ReaderFrom (not visible to the model)
  script       `-` or ops joined by `,`:  h<status> | w<payload> | f | r[<payload>/<payload>…] |
               s<Name>=<hex> | a<Name>=<hex> | d<Name>;   payload = x<hex> | <kind><len>.<seed> (kind ∈ t r z m j)

Answer: `sel=<name|-> inm=<hex|~> sent=<status>[hdr]|- log=<events|-> live=[hdr]`, `unsupported`
(q-value outside the modelled grammar / more than 12 elements) or `bad-op`.
-/
import CaddyModel.C15.Caddyfile
import CaddyModel.C15.Recorder
import CaddyModel.C15.Sidecar

namespace CaddyModel.C15

/-! sanity: the byte-list constants are the Go string literals -/
#guard constTexts.all (fun p => p.1 == str p.2)
#guard defaultCtPats == defaultCtPatTexts.map str
#guard cfConstTexts.all (fun p => p.1 == str p.2)
#guard canonKey (str "content-TYPE") == kCT && canonKey kCT == kCT && canonKey (str "x-a1-b") == str "X-A1-B" && canonKey (str "a/b") == str "a/b"

def asciiOk (b : Bytes) : Bool := b.all (fun c => c == 9 || (32 ≤ c && c ≤ 126))

def optHex (s : String) : Option Bytes :=
  if s == "~" then some [] else (Hex.decode s).bind (fun b => if asciiOk b then some b else none)

/-- the encoders the harness can offer -/
def nameOk (s : String) : Bool := s == "gzip" || s == "zstd" || s == "vprobe"

/-- `[0-9]{1,9}` (no signs, separators or other spellings) -/
def parseNat (s : String) : Option Nat :=
  if !s.isEmpty && s.length ≤ 9 && s.toList.all Char.isDigit then s.toNat? else none

def parseNames (s : String) : Option (List Bytes) :=
  if s == "-" then some [] else
  (s.splitOn ",").mapM (fun n => if nameOk n then some (str n) else none)

def noDups : List Bytes → Bool
  | [] => true
  | x :: xs => !xs.contains x && noDups xs

def parseInt (s : String) : Option Int :=
  match s.toList with
  | '-' :: r => (parseNat (String.ofList r)).map (fun n => -(Int.ofNat n))
  | _ => (parseNat s).map Int.ofNat

def parseMatcher (s : String) : Option Matcher :=
  if s == "d" then some defaultMatcher else
  match s.splitOn ":" with
  | ["c", codes, pats] => do
    let cs ← if codes == "*" then some none
      else if codes == "_" then some (some [])
      else (codes.splitOn ",").mapM (fun c => (parseNat c).map Int.ofNat) |>.map some
    let hs ← if pats == "*" then some []
      else if pats == "_" then some [(kCT, some [])]
      else (pats.splitOn ",").mapM (fun p => (Hex.decode p).bind (fun b => if b.isEmpty then none else some b))
        |>.map (fun ps => [(kCT, some ps)])
    pure ⟨cs, hs⟩
  | ["m", codes, entries] => do
    let cs ← if codes == "*" then some none
      else if codes == "_" then some (some [])
      else (codes.splitOn ",").mapM parseInt |>.map some
    let hs ← if entries == "*" then some []
      else (entries.splitOn "&").mapM (fun e =>
        match e.splitOn "=" with
        | [k, v] => do
          let key ← (Hex.decode k).bind (fun b => if b.isEmpty || !asciiOk b then none else some b)
          let vals ← if v == "!" then some none
            else if v == "_" then some (some [])
            else (v.splitOn "|").mapM (fun p => (Hex.decode p).bind (fun b => if b.isEmpty || !asciiOk b then none else some b))
              |>.map some
          pure (key, vals)
        | _ => none)
    if noDups (hs.map (·.1)) then pure ⟨cs, hs⟩ else none
  | _ => none

/-- header names must already be in canonical MIME form -/
def canonicalName (s : List Char) (startOfWord : Bool) : Bool :=
  match s with
  | [] => true
  | c :: cs =>
    if c == '-' then canonicalName cs true
    else if c.isDigit then canonicalName cs false
    else if 'A' ≤ c && c ≤ 'Z' then startOfWord && canonicalName cs false
    else if 'a' ≤ c && c ≤ 'z' then !startOfWord && canonicalName cs false
    else false

def parseHdrName (s : String) : Option Bytes :=
  if !s.isEmpty && canonicalName s.toList true then some (str s) else none

def kindOk (c : Char) : Bool := c == 't' || c == 'r' || c == 'z' || c == 'm' || c == 'j'

/-- a payload is represented by its length -/
def parsePayload (s : String) : Option Nat :=
  match s.toList with
  | 'x' :: r => (Hex.decode (String.ofList r)).map (·.length)
  | k :: r =>
    if kindOk k then
      match (String.ofList r).splitOn "." with
      | [len, seed] => if (parseNat seed).isSome then (parseNat len).bind (fun n => if n ≤ 8388608 then some n else none) else none
      | _ => none
    else none
  | [] => none

def parseKV (s : String) : Option (Bytes × Bytes) :=
  match s.splitOn "=" with
  | [n, v] => do
    let k ← parseHdrName n
    let b ← Hex.decode v
    if asciiOk b then pure (k, b) else none
  | _ => none

def parseOp (s : String) : Option (Op Nat) :=
  match s.toList with
  | ['f'] => some .flush
  | 'h' :: r => (parseNat (String.ofList r)).bind (fun n => if 100 ≤ n && n ≤ 999 then some (.writeHeader n) else none)
  | 'w' :: r => (parsePayload (String.ofList r)).map .write
  | ['r'] => some (.readFrom [])
  | 'r' :: r => ((String.ofList r).splitOn "/").mapM parsePayload |>.bind
      (fun cs => if cs.all (· ≤ 32768) then some (.readFrom cs) else none)
  | 's' :: r => (parseKV (String.ofList r)).map (fun kv => .hset kv.1 kv.2)
  | 'a' :: r => (parseKV (String.ofList r)).map (fun kv => .hadd kv.1 kv.2)
  | 'd' :: r => (parseHdrName (String.ofList r)).map .hdel
  | _ => none

def parseScript (s : String) : Option (List (Op Nat)) :=
  if s == "-" then some [] else (s.splitOn ",").mapM parseOp

/-! printing -/

def bytesLt : Bytes → Bytes → Bool
  | [], [] => false
  | [], _ :: _ => true
  | _ :: _, [] => false
  | a :: as, b :: bs => a < b || (a == b && bytesLt as bs)

def insertKey (x : Bytes × List Bytes) : Hdr → Hdr
  | [] => [x]
  | y :: ys => if bytesLt x.1 y.1 then x :: y :: ys else y :: insertKey x ys

def sortHdr (h : Hdr) : Hdr := h.foldl (fun acc x => insertKey x acc) []

def showHdr (h : Hdr) : String :=
  if h.isEmpty then "[.]" else
  "[" ++ ";".intercalate ((sortHdr h).map (fun kv =>
    bytesToString kv.1 ++ ":" ++ "|".intercalate (kv.2.map Hex.encode))) ++ "]"

inductive Tok where
  | data (enc : Bool) (n : Nat)
  | other (s : String)

def tokOf : Ev Nat → Tok
  | .w c => .data false c
  | .e c => .data true c
  | .wh s snap => .other ("H" ++ toString s ++ (if isInformational s then showHdr snap else ""))
  | .ef => .other "EF"
  | .ec => .other "EC"
  | .fl => .other "F"

/-- adjacent plain / encoder writes are merged (io.Copy re-chunks them) -/
def mergeToks : List Tok → List Tok
  | [] => []
  | .data e1 n1 :: rest =>
    match mergeToks rest with
    | .data e2 n2 :: r2 => if e1 == e2 then .data e1 (n1 + n2) :: r2 else .data e1 n1 :: .data e2 n2 :: r2
    | r => .data e1 n1 :: r
  | t :: rest => t :: mergeToks rest

def showTok : Tok → String
  | .data enc n => (if enc then "E" else "W") ++ toString n
  | .other s => s

/-- chronological events -/
def showEvents (evs : List (Ev Nat)) : List String := (mergeToks (evs.map tokOf)).map showTok

def showResult (r : Result Nat) : String :=
  if r.final.unreal then "bad-op" else
  "sel=" ++ (match r.sel with | some n => bytesToString n | none => "-") ++
  " inm=" ++ (if r.inm.isEmpty then "~" else Hex.encode r.inm) ++
  " sent=" ++ (match r.final.sent with | some (s, h) => toString s ++ showHdr h | none => "-") ++
  " log=" ++ (match showEvents r.final.log.reverse with | [] => "-" | l => ";".intercalate l) ++
  " live=" ++ showHdr r.final.hdr

/-! ### the `cf` op: an `encode` directive of a Caddyfile → the configuration the handler runs with

  cf <args> <block>     args = `-` | tok,tok…    block = `-` | line;line…
                        line = tok,tok…[{subline|subline…}]   (tokens: [A-Za-z0-9_.!*/+=-]+)
  answer: `cf offered=<sorted> prefer=<in order> min=<n> match=s=<*|codes>;h=<*|key:vals&…>` |
          `cf err:parse` | `cf err:load` | `unsupported` | `bad-op` -/

def cfTokOk (s : String) : Bool :=
  !s.isEmpty && s.toList.all (fun c => c.isAlphanum || c == '_' || c == '.' || c == '!' || c == '*' ||
    c == '/' || c == '+' || c == '=' || c == '-')

def parseToks (s : String) : Option (List Bytes) :=
  (s.splitOn ",").mapM (fun t => if cfTokOk t then some (str t) else none)

def parseCfLine (s : String) : Option Line :=
  match s.splitOn "{" with
  | [l] => (parseToks l).map (fun t => ⟨t, none⟩)
  | [l, rest] =>
    if !rest.endsWith "}" then none else
    let inner := (rest.dropEnd 1).toString
    match parseToks l with
    | none => none
    | some t =>
      if inner.isEmpty then some ⟨t, some []⟩
      else ((inner.splitOn "|").mapM parseToks).map (fun ls => ⟨t, some ls⟩)
  | _ => none

def namesSorted (l : List Bytes) : List Bytes := (sortHdr (l.map (fun n => (n, ([] : List Bytes))))).map (·.1)

def showNames (l : List Bytes) : String := if l.isEmpty then "-" else ",".intercalate (l.map bytesToString)

def showMatcher (m : Matcher) : String :=
  "s=" ++ (match m.codes with
    | none => "*"
    | some [] => "*"
    | some cs => ",".intercalate (cs.map toString)) ++
  ";h=" ++ (if m.headers.isEmpty then "*" else
    "&".intercalate ((sortHdr (m.headers.map (fun e => (e.1, match e.2 with | none => [[]] | some vs => vs)))).map
      (fun kv => Hex.encode kv.1 ++ ":" ++
        (if kv.2 == [[]] then "!" else if kv.2.isEmpty then "_" else "|".intercalate (kv.2.map Hex.encode)))))

def handleCf (args block : String) : String :=
  match (if args == "-" then some [] else parseToks args),
        (if block == "-" then some [] else (block.splitOn ";").mapM parseCfLine) with
  | some a, some b =>
    if !b.all lineSupported then "unsupported" else
    match adaptEncode a b with
    | .ok c => "cf offered=" ++ showNames (namesSorted c.offered) ++ " prefer=" ++ showNames c.prefer ++
        " min=" ++ toString c.minLen ++ " match=" ++ showMatcher c.matcher
    | .parseErr => "cf err:parse"
    | .loadErr => "cf err:load"
    | .unsupported => "unsupported"
  | _, _ => "bad-op"

/-! ### the `fs` op: the real file_server (with precompressed sidecars) behind the real encode handler, end to
    end — judged by the implementation-only oracle; the model only says whether the line is a case. -/

def parseGzZs (s : String) : Option (List Bytes) :=
  if s == "-" then some [] else
  ((s.splitOn ",").mapM (fun n => if n == "gzip" || n == "zstd" then some (str n) else none)).bind
    (fun l => if noDups l then some l else none)

def rangeOk (s : String) : Bool :=
  s == "-" || (match s.splitOn "-" with
    | [a, b] => !a.isEmpty && a.length ≤ 6 && a.toList.all Char.isDigit && !b.isEmpty && b.length ≤ 6 && b.toList.all Char.isDigit
    | _ => false)

def handleFs (encs prefer min pre file method ae range : String) : String :=
  match parseGzZs encs, parseGzZs prefer, parseInt min, parseGzZs pre, optHex ae with
  | some e, some p, some _, some _, some _ =>
    if p.all e.contains && (file == "a" || file == "b" || file == "s" || file == "c" || file == "d") &&
        (method == "G" || method == "H") && rangeOk range then "fs-ok" else "bad-op"
  | _, _, _, _, _ => "bad-op"

/-! ### the `px` op: the real reverse_proxy (flush timer) behind the real encode handler — goroutines and timers
    are runtime; the implementation-only oracle judges the caller contract (no two calls into the response writer
    overlap) and transparency; the model says whether the line is a case. The two-thread transition system and
    its theorems are in Proxy.lean. -/

def handlePx (coding min ae interval n1 n2 kind sched : String) : String :=
  match parseInt min, optHex ae, parseNat n1, parseNat n2 with
  | some _, some _, some a, some b =>
    if (coding == "gzip" || coding == "zstd") &&
       (interval == "-1" || (match parseNat interval with | some i => 1 ≤ i && i ≤ 1000 | none => false)) &&
       1 ≤ a && a ≤ 1048576 && 1 ≤ b && b ≤ 1048576 &&
       (kind == "t" || kind == "r" || kind == "z" || kind == "m" || kind == "j") &&
       (sched == "s" || sched == "n") then "px-ok" else "bad-op"
  | _, _, _, _ => "bad-op"

/-! ### the `rr` op: `rr <mode> <the 12 fields of an ordinary case>` — the scripted handler runs behind a real
    `caddyhttp.NewResponseRecorder` (mode 0 = never buffer, 1 = always, 2 = buffer status 200 only) which itself
    sits behind the encode handler; the middleware calls `WriteResponse` when the recorder has buffered. -/

def handleOrdinary (recMode : Option Nat) : List String → String
  | [enc, prefer, min, matcher, method, ae, ws, rcc, inm, dct, rf, script] =>
    match parseNames enc, parseNames prefer, parseInt min, parseMatcher matcher,
          optHex ae, optHex rcc, optHex inm, optHex dct, parseScript script with
    | some offered, some pref, some minLen, some m, some aeB, some rccB, some inmB, some dctB, some ops =>
      if !(noDups offered && validatePrefer offered pref) then "bad-op"
      else if !(method == "G" || method == "H" || method == "C") then "bad-op"
      else if !((ws == "0" || ws == "1") && (rf == "0" || rf == "1")) then "bad-op"
      else if !aeSupported aeB then "unsupported"
      else
        showResult (serve ⟨provisionMinLen minLen, m.matches, id, fun _ => dctB⟩ offered pref
          ⟨method == "C", aeB, ws == "1", rccB, inmB⟩
          (match recMode with
            | none => ops
            | some mode => recorderOps (bufferMode mode) (fun l => l.foldl (· + ·) 0) (· == 0) ops))
    | _, _, _, _, _, _, _, _, _ => "bad-op"
  | _ => "bad-op"

/-! ### the `sc` op: file_server's sidecar selection on a fault-injecting file system
    `sc <order> <faults> <ae> <encode> <method> <etag>`; answer `sc status=<n>[ ce=<c|-> body=<plain|c|none>]` -/

def vBr : Bytes := [98, 114]

def parseScOrder (s : String) : Option (List Bytes) :=
  if s == "-" then some [] else
  ((s.splitOn ",").mapM (fun n => if n == "gzip" || n == "zstd" || n == "br" then some (str n) else none)).bind
    (fun l => if noDups l then some l else none)

def sideStateOf : Char → Option SideState
  | '-' => some .absent
  | 'd' => some .absent
  | 'o' => some .ok
  | 'x' => some .openRefused
  | 'n' => some .openRefused
  | 'b' => some .openFatal
  | _ => none

def handleSc (order faults ae enc method etag : String) : String :=
  match parseScOrder order, faults.toList.mapM sideStateOf, optHex ae with
  | some ord, some [sg, sz, sb], some aeB =>
    if !((enc == "0" || enc == "1") && (method == "G" || method == "H" || method == "P") &&
         (etag == "0" || etag == "1" || etag == "2")) then "bad-op"
    else if !aeSupported aeB then "unsupported"
    else
      match serveFile false true (acceptedEncodings aeB false ord) (fun c => ord.contains c)
          (fun c => if c == vGzip then sg else if c == vZstd then sz else if c == vBr then sb else .absent)
          (etag == "2") (method == "P") (method == "H") with
      | .error status _ => "sc status=" ++ toString status
      | .served status ce body =>
        "sc status=" ++ toString status ++ " ce=" ++ (match ce with | some c => bytesToString c | none => "-") ++
        " body=" ++ (match body with
          | none => "none"
          | some .plain => "plain"
          | some (.sidecar c) => bytesToString c)
  | _, _, _ => "bad-op"

/-! ### the `mr` op: `mr <k> <12 fields> … <12 fields>` — k = 2..4 requests, one after the other, through ONE
    Encode instance (same enc / prefer / minimum_length / matcher fields in every request). The answer of each
    request is computed from that request alone: what the instance carries from one response to the next (the
    pooled encoder objects, Pool.lean; the memory of the response writer, Writer.lean) is proved invisible
    (`request_outcome_is_its_own`, `encoder_reuse_across_requests_invisible`). -/

def chunks12 : Nat → List String → Option (List (List String))
  | 0, [] => some []
  | 0, _ :: _ => none
  | n + 1, l => if l.length < 12 then none else (chunks12 n (l.drop 12)).map (fun r => l.take 12 :: r)

def handleMr (k : String) (rest : List String) : String :=
  match (if k == "2" then some 2 else if k == "3" then some 3 else if k == "4" then some 4 else none) with
  | none => "bad-op"
  | some n =>
    match chunks12 n rest with
    | none => "bad-op"
    | some reqs =>
      if !reqs.all (fun r => r.take 4 == rest.take 4) then "bad-op"
      else if (reqs.map (handleOrdinary none)).any (· == "bad-op") then "bad-op"
      else if (reqs.map (handleOrdinary none)).any (· == "unsupported") then "unsupported"
      else "mr " ++ " ## ".intercalate (reqs.map (handleOrdinary none))

def handle : List String → String
  | ["cf", args, block] => handleCf args block
  | "mr" :: k :: rest => handleMr k rest
  | ["sc", order, faults, ae, enc, method, etag] => handleSc order faults ae enc method etag
  | "rr" :: mode :: rest =>
    if mode == "0" then handleOrdinary (some 0) rest
    else if mode == "1" then handleOrdinary (some 1) rest
    else if mode == "2" then handleOrdinary (some 2) rest
    else "bad-op"
  | ["px", coding, min, ae, interval, n1, n2, kind, sched] => handlePx coding min ae interval n1 n2 kind sched
  | ["fs", encs, prefer, min, pre, file, method, ae, range] => handleFs encs prefer min pre file method ae range
  | l => handleOrdinary none l


/-- counter-example lines replayed on the implementation on every run: none — the unchanged tree violates no
    clause any more (the two `minimum_length: -1` scripts of Witness.lean are regression cases in
    corpus/C15/regression-minlen-negative.txt and must pass) -/
def witnessLines : List String := []

end CaddyModel.C15
