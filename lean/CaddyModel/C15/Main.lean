import CaddyModel.Util.DrvMain
import CaddyModel.C15.Driver

def main (args : List String) : IO Unit :=
  CaddyModel.drvMain "C15" CaddyModel.C15.handle CaddyModel.C15.witnessLines args
