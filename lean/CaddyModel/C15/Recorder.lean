/-
C15 — `caddyhttp.responseRecorder` (modules/caddyhttp/responsewriter.go:65-247, an anchor file of the property):
the buffering writer that `templates`, `intercept` and reverse_proxy's `handle_response` put BEHIND the encode
handler (directive order: encode, …, intercept, templates, …, reverse_proxy). The handler's calls go to the
recorder; the recorder decides at `WriteHeader` whether to stream (pass everything on) or to buffer (keep status
and body, pass only 1xx on); the middleware then calls `WriteResponse`, which sends the status and the whole
buffered body in one `Write`. What reaches the encode response writer is therefore ANOTHER script than the
handler's — `recorderOps` computes it, transliterating `WriteHeader` / `Write` / `ReadFrom` / `FlushError` /
`WriteResponse`. Kept quirks: `stream` is false until the first `WriteHeader`, so a Flush before it is
swallowed even when nothing is ever buffered; a 1xx followed by a Write makes the recorder announce 200.
The header map is not buffered (it is the wrapped writer's own map): header edits pass through unchanged.
`shouldBuffer` is a function of the status here (modes: never / always / only 200).
-/
import CaddyModel.C15.Model

namespace CaddyModel.C15

structure RecSt (α : Type) where
  wrote : Bool          -- `rr.wroteHeader`
  status : Nat          -- `rr.statusCode`
  stream : Bool         -- `rr.stream`
  buf : List α          -- what `rr.buf` holds, chunk by chunk
  out : List (Op α)     -- the calls made on the wrapped writer so far, newest first

def RecSt.init {α : Type} : RecSt α := ⟨false, 0, false, [], []⟩

section
variable {α : Type}

/-- `rr.WriteHeader(status)` -/
def recWriteHeader (shouldBuffer : Nat → Bool) (s : RecSt α) (status : Nat) : RecSt α :=
  if s.wrote then s
  else
    { s with status := status, stream := !shouldBuffer status,
             wrote := !(100 ≤ status && status ≤ 199),
             out := if !shouldBuffer status || (100 ≤ status && status ≤ 199) then .writeHeader status :: s.out else s.out }

/-- one call of the handler on the recorder -/
def recStep (shouldBuffer : Nat → Bool) (s : RecSt α) : Op α → RecSt α
  | .writeHeader status => recWriteHeader shouldBuffer s status
  | .write p =>
    (fun s1 : RecSt α => if s1.stream then { s1 with out := .write p :: s1.out } else { s1 with buf := s1.buf ++ [p] })
      (recWriteHeader shouldBuffer s 200)
  | .readFrom cs =>
    (fun s1 : RecSt α => if s1.stream then { s1 with out := .readFrom cs :: s1.out } else { s1 with buf := s1.buf ++ cs })
      (recWriteHeader shouldBuffer s 200)
  | .flush => if s.stream then { s with out := .flush :: s.out } else s
  | .hset k v => { s with out := .hset k v :: s.out }
  | .hadd k v => { s with out := .hadd k v :: s.out }
  | .hdel k => { s with out := .hdel k :: s.out }

/-- the middleware's `if rec.Buffered() { rec.WriteResponse() }`; `cat` joins the buffered chunks (`io.Copy` from
    a `bytes.Buffer` is one `Write`; nothing is written when the buffer is empty) -/
def recFinish (shouldBuffer : Nat → Bool) (cat : List α → α) (isEmpty : α → Bool) (s : RecSt α) : RecSt α :=
  if s.stream then s
  else
    (fun s1 : RecSt α =>
      if s1.stream then s1
      else { s1 with out := (if isEmpty (cat s1.buf) then [] else [.write (cat s1.buf)]) ++ .writeHeader s1.status :: s1.out })
      (if s.status == 0 then recWriteHeader shouldBuffer s 200 else s)

/-- what reaches the wrapped (encode) writer when the handler's script `ops` runs on a recorder -/
def recorderOps (shouldBuffer : Nat → Bool) (cat : List α → α) (isEmpty : α → Bool) (ops : List (Op α)) : List (Op α) :=
  (recFinish shouldBuffer cat isEmpty (ops.foldl (recStep shouldBuffer) RecSt.init)).out.reverse

/-- the `shouldBuffer` functions of the harness -/
def bufferMode : Nat → Nat → Bool
  | 0, _ => false            -- never: stream everything
  | 1, _ => true             -- always
  | _, status => status == 200

end
end CaddyModel.C15
