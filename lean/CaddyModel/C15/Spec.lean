/-
C15 — the small abstract account the property talks about.

* `Accepts ae c`     : the Accept-Encoding header lists coding `c` with a non-zero quality.
* `written cfg ops`  : the bytes the handler wrote (non-empty payloads of its Write / ReadFrom calls, in order).
* `clientBody`       : what a client obtains that decodes the response according to its Content-Encoding.
                       The ONLY assumption about the codecs is built in here: a stream that consists of
                       encoder output alone, closed by the encoder's `Close`, decodes to exactly the bytes
                       that were handed to the encoder (decode ∘ encode = id for gzip / zstd); anything else
                       (plain bytes mixed with encoder output, an unterminated stream, encoder output
                       that is not announced by `Content-Encoding: <coding>`) cannot be decoded (`none`).
* `InitOk`, `MinLenOk` : the eligibility conditions of the statement (matcher, not already encoded,
                       no `no-transform`, minimum length).
-/
import CaddyModel.C15.Model

namespace CaddyModel.C15

/-- the client accepts coding `c` with non-zero quality: some element of the comma-separated header
    names `c` (case-insensitively, trimmed) and its q-value is not zero -/
def Accepts (ae c : Bytes) : Prop :=
  ∃ elem ∈ splitOn 44 ae, elemName elem = c ∧ elemQ elem > 0

/-- `a` is at least as preferred as `b`: higher q, or equal q and at least the server preference -/
def PrefGe (a b : Pref) : Prop := a.q > b.q ∨ (a.q = b.q ∧ a.order ≥ b.order)

section
variable {α : Type}

/-- payloads of one handler call that actually carry bytes -/
def opPayloads (cfg : Cfg α) : Op α → List α
  | .write p => if cfg.size p == 0 then [] else [p]
  | .readFrom cs => nonEmpty cfg cs
  | _ => []

/-- everything the handler wrote, in order -/
def written (cfg : Cfg α) (ops : List (Op α)) : List α := ops.flatMap (opPayloads cfg)

def Ev.isWh : Ev α → Bool
  | .wh _ _ => true
  | _ => false

/-- may occur in a response that was never handed to an encoder -/
def Ev.plainOk : Ev α → Bool
  | .e _ => false
  | .ef => false
  | .ec => false
  | _ => true

/-- may occur in a response that goes through the encoder and is not closed yet -/
def Ev.encOk : Ev α → Bool
  | .w _ => false
  | .ec => false
  | _ => true

def headerOnly (log : List (Ev α)) : Bool := log.all Ev.isWh
def plainOnly (log : List (Ev α)) : Bool := log.all Ev.plainOk
def encOnly (log : List (Ev α)) : Bool := log.all Ev.encOk

/-- body payloads of a log (which is kept newest first), in chronological order -/
def payloads : List (Ev α) → List α
  | [] => []
  | .w c :: t => payloads t ++ [c]
  | .e c :: t => payloads t ++ [c]
  | _ :: t => payloads t

/-- `Content-Encoding` values of the header the client received -/
def sentCE (st : St α) : List Bytes :=
  match st.sent with
  | some (_, h) => hValues h kCE
  | none => []

/-- What the client obtains. `coding` is the coding the encode handler negotiated (if any).
    * no encoder involved: the bytes on the wire are the handler's own bytes;
    * otherwise the stream must be encoder output only, closed, and announced as `Content-Encoding: coding`
      — then (decode ∘ encode = id) the client obtains what went into the encoder. -/
def clientBody (coding : Option Bytes) (st : St α) : Option (List α) :=
  if plainOnly st.log then some (payloads st.log)
  else match coding, st.log with
    | some name, .ec :: rest =>
      if encOnly rest && sentCE st == [name] then some (payloads rest) else none
    | _, _ => none

/-- the response as the handler left it (header `h0`, status `sc` as far as the writer knows it) may be
    encoded: not already encoded, no `no-transform`, accepted by the response matcher -/
def InitOk (cfg : Cfg α) (sc : Nat) (h0 : Hdr) : Prop :=
  hGet h0 kCE = [] ∧ isEncodeAllowed h0 = true ∧ cfg.matcher sc h0 = true

/-- minimum length: the first body write is longer than `minimum_length`, or the declared Content-Length is -/
def MinLenOk (cfg : Cfg α) (h0 : Hdr) (log : List (Ev α)) : Prop :=
  (∃ p, (payloads log).head? = some p ∧ (Int.ofNat (cfg.size p)) > cfg.minLen) ∨ clGtMin cfg h0 = true

/-- the two shapes a finished response can have: never handed to an encoder, or encoder output only, closed,
    under the header `init` produced from an eligible handler header `h0` -/
inductive Shape (cfg : Cfg α) (name : Bytes) (st : St α) : Prop where
  | identity (h : plainOnly st.log = true)
  | encoded (rest : List (Ev α)) (s sc : Nat) (h0 : Hdr)
      (hlog : st.log = Ev.ec :: rest) (henc : encOnly rest = true)
      (hsent : st.sent = some (s, initHdr name h0)) (hok : InitOk cfg sc h0) (hmin : MinLenOk cfg h0 rest)

/-- the handler never switches protocols (101 hijacks the connection: no HTTP body follows) -/
def No101 (ops : List (Op α)) : Prop := ∀ op ∈ ops, op ≠ Op.writeHeader 101

/-- the handler's own edit of the header map -/
def hdrEffect : Op α → Hdr → Hdr
  | .hset k v, h => hSet h k v
  | .hadd k v, h => hAdd h k v
  | .hdel k, h => hDel h k
  | _, h => h

/-- what a handler may do before it announces its final status: edit headers, send informational (1xx,
    not 101) responses -/
def Preliminary (op : Op α) : Prop :=
  (∃ k v, op = Op.hset k v) ∨ (∃ k v, op = Op.hadd k v) ∨ (∃ k, op = Op.hdel k) ∨
    (∃ i, op = Op.writeHeader i ∧ is1xx i = true ∧ i ≠ 101)

end

/-- the bytes of one call, when payloads are byte strings -/
def opBytes : Op Bytes → Bytes
  | .write p => p
  | .readFrom cs => cs.flatten
  | _ => []

/-- all the bytes a handler wrote, when payloads are byte strings -/
def writtenBytes (ops : List (Op Bytes)) : Bytes := (ops.map opBytes).flatten

/-! ### entity tags -/

/-- a strong entity tag in the shape every server emits: no `W/` prefix, closing quote -/
def StrongTag (e : Bytes) : Prop := hasPrefix vWeakPrefix e = false ∧ ∃ b, e = b ++ [34]

end CaddyModel.C15

/-! ### what a real HTTP server delivers: no body for HEAD and for statuses that forbid one -/
namespace CaddyModel.C15

/-- net/http `bodyAllowedForStatus`: 1xx (that includes the final 101), 204 and 304 carry no body; the server
    refuses the handler's writes (`ErrBodyNotAllowed`) -/
def bodyAllowed (s : Nat) : Bool := !(is1xx s || s == 204 || s == 304)

section
variable {α : Type}

/-- the final status forbids a body (an uncommitted response is sent as 200) -/
def noBodyStatus (st : St α) : Bool :=
  match st.sent with
  | some (s, _) => !bodyAllowed s
  | none => false

/-- the response has been fixed as `101 Switching Protocols` (the handler answered 101 before anything else
    was committed: the connection is given away, no HTTP body follows) -/
def Final101 (st : St α) : Prop := ∃ h, st.sent = some (101, h)

/-- what the client of a real server obtains: nothing for a HEAD request or a body-less status, otherwise what
    it decodes according to Content-Encoding -/
def delivered (head : Bool) (coding : Option Bytes) (st : St α) : Option (List α) :=
  if head || noBodyStatus st then some [] else clientBody coding st

end
end CaddyModel.C15

/-! ### Accept-Encoding as RFC 9110 writes it (§12.5.3, §12.4.2, §5.6.1) -/
namespace CaddyModel.C15

/-- `tchar` of RFC 9110 §5.6.2 -/
def tchar (b : UInt8) : Bool :=
  (48 ≤ b && b ≤ 57) || (65 ≤ b && b ≤ 90) || (97 ≤ b && b ≤ 122) ||
  b == 33 || b == 35 || b == 36 || b == 37 || b == 38 || b == 39 || b == 42 || b == 43 || b == 45 || b == 46 ||
  b == 94 || b == 95 || b == 96 || b == 124 || b == 126

/-- a coding name (or `*`): a non-empty token -/
def IsToken (t : Bytes) : Prop := t ≠ [] ∧ ∀ b ∈ t, tchar b = true

/-- optional white space: `*( SP / HTAB )` -/
def IsOWS (s : Bytes) : Prop := ∀ b ∈ s, b = 32 ∨ b = 9

/-- every spelling of the weight zero: `"0" [ "." 0*3DIGIT ]` with the digits all `0` -/
def zeroSpellings : List Bytes := [[48], [48, 46], [48, 46, 48], [48, 46, 48, 48], [48, 46, 48, 48, 48]]

/-- `codings OWS ";" OWS ("q" / "Q") "=" qvalue`, with white space around it as a list element may have -/
def weightedElem (lead name ows1 ows2 : Bytes) (qc : UInt8) (qv trail : Bytes) : Bytes :=
  lead ++ name ++ ows1 ++ [59] ++ ows2 ++ [qc, 61] ++ qv ++ trail

/-- a list element without a weight -/
def plainElem (lead name trail : Bytes) : Bytes := lead ++ name ++ trail

/-- `#element`: the elements joined by commas -/
def joinElems : List Bytes → Bytes
  | [] => []
  | [e] => e
  | e :: es => e ++ 44 :: joinElems es

end CaddyModel.C15

/-! ### responses that must be left alone -/
namespace CaddyModel.C15

/-- the handler's header forbids encoding: a Content-Encoding is already there (precompressed file, upstream
    that compressed itself) or `Cache-Control` says `no-transform` -/
def ineligible (h : Hdr) : Bool := !(hGet h kCE).isEmpty || !isEncodeAllowed h

/-- a call that is not an edit of the header map -/
def Op.isHeaderEdit {α : Type} : Op α → Bool
  | .hset _ _ => true
  | .hadd _ _ => true
  | .hdel _ => true
  | _ => false

end CaddyModel.C15
