/-
C15 — the CALLER CONTRACT of the encode response writer, and reverse_proxy as its caller.

`responseWriter` (Model.lean) is a sequential object: `run` gives meaning to a LIST of calls, one after the
other, and every transparency theorem of Props.lean is about such sequential scripts. Its encoders (gzip / zstd)
are not safe for concurrent use. So a caller that drives the writer from more than one goroutine must serialise
its calls. reverse_proxy is such a caller: `Handler.copyResponse` (reverseproxy/streaming.go) copies the backend
body in one goroutine (`maxLatencyWriter.Write` → `dst.Write`) while a timer goroutine (`time.AfterFunc` →
`maxLatencyWriter.delayedFlush` → `http.NewResponseController(dst).Flush`) flushes; both hold
`maxLatencyWriter.mu` for the whole call into `dst`.

This file models the two callers as a two-thread transition system over that lock. A call into the writer is
NOT atomic: it has a begin and an end event. Each thread works through its list of calls; with the lock
discipline (`guarded = true`) a call is `Lock; begin; end; Unlock`, without it (`guarded = false`, what a
"flush outside the critical section" change does) it is `Lock; Unlock; begin; end`.
`Props.lock_discipline_serialises` : under the discipline EVERY interleaving produces a trace in which no two
calls overlap, i.e. a sequential script (`Props.serialised_trace_is_a_script`), so the transparency theorems
apply (`Props.proxy_under_lock_is_transparent`); `Props.without_lock_calls_overlap` : without it an overlapping
trace exists. That the source keeps the flush inside the critical section is a regenerated fact
(`Props.proxy_flush_under_lock_matches_source`).
-/
import CaddyModel.C15.Model

namespace CaddyModel.C15

/-- where a caller thread is within its current call -/
inductive Phase where
  | idle      -- between calls (does not hold the lock)
  | locked    -- has taken the lock
  | ready     -- (unguarded only) has released the lock again, about to call
  | inCall    -- inside the call into the response writer
  | after     -- (guarded only) call returned, lock still held
deriving DecidableEq, Repr

structure Caller (α : Type) where
  guarded : Bool            -- the call into the writer happens between Lock and Unlock
  phase : Phase
  todo : List (Op α)        -- the calls this thread still has to make (head = current)

/-- begin / end of a call into the response writer; `t` = which thread (false = copy loop, true = timer) -/
inductive CallEv (α : Type) where
  | beg (t : Bool) (c : Op α)
  | fin (t : Bool)

structure Sys (α : Type) where
  lock : Option Bool              -- holder of `maxLatencyWriter.mu`
  callers : Bool → Caller α       -- `false` = the copy loop, `true` = the timer
  trace : List (CallEv α)         -- newest first

section
variable {α : Type}

def Sys.setCaller (s : Sys α) (t : Bool) (c : Caller α) : Bool → Caller α :=
  fun u => if u = t then c else s.callers u

/-- one atomic step of thread `t`; a step that cannot be taken (lock busy, nothing to do) leaves the system
    unchanged — the scheduler simply picked a blocked thread -/
def Sys.step (s : Sys α) (t : Bool) : Sys α :=
  match (s.callers t).phase, (s.callers t).todo with
  | .idle, _ :: _ =>
    if s.lock.isNone then
      { s with lock := some t, callers := s.setCaller t { s.callers t with phase := .locked } }
    else s
  | .locked, c :: _ =>
    if (s.callers t).guarded then
      { s with callers := s.setCaller t { s.callers t with phase := .inCall }, trace := .beg t c :: s.trace }
    else { s with lock := none, callers := s.setCaller t { s.callers t with phase := .ready } }
  | .ready, c :: _ =>
    { s with callers := s.setCaller t { s.callers t with phase := .inCall }, trace := .beg t c :: s.trace }
  | .inCall, _ :: rest =>
    if (s.callers t).guarded then
      { s with callers := s.setCaller t { s.callers t with phase := .after }, trace := .fin t :: s.trace }
    else
      { s with callers := s.setCaller t { s.callers t with phase := .idle, todo := rest }, trace := .fin t :: s.trace }
  | .after, _ :: rest =>
    { s with lock := none, callers := s.setCaller t { s.callers t with phase := .idle, todo := rest } }
  | _, _ => s

/-- a schedule = which thread moves next, any number of times -/
def Sys.exec (s : Sys α) : List Bool → Sys α
  | [] => s
  | t :: ts => (s.step t).exec ts

/-- the copy loop will make the calls `ws`, the timer the calls `fs` -/
def Sys.start (guardedCopy guardedTimer : Bool) (ws fs : List (Op α)) : Sys α :=
  ⟨none, fun t => if t then ⟨guardedTimer, .idle, fs⟩ else ⟨guardedCopy, .idle, ws⟩, []⟩

/-- `okRev trace cur`: in `trace` (newest first) no two calls overlap, and after its newest event the thread
    inside a call is `cur`: a call begins only when none is in progress, and is ended by the thread that began it -/
def okRev : List (CallEv α) → Option Bool → Bool
  | [], cur => cur.isNone
  | .beg t _ :: rest, cur => cur == some t && okRev rest none
  | .fin t :: rest, cur => cur.isNone && okRev rest (some t)

/-- no two calls into the response writer overlap -/
def noOverlap (trace : List (CallEv α)) : Bool :=
  okRev trace none || okRev trace (some false) || okRev trace (some true)

/-- the calls of a trace, in time order -/
def callsOf : List (CallEv α) → List (Op α)
  | [] => []
  | .beg _ c :: rest => callsOf rest ++ [c]
  | .fin _ :: rest => callsOf rest

/-- a sequential script (newest call first), written as a trace: every call ends before the next one begins -/
def scriptTrace : List (Bool × Op α) → List (CallEv α)
  | [] => []
  | (t, c) :: rest => .fin t :: .beg t c :: scriptTrace rest

end
end CaddyModel.C15
