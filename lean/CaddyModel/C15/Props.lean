/-
C15 — property theorems (kept apart from the helper lemmas).

Statement: for every response body, sequence of writes and flushes, status and header set, and every
Accept-Encoding header, a client that decodes the response according to its Content-Encoding obtains exactly
the bytes the handler wrote. A content coding is applied only if the client accepts it with non-zero quality
and the response is eligible (matcher, minimum length, not already encoded, no no-transform), in which case
Content-Encoding and Vary are set, no stale Content-Length remains, and a strong ETag is made distinct per
coding and is recognised again in If-None-Match.

All theorems quantify over every script of handler calls (`ops : List (Op α)`: WriteHeader / Write / Flush /
ReadFrom with arbitrary chunking / header edits, in any order and number), every payload type `α`
(instantiate `α := Bytes`, `size := List.length`), every matcher, every `DetectContentType`, every request.
No exclusion on the configuration is left: since commit 954786b (`ReadFrom` commits the header before it hands
the reader to the wrapped writer) every theorem holds for every `minimum_length`, negative ones included;
Witness.lean keeps the old `ReadFrom` and proves that the same statements FAIL for it (`…_old_code_fails`).
No hypothesis on the script is left either: a handler that answers `101 Switching Protocols` before anything
is committed fixes the response as 101 (the writer forwards it like any 1xx, net/http treats it as final and
refuses a body) — the per-clause theorems say "… or the response was fixed as 101" (`Final101`),
`transparent_total` states transparency with net/http's body rule (HEAD, 1xx/101, 204, 304) as an explicit
outcome. (`transparent`, `transparent_bytes`, `final_shape_no101` keep the older `No101` formulation.)
-/
import CaddyModel.C15.Lemmas
import CaddyModel.C15.Witness
import CaddyModel.C15.Writer
import CaddyModel.Gen.Encode
import CaddyModel.Gen.ProxyFlush
import CaddyModel.Gen.DirectiveOrder
import CaddyModel.Gen.Sidecar

namespace CaddyModel.C15

section
variable {α : Type}

/-- the response went through the encoder -/
def Encoded (st : St α) : Prop := plainOnly st.log = false

/-- every finished response of a handler that never answers 101 has one of the two legal shapes -/
theorem final_shape_no101 (cfg : Cfg α) (name : Bytes) (ic : Bool) (ops : List (Op α))
    (h101 : No101 ops) : Shape cfg name (runWrapped cfg name ic ops) :=
  shape_rwClose (inv_run ops _ h101 (inv_init cfg name ic))

/-- **every finished response, of every script**, has one of the two legal shapes — or was fixed as
    `101 Switching Protocols` before anything was committed (then no HTTP body follows at all) -/
theorem final_shape (cfg : Cfg α) (name : Bytes) (ic : Bool) (ops : List (Op α)) :
    Shape cfg name (runWrapped cfg name ic ops) ∨ Final101 (runWrapped cfg name ic ops) := by
  rcases inv_or_101_run ops (St.init name ic) (inv_init cfg name ic) with h | h
  · exact Or.inl (shape_rwClose h)
  · exact Or.inr (final101_rwClose cfg _ h)

/-- **decision once.** As soon as the writer has committed the header (`wroteHeader`, which happens before the
    first body byte is handed on: see `no_body_before_commit`) the choice encode / identity never changes,
    whatever the handler does next — for every configuration. -/
theorem decision_once (cfg : Cfg α) (st : St α) (ops : List (Op α)) (hw : st.wroteHeader = true) :
    (run cfg st ops).encOpen = st.encOpen ∧ (run cfg st ops).wroteHeader = true :=
  ⟨(committed_run cfg ops st hw).2, (committed_run cfg ops st hw).1⟩

/-- nothing but (1xx) headers reaches the client, and no encoder is open, before the header is committed -/
theorem no_body_before_commit (cfg : Cfg α) (name : Bytes) (ic : Bool) (ops : List (Op α))
    (hw : (run cfg (St.init name ic) ops).wroteHeader = false) :
    (headerOnly (run cfg (St.init name ic) ops).log = true ∧ (run cfg (St.init name ic) ops).encOpen = false ∧
      (run cfg (St.init name ic) ops).sent = none) ∨ Final101 (run cfg (St.init name ic) ops) := by
  rcases inv_or_101_run ops (St.init name ic) (inv_init cfg name ic) with h | h
  · have h' := h.pre hw
    exact Or.inl ⟨h'.2.2, h'.2.1, h'.1⟩
  · exact Or.inr h

/-- **no mixed streams.** The finished response is either plain bytes only, or encoder output only that is
    terminated by the encoder's `Close`. -/
theorem no_mixed_stream (cfg : Cfg α) (name : Bytes) (ic : Bool) (ops : List (Op α)) :
    plainOnly (runWrapped cfg name ic ops).log = true ∨
      (∃ rest, (runWrapped cfg name ic ops).log = Ev.ec :: rest ∧ encOnly rest = true) ∨
      Final101 (runWrapped cfg name ic ops) := by
  rcases final_shape cfg name ic ops with hs | h
  · cases hs with
    | identity h => exact Or.inl h
    | encoded rest _ _ _ hlog henc _ _ _ => exact Or.inr (Or.inl ⟨rest, hlog, henc⟩)
  · exact Or.inr (Or.inr h)

/-- the handler's payloads are handed on completely, in order, exactly once — in every configuration -/
theorem nothing_lost_or_duplicated (cfg : Cfg α) (name : Bytes) (ic : Bool) (ops : List (Op α)) :
    payloads (runWrapped cfg name ic ops).log = written cfg ops :=
  payloads_runWrapped cfg name ic ops

/-- a response of one of the two legal shapes decodes to the payloads that were handed on -/
theorem clientBody_of_shape (cfg : Cfg α) (name : Bytes) (st : St α) (hsh : Shape cfg name st) :
    clientBody (some name) st = some (payloads st.log) := by
  cases hsh with
  | identity h => simp [clientBody, h]
  | encoded rest s sc h0 hlog henc hsent _ _ =>
    have hnp : plainOnly st.log = false := by
      rw [hlog]; simp [plainOnly, Ev.plainOk]
    have hce : sentCE st = [name] := by
      simp [sentCE, hsent, initHdr_CE]
    unfold clientBody
    rw [hnp, hlog]
    simp [henc, hce, payloads]

/-- **transparency** of the response writer: for ALL scripts, a client that decodes according to the
    Content-Encoding it received obtains exactly what the handler wrote. -/
theorem transparent_wrapped (cfg : Cfg α) (name : Bytes) (ic : Bool) (ops : List (Op α))
    (h101 : No101 ops) :
    clientBody (some name) (runWrapped cfg name ic ops) = some (written cfg ops) := by
  rw [clientBody_of_shape cfg name _ (final_shape_no101 cfg name ic ops h101), payloads_runWrapped]

/-- **transparency without any hypothesis on the script**, with net/http's body rule as an explicit outcome:
    for EVERY script (101 Switching Protocols included), every configuration, HEAD or not — the client of a real
    server obtains nothing when the request is HEAD or the final status forbids a body (1xx/101, 204, 304:
    net/http refuses the handler's writes with or without this handler), and otherwise exactly the bytes the
    handler wrote. -/
theorem transparent_total (cfg : Cfg α) (name : Bytes) (ic head : Bool) (ops : List (Op α)) :
    delivered head (some name) (runWrapped cfg name ic ops) =
      some (if head || noBodyStatus (runWrapped cfg name ic ops) then [] else written cfg ops) := by
  unfold delivered
  by_cases hc : (head || noBodyStatus (runWrapped cfg name ic ops)) = true
  · simp [hc]
  · rw [if_neg hc, if_neg hc]
    rcases inv_or_101_run ops (St.init name ic) (inv_init cfg name ic) with hinv | h101
    · have hsh : Shape cfg name (runWrapped cfg name ic ops) := shape_rwClose hinv
      rw [clientBody_of_shape cfg name _ hsh, payloads_runWrapped]
    · exfalso
      obtain ⟨hh, e⟩ := final101_rwClose cfg _ h101
      apply hc
      have : noBodyStatus (runWrapped cfg name ic ops) = true := by
        unfold noBodyStatus
        have e' : (runWrapped cfg name ic ops).sent = some (101, hh) := e
        rw [e']; rfl
      simp [this]

/-- the same for the whole handler — whatever `ServeHTTP` negotiates for whatever request, wrapped or not -/
theorem transparent_total_serve (cfg : Cfg α) (offered prefer : List Bytes) (req : Req) (head : Bool)
    (ops : List (Op α)) :
    delivered head (serve cfg offered prefer req ops).sel (serve cfg offered prefer req ops).final =
      some (if head || noBodyStatus (serve cfg offered prefer req ops).final then [] else written cfg ops) := by
  unfold serve
  split
  · exact transparent_total cfg _ _ head ops
  · obtain ⟨a, b⟩ := runPlain_spec cfg ops (St.init [] req.isConnect) rfl
    unfold delivered
    by_cases hc : (head || noBodyStatus (runPlain cfg req.isConnect ops)) = true
    · simp [hc]
    · rw [if_neg hc, if_neg hc]
      simp only [runPlain, clientBody, a, if_true, b]
      simp [St.init, payloads]

/-- a handler that answers `101 Switching Protocols` before anything else is committed has fixed the response:
    101 is what the client is told, whatever the handler writes afterwards — the body clauses do not apply -/
theorem switching_protocols_is_final (cfg : Cfg α) (name : Bytes) (ic : Bool) (pre rest : List (Op α))
    (hpre : ∀ op ∈ pre, Preliminary op) :
    ∃ h, (runWrapped cfg name ic (pre ++ Op.writeHeader 101 :: rest)).sent = some (101, h) := by
  have hno : No101 pre := by
    intro op hop e
    rcases hpre op hop with ⟨k, v, rfl⟩ | ⟨k, v, rfl⟩ | ⟨k, rfl⟩ | ⟨i, rfl, _, h2⟩ <;> simp at e
    exact h2 e
  have hinv := inv_run pre _ hno (inv_init cfg name ic)
  have hun := uncommitted_run cfg pre (St.init name ic) hpre ⟨rfl, rfl, rfl⟩
  unfold runWrapped run
  rw [List.foldl_append, List.foldl_cons]
  exact final101_rwClose cfg _ (final101_run cfg rest _ (uncommitted_101 hinv hun.1))

/-- **transparency**, whole handler: whatever `ServeHTTP` negotiates for whatever request. -/
theorem transparent (cfg : Cfg α) (offered prefer : List Bytes) (req : Req) (ops : List (Op α))
    (h101 : No101 ops) :
    clientBody (serve cfg offered prefer req ops).sel (serve cfg offered prefer req ops).final
      = some (written cfg ops) := by
  unfold serve
  split
  · exact transparent_wrapped cfg _ _ ops h101
  · obtain ⟨a, b⟩ := runPlain_spec cfg ops (St.init [] req.isConnect) rfl
    simp only [runPlain, clientBody, a, if_true, b]
    simp [St.init, payloads]

/-- **a coding is negotiated only if** the client lists it with non-zero quality, it is offered, the request
    does not forbid transformation, and (WebSocket handshake) it is `identity`. -/
theorem negotiated_only_if (offered prefer : List Bytes) (req : Req) (c : Bytes)
    (h : chooseEncoding offered prefer req = some c) :
    Accepts req.acceptEnc c ∧ c ∈ offered ∧ transformAllowed req.cacheControl = true ∧
      (req.wsKey = true → c = vIdentity) := by
  unfold chooseEncoding at h
  split at h
  · rename_i ht
    have hm := List.mem_of_find?_eq_some h
    have hp := List.find?_some h
    obtain ⟨elem, he, hn, hq, hws⟩ := mem_acceptedEncodings hm
    exact ⟨⟨elem, he, hn, hq⟩, by simpa using hp, ht, hws⟩
  · cases h

/-- **first offered among accepted.** `ServeHTTP` takes the first offered name in `AcceptedEncodings`' order
    (every name before it is not offered). -/
theorem first_offered_among_accepted (offered prefer : List Bytes) (req : Req) (c : Bytes)
    (h : chooseEncoding offered prefer req = some c) :
    ∃ before after, acceptedEncodings req.acceptEnc req.wsKey prefer = before ++ c :: after ∧
      ∀ n ∈ before, n ∉ offered := by
  unfold chooseEncoding at h
  split at h
  · obtain ⟨as, bs, h1, h2⟩ := List.find?_eq_some_iff_append.mp h |>.2
    exact ⟨as, bs, h1, fun n hn => by simpa using h2 n hn⟩
  · cases h

/-- **the chosen coding is a most preferred one**: among the offered codings the client accepts, none has a
    higher q-value, nor the same q-value and a higher server preference (`prefer`), than the chosen one. -/
theorem chosen_is_most_preferred (offered prefer : List Bytes) (req : Req) (c : Bytes)
    (h : chooseEncoding offered prefer req = some c) :
    ∃ pc ∈ acceptedPrefs req.acceptEnc req.wsKey prefer, pc.name = c ∧
      ∀ p ∈ acceptedPrefs req.acceptEnc req.wsKey prefer, p.name ∈ offered → PrefGe pc p := by
  unfold chooseEncoding at h
  split at h
  · unfold acceptedEncodings at h
    split at h
    · simp at h
    · obtain ⟨as, bs, h1, h2⟩ := (List.find?_eq_some_iff_append.mp h).2
      obtain ⟨l1, l2, e1, e2, e3⟩ := List.map_eq_append_iff.mp h1
      obtain ⟨pc, l3, e4, e5, _⟩ := List.map_eq_cons_iff.mp e3
      subst e4
      have hs := goSort_sorted (acceptedPrefs req.acceptEnc req.wsKey prefer)
      rw [e1, List.pairwise_append, List.pairwise_cons] at hs
      have hpc : pc ∈ acceptedPrefs req.acceptEnc req.wsKey prefer := by
        rw [← mem_goSort, e1]; simp
      refine ⟨pc, hpc, e5, fun p hp hoff => ?_⟩
      rw [← mem_goSort, e1, List.mem_append, List.mem_cons] at hp
      rcases hp with hp | rfl | hp
      · have : p.name ∈ as := by rw [← e2]; exact List.mem_map_of_mem hp
        have := h2 _ this
        simp at this
        exact absurd hoff this
      · exact prefGe_refl _
      · exact hs.2.1.1 p hp
  · cases h

/-- **encoded only if eligible, and then with the right headers.** If the response went through the encoder,
    the header the client received is exactly `init`'s edit of a handler header `h0` that was not already
    encoded, carried no `no-transform`, satisfied the response matcher, and met the minimum length. -/
theorem encoded_only_if (cfg : Cfg α) (name : Bytes) (ic : Bool) (ops : List (Op α))
    (henc : Encoded (runWrapped cfg name ic ops)) :
    (∃ s sc h0 rest, (runWrapped cfg name ic ops).sent = some (s, initHdr name h0) ∧
      (runWrapped cfg name ic ops).log = Ev.ec :: rest ∧ InitOk cfg sc h0 ∧ MinLenOk cfg h0 rest) ∨
      Final101 (runWrapped cfg name ic ops) := by
  rcases final_shape cfg name ic ops with hs | h
  · cases hs with
    | identity h => simp [Encoded, h] at henc
    | encoded rest s sc h0 hlog _ hsent hok hm => exact Or.inl ⟨s, sc, h0, rest, hsent, hlog, hok, hm⟩
  · exact Or.inr h

/-- **headers when encoded.** `Content-Encoding` is exactly the coding, `Vary` lists `Accept-Encoding`, no
    `Content-Length` (and no `Accept-Ranges`) remains — in the header the client received. -/
theorem headers_when_encoded (cfg : Cfg α) (name : Bytes) (ic : Bool) (ops : List (Op α))
    (henc : Encoded (runWrapped cfg name ic ops)) :
    (∃ s h, (runWrapped cfg name ic ops).sent = some (s, h) ∧ hValues h kCE = [name] ∧ hasVary h = true ∧
      hValues h kCL = [] ∧ hValues h kAR = []) ∨ Final101 (runWrapped cfg name ic ops) := by
  rcases encoded_only_if cfg name ic ops henc with ⟨s, _, h0, _, hsent, _, _, _⟩ | h
  · exact Or.inl ⟨s, _, hsent, initHdr_CE name h0, initHdr_vary name h0, initHdr_CL name h0, initHdr_AR name h0⟩
  · exact Or.inr h

/-- what `init` does to the other headers: nothing. -/
theorem init_touches_nothing_else (name : Bytes) (h0 : Hdr) (k : Bytes)
    (h1 : k ≠ kCL) (h2 : k ≠ kCE) (h3 : k ≠ kVary) (h4 : k ≠ kAR) (h5 : k ≠ kEtag) :
    hValues (initHdr name h0) k = hValues h0 k :=
  initHdr_other name h0 h1 h2 h3 h4 h5

/-- **ETag of an encoded response**: a non-empty tag without `W/` prefix gets the coding appended inside the
    closing quote; weak tags and absent tags are left alone. -/
theorem etag_when_encoded (name : Bytes) (h0 : Hdr) :
    hValues (initHdr name h0) kEtag =
      if !(hGet h0 kEtag).isEmpty && !hasPrefix vWeakPrefix (hGet h0 kEtag) then [adjustEtag name (hGet h0 kEtag)]
      else hValues h0 kEtag :=
  initHdr_etag name h0

/-- **headers are edited only when the encoder is opened.** One call on the writer changes the values of a
    header `k` (other than `Vary`, which a 304 gets, and a sniffed `Content-Type`) exactly as the handler's own
    edit does — unless this very call, starting from an uncommitted writer, opened the encoder (`init`). In
    particular `Content-Encoding`, `Content-Length` and `ETag` are never touched on a response that is not
    encoded. Holds for every configuration. -/
theorem header_untouched_unless_init (cfg : Cfg α) (st : St α) (op : Op α) (k : Bytes)
    (h1 : k ≠ kVary) (h2 : k ≠ kCT) :
    hValues (step cfg st op).hdr k = hValues (hdrEffect op st.hdr) k ∨
      (st.wroteHeader = false ∧ (step cfg st op).encOpen = true) :=
  hdr_step cfg st op h1 h2

/-- the deferred `Close` leaves the header map alone unless it opens (and at once closes) the encoder -/
theorem close_untouched_unless_init (cfg : Cfg α) (st : St α) :
    (rwClose cfg st).hdr = st.hdr ∨ (st.wroteHeader = false ∧ (rwClose cfg st).log.head? = some Ev.ec) :=
  hdr_rwClose cfg st

/-- **304 Not Modified carries `Vary: Accept-Encoding`** (issue 5849) although no body — hence no `init` — ever
    comes: `WriteHeader(304)` adds it at once unless the handler listed it already; nothing else is touched. -/
theorem vary_on_304 (st : St α) :
    hasVary (rwWriteHeader st 304).hdr = true ∧
      ∀ k, k ≠ kVary → hValues (rwWriteHeader st 304).hdr k = hValues st.hdr k := by
  refine ⟨?_, fun k hk => hdr_rwWriteHeader st 304 hk⟩
  have e : (rwWriteHeader st 304).hdr = (vary304 304 { st with statusCode := 304 }).hdr := by
    unfold rwWriteHeader informational connectImmediate
    split <;> split <;> simp [dsWriteHeader]
  rw [e]
  unfold vary304
  by_cases hv : hasVary st.hdr = true
  · simp [hv]
  · simp only [hv, Bool.not_false, Bool.and_true, beq_self_eq_true, if_true]
    unfold hasVary
    rw [hValues_add_self, List.any_append]
    have : varyValueHas vAE = true := by decide
    simp [this]

/-- **Flush before the header is committed is swallowed** (bug 4314: flushing would send the header before it is
    known whether Content-Encoding must be added) — whatever status the handler has announced, 1xx included;
    the only exception is a CONNECT request that has not announced a status. -/
theorem flush_before_commit_is_deferred (st : St α) (hw : st.wroteHeader = false)
    (hc : (st.isConnect && st.statusCode == 0) = false) : rwFlush st = st := by
  have e : connectDefault st = st := by
    unfold connectDefault
    have : (st.isConnect && !st.wroteHeader && st.statusCode == 0) = false := by
      cases h1 : st.isConnect <;> cases h2 : (st.statusCode == 0) <;> simp_all
    simp [this]
  simp [rwFlush, e, hw]

/-- **Flush after the header is committed goes through**: first the encoder (if one is open), then the wrapped
    writer — and changes nothing else. -/
theorem flush_after_commit_goes_through (st : St α) (hw : st.wroteHeader = true) :
    (rwFlush st).log = (if st.encOpen then [Ev.fl, Ev.ef] else [Ev.fl]) ++ st.log ∧
      (rwFlush st).encOpen = st.encOpen ∧ (rwFlush st).hdr = st.hdr := by
  have e : connectDefault st = st := committed_connectDefault st hw
  simp only [rwFlush, e, hw, flushThrough]
  cases ho : st.encOpen <;> simp [dsFlush, encFlush, implicitHeader, ho]

/-- **1xx is forwarded at once**, with the header map as it is, and decides nothing. -/
theorem informational_forwarded (st : St α) (s : Nat) (h1 : is1xx s = true) :
    (rwWriteHeader st s).log = Ev.wh s st.hdr :: st.log ∧
    (rwWriteHeader st s).wroteHeader = st.wroteHeader ∧ (rwWriteHeader st s).encOpen = st.encOpen ∧
    (s ≠ 101 → (rwWriteHeader st s).sent = st.sent) := by
  have hs : 100 ≤ s ∧ s ≤ 199 := by simpa [is1xx] using h1
  have h304 : (s == 304) = false := by simp; omega
  have h2xx : (200 ≤ s && s ≤ 299) = false := by simp; omega
  simp only [rwWriteHeader, informational, connectImmediate, vary304, h1, h304, h2xx, Bool.false_and,
    Bool.and_false, if_true, dsWriteHeader]
  refine ⟨by simp, by simp, by simp, fun h => ?_⟩
  simp [is1xx_informational h1 h]

/-- **a response the handler marked as encoded, or as `no-transform`, is left alone** (precompressed
    file_server sidecars, upstreams that compress themselves: no double encoding). If — after the handler's
    header edits and 1xx responses — the header map carries a Content-Encoding or `Cache-Control: no-transform`,
    then whatever the handler does next short of editing headers again (any status, Write / Flush / ReadFrom in
    any chunking), for every configuration: the encoder is never opened, nothing but plain bytes goes out,
    Content-Encoding and Cache-Control stay exactly what the handler set, and the client gets the handler's bytes. -/
theorem ineligible_response_never_encoded (cfg : Cfg α) (name : Bytes) (ic : Bool) (pre body : List (Op α))
    (hpre : ∀ op ∈ pre, Preliminary op) (hbody : ∀ op ∈ body, op.isHeaderEdit = false)
    (hin : ineligible (run cfg (St.init name ic) pre).hdr = true) :
    plainOnly (runWrapped cfg name ic (pre ++ body)).log = true ∧
    hValues (runWrapped cfg name ic (pre ++ body)).hdr kCE = hValues (run cfg (St.init name ic) pre).hdr kCE ∧
    hValues (runWrapped cfg name ic (pre ++ body)).hdr kCC = hValues (run cfg (St.init name ic) pre).hdr kCC ∧
    clientBody (some name) (runWrapped cfg name ic (pre ++ body)) = some (written cfg (pre ++ body)) := by
  have hno : No101 pre := by
    intro op hop e
    rcases hpre op hop with ⟨k, v, rfl⟩ | ⟨k, v, rfl⟩ | ⟨k, rfl⟩ | ⟨i, rfl, _, h2⟩ <;> simp at e
    exact h2 e
  have hinv := inv_run pre _ hno (inv_init cfg name ic)
  have hun := uncommitted_run cfg pre (St.init name ic) hpre ⟨rfl, rfl, rfl⟩
  have hla : LeftAlone (hValues (run cfg (St.init name ic) pre).hdr kCE) (hValues (run cfg (St.init name ic) pre).hdr kCC)
      (run cfg (St.init name ic) pre) :=
    ⟨hun.2.2, hin, rfl, rfl, headerOnly_plainOnly _ (hinv.pre hun.1).2.2⟩
  have hfin := la_rwClose cfg (la_run cfg body _ hbody hla)
  have e : runWrapped cfg name ic (pre ++ body) = rwClose cfg (run cfg (run cfg (St.init name ic) pre) body) := by
    unfold runWrapped run; rw [List.foldl_append]
  rw [e]
  refine ⟨hfin.plain, hfin.ce_eq, hfin.cc_eq, ?_⟩
  rw [← e]
  unfold clientBody
  rw [e, hfin.plain, ← e]
  simp [payloads_runWrapped]

/-- **the status survives**, for every configuration: a handler that edits headers / sends 1xx, announces the
    final status `s` and then writes its body in any way without calling WriteHeader again gets exactly `s`
    delivered. (Fails for the `ReadFrom` of before 954786b: `Witness.status_old_code_fails`.) -/
theorem status_preserved (cfg : Cfg α) (name : Bytes) (ic : Bool) (pre body : List (Op α)) (s : Nat)
    (hs : is1xx s = false) (hs0 : s ≠ 0)
    (hpre : ∀ op ∈ pre, Preliminary op) (hbody : ∀ op ∈ body, ∀ i, op ≠ Op.writeHeader i) :
    ∃ h, (runWrapped cfg name ic (pre ++ Op.writeHeader s :: body)).sent = some (s, h) := by
  have hni : isInformational s = false := by simp [isInformational, hs]
  unfold runWrapped run
  rw [List.foldl_append, List.foldl_cons]
  have h1 := uncommitted_run cfg pre (St.init name ic) hpre ⟨rfl, rfl, rfl⟩
  have h2 := held_after_final_writeHeader _ s hs h1
  have h3 := held_run cfg s hs0 hni body _ hbody h2
  exact held_rwClose cfg s hs0 hni _ h3

end

/-- **transparency in bytes**: with byte-string payloads, the concatenation of what the client decodes is the
    concatenation of everything the handler wrote (empty writes included). -/
theorem transparent_bytes (cfg : Cfg Bytes) (hsz : cfg.size = List.length) (offered prefer : List Bytes)
    (req : Req) (ops : List (Op Bytes)) (h101 : No101 ops) :
    (clientBody (serve cfg offered prefer req ops).sel (serve cfg offered prefer req ops).final).map List.flatten
      = some (writtenBytes ops) := by
  rw [transparent cfg offered prefer req ops h101]
  simp only [Option.map_some, Option.some.injEq]
  exact written_flatten cfg hsz ops

/-- **transparency in bytes, no hypothesis**: nothing where HTTP forbids a body, otherwise the concatenation of
    everything the handler wrote -/
theorem transparent_total_bytes (cfg : Cfg Bytes) (hsz : cfg.size = List.length) (offered prefer : List Bytes)
    (req : Req) (head : Bool) (ops : List (Op Bytes)) :
    (delivered head (serve cfg offered prefer req ops).sel (serve cfg offered prefer req ops).final).map List.flatten
      = some (if head || noBodyStatus (serve cfg offered prefer req ops).final then [] else writtenBytes ops) := by
  rw [transparent_total_serve cfg offered prefer req head ops]
  simp only [Option.map_some, Option.some.injEq]
  split
  · rfl
  · exact written_flatten cfg hsz ops

/-! ### a buffering middleware behind the encode handler (`templates`, `intercept`, `handle_response`) -/

/-- **the recorder passes on every byte, in order**: whatever the handler does and whatever the recorder decides
    (stream, buffer, re-decide after a 1xx), the calls that reach the wrapped writer — including the one big
    `Write` of `WriteResponse` — carry exactly the bytes the handler wrote. -/
theorem recorder_passes_all_bytes (shouldBuffer : Nat → Bool) (ops : List (Op Bytes)) :
    writtenBytes (recorderOps shouldBuffer List.flatten List.isEmpty ops) = writtenBytes ops :=
  recorderOps_bytes shouldBuffer ops

/-- **so the chain encode → recorder → handler is transparent**: the client obtains the handler's bytes (or
    nothing where HTTP forbids a body), whichever coding is negotiated and whatever is buffered. -/
theorem buffering_middleware_is_transparent (cfg : Cfg Bytes) (hsz : cfg.size = List.length)
    (offered prefer : List Bytes) (req : Req) (head : Bool) (shouldBuffer : Nat → Bool) (ops : List (Op Bytes)) :
    (delivered head
        (serve cfg offered prefer req (recorderOps shouldBuffer List.flatten List.isEmpty ops)).sel
        (serve cfg offered prefer req (recorderOps shouldBuffer List.flatten List.isEmpty ops)).final).map List.flatten
      = some (if head || noBodyStatus
            (serve cfg offered prefer req (recorderOps shouldBuffer List.flatten List.isEmpty ops)).final
          then [] else writtenBytes ops) := by
  rw [transparent_total_bytes cfg hsz, recorder_passes_all_bytes]

/-! ### entity tags -/

/-- **distinct per coding**: the adjusted tag differs from the handler's tag, and two codings give two tags -/
theorem etag_distinct (name name' e : Bytes) :
    adjustEtag name e ≠ e ∧ (name ≠ name' → adjustEtag name e ≠ adjustEtag name' e) := by
  constructor
  · intro h
    have hl := congrArg List.length h
    have := trimSuffix_length [34] e
    simp [adjustEtag, etagSuffix] at hl this
    omega
  · intro hne h
    simp only [adjustEtag, etagSuffix, List.append_cancel_left_eq, List.cons.injEq, true_and] at h
    exact hne (List.append_cancel_right h)

/-- **recognised again**: the tag a client got from an encoded response, sent back in `If-None-Match` while the
    same coding is negotiated, reaches the handler as the handler's own tag (single strong tag). -/
theorem etag_recognised (name e : Bytes) (h : StrongTag e) : rewriteINM name (adjustEtag name e) = e := by
  obtain ⟨hweak, b, rfl⟩ := h
  have h1 : adjustEtag name (b ++ [34]) = b ++ etagSuffix name := by
    simp [adjustEtag, trimSuffix_append]
  rw [h1]
  unfold rewriteINM
  have h2 : (b ++ etagSuffix name).isEmpty = false := by simp [etagSuffix_ne_nil]
  have h3 : hasSuffix (etagSuffix name) (b ++ etagSuffix name) = true := isSuffixOf_append _ _
  rw [h2, weakPrefix_append b name hweak, h3]
  simp [trimSuffix_append]

/-- weak validators and `*` are never rewritten -/
theorem weak_inm_untouched (name inm : Bytes) (h : hasPrefix vWeakPrefix inm = true) : rewriteINM name inm = inm := by
  simp [rewriteINM, h]

/-! ### Accept-Encoding read as RFC 9110 means it (§12.5.3): refusals by name, the wildcard `*` -/

/-- **every RFC spelling of a refusal is read as a refusal**: a list element `name OWS ";" OWS q=0` — the coding
    name in any case, `q` or `Q`, any white space (SP / HTAB) before and after `;` and around the element, the
    weight written `0`, `0.`, `0.0`, `0.00` or `0.000` — names `toLower name` and carries the weight 0. -/
theorem rfc_refusal_read_as_refusal (lead name ows1 ows2 : Bytes) (qc : UInt8) (qv trail : Bytes)
    (hlead : IsOWS lead) (hname : IsToken name) (h1 : IsOWS ows1) (h2 : IsOWS ows2) (ht : IsOWS trail)
    (hq : qc = 113 ∨ qc = 81) (hz : qv ∈ zeroSpellings) :
    elemName (weightedElem lead name ows1 ows2 qc qv trail) = toLower name ∧
      elemQ (weightedElem lead name ows1 ows2 qc qv trail) = 0 := by
  have hs := splitOn_weighted lead name ows1 ows2 qc qv trail hlead hname h1 h2 ht hq hz
  constructor
  · unfold elemName; rw [hs]
    exact elemName_padded lead name ows1 [] hlead hname h1
  · unfold elemQ; rw [hs]
    show qOfParam (ows2 ++ ([qc, 61] ++ qv) ++ trail) = 0
    simp only [zeroSpellings, List.mem_cons, List.not_mem_nil, or_false] at hz
    have htrim : ∀ w : Bytes, (∀ c, w.head? = some c → isSpace c = false) → (∀ c, w.getLast? = some c → isSpace c = false) →
        trimSpace (ows2 ++ w ++ trail) = w :=
      fun w a b => trimSpace_padded ows2 w trail (ows_isSpace h2) (ows_isSpace ht) a b
    unfold qOfParam
    rcases hq with rfl | rfl <;> rcases hz with rfl | rfl | rfl | rfl | rfl <;>
      (rw [htrim _ (by intro c hc; cases hc; decide) (by intro c hc; cases hc; decide)]; decide)

/-- an element without a weight names its coding (lower-cased) with the weight 1 -/
theorem rfc_plain_element (lead name trail : Bytes) (hlead : IsOWS lead) (hname : IsToken name) (ht : IsOWS trail) :
    elemName (plainElem lead name trail) = toLower name ∧ elemQ (plainElem lead name trail) = 1000 := by
  have hl : (59 : UInt8) ∉ lead ++ name ++ trail := by
    simp only [List.mem_append, not_or]
    exact ⟨⟨ows_no_semicolon hlead, token_no_semicolon hname⟩, ows_no_semicolon ht⟩
  have hs : splitOn 59 (plainElem lead name trail) = [lead ++ name ++ trail] := splitOn_not_mem 59 _ hl
  constructor
  · unfold elemName; rw [hs]; exact elemName_padded lead name trail [] hlead hname ht
  · unfold elemQ; rw [hs]

/-- **a coding refused by name is never applied, whatever `*` (or anything else) says**: if every element of
    the header that names `c` carries the weight 0, `ServeHTTP` does not negotiate `c`. -/
theorem refused_by_name_never_applied (offered prefer : List Bytes) (req : Req) (c : Bytes)
    (h : ∀ elem ∈ splitOn 44 req.acceptEnc, elemName elem = c → elemQ elem = 0) :
    chooseEncoding offered prefer req ≠ some c := by
  intro hc
  obtain ⟨⟨elem, he, hn, hq⟩, _⟩ := negotiated_only_if offered prefer req c hc
  have := h elem he hn
  omega

/-- **the wildcard never stands in for a coding**: a coding no element names is not applied — `*` (with any
    weight, `*;q=0` included) and `identity;q=0` neither enable nor force a coding. -/
theorem unlisted_never_applied (offered prefer : List Bytes) (req : Req) (c : Bytes)
    (h : ∀ elem ∈ splitOn 44 req.acceptEnc, elemName elem ≠ c) :
    chooseEncoding offered prefer req ≠ some c := by
  intro hc
  obtain ⟨⟨elem, he, hn, _⟩, _⟩ := negotiated_only_if offered prefer req c hc
  exact h elem he hn

/-- **`gzip;q=0, *` means "anything but gzip"**: in a header made of list elements, if the elements that name
    `c` are refusals (in any RFC spelling, see `rfc_refusal_read_as_refusal`) then `c` is not applied — however
    many `*` elements with whatever weight stand next to them. -/
theorem rfc_named_refusal_beats_wildcard (offered prefer : List Bytes) (req : Req) (es : List Bytes) (c : Bytes)
    (hne : es ≠ []) (hcomma : ∀ e ∈ es, (44 : UInt8) ∉ e) (hae : req.acceptEnc = joinElems es)
    (href : ∀ e ∈ es, elemName e = c → elemQ e = 0) :
    chooseEncoding offered prefer req ≠ some c := by
  apply refused_by_name_never_applied
  rw [hae, splitOn_joinElems es hne hcomma]
  exact href

/-! ### the glue: from an `encode` directive of a Caddyfile to the configuration the handler runs with -/

/-- `Validate` accepts `prefer` exactly when it lists enabled encodings only and none twice -/
theorem validate_iff (offered prefer : List Bytes) :
    validatePrefer offered prefer = true ↔ prefer.Nodup ∧ ∀ p ∈ prefer, p ∈ offered :=
  validatePrefer_iff offered prefer

/-- **the preference list is the set of enabled encodings**: whatever the directive looks like, every enabled
    encoding is in `prefer` and every preferred one is enabled. -/
theorem caddyfile_prefer_is_enabled_set (args : List Bytes) (block : List Line) (st : CfState)
    (h : parseEncode args block = .ok st) : ∀ n, n ∈ st.prefer ↔ n ∈ st.encs := by
  unfold parseEncode at h
  split at h
  · rename_i st1 h1
    have hs1 := procBlock_sameNames block CfState.empty st1 h1 (fun n => by simp [CfState.empty])
    exact (procArgs_spec _ st1 st h hs1).1
  · rename_i hne
    cases hb : procBlock block CfState.empty with
    | ok s1 => exact absurd hb (hne s1)
    | parseErr => rw [hb] at h; cases h
    | loadErr => rw [hb] at h; cases h
    | unsupported => rw [hb] at h; cases h

/-- **block first, then the line; listed once** (commit e21a4a9): `prefer` starts with the block's encoders in
    block order, continues with formats of the directive line, and if the block names no encoder twice then no
    encoding is listed twice — naming a format on the line AND configuring it in the block is fine. -/
theorem caddyfile_line_and_block_listed_once (args : List Bytes) (block : List Line) (stB st : CfState)
    (hb : procBlock block CfState.empty = .ok stB) (h : parseEncode args block = .ok st) :
    (∃ added, st.prefer = stB.prefer ++ added) ∧ (stB.prefer.Nodup → st.prefer.Nodup) ∧
      st.minLen = stB.minLen ∧ st.matcher = stB.matcher := by
  unfold parseEncode at h
  rw [hb] at h
  have hs1 := procBlock_sameNames block CfState.empty stB hb (fun n => by simp [CfState.empty])
  obtain ⟨_, i2, ⟨added, e, _⟩, i4, i5, _⟩ := procArgs_spec _ stB st h hs1
  exact ⟨⟨added, e⟩, i2, i4, i5⟩

/-- nothing named at all: the documented default `zstd gzip`, in that order -/
theorem caddyfile_default_encodings (block : List Line) (stB st : CfState)
    (hb : procBlock block CfState.empty = .ok stB) (hnone : stB.prefer = [])
    (h : parseEncode [] block = .ok st) : st.prefer = [vZstd, vGzip] := by
  unfold parseEncode at h
  rw [hb] at h
  have hs1 := procBlock_sameNames block CfState.empty stB hb (fun n => by simp [CfState.empty])
  have henc : stB.encs = [] := by
    cases he : stB.encs with
    | nil => rfl
    | cons x xs => have := (hs1 x).mpr (by rw [he]; exact List.mem_cons_self); rw [hnone] at this; cases this
  simp [procArgs, henc, hnone] at h
  rw [if_neg (by decide)] at h
  injection h with h
  rw [← h]

/-- **a directive whose block names each encoder at most once loads**: `Validate` cannot reject it (only a
    gzip level outside [-3, 9] can still fail), and the handler runs with exactly the parsed preference list,
    the provisioned minimum length (never 0) and — without a `match` — the default matcher. -/
theorem caddyfile_valid_unless_block_repeats (args : List Bytes) (block : List Line) (stB st : CfState)
    (hb : procBlock block CfState.empty = .ok stB) (h : parseEncode args block = .ok st)
    (hnd : stB.prefer.Nodup) (hlvl : gzipLevelOk st.gzipLevel = true) :
    ∃ c, adaptEncode args block = .ok c ∧ c.prefer = st.prefer ∧ c.offered = st.encs ∧
      c.minLen = provisionMinLen st.minLen ∧ c.minLen ≠ 0 ∧ c.matcher = provisionMatcher st.matcher := by
  have hset := caddyfile_prefer_is_enabled_set args block st h
  have hnd' := (caddyfile_line_and_block_listed_once args block stB st hb h).2.1 hnd
  have hv : validatePrefer st.encs st.prefer = true :=
    (validatePrefer_iff _ _).mpr ⟨hnd', fun p hp => (hset p).mp hp⟩
  refine ⟨⟨st.encs, st.prefer, provisionMinLen st.minLen, provisionMatcher st.matcher⟩, ?_, rfl, rfl, rfl, ?_, rfl⟩
  · unfold adaptEncode loadEncode
    rw [h]
    simp [hlvl, hv]
  · show provisionMinLen st.minLen ≠ 0
    by_cases hz : st.minLen = 0
    · simp [provisionMinLen, hz, defaultMinLength]
    · simp [provisionMinLen, hz]

/-- `Provision`'s defaults -/
theorem provision_defaults :
    provisionMinLen 0 = 512 ∧ (∀ n : Int, n ≠ 0 → provisionMinLen n = n) ∧ provisionMatcher none = defaultMatcher ∧
      (∀ m, provisionMatcher (some m) = m) :=
  ⟨rfl, fun n hn => by simp [provisionMinLen, hn], rfl, fun _ => rfl⟩

/-- **what is applied was asked for**: with a configuration adapted from a directive, the coding `ServeHTTP`
    negotiates is one the directive names (or a default), and the client accepts it. -/
theorem adapted_negotiation_within_directive (args : List Bytes) (block : List Line) (c : Loaded) (req : Req)
    (n : Bytes) (ha : adaptEncode args block = .ok c) (hn : chooseEncoding c.offered c.prefer req = some n) :
    n ∈ c.prefer ∧ Accepts req.acceptEnc n := by
  have hneg := negotiated_only_if c.offered c.prefer req n hn
  refine ⟨?_, hneg.1⟩
  unfold adaptEncode at ha
  cases hp : parseEncode args block with
  | ok st =>
    rw [hp] at ha
    change loadEncode st = .ok c at ha
    unfold loadEncode at ha
    by_cases h1 : (st.encs.contains vGzip && !gzipLevelOk st.gzipLevel) = true
    · rw [if_pos h1] at ha; cases ha
    · rw [if_neg h1] at ha
      by_cases h2 : (!validatePrefer st.encs st.prefer) = true
      · rw [if_pos h2] at ha; cases ha
      · rw [if_neg h2] at ha
        injection ha with ha
        subst ha
        exact (caddyfile_prefer_is_enabled_set args block st hp n).mpr hneg.2.1
  | parseErr => rw [hp] at ha; cases ha
  | loadErr => rw [hp] at ha; cases ha
  | unsupported => rw [hp] at ha; cases ha

/-! ### pooled encoders: state shared between responses -/

/-- **reuse is invisible**: whatever object the pool hands out — dirty, still pointing at another response, or
    none at all — a response emits exactly what it would with a brand-new encoder, and hands back a clean one. -/
theorem pool_reuse_invisible (slot : Option (EncObj α)) (id : Nat) (calls : List (EncCall α)) :
    serveWithPool slot id calls = serveWithPool none id calls ∧ (serveWithPool slot id calls).2 = ⟨none, []⟩ := by
  cases slot <;> exact ⟨rfl, rfl⟩

/-- every byte the encoder emits goes to the CURRENT response's writer … -/
theorem pooled_encoder_emits_to_current_response (slot : Option (EncObj α)) (id : Nat) (calls : List (EncCall α)) :
    ∀ e ∈ (serveWithPool slot id calls).1, e.dest = some id := by
  rw [(pool_reuse_invisible slot id calls).1]
  intro e he
  have he' : e ∈ ((⟨some id, []⟩ : EncObj α).calls calls).2 ++
      ((((⟨some id, []⟩ : EncObj α).calls calls).1).call .close).2 := he
  obtain ⟨a, b⟩ := calls_dest calls (⟨some id, []⟩ : EncObj α)
  rcases List.mem_append.mp he' with h1 | h1
  · exact b e h1
  · rw [(call_dest _ .close).2 e h1, a]

/-- … and what it emits is exactly what THIS response handed to it, in order -/
theorem pooled_encoder_emits_what_was_written (slot : Option (EncObj α)) (id : Nat) (calls : List (EncCall α)) :
    (serveWithPool slot id calls).1.flatMap Emit.payloads = writesOf calls := by
  rw [(pool_reuse_invisible slot id calls).1]
  have h := calls_payloads calls (⟨some id, []⟩ : EncObj α)
  show (((⟨some id, []⟩ : EncObj α).calls calls).2 ++
      ((((⟨some id, []⟩ : EncObj α).calls calls).1).call .close).2).flatMap Emit.payloads = writesOf calls
  have hc : ∀ o : EncObj α, (o.call .close).2.flatMap Emit.payloads = o.pending := by
    intro o; simp [EncObj.call, Emit.payloads]
  rw [List.flatMap_append, hc, h]; rfl

/-- any number of responses through one pool slot: each is served as if it were alone -/
theorem pooled_sequence_independent : ∀ (rs : List (Nat × List (EncCall α))) (slot : Option (EncObj α)),
    serveSeq slot rs = rs.map (fun r => (serveWithPool none r.1 r.2).1)
  | [], _ => rfl
  | (id, calls) :: rest, slot => by
    simp only [serveSeq, List.map_cons]
    rw [pooled_sequence_independent rest, (pool_reuse_invisible slot id calls).1]

/-- the `Reset` of `init` is what makes it so: without it a dirty pooled object sends the previous response's
    leftovers, and this response's bytes, to the previous response's writer -/
theorem reset_is_needed :
    (serveWithoutReset (some (⟨some 7, [99]⟩ : EncObj Nat)) [.write 1]).1 = [.data (some 7) [99, 1], .trailer (some 7)] := by
  decide

/-! ### file_server's precompressed sidecars: the other producer of `Content-Encoding`
    (the second call site of `AcceptedEncodings`; an encode handler in front trusts the header it sets) -/

/-- **the announced coding is the coding of the bytes sent** — for every order of accepted codings, every set of
    configured sidecars, every pattern of `Stat` / `Open` outcomes (absent, refused, removed in between …), with or
    without etag files: a successful response that sends a body announces `Content-Encoding: c` exactly when the
    body is the `c` sidecar, and nothing when it is the plain file; a sidecar is served only for a coding the client
    accepts (it is in `AcceptedEncodings`' answer), that is configured, and whose sidecar opened. -/
theorem sidecar_header_matches_body (accepted : List Bytes) (configured : Bytes → Bool) (state : Bytes → SideState)
    (etagFails post head : Bool) (status : Nat) (ce : Option Bytes) (body : Served)
    (h : serveFile false true accepted configured state etagFails post head = .served status ce (some body)) :
    ce = body.coding ∧
      (∀ c, body = .sidecar c → c ∈ accepted ∧ configured c = true ∧ state c = .ok) := by
  unfold serveFile at h
  cases hl : sidecarLoop false true configured state etagFails accepted none with
  | inr e => rw [hl] at h; cases h
  | inl r =>
    obtain ⟨ce', opened⟩ := r
    rw [hl] at h
    simp only at h
    split at h
    · cases h
    · split at h
      · cases h
      · simp only [SideRes.served.injEq] at h
        obtain ⟨_, hce, hb⟩ := h
        rcases sidecarLoop_spec true configured state etagFails accepted none ce' opened hl with ⟨ho, hc⟩ | ⟨c, ho, hc, hm, hcf, hst⟩
        · subst ho; subst hc
          cases head
          · simp at hb; subst hb; subst hce
            exact ⟨rfl, fun c hcx => by cases hcx⟩
          · simp at hb
        · subst ho; subst hc
          cases head
          · simp at hb; subst hb; subst hce
            exact ⟨rfl, fun c' hcx => by cases hcx; exact ⟨hm, hcf, hst⟩⟩
          · simp at hb

/-- the same for HEAD: it announces what GET would announce -/
theorem sidecar_head_like_get (accepted : List Bytes) (configured : Bytes → Bool) (state : Bytes → SideState)
    (etagFails : Bool) (status : Nat) (ce : Option Bytes)
    (h : serveFile false true accepted configured state etagFails false true = .served status ce none) :
    ∃ body, serveFile false true accepted configured state etagFails false false = .served status ce (some body) := by
  unfold serveFile at h ⊢
  cases hl : sidecarLoop false true configured state etagFails accepted none with
  | inr e => rw [hl] at h; cases h
  | inl r =>
    obtain ⟨ce', opened⟩ := r
    rw [hl] at h
    simp only at h ⊢
    by_cases hc : (opened.isNone && etagFails) = true
    · rw [if_pos hc] at h; cases h
    · rw [if_neg hc] at h ⊢
      simp only [Bool.false_eq_true, if_false, if_true, SideRes.served.injEq] at h ⊢
      exact ⟨_, h.1, h.2.1, rfl⟩

/-- **announcing the coding before the sidecar is open mislabels the fallback**: with the header set first, a
    sidecar that `Stat` sees and `Open` refuses leaves `Content-Encoding: gzip` on a response whose body is the
    plain file — which an encode handler in front then leaves alone (`ineligible_response_never_encoded`). -/
theorem sidecar_header_first_mislabels :
    serveFile true true [vGzip] (fun _ => true) (fun _ => .openRefused) false false false
      = .served 200 (some vGzip) (some .plain) ∧
    serveFile false true [vGzip] (fun _ => true) (fun _ => .openRefused) false false false
      = .served 200 none (some .plain) := by decide

/-- **an error response never carries a sidecar's coding** (commit ce4ac64): whatever error `ServeHTTP` returns
    from the sidecar loop on — 503 from a failed open, 500 from an unreadable etag file, 405 for a method other than
    GET / HEAD, before or after a sidecar was chosen — no `Content-Encoding` is left in the header map for whoever
    writes the error page. -/
theorem sidecar_error_drops_header (accepted : List Bytes) (configured : Bytes → Bool) (state : Bytes → SideState)
    (etagFails post head : Bool) (status : Nat) (ce : Option Bytes)
    (h : serveFile false true accepted configured state etagFails post head = .error status ce) : ce = none := by
  unfold serveFile at h
  cases hl : sidecarLoop false true configured state etagFails accepted none with
  | inr e =>
    obtain ⟨st, ce'⟩ := e
    rw [hl] at h
    simp only [SideRes.error.injEq] at h
    rw [← h.2]
    exact sidecarLoop_error configured state etagFails accepted st ce' hl
  | inl r =>
    obtain ⟨ce', opened⟩ := r
    rw [hl] at h
    simp only at h
    by_cases hc : (opened.isNone && etagFails) = true
    · rw [if_pos hc] at h
      simp only [SideRes.error.injEq] at h
      rw [← h.2]
      rcases sidecarLoop_spec true configured state etagFails accepted none ce' opened hl with ⟨_, hce⟩ | ⟨c, ho, _⟩
      · exact hce
      · rw [ho] at hc; simp at hc
    · rw [if_neg hc] at h
      by_cases hp : post = true
      · simp only [hp, if_true, SideRes.error.injEq] at h
        exact h.2.symm
      · simp [hp] at h

/-- the code of before ce4ac64 (`dropOnError = false`): a 405, or a failing etag file, AFTER the sidecar was chosen
    was returned with the sidecar's `Content-Encoding` still in the header map — an error page written by
    `handle_errors` went out as plain bytes labelled gzip -/
theorem sidecar_error_old_code_fails :
    serveFile false false [vGzip] (fun _ => true) (fun _ => .ok) false true false = .error 405 (some vGzip) ∧
    serveFile false false [vGzip] (fun _ => true) (fun _ => .ok) true false false = .error 500 (some vGzip) ∧
    serveFile false true [vGzip] (fun _ => true) (fun _ => .ok) false true false = .error 405 none := by decide

/-- the source announces the sidecar's coding after the sidecar is open — the `headerFirst = false` the theorems
    above are about (regenerated from fileserver/staticfiles.go) -/
theorem sidecar_header_after_open_matches_source :
    CaddyModel.Gen.fileServerSidecarHeaderAfterOpen = true := by decide

/-! ### the caller contract: calls into the response writer are serialised (reverse_proxy's two goroutines)

    Every theorem above is about a SEQUENTIAL script of calls — `run` gives no meaning to two calls that overlap,
    and the real encoders are not safe for concurrent use. A caller with more than one goroutine has to
    serialise; reverse_proxy does it with `maxLatencyWriter.mu` (Proxy.lean). -/

/-- **under the lock discipline every interleaving is serial**: whatever the scheduler does with the copy loop
    (its `Write`s) and the timer goroutine (its `Flush`es), no two calls into the response writer overlap. -/
theorem lock_discipline_serialises (ws fs : List (Op α)) (sched : List Bool) :
    noOverlap ((Sys.start true true ws fs).exec sched).trace = true :=
  noOverlap_of_lockInv (lockInv_exec sched _ (lockInv_start ws fs))

/-- a trace without overlap (and without a call still in progress) IS a sequential script: every call ends
    before the next begins, and `callsOf` lists the calls in the order they were made -/
theorem serialised_trace_is_a_script (tr : List (CallEv α)) (h : okRev tr none = true) :
    ∃ script : List (Bool × Op α), tr = scriptTrace script ∧ callsOf tr = (script.reverse).map (·.2) :=
  script_of_okRev tr h

/-- **so transparency applies to what reverse_proxy does**: after the handler's own header calls `pre`, whatever
    the interleaving of the two goroutines, the calls that reached the writer form a script for which the client
    obtains exactly the bytes written (or nothing where HTTP forbids a body) -/
theorem proxy_under_lock_is_transparent (cfg : Cfg α) (name : Bytes) (ic head : Bool) (pre ws fs : List (Op α))
    (sched : List Bool) :
    noOverlap ((Sys.start true true ws fs).exec sched).trace = true ∧
    delivered head (some name)
        (runWrapped cfg name ic (pre ++ callsOf ((Sys.start true true ws fs).exec sched).trace)) =
      some (if head || noBodyStatus
          (runWrapped cfg name ic (pre ++ callsOf ((Sys.start true true ws fs).exec sched).trace))
        then [] else written cfg (pre ++ callsOf ((Sys.start true true ws fs).exec sched).trace)) :=
  ⟨lock_discipline_serialises ws fs sched, transparent_total cfg name ic head _⟩

/-- **without the lock around the flush, calls overlap**: if the timer releases the lock before it calls `Flush`
    (`guarded = false`), there is a schedule in which a `Write` of the copy loop begins while the `Flush` is still
    running — outside the domain of every theorem above (and, in the real code, two goroutines inside one
    gzip / zstd encoder). -/
theorem without_lock_calls_overlap :
    ∃ sched : List Bool,
      noOverlap ((Sys.start true false ([.write 1, .write 2] : List (Op Nat)) [.flush]).exec sched).trace = false :=
  ⟨[false, false, false, false, true, true, true, false, false], by decide⟩

/-- the same schedule under the discipline: the `Write` waits for the `Flush` (the lock is busy) -/
example : noOverlap ((Sys.start true true ([.write 1, .write 2] : List (Op Nat)) [.flush]).exec
    [false, false, false, false, true, true, true, false, false]).trace = true := by decide

/-- the source keeps every call into the destination writer inside the critical section — in `Write` (copy
    loop) and in `delayedFlush` (timer): the discipline `Sys.start true true` models -/
theorem proxy_flush_under_lock_matches_source :
    CaddyModel.Gen.proxyMlwWriteUnderLock = true ∧ CaddyModel.Gen.proxyDelayedFlushUnderLock = true := by decide

/-! ### ties to the source: facts REGENERATED from /repo on every run (tools/extract → Gen/Encode.lean).
    A change of one of these literals / call sequences in the Go source changes `Gen.*` and the theorem below
    no longer elaborates — the proof obligation breaks without any sampled case having to hit it. -/

/-- `init`'s header edits are the fold of the edit list … -/
theorem initHdr_is_its_edit_list (name : Bytes) (h : Hdr) :
    initHdr name h = initEdits.foldl (applyInitEdit name) h := rfl

/-- … and that list is, call for call and in order, what `responseWriter.init` does in the source:
    Del Content-Length, Set Content-Encoding, Add Vary, Del Accept-Ranges, Set Etag -/
theorem init_edits_match_source :
    initEdits.map InitEdit.describe = CaddyModel.Gen.encodeInitHeaderEdits.map str := by decide

/-- the default response matcher of the model is the literal of `Provision` -/
theorem default_matcher_matches_source :
    defaultCtPats = CaddyModel.Gen.encodeDefaultContentTypes.map str := by decide

/-- `defaultMinLength` and `sniffLen` are the constants of encode.go -/
theorem constants_match_source :
    CaddyModel.Gen.encodeDefaultMinLength = some defaultMinLength ∧ CaddyModel.Gen.encodeSniffLen = some sniffLen := by
  decide

/-- the lifecycle of a pooled encoder in the model (`serveWithPool`: Get, Reset to the current response; Close,
    Reset(nil), Put) is the call sequence of `responseWriter.init` / `Close` in the source — a change that
    forgets a `Reset` changes the regenerated fact and this obligation breaks -/
theorem encoder_lifecycle_matches_source :
    lifecycleInit = CaddyModel.Gen.encodeEncoderLifecycleInit ∧
      lifecycleClose = CaddyModel.Gen.encodeEncoderLifecycleClose := by decide

/-- position of a directive in the Caddyfile's default handler order -/
def dirIndex (d : String) : Option Nat := CaddyModel.Gen.defaultDirectiveOrder.findIdx? (· == d)

def dirBefore (a b : String) : Bool :=
  match dirIndex a, dirIndex b with
  | some i, some j => decide (i < j)
  | _, _ => false

/-- **where `encode` sits in a Caddyfile site**: after `header` (whose non-deferred response edits — e.g.
    `Cache-Control: no-transform` — are therefore in the header map when `init` decides, and whose deferred ones
    run in ITS WriteHeader, i.e. after the decision), and before every handler whose output it is meant to encode —
    the buffering middlewares `intercept` / `templates` (so that they buffer plain bytes: the `rr` op and
    `buffering_middleware_is_transparent` are about exactly this nesting), `respond`, `reverse_proxy`,
    `php_fastcgi`, `file_server`. A reordering in httpcaddyfile/directives.go breaks this obligation. -/
theorem encode_directive_position_matches_source :
    dirBefore "header" "encode" = true ∧ dirBefore "encode" "intercept" = true ∧
    dirBefore "encode" "templates" = true ∧ dirBefore "encode" "respond" = true ∧
    dirBefore "encode" "reverse_proxy" = true ∧ dirBefore "encode" "php_fastcgi" = true ∧
    dirBefore "encode" "file_server" = true := by decide

/-- the formats used when a directive names none are those of `UnmarshalCaddyfile` -/
theorem caddyfile_defaults_match_source :
    [vZstd, vGzip] = CaddyModel.Gen.encodeCaddyfileDefaultFormats.map str := by decide

/-! ### non-vacuity: the hypotheses are met by concrete, non-trivial runs (kernel-evaluated) -/

/-- `text/html` -/
def exTextHtml : Bytes := [116, 101, 120, 116, 47, 104, 116, 109, 108]
/-- `"abc"` (with the quotes) -/
def exTag : Bytes := [34, 97, 98, 99, 34]
/-- `gzip;q=0.5, zstd` -/
def exAE : Bytes := [103, 122, 105, 112, 59, 113, 61, 48, 46, 53, 44, 32, 122, 115, 116, 100]

/-- default minimum length and default matcher; payloads are their lengths -/
def exCfg : Cfg Nat := ⟨512, defaultMatcher.matches, id, fun _ => []⟩

/-- Content-Type, strong ETag, a stale Content-Length, 103 then 200, a big write, flush, a small write, a ReadFrom -/
def exOps : List (Op Nat) :=
  [.hset kCT exTextHtml, .hset kEtag exTag, .hset kCL [57, 57], .writeHeader 103, .writeHeader 200,
   .write 600, .flush, .write 10, .readFrom [100, 0, 50]]

def exReq : Req := ⟨false, exAE, false, [], adjustEtag vZstd exTag⟩

theorem exOps_no101 : No101 exOps := by
  intro op h
  simp [exOps] at h
  rcases h with rfl | rfl | rfl | rfl | rfl | rfl | rfl | rfl | rfl <;> simp

-- zstd (q = 1) wins over gzip (q = 0.5); the response is encoded; the client gets all five payloads;
-- the If-None-Match the client sent back reaches the handler as the handler's own tag
example : (serve exCfg [vGzip, vZstd] [] exReq exOps).sel = some vZstd ∧
    plainOnly (serve exCfg [vGzip, vZstd] [] exReq exOps).final.log = false ∧
    clientBody (some vZstd) (serve exCfg [vGzip, vZstd] [] exReq exOps).final = some [600, 10, 100, 50] ∧
    (serve exCfg [vGzip, vZstd] [] exReq exOps).inm = exTag := by decide

-- hypotheses of `transparent`, `encoded_only_if`, `headers_when_encoded` hold for it
example : No101 exOps ∧ Encoded (runWrapped exCfg vZstd false exOps) := by
  refine ⟨exOps_no101, ?_⟩; unfold Encoded; decide

-- the header the client received: Content-Encoding zstd, no Content-Length, the adjusted ETag, status 200
example : (runWrapped exCfg vZstd false exOps).sent.map (fun x => (x.1, hValues x.2 kCE, hValues x.2 kCL, hValues x.2 kEtag))
    = some (200, [vZstd], [], [adjustEtag vZstd exTag]) := by decide

-- the same script with a small first write stays plain — and is transparent as well
example : clientBody (some vZstd) (runWrapped exCfg vZstd false [.hset kCT exTextHtml, .write 10, .write 600])
    = some [10, 600] ∧ plainOnly (runWrapped exCfg vZstd false [.hset kCT exTextHtml, .write 10, .write 600]).log = true := by
  decide

-- `negotiated_only_if` / `first_offered_among_accepted`: q=0 is refused, the not-offered `br` is skipped
example : chooseEncoding [vGzip] [] ⟨false, [98, 114, 44, 103, 122, 105, 112], false, [], []⟩ = some vGzip := by decide
example : chooseEncoding [vGzip] [] ⟨false, [103, 122, 105, 112, 59, 113, 61, 48], false, [], []⟩ = none := by decide

-- `chosen_is_most_preferred`: gzip;q=0.5, zstd — zstd is preferred although gzip comes first in `prefer`
set_option maxRecDepth 8000 in
example : chooseEncoding [vGzip, vZstd] [vGzip, vZstd] exReq = some vZstd ∧
    acceptedPrefs exAE false [vGzip, vZstd] = [⟨vGzip, 500, 2⟩, ⟨vZstd, 1000, 1⟩] := by decide

-- the glue theorems: `encode gzip { gzip 5 ; minimum_length 100 ; zstd }` — gzip is named on the line AND
-- configured in the block: listed once, block order first, loads; `encode` alone gives zstd, gzip, 512
example : loadedSummary (adaptEncode [vGzip] [⟨[vGzip, [53]], none⟩, ⟨[tMinimumLength, [49, 48, 48]], none⟩, ⟨[vZstd], none⟩])
    = some ([vGzip, vZstd], [vGzip, vZstd], 100) := by decide
example : loadedSummary (adaptEncode [] []) = some ([vZstd, vGzip], [vZstd, vGzip], 512) := by decide
-- an encoder named twice IN THE BLOCK is still rejected by Validate (the hypothesis of
-- `caddyfile_valid_unless_block_repeats` is needed), and so is gzip level 99
example : isLoadErr (adaptEncode [] [⟨[vGzip], none⟩, ⟨[vGzip], none⟩]) = true := by decide
example : isLoadErr (adaptEncode [] [⟨[vGzip, [57, 57]], none⟩]) = true := by decide
-- the token-stream quirk: `minimum_length 5 zstd` on one line enables zstd
example : loadedSummary (adaptEncode [] [⟨[tMinimumLength, [53], vZstd], none⟩]) = some ([vZstd], [vZstd], 5) := by decide

-- the RFC theorems: `GZIP ;\tQ=0.000` is an instance of `weightedElem`; `gzip;q=0, *`, `gzip;q=0,*;q=1` with gzip
-- preferred and offered negotiate nothing, `gzip;q=0, *, zstd` negotiates zstd; `identity;q=0, *;q=0` nothing
example : weightedElem [] [71, 90, 73, 80] [32] [9] 81 [48, 46, 48, 48, 48] [32]
    = [71, 90, 73, 80, 32, 59, 9, 81, 61, 48, 46, 48, 48, 48, 32] ∧ IsToken [71, 90, 73, 80] :=
  ⟨by decide, by decide, by decide⟩
example : chooseEncoding [vGzip, vZstd] [vGzip] ⟨false, [103, 122, 105, 112, 59, 113, 61, 48, 44, 32, 42], false, [], []⟩ = none := by decide
example : chooseEncoding [vGzip] [vGzip] ⟨false, [71, 90, 73, 80, 32, 59, 9, 81, 61, 48, 46, 48, 48, 48, 32, 44, 42, 59, 113, 61, 49], false, [], []⟩ = none := by decide
example : chooseEncoding [vGzip, vZstd] [vGzip] ⟨false, [103, 122, 105, 112, 59, 113, 61, 48, 44, 32, 42, 44, 122, 115, 116, 100], false, [], []⟩ = some vZstd := by decide
example : chooseEncoding [vGzip, vZstd] [] ⟨false, [105, 100, 101, 110, 116, 105, 116, 121, 59, 113, 61, 48, 44, 32, 42, 59, 113, 61, 48], false, [], []⟩ = none := by decide

-- `transparent_total`: the three outcomes occur — HEAD delivers nothing, a 204 delivers nothing, a 101 with a
-- "body" delivers nothing (and is final), a 200 delivers the bytes
example : delivered true (some vZstd) (runWrapped exCfg vZstd false exOps) = some [] ∧
    delivered false (some vZstd) (runWrapped exCfg vZstd false exOps) = some [600, 10, 100, 50] ∧
    delivered false (some vZstd) (runWrapped exCfg vZstd false [.writeHeader 204, .write 600]) = some [] ∧
    delivered false (some vZstd) (runWrapped exCfg vZstd false [.hset kCT exTextHtml, .writeHeader 101, .write 600]) = some [] ∧
    (runWrapped exCfg vZstd false [.hset kCT exTextHtml, .writeHeader 101, .write 600]).sent.map (·.1) = some 101 := by
  decide

-- `ineligible_response_never_encoded`: a precompressed response (Content-Encoding gzip set by file_server, big body
-- through ReadFrom) and a `no-transform` response both meet its hypothesis; the former stays plain
example : ineligible (run exCfg (St.init vZstd false) [.hset kCT exTextHtml, .hset kCE vGzip]).hdr = true ∧
    ineligible (run exCfg (St.init vZstd false) [.hset kCC vNoTransform, .writeHeader 103]).hdr = true ∧
    (runWrapped exCfg vZstd false ([.hset kCT exTextHtml, .hset kCE vGzip] ++ [.writeHeader 200, .readFrom [512, 2000]])).log
      = [.w 2000, .w 512, .wh 200 [(kCE, [vGzip]), (kCT, [exTextHtml])]] := by decide

-- the recorder: buffering turns [Write 3 bytes, Flush, ReadFrom 2+1 bytes] under status 200 into one WriteHeader and one
-- 6-byte Write; streaming passes the calls on; after a 103 the decision is taken again at the final header
example : recorderOps (bufferMode 1) List.flatten List.isEmpty
      ([.hset kCT exTextHtml, .writeHeader 103, .writeHeader 200, .write [1, 2, 3], .flush, .readFrom [[4, 5], [6]]] : List (Op Bytes))
    = [.hset kCT exTextHtml, .writeHeader 103, .writeHeader 200, .write [1, 2, 3, 4, 5, 6]] ∧
    recorderOps (bufferMode 0) List.flatten List.isEmpty ([.flush, .write [1], .flush] : List (Op Bytes))
    = [.writeHeader 200, .write [1], .flush] ∧
    recorderOps (bufferMode 2) List.flatten List.isEmpty ([.writeHeader 404, .write [1]] : List (Op Bytes))
    = [.writeHeader 404, .write [1]] := by decide

-- `status_preserved`: its hypotheses are met by exOps' shape (pre = 4 ops, s = 200, body = 4 ops)
example : ∀ op ∈ ([.hset kCT exTextHtml, .writeHeader 103] : List (Op Nat)), Preliminary op := by
  intro op h
  simp at h
  rcases h with rfl | rfl
  · exact Or.inl ⟨_, _, rfl⟩
  · exact Or.inr (Or.inr (Or.inr ⟨103, rfl, by decide, by decide⟩))

-- `etag_recognised` / `etag_distinct`: "abc" ↦ "abc-zstd" ↦ "abc"
example : StrongTag exTag ∧ adjustEtag vZstd exTag = [34, 97, 98, 99, 45, 122, 115, 116, 100, 34] :=
  ⟨⟨by decide, [34, 97, 98, 99], rfl⟩, by decide⟩

-- `header_untouched_unless_init`: both alternatives occur — a small first write leaves Content-Length alone,
-- a big one opens the encoder from an uncommitted writer
example : hValues (step exCfg (run exCfg (St.init vZstd false) [.hset kCT exTextHtml, .hset kCL [57, 57]]) (.write 10)).hdr kCL = [[57, 57]] ∧
    (step exCfg (run exCfg (St.init vZstd false) [.hset kCT exTextHtml, .hset kCL [57, 57]]) (.write 600)).encOpen = true := by
  decide

-- `informational_forwarded`: 103 goes out at once with the header as it is
example : ((rwWriteHeader (St.init vGzip false : St Nat) 103).log, (rwWriteHeader (St.init vGzip false : St Nat) 103).wroteHeader)
    = ([Ev.wh 103 []], false) := by decide

-- `decision_once`: a committed, encoding writer stays encoding through any further calls
example : (run exCfg (St.init vZstd false) exOps).wroteHeader = true ∧ (run exCfg (St.init vZstd false) exOps).encOpen = true := by
  decide

/-! ### the responseWriter's per-request state; sequences of requests on ONE Encode instance; bodiless responses -/

section
variable {α : Type}

/-- the writer `openResponseWriter` makes IS the initial state of the main model — whatever the memory it
    occupies held before (`var rw responseWriter` is the zero value) -/
theorem open_response_writer_is_fresh (mem : RW) (name : Bytes) (ic : Bool) :
    (St.ofRW (openResponseWriter mem name ic) : St α) = St.init name ic := rfl

/-- **a request's outcome is a function of this request's handler actions and the configuration only.** Any
    number of requests, one after the other, on one `Encode` instance, starting from any leftover writer memory:
    the k-th result is `serve` of the k-th request alone. -/
theorem request_outcome_is_its_own (cfg : Cfg α) (offered prefer : List Bytes) :
    ∀ (reqs : List (Req × List (Op α))) (mem : RW),
      serveRequests openResponseWriter cfg offered prefer mem reqs =
        reqs.map (fun r => serve cfg offered prefer r.1 r.2)
  | [], _ => rfl
  | r :: rest, mem => by
    have h1 : (serveFrom openResponseWriter cfg offered prefer mem r.1 r.2).1 = serve cfg offered prefer r.1 r.2 := by
      unfold serveFrom serve
      cases chooseEncoding offered prefer r.1 <;> rfl
    simp only [serveRequests, List.map_cons]
    rw [h1, request_outcome_is_its_own cfg offered prefer rest]

/-- the encoder objects the instance DOES hand from response to response do not show either: driven by the
    encoder calls of the successive responses of the main model, one pool slot — in whatever state it starts —
    emits for each response what a brand-new encoder emits for that response alone -/
theorem encoder_reuse_across_requests_invisible (cfg : Cfg α) (offered prefer : List Bytes)
    (reqs : List (Req × List (Op α))) (mem : RW) (slot : Option (EncObj α)) (i0 : Nat) :
    serveSeq slot (numbered i0 (serveRequests openResponseWriter cfg offered prefer mem reqs)) =
      (numbered i0 (reqs.map (fun r => serve cfg offered prefer r.1 r.2))).map
        (fun r => (serveWithPool none r.1 r.2).1) := by
  rw [request_outcome_is_its_own, pooled_sequence_independent]

end

/-- configuration and client of the witnesses below: gzip offered and accepted, every response eligible -/
def mrCfg : Cfg Nat := ⟨512, fun _ _ => true, id, fun _ => []⟩
def mrReq : Req := ⟨false, vGzip, false, [], []⟩

/-- a writer that is taken back from a pool of writers WITHOUT zeroing (`reuseResponseWriter`, not the code)
    shows the previous request: after any response `wroteHeader` is still true, so the next handler's
    `WriteHeader(404)` is never forwarded and the client is told 200 -/
theorem pooled_writer_would_leak :
    (serveRequests reuseResponseWriter mrCfg [vGzip] [] RW.zero
        [(mrReq, [.write 10]), (mrReq, [.writeHeader 404, .write 10])]).map (fun r => r.final.sent.map (·.1))
      = [some 200, some 200] ∧
    (serve mrCfg [vGzip] [] mrReq [.writeHeader 404, .write 10]).final.sent.map (·.1) = some 404 := by decide

-- the same two requests through the code's `openResponseWriter`: 200 then 404; and two encoded responses in a row
example : (serveRequests openResponseWriter mrCfg [vGzip] [] ⟨[1], true, 500, true, true⟩
    [(mrReq, [.write 10]), (mrReq, [.writeHeader 404, .write 10])]).map (fun r => r.final.sent.map (·.1))
      = [some 200, some 404] := by decide
example : numbered 0 (serveRequests openResponseWriter mrCfg [vGzip] [] RW.zero
    [(mrReq, [.write 600, .flush, .write 5]), (mrReq, [.write 700])]) =
      [(0, [.write 600, .flush, .write 5]), (1, [.write 700])] := by decide

/-- **responseWriter values are created per request, as zero values**: in the source the only place such a
    value comes into being is `var rw responseWriter` in `openResponseWriter` (no composite literal, no `new`,
    nothing taken out of a pool or cache), `initResponseWriter` assigns exactly the four fields it is given, and
    the fields left at zero are `w`, `statusCode`, `wroteHeader` — what `RW.zero` / `St.init` say. A pool of
    writers, a cached writer or a new field changes the regenerated facts and this obligation breaks. -/
theorem response_writer_fresh_matches_source :
    rwOrigins = CaddyModel.Gen.encodeResponseWriterOrigins ∧
    rwStructFields = CaddyModel.Gen.encodeResponseWriterFields ∧
    rwFieldsAssignedByInit = CaddyModel.Gen.encodeInitResponseWriterAssigns ∧
    rwStructFields.filter (fun f => !rwFieldsAssignedByInit.contains f) = rwFieldsLeftZero := by decide

section
variable {α : Type}

/-- a bodiless call (header edit, `WriteHeader` other than 101) on an uncommitted non-CONNECT writer leaves it
    uncommitted: nothing is decided, nothing is sent as final -/
theorem bodiless_keeps_uncommitted (cfg : Cfg α) (st : St α) (op : Op α) (hb : op.bodiless = true)
    (hc : st.isConnect = false) (hw : st.wroteHeader = false) (hs : st.sent = none) (ho : st.encOpen = false) :
    (step cfg st op).isConnect = false ∧ (step cfg st op).wroteHeader = false ∧ (step cfg st op).sent = none ∧
      (step cfg st op).encOpen = false ∧ (step cfg st op).encName = st.encName := by
  cases op with
  | writeHeader s =>
    have h101 : s ≠ 101 := by simpa [Op.bodiless] using hb
    simp only [step, rwWriteHeader, informational, connectImmediate, vary304, dsWriteHeader]
    by_cases h1 : is1xx s = true <;> by_cases h2 : (s == 304 && !hasVary st.hdr) = true <;>
      simp [h1, h2, hc, hw, hs, ho, isInformational, h101]
  | write p => simp [Op.bodiless] at hb
  | flush => simp [Op.bodiless] at hb
  | readFrom cs => simp [Op.bodiless] at hb
  | hset k v => simp [step, hc, hw, hs, ho]
  | hadd k v => simp [step, hc, hw, hs, ho]
  | hdel k => simp [step, hc, hw, hs, ho]

theorem bodiless_run_uncommitted (cfg : Cfg α) : ∀ (ops : List (Op α)) (st : St α),
    (∀ op ∈ ops, op.bodiless = true) → st.isConnect = false → st.wroteHeader = false → st.sent = none →
    st.encOpen = false →
    (run cfg st ops).wroteHeader = false ∧ (run cfg st ops).sent = none ∧ (run cfg st ops).encOpen = false ∧
      (run cfg st ops).encName = st.encName
  | [], st, _, _, hw, hs, ho => ⟨hw, hs, ho, rfl⟩
  | op :: rest, st, hb, hc, hw, hs, ho => by
    obtain ⟨a, b, c, d, e⟩ := bodiless_keeps_uncommitted cfg st op (hb op (List.mem_cons_self ..)) hc hw hs ho
    have ih := bodiless_run_uncommitted cfg rest (step cfg st op)
      (fun o ho' => hb o (List.mem_cons_of_mem _ ho')) a b c d
    show (run cfg (step cfg st op) rest).wroteHeader = false ∧ _
    rw [← e]; exact ih

/-- **the deferred `Close` of an uncommitted writer relabels all or nothing.** Either the declared
    `Content-Length` exceeds `minimum_length` and the header is eligible — then the client is sent `init`'s edit of
    the handler's header (all five edits together) under the handler's status, and the encoder is opened and
    closed; or not — then the header map is not touched at all and whatever is sent is the handler's own header. -/
theorem close_relabels_all_or_nothing (cfg : Cfg α) (st : St α)
    (hw : st.wroteHeader = false) (hs : st.sent = none) (ho : st.encOpen = false) :
    ((clGtMin cfg st.hdr && initOk cfg st) = true ∧
        (rwClose cfg st).sent = some (closeStatus st, initHdr st.encName st.hdr) ∧
        (rwClose cfg st).log.head? = some Ev.ec) ∨
    ((clGtMin cfg st.hdr && initOk cfg st) = false ∧ (rwClose cfg st).hdr = st.hdr ∧
        (rwClose cfg st).encOpen = false ∧ ∀ s h, (rwClose cfg st).sent = some (s, h) → h = st.hdr) := by
  by_cases h1 : clGtMin cfg st.hdr = true <;> by_cases h2 : initOk cfg st = true <;>
    by_cases h3 : st.statusCode = 0 <;> by_cases h4 : isInformational st.statusCode = true <;>
    simp [rwClose, closeHeader, commitHeader, rwInit, encClose, implicitHeader, dsWriteHeader, fixSent, closeStatus,
      h1, h2, h3, h4, hw, hs, ho]

/-- **bodiless responses (HEAD answered from metadata, 204, 304, 1xx then nothing …) are relabelled all or
    nothing.** For every script of header edits and `WriteHeader` calls (any number, any order, any status but
    101), with `h0` the header map as the handler left it: either the response is announced as encoded — then the
    header the client receives is `init`'s edit of `h0`: `Content-Encoding` is the coding, NO `Content-Length` of
    the identity representation remains, no `Accept-Ranges`, `Vary` lists `Accept-Encoding` (the ETag is adjusted by
    `etag_when_encoded`), and `h0` was eligible with a declared length above the minimum — or nothing is
    relabelled: the header map is `h0` and what is sent is `h0`. There is no third case (such as
    `Content-Encoding` set while the identity `Content-Length` stays). -/
theorem bodiless_response_all_or_nothing (cfg : Cfg α) (name : Bytes) (ops : List (Op α))
    (hb : ∀ op ∈ ops, op.bodiless = true) :
    (∃ s h, (runWrapped cfg name false ops).sent = some (s, h) ∧
        h = initHdr name (run cfg (St.init name false) ops).hdr ∧
        hValues h kCE = [name] ∧ hValues h kCL = [] ∧ hValues h kAR = [] ∧ hasVary h = true ∧
        clGtMin cfg (run cfg (St.init name false) ops).hdr = true ∧
        initOk cfg (run cfg (St.init name false) ops) = true) ∨
    ((runWrapped cfg name false ops).hdr = (run cfg (St.init name false) ops).hdr ∧
      ∀ s h, (runWrapped cfg name false ops).sent = some (s, h) →
        h = (run cfg (St.init name false) ops).hdr) := by
  obtain ⟨hw, hs, ho, hn⟩ := bodiless_run_uncommitted cfg ops (St.init name false) hb rfl rfl rfl rfl
  have hn' : (run cfg (St.init name false) ops).encName = name := hn
  rcases close_relabels_all_or_nothing cfg _ hw hs ho with ⟨hc, hsent, _⟩ | ⟨_, hh, _, hall⟩
  · left
    rw [hn'] at hsent
    simp only [Bool.and_eq_true] at hc
    exact ⟨_, _, hsent, rfl, initHdr_CE _ _, initHdr_CL _ _, initHdr_AR _ _, initHdr_vary _ _, hc.1, hc.2⟩
  · right
    exact ⟨hh, hall⟩

end

-- HEAD answered from metadata: Content-Type, a declared length of 2000, a strong tag, 200, no body — relabelled
-- as a whole: gzip, no Content-Length, adjusted tag
example : (∀ op ∈ ([.hset kCT exTextHtml, .hset kCL [50, 48, 48, 48], .hset kEtag exTag, .writeHeader 200] : List (Op Nat)),
      op.bodiless = true) ∧
    (runWrapped exCfg vGzip false [.hset kCT exTextHtml, .hset kCL [50, 48, 48, 48], .hset kEtag exTag, .writeHeader 200]).sent.map
      (fun x => (x.1, hValues x.2 kCE, hValues x.2 kCL, hValues x.2 kEtag)) = some (200, [vGzip], [], [adjustEtag vGzip exTag]) := by
  decide
-- 304 with a small declared length: nothing relabelled, Content-Length stays, Vary added by WriteHeader itself
example : (runWrapped exCfg vGzip false [.hset kCT exTextHtml, .hset kCL [53], .writeHeader 304]).sent.map
      (fun x => (x.1, hValues x.2 kCE, hValues x.2 kCL, hasVary x.2)) = some (304, [], [[53]], true) := by decide
-- hypotheses of `close_relabels_all_or_nothing` / `bodiless_keeps_uncommitted`
example : (St.init vGzip false : St Nat).wroteHeader = false ∧ (St.init vGzip false : St Nat).sent = none ∧
    (St.init vGzip false : St Nat).encOpen = false ∧ (Op.writeHeader 204 : Op Nat).bodiless = true := by decide

end CaddyModel.C15
