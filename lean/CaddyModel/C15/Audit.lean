import CaddyModel.C15.Props
open CaddyModel.C15
#print axioms final_shape
#print axioms decision_once
#print axioms no_body_before_commit
#print axioms no_mixed_stream
#print axioms nothing_lost_or_duplicated
#print axioms transparent_wrapped
#print axioms transparent
#print axioms transparent_bytes
#print axioms negotiated_only_if
#print axioms first_offered_among_accepted
#print axioms chosen_is_most_preferred
#print axioms encoded_only_if
#print axioms headers_when_encoded
#print axioms init_touches_nothing_else
#print axioms etag_when_encoded
#print axioms header_untouched_unless_init
#print axioms close_untouched_unless_init
#print axioms informational_forwarded
#print axioms status_preserved
#print axioms etag_distinct
#print axioms etag_recognised
#print axioms weak_inm_untouched
#print axioms old_code_mixes_streams
#print axioms transparent_old_code_fails
#print axioms status_old_code_fails
#print axioms no101_hypothesis_is_needed
