/-
C15 — the `responseWriter` as an explicit per-request record, and sequences of requests on ONE `Encode` instance.

`Encode.ServeHTTP` calls `openResponseWriter` once per request: `var rw responseWriter` (the zero value of the
struct — no pool, no cache of writers) followed by `initResponseWriter(&rw, encodingName, w, isConnect)`, which
assigns `ResponseWriter`, `encodingName`, `config`, `isConnect` and leaves `w` (nil), `statusCode` (0) and
`wroteHeader` (false) at zero (encode.go:204-222; tied to the source by `Props.response_writer_fresh_matches_source`).
`RW` is that struct without the two pointers into other objects (the embedded writer = the `hdr/sent/log` part of
`St`, made by net/http per request; `config` = `Cfg`). The memory a previous writer occupied is passed along
explicitly (`mem`) so that "the writer of a request owes nothing to earlier requests" is a statement, not a
modelling choice: `openResponseWriter` ignores it, the alternative `reuseResponseWriter` (what a `sync.Pool` of
writers without zeroing would do) does not, and the theorems tell the two apart.

What an instance DOES share between requests are the pooled encoder objects (Pool.lean); `encCallsOf` reads the
calls one response made on its encoder off the main model's log, so that a sequence of requests of the main
model drives the pool model.
-/
import CaddyModel.C15.Pool

namespace CaddyModel.C15

/-- `type responseWriter struct` (encode.go:227-235) without `ResponseWriter` and `config` -/
structure RW where
  encodingName : Bytes
  wOpen : Bool          -- `w != nil`
  statusCode : Nat
  wroteHeader : Bool
  isConnect : Bool
deriving DecidableEq, Repr

/-- `var rw responseWriter` -/
def RW.zero : RW := ⟨[], false, 0, false, false⟩

/-- `initResponseWriter`: assigns the fields it is given, touches nothing else -/
def initResponseWriter (rw : RW) (name : Bytes) (isConnect : Bool) : RW :=
  { rw with encodingName := name, isConnect := isConnect }

/-- `openResponseWriter`: a zero value, whatever the memory held before -/
def openResponseWriter (_mem : RW) (name : Bytes) (isConnect : Bool) : RW :=
  initResponseWriter RW.zero name isConnect

/-- NOT the code: a writer taken back from a pool of writers and initialised without zeroing -/
def reuseResponseWriter (mem : RW) (name : Bytes) (isConnect : Bool) : RW :=
  initResponseWriter mem name isConnect

/-- the struct's fields, the ones `initResponseWriter` assigns, and where values of the type come from — as data,
    compared with the regenerated facts -/
def rwStructFields : List String :=
  ["ResponseWriter", "encodingName", "w", "config", "statusCode", "wroteHeader", "isConnect"]
def rwFieldsAssignedByInit : List String := ["ResponseWriter", "encodingName", "config", "isConnect"]
/-- the fields that keep the zero value: exactly the ones `RW.zero` fixes and `initResponseWriter` keeps -/
def rwFieldsLeftZero : List String := ["w", "statusCode", "wroteHeader"]
def rwOrigins : List String := ["openResponseWriter: var"]

section
variable {α : Type}

/-- the writer state of the main model at the start of a request, from the record -/
def St.ofRW (rw : RW) : St α :=
  ⟨rw.encodingName, rw.wOpen, rw.statusCode, rw.wroteHeader, rw.isConnect, [], none, [], false⟩

/-- the record part of a state -/
def St.rw (st : St α) : RW := ⟨st.encName, st.encOpen, st.statusCode, st.wroteHeader, st.isConnect⟩

/-- one request on the instance: `ServeHTTP` with the writer made by `opener` from the memory `mem`; returns
    the result and the memory as the request leaves it -/
def serveFrom (opener : RW → Bytes → Bool → RW) (cfg : Cfg α) (offered prefer : List Bytes) (mem : RW)
    (req : Req) (ops : List (Op α)) : Result α × RW :=
  match chooseEncoding offered prefer req with
  | some name =>
    (⟨some name, rewriteINM name req.ifNoneMatch, rwClose cfg (run cfg (St.ofRW (opener mem name req.isConnect)) ops)⟩,
     (rwClose cfg (run cfg (St.ofRW (opener mem name req.isConnect)) ops)).rw)
  | none => (⟨none, req.ifNoneMatch, runPlain cfg req.isConnect ops⟩, mem)

/-- a sequence of requests, one after the other, on one instance -/
def serveRequests (opener : RW → Bytes → Bool → RW) (cfg : Cfg α) (offered prefer : List Bytes) :
    RW → List (Req × List (Op α)) → List (Result α)
  | _, [] => []
  | mem, r :: rest =>
    (serveFrom opener cfg offered prefer mem r.1 r.2).1 ::
      serveRequests opener cfg offered prefer (serveFrom opener cfg offered prefer mem r.1 r.2).2 rest

/-- the calls a response made on its encoder (`Write` / `Flush`; the final `Close` belongs to the lifecycle of
    `serveWithPool`), in order, read off the log (which is newest first) -/
def encCallsOf : List (Ev α) → List (EncCall α)
  | [] => []
  | .e c :: t => encCallsOf t ++ [.write c]
  | .ef :: t => encCallsOf t ++ [.flush]
  | _ :: t => encCallsOf t

/-- responses numbered in order of arrival, each with its encoder calls -/
def numbered : Nat → List (Result α) → List (Nat × List (EncCall α))
  | _, [] => []
  | i, r :: rs => (i, encCallsOf r.final.log) :: numbered (i + 1) rs

/-- a call of a handler that sends no body and commits nothing: header edits and `WriteHeader` other than 101
    (HEAD answered from metadata, 204, 304, 1xx …) -/
def Op.bodiless : Op α → Bool
  | .hset _ _ => true
  | .hadd _ _ => true
  | .hdel _ => true
  | .writeHeader s => s != 101
  | _ => false

/-- the final status net/http sends for an uncommitted writer at `Close` time -/
def closeStatus (st : St α) : Nat :=
  if st.statusCode == 0 || isInformational st.statusCode then 200 else st.statusCode

end
end CaddyModel.C15
