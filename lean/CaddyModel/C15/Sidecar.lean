/-
C15 — file_server's choice of a precompressed sidecar (fileserver/staticfiles.go, `ServeHTTP`, the loop over
`encode.AcceptedEncodings(r, fsrv.PrecompressedOrder)`): the SECOND call site of `AcceptedEncodings`, and a
producer of `Content-Encoding` that the encode handler in front trusts (`init` stands aside when the header is
set). For each accepted coding, in order: not configured → next; `Stat` of the sidecar fails or it is a
directory → next; `Open` fails → next (503: give up with that error); otherwise the sidecar is what is served:
ONLY NOW `Content-Encoding` is set (and `Accept-Ranges` removed), the ETag is taken from the sidecar, and the
loop ends. No sidecar → the plain file. Then: other methods than GET / HEAD → 405. An error raised AFTER the
sidecar was chosen (its etag file cannot be read; 405) removes the header again (commit ce4ac64; `dropOnError =
false` is the code of before: `Props.sidecar_error_old_code_fails`).

`headerFirst = true` is the variant that announces the coding BEFORE the open ("describe the representation
first"): `Props.sidecar_header_first_mislabels`. `Props.sidecar_header_matches_body`: for the code as it is,
whatever `Stat` and `Open` do for whichever sidecar, a successful response announces exactly the coding of the
bytes it sends.
-/
import CaddyModel.C15.Model

namespace CaddyModel.C15

/-- what the file system does for one sidecar -/
inductive SideState where
  | absent        -- `Stat` fails (or the name is a directory)
  | ok            -- present and readable
  | openRefused   -- `Stat` succeeds, `Open` fails with not-exist / permission: the loop goes on
  | openFatal     -- `Stat` succeeds, `Open` fails otherwise: 503, the request ends
deriving DecidableEq, Repr

/-- what is sent -/
inductive Served where
  | plain                  -- the file itself
  | sidecar (c : Bytes)    -- the sidecar of coding `c`
deriving DecidableEq, Repr

inductive SideRes where
  | served (status : Nat) (ce : Option Bytes) (body : Option Served)   -- body `none`: HEAD
  | error (status : Nat) (ce : Option Bytes)                            -- the handler returns an error
deriving DecidableEq, Repr

/-- the loop: returns the header it leaves, what it has opened, or the error it ends with -/
def sidecarLoop (headerFirst dropOnError : Bool) (configured : Bytes → Bool) (state : Bytes → SideState)
    (etagFails : Bool) :
    List Bytes → Option Bytes → (Option Bytes × Option Served) ⊕ (Nat × Option Bytes)
  | [], ce => .inl (ce, none)
  | ae :: rest, ce =>
    if !configured ae then sidecarLoop headerFirst dropOnError configured state etagFails rest ce
    else match state ae with
      | .absent => sidecarLoop headerFirst dropOnError configured state etagFails rest ce
      | .openRefused =>
        sidecarLoop headerFirst dropOnError configured state etagFails rest (if headerFirst then some ae else ce)
      | .openFatal => .inr (503, if headerFirst then some ae else ce)
      | .ok => if etagFails then .inr (500, if dropOnError then none else some ae) else .inl (some ae, some (.sidecar ae))

/-- `ServeHTTP` from the sidecar loop on: `post` = a method other than GET / HEAD, `head` = HEAD -/
def serveFile (headerFirst dropOnError : Bool) (accepted : List Bytes) (configured : Bytes → Bool) (state : Bytes → SideState)
    (etagFails post head : Bool) : SideRes :=
  match sidecarLoop headerFirst dropOnError configured state etagFails accepted none with
  | .inr (status, ce) => .error status ce
  | .inl (ce, opened) =>
    if opened.isNone && etagFails then .error 500 ce
    else if post then .error 405 (if dropOnError then none else ce)
    else .served 200 ce (if head then none else some (match opened with | some s => s | none => .plain))

/-- the coding a body is in -/
def Served.coding : Served → Option Bytes
  | .plain => none
  | .sidecar c => some c

end CaddyModel.C15
