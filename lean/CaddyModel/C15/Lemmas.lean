/-
C15 — helper lemmas: http.Header algebra, the header edits of `init`, payload bookkeeping of
every responseWriter method, and the run invariant behind the property theorems.
-/
import CaddyModel.C15.Spec
import CaddyModel.C15.Caddyfile
import CaddyModel.C15.Pool
import CaddyModel.C15.Proxy
import CaddyModel.C15.Recorder
import CaddyModel.C15.Sidecar

set_option linter.unusedSimpArgs false
set_option linter.unusedVariables false

namespace CaddyModel.C15

/-! ## http.Header -/

theorem hValues_del_self (h : Hdr) (k : Bytes) : hValues (hDel h k) k = [] := by
  induction h with
  | nil => rfl
  | cons e t ih =>
    obtain ⟨k', vs⟩ := e
    unfold hDel at *
    by_cases hk : k' = k
    · simp [List.filter, hk, ih]
    · have : (k' == k) = false := by simpa using hk
      simp [List.filter, this, hValues, hk, ih]

theorem hValues_del_ne (h : Hdr) {k k' : Bytes} (hne : k' ≠ k) : hValues (hDel h k) k' = hValues h k' := by
  induction h with
  | nil => rfl
  | cons e t ih =>
    obtain ⟨k2, vs⟩ := e
    unfold hDel at *
    by_cases hk : k2 = k
    · have : k2 ≠ k' := fun h => hne (h ▸ hk)
      simp [List.filter, hk, hValues, ih]
      intro h2; exact absurd (hk ▸ h2) (Ne.symm hne)
    · have : (k2 == k) = false := by simpa using hk
      simp [List.filter, this, hValues, ih]

theorem hValues_set_self (h : Hdr) (k v : Bytes) : hValues (hSet h k v) k = [v] := by
  simp [hSet, hValues]

theorem hValues_set_ne (h : Hdr) {k k' : Bytes} (v : Bytes) (hne : k' ≠ k) :
    hValues (hSet h k v) k' = hValues h k' := by
  simp [hSet, hValues, Ne.symm hne, hValues_del_ne h hne]

theorem hValues_add_self (h : Hdr) (k v : Bytes) : hValues (hAdd h k v) k = hValues h k ++ [v] := by
  simp [hAdd, hValues]

theorem hValues_add_ne (h : Hdr) {k k' : Bytes} (v : Bytes) (hne : k' ≠ k) :
    hValues (hAdd h k v) k' = hValues h k' := by
  simp [hAdd, hValues, Ne.symm hne, hValues_del_ne h hne]

theorem hGet_congr {h h' : Hdr} {k : Bytes} (e : hValues h k = hValues h' k) : hGet h k = hGet h' k := by
  unfold hGet; rw [e]

theorem hasVary_congr {h h' : Hdr} (e : hValues h kVary = hValues h' kVary) : hasVary h = hasVary h' := by
  unfold hasVary; rw [e]

/-! ## the header edits of `init` -/

theorem hValues_etagStep_ne (name : Bytes) (h : Hdr) {k : Bytes} (hne : k ≠ kEtag) :
    hValues (etagStep name h) k = hValues h k := by
  unfold etagStep
  split
  · exact hValues_set_ne h _ hne
  · rfl

theorem hValues_varyStep_ne (h : Hdr) {k : Bytes} (hne : k ≠ kVary) :
    hValues (varyStep h) k = hValues h k := by
  unfold varyStep
  split
  · rfl
  · exact hValues_add_ne h _ hne

theorem hasVary_varyStep (h : Hdr) : hasVary (varyStep h) = true := by
  unfold varyStep
  by_cases hv : hasVary h = true
  · simp [hv]
  · simp [hv]
    unfold hasVary
    rw [hValues_add_self, List.any_append]
    have : varyValueHas vAE = true := by decide
    simp [this]

/-- values of a key that `init` does not edit -/
theorem initHdr_other (name : Bytes) (h : Hdr) {k : Bytes}
    (h1 : k ≠ kCL) (h2 : k ≠ kCE) (h3 : k ≠ kVary) (h4 : k ≠ kAR) (h5 : k ≠ kEtag) :
    hValues (initHdr name h) k = hValues h k := by
  unfold initHdr
  rw [hValues_etagStep_ne _ _ h5, hValues_del_ne _ h4, hValues_varyStep_ne _ h3, hValues_set_ne _ _ h2,
    hValues_del_ne _ h1]

theorem initHdr_CE (name : Bytes) (h : Hdr) : hValues (initHdr name h) kCE = [name] := by
  unfold initHdr
  rw [hValues_etagStep_ne _ _ (by decide), hValues_del_ne _ (by decide), hValues_varyStep_ne _ (by decide),
    hValues_set_self]

theorem initHdr_CL (name : Bytes) (h : Hdr) : hValues (initHdr name h) kCL = [] := by
  unfold initHdr
  rw [hValues_etagStep_ne _ _ (by decide), hValues_del_ne _ (by decide), hValues_varyStep_ne _ (by decide),
    hValues_set_ne _ _ (by decide), hValues_del_self]

theorem initHdr_AR (name : Bytes) (h : Hdr) : hValues (initHdr name h) kAR = [] := by
  unfold initHdr
  rw [hValues_etagStep_ne _ _ (by decide), hValues_del_self]

theorem initHdr_vary (name : Bytes) (h : Hdr) : hasVary (initHdr name h) = true := by
  unfold initHdr
  rw [hasVary_congr (hValues_etagStep_ne _ _ (by decide)), hasVary_congr (hValues_del_ne _ (by decide))]
  exact hasVary_varyStep _

/-- the entity tag before the ETag step of `init` is the handler's -/
theorem initHdr_etag_pre (name : Bytes) (h : Hdr) :
    hValues (hDel (varyStep (hSet (hDel h kCL) kCE name)) kAR) kEtag = hValues h kEtag := by
  rw [hValues_del_ne _ (by decide), hValues_varyStep_ne _ (by decide), hValues_set_ne _ _ (by decide),
    hValues_del_ne _ (by decide)]

theorem initHdr_etag (name : Bytes) (h : Hdr) :
    hValues (initHdr name h) kEtag =
      if !(hGet h kEtag).isEmpty && !hasPrefix vWeakPrefix (hGet h kEtag) then [adjustEtag name (hGet h kEtag)]
      else hValues h kEtag := by
  unfold initHdr etagStep
  rw [hGet_congr (initHdr_etag_pre name h)]
  split
  · rw [hValues_set_self]
  · exact initHdr_etag_pre name h

/-! ## events -/

section
variable {α : Type}

theorem headerOnly_payloads : ∀ (log : List (Ev α)), headerOnly log = true → payloads log = []
  | [], _ => rfl
  | ev :: t, h => by
    simp only [headerOnly, List.all_cons, Bool.and_eq_true] at h
    obtain ⟨h1, h2⟩ := h
    cases ev <;> simp [Ev.isWh] at h1
    simpa [payloads] using headerOnly_payloads t h2

theorem headerOnly_plainOnly (log : List (Ev α)) (h : headerOnly log = true) : plainOnly log = true := by
  simp only [headerOnly, plainOnly, List.all_eq_true] at *
  intro ev hev
  have := h ev hev
  cases ev <;> simp_all [Ev.isWh, Ev.plainOk]

theorem headerOnly_encOnly (log : List (Ev α)) (h : headerOnly log = true) : encOnly log = true := by
  simp only [headerOnly, encOnly, List.all_eq_true] at *
  intro ev hev
  have := h ev hev
  cases ev <;> simp_all [Ev.isWh, Ev.encOk]

theorem payloads_head_mono (log : List (Ev α)) (ev : Ev α) (p : α)
    (h : (payloads log).head? = some p) : (payloads (ev :: log)).head? = some p := by
  cases ev <;> simp [payloads] <;> (cases hp : payloads log <;> simp_all)

theorem minLenOk_mono (cfg : Cfg α) (h0 : Hdr) (log : List (Ev α)) (ev : Ev α)
    (h : MinLenOk cfg h0 log) : MinLenOk cfg h0 (ev :: log) := by
  rcases h with ⟨p, hp, hs⟩ | h
  · exact Or.inl ⟨p, payloads_head_mono log ev p hp, hs⟩
  · exact Or.inr h

/-! ## the run invariant (no 101) -/

/-- * before the writer has committed (`wroteHeader = false`) nothing but 1xx headers went down, the final
      header is not fixed and no encoder is open;
    * while an encoder is open only encoder output went down and the header that was (or will be) sent is the
      one `init` produced from an eligible handler header;
    * committed without an encoder: only plain bytes went down. -/
structure Inv (cfg : Cfg α) (name : Bytes) (st : St α) : Prop where
  nm : st.encName = name
  pre : st.wroteHeader = false → st.sent = none ∧ st.encOpen = false ∧ headerOnly st.log = true
  opn : st.encOpen = true → encOnly st.log = true ∧
    ∃ s sc h0, st.sent = some (s, initHdr name h0) ∧ InitOk cfg sc h0 ∧ MinLenOk cfg h0 st.log
  pln : st.wroteHeader = true → st.encOpen = false → plainOnly st.log = true

theorem Inv.congr {cfg : Cfg α} {name : Bytes} {st st' : St α} (h : Inv cfg name st)
    (h1 : st'.encName = st.encName) (h2 : st'.encOpen = st.encOpen) (h3 : st'.wroteHeader = st.wroteHeader)
    (h4 : st'.sent = st.sent) (h5 : st'.log = st.log) : Inv cfg name st' :=
  ⟨by rw [h1]; exact h.nm, by rw [h3, h4, h2, h5]; exact h.pre, by rw [h2, h4, h5]; exact h.opn,
    by rw [h3, h2, h5]; exact h.pln⟩

theorem inv_init (cfg : Cfg α) (name : Bytes) (ic : Bool) : Inv cfg name (St.init name ic) :=
  ⟨rfl, fun _ => ⟨rfl, rfl, rfl⟩, fun h => by simp [St.init] at h, fun h => by simp [St.init] at h⟩

/-- appending one event that is legal in the current phase, without touching the fixed header -/
theorem Inv.ext {cfg : Cfg α} {name : Bytes} {st st' : St α} (h : Inv cfg name st) (ev : Ev α)
    (h1 : st'.encName = st.encName) (h2 : st'.encOpen = st.encOpen) (h3 : st'.wroteHeader = st.wroteHeader)
    (h5 : st'.log = ev :: st.log)
    (hpre : st.wroteHeader = false → ev.isWh = true ∧ st'.sent = st.sent)
    (hopn : st.encOpen = true → ev.encOk = true ∧ st'.sent = st.sent)
    (hpln : st.wroteHeader = true → st.encOpen = false → ev.plainOk = true) : Inv cfg name st' := by
  refine ⟨by rw [h1]; exact h.nm, ?_, ?_, ?_⟩
  · intro hw
    rw [h3] at hw
    obtain ⟨a, b, c⟩ := h.pre hw
    obtain ⟨d, e⟩ := hpre hw
    refine ⟨by rw [e, a], by rw [h2, b], ?_⟩
    rw [h5]; simp [headerOnly] at c ⊢; exact ⟨d, c⟩
  · intro ho
    rw [h2] at ho
    obtain ⟨a, s, sc, h0, b, c, d⟩ := h.opn ho
    obtain ⟨e, f⟩ := hopn ho
    refine ⟨?_, s, sc, h0, by rw [f, b], c, by rw [h5]; exact minLenOk_mono cfg h0 _ ev d⟩
    rw [h5]; simp [encOnly] at a ⊢; exact ⟨e, a⟩
  · intro hw ho
    rw [h3] at hw; rw [h2] at ho
    have a := h.pln hw ho
    rw [h5]; simp [plainOnly] at a ⊢; exact ⟨hpln hw ho, a⟩

theorem fixSent_some (s : Nat) (h : Hdr) (x : Nat × Hdr) : fixSent s h (some x) = some x := rfl

/-- an open encoder means the header is already fixed -/
theorem Inv.sent_of_open {cfg : Cfg α} {name : Bytes} {st : St α} (h : Inv cfg name st)
    (ho : st.encOpen = true) : ∃ x, st.sent = some x := by
  obtain ⟨_, s, _, h0, b, _⟩ := h.opn ho
  exact ⟨_, b⟩

theorem Inv.wrote_of_open {cfg : Cfg α} {name : Bytes} {st : St α} (h : Inv cfg name st)
    (ho : st.encOpen = true) : st.wroteHeader = true := by
  cases hw : st.wroteHeader with
  | true => rfl
  | false => have := (h.pre hw).2.1; simp [ho] at this

/-! ### WriteHeader -/

theorem is1xx_informational {s : Nat} (h1 : is1xx s = true) (h : s ≠ 101) : isInformational s = true := by
  simp [isInformational, h1, h]

theorem not_informational_2xx {s : Nat} (h : (200 ≤ s && s ≤ 299) = true) : isInformational s = false := by
  simp [isInformational, is1xx] at *
  omega

theorem inv_vary304 {cfg : Cfg α} {name : Bytes} {st : St α} (s : Nat) (h : Inv cfg name st) :
    Inv cfg name (vary304 s st) := by
  unfold vary304; split
  · exact h.congr rfl rfl rfl rfl rfl
  · exact h

theorem inv_informational {cfg : Cfg α} {name : Bytes} {st : St α} (s : Nat) (h101 : s ≠ 101)
    (h : Inv cfg name st) : Inv cfg name (informational s st) := by
  unfold informational
  split
  · rename_i h1
    have hi := is1xx_informational h1 h101
    refine h.ext (.wh s st.hdr) rfl rfl rfl rfl ?_ ?_ ?_ <;> intros <;> simp [dsWriteHeader, hi, Ev.isWh, Ev.encOk, Ev.plainOk]
  · exact h

theorem inv_connectImmediate {cfg : Cfg α} {name : Bytes} {st : St α} (s : Nat)
    (h : Inv cfg name st) : Inv cfg name (connectImmediate s st) := by
  unfold connectImmediate
  split
  · rename_i hc
    have hni : isInformational s = false := not_informational_2xx (by simp at hc ⊢; exact hc.2)
    refine ⟨h.nm, fun hw => by simp at hw, ?_, ?_⟩
    · intro ho
      have ho' : st.encOpen = true := ho
      obtain ⟨a, s', sc, h0, b, c, d⟩ := h.opn ho'
      refine ⟨?_, s', sc, h0, ?_, c, ?_⟩
      · simp [dsWriteHeader, encOnly, Ev.encOk] at a ⊢; exact a
      · simp [dsWriteHeader, hni, b, fixSent]
      · exact minLenOk_mono cfg h0 _ _ d
    · intro _ ho
      have ho' : st.encOpen = false := ho
      have : plainOnly st.log = true := by
        cases hw : st.wroteHeader with
        | true => exact h.pln hw ho'
        | false => exact headerOnly_plainOnly _ (h.pre hw).2.2
      simp [dsWriteHeader, plainOnly, Ev.plainOk] at this ⊢; exact this
  · exact h

theorem inv_rwWriteHeader {cfg : Cfg α} {name : Bytes} {st : St α} (s : Nat) (h101 : s ≠ 101)
    (h : Inv cfg name st) : Inv cfg name (rwWriteHeader st s) := by
  unfold rwWriteHeader
  exact inv_informational s h101 (inv_connectImmediate s (inv_vary304 s (h.congr rfl rfl rfl rfl rfl)))

theorem inv_connectDefault {cfg : Cfg α} {name : Bytes} {st : St α}
    (h : Inv cfg name st) : Inv cfg name (connectDefault st) := by
  unfold connectDefault
  split
  · exact inv_rwWriteHeader 200 (by decide) h
  · exact h

/-! ### init / Write -/

theorem rwInit_spec (cfg : Cfg α) (st : St α) :
    rwInit cfg st = st ∨
    (rwInit cfg st = { st with encOpen := true, hdr := initHdr st.encName st.hdr } ∧ InitOk cfg st.statusCode st.hdr) := by
  unfold rwInit
  by_cases h : initOk cfg st = true
  · right
    refine ⟨by simp [h], ?_⟩
    simp [initOk] at h
    exact ⟨by simpa using h.1.1, h.1.2, h.2⟩
  · left; simp [h]

theorem clGtMin_sniff (cfg : Cfg α) (st : St α) (p : α) :
    clGtMin cfg (sniffType cfg st p).hdr = clGtMin cfg st.hdr := by
  unfold sniffType
  by_cases hct : (hGet st.hdr kCT).isEmpty = true
  · simp only [hct, if_true, clGtMin]
    rw [hGet_congr (hValues_set_ne st.hdr _ (by decide : kCL ≠ kCT))]
  · simp only [hct]; rfl

theorem headerOnly_cons_wh (s : Nat) (snap : Hdr) (log : List (Ev α)) (h : headerOnly log = true) :
    headerOnly (Ev.wh s snap :: log) = true := by
  simp only [headerOnly, List.all_cons, Ev.isWh, Bool.true_and]; exact h

theorem commitHeader_spec (st : St α) (hw : st.wroteHeader = false) (hs : st.sent = none)
    (hl : headerOnly st.log = true) :
    (commitHeader st).encName = st.encName ∧ (commitHeader st).encOpen = st.encOpen ∧
    (commitHeader st).wroteHeader = true ∧ (commitHeader st).hdr = st.hdr ∧
    headerOnly (commitHeader st).log = true ∧
    ((commitHeader st).sent = none ∨ ∃ s, (commitHeader st).sent = some (s, st.hdr)) := by
  unfold commitHeader
  rw [if_pos (by simp [hw])]
  by_cases hz : (st.statusCode != 0) = true
  · rw [if_pos hz]
    refine ⟨rfl, rfl, rfl, rfl, headerOnly_cons_wh _ _ _ hl, ?_⟩
    by_cases hi : isInformational st.statusCode = true
    · left; simp [dsWriteHeader, hi, hs]
    · right; exact ⟨st.statusCode, by simp [dsWriteHeader, hi, hs, fixSent]⟩
  · rw [if_neg hz]
    exact ⟨rfl, rfl, rfl, rfl, hl, Or.inl hs⟩

/-- what the eligibility decision of the first `Write` leaves behind -/
theorem decide1_spec (cfg : Cfg α) (st : St α) (p : α) :
    (decide1 cfg st p).log = st.log ∧ (decide1 cfg st p).sent = st.sent ∧
    (decide1 cfg st p).wroteHeader = st.wroteHeader ∧ (decide1 cfg st p).encName = st.encName ∧
    (decide1 cfg st p).statusCode = st.statusCode ∧
    ((decide1 cfg st p).encOpen = st.encOpen ∨
      (st.wroteHeader = false ∧ cfg.minLen > 0 ∧ (decide1 cfg st p).encOpen = true ∧
        ∃ h0, (decide1 cfg st p).hdr = initHdr st.encName h0 ∧ InitOk cfg st.statusCode h0 ∧
          ((Int.ofNat (cfg.size p)) > cfg.minLen ∨ clGtMin cfg h0 = true))) := by
  unfold decide1
  by_cases hc : (!st.wroteHeader && decide (cfg.minLen > 0)) = true
  · simp only [hc, if_true]
    by_cases hg : gtMinLength cfg st p = true
    · simp only [hg, if_true]
      have hsn : (sniffType cfg st p).log = st.log ∧ (sniffType cfg st p).sent = st.sent ∧
          (sniffType cfg st p).wroteHeader = st.wroteHeader ∧ (sniffType cfg st p).encName = st.encName ∧
          (sniffType cfg st p).statusCode = st.statusCode ∧ (sniffType cfg st p).encOpen = st.encOpen := by
        unfold sniffType; split <;> simp
      obtain ⟨a1, a2, a3, a4, a5, a6⟩ := hsn
      rcases rwInit_spec cfg (sniffType cfg st p) with e | ⟨e, ok⟩
      · rw [e]; exact ⟨a1, a2, a3, a4, a5, Or.inl a6⟩
      · rw [e]
        simp only [Bool.and_eq_true, Bool.not_eq_true', decide_eq_true_eq] at hc
        refine ⟨a1, a2, a3, a4, a5, Or.inr ⟨hc.1, hc.2, rfl, (sniffType cfg st p).hdr, by rw [a4], by rw [← a5]; exact ok, ?_⟩⟩
        rw [clGtMin_sniff]
        simp only [gtMinLength, Bool.or_eq_true, decide_eq_true_eq] at hg
        exact hg
    · simp [hg]
  · simp [hc]

theorem inv_emit_committed {cfg : Cfg α} {name : Bytes} {st : St α} (p : α)
    (h : Inv cfg name st) (hw : st.wroteHeader = true) : Inv cfg name (emit st p) := by
  unfold emit
  split
  · rename_i ho
    obtain ⟨x, hx⟩ := h.sent_of_open ho
    refine h.ext (.e p) rfl rfl rfl rfl ?_ ?_ ?_ <;> intros <;>
      simp_all [encWrite, implicitHeader, fixSent, Ev.encOk]
  · rename_i ho
    refine h.ext (.w p) rfl rfl rfl rfl ?_ ?_ ?_ <;> intros <;>
      simp_all [dsWrite, implicitHeader, Ev.plainOk]

theorem commitHeader_noop (st : St α) (hw : st.wroteHeader = true) : commitHeader st = st := by
  simp [commitHeader, hw]

theorem decide1_noop (cfg : Cfg α) (st : St α) (p : α) (hw : st.wroteHeader = true) : decide1 cfg st p = st := by
  simp [decide1, hw]

/-- the first non-empty `Write`: decide, commit the header, emit -/
theorem inv_first_write {cfg : Cfg α} {name : Bytes} {st : St α} (p : α)
    (h : Inv cfg name st) (hw : st.wroteHeader = false) :
    Inv cfg name (emit (commitHeader (decide1 cfg st p)) p) := by
  obtain ⟨hs, ho, hl⟩ := h.pre hw
  obtain ⟨d1, d2, d3, d4, d5, d6⟩ := decide1_spec cfg st p
  generalize decide1 cfg st p = st2 at *
  rw [hw] at d3; rw [hs] at d2; rw [h.nm] at d4
  have hpl : payloads st.log = [] := headerOnly_payloads _ hl
  -- the committed state
  have c1 := commitHeader_spec st2 d3 d2 (by rw [d1]; exact hl)
  rw [d4] at c1
  obtain ⟨e1, e2, e3, e4, e5, e6⟩ := c1
  generalize commitHeader st2 = st3 at *
  have hpl3 : payloads st3.log = [] := headerOnly_payloads _ e5
  unfold emit
  by_cases ho3 : st3.encOpen = true
  · simp only [ho3, if_true]
    have hopen : st2.encOpen = true := by rw [← e2]; exact ho3
    rcases d6 with d6 | ⟨_, _, _, h0, f1, f2, f3⟩
    · rw [ho] at d6; rw [d6] at hopen; cases hopen
    · refine ⟨e1, fun hw' => by simp [encWrite, implicitHeader, e3] at hw', fun _ => ⟨?_, ?_⟩, fun _ ho' => ?_⟩
      · have := headerOnly_encOnly _ e5
        simp [encWrite, implicitHeader, encOnly, Ev.encOk] at this ⊢; exact this
      · have hsent : ∃ s, (encWrite st3 p).sent = some (s, initHdr name h0) := by
          rcases e6 with e6 | ⟨s, e6⟩
          · exact ⟨200, by simp [encWrite, implicitHeader, e6, fixSent, e4, f1, h.nm]⟩
          · exact ⟨s, by simp [encWrite, implicitHeader, e6, fixSent, f1, h.nm]⟩
        obtain ⟨s, hs'⟩ := hsent
        refine ⟨s, st.statusCode, h0, hs', f2, ?_⟩
        have hp : (payloads (encWrite st3 p).log).head? = some p := by
          simp [encWrite, implicitHeader, payloads, hpl3]
        rcases f3 with f3 | f3
        · exact Or.inl ⟨p, hp, f3⟩
        · exact Or.inr f3
      · simp [encWrite, implicitHeader, ho3] at ho'
  · simp only [ho3]
    have ho3' : st3.encOpen = false := by simpa using ho3
    refine ⟨e1, fun hw' => by simp [dsWrite, implicitHeader, e3] at hw', fun ho' => ?_, fun _ _ => ?_⟩
    · simp [dsWrite, implicitHeader, ho3'] at ho'
    · have := headerOnly_plainOnly _ e5
      simp [dsWrite, implicitHeader, plainOnly, Ev.plainOk] at this ⊢; exact this

theorem inv_rwWrite {cfg : Cfg α} {name : Bytes} {st : St α} (p : α)
    (h : Inv cfg name st) : Inv cfg name (rwWrite cfg st p) := by
  unfold rwWrite
  split
  · exact h
  · have h' := inv_connectDefault h
    generalize connectDefault st = st1 at *
    cases hw : st1.wroteHeader with
    | true => rw [decide1_noop _ _ _ hw, commitHeader_noop _ hw]; exact inv_emit_committed p h' hw
    | false => exact inv_first_write p h' hw

/-! ### Flush -/

theorem inv_encWrite {cfg : Cfg α} {name : Bytes} {st : St α} (p : α)
    (h : Inv cfg name st) (ho : st.encOpen = true) : Inv cfg name (encWrite st p) := by
  have := inv_emit_committed p h (h.wrote_of_open ho)
  simpa [emit, ho] using this

theorem inv_dsWrite {cfg : Cfg α} {name : Bytes} {st : St α} (p : α)
    (h : Inv cfg name st) (hw : st.wroteHeader = true) (ho : st.encOpen = false) : Inv cfg name (dsWrite st p) := by
  have := inv_emit_committed p h hw
  simpa [emit, ho] using this

theorem inv_flushThrough {cfg : Cfg α} {name : Bytes} {st : St α}
    (h : Inv cfg name st) (hw : st.wroteHeader = true) : Inv cfg name (flushThrough st) := by
  unfold flushThrough
  by_cases ho : st.encOpen = true
  · obtain ⟨x, hx⟩ := h.sent_of_open ho
    simp only [ho, if_true]
    have h1 : Inv cfg name (encFlush st) := by
      refine h.ext .ef rfl rfl rfl rfl ?_ ?_ ?_ <;> intros <;>
        simp_all [encFlush, implicitHeader, fixSent, Ev.encOk]
    refine h1.ext .fl rfl rfl rfl rfl ?_ ?_ ?_ <;> intros <;>
      simp_all [dsFlush, encFlush, implicitHeader, fixSent, Ev.encOk]
  · simp only [ho]
    refine h.ext .fl rfl rfl rfl rfl ?_ ?_ ?_ <;> intros <;>
      simp_all [dsFlush, implicitHeader, Ev.plainOk]

theorem inv_rwFlush {cfg : Cfg α} {name : Bytes} {st : St α}
    (h : Inv cfg name st) : Inv cfg name (rwFlush st) := by
  unfold rwFlush
  have h' := inv_connectDefault h
  generalize connectDefault st = st1 at *
  cases hw : st1.wroteHeader with
  | true => simpa [hw] using inv_flushThrough h' hw
  | false => simpa [hw] using h'

/-! ### ReadFrom -/

theorem emit_wrote (st : St α) (p : α) : (emit st p).wroteHeader = st.wroteHeader := by
  unfold emit; split <;> rfl

theorem commitHeader_wrote (st : St α) : (commitHeader st).wroteHeader = true := by
  unfold commitHeader
  cases hw : st.wroteHeader <;> simp [hw]

theorem rwWrite_wrote (cfg : Cfg α) (st : St α) (p : α) (hp : (cfg.size p == 0) = false) :
    (rwWrite cfg st p).wroteHeader = true := by
  unfold rwWrite
  simp only [hp]
  rw [if_neg (by simp), emit_wrote, commitHeader_wrote]

theorem rwWrite_wrote_mono (cfg : Cfg α) (st : St α) (p : α) (hw : st.wroteHeader = true) :
    (rwWrite cfg st p).wroteHeader = true := by
  unfold rwWrite
  split
  · exact hw
  · have h1 : (connectDefault st) = st := by simp [connectDefault, hw]
    rw [h1, decide1_noop _ _ _ hw, commitHeader_noop _ hw, emit_wrote]; exact hw

theorem nonEmpty_size (cfg : Cfg α) (chunks : List α) : ∀ c ∈ nonEmpty cfg chunks, (cfg.size c == 0) = false := by
  intro c hc
  simp [nonEmpty, List.mem_filter] at hc
  simpa using hc.2

/-- the sniffing phase keeps the invariant; if it used up its allowance it has written something -/
theorem inv_sniffLoop {cfg : Cfg α} {name : Bytes} :
    ∀ (chunks : List α) (n : Nat) (st : St α), Inv cfg name st → (∀ c ∈ chunks, (cfg.size c == 0) = false) →
      Inv cfg name (sniffLoop cfg chunks n st).1 ∧
      ((sniffLoop cfg chunks n st).2.2 = 0 → n ≠ 0 ∨ st.wroteHeader = true → (sniffLoop cfg chunks n st).1.wroteHeader = true)
  | [], n, st, h, _ => by
    simp only [sniffLoop]
    exact ⟨h, fun hn hor => by rcases hor with h1 | h1; exact absurd hn h1; exact h1⟩
  | c :: cs, n, st, h, hne => by
    unfold sniffLoop
    by_cases hn : n = 0
    · simp only [hn, if_true]
      exact ⟨h, fun _ hor => by rcases hor with h1 | h1; exact absurd rfl h1; exact h1⟩
    · simp only [hn, if_false]
      have hc := hne c (List.mem_cons_self)
      have h1 : Inv cfg name { rwWrite cfg st c with unreal := st.unreal || decide (cfg.size c > n) } :=
        (inv_rwWrite c h).congr rfl rfl rfl rfl rfl
      have hw1 : ({ rwWrite cfg st c with unreal := st.unreal || decide (cfg.size c > n) } : St α).wroteHeader = true :=
        rwWrite_wrote cfg st c hc
      obtain ⟨i1, i2⟩ := inv_sniffLoop cs (n - cfg.size c) _ h1 (fun x hx => hne x (List.mem_cons_of_mem _ hx))
      exact ⟨i1, fun hz _ => i2 hz (Or.inr hw1)⟩

theorem inv_commitHeader_plain {cfg : Cfg α} {name : Bytes} {st : St α} (h : Inv cfg name st)
    (ho : st.encOpen = false) : Inv cfg name (commitHeader st) ∧ (commitHeader st).wroteHeader = true ∧
      (commitHeader st).encOpen = false := by
  cases hw : st.wroteHeader with
  | true => rw [commitHeader_noop _ hw]; exact ⟨h, hw, ho⟩
  | false =>
    obtain ⟨hs, _, hl⟩ := h.pre hw
    obtain ⟨c1, c2, c3, _, c5, _⟩ := commitHeader_spec st hw hs hl
    refine ⟨⟨by rw [c1]; exact h.nm, fun hw' => (by rw [c3] at hw'; cases hw'), fun ho' => ?_,
      fun _ _ => headerOnly_plainOnly _ c5⟩, c3, by rw [c2]; exact ho⟩
    rw [c2, ho] at ho'; cases ho'

theorem inv_copyRest {cfg : Cfg α} {name : Bytes} :
    ∀ (chunks : List α) (st : St α), Inv cfg name st → Inv cfg name (copyRest st chunks) := by
  intro chunks st h
  unfold copyRest
  by_cases ho : st.encOpen = true
  · simp only [ho, if_true]
    induction chunks generalizing st with
    | nil => exact h
    | cons c cs ih => exact ih (encWrite st c) (inv_encWrite c h ho) (by simp [encWrite, implicitHeader, ho])
  · simp only [ho]
    have ho' : st.encOpen = false := by simpa using ho
    obtain ⟨h', hw, ho2⟩ := inv_commitHeader_plain h ho'
    generalize commitHeader st = s1 at *
    clear h ho ho'
    induction chunks generalizing s1 with
    | nil => exact h'
    | cons c cs ih =>
      exact ih (dsWrite s1 c) (inv_dsWrite c h' hw ho2) (by simp [dsWrite, implicitHeader, hw])
        (by simp [dsWrite, implicitHeader, ho2])

theorem inv_rwReadFrom {cfg : Cfg α} {name : Bytes} {st : St α} (chunks : List α)
    (h : Inv cfg name st) : Inv cfg name (rwReadFrom cfg st chunks) := by
  unfold rwReadFrom
  by_cases hc : (!st.wroteHeader && decide (cfg.minLen > 0)) = true
  · simp only [hc, if_true]
    obtain ⟨i1, _⟩ := inv_sniffLoop (nonEmpty cfg chunks) sniffLen st h (nonEmpty_size cfg chunks)
    unfold afterSniff
    by_cases hz : (sniffLoop cfg (nonEmpty cfg chunks) sniffLen st).2.2 = 0
    · simp only [hz, if_true]
      exact inv_copyRest _ _ i1
    · simp only [hz, if_false]; exact i1
  · simp only [hc]
    exact inv_copyRest _ _ h

/-! ### any script -/

theorem inv_step {cfg : Cfg α} {name : Bytes} {st : St α} (op : Op α)
    (h101 : op ≠ Op.writeHeader 101) (h : Inv cfg name st) : Inv cfg name (step cfg st op) := by
  cases op with
  | writeHeader s => exact inv_rwWriteHeader s (fun e => h101 (by rw [e])) h
  | write p => exact inv_rwWrite p h
  | flush => exact inv_rwFlush h
  | readFrom cs => exact inv_rwReadFrom cs h
  | hset k v => exact h.congr rfl rfl rfl rfl rfl
  | hadd k v => exact h.congr rfl rfl rfl rfl rfl
  | hdel k => exact h.congr rfl rfl rfl rfl rfl

theorem inv_run {cfg : Cfg α} {name : Bytes} :
    ∀ (ops : List (Op α)) (st : St α), No101 ops → Inv cfg name st → Inv cfg name (run cfg st ops)
  | [], _, _, h => h
  | op :: ops, st, h101, h => by
    have : run cfg st (op :: ops) = run cfg (step cfg st op) ops := rfl
    rw [this]
    exact inv_run ops _ (fun o ho => h101 o (List.mem_cons_of_mem _ ho))
      (inv_step op (h101 op List.mem_cons_self) h)

/-! ### Close -/

theorem shape_rwClose {cfg : Cfg α} {name : Bytes} {st : St α} (h : Inv cfg name st) :
    Shape cfg name (rwClose cfg st) := by
  unfold rwClose closeHeader
  cases hw : st.wroteHeader with
  | true =>
    simp only [Bool.not_true, Bool.false_eq_true, if_false]
    by_cases ho : st.encOpen = true
    · simp only [ho, if_true]
      obtain ⟨a, s, sc, h0, b, c, d⟩ := h.opn ho
      exact .encoded st.log s sc h0 rfl a (by simp [encClose, implicitHeader, b, fixSent]) c d
    · simp only [ho]
      exact .identity (h.pln hw (by simpa using ho))
  | false =>
    simp only [Bool.not_false, if_true]
    obtain ⟨hs, ho, hl⟩ := h.pre hw
    -- the state after the optional `init`
    have key : ∃ s1 : St α, (if clGtMin cfg st.hdr = true then rwInit cfg st else st) = s1 ∧
        s1.wroteHeader = false ∧ s1.sent = none ∧ s1.log = st.log ∧
        (s1.encOpen = false ∨ (s1.encOpen = true ∧ s1.hdr = initHdr name st.hdr ∧
          InitOk cfg st.statusCode st.hdr ∧ clGtMin cfg st.hdr = true)) := by
      by_cases hc : clGtMin cfg st.hdr = true
      · simp only [hc, if_true]
        rcases rwInit_spec cfg st with e | ⟨e, ok⟩
        · exact ⟨_, rfl, by rw [e]; exact hw, by rw [e]; exact hs, by rw [e], Or.inl (by rw [e]; exact ho)⟩
        · rw [e]
          exact ⟨_, rfl, hw, hs, rfl, Or.inr ⟨rfl, by simp [h.nm], ok, by simp [hc]⟩⟩
      · simp only [hc]
        exact ⟨_, rfl, hw, hs, rfl, Or.inl ho⟩
    obtain ⟨s1, e, k1, k2, k3, k4⟩ := key
    rw [e]
    obtain ⟨c1, c2, c3, c4, c5, c6⟩ := commitHeader_spec s1 k1 k2 (by rw [k3]; exact hl)
    generalize commitHeader s1 = s2 at *
    rcases k4 with k4 | ⟨k4, k5, k6, k7⟩
    · have : s2.encOpen = false := by rw [c2, k4]
      simp only [this, Bool.false_eq_true, if_false]
      exact .identity (headerOnly_plainOnly _ c5)
    · have : s2.encOpen = true := by rw [c2, k4]
      simp only [this, if_true]
      have hsent : ∃ s, (encClose s2).sent = some (s, initHdr name st.hdr) := by
        rcases c6 with c6 | ⟨s, c6⟩
        · exact ⟨200, by simp [encClose, implicitHeader, c6, fixSent, c4, k5]⟩
        · exact ⟨s, by simp [encClose, implicitHeader, c6, fixSent, k5]⟩
      obtain ⟨s, hs'⟩ := hsent
      exact .encoded s2.log s st.statusCode st.hdr rfl (headerOnly_encOnly _ c5) hs' k6 (Or.inr k7)

/-! ## payload bookkeeping (holds for every configuration) -/

theorem payloads_dsWriteHeader (st : St α) (s : Nat) : payloads (dsWriteHeader st s).log = payloads st.log := by
  simp [dsWriteHeader, payloads]

theorem payloads_rwWriteHeader (st : St α) (s : Nat) : payloads (rwWriteHeader st s).log = payloads st.log := by
  unfold rwWriteHeader informational connectImmediate vary304
  split <;> split <;> split <;> simp [dsWriteHeader, payloads]

theorem payloads_connectDefault (st : St α) : payloads (connectDefault st).log = payloads st.log := by
  unfold connectDefault; split
  · exact payloads_rwWriteHeader st 200
  · rfl

theorem payloads_commitHeader (st : St α) : payloads (commitHeader st).log = payloads st.log := by
  unfold commitHeader; split
  · split <;> simp [dsWriteHeader, payloads]
  · rfl

theorem payloads_emit (st : St α) (p : α) : payloads (emit st p).log = payloads st.log ++ [p] := by
  unfold emit; split <;> simp [encWrite, dsWrite, implicitHeader, payloads]

theorem payloads_rwWrite (cfg : Cfg α) (st : St α) (p : α) :
    payloads (rwWrite cfg st p).log = payloads st.log ++ opPayloads cfg (.write p) := by
  unfold rwWrite
  by_cases hz : (cfg.size p == 0) = true
  · simp [opPayloads, hz]
  · rw [if_neg hz, payloads_emit, payloads_commitHeader, (decide1_spec cfg _ p).1, payloads_connectDefault]
    simp [opPayloads, hz]

theorem payloads_rwFlush (st : St α) : payloads (rwFlush st).log = payloads st.log := by
  unfold rwFlush flushThrough
  split
  · exact payloads_connectDefault st
  · split <;> simp [dsFlush, encFlush, implicitHeader, payloads, payloads_connectDefault]

theorem payloads_sniffLoop (cfg : Cfg α) :
    ∀ (chunks : List α) (n : Nat) (st : St α), (∀ c ∈ chunks, (cfg.size c == 0) = false) →
      payloads (sniffLoop cfg chunks n st).1.log ++ (sniffLoop cfg chunks n st).2.1 = payloads st.log ++ chunks ∧
      ((sniffLoop cfg chunks n st).2.2 ≠ 0 → (sniffLoop cfg chunks n st).2.1 = [])
  | [], n, st, _ => by simp [sniffLoop]
  | c :: cs, n, st, hne => by
    unfold sniffLoop
    by_cases hn : n = 0
    · simp [hn]
    · simp only [hn, if_false]
      obtain ⟨i1, i2⟩ := payloads_sniffLoop cfg cs (n - cfg.size c)
        { rwWrite cfg st c with unreal := st.unreal || decide (cfg.size c > n) }
        (fun x hx => hne x (List.mem_cons_of_mem _ hx))
      refine ⟨?_, i2⟩
      rw [i1]
      show payloads (rwWrite cfg st c).log ++ cs = _
      rw [payloads_rwWrite]
      simp [opPayloads, hne c List.mem_cons_self]

theorem payloads_foldl_encWrite : ∀ (chunks : List α) (st : St α),
    payloads (chunks.foldl encWrite st).log = payloads st.log ++ chunks
  | [], st => by simp
  | c :: cs, st => by
    rw [List.foldl_cons, payloads_foldl_encWrite cs]
    simp [encWrite, implicitHeader, payloads]

theorem payloads_foldl_dsWrite : ∀ (chunks : List α) (st : St α),
    payloads (chunks.foldl dsWrite st).log = payloads st.log ++ chunks
  | [], st => by simp
  | c :: cs, st => by
    rw [List.foldl_cons, payloads_foldl_dsWrite cs]
    simp [dsWrite, implicitHeader, payloads]

theorem payloads_copyRest (st : St α) (chunks : List α) :
    payloads (copyRest st chunks).log = payloads st.log ++ chunks := by
  unfold copyRest; split
  · exact payloads_foldl_encWrite _ _
  · rw [payloads_foldl_dsWrite, payloads_commitHeader]

theorem payloads_rwReadFrom (cfg : Cfg α) (st : St α) (chunks : List α) :
    payloads (rwReadFrom cfg st chunks).log = payloads st.log ++ nonEmpty cfg chunks := by
  unfold rwReadFrom
  split
  · obtain ⟨i1, i2⟩ := payloads_sniffLoop cfg (nonEmpty cfg chunks) sniffLen st (nonEmpty_size cfg chunks)
    unfold afterSniff
    by_cases hz : (sniffLoop cfg (nonEmpty cfg chunks) sniffLen st).2.2 = 0
    · simp only [hz, if_true]
      rw [payloads_copyRest]; exact i1
    · simp only [hz, if_false]
      rw [← i1, i2 hz]; simp
  · exact payloads_copyRest _ _

theorem payloads_step (cfg : Cfg α) (st : St α) (op : Op α) :
    payloads (step cfg st op).log = payloads st.log ++ opPayloads cfg op := by
  cases op with
  | writeHeader s => simpa [step, opPayloads] using payloads_rwWriteHeader st s
  | write p => exact payloads_rwWrite cfg st p
  | flush => simpa [step, opPayloads] using payloads_rwFlush st
  | readFrom cs => exact payloads_rwReadFrom cfg st cs
  | hset k v => simp [step, opPayloads]
  | hadd k v => simp [step, opPayloads]
  | hdel k => simp [step, opPayloads]

theorem payloads_run (cfg : Cfg α) : ∀ (ops : List (Op α)) (st : St α),
    payloads (run cfg st ops).log = payloads st.log ++ written cfg ops
  | [], st => by simp [run, written]
  | op :: ops, st => by
    have : run cfg st (op :: ops) = run cfg (step cfg st op) ops := rfl
    rw [this, payloads_run cfg ops, payloads_step]
    simp [written, List.append_assoc]

theorem payloads_rwClose (cfg : Cfg α) (st : St α) : payloads (rwClose cfg st).log = payloads st.log := by
  have hch : payloads (closeHeader cfg st).log = payloads st.log := by
    unfold closeHeader
    split
    · rw [payloads_commitHeader]
      split
      · rcases rwInit_spec cfg st with e | ⟨e, _⟩ <;> rw [e]
      · rfl
    · rfl
  unfold rwClose
  split
  · simp [encClose, implicitHeader, payloads, hch]
  · exact hch

theorem payloads_runWrapped (cfg : Cfg α) (name : Bytes) (ic : Bool) (ops : List (Op α)) :
    payloads (runWrapped cfg name ic ops).log = written cfg ops := by
  unfold runWrapped
  rw [payloads_rwClose, payloads_run]
  simp [St.init, payloads]

/-! ## no encoding negotiated: the handler talks to the wrapped writer itself -/

theorem plainStep_spec (cfg : Cfg α) (st : St α) (op : Op α) (h : plainOnly st.log = true) :
    plainOnly (plainStep cfg st op).log = true ∧
    payloads (plainStep cfg st op).log = payloads st.log ++ opPayloads cfg op := by
  have hfold : ∀ (cs : List α) (s : St α), plainOnly s.log = true → plainOnly (cs.foldl dsWrite s).log = true := by
    intro cs
    induction cs with
    | nil => intro s hs; exact hs
    | cons c cs ih =>
      intro s hs
      exact ih (dsWrite s c) (by simp [dsWrite, implicitHeader, plainOnly, Ev.plainOk] at hs ⊢; exact hs)
  cases op with
  | writeHeader s => simp [plainStep, opPayloads, dsWriteHeader, payloads, plainOnly, Ev.plainOk] at h ⊢; exact h
  | write p =>
    simp only [plainStep, opPayloads]
    split
    · simp [implicitHeader]; exact h
    · simp [dsWrite, implicitHeader, payloads, plainOnly, Ev.plainOk] at h ⊢; exact h
  | flush => simp [plainStep, opPayloads, dsFlush, implicitHeader, payloads, plainOnly, Ev.plainOk] at h ⊢; exact h
  | readFrom cs => exact ⟨hfold _ _ h, payloads_foldl_dsWrite _ _⟩
  | hset k v => simp [plainStep, opPayloads]; exact h
  | hadd k v => simp [plainStep, opPayloads]; exact h
  | hdel k => simp [plainStep, opPayloads]; exact h

theorem runPlain_spec (cfg : Cfg α) : ∀ (ops : List (Op α)) (st : St α), plainOnly st.log = true →
    plainOnly (ops.foldl (plainStep cfg) st).log = true ∧
    payloads (ops.foldl (plainStep cfg) st).log = payloads st.log ++ written cfg ops
  | [], st, h => by simp [written]; exact h
  | op :: ops, st, h => by
    obtain ⟨a, b⟩ := plainStep_spec cfg st op h
    obtain ⟨c, d⟩ := runPlain_spec cfg ops (plainStep cfg st op) a
    rw [List.foldl_cons]
    exact ⟨c, by rw [d, b]; simp [written, List.append_assoc]⟩

/-! ## once the header is committed the choice never changes -/

theorem committed_rwWriteHeader (st : St α) (s : Nat) (hw : st.wroteHeader = true) :
    (rwWriteHeader st s).wroteHeader = true ∧ (rwWriteHeader st s).encOpen = st.encOpen := by
  unfold rwWriteHeader informational connectImmediate vary304
  split <;> split <;> split <;> simp [dsWriteHeader, hw]

theorem committed_connectDefault (st : St α) (hw : st.wroteHeader = true) : connectDefault st = st := by
  simp [connectDefault, hw]

theorem committed_rwWrite (cfg : Cfg α) (st : St α) (p : α) (hw : st.wroteHeader = true) :
    (rwWrite cfg st p).wroteHeader = true ∧ (rwWrite cfg st p).encOpen = st.encOpen := by
  refine ⟨rwWrite_wrote_mono cfg st p hw, ?_⟩
  unfold rwWrite
  split
  · rfl
  · rw [committed_connectDefault _ hw, decide1_noop _ _ _ hw, commitHeader_noop _ hw]
    unfold emit; split <;> simp [encWrite, dsWrite, implicitHeader]

theorem committed_foldl_encWrite : ∀ (cs : List α) (st : St α),
    (cs.foldl encWrite st).wroteHeader = st.wroteHeader ∧ (cs.foldl encWrite st).encOpen = st.encOpen
  | [], _ => ⟨rfl, rfl⟩
  | c :: cs, st => by
    rw [List.foldl_cons]
    obtain ⟨a, b⟩ := committed_foldl_encWrite cs (encWrite st c)
    exact ⟨by rw [a]; rfl, by rw [b]; rfl⟩

theorem committed_foldl_dsWrite : ∀ (cs : List α) (st : St α),
    (cs.foldl dsWrite st).wroteHeader = st.wroteHeader ∧ (cs.foldl dsWrite st).encOpen = st.encOpen
  | [], _ => ⟨rfl, rfl⟩
  | c :: cs, st => by
    rw [List.foldl_cons]
    obtain ⟨a, b⟩ := committed_foldl_dsWrite cs (dsWrite st c)
    exact ⟨by rw [a]; rfl, by rw [b]; rfl⟩

theorem committed_step (cfg : Cfg α) (st : St α) (op : Op α) (hw : st.wroteHeader = true) :
    (step cfg st op).wroteHeader = true ∧ (step cfg st op).encOpen = st.encOpen := by
  cases op with
  | writeHeader s => exact committed_rwWriteHeader st s hw
  | write p => exact committed_rwWrite cfg st p hw
  | flush =>
    simp only [step, rwFlush, committed_connectDefault _ hw, hw, flushThrough]
    by_cases ho : st.encOpen = true <;> simp [dsFlush, encFlush, implicitHeader, hw, ho]
  | readFrom cs =>
    simp only [step, rwReadFrom, hw, copyRest]
    split
    · simp_all
    · split
      · obtain ⟨a, b⟩ := committed_foldl_encWrite (nonEmpty cfg cs) st; exact ⟨by rw [a, hw], b⟩
      · rw [commitHeader_noop _ hw]
        obtain ⟨a, b⟩ := committed_foldl_dsWrite (nonEmpty cfg cs) st; exact ⟨by rw [a, hw], b⟩
  | hset k v => exact ⟨hw, rfl⟩
  | hadd k v => exact ⟨hw, rfl⟩
  | hdel k => exact ⟨hw, rfl⟩

theorem committed_run (cfg : Cfg α) : ∀ (ops : List (Op α)) (st : St α), st.wroteHeader = true →
    (run cfg st ops).wroteHeader = true ∧ (run cfg st ops).encOpen = st.encOpen
  | [], _, hw => ⟨hw, rfl⟩
  | op :: ops, st, hw => by
    have : run cfg st (op :: ops) = run cfg (step cfg st op) ops := rfl
    obtain ⟨a, b⟩ := committed_step cfg st op hw
    obtain ⟨c, d⟩ := committed_run cfg ops _ a
    rw [this]; exact ⟨c, by rw [d, b]⟩

end

/-! ## the header that was sent stays sent; the deferred status is the one that is sent -/

section
variable {α : Type}

theorem sent_dsWriteHeader (st : St α) (s : Nat) (x : Nat × Hdr) (h : st.sent = some x) :
    (dsWriteHeader st s).sent = some x := by
  unfold dsWriteHeader; split <;> simp [h, fixSent]

theorem sent_rwWriteHeader (st : St α) (s : Nat) (x : Nat × Hdr) (h : st.sent = some x) :
    (rwWriteHeader st s).sent = some x := by
  unfold rwWriteHeader informational connectImmediate vary304
  split <;> split <;> split <;> simp [dsWriteHeader, h, fixSent] <;> split <;> simp [h]

theorem sent_connectDefault (st : St α) (x : Nat × Hdr) (h : st.sent = some x) :
    (connectDefault st).sent = some x := by
  unfold connectDefault; split
  · exact sent_rwWriteHeader st 200 x h
  · exact h

theorem sent_commitHeader (st : St α) (x : Nat × Hdr) (h : st.sent = some x) :
    (commitHeader st).sent = some x := by
  unfold commitHeader; split
  · split
    · exact sent_dsWriteHeader st _ x h
    · exact h
  · exact h

theorem sent_emit (st : St α) (p : α) (x : Nat × Hdr) (h : st.sent = some x) : (emit st p).sent = some x := by
  unfold emit; split <;> simp [encWrite, dsWrite, implicitHeader, h, fixSent]

theorem sent_rwWrite (cfg : Cfg α) (st : St α) (p : α) (x : Nat × Hdr) (h : st.sent = some x) :
    (rwWrite cfg st p).sent = some x := by
  unfold rwWrite; split
  · exact h
  · apply sent_emit; apply sent_commitHeader
    rw [(decide1_spec cfg _ p).2.1]; exact sent_connectDefault st x h

theorem sent_rwFlush (st : St α) (x : Nat × Hdr) (h : st.sent = some x) : (rwFlush st).sent = some x := by
  have h' := sent_connectDefault st x h
  unfold rwFlush flushThrough
  split
  · exact h'
  · split <;> simp [dsFlush, encFlush, implicitHeader, h', fixSent]

theorem sent_foldl_encWrite (x : Nat × Hdr) : ∀ (cs : List α) (st : St α), st.sent = some x →
    (cs.foldl encWrite st).sent = some x
  | [], _, h => h
  | c :: cs, st, h => by
    rw [List.foldl_cons]
    exact sent_foldl_encWrite x cs _ (by simp [encWrite, implicitHeader, h, fixSent])

theorem sent_foldl_dsWrite (x : Nat × Hdr) : ∀ (cs : List α) (st : St α), st.sent = some x →
    (cs.foldl dsWrite st).sent = some x
  | [], _, h => h
  | c :: cs, st, h => by
    rw [List.foldl_cons]
    exact sent_foldl_dsWrite x cs _ (by simp [dsWrite, implicitHeader, h, fixSent])

theorem sent_copyRest (st : St α) (cs : List α) (x : Nat × Hdr) (h : st.sent = some x) :
    (copyRest st cs).sent = some x := by
  unfold copyRest; split
  · exact sent_foldl_encWrite x cs st h
  · exact sent_foldl_dsWrite x cs _ (sent_commitHeader st x h)

/-- the state of a handler that has announced the final status `s` and not called WriteHeader since:
    either nothing is committed and the writer still holds `s`, or `s` is what was sent -/
def StatusHeld (s : Nat) (st : St α) : Prop :=
  (st.wroteHeader = false ∧ st.sent = none ∧ st.statusCode = s ∧ st.encOpen = false) ∨ ∃ h, st.sent = some (s, h)

theorem held_rwWrite (cfg : Cfg α) (s : Nat) (hs0 : s ≠ 0) (hs1 : isInformational s = false) (st : St α) (p : α)
    (h : StatusHeld s st) :
    StatusHeld s (rwWrite cfg st p) ∧ ((cfg.size p == 0) = false → ∃ h, (rwWrite cfg st p).sent = some (s, h)) := by
  rcases h with ⟨hw, hn, hc, he⟩ | ⟨hh, hsent⟩
  · unfold rwWrite
    by_cases hz : (cfg.size p == 0) = true
    · simp only [hz, if_true]
      exact ⟨Or.inl ⟨hw, hn, hc, he⟩, fun h => by simp at h⟩
    · simp only [hz]
      have hcd : connectDefault st = st := by
        unfold connectDefault
        have : (st.statusCode == 0) = false := by simp [hc, hs0]
        simp [this]
      rw [hcd]
      obtain ⟨d1, d2, d3, d4, d5, _⟩ := decide1_spec cfg st p
      generalize decide1 cfg st p = st2 at *
      have hcm : (commitHeader st2).sent = some (s, st2.hdr) := by
        unfold commitHeader
        have : (st2.statusCode != 0) = true := by simp [d5, hc, hs0]
        simp [d3, hw, this, dsWriteHeader, d5, hc, hs1, d2, hn, fixSent, hs0]
      have := sent_emit (commitHeader st2) p _ hcm
      exact ⟨Or.inr ⟨_, this⟩, fun _ => ⟨_, this⟩⟩
  · have := sent_rwWrite cfg st p _ hsent
    exact ⟨Or.inr ⟨hh, this⟩, fun _ => ⟨hh, this⟩⟩

theorem held_sniffLoop (cfg : Cfg α) (s : Nat) (hs0 : s ≠ 0) (hs1 : isInformational s = false) :
    ∀ (chunks : List α) (n : Nat) (st : St α), StatusHeld s st → (∀ c ∈ chunks, (cfg.size c == 0) = false) →
      StatusHeld s (sniffLoop cfg chunks n st).1 ∧
      ((sniffLoop cfg chunks n st).2.2 = 0 → (n ≠ 0 ∨ ∃ h, st.sent = some (s, h)) →
        ∃ h, (sniffLoop cfg chunks n st).1.sent = some (s, h))
  | [], n, st, h, _ => by
    simp only [sniffLoop]
    exact ⟨h, fun hn hor => by rcases hor with h1 | h1; exact absurd hn h1; exact h1⟩
  | c :: cs, n, st, h, hne => by
    unfold sniffLoop
    by_cases hn : n = 0
    · simp only [hn, if_true]
      exact ⟨h, fun _ hor => by rcases hor with h1 | h1; exact absurd rfl h1; exact h1⟩
    · simp only [hn, if_false]
      obtain ⟨w1, w2⟩ := held_rwWrite cfg s hs0 hs1 st c h
      have w2' := w2 (hne c List.mem_cons_self)
      have h1 : StatusHeld s ({ rwWrite cfg st c with unreal := st.unreal || decide (cfg.size c > n) } : St α) := by
        obtain ⟨hh, e⟩ := w2'; exact Or.inr ⟨hh, e⟩
      obtain ⟨i1, i2⟩ := held_sniffLoop cfg s hs0 hs1 cs (n - cfg.size c) _ h1
        (fun x hx => hne x (List.mem_cons_of_mem _ hx))
      exact ⟨i1, fun hz _ => i2 hz (Or.inr w2')⟩

theorem held_copyRest (s : Nat) (hs0 : s ≠ 0) (hs1 : isInformational s = false) (st : St α) (cs : List α)
    (h : StatusHeld s st) : ∃ h, (copyRest st cs).sent = some (s, h) := by
  rcases h with ⟨hw, hn, hc, he⟩ | ⟨hh, hsent⟩
  · have hcm : (commitHeader st).sent = some (s, st.hdr) := by
      unfold commitHeader
      have : (st.statusCode != 0) = true := by simp [hc, hs0]
      simp [hw, this, dsWriteHeader, hc, hs1, hn, fixSent, hs0]
    unfold copyRest
    rw [if_neg (by simp [he])]
    exact ⟨_, sent_foldl_dsWrite _ cs _ hcm⟩
  · exact ⟨hh, sent_copyRest _ _ _ hsent⟩

theorem held_step (cfg : Cfg α) (s : Nat) (hs0 : s ≠ 0) (hs1 : isInformational s = false)
    (st : St α) (op : Op α) (hop : ∀ i, op ≠ Op.writeHeader i) (h : StatusHeld s st) :
    StatusHeld s (step cfg st op) := by
  cases op with
  | writeHeader i => exact absurd rfl (hop i)
  | write p => exact (held_rwWrite cfg s hs0 hs1 st p h).1
  | flush =>
    rcases h with ⟨hw, hn, hc, he⟩ | ⟨hh, hsent⟩
    · have hcd : connectDefault st = st := by
        unfold connectDefault
        have : (st.statusCode == 0) = false := by simp [hc, hs0]
        simp [this]
      simp only [step, rwFlush, hcd, hw]
      exact Or.inl ⟨hw, hn, hc, he⟩
    · exact Or.inr ⟨hh, sent_rwFlush st _ hsent⟩
  | readFrom cs =>
    simp only [step, rwReadFrom]
    by_cases hc : (!st.wroteHeader && decide (cfg.minLen > 0)) = true
    · simp only [hc, if_true]
      obtain ⟨i1, i2⟩ := held_sniffLoop cfg s hs0 hs1 (nonEmpty cfg cs) sniffLen st h (nonEmpty_size cfg cs)
      unfold afterSniff
      by_cases hz : (sniffLoop cfg (nonEmpty cfg cs) sniffLen st).2.2 = 0
      · simp only [hz, if_true]
        obtain ⟨hh, e⟩ := i2 hz (Or.inl (by decide))
        exact Or.inr ⟨hh, sent_copyRest _ _ _ e⟩
      · simp only [hz, if_false]; exact i1
    · simp only [hc]
      exact Or.inr (held_copyRest s hs0 hs1 st _ h)
  | hset k v => exact h
  | hadd k v => exact h
  | hdel k => exact h

theorem held_run (cfg : Cfg α) (s : Nat) (hs0 : s ≠ 0) (hs1 : isInformational s = false) :
    ∀ (ops : List (Op α)) (st : St α), (∀ op ∈ ops, ∀ i, op ≠ Op.writeHeader i) → StatusHeld s st →
      StatusHeld s (run cfg st ops)
  | [], _, _, h => h
  | op :: ops, st, hops, h => by
    have : run cfg st (op :: ops) = run cfg (step cfg st op) ops := rfl
    rw [this]
    exact held_run cfg s hs0 hs1 ops _ (fun o ho => hops o (List.mem_cons_of_mem _ ho))
      (held_step cfg s hs0 hs1 st op (hops op List.mem_cons_self) h)

theorem held_rwClose (cfg : Cfg α) (s : Nat) (hs0 : s ≠ 0) (hs1 : isInformational s = false) (st : St α)
    (h : StatusHeld s st) : ∃ h, (rwClose cfg st).sent = some (s, h) := by
  have key : ∃ h, (closeHeader cfg st).sent = some (s, h) := by
    unfold closeHeader
    rcases h with ⟨hw, hn, hc, _⟩ | ⟨hh, hsent⟩
    · simp only [hw, Bool.not_false, if_true]
      have : ∃ s1 : St α, (if clGtMin cfg st.hdr = true then rwInit cfg st else st) = s1 ∧
          s1.wroteHeader = false ∧ s1.sent = none ∧ s1.statusCode = s := by
        split
        · rcases rwInit_spec cfg st with e | ⟨e, _⟩ <;> rw [e] <;> exact ⟨_, rfl, hw, hn, hc⟩
        · exact ⟨_, rfl, hw, hn, hc⟩
      obtain ⟨s1, e, k1, k2, k3⟩ := this
      rw [e]
      refine ⟨s1.hdr, ?_⟩
      unfold commitHeader
      have : (s1.statusCode != 0) = true := by simp [k3, hs0]
      simp [k1, this, dsWriteHeader, k3, hs1, k2, fixSent, hs0]
    · split
      · refine ⟨hh, sent_commitHeader _ _ ?_⟩
        split
        · rcases rwInit_spec cfg st with e | ⟨e, _⟩ <;> rw [e] <;> exact hsent
        · exact hsent
      · exact ⟨hh, hsent⟩
  obtain ⟨hh, e⟩ := key
  unfold rwClose
  split
  · exact ⟨hh, by simp [encClose, implicitHeader, e, fixSent]⟩
  · exact ⟨hh, e⟩

/-- before the final WriteHeader: header edits and 1xx responses commit nothing -/
def Uncommitted (st : St α) : Prop := st.wroteHeader = false ∧ st.sent = none ∧ st.encOpen = false

theorem uncommitted_run (cfg : Cfg α) : ∀ (ops : List (Op α)) (st : St α), (∀ op ∈ ops, Preliminary op) →
    Uncommitted st → Uncommitted (run cfg st ops)
  | [], _, _, h => h
  | op :: ops, st, hops, h => by
    have : run cfg st (op :: ops) = run cfg (step cfg st op) ops := rfl
    rw [this]
    refine uncommitted_run cfg ops _ (fun o ho => hops o (List.mem_cons_of_mem _ ho)) ?_
    rcases hops op List.mem_cons_self with ⟨k, v, rfl⟩ | ⟨k, v, rfl⟩ | ⟨k, rfl⟩ | ⟨i, rfl, h1, h2⟩
    · exact h
    · exact h
    · exact h
    · have hs : 100 ≤ i ∧ i ≤ 199 := by simpa [is1xx] using h1
      have h304 : (i == 304) = false := by simp; omega
      have h2xx : (200 ≤ i && i ≤ 299) = false := by simp; omega
      simp only [step, rwWriteHeader, informational, connectImmediate, vary304, h1, h304, h2xx, Bool.false_and,
        Bool.and_false, if_true, dsWriteHeader, Uncommitted, is1xx_informational h1 h2]
      exact ⟨by simpa using h.1, by simpa using h.2.1, by simpa using h.2.2⟩

theorem held_after_final_writeHeader (st : St α) (s : Nat) (hs1 : is1xx s = false) (h : Uncommitted st) :
    StatusHeld s (rwWriteHeader st s) := by
  have hni : isInformational s = false := by simp [isInformational, hs1]
  unfold rwWriteHeader informational
  simp only [hs1, Bool.false_eq_true, if_false]
  unfold connectImmediate
  split
  · right
    refine ⟨(vary304 s { st with statusCode := s }).hdr, ?_⟩
    have : (vary304 s { st with statusCode := s }).sent = none := by unfold vary304; split <;> simp [h.2.1]
    simp [dsWriteHeader, hni, this, fixSent]
  · left
    unfold vary304; split <;> simp [h.1, h.2.1, h.2.2]

end

/-! ## the writer edits headers only in `init` (plus `Vary` on 304 and a sniffed `Content-Type`) -/

section
variable {α : Type}

theorem hdr_rwWriteHeader (st : St α) (s : Nat) {k : Bytes} (hk : k ≠ kVary) :
    hValues (rwWriteHeader st s).hdr k = hValues st.hdr k := by
  have hv : hValues (vary304 s { st with statusCode := s }).hdr k = hValues st.hdr k := by
    unfold vary304; split
    · exact hValues_add_ne _ _ hk
    · rfl
  unfold rwWriteHeader informational connectImmediate
  split <;> split <;> simp [dsWriteHeader, hv]

theorem hdr_connectDefault (st : St α) {k : Bytes} (hk : k ≠ kVary) :
    hValues (connectDefault st).hdr k = hValues st.hdr k := by
  unfold connectDefault; split
  · exact hdr_rwWriteHeader st 200 hk
  · rfl

theorem wrote_connectDefault (st : St α) (h : (connectDefault st).wroteHeader = false) : st.wroteHeader = false := by
  cases hw : st.wroteHeader with
  | false => rfl
  | true => rw [committed_connectDefault st hw] at h; rw [hw] at h; cases h

theorem encOpen_connectDefault (st : St α) : (connectDefault st).encOpen = st.encOpen := by
  unfold connectDefault rwWriteHeader informational connectImmediate vary304
  split
  · split <;> split <;> split <;> simp [dsWriteHeader]
  · rfl

theorem hdr_decide1 (cfg : Cfg α) (st : St α) (p : α) {k : Bytes} (hk : k ≠ kCT) :
    (hValues (decide1 cfg st p).hdr k = hValues st.hdr k ∧ (decide1 cfg st p).encOpen = st.encOpen) ∨
      (st.wroteHeader = false ∧ (decide1 cfg st p).encOpen = true) := by
  have hs : hValues (sniffType cfg st p).hdr k = hValues st.hdr k ∧ (sniffType cfg st p).encOpen = st.encOpen := by
    unfold sniffType; split
    · exact ⟨hValues_set_ne _ _ hk, rfl⟩
    · exact ⟨rfl, rfl⟩
  unfold decide1
  by_cases hc : (!st.wroteHeader && decide (cfg.minLen > 0)) = true
  · simp only [hc, if_true]
    split
    · rcases rwInit_spec cfg (sniffType cfg st p) with e | ⟨e, _⟩
      · rw [e]; exact Or.inl hs
      · rw [e]; right
        simp only [Bool.and_eq_true, Bool.not_eq_true'] at hc
        exact ⟨hc.1, rfl⟩
    · exact Or.inl ⟨rfl, rfl⟩
  · simp only [hc]; exact Or.inl ⟨rfl, rfl⟩

theorem hdr_commit_emit (st : St α) (p : α) :
    (emit (commitHeader st) p).hdr = st.hdr ∧ (emit (commitHeader st) p).encOpen = st.encOpen := by
  have h1 : (commitHeader st).hdr = st.hdr ∧ (commitHeader st).encOpen = st.encOpen := by
    unfold commitHeader; split
    · split <;> simp [dsWriteHeader]
    · exact ⟨rfl, rfl⟩
  have h2 : ∀ s : St α, (emit s p).hdr = s.hdr ∧ (emit s p).encOpen = s.encOpen := by
    intro s; unfold emit; split <;> simp [encWrite, dsWrite, implicitHeader]
  exact ⟨by rw [(h2 _).1, h1.1], by rw [(h2 _).2, h1.2]⟩

theorem hdr_rwWrite (cfg : Cfg α) (st : St α) (p : α) {k : Bytes} (h1 : k ≠ kVary) (h2 : k ≠ kCT) :
    (hValues (rwWrite cfg st p).hdr k = hValues st.hdr k ∧ (rwWrite cfg st p).encOpen = st.encOpen) ∨
      (st.wroteHeader = false ∧ (rwWrite cfg st p).encOpen = true) := by
  unfold rwWrite
  split
  · exact Or.inl ⟨rfl, rfl⟩
  · obtain ⟨e1, e2⟩ := hdr_commit_emit (decide1 cfg (connectDefault st) p) p
    rw [e1, e2]
    rcases hdr_decide1 cfg (connectDefault st) p h2 with ⟨a, b⟩ | ⟨a, b⟩
    · exact Or.inl ⟨by rw [a, hdr_connectDefault st h1], by rw [b, encOpen_connectDefault]⟩
    · exact Or.inr ⟨wrote_connectDefault st a, b⟩

theorem hdr_sniffLoop (cfg : Cfg α) {k : Bytes} (h1 : k ≠ kVary) (h2 : k ≠ kCT) :
    ∀ (chunks : List α) (n : Nat) (st : St α), (∀ c ∈ chunks, (cfg.size c == 0) = false) →
      (hValues (sniffLoop cfg chunks n st).1.hdr k = hValues st.hdr k ∧
          (sniffLoop cfg chunks n st).1.encOpen = st.encOpen) ∨
        (st.wroteHeader = false ∧ (sniffLoop cfg chunks n st).1.encOpen = true)
  | [], n, st, _ => by simp [sniffLoop]
  | c :: cs, n, st, hne => by
    unfold sniffLoop
    by_cases hn : n = 0
    · simp [hn]
    · simp only [hn, if_false]
      have hw1 : ({ rwWrite cfg st c with unreal := st.unreal || decide (cfg.size c > n) } : St α).wroteHeader = true :=
        rwWrite_wrote cfg st c (hne c List.mem_cons_self)
      rcases hdr_sniffLoop cfg h1 h2 cs (n - cfg.size c)
          { rwWrite cfg st c with unreal := st.unreal || decide (cfg.size c > n) }
          (fun x hx => hne x (List.mem_cons_of_mem _ hx)) with ⟨a, b⟩ | ⟨a, _⟩
      · rcases hdr_rwWrite cfg st c h1 h2 with ⟨a', b'⟩ | ⟨a', b'⟩
        · exact Or.inl ⟨by rw [a]; exact a', by rw [b]; exact b'⟩
        · exact Or.inr ⟨a', by rw [b]; exact b'⟩
      · rw [hw1] at a; cases a

theorem hdr_foldl_encWrite : ∀ (cs : List α) (st : St α), (cs.foldl encWrite st).hdr = st.hdr
  | [], _ => rfl
  | c :: cs, st => by rw [List.foldl_cons, hdr_foldl_encWrite cs]; rfl

theorem hdr_foldl_dsWrite : ∀ (cs : List α) (st : St α), (cs.foldl dsWrite st).hdr = st.hdr
  | [], _ => rfl
  | c :: cs, st => by rw [List.foldl_cons, hdr_foldl_dsWrite cs]; rfl

theorem hdr_copyRest (st : St α) (cs : List α) :
    (copyRest st cs).hdr = st.hdr ∧ (copyRest st cs).encOpen = st.encOpen := by
  have hcm : (commitHeader st).hdr = st.hdr ∧ (commitHeader st).encOpen = st.encOpen := by
    unfold commitHeader; split
    · split <;> simp [dsWriteHeader]
    · exact ⟨rfl, rfl⟩
  unfold copyRest; split
  · exact ⟨hdr_foldl_encWrite _ _, (committed_foldl_encWrite _ _).2⟩
  · exact ⟨by rw [hdr_foldl_dsWrite, hcm.1], by rw [(committed_foldl_dsWrite _ _).2, hcm.2]⟩

theorem hdr_step (cfg : Cfg α) (st : St α) (op : Op α) {k : Bytes} (h1 : k ≠ kVary) (h2 : k ≠ kCT) :
    hValues (step cfg st op).hdr k = hValues (hdrEffect op st.hdr) k ∨
      (st.wroteHeader = false ∧ (step cfg st op).encOpen = true) := by
  cases op with
  | writeHeader s => exact Or.inl (hdr_rwWriteHeader st s h1)
  | write p =>
    rcases hdr_rwWrite cfg st p h1 h2 with ⟨a, _⟩ | h
    · exact Or.inl a
    · exact Or.inr h
  | flush =>
    left
    simp only [step, rwFlush, hdrEffect]
    split
    · exact hdr_connectDefault st h1
    · unfold flushThrough
      split <;> simp [dsFlush, encFlush, implicitHeader, hdr_connectDefault st h1]
  | readFrom cs =>
    simp only [step, rwReadFrom, hdrEffect]
    split
    · unfold afterSniff
      rcases hdr_sniffLoop cfg h1 h2 (nonEmpty cfg cs) sniffLen st (nonEmpty_size cfg cs) with ⟨a, b⟩ | ⟨a, b⟩
      · left; split
        · rw [(hdr_copyRest _ _).1]; exact a
        · exact a
      · right; refine ⟨a, ?_⟩; split
        · rw [(hdr_copyRest _ _).2]; exact b
        · exact b
    · left; rw [(hdr_copyRest _ _).1]
  | hset k' v => exact Or.inl rfl
  | hadd k' v => exact Or.inl rfl
  | hdel k' => exact Or.inl rfl

theorem hdr_rwClose (cfg : Cfg α) (st : St α) :
    (rwClose cfg st).hdr = st.hdr ∨ (st.wroteHeader = false ∧ (rwClose cfg st).log.head? = some Ev.ec) := by
  have hcm : ∀ s : St α, (commitHeader s).hdr = s.hdr ∧ (commitHeader s).encOpen = s.encOpen := by
    intro s; unfold commitHeader; split
    · split <;> simp [dsWriteHeader]
    · exact ⟨rfl, rfl⟩
  have hec : ∀ s : St α, (encClose s).hdr = s.hdr := fun s => rfl
  unfold rwClose closeHeader
  cases hw : st.wroteHeader with
  | true =>
    left
    simp only [Bool.not_true, Bool.false_eq_true, if_false]
    split <;> simp [encClose, implicitHeader]
  | false =>
    simp only [Bool.not_false, if_true]
    by_cases ho : (commitHeader (if clGtMin cfg st.hdr = true then rwInit cfg st else st)).encOpen = true
    · right; simp [ho, encClose, implicitHeader]
    · left
      rw [if_neg ho, (hcm _).1]
      rw [(hcm _).2] at ho
      by_cases hc : clGtMin cfg st.hdr = true
      · rw [if_pos hc] at ho ⊢
        rcases rwInit_spec cfg st with e | ⟨e, _⟩
        · rw [e]
        · rw [e] at ho; simp at ho
      · rw [if_neg hc]

end

/-! ## negotiation -/

theorem mem_insertRev (x y : Pref) : ∀ (l : List Pref), y ∈ insertRev x l ↔ y = x ∨ y ∈ l
  | [] => by simp [insertRev]
  | z :: zs => by
    unfold insertRev
    split
    · simp only [List.mem_cons, mem_insertRev x y zs]; exact or_left_comm
    · simp only [List.mem_cons]

theorem mem_foldl_insertRev (y : Pref) : ∀ (l acc : List Pref),
    y ∈ l.foldl (fun acc x => insertRev x acc) acc ↔ y ∈ l ∨ y ∈ acc
  | [], acc => by simp
  | x :: xs, acc => by
    rw [List.foldl_cons, mem_foldl_insertRev y xs, mem_insertRev, List.mem_cons, or_left_comm, ← or_assoc]

theorem mem_goSort (y : Pref) (l : List Pref) : y ∈ goSort l ↔ y ∈ l := by
  unfold goSort
  rw [List.mem_reverse, mem_foldl_insertRev]; simp

/-- every name `AcceptedEncodings` returns comes from an element of the header with non-zero quality -/
theorem mem_acceptedEncodings {ae : Bytes} {ws : Bool} {prefer : List Bytes} {c : Bytes}
    (h : c ∈ acceptedEncodings ae ws prefer) :
    ∃ elem ∈ splitOn 44 ae, elemName elem = c ∧ elemQ elem > 0 ∧ (ws = true → c = vIdentity) := by
  unfold acceptedEncodings at h
  split at h
  · simp at h
  · rw [List.mem_map] at h
    obtain ⟨p, hp, rfl⟩ := h
    rw [mem_goSort] at hp
    unfold acceptedPrefs at hp
    rw [List.mem_filterMap] at hp
    obtain ⟨elem, he, hpe⟩ := hp
    refine ⟨elem, he, ?_⟩
    unfold elemPref at hpe
    split at hpe
    · cases hpe
    · rename_i hq
      split at hpe
      · cases hpe
      · rename_i hws
        cases hpe
        refine ⟨rfl, Nat.pos_of_ne_zero hq, fun hw => ?_⟩
        simp [hw] at hws
        exact hws

/-! ### `sort.Slice` (insertion sort) sorts by (q, server preference) -/

theorem prefGe_iff (a b : Pref) : PrefGe a b ↔ prefLess b a = false := by
  unfold PrefGe prefLess
  by_cases h : b.q = a.q
  · simp [h]
  · simp [h]; omega

theorem prefGe_of_less {a b : Pref} (h : prefLess a b = true) : PrefGe a b := by
  unfold PrefGe; unfold prefLess at h
  by_cases hq : a.q = b.q
  · simp [hq] at h ⊢; omega
  · simp [hq] at h; exact Or.inl h

theorem prefGe_trans {a b c : Pref} (h1 : PrefGe a b) (h2 : PrefGe b c) : PrefGe a c := by
  unfold PrefGe at *; omega

theorem prefGe_refl (a : Pref) : PrefGe a a := Or.inr ⟨rfl, Int.le_refl _⟩

theorem pairwise_insertRev (x : Pref) : ∀ (l : List Pref), l.Pairwise (fun a b => PrefGe b a) →
    (insertRev x l).Pairwise (fun a b => PrefGe b a)
  | [], _ => by simp [insertRev]
  | y :: ys, h => by
    rw [List.pairwise_cons] at h
    unfold insertRev
    by_cases hl : prefLess x y = true
    · simp only [hl, if_true]
      rw [List.pairwise_cons]
      refine ⟨fun z hz => ?_, pairwise_insertRev x ys h.2⟩
      rcases (mem_insertRev x z ys).mp hz with rfl | hz
      · exact prefGe_of_less hl
      · exact h.1 z hz
    · have hyx : PrefGe y x := (prefGe_iff y x).mpr (by simpa using hl)
      rw [if_neg hl, List.pairwise_cons]
      refine ⟨fun z hz => ?_, List.pairwise_cons.mpr h⟩
      rcases List.mem_cons.mp hz with rfl | hz
      · exact hyx
      · exact prefGe_trans (h.1 z hz) hyx

theorem pairwise_foldl_insertRev : ∀ (l acc : List Pref), acc.Pairwise (fun a b => PrefGe b a) →
    (l.foldl (fun acc x => insertRev x acc) acc).Pairwise (fun a b => PrefGe b a)
  | [], _, h => h
  | x :: xs, acc, h => by
    rw [List.foldl_cons]; exact pairwise_foldl_insertRev xs _ (pairwise_insertRev x acc h)

/-- the order `AcceptedEncodings` returns: every earlier entry is at least as preferred as every later one -/
theorem goSort_sorted (l : List Pref) : (goSort l).Pairwise PrefGe := by
  unfold goSort
  rw [List.pairwise_reverse]
  exact pairwise_foldl_insertRev l [] List.Pairwise.nil

/-! ## entity tags -/

theorem isSuffixOf_append (s b : Bytes) : s.isSuffixOf (b ++ s) = true := by
  rw [List.isSuffixOf_iff_suffix]; exact List.suffix_append b s

theorem trimSuffix_append (s b : Bytes) : trimSuffix s (b ++ s) = b := by
  unfold trimSuffix hasSuffix
  rw [isSuffixOf_append]; simp

theorem trimSuffix_length (suf s : Bytes) : (trimSuffix suf s).length + suf.length ≥ s.length := by
  unfold trimSuffix
  split
  · simp [List.length_take]; omega
  · omega

theorem etagSuffix_ne_nil (name : Bytes) : etagSuffix name ≠ [] := by simp [etagSuffix]

theorem weakPrefix_append (b : Bytes) (name : Bytes) (h : hasPrefix vWeakPrefix (b ++ [34]) = false) :
    hasPrefix vWeakPrefix (b ++ etagSuffix name) = false := by
  match b with
  | [] => simp [hasPrefix, vWeakPrefix, etagSuffix, List.isPrefixOf]
  | [c] =>
    simp [hasPrefix, vWeakPrefix, etagSuffix, List.isPrefixOf] at h ⊢
  | c1 :: c2 :: r =>
    simp [hasPrefix, vWeakPrefix, List.isPrefixOf] at h ⊢
    exact h

/-! ## payloads as bytes -/

theorem flatten_nonEmpty (cfg : Cfg Bytes) (hsz : cfg.size = List.length) :
    ∀ (cs : List Bytes), (nonEmpty cfg cs).flatten = cs.flatten
  | [] => rfl
  | c :: cs => by
    unfold nonEmpty
    rw [List.filter_cons]
    have ih := flatten_nonEmpty cfg hsz cs
    unfold nonEmpty at ih
    by_cases hc : c = []
    · subst hc; rw [hsz] at ih ⊢; simp [ih]
    · have : (cfg.size c != 0) = true := by simp [hsz, hc]
      simp only [this, if_true, List.flatten_cons, ih]

end CaddyModel.C15

/-! ## Caddyfile glue -/
namespace CaddyModel.C15

theorem validatePrefer_iff (offered : List Bytes) : ∀ (prefer : List Bytes),
    validatePrefer offered prefer = true ↔ prefer.Nodup ∧ ∀ p ∈ prefer, p ∈ offered
  | [] => by simp [validatePrefer]
  | p :: ps => by
    simp only [validatePrefer, Bool.and_eq_true, Bool.not_eq_true', validatePrefer_iff offered ps,
      List.nodup_cons, List.mem_cons, forall_eq_or_imp]
    simp only [List.contains_eq_mem, decide_eq_true_eq, decide_eq_false_iff_not]
    constructor
    · rintro ⟨⟨a, b⟩, c, d⟩; exact ⟨⟨b, c⟩, a, d⟩
    · rintro ⟨⟨b, c⟩, a, d⟩; exact ⟨⟨a, b⟩, c, d⟩

/-- `prefer` and the keys of `EncodingsRaw` have the same members -/
def SameNames (st : CfState) : Prop := ∀ n, n ∈ st.prefer ↔ n ∈ st.encs

theorem mem_addKey (l : List Bytes) (k n : Bytes) : n ∈ addKey l k ↔ n ∈ l ∨ n = k := by
  unfold addKey
  by_cases h : l.contains k = true
  · rw [if_pos h]
    constructor
    · exact Or.inl
    · rintro (h1 | rfl)
      · exact h1
      · simpa using h
  · rw [if_neg h, List.mem_append, List.mem_singleton]

theorem sameNames_add (st : CfState) (k : Bytes) (h : SameNames st) :
    ∀ n, n ∈ st.prefer ++ [k] ↔ n ∈ addKey st.encs k := by
  intro n
  rw [mem_addKey, List.mem_append, List.mem_singleton, h n]

theorem procToks_sameNames (sub : Option (List (List Bytes))) : ∀ (toks : List Bytes) (st st' : CfState),
    procToks sub toks st = .ok st' → SameNames st → SameNames st'
  | [], st, st', h, hs => by
    unfold procToks at h
    split at h
    · cases h
    · cases h; exact hs
  | t :: rest, st, st', h, hs => by
    unfold procToks at h
    split at h
    · -- minimum_length
      split at h
      · cases h
      · split at h
        · cases h
        · exact procToks_sameNames sub _ _ _ h (fun n => hs n)
    · split at h
      · -- match
        split at h
        · cases h
        · split at h <;> first | cases h; exact (fun n => hs n) | cases h
      · split at h
        · -- gzip
          split at h
          · cases h; exact sameNames_add st vGzip hs
          · split at h
            · cases h
            · cases h; exact sameNames_add st vGzip hs
        · split at h
          · -- zstd
            split at h
            · cases h; exact sameNames_add st vZstd hs
            · split at h
              · cases h; exact sameNames_add st vZstd hs
              · cases h
          · split at h <;> cases h

theorem procBlock_sameNames : ∀ (block : List Line) (st st' : CfState),
    procBlock block st = .ok st' → SameNames st → SameNames st'
  | [], st, st', h, hs => by unfold procBlock at h; cases h; exact hs
  | l :: ls, st, st', h, hs => by
    unfold procBlock at h
    split at h
    · rename_i st1 h1
      exact procBlock_sameNames ls st1 st' h (procToks_sameNames l.sub l.toks st st1 h1 hs)
    all_goals cases h

/-- the formats of the directive line extend `prefer` by names that were not enabled before, each once -/
theorem procArgs_spec : ∀ (args : List Bytes) (st st' : CfState), procArgs args st = .ok st' → SameNames st →
    SameNames st' ∧ (st.prefer.Nodup → st'.prefer.Nodup) ∧ (∃ added, st'.prefer = st.prefer ++ added ∧ ∀ a ∈ added, a ∈ args) ∧
      st'.minLen = st.minLen ∧ st'.matcher = st.matcher ∧ st'.gzipLevel = st.gzipLevel
  | [], st, st', h, hs => by
    unfold procArgs at h; cases h
    exact ⟨hs, id, ⟨[], by simp, by simp⟩, rfl, rfl, rfl⟩
  | a :: as, st, st', h, hs => by
    unfold procArgs at h
    split at h
    · obtain ⟨i1, i2, ⟨added, e, hm⟩, i4⟩ := procArgs_spec as st st' h hs
      exact ⟨i1, i2, ⟨added, e, fun x hx => List.mem_cons_of_mem _ (hm x hx)⟩, i4⟩
    · rename_i hc
      split at h
      · have hna : a ∉ st.prefer := by
          rw [hs a]; simpa using hc
        have hs1 : SameNames { st with encs := st.encs ++ [a], prefer := st.prefer ++ [a] } := by
          intro n; simp [hs n]
        obtain ⟨i1, i2, ⟨added, e, hm⟩, i4⟩ := procArgs_spec as _ st' h hs1
        refine ⟨i1, fun hn => i2 ?_, ⟨a :: added, by rw [e]; simp, ?_⟩, i4⟩
        · simp only [List.nodup_append, List.nodup_cons, List.not_mem_nil, not_false_eq_true, List.nodup_nil,
            and_self, List.mem_singleton, true_and]
          exact ⟨hn, fun x hx y hy => by subst hy; exact fun e => hna (e ▸ hx)⟩
        · intro x hx
          rcases List.mem_cons.mp hx with rfl | hx
          · exact List.mem_cons_self
          · exact List.mem_cons_of_mem _ (hm x hx)
      · cases h

end CaddyModel.C15

/-! ## Accept-Encoding elements in the RFC grammar are read as the RFC means them -/
namespace CaddyModel.C15

theorem splitOn_not_mem (sep : UInt8) : ∀ (l : Bytes), sep ∉ l → splitOn sep l = [l]
  | [], _ => rfl
  | b :: bs, h => by
    have hb : b ≠ sep := fun e => h (e ▸ List.mem_cons_self)
    have ih := splitOn_not_mem sep bs (fun hm => h (List.mem_cons_of_mem _ hm))
    simp [splitOn, hb, ih]

theorem splitOn_append_sep (sep : UInt8) : ∀ (l r : Bytes), sep ∉ l → splitOn sep (l ++ sep :: r) = l :: splitOn sep r
  | [], r, _ => by simp [splitOn]
  | b :: bs, r, h => by
    have hb : b ≠ sep := fun e => h (e ▸ List.mem_cons_self)
    have ih := splitOn_append_sep sep bs r (fun hm => h (List.mem_cons_of_mem _ hm))
    simp [splitOn, hb, ih]

theorem trimLeft_ows : ∀ (a x : Bytes), (∀ b ∈ a, isSpace b = true) → trimLeft (a ++ x) = trimLeft x
  | [], _, _ => rfl
  | b :: bs, x, h => by
    have hb := h b List.mem_cons_self
    simp only [List.cons_append, trimLeft, hb, if_true]
    exact trimLeft_ows bs x (fun c hc => h c (List.mem_cons_of_mem _ hc))

theorem trimLeft_nonspace (x : Bytes) (h : ∀ b, x.head? = some b → isSpace b = false) : trimLeft x = x := by
  cases x with
  | nil => rfl
  | cons b bs => simp [trimLeft, h b rfl]

/-- `strings.TrimSpace` strips exactly the surrounding white space of a word whose ends are not white space -/
theorem trimSpace_padded (a w b : Bytes) (ha : ∀ c ∈ a, isSpace c = true) (hb : ∀ c ∈ b, isSpace c = true)
    (hf : ∀ c, w.head? = some c → isSpace c = false) (hl : ∀ c, w.getLast? = some c → isSpace c = false) :
    trimSpace (a ++ w ++ b) = w := by
  unfold trimSpace
  rw [List.append_assoc, trimLeft_ows a _ ha]
  cases w with
  | nil =>
    -- nothing but white space
    have : trimLeft ([] ++ b) = [] := by
      clear hf hl
      induction b with
      | nil => rfl
      | cons c cs ih =>
        have hc := hb c List.mem_cons_self
        simp only [List.nil_append, trimLeft, hc, if_true]
        simpa using ih (fun d hd => hb d (List.mem_cons_of_mem _ hd))
    rw [this]; rfl
  | cons c cs =>
    have h1 : trimLeft ((c :: cs) ++ b) = (c :: cs) ++ b := trimLeft_nonspace _ (fun d hd => hf d (by simpa using hd))
    rw [h1, List.reverse_append, trimLeft_ows b.reverse _ (fun d hd => hb d (List.mem_reverse.mp hd))]
    rw [trimLeft_nonspace _ (fun d hd => hl d (by rw [List.getLast?_eq_head?_reverse]; exact hd))]
    exact List.reverse_reverse _

theorem byte_forall (P : UInt8 → Prop) (h : ∀ n : Fin 256, P (UInt8.ofNat n.val)) (b : UInt8) : P b := by
  have := h ⟨b.toNat, UInt8.toNat_lt b⟩
  simpa using this

set_option maxRecDepth 100000 in
theorem tchar_not_space {b : UInt8} (h : tchar b = true) : isSpace b = false :=
  byte_forall (fun b => tchar b = true → isSpace b = false) (by decide) b h

set_option maxRecDepth 100000 in
theorem tchar_ne_semicolon {b : UInt8} (h : tchar b = true) : b ≠ 59 :=
  byte_forall (fun b => tchar b = true → b ≠ 59) (by decide) b h

theorem ows_isSpace {s : Bytes} (h : IsOWS s) : ∀ c ∈ s, isSpace c = true := by
  intro c hc
  rcases h c hc with rfl | rfl <;> decide

theorem ows_no_semicolon {s : Bytes} (h : IsOWS s) : (59 : UInt8) ∉ s := by
  intro hm
  rcases h 59 hm with e | e <;> cases e

theorem token_no_semicolon {t : Bytes} (h : IsToken t) : (59 : UInt8) ∉ t :=
  fun hm => tchar_ne_semicolon (h.2 59 hm) rfl

theorem token_ends {t : Bytes} (h : IsToken t) :
    (∀ c, t.head? = some c → isSpace c = false) ∧ (∀ c, t.getLast? = some c → isSpace c = false) :=
  ⟨fun c hc => tchar_not_space (h.2 c (List.mem_of_mem_head? hc)),
   fun c hc => tchar_not_space (h.2 c (List.mem_of_getLast? hc))⟩

theorem zero_no_semicolon {z : Bytes} (h : z ∈ zeroSpellings) : (59 : UInt8) ∉ z := by
  simp only [zeroSpellings, List.mem_cons, List.not_mem_nil, or_false] at h
  rcases h with rfl | rfl | rfl | rfl | rfl <;> decide

theorem splitOn_weighted (lead name ows1 ows2 : Bytes) (qc : UInt8) (qv trail : Bytes)
    (hlead : IsOWS lead) (hname : IsToken name) (h1 : IsOWS ows1) (h2 : IsOWS ows2) (ht : IsOWS trail)
    (hq : qc = 113 ∨ qc = 81) (hz : qv ∈ zeroSpellings) :
    splitOn 59 (weightedElem lead name ows1 ows2 qc qv trail) =
      [lead ++ name ++ ows1, ows2 ++ ([qc, 61] ++ qv) ++ trail] := by
  have e : weightedElem lead name ows1 ows2 qc qv trail =
      (lead ++ name ++ ows1) ++ 59 :: (ows2 ++ ([qc, 61] ++ qv) ++ trail) := by
    simp [weightedElem, List.append_assoc]
  have hl : (59 : UInt8) ∉ lead ++ name ++ ows1 := by
    simp only [List.mem_append, not_or]
    exact ⟨⟨ows_no_semicolon hlead, token_no_semicolon hname⟩, ows_no_semicolon h1⟩
  have hr : (59 : UInt8) ∉ ows2 ++ ([qc, 61] ++ qv) ++ trail := by
    simp only [List.mem_append, List.mem_cons, List.not_mem_nil, or_false, not_or]
    refine ⟨⟨ows_no_semicolon h2, ⟨?_, by decide⟩, zero_no_semicolon hz⟩, ows_no_semicolon ht⟩
    rcases hq with rfl | rfl <;> decide
  rw [e, splitOn_append_sep 59 _ _ hl, splitOn_not_mem 59 _ hr]

theorem elemName_padded (lead name ows1 : Bytes) (rest : List Bytes)
    (hlead : IsOWS lead) (hname : IsToken name) (h1 : IsOWS ows1) :
    toLower (trimSpace (lead ++ name ++ ows1)) = toLower name := by
  rw [trimSpace_padded lead name ows1 (ows_isSpace hlead) (ows_isSpace h1) (token_ends hname).1 (token_ends hname).2]

theorem splitOn_joinElems : ∀ (es : List Bytes), es ≠ [] → (∀ e ∈ es, (44 : UInt8) ∉ e) →
    splitOn 44 (joinElems es) = es
  | [], h, _ => absurd rfl h
  | [e], _, hc => by simp [joinElems, splitOn_not_mem 44 e (hc e List.mem_cons_self)]
  | e :: e2 :: es, _, hc => by
    have ih := splitOn_joinElems (e2 :: es) (by simp) (fun x hx => hc x (List.mem_cons_of_mem _ hx))
    show splitOn 44 (e ++ 44 :: joinElems (e2 :: es)) = _
    rw [splitOn_append_sep 44 _ _ (hc e List.mem_cons_self), ih]

end CaddyModel.C15

/-! ## pooled encoders -/
namespace CaddyModel.C15

section
variable {α : Type}

theorem call_dest (o : EncObj α) (c : EncCall α) :
    (o.call c).1.dest = o.dest ∧ ∀ e ∈ (o.call c).2, e.dest = o.dest := by
  cases c <;> simp [EncObj.call, Emit.dest]

theorem calls_dest : ∀ (cs : List (EncCall α)) (o : EncObj α),
    (o.calls cs).1.dest = o.dest ∧ ∀ e ∈ (o.calls cs).2, e.dest = o.dest
  | [], o => by simp [EncObj.calls]
  | c :: cs, o => by
    obtain ⟨a, b⟩ := call_dest o c
    obtain ⟨i1, i2⟩ := calls_dest cs (o.call c).1
    simp only [EncObj.calls, prependEmits, List.mem_append]
    refine ⟨by rw [i1, a], fun e he => ?_⟩
    rcases he with he | he
    · exact b e he
    · rw [i2 e he, a]

theorem calls_payloads : ∀ (cs : List (EncCall α)) (o : EncObj α),
    (o.calls cs).2.flatMap Emit.payloads ++ (o.calls cs).1.pending = o.pending ++ writesOf cs
  | [], o => by simp [EncObj.calls, writesOf]
  | c :: cs, o => by
    have ih := calls_payloads cs (o.call c).1
    simp only [EncObj.calls, prependEmits, List.flatMap_append, List.append_assoc]
    rw [ih]
    cases c <;> simp [EncObj.call, Emit.payloads, writesOf]

end
end CaddyModel.C15

/-! ## 101 Switching Protocols: final for net/http, "informational" for the writer -/
namespace CaddyModel.C15

section
variable {α : Type}

theorem inv_rwWriteHeader_101_committed {cfg : Cfg α} {name : Bytes} {st : St α}
    (h : Inv cfg name st) (hw : st.wroteHeader = true) : Inv cfg name (rwWriteHeader st 101) := by
  have e : rwWriteHeader st 101 = dsWriteHeader { st with statusCode := 101 } 101 := by
    simp [rwWriteHeader, informational, connectImmediate, vary304, is1xx]
  rw [e]
  have h0 : Inv cfg name ({ st with statusCode := 101 } : St α) := h.congr rfl rfl rfl rfl rfl
  refine h0.ext (.wh 101 st.hdr) rfl rfl rfl rfl ?_ ?_ ?_
  · intro hw'; simp [hw] at hw'
  · intro ho
    obtain ⟨x, hx⟩ := h.sent_of_open ho
    exact ⟨rfl, by simp [dsWriteHeader, isInformational, is1xx, hx, fixSent]⟩
  · intros; rfl

theorem uncommitted_101 {cfg : Cfg α} {name : Bytes} {st : St α}
    (h : Inv cfg name st) (hw : st.wroteHeader = false) : Final101 (rwWriteHeader st 101) := by
  have hs := (h.pre hw).1
  refine ⟨st.hdr, ?_⟩
  simp [rwWriteHeader, informational, connectImmediate, vary304, is1xx, dsWriteHeader, isInformational, hs, fixSent]

theorem final101_step (cfg : Cfg α) (st : St α) (op : Op α) (h : Final101 st) : Final101 (step cfg st op) := by
  cases op with
  | writeHeader s => obtain ⟨hh, e⟩ := h; exact ⟨hh, sent_rwWriteHeader st s _ e⟩
  | write p =>
    rcases held_step cfg 101 (by decide) (by decide) st (.write p) (fun i => by simp) (Or.inr h) with ⟨_, hn, _⟩ | h'
    · obtain ⟨hh, e⟩ := h
      have := sent_rwWrite cfg st p _ e
      simp only [step] at hn; rw [this] at hn; cases hn
    · exact h'
  | flush => obtain ⟨hh, e⟩ := h; exact ⟨hh, sent_rwFlush st _ e⟩
  | readFrom cs =>
    rcases held_step cfg 101 (by decide) (by decide) st (.readFrom cs) (fun i => by simp) (Or.inr h) with ⟨hw, hn, _⟩ | h'
    · -- impossible: the header that was sent stays sent
      exfalso
      obtain ⟨hh, e⟩ := h
      have key : ∀ (x : Nat × Hdr), st.sent = some x → (step cfg st (.readFrom cs)).sent = some x := by
        intro x hx
        simp only [step, rwReadFrom]
        split
        · unfold afterSniff
          have hsn : ∀ (chunks : List α) (n : Nat) (s0 : St α), s0.sent = some x →
              (sniffLoop cfg chunks n s0).1.sent = some x := by
            intro chunks
            induction chunks with
            | nil => intro n s0 h0; simpa [sniffLoop] using h0
            | cons c cs ih =>
              intro n s0 h0
              unfold sniffLoop
              split
              · exact h0
              · exact ih _ _ (sent_rwWrite cfg s0 c x h0)
          split
          · exact sent_copyRest _ _ _ (hsn _ _ _ hx)
          · exact hsn _ _ _ hx
        · exact sent_copyRest _ _ _ hx
      rw [key _ e] at hn; cases hn
    · exact h'
  | hset k v => exact h
  | hadd k v => exact h
  | hdel k => exact h

theorem final101_run (cfg : Cfg α) : ∀ (ops : List (Op α)) (st : St α), Final101 st → Final101 (run cfg st ops)
  | [], _, h => h
  | op :: ops, st, h => by
    have : run cfg st (op :: ops) = run cfg (step cfg st op) ops := rfl
    rw [this]; exact final101_run cfg ops _ (final101_step cfg st op h)

/-- at every point of every script: the invariant holds, or the response is already fixed as 101 -/
theorem inv_or_101_run {cfg : Cfg α} {name : Bytes} : ∀ (ops : List (Op α)) (st : St α),
    Inv cfg name st → Inv cfg name (run cfg st ops) ∨ Final101 (run cfg st ops)
  | [], _, h => Or.inl h
  | op :: ops, st, h => by
    have e : run cfg st (op :: ops) = run cfg (step cfg st op) ops := rfl
    rw [e]
    by_cases h101 : op = Op.writeHeader 101
    · subst h101
      cases hw : st.wroteHeader with
      | true => exact inv_or_101_run ops _ (inv_rwWriteHeader_101_committed h hw)
      | false => exact Or.inr (final101_run cfg ops _ (uncommitted_101 h hw))
    · exact inv_or_101_run ops _ (inv_step op h101 h)

theorem final101_rwClose (cfg : Cfg α) (st : St α) (h : Final101 st) : Final101 (rwClose cfg st) :=
  held_rwClose cfg 101 (by decide) (by decide) st (Or.inr h)

end
end CaddyModel.C15

/-! ## a response whose header forbids encoding is never encoded -/
namespace CaddyModel.C15

section
variable {α : Type}

theorem ineligible_congr {h h' : Hdr} (e1 : hValues h kCE = hValues h' kCE) (e2 : hValues h kCC = hValues h' kCC) :
    ineligible h = ineligible h' := by
  unfold ineligible isEncodeAllowed
  rw [hGet_congr e1, hGet_congr e2]

/-- no encoder, a header that forbids one, nothing but plain events so far -/
structure LeftAlone (ce cc : List Bytes) (st : St α) : Prop where
  closed : st.encOpen = false
  inel : ineligible st.hdr = true
  ce_eq : hValues st.hdr kCE = ce
  cc_eq : hValues st.hdr kCC = cc
  plain : plainOnly st.log = true

theorem LeftAlone.ext {ce cc : List Bytes} {st st' : St α} (h : LeftAlone ce cc st)
    (h1 : st'.encOpen = st.encOpen) (h2 : hValues st'.hdr kCE = hValues st.hdr kCE)
    (h3 : hValues st'.hdr kCC = hValues st.hdr kCC) (h4 : plainOnly st'.log = true) : LeftAlone ce cc st' :=
  ⟨by rw [h1]; exact h.closed, by rw [ineligible_congr h2 h3]; exact h.inel, by rw [h2]; exact h.ce_eq,
    by rw [h3]; exact h.cc_eq, h4⟩

theorem plainOnly_cons {ev : Ev α} {log : List (Ev α)} (h1 : ev.plainOk = true) (h2 : plainOnly log = true) :
    plainOnly (ev :: log) = true := by
  simp only [plainOnly, List.all_cons, Bool.and_eq_true] at *; exact ⟨h1, h2⟩

theorem la_dsWriteHeader {ce cc : List Bytes} {st : St α} (s : Nat) (h : LeftAlone ce cc st) :
    LeftAlone ce cc (dsWriteHeader st s) :=
  h.ext rfl rfl rfl (plainOnly_cons rfl h.plain)

theorem la_rwWriteHeader {ce cc : List Bytes} {st : St α} (s : Nat) (h : LeftAlone ce cc st) :
    LeftAlone ce cc (rwWriteHeader st s) := by
  have h0 : LeftAlone ce cc ({ st with statusCode := s } : St α) := h.ext rfl rfl rfl h.plain
  have h1 : LeftAlone ce cc (vary304 s { st with statusCode := s }) := by
    unfold vary304; split
    · exact h0.ext rfl (hValues_add_ne _ _ (by decide)) (hValues_add_ne _ _ (by decide)) h0.plain
    · exact h0
  have h2 : LeftAlone ce cc (connectImmediate s (vary304 s { st with statusCode := s })) := by
    unfold connectImmediate; split
    · exact (la_dsWriteHeader s h1).ext rfl rfl rfl (la_dsWriteHeader s h1).plain
    · exact h1
  unfold rwWriteHeader informational
  split
  · exact la_dsWriteHeader s h2
  · exact h2

theorem la_connectDefault {ce cc : List Bytes} {st : St α} (h : LeftAlone ce cc st) :
    LeftAlone ce cc (connectDefault st) := by
  unfold connectDefault; split
  · exact la_rwWriteHeader 200 h
  · exact h

theorem initOk_false_of_ineligible (cfg : Cfg α) (st : St α) (h : ineligible st.hdr = true) : initOk cfg st = false := by
  unfold ineligible at h
  unfold initOk
  cases h1 : (hGet st.hdr kCE).isEmpty <;> cases h2 : isEncodeAllowed st.hdr <;> simp_all

theorem la_rwInit {ce cc : List Bytes} (cfg : Cfg α) {st : St α} (h : LeftAlone ce cc st) : rwInit cfg st = st := by
  unfold rwInit; rw [initOk_false_of_ineligible cfg st h.inel]; rfl

theorem la_decide1 {ce cc : List Bytes} (cfg : Cfg α) {st : St α} (p : α) (h : LeftAlone ce cc st) :
    LeftAlone ce cc (decide1 cfg st p) := by
  have hs : LeftAlone ce cc (sniffType cfg st p) := by
    unfold sniffType; split
    · exact h.ext rfl (hValues_set_ne _ _ (by decide)) (hValues_set_ne _ _ (by decide)) h.plain
    · exact h
  unfold decide1
  split
  · split
    · rw [la_rwInit cfg hs]; exact hs
    · exact h
  · exact h

theorem la_commitHeader {ce cc : List Bytes} {st : St α} (h : LeftAlone ce cc st) :
    LeftAlone ce cc (commitHeader st) := by
  unfold commitHeader; split
  · split
    · exact (la_dsWriteHeader st.statusCode h).ext rfl rfl rfl (la_dsWriteHeader st.statusCode h).plain
    · exact h.ext rfl rfl rfl h.plain
  · exact h

theorem la_dsWrite {ce cc : List Bytes} {st : St α} (p : α) (h : LeftAlone ce cc st) : LeftAlone ce cc (dsWrite st p) :=
  h.ext rfl rfl rfl (plainOnly_cons rfl h.plain)

theorem la_rwWrite {ce cc : List Bytes} (cfg : Cfg α) {st : St α} (p : α) (h : LeftAlone ce cc st) :
    LeftAlone ce cc (rwWrite cfg st p) := by
  unfold rwWrite; split
  · exact h
  · have h3 := la_commitHeader (la_decide1 cfg p (la_connectDefault h))
    unfold emit
    rw [h3.closed]
    exact la_dsWrite p h3

theorem la_rwFlush {ce cc : List Bytes} {st : St α} (h : LeftAlone ce cc st) : LeftAlone ce cc (rwFlush st) := by
  have h1 := la_connectDefault h
  unfold rwFlush; split
  · exact h1
  · unfold flushThrough
    rw [h1.closed]
    exact h1.ext rfl rfl rfl (plainOnly_cons rfl h1.plain)

theorem la_foldl_dsWrite {ce cc : List Bytes} : ∀ (cs : List α) (st : St α), LeftAlone ce cc st →
    LeftAlone ce cc (cs.foldl dsWrite st)
  | [], _, h => h
  | c :: cs, st, h => by rw [List.foldl_cons]; exact la_foldl_dsWrite cs _ (la_dsWrite c h)

theorem la_copyRest {ce cc : List Bytes} {st : St α} (cs : List α) (h : LeftAlone ce cc st) :
    LeftAlone ce cc (copyRest st cs) := by
  unfold copyRest; rw [h.closed]
  exact la_foldl_dsWrite cs _ (la_commitHeader h)

theorem la_sniffLoop {ce cc : List Bytes} (cfg : Cfg α) : ∀ (cs : List α) (n : Nat) (st : St α), LeftAlone ce cc st →
    LeftAlone ce cc (sniffLoop cfg cs n st).1
  | [], _, _, h => by simpa [sniffLoop] using h
  | c :: cs, n, st, h => by
    unfold sniffLoop; split
    · exact h
    · exact la_sniffLoop cfg cs _ _ ((la_rwWrite cfg c h).ext rfl rfl rfl (la_rwWrite cfg c h).plain)

theorem la_step {ce cc : List Bytes} (cfg : Cfg α) {st : St α} (op : Op α) (hop : op.isHeaderEdit = false)
    (h : LeftAlone ce cc st) : LeftAlone ce cc (step cfg st op) := by
  cases op with
  | writeHeader s => exact la_rwWriteHeader s h
  | write p => exact la_rwWrite cfg p h
  | flush => exact la_rwFlush h
  | readFrom cs =>
    simp only [step, rwReadFrom]
    split
    · unfold afterSniff; split
      · exact la_copyRest _ (la_sniffLoop cfg _ _ _ h)
      · exact la_sniffLoop cfg _ _ _ h
    · exact la_copyRest _ h
  | hset k v => simp [Op.isHeaderEdit] at hop
  | hadd k v => simp [Op.isHeaderEdit] at hop
  | hdel k => simp [Op.isHeaderEdit] at hop

theorem la_run {ce cc : List Bytes} (cfg : Cfg α) : ∀ (ops : List (Op α)) (st : St α),
    (∀ op ∈ ops, op.isHeaderEdit = false) → LeftAlone ce cc st → LeftAlone ce cc (run cfg st ops)
  | [], _, _, h => h
  | op :: ops, st, hops, h => by
    have e : run cfg st (op :: ops) = run cfg (step cfg st op) ops := rfl
    rw [e]
    exact la_run cfg ops _ (fun o ho => hops o (List.mem_cons_of_mem _ ho)) (la_step cfg op (hops op List.mem_cons_self) h)

theorem la_rwClose {ce cc : List Bytes} (cfg : Cfg α) {st : St α} (h : LeftAlone ce cc st) :
    LeftAlone ce cc (rwClose cfg st) := by
  have h1 : LeftAlone ce cc (closeHeader cfg st) := by
    unfold closeHeader; split
    · split
      · rw [la_rwInit cfg h]; exact la_commitHeader h
      · exact la_commitHeader h
    · exact h
  unfold rwClose
  rw [h1.closed]
  exact h1

end
end CaddyModel.C15

/-! ## reverse_proxy as a caller: the lock discipline serialises the calls -/
namespace CaddyModel.C15

section
variable {α : Type}

/-- what the lock holder may be doing, and what the trace then looks like -/
def heldOk (ph : Phase) (t : Bool) (tr : List (CallEv α)) : Prop :=
  (ph = .locked ∧ okRev tr none = true) ∨ (ph = .inCall ∧ okRev tr (some t) = true) ∨
    (ph = .after ∧ okRev tr none = true)

/-- every thread keeps the discipline; who does not hold the lock is between calls; the holder is the only one
    that can be inside a call, and the trace so far has no overlap -/
structure LockInv (s : Sys α) : Prop where
  guarded : ∀ u, (s.callers u).guarded = true
  others : ∀ u, s.lock ≠ some u → (s.callers u).phase = .idle
  held : match s.lock with
    | none => okRev s.trace none = true
    | some t => heldOk (s.callers t).phase t s.trace

theorem setCaller_self (s : Sys α) (t : Bool) (c : Caller α) : s.setCaller t c t = c := by
  simp [Sys.setCaller]

theorem setCaller_other (s : Sys α) {t u : Bool} (c : Caller α) (h : u ≠ t) : s.setCaller t c u = s.callers u := by
  simp [Sys.setCaller, h]

theorem lockInv_step (s : Sys α) (t : Bool) (h : LockInv s) : LockInv (s.step t) := by
  have hg := h.guarded t
  -- the phase of a thread that is not idle says it holds the lock
  have holder : (s.callers t).phase ≠ .idle → s.lock = some t := by
    intro hp
    cases hl : s.lock with
    | none => exact absurd (h.others t (by rw [hl]; simp)) hp
    | some u =>
      by_cases hu : u = t
      · rw [hu]
      · exact absurd (h.others t (by rw [hl]; simpa using hu)) hp
  unfold Sys.step
  split
  · -- idle → try to take the lock
    rename_i hph _
    by_cases hfree : s.lock.isNone = true
    · rw [if_pos hfree]
      have hl : s.lock = none := by simpa using hfree
      have htr : okRev s.trace none = true := by have := h.held; rw [hl] at this; exact this
      refine ⟨fun u => ?_, fun u hu => ?_, ?_⟩
      · by_cases e : u = t
        · subst e; simp [setCaller_self, hg]
        · simp only []; rw [setCaller_other s _ e]; exact h.guarded u
      · have e : u ≠ t := fun e => hu (by simp [e])
        simp only []; rw [setCaller_other s _ e]
        exact h.others u (by rw [hl]; simp)
      · simp only [setCaller_self]
        exact Or.inl ⟨rfl, htr⟩
    · rw [if_neg hfree]; exact h
  · -- locked → begin the call (guarded)
    rename_i c _ hph _
    have hl := holder (by rw [hph]; decide)
    have hh := h.held; rw [hl] at hh
    rw [if_pos hg]
    refine ⟨fun u => ?_, fun u hu => ?_, ?_⟩
    · by_cases e : u = t
      · subst e; simp [setCaller_self, hg]
      · simp only []; rw [setCaller_other s _ e]; exact h.guarded u
    · have e : u ≠ t := fun e => hu (by simp [hl, e])
      simp only []; rw [setCaller_other s _ e]
      exact h.others u (by simpa [hl] using hu)
    · simp only [hl, setCaller_self]
      rcases hh with ⟨_, ho⟩ | ⟨hp, _⟩ | ⟨hp, _⟩
      · exact Or.inr (Or.inl ⟨rfl, by simp [okRev, ho]⟩)
      · rw [hph] at hp; cases hp
      · rw [hph] at hp; cases hp
  · -- ready: impossible under the discipline
    rename_i hph _
    have hl := holder (by rw [hph]; decide)
    have hh := h.held; rw [hl] at hh
    rcases hh with ⟨hp, _⟩ | ⟨hp, _⟩ | ⟨hp, _⟩ <;> (rw [hph] at hp; cases hp)
  · -- inCall → the call returns (guarded: lock still held)
    rename_i hph _
    have hl := holder (by rw [hph]; decide)
    have hh := h.held; rw [hl] at hh
    rw [if_pos hg]
    refine ⟨fun u => ?_, fun u hu => ?_, ?_⟩
    · by_cases e : u = t
      · subst e; simp [setCaller_self, hg]
      · simp only []; rw [setCaller_other s _ e]; exact h.guarded u
    · have e : u ≠ t := fun e => hu (by simp [hl, e])
      simp only []; rw [setCaller_other s _ e]
      exact h.others u (by simpa [hl] using hu)
    · simp only [hl, setCaller_self]
      rcases hh with ⟨hp, _⟩ | ⟨_, ho⟩ | ⟨hp, _⟩
      · rw [hph] at hp; cases hp
      · exact Or.inr (Or.inr ⟨rfl, by simp [okRev, ho]⟩)
      · rw [hph] at hp; cases hp
  · -- after → Unlock
    rename_i hph _
    have hl := holder (by rw [hph]; decide)
    have hh := h.held; rw [hl] at hh
    refine ⟨fun u => ?_, fun u _ => ?_, ?_⟩
    · by_cases e : u = t
      · subst e; simp [setCaller_self, hg]
      · simp only []; rw [setCaller_other s _ e]; exact h.guarded u
    · by_cases e : u = t
      · subst e; simp [setCaller_self]
      · simp only []; rw [setCaller_other s _ e]
        exact h.others u (by rw [hl]; simpa using (fun e' => e e'.symm))
    · simp only []
      rcases hh with ⟨hp, _⟩ | ⟨hp, _⟩ | ⟨_, ho⟩
      · rw [hph] at hp; cases hp
      · rw [hph] at hp; cases hp
      · exact ho
  · exact h

theorem lockInv_exec : ∀ (sched : List Bool) (s : Sys α), LockInv s → LockInv (s.exec sched)
  | [], _, h => h
  | t :: ts, s, h => lockInv_exec ts _ (lockInv_step s t h)

theorem lockInv_start (ws fs : List (Op α)) : LockInv (Sys.start true true ws fs) :=
  ⟨fun u => by cases u <;> rfl, fun u _ => by cases u <;> rfl, rfl⟩

theorem noOverlap_of_lockInv {s : Sys α} (h : LockInv s) : noOverlap s.trace = true := by
  have hh := h.held
  unfold noOverlap
  cases hl : s.lock with
  | none => rw [hl] at hh; simp [hh]
  | some t =>
    rw [hl] at hh
    rcases hh with ⟨_, ho⟩ | ⟨_, ho⟩ | ⟨_, ho⟩
    · simp [ho]
    · cases t <;> simp [ho]
    · simp [ho]

/-- an overlap-free trace with no call in progress IS a sequential script -/
theorem script_of_okRev : ∀ (tr : List (CallEv α)), okRev tr none = true →
    ∃ script : List (Bool × Op α), tr = scriptTrace script ∧ callsOf tr = (script.reverse).map (·.2)
  | [], _ => ⟨[], rfl, rfl⟩
  | [.beg _ _], h => by simp [okRev] at h
  | [.fin _], h => by simp [okRev] at h
  | .beg _ _ :: _ :: _, h => by simp [okRev] at h
  | .fin _ :: .fin _ :: _, h => by simp [okRev] at h
  | .fin t :: .beg u c :: rest, h => by
    simp only [okRev, Option.isNone_none, Bool.true_and, Bool.and_eq_true, beq_iff_eq, Option.some.injEq] at h
    obtain ⟨htu, hr⟩ := h
    obtain ⟨script, e1, e2⟩ := script_of_okRev rest hr
    refine ⟨(t, c) :: script, ?_, ?_⟩
    · simp [scriptTrace, e1, htu]
    · simp [callsOf, e2]

end
end CaddyModel.C15

/-! ## the buffering recorder behind the encode handler -/
namespace CaddyModel.C15

theorem writtenBytes_eq (ops : List (Op Bytes)) : writtenBytes ops = (ops.map opBytes).flatten := rfl

theorem writtenBytes_snoc (ops : List (Op Bytes)) (op : Op Bytes) :
    writtenBytes (ops ++ [op]) = writtenBytes ops ++ opBytes op := by
  simp [writtenBytes_eq]

theorem written_flatten (cfg : Cfg Bytes) (hsz : cfg.size = List.length) : ∀ (ops : List (Op Bytes)),
    (written cfg ops).flatten = writtenBytes ops
  | [] => rfl
  | op :: ops => by
    have ih := written_flatten cfg hsz ops
    rw [writtenBytes_eq] at ih ⊢
    simp only [written, List.flatMap_cons, List.flatten_append, List.map_cons, List.flatten_cons] at ih ⊢
    rw [ih]
    congr 1
    cases op with
    | write p =>
      simp only [opPayloads, hsz, opBytes]
      by_cases hp : p = []
      · simp [hp]
      · simp [hp]
    | readFrom cs => exact flatten_nonEmpty cfg hsz cs
    | writeHeader s => rfl
    | flush => rfl
    | hset k v => rfl
    | hadd k v => rfl
    | hdel k => rfl

/-- what has been passed on plus what is still buffered = what the handler has written so far -/
def recAcc (s : RecSt Bytes) : Bytes := writtenBytes s.out.reverse ++ s.buf.flatten

theorem recAcc_writeHeader (sb : Nat → Bool) (s : RecSt Bytes) (status : Nat) :
    recAcc (recWriteHeader sb s status) = recAcc s := by
  unfold recWriteHeader recAcc
  split
  · rfl
  · simp only []
    split
    · simp [List.reverse_cons, writtenBytes_snoc, opBytes]
    · rfl

/-- something is buffered only after the final header decided for buffering -/
def RecInv (s : RecSt Bytes) : Prop := s.buf = [] ∨ (s.wrote = true ∧ s.stream = false)

theorem recInv_writeHeader (sb : Nat → Bool) (s : RecSt Bytes) (status : Nat) (h : RecInv s) :
    RecInv (recWriteHeader sb s status) := by
  unfold recWriteHeader
  by_cases hw : s.wrote = true
  · simp [hw]; exact h
  · rcases h with h | ⟨h, _⟩
    · simp only [hw]; exact Or.inl h
    · exact absurd h hw

theorem wrote_after_200 (sb : Nat → Bool) (s : RecSt Bytes) : (recWriteHeader sb s 200).wrote = true := by
  unfold recWriteHeader
  by_cases hw : s.wrote = true
  · simp [hw]
  · simp [hw]

theorem recAcc_step (sb : Nat → Bool) (s : RecSt Bytes) (op : Op Bytes) (hi : RecInv s) :
    recAcc (recStep sb s op) = recAcc s ++ opBytes op ∧ RecInv (recStep sb s op) := by
  cases op with
  | writeHeader status => exact ⟨by simp [recStep, recAcc_writeHeader, opBytes], recInv_writeHeader sb s status hi⟩
  | write p =>
    simp only [recStep, opBytes]
    rw [← recAcc_writeHeader sb s 200]
    have hi1 := recInv_writeHeader sb s 200 hi
    have hw1 := wrote_after_200 sb s
    generalize recWriteHeader sb s 200 = s1 at *
    by_cases h : s1.stream = true
    · have hb : s1.buf = [] := by
        rcases hi1 with hb | ⟨_, hs⟩
        · exact hb
        · rw [h] at hs; cases hs
      exact ⟨by simp [h, recAcc, List.reverse_cons, writtenBytes_snoc, opBytes, hb], by simp [h]; exact Or.inl hb⟩
    · have h' : s1.stream = false := by simpa using h
      exact ⟨by simp [h, recAcc, List.append_assoc], by simp [h]; exact Or.inr ⟨hw1, rfl⟩⟩
  | readFrom cs =>
    simp only [recStep, opBytes]
    rw [← recAcc_writeHeader sb s 200]
    have hi1 := recInv_writeHeader sb s 200 hi
    have hw1 := wrote_after_200 sb s
    generalize recWriteHeader sb s 200 = s1 at *
    by_cases h : s1.stream = true
    · have hb : s1.buf = [] := by
        rcases hi1 with hb | ⟨_, hs⟩
        · exact hb
        · rw [h] at hs; cases hs
      exact ⟨by simp [h, recAcc, List.reverse_cons, writtenBytes_snoc, opBytes, hb], by simp [h]; exact Or.inl hb⟩
    · have h' : s1.stream = false := by simpa using h
      exact ⟨by simp [h, recAcc, List.append_assoc], by simp [h]; exact Or.inr ⟨hw1, rfl⟩⟩
  | flush =>
    simp only [recStep, opBytes, List.append_nil]
    split
    · exact ⟨by simp [recAcc, List.reverse_cons, writtenBytes_snoc, opBytes], hi⟩
    · exact ⟨rfl, hi⟩
  | hset k v => exact ⟨by simp [recStep, recAcc, List.reverse_cons, writtenBytes_snoc, opBytes], hi⟩
  | hadd k v => exact ⟨by simp [recStep, recAcc, List.reverse_cons, writtenBytes_snoc, opBytes], hi⟩
  | hdel k => exact ⟨by simp [recStep, recAcc, List.reverse_cons, writtenBytes_snoc, opBytes], hi⟩

theorem recAcc_foldl (sb : Nat → Bool) : ∀ (ops : List (Op Bytes)) (s : RecSt Bytes), RecInv s →
    recAcc (ops.foldl (recStep sb) s) = recAcc s ++ writtenBytes ops ∧ RecInv (ops.foldl (recStep sb) s)
  | [], s, hi => ⟨by simp [writtenBytes_eq], hi⟩
  | op :: ops, s, hi => by
    obtain ⟨a, b⟩ := recAcc_step sb s op hi
    obtain ⟨c, d⟩ := recAcc_foldl sb ops _ b
    rw [List.foldl_cons]
    exact ⟨by rw [c, a]; simp [writtenBytes_eq, List.append_assoc], d⟩

theorem stream_buf_nil {s : RecSt Bytes} (hi : RecInv s) (hs : s.stream = true) : s.buf = [] := by
  rcases hi with h | ⟨_, h⟩
  · exact h
  · rw [hs] at h; cases h

theorem recFinish_bytes (sb : Nat → Bool) (s : RecSt Bytes) (hi : RecInv s) :
    writtenBytes (recFinish sb List.flatten List.isEmpty s).out.reverse = recAcc s := by
  unfold recFinish
  by_cases hs : s.stream = true
  · simp [hs, recAcc, stream_buf_nil hi hs]
  · simp only [hs]
    have e := recAcc_writeHeader sb s 200
    have hi200 := recInv_writeHeader sb s 200 hi
    generalize hs1 : (if (s.status == 0) = true then recWriteHeader sb s 200 else s) = s1
    have e1 : recAcc s1 = recAcc s := by
      rw [← hs1]; split
      · exact e
      · rfl
    have hi1 : RecInv s1 := by
      rw [← hs1]; split
      · exact hi200
      · exact hi
    by_cases h1 : s1.stream = true
    · simp only [h1, if_true]
      rw [← e1]; simp [recAcc, stream_buf_nil hi1 h1]
    · simp only [h1]
      rw [← e1]
      by_cases hb : (List.flatten s1.buf).isEmpty = true
      · have : s1.buf.flatten = [] := by simpa using hb
        simp [hb, recAcc, List.reverse_cons, writtenBytes_snoc, opBytes, this]
      · simp [hb, recAcc, List.reverse_cons, List.reverse_append, writtenBytes_snoc, opBytes, writtenBytes_eq]

theorem recorderOps_bytes (sb : Nat → Bool) (ops : List (Op Bytes)) :
    writtenBytes (recorderOps sb List.flatten List.isEmpty ops) = writtenBytes ops := by
  unfold recorderOps
  obtain ⟨a, b⟩ := recAcc_foldl sb ops RecSt.init (Or.inl rfl)
  rw [recFinish_bytes sb _ b, a]
  simp [recAcc, RecSt.init, writtenBytes_eq]

end CaddyModel.C15

/-! ## file_server's sidecar loop -/
namespace CaddyModel.C15

theorem sidecarLoop_spec (drop : Bool) (configured : Bytes → Bool) (state : Bytes → SideState) (etagFails : Bool) :
    ∀ (accepted : List Bytes) (ce0 ce : Option Bytes) (opened : Option Served),
      sidecarLoop false drop configured state etagFails accepted ce0 = .inl (ce, opened) →
      (opened = none ∧ ce = ce0) ∨
        ∃ c, opened = some (.sidecar c) ∧ ce = some c ∧ c ∈ accepted ∧ configured c = true ∧ state c = .ok
  | [], ce0, ce, opened, h => by
    simp only [sidecarLoop, Sum.inl.injEq, Prod.mk.injEq] at h
    exact Or.inl ⟨h.2.symm, h.1.symm⟩
  | ae :: rest, ce0, ce, opened, h => by
    unfold sidecarLoop at h
    by_cases hc : configured ae = true
    · simp only [hc, Bool.not_true, Bool.false_eq_true, if_false] at h
      cases hs : state ae with
      | absent =>
        rw [hs] at h
        rcases sidecarLoop_spec drop configured state etagFails rest ce0 ce opened h with r | ⟨c, a, b, m, d, e⟩
        · exact Or.inl r
        · exact Or.inr ⟨c, a, b, List.mem_cons_of_mem _ m, d, e⟩
      | openRefused =>
        rw [hs] at h
        simp only [Bool.false_eq_true, if_false] at h
        rcases sidecarLoop_spec drop configured state etagFails rest ce0 ce opened h with r | ⟨c, a, b, m, d, e⟩
        · exact Or.inl r
        · exact Or.inr ⟨c, a, b, List.mem_cons_of_mem _ m, d, e⟩
      | openFatal => rw [hs] at h; simp at h
      | ok =>
        rw [hs] at h
        by_cases he : etagFails = true
        · simp [he] at h
        · simp only [he, Bool.false_eq_true, if_false, Sum.inl.injEq, Prod.mk.injEq] at h
          exact Or.inr ⟨ae, h.2.symm, h.1.symm, List.mem_cons_self, hc, hs⟩
    · simp only [hc, Bool.not_false, if_true] at h
      rcases sidecarLoop_spec drop configured state etagFails rest ce0 ce opened h with r | ⟨c, a, b, m, d, e⟩
      · exact Or.inl r
      · exact Or.inr ⟨c, a, b, List.mem_cons_of_mem _ m, d, e⟩

/-- (code as it is) whatever error the loop ends with, no Content-Encoding is left in the header map -/
theorem sidecarLoop_error (configured : Bytes → Bool) (state : Bytes → SideState) (etagFails : Bool) :
    ∀ (accepted : List Bytes) (status : Nat) (ce : Option Bytes),
      sidecarLoop false true configured state etagFails accepted none = .inr (status, ce) → ce = none
  | [], _, _, h => by simp [sidecarLoop] at h
  | ae :: rest, status, ce, h => by
    unfold sidecarLoop at h
    by_cases hc : configured ae = true
    · simp only [hc, Bool.not_true, Bool.false_eq_true, if_false] at h
      cases hs : state ae with
      | absent => rw [hs] at h; exact sidecarLoop_error configured state etagFails rest status ce h
      | openRefused =>
        rw [hs] at h
        simp only [Bool.false_eq_true, if_false] at h
        exact sidecarLoop_error configured state etagFails rest status ce h
      | openFatal =>
        rw [hs] at h
        simp only [Bool.false_eq_true, if_false, Sum.inr.injEq, Prod.mk.injEq] at h
        exact h.2.symm
      | ok =>
        rw [hs] at h
        by_cases he : etagFails = true
        · simp only [he, if_true, Sum.inr.injEq, Prod.mk.injEq] at h
          exact h.2.symm
        · simp [he] at h
    · simp only [hc, Bool.not_false, if_true] at h
      exact sidecarLoop_error configured state etagFails rest status ce h

end CaddyModel.C15
