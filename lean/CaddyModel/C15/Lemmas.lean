/-
C15 — helper lemmas: http.Header algebra, the header edits of `init`, payload bookkeeping of
every responseWriter method, and the run invariant behind the property theorems.
-/
import CaddyModel.C15.Spec

namespace CaddyModel.C15

/-! ## http.Header -/

theorem hValues_del_self (h : Hdr) (k : Bytes) : hValues (hDel h k) k = [] := by
  induction h with
  | nil => rfl
  | cons e t ih =>
    obtain ⟨k', vs⟩ := e
    unfold hDel at *
    by_cases hk : k' = k
    · simp [List.filter, hk, ih]
    · have : (k' == k) = false := by simpa using hk
      simp [List.filter, this, hValues, hk, ih]

theorem hValues_del_ne (h : Hdr) {k k' : Bytes} (hne : k' ≠ k) : hValues (hDel h k) k' = hValues h k' := by
  induction h with
  | nil => rfl
  | cons e t ih =>
    obtain ⟨k2, vs⟩ := e
    unfold hDel at *
    by_cases hk : k2 = k
    · have : k2 ≠ k' := fun h => hne (h ▸ hk)
      simp [List.filter, hk, hValues, ih]
      intro h2; exact absurd (hk ▸ h2) (Ne.symm hne)
    · have : (k2 == k) = false := by simpa using hk
      simp [List.filter, this, hValues, ih]

theorem hValues_set_self (h : Hdr) (k v : Bytes) : hValues (hSet h k v) k = [v] := by
  simp [hSet, hValues]

theorem hValues_set_ne (h : Hdr) {k k' : Bytes} (v : Bytes) (hne : k' ≠ k) :
    hValues (hSet h k v) k' = hValues h k' := by
  simp [hSet, hValues, Ne.symm hne, hValues_del_ne h hne]

theorem hValues_add_self (h : Hdr) (k v : Bytes) : hValues (hAdd h k v) k = hValues h k ++ [v] := by
  simp [hAdd, hValues]

theorem hValues_add_ne (h : Hdr) {k k' : Bytes} (v : Bytes) (hne : k' ≠ k) :
    hValues (hAdd h k v) k' = hValues h k' := by
  simp [hAdd, hValues, Ne.symm hne, hValues_del_ne h hne]

theorem hGet_congr {h h' : Hdr} {k : Bytes} (e : hValues h k = hValues h' k) : hGet h k = hGet h' k := by
  unfold hGet; rw [e]

theorem hasVary_congr {h h' : Hdr} (e : hValues h kVary = hValues h' kVary) : hasVary h = hasVary h' := by
  unfold hasVary; rw [e]

end CaddyModel.C15
