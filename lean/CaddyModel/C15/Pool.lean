/-
C15 — pooled encoders: state that is shared between responses.

`Encode.writerPools` keeps one `sync.Pool` of encoder objects (gzip.Writer / zstd.Encoder) per coding. An
encoder object remembers where it writes (`dest`, set by `Reset(w)`) and what it has accepted but not yet
emitted (`pending`); `init()` takes an object out of the pool and resets it to the current response
(`Get(); Reset(rw.ResponseWriter)`, encode.go:430-431), `Close()` closes it, detaches it and puts it back
(`Close(); Reset(nil); Put`, encode.go:421-424). The main model treats the encoder of a response as fresh;
this file models the object that is actually reused and proves that — because of the two `Reset` calls — reuse
is invisible: whatever state the pool hands out, every byte the encoder emits goes to the current response and
stems from the current response. `lifecycleInit` / `lifecycleClose` are tied to the source by
`Props.encoder_lifecycle_matches_source`.
-/
import CaddyModel.C15.Model

namespace CaddyModel.C15

/-- an encoder object as far as reuse is concerned -/
structure EncObj (α : Type) where
  dest : Option Nat      -- the response writer it was last `Reset` to (`none` = `Reset(nil)` / never reset)
  pending : List α       -- accepted by `Write`, not yet emitted
deriving DecidableEq, Repr

/-- what an encoder emits: to which writer, which payloads (then possibly the trailer) -/
inductive Emit (α : Type) where
  | data (dest : Option Nat) (ps : List α)
  | trailer (dest : Option Nat)
deriving DecidableEq, Repr

inductive EncCall (α : Type) where
  | write (p : α)
  | flush
  | close
deriving DecidableEq, Repr

section
variable {α : Type}

def EncObj.fresh : EncObj α := ⟨none, []⟩

/-- `Reset(w)`: new destination, all internal state dropped -/
def EncObj.reset (_ : EncObj α) (w : Option Nat) : EncObj α := ⟨w, []⟩

/-- `Write` buffers, `Flush` emits what is pending, `Close` emits it and the trailer -/
def EncObj.call (o : EncObj α) : EncCall α → EncObj α × List (Emit α)
  | .write p => (⟨o.dest, o.pending ++ [p]⟩, [])
  | .flush => (⟨o.dest, []⟩, [.data o.dest o.pending])
  | .close => (⟨o.dest, []⟩, [.data o.dest o.pending, .trailer o.dest])

def prependEmits (e : List (Emit α)) (r : EncObj α × List (Emit α)) : EncObj α × List (Emit α) := (r.1, e ++ r.2)

def EncObj.calls : EncObj α → List (EncCall α) → EncObj α × List (Emit α)
  | o, [] => (o, [])
  | o, c :: cs => prependEmits (o.call c).2 ((o.call c).1.calls cs)

/-- the calls the code makes on an encoder object and its pool, as data (order of the source) -/
def lifecycleInit : List String := ["Get", "Reset(w)"]
def lifecycleClose : List String := ["Close", "Reset(nil)", "Put"]

/-- one encoded response with a pool slot: `init` (Get, Reset to this response), the handler's encoder calls,
    `Close` (Close, Reset(nil), Put). Returns what was emitted and the object that goes back to the pool. -/
def serveWithPool (slot : Option (EncObj α)) (id : Nat) (calls : List (EncCall α)) : List (Emit α) × EncObj α :=
  (fun r : EncObj α × List (Emit α) => (r.2 ++ (r.1.call .close).2, (r.1.call .close).1.reset none))
    (((match slot with | some o => o | none => EncObj.fresh).reset (some id)).calls calls)

/-- the same lifecycle WITHOUT the `Reset` of `init` (what a change that "forgets Reset" would do) -/
def serveWithoutReset (slot : Option (EncObj α)) (calls : List (EncCall α)) : List (Emit α) × EncObj α :=
  (fun r : EncObj α × List (Emit α) => (r.2 ++ (r.1.call .close).2, (r.1.call .close).1.reset none))
    ((match slot with | some o => o | none => EncObj.fresh).calls calls)

/-- a sequence of responses sharing one pool slot -/
def serveSeq : Option (EncObj α) → List (Nat × List (EncCall α)) → List (List (Emit α))
  | _, [] => []
  | slot, (id, calls) :: rest => (serveWithPool slot id calls).1 :: serveSeq (some (serveWithPool slot id calls).2) rest

def Emit.dest : Emit α → Option Nat
  | .data d _ => d
  | .trailer d => d

def Emit.payloads : Emit α → List α
  | .data _ ps => ps
  | .trailer _ => []

def writesOf : List (EncCall α) → List α
  | [] => []
  | .write p :: cs => p :: writesOf cs
  | _ :: cs => writesOf cs

end
end CaddyModel.C15
