/-
C15 — proved counter-examples: clauses of the statement that the unchanged code violates.

FULL STATEMENTS (what the property asks for, for EVERY configuration the code accepts):
  (T)  ∀ cfg name ic ops, No101 ops → clientBody (some name) (runWrapped cfg name ic ops) = some (written cfg ops)
  (S)  the status the client receives is the status the handler set before its first body byte

Both fail when `minimum_length` is negative (accepted by `Validate`, not touched by `Provision`):
`ReadFrom` then skips the sniffing phase (`rw.config.MinLength > 0` is false, encode.go:372) and hands the
reader straight to the wrapped writer (encode.go:389) without ever going through `Write` — the deferred
status is never written (net/http answers 200), `wroteHeader` stays false, and `Close` (encode.go:397-408)
may still run `init()` and append an encoder trailer to a response whose plain body and header are already
out. The provable part is stated in Props.lean under the decidable exclusion `cfg.minLen > 0`.
The witnesses below are exported as protocol lines (`Driver.witnessLines`) and replayed on the real code on
every run.
-/
import CaddyModel.C15.Spec

namespace CaddyModel.C15

/-- `minimum_length: -1`, any matcher; payloads are their lengths -/
def wCfg : Cfg Nat := ⟨-1, fun _ _ => true, id, fun _ => []⟩

/-- `Content-Length: 5`, then the 5 body bytes arrive through `ReadFrom` -/
def wMixed : List (Op Nat) := [.hset kCL [53], .readFrom [5]]

/-- `WriteHeader(404)`, then the body arrives through `ReadFrom` -/
def wStatus : List (Op Nat) := [.writeHeader 404, .readFrom [5]]

theorem wMixed_no101 : No101 wMixed := by
  intro op h
  simp [wMixed] at h
  rcases h with rfl | rfl <;> simp

/-- what happens: 5 plain bytes under a header without Content-Encoding, then the encoder's trailer -/
theorem wMixed_log : (runWrapped wCfg vGzip false wMixed).log = [.ec, .w 5] ∧
    sentCE (runWrapped wCfg vGzip false wMixed) = [] := by decide

/-- ¬(T): the negation of the full transparency statement -/
theorem transparent_full_fails :
    ∃ (cfg : Cfg Nat) (name : Bytes) (ic : Bool) (ops : List (Op Nat)), No101 ops ∧
      clientBody (some name) (runWrapped cfg name ic ops) ≠ some (written cfg ops) :=
  ⟨wCfg, vGzip, false, wMixed, wMixed_no101, by decide⟩

/-- ¬(S): the handler answered 404, the client is told 200 -/
theorem status_full_fails :
    ∃ (cfg : Cfg Nat) (name : Bytes) (ic : Bool) (s : Nat) (body : List (Op Nat)),
      (∀ op ∈ body, ∃ cs, op = Op.readFrom cs) ∧
      ((runWrapped cfg name ic (Op.writeHeader s :: body)).sent.map (·.1)) ≠ some s :=
  ⟨wCfg, vGzip, false, 404, [.readFrom [5]], by simp, by decide⟩

/-- the exclusion is sharp: the same two scripts are fine under the default `minimum_length` -/
example : clientBody (some vGzip) (runWrapped { wCfg with minLen := 512 } vGzip false wMixed) = some [5] := by decide
example : ((runWrapped { wCfg with minLen := 512 } vGzip false wStatus).sent.map (·.1)) = some 404 := by decide

/-- Why `No101` is a hypothesis of the body clauses (NOT a defect of the tree, not exported): the writer
    forwards 101 like any 1xx, net/http treats it as the final header; the recording writer of the model does
    not drop the body net/http would refuse (`ErrBodyNotAllowed`), so in the model an "encoded body" follows a
    header that was fixed before `init` ran. -/
theorem no101_hypothesis_is_needed :
    clientBody (some vGzip) (runWrapped { wCfg with minLen := 1 } vGzip false [.writeHeader 101, .write 5]) = none := by
  decide

end CaddyModel.C15
