/-
C15 — the defect the clauses (T) transparency and (S) status preservation used to have, kept as
non-vacuity theorems about the OLD code.

Before commit 954786b ("fix: encode: write the deferred status before handing a reader to the underlying
writer") `ReadFrom` with a negative `minimum_length` (accepted by `Validate`, left alone by `Provision`)
skipped the sniffing phase and handed the reader straight to the wrapped writer without ever going through
`Write`: the deferred status was never written (net/http answered 200), `wroteHeader` stayed false, and
`Close` could still run `init()` and append an encoder trailer to a response whose plain body and header were
already out. `copyRestOld` / `rwReadFromOld` are that code; the theorems below show that the statements of
Props.lean are not vacuous — they FAIL for the old `ReadFrom` on concrete scripts — and the neighbouring
examples show the same scripts are fine for the code as it is now, with the same negative `minimum_length`.
The two scripts are replayed on the real code on every run from corpus/C15/regression-minlen-negative.txt
(they must pass now). Nothing is exported as a witness line any more.
-/
import CaddyModel.C15.Spec

namespace CaddyModel.C15

section
variable {α : Type}

/-- OLD `ReadFrom` tail (before 954786b): no header commit before `rf.ReadFrom(r)` -/
def copyRestOld (st : St α) (chunks : List α) : St α :=
  if st.encOpen then chunks.foldl encWrite st else chunks.foldl dsWrite st

/-- OLD `ReadFrom` (before 954786b) -/
def rwReadFromOld (cfg : Cfg α) (st : St α) (chunks : List α) : St α :=
  if !st.wroteHeader && decide (cfg.minLen > 0) then
    (fun res : St α × List α × Nat => if res.2.2 = 0 then copyRestOld res.1 res.2.1 else res.1)
      (sniffLoop cfg (nonEmpty cfg chunks) sniffLen st)
  else copyRestOld st (nonEmpty cfg chunks)

end

/-- `minimum_length: -1`, any matcher; payloads are their lengths -/
def wCfg : Cfg Nat := ⟨-1, fun _ _ => true, id, fun _ => []⟩

/-- `Content-Length: 5`, then the 5 body bytes arrive through `ReadFrom` -/
def wMixed : List (Op Nat) := [.hset kCL [53], .readFrom [5]]

/-- `WriteHeader(404)`, then the body arrives through `ReadFrom` -/
def wStatus : List (Op Nat) := [.writeHeader 404, .readFrom [5]]

/-- the same two scripts run on the OLD `ReadFrom`, then the deferred `Close` -/
def wMixedOld : St Nat :=
  rwClose wCfg (rwReadFromOld wCfg (step wCfg (St.init vGzip false) (.hset kCL [53])) [5])
def wStatusOld : St Nat :=
  rwClose wCfg (rwReadFromOld wCfg (step wCfg (St.init vGzip false) (.writeHeader 404)) [5])

/-- old code: 5 plain bytes under a header without Content-Encoding, then the encoder's trailer -/
theorem old_code_mixes_streams : wMixedOld.log = [.ec, .w 5] ∧ sentCE wMixedOld = [] := by decide

/-- (T) fails for the old `ReadFrom`: the client cannot decode what it receives -/
theorem transparent_old_code_fails : clientBody (some vGzip) wMixedOld ≠ some (written wCfg wMixed) := by decide

/-- (S) fails for the old `ReadFrom`: the handler answered 404, the client is told 200 -/
theorem status_old_code_fails : wStatusOld.sent.map (·.1) = some 200 := by decide

/-- the code as it is now, same negative `minimum_length`, same scripts: transparent, status kept -/
example : clientBody (some vGzip) (runWrapped wCfg vGzip false wMixed) = some [5] ∧
    (runWrapped wCfg vGzip false wMixed).log = [.w 5] := by decide
example : (runWrapped wCfg vGzip false wStatus).sent.map (·.1) = some 404 := by decide

/-- Why `No101` is a hypothesis of the body clauses (NOT a defect of the tree): the writer forwards 101 like
    any 1xx, net/http treats it as the final header; the recording writer of the model does not drop the body
    net/http would refuse (`ErrBodyNotAllowed`), so in the model an "encoded body" follows a header that was
    fixed before `init` ran. -/
theorem no101_hypothesis_is_needed :
    clientBody (some vGzip) (runWrapped { wCfg with minLen := 1 } vGzip false [.writeHeader 101, .write 5]) = none := by
  decide

end CaddyModel.C15
