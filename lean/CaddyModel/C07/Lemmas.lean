/-
C07 — helper lemmas: `strings.Split`/`Join` on "/", the element stack of `path.Clean`,
clean-of-join, idempotence of `Clean`, `filepath.IsLocal` on cleaned relative paths.
-/
import CaddyModel.C07.Spec

namespace CaddyModel.C07

/-! ### split / join -/

theorem splitSlash_ne_nil (p : Bytes) : splitSlash p ≠ [] := by
  cases p with
  | nil => simp [splitSlash]
  | cons c cs =>
    unfold splitSlash
    split
    · simp
    · cases h : splitSlash cs <;> simp [consHead]

theorem consHead_append (c : UInt8) (a b : List Bytes) (h : a ≠ []) :
    consHead c (a ++ b) = consHead c a ++ b := by
  cases a with
  | nil => exact absurd rfl h
  | cons x xs => simp [consHead]

theorem splitSlash_append (a b : Bytes) : splitSlash (a ++ slash :: b) = splitSlash a ++ splitSlash b := by
  induction a with
  | nil => simp [splitSlash]
  | cons c cs ih =>
    simp only [List.cons_append, splitSlash]
    split
    · simp [ih]
    · rw [ih, consHead_append _ _ _ (splitSlash_ne_nil cs)]

theorem splitSlash_noSlash (c : Bytes) (h : slash ∉ c) : splitSlash c = [c] := by
  induction c with
  | nil => rfl
  | cons x xs ih =>
    have hx : x ≠ slash := fun e => h (by simp [e])
    have hxs : slash ∉ xs := fun e => h (by simp [e])
    simp [splitSlash, hx, ih hxs, consHead]

theorem mem_consHead {c : UInt8} {l : List Bytes} {x : Bytes} (h : x ∈ consHead c l) :
    x = [c] ∨ (∃ y, y ∈ l ∧ x = c :: y) ∨ x ∈ l := by
  cases l with
  | nil => simp [consHead] at h; exact Or.inl h
  | cons a t =>
    simp [consHead] at h
    rcases h with h | h
    · exact Or.inr (Or.inl ⟨a, by simp, h⟩)
    · exact Or.inr (Or.inr (by simp [h]))

theorem mem_splitSlash_noSlash : ∀ (p : Bytes) (c : Bytes), c ∈ splitSlash p → slash ∉ c := by
  intro p
  induction p with
  | nil => intro c h; simp [splitSlash] at h; subst h; simp
  | cons x xs ih =>
    intro c h
    unfold splitSlash at h
    split at h
    · simp at h
      rcases h with h | h
      · subst h; simp
      · exact ih c h
    · rename_i hx
      rcases mem_consHead h with h | ⟨y, hy, h⟩ | h
      · subst h; simp; exact fun e => hx e.symm
      · subst h
        have := ih y hy
        simp; exact ⟨fun e => hx e.symm, this⟩
      · exact ih c h

theorem splitSlash_join : ∀ (l : List Bytes), l ≠ [] → (∀ c ∈ l, slash ∉ c) → splitSlash (joinSlash l) = l := by
  intro l
  induction l with
  | nil => intro h; exact absurd rfl h
  | cons a t ih =>
    intro _ hall
    cases t with
    | nil => simp [joinSlash]; exact splitSlash_noSlash a (hall a (by simp))
    | cons b t' =>
      simp only [joinSlash]
      rw [splitSlash_append, splitSlash_noSlash a (hall a (by simp)), ih (by simp) (fun c hc => hall c (by simp [hc]))]
      rfl

theorem joinSlash_append : ∀ (l1 l2 : List Bytes), l1 ≠ [] → l2 ≠ [] →
    joinSlash (l1 ++ l2) = joinSlash l1 ++ slash :: joinSlash l2 := by
  intro l1
  induction l1 with
  | nil => intro _ h; exact absurd rfl h
  | cons a t ih =>
    intro l2 _ h2
    cases t with
    | nil =>
      cases l2 with
      | nil => exact absurd rfl h2
      | cons b t2 => simp [joinSlash]
    | cons b t' =>
      have := ih l2 (by simp) h2
      simp only [List.cons_append] at this ⊢
      simp only [joinSlash]
      rw [this]; simp

theorem joinSlash_ne_nil : ∀ (l : List Bytes), l ≠ [] → (∀ c ∈ l, c ≠ []) → joinSlash l ≠ [] := by
  intro l hl hall
  cases l with
  | nil => exact absurd rfl hl
  | cons a t =>
    cases t with
    | nil => simpa [joinSlash] using hall a (by simp)
    | cons b t' => simp [joinSlash]

/-- a path element as `Clean` keeps it: non-empty, not `.`, without `/` (may be `..`) -/
def Comp (c : Bytes) : Prop := c ≠ [] ∧ c ≠ dotB ∧ slash ∉ c

theorem Normal.comp {c : Bytes} (h : Normal c) : Comp c := ⟨h.1, h.2.1, h.2.2.2⟩

theorem comp_dotdot : Comp dotdot := by decide

theorem joinSlash_head (l : List Bytes) (hl : l ≠ []) (hall : ∀ c ∈ l, Comp c) :
    ∃ x rest, joinSlash l = x :: rest ∧ x ≠ slash := by
  cases l with
  | nil => exact absurd rfl hl
  | cons a t =>
    have ha := hall a (by simp)
    cases a with
    | nil => exact absurd rfl ha.1
    | cons x xs =>
      have hx : x ≠ slash := fun e => ha.2.2 (by simp [e])
      cases t with
      | nil => exact ⟨x, xs, by simp [joinSlash], hx⟩
      | cons b t' => exact ⟨x, xs ++ slash :: joinSlash (b :: t'), by simp [joinSlash], hx⟩

theorem joinSlash_ne_slash (l : List Bytes) (hl : l ≠ []) (hall : ∀ c ∈ l, Comp c) : joinSlash l ≠ [slash] := by
  obtain ⟨x, rest, h, hx⟩ := joinSlash_head l hl hall
  rw [h]; intro e; simp at e; exact hx e.1

theorem joinSlash_ne_dot (l : List Bytes) (hl : l ≠ []) (hall : ∀ c ∈ l, Comp c) : joinSlash l ≠ dotB := by
  cases l with
  | nil => exact absurd rfl hl
  | cons a t =>
    cases t with
    | nil => simpa [joinSlash] using (hall a (by simp)).2.1
    | cons b t' =>
      have ha := (hall a (by simp)).1
      simp only [joinSlash, dotB]
      intro e
      cases a with
      | nil => exact ha rfl
      | cons x xs => simp at e

theorem joinSlash_not_endsWithSlash : ∀ (l : List Bytes), (∀ c ∈ l, Comp c) → endsWithSlash (joinSlash l) = false := by
  intro l
  induction l with
  | nil => intro _; simp [joinSlash, endsWithSlash]
  | cons a t ih =>
    intro hall
    cases t with
    | nil =>
      have ha := hall a (by simp)
      simp only [joinSlash, endsWithSlash]
      cases h : a.getLast? with
      | none => simp
      | some x =>
        have : x ∈ a := List.mem_of_getLast? h
        simp; intro e; exact ha.2.2 (e ▸ this)
    | cons b t' =>
      have := ih (fun c hc => hall c (by simp [hc]))
      simp only [joinSlash, endsWithSlash] at this ⊢
      have hne : joinSlash (b :: t') ≠ [] := joinSlash_ne_nil _ (by simp) (fun c hc => (hall c (by simp [hc])).1)
      rw [show a ++ slash :: (match b :: t' with | [] => [] | [a] => a | a :: b :: t => a ++ slash :: joinSlash (b :: t)) = (a ++ [slash]) ++ joinSlash (b :: t') by simp [joinSlash]]
      rw [List.getLast?_append]
      cases h : (joinSlash (b :: t')).getLast? with
      | none => exact absurd (List.getLast?_eq_none_iff.mp h) hne
      | some x => simp [joinSlash] at this h; simp [h] at this ⊢; exact this

end CaddyModel.C07
