/-
C07 — helper lemmas: `strings.Split`/`Join` on "/", the element stack of `path.Clean`,
clean-of-join, idempotence of `Clean`, `filepath.IsLocal` on cleaned relative paths.
-/
import CaddyModel.C07.Spec

namespace CaddyModel.C07

/-! ### split / join -/

theorem splitSlash_ne_nil (p : Bytes) : splitSlash p ≠ [] := by
  cases p with
  | nil => simp [splitSlash]
  | cons c cs =>
    unfold splitSlash
    split
    · simp
    · cases h : splitSlash cs <;> simp [consHead]

theorem consHead_append (c : UInt8) (a b : List Bytes) (h : a ≠ []) :
    consHead c (a ++ b) = consHead c a ++ b := by
  cases a with
  | nil => exact absurd rfl h
  | cons x xs => simp [consHead]

theorem splitSlash_append (a b : Bytes) : splitSlash (a ++ slash :: b) = splitSlash a ++ splitSlash b := by
  induction a with
  | nil => simp [splitSlash]
  | cons c cs ih =>
    simp only [List.cons_append, splitSlash]
    split
    · simp [ih]
    · rw [ih, consHead_append _ _ _ (splitSlash_ne_nil cs)]

theorem splitSlash_noSlash (c : Bytes) (h : slash ∉ c) : splitSlash c = [c] := by
  induction c with
  | nil => rfl
  | cons x xs ih =>
    have hx : x ≠ slash := fun e => h (by simp [e])
    have hxs : slash ∉ xs := fun e => h (by simp [e])
    simp [splitSlash, hx, ih hxs, consHead]

theorem mem_consHead {c : UInt8} {l : List Bytes} {x : Bytes} (h : x ∈ consHead c l) :
    x = [c] ∨ (∃ y, y ∈ l ∧ x = c :: y) ∨ x ∈ l := by
  cases l with
  | nil => simp [consHead] at h; exact Or.inl h
  | cons a t =>
    simp [consHead] at h
    rcases h with h | h
    · exact Or.inr (Or.inl ⟨a, by simp, h⟩)
    · exact Or.inr (Or.inr (by simp [h]))

theorem mem_splitSlash_noSlash : ∀ (p : Bytes) (c : Bytes), c ∈ splitSlash p → slash ∉ c := by
  intro p
  induction p with
  | nil => intro c h; simp [splitSlash] at h; subst h; simp
  | cons x xs ih =>
    intro c h
    unfold splitSlash at h
    split at h
    · simp at h
      rcases h with h | h
      · subst h; simp
      · exact ih c h
    · rename_i hx
      rcases mem_consHead h with h | ⟨y, hy, h⟩ | h
      · subst h; simp; exact fun e => hx e.symm
      · subst h
        have := ih y hy
        simp; exact ⟨fun e => hx e.symm, this⟩
      · exact ih c h

theorem splitSlash_join : ∀ (l : List Bytes), l ≠ [] → (∀ c ∈ l, slash ∉ c) → splitSlash (joinSlash l) = l := by
  intro l
  induction l with
  | nil => intro h; exact absurd rfl h
  | cons a t ih =>
    intro _ hall
    cases t with
    | nil => simp [joinSlash]; exact splitSlash_noSlash a (hall a (by simp))
    | cons b t' =>
      simp only [joinSlash]
      rw [splitSlash_append, splitSlash_noSlash a (hall a (by simp)), ih (by simp) (fun c hc => hall c (by simp [hc]))]
      rfl

theorem joinSlash_append : ∀ (l1 l2 : List Bytes), l1 ≠ [] → l2 ≠ [] →
    joinSlash (l1 ++ l2) = joinSlash l1 ++ slash :: joinSlash l2 := by
  intro l1
  induction l1 with
  | nil => intro _ h; exact absurd rfl h
  | cons a t ih =>
    intro l2 _ h2
    cases t with
    | nil =>
      cases l2 with
      | nil => exact absurd rfl h2
      | cons b t2 => simp [joinSlash]
    | cons b t' =>
      have := ih l2 (by simp) h2
      simp only [List.cons_append] at this ⊢
      simp only [joinSlash]
      rw [this]; simp

theorem joinSlash_ne_nil : ∀ (l : List Bytes), l ≠ [] → (∀ c ∈ l, c ≠ []) → joinSlash l ≠ [] := by
  intro l hl hall
  cases l with
  | nil => exact absurd rfl hl
  | cons a t =>
    cases t with
    | nil => simpa [joinSlash] using hall a (by simp)
    | cons b t' => simp [joinSlash]

/-- a path element as `Clean` keeps it: non-empty, not `.`, without `/` (may be `..`) -/
def Comp (c : Bytes) : Prop := c ≠ [] ∧ c ≠ dotB ∧ slash ∉ c

instance (c : Bytes) : Decidable (Comp c) := by unfold Comp; infer_instance

theorem Normal.comp {c : Bytes} (h : Normal c) : Comp c := ⟨h.1, h.2.1, h.2.2.2⟩

theorem comp_dotdot : Comp dotdot := by decide

theorem joinSlash_head (l : List Bytes) (hl : l ≠ []) (hall : ∀ c ∈ l, Comp c) :
    ∃ x rest, joinSlash l = x :: rest ∧ x ≠ slash := by
  cases l with
  | nil => exact absurd rfl hl
  | cons a t =>
    have ha := hall a (by simp)
    cases a with
    | nil => exact absurd rfl ha.1
    | cons x xs =>
      have hx : x ≠ slash := fun e => ha.2.2 (by simp [e])
      cases t with
      | nil => exact ⟨x, xs, by simp [joinSlash], hx⟩
      | cons b t' => exact ⟨x, xs ++ slash :: joinSlash (b :: t'), by simp [joinSlash], hx⟩

theorem joinSlash_ne_slash (l : List Bytes) (hl : l ≠ []) (hall : ∀ c ∈ l, Comp c) : joinSlash l ≠ [slash] := by
  obtain ⟨x, rest, h, hx⟩ := joinSlash_head l hl hall
  rw [h]; intro e; simp at e; exact hx e.1

theorem joinSlash_ne_dot (l : List Bytes) (hl : l ≠ []) (hall : ∀ c ∈ l, Comp c) : joinSlash l ≠ dotB := by
  cases l with
  | nil => exact absurd rfl hl
  | cons a t =>
    cases t with
    | nil => simpa [joinSlash] using (hall a (by simp)).2.1
    | cons b t' =>
      have ha := (hall a (by simp)).1
      simp only [joinSlash, dotB]
      intro e
      cases a with
      | nil => exact ha rfl
      | cons x xs => simp at e

theorem endsWithSlash_iff (p : Bytes) : endsWithSlash p = true ↔ p.getLast? = some slash := by
  simp [endsWithSlash]

theorem joinSlash_cons2 (a b : Bytes) (t : List Bytes) : joinSlash (a :: b :: t) = (a ++ [slash]) ++ joinSlash (b :: t) := by
  simp [joinSlash]

theorem joinSlash_getLast : ∀ (l : List Bytes), (∀ c ∈ l, Comp c) → (joinSlash l).getLast? ≠ some slash := by
  intro l
  induction l with
  | nil => intro _; simp [joinSlash]
  | cons a t ih =>
    intro hall
    cases t with
    | nil =>
      have ha := hall a (by simp)
      simp only [joinSlash]
      intro h
      exact ha.2.2 (List.mem_of_getLast? h)
    | cons b t' =>
      have ih' := ih (fun c hc => hall c (by simp [hc]))
      have hne : joinSlash (b :: t') ≠ [] := joinSlash_ne_nil _ (by simp) (fun c hc => (hall c (by simp [hc])).1)
      rw [joinSlash_cons2, List.getLast?_append]
      cases h : (joinSlash (b :: t')).getLast? with
      | none => exact absurd (List.getLast?_eq_none_iff.mp h) hne
      | some x => rw [h] at ih'; simpa using ih'

theorem joinSlash_not_endsWithSlash (l : List Bytes) (h : ∀ c ∈ l, Comp c) : endsWithSlash (joinSlash l) = false := by
  cases hh : endsWithSlash (joinSlash l) with
  | false => rfl
  | true => exact absurd ((endsWithSlash_iff _).mp hh) (joinSlash_getLast l h)

/-! ### the element stack of `Clean` -/

/-- shape of the stack (top first): real elements above a block of `..` (relative paths only) -/
def StackOK (rooted : Bool) (st : List Bytes) : Prop :=
  ∃ (k : Nat) (ns : List Bytes), st = ns.reverse ++ List.replicate k dotdot ∧ (∀ c ∈ ns, Normal c) ∧ (rooted = true → k = 0)

theorem cleanStep_normal (r : Bool) (st : List Bytes) (c : Bytes) (h : Normal c) : cleanStep r st c = c :: st := by
  simp [cleanStep, h.1, h.2.1, h.2.2.1]

theorem foldl_cleanStep_normals (r : Bool) : ∀ (l st : List Bytes), (∀ c ∈ l, Normal c) →
    l.foldl (cleanStep r) st = l.reverse ++ st := by
  intro l
  induction l with
  | nil => intro st _; rfl
  | cons a t ih =>
    intro st h
    simp only [List.foldl_cons]
    rw [cleanStep_normal r st a (h a (by simp)), ih _ (fun c hc => h c (by simp [hc]))]
    simp

theorem cleanStep_dotdots (k : Nat) : cleanStep false (List.replicate k dotdot) dotdot = List.replicate (k + 1) dotdot := by
  cases k with
  | zero => simp [cleanStep, dotdot, dotB]
  | succ n => simp [cleanStep, List.replicate_succ, dotdot, dotB]

theorem foldl_cleanStep_dotdots : ∀ (j k : Nat),
    (List.replicate j dotdot).foldl (cleanStep false) (List.replicate k dotdot) = List.replicate (j + k) dotdot := by
  intro j
  induction j with
  | zero => intro k; simp
  | succ n ih =>
    intro k
    simp only [List.replicate_succ, List.foldl_cons]
    rw [cleanStep_dotdots, ih]
    congr 1; omega

theorem stackOK_step (r : Bool) (st : List Bytes) (c : Bytes) (hc : slash ∉ c) (h : StackOK r st) :
    StackOK r (cleanStep r st c) := by
  obtain ⟨k, ns, hst, hns, hk⟩ := h
  unfold cleanStep
  split
  · exact ⟨k, ns, hst, hns, hk⟩
  split
  · exact ⟨k, ns, hst, hns, hk⟩
  split
  · -- c = ".."
    rcases List.eq_nil_or_concat ns with hnil | ⟨ns', t, hcat⟩
    · subst hnil
      simp at hst
      cases k with
      | zero =>
        subst hst
        cases r with
        | true => exact ⟨0, [], by simp, by simp, fun _ => rfl⟩
        | false => exact ⟨1, [], by simp, by simp, by simp⟩
      | succ n =>
        subst hst
        have hr : r = false := by
          cases r with
          | false => rfl
          | true => exact absurd (hk rfl) (by simp)
        subst hr
        refine ⟨n + 2, [], ?_, by simp, by simp⟩
        simp [List.replicate_succ]
    · subst hcat
      have ht : Normal t := hns t (by simp)
      have hst' : st = t :: (ns'.reverse ++ List.replicate k dotdot) := by simp [hst]
      subst hst'
      simp only []
      rw [if_neg ht.2.2.1]
      exact ⟨k, ns', rfl, fun c hc => hns c (by simp [hc]), hk⟩
  · rename_i h1 h2 h3
    exact ⟨k, ns ++ [c], by simp [hst], by
      intro x hx
      simp at hx
      rcases hx with hx | hx
      · exact hns x hx
      · subst hx; exact ⟨h1, h2, h3, hc⟩, hk⟩

theorem stackOK_foldl (r : Bool) : ∀ (l st : List Bytes), (∀ c ∈ l, slash ∉ c) → StackOK r st →
    StackOK r (l.foldl (cleanStep r) st) := by
  intro l
  induction l with
  | nil => intro st _ h; exact h
  | cons a t ih =>
    intro st hl h
    exact ih _ (fun c hc => hl c (by simp [hc])) (stackOK_step r st a (hl a (by simp)) h)

/-- bottom-first shape of `cleanStack` -/
theorem cleanStack_shape (p : Bytes) :
    ∃ (k : Nat) (ns : List Bytes), cleanStack p = List.replicate k dotdot ++ ns ∧ (∀ c ∈ ns, Normal c)
      ∧ (isRooted p = true → k = 0) := by
  have := stackOK_foldl (isRooted p) (splitSlash p) [] (mem_splitSlash_noSlash p) ⟨0, [], by simp, by simp, fun _ => rfl⟩
  obtain ⟨k, ns, hst, hns, hk⟩ := this
  exact ⟨k, ns, by simp [cleanStack, hst], hns, hk⟩

theorem cleanStack_comp (p : Bytes) : ∀ c ∈ cleanStack p, Comp c := by
  obtain ⟨k, ns, h, hns, _⟩ := cleanStack_shape p
  intro c hc
  rw [h] at hc
  simp at hc
  rcases hc with hc | hc
  · rw [hc.2]; exact comp_dotdot
  · exact (hns c hc).comp

theorem cleanStack_rooted_normal (p : Bytes) (h : isRooted p = true) : ∀ c ∈ cleanStack p, Normal c := by
  obtain ⟨k, ns, hs, hns, hk⟩ := cleanStack_shape p
  have := hk h
  subst this
  simp at hs
  rw [hs]; exact hns

/-! ### Clean of a join, render/attach, idempotence -/

theorem isRooted_append (x y : Bytes) (hx : x ≠ []) : isRooted (x ++ y) = isRooted x := by
  cases x with
  | nil => exact absurd rfl hx
  | cons a t => simp [isRooted]

theorem cleanStack_join (x : Bytes) (hx : x ≠ []) (l : List Bytes) (hl : ∀ c ∈ l, Normal c) :
    cleanStack (x ++ slash :: joinSlash l) = cleanStack x ++ l := by
  unfold cleanStack
  rw [isRooted_append x _ hx, splitSlash_append, List.foldl_append]
  by_cases hnil : l = []
  · subst hnil
    simp [joinSlash, splitSlash, cleanStep]
  · rw [splitSlash_join l hnil (fun c hc => (hl c hc).2.2.2), foldl_cleanStep_normals _ _ _ hl]
    simp

theorem pathClean_eq_render (x : Bytes) (hx : x ≠ []) : pathClean x = render (isRooted x) (cleanStack x) := by
  simp [pathClean, hx]

theorem render_append (r : Bool) (S l : List Bytes) (hS : ∀ c ∈ S, Comp c) (hl : ∀ c ∈ l, Comp c) :
    render r (S ++ l) = attach (render r S) l := by
  by_cases hlnil : l = []
  · subst hlnil; simp [attach]
  · by_cases hSnil : S = []
    · subst hSnil
      cases r with
      | true => simp [render, attach, hlnil, joinSlash]
      | false =>
        have : dotB ≠ [slash] := by decide
        simp [render, attach, hlnil, this]
    · have hj := joinSlash_append S l hSnil hlnil
      cases r with
      | true =>
        have h1 : slash :: joinSlash S ≠ [slash] := by
          intro e; simp at e; exact joinSlash_ne_nil S hSnil (fun c hc => (hS c hc).1) e
        have h2 : slash :: joinSlash S ≠ dotB := by
          intro e; simp [dotB, slash] at e
        simp [render, attach, hlnil, h1, h2, hj]
      | false =>
        have h1 := joinSlash_ne_slash S hSnil hS
        have h2 := joinSlash_ne_dot S hSnil hS
        simp [render, attach, hlnil, hSnil, h1, h2, hj]

/-- `filepath.Join(x, rel)` for a cleaned relative `rel`: the clean root followed by `rel`'s elements -/
theorem pathClean_join (x : Bytes) (hx : x ≠ []) (l : List Bytes) (hl : ∀ c ∈ l, Normal c) :
    pathClean (x ++ slash :: joinSlash l) = attach (pathClean x) l := by
  rw [pathClean_eq_render _ (by simp), pathClean_eq_render x hx, isRooted_append x _ hx, cleanStack_join x hx l hl]
  exact render_append _ _ _ (cleanStack_comp x) (fun c hc => (hl c hc).comp)

theorem render_ne_nil (r : Bool) (S : List Bytes) (hS : ∀ c ∈ S, Comp c) : render r S ≠ [] := by
  cases r with
  | true => simp [render]
  | false =>
    by_cases h : S = []
    · simp [render, h, dotB]
    · simp [render, h]; exact joinSlash_ne_nil S h (fun c hc => (hS c hc).1)

theorem pathClean_ne_nil (x : Bytes) : pathClean x ≠ [] := by
  by_cases hx : x = []
  · simp [pathClean, hx, dotB]
  · rw [pathClean_eq_render x hx]; exact render_ne_nil _ _ (cleanStack_comp x)

/-- cleaning a rendered, well-shaped stack gives the stack back -/
theorem cleanStack_render (r : Bool) (k : Nat) (ns : List Bytes) (hns : ∀ c ∈ ns, Normal c) (hk : r = true → k = 0) :
    isRooted (render r (List.replicate k dotdot ++ ns)) = r ∧
    cleanStack (render r (List.replicate k dotdot ++ ns)) = List.replicate k dotdot ++ ns := by
  have hcomp : ∀ c ∈ List.replicate k dotdot ++ ns, Comp c := by
    intro c hc
    simp at hc
    rcases hc with hc | hc
    · rw [hc.2]; exact comp_dotdot
    · exact (hns c hc).comp
  cases r with
  | true =>
    have := hk rfl
    subst this
    simp only [List.replicate_zero, List.nil_append] at hcomp ⊢
    refine ⟨by simp [render, isRooted], ?_⟩
    show cleanStack (slash :: joinSlash ns) = ns
    by_cases hnil : ns = []
    · subst hnil; decide
    · have hsp : splitSlash (slash :: joinSlash ns) = [] :: ns := by
        have := splitSlash_append [] (joinSlash ns)
        simp only [List.nil_append] at this
        rw [this, splitSlash_join ns hnil (fun c hc => (hns c hc).2.2.2)]
        rfl
      unfold cleanStack
      rw [hsp]
      simp only [List.foldl_cons]
      rw [show cleanStep (isRooted (slash :: joinSlash ns)) [] [] = [] by simp [cleanStep]]
      rw [foldl_cleanStep_normals _ _ _ hns]
      simp
  | false =>
    by_cases hnil : List.replicate k dotdot ++ ns = []
    · rw [hnil]
      exact ⟨by decide, by decide⟩
    · have hr : render false (List.replicate k dotdot ++ ns) = joinSlash (List.replicate k dotdot ++ ns) := by
        simp only [render]; rw [if_neg hnil]; simp
      rw [hr]
      obtain ⟨x, rest, hj, hx⟩ := joinSlash_head _ hnil hcomp
      have hroot : isRooted (joinSlash (List.replicate k dotdot ++ ns)) = false := by
        rw [hj]; simp [isRooted]; exact hx
      refine ⟨hroot, ?_⟩
      unfold cleanStack
      rw [hroot, splitSlash_join _ hnil (fun c hc => (hcomp c hc).2.2), List.foldl_append]
      have := foldl_cleanStep_dotdots k 0
      simp only [List.replicate_zero] at this
      rw [this, foldl_cleanStep_normals _ _ _ hns]
      simp

theorem pathClean_idem (x : Bytes) : pathClean (pathClean x) = pathClean x := by
  by_cases hx : x = []
  · subst hx; decide
  · obtain ⟨k, ns, hs, hns, hk⟩ := cleanStack_shape x
    have h1 := pathClean_eq_render x hx
    rw [hs] at h1
    have ⟨hr, hc⟩ := cleanStack_render (isRooted x) k ns hns hk
    rw [pathClean_eq_render _ (pathClean_ne_nil x), h1, hr, hc]

/-! ### the request-derived relative path; IsLocal -/

theorem relOf_eq (req : Bytes) : relOf req = joinSlash (cleanStack (slash :: req)) := by
  simp [relOf, pathClean, render, isRooted]

theorem relOf_normal (req : Bytes) : ∀ c ∈ cleanStack (slash :: req), Normal c :=
  cleanStack_rooted_normal _ (by simp [isRooted])

theorem isLocal_of_normals (l : List Bytes) (hl : l ≠ []) (hn : ∀ c ∈ l, Normal c) : isLocal (joinSlash l) = true := by
  have hcomp : ∀ c ∈ l, Comp c := fun c hc => (hn c hc).comp
  obtain ⟨x, rest, hj, hx⟩ := joinSlash_head l hl hcomp
  have hroot : isRooted (joinSlash l) = false := by rw [hj]; simp [isRooted]; exact hx
  have hne : joinSlash l ≠ [] := by rw [hj]; simp
  have hsplit := splitSlash_join l hl (fun c hc => (hn c hc).2.2.2)
  have hdots : hasDots (joinSlash l) = false := by
    unfold hasDots; rw [hsplit, List.any_eq_false]
    intro c hc
    have := hn c hc
    simp [this.2.1, this.2.2.1]
  have h1 : joinSlash l ≠ dotdot := by
    intro e
    rw [e] at hsplit
    have : dotdot ∈ l := by rw [← hsplit]; simp [splitSlash_noSlash dotdot (by decide)]
    exact (hn _ this).2.2.1 rfl
  have h2 : dotdotSlash.isPrefixOf (joinSlash l) = false := by
    cases hh : dotdotSlash.isPrefixOf (joinSlash l) with
    | false => rfl
    | true =>
      obtain ⟨t, ht⟩ := List.isPrefixOf_iff_prefix.mp hh
      have e : joinSlash l = dotdot ++ slash :: t := by rw [← ht]; rfl
      rw [e, splitSlash_append, splitSlash_noSlash dotdot (by decide)] at hsplit
      have : dotdot ∈ l := by rw [← hsplit]; simp
      exact absurd rfl (hn _ this).2.2.1
  simp [isLocal, hroot, hne, hdots, h1, h2]

/-- on unix the `filepath.IsLocal` rejection in `SanitizedPathJoin` never fires -/
theorem never_rejected (req : Bytes) : rejectedAsNonLocal req = false := by
  unfold rejectedAsNonLocal
  rw [relOf_eq]
  by_cases h : cleanStack (slash :: req) = []
  · simp [h, joinSlash]
  · rw [isLocal_of_normals _ h (relOf_normal req)]; simp

theorem rootOrDot_ne_nil (root : Bytes) : rootOrDot root ≠ [] := by
  unfold rootOrDot; split <;> simp_all [dotB]

/-- the shape of every `SanitizedPathJoin` result -/
theorem sanitizedPathJoin_shape (root req : Bytes) :
    ∃ l : List Bytes, (∀ c ∈ l, Normal c) ∧
      (sanitizedPathJoin root req = attach (pathClean (rootOrDot root)) l ∨
       sanitizedPathJoin root req = attach (pathClean (rootOrDot root)) l ++ [slash]) := by
  refine ⟨cleanStack (slash :: req), relOf_normal req, ?_⟩
  have hj : joinUnder (rootOrDot root) (relOf req) = attach (pathClean (rootOrDot root)) (cleanStack (slash :: req)) := by
    unfold joinUnder; rw [relOf_eq]
    exact pathClean_join _ (rootOrDot_ne_nil root) _ (relOf_normal req)
  unfold sanitizedPathJoin
  rw [never_rejected]
  simp only [Bool.false_eq_true, if_false]
  split
  · right; rw [hj]
  · left; rw [hj]

/-! ### `Under` is closed under further joins; cleaned paths stay clean -/

theorem pathClean_nil_eq : pathClean [] = pathClean dotB := by decide

/-- every clean path is the rendering of a well-shaped stack -/
theorem pathClean_shape (x : Bytes) :
    ∃ (r : Bool) (k : Nat) (ns : List Bytes), (∀ c ∈ ns, Normal c) ∧ (r = true → k = 0) ∧
      pathClean x = render r (List.replicate k dotdot ++ ns) := by
  by_cases hx : x = []
  · subst hx
    exact ⟨false, 0, [], by simp, by simp, by decide⟩
  · obtain ⟨k, ns, hs, hns, hk⟩ := cleanStack_shape x
    exact ⟨isRooted x, k, ns, hns, hk, by rw [pathClean_eq_render x hx, hs]⟩

theorem shape_comp (k : Nat) (ns : List Bytes) (hns : ∀ c ∈ ns, Normal c) :
    ∀ c ∈ List.replicate k dotdot ++ ns, Comp c := by
  intro c hc
  simp at hc
  rcases hc with hc | hc
  · rw [hc.2]; exact comp_dotdot
  · exact (hns c hc).comp

theorem attach_render (r : Bool) (k : Nat) (ns l : List Bytes) (hns : ∀ c ∈ ns, Normal c) (hl : ∀ c ∈ l, Normal c) :
    attach (render r (List.replicate k dotdot ++ ns)) l = render r (List.replicate k dotdot ++ (ns ++ l)) := by
  rw [← List.append_assoc]
  exact (render_append r _ l (shape_comp k ns hns) (fun c hc => (hl c hc).comp)).symm

theorem mem_append_normal {a b : List Bytes} (ha : ∀ c ∈ a, Normal c) (hb : ∀ c ∈ b, Normal c) :
    ∀ c ∈ a ++ b, Normal c := by
  intro c hc
  rcases List.mem_append.mp hc with h | h
  · exact ha c h
  · exact hb c h

theorem attach_attach (x : Bytes) (l1 l2 : List Bytes) (h1 : ∀ c ∈ l1, Normal c) (h2 : ∀ c ∈ l2, Normal c) :
    attach (attach (pathClean x) l1) l2 = attach (pathClean x) (l1 ++ l2) := by
  obtain ⟨r, k, ns, hns, _, hp⟩ := pathClean_shape x
  rw [hp, attach_render r k ns l1 hns h1, attach_render r k (ns ++ l1) l2 (mem_append_normal hns h1) h2,
    attach_render r k ns (l1 ++ l2) hns (mem_append_normal h1 h2), List.append_assoc]

theorem pathClean_attach (x : Bytes) (l : List Bytes) (hl : ∀ c ∈ l, Normal c) :
    pathClean (attach (pathClean x) l) = attach (pathClean x) l := by
  obtain ⟨r, k, ns, hns, hk, hp⟩ := pathClean_shape x
  rw [hp, attach_render r k ns l hns hl]
  have hn := mem_append_normal hns hl
  obtain ⟨hr, hc⟩ := cleanStack_render r k (ns ++ l) hn hk
  rw [pathClean_eq_render _ (render_ne_nil _ _ (shape_comp k _ hn)), hr, hc]

theorem attach_ne_nil (x : Bytes) (l : List Bytes) (hl : ∀ c ∈ l, Normal c) : attach (pathClean x) l ≠ [] := by
  obtain ⟨r, k, ns, hns, _, hp⟩ := pathClean_shape x
  rw [hp, attach_render r k ns l hns hl]
  exact render_ne_nil _ _ (shape_comp k _ (mem_append_normal hns hl))

theorem render_endsWithSlash (r : Bool) (S : List Bytes) (hS : ∀ c ∈ S, Comp c)
    (h : endsWithSlash (render r S) = true) : render r S = [slash] := by
  cases r with
  | true =>
    by_cases hnil : S = []
    · simp [render, hnil, joinSlash]
    · exfalso
      have hne := joinSlash_ne_nil S hnil (fun c hc => (hS c hc).1)
      have hl := joinSlash_getLast S hS
      rw [endsWithSlash_iff] at h
      simp only [render, if_true] at h
      rw [show slash :: joinSlash S = [slash] ++ joinSlash S by rfl, List.getLast?_append] at h
      cases hh : (joinSlash S).getLast? with
      | none => exact hne (List.getLast?_eq_none_iff.mp hh)
      | some y => rw [hh] at h hl; simp at h; exact hl (by rw [h])
  | false =>
    exfalso
    by_cases hnil : S = []
    · rw [hnil] at h; revert h; decide
    · have := joinSlash_not_endsWithSlash S hS
      simp [render, hnil] at h
      rw [this] at h; cases h

theorem attach_endsWithSlash (x : Bytes) (l : List Bytes) (hl : ∀ c ∈ l, Normal c)
    (h : endsWithSlash (attach (pathClean x) l) = true) : attach (pathClean x) l = [slash] := by
  obtain ⟨r, k, ns, hns, _, hp⟩ := pathClean_shape x
  rw [hp, attach_render r k ns l hns hl] at h ⊢
  exact render_endsWithSlash _ _ (shape_comp k _ (mem_append_normal hns hl)) h

theorem under_refl (x : Bytes) : Under (pathClean x) (pathClean x) := ⟨[], by simp, by simp [attach]⟩

theorem under_ne_nil {x p : Bytes} (h : Under (pathClean x) p) : p ≠ [] := by
  obtain ⟨l, hl, rfl⟩ := h
  exact attach_ne_nil x l hl

/-- joining below something that is below the root stays below the root -/
theorem sanitizedPathJoin_under (x f req : Bytes) (hf : Under (pathClean x) f) :
    UnderS (pathClean x) (sanitizedPathJoin f req) := by
  obtain ⟨l1, h1, hfe⟩ := hf
  have hne : f ≠ [] := by rw [hfe]; exact attach_ne_nil x l1 h1
  obtain ⟨l2, h2, hs⟩ := sanitizedPathJoin_shape f req
  have hr : rootOrDot f = f := by simp [rootOrDot, hne]
  rw [hr, hfe, pathClean_attach x l1 h1, attach_attach x l1 l2 h1 h2, ← hfe] at hs
  rcases hs with hs | hs
  · exact Or.inl ⟨l1 ++ l2, mem_append_normal h1 h2, hs⟩
  · exact Or.inr ⟨_, ⟨l1 ++ l2, mem_append_normal h1 h2, rfl⟩, hs⟩

/-- the first name ServeHTTP stats: below the root, or empty (root `/`, request `/`) -/
theorem requestFile_cases (c : Cfg) (path : Bytes) :
    requestFile c path = [] ∨ Under c.rootC (requestFile c path) := by
  obtain ⟨l, hl, hs⟩ := sanitizedPathJoin_shape c.rootE path
  have hr : pathClean (rootOrDot c.rootE) = c.rootC := by
    have : rootOrDot c.rootE = c.rootE := by
      have h := rootOrDot_ne_nil c.root
      show rootOrDot (rootOrDot c.root) = rootOrDot c.root
      generalize rootOrDot c.root = y at h
      simp [rootOrDot, h]
    rw [this]; rfl
  rw [hr] at hs
  unfold requestFile trimSlashSuffix
  rcases hs with hs | hs
  · rw [hs]
    split
    · rename_i he
      have := attach_endsWithSlash c.rootE l hl he
      left; unfold Cfg.rootC; rw [this]; rfl
    · right; exact ⟨l, hl, rfl⟩
  · rw [hs]
    have : endsWithSlash (attach c.rootC l ++ [slash]) = true := by simp [endsWithSlash]
    rw [if_pos this]
    right; exact ⟨l, hl, by simp⟩

end CaddyModel.C07
