/-
C07 line-protocol driver (fields separated by one space; byte strings hex, `-` = empty string,
`.` = empty list).

  clean <p>                    path.Clean                          → ok <hex>
  join <root> <req>            caddyhttp.SanitizedPathJoin         → ok <hex>
  match <pat> <name>           path.Match                          → true | false | badpattern
  serve <cwd> <root> <hide> <index> <flags> <path> <orig> <tree>
        hide, index   `.` | hex,hex,…
        flags         three bits: browse, pass_thru, canonical_uris; optionally three more: root / hide /
                      index were configured as {http.vars.…} placeholders expanding to these values
        path, orig    r.URL.Path and the original request's URL.Path
        tree          `.` | hexpath:kind;…   kind = d | f<id> | p | e ; absolute clean paths ≠ "/",
                      strictly sorted bytewise
        [pre enc]     optional: three bits (precompressed gzip, br, zstd configured) and the list
                      encode.AcceptedEncodings returns for the request (`.` | hex,hex,…)
        [query]       optional, after pre enc: r.URL.RawQuery (hex; no space, `#`, control or non-ASCII
                      byte, and no `t`: the browse parameters limit/offset are not modelled)
        [via]         optional, after query: s | j | c (configuration delivered as struct literal / JSON /
                      Caddyfile tokens), optionally followed by `d`: index_names omitted (index must be `.`)
        [etag]        optional, after via: etag_file_extensions (`.` | hex,hex,…)
        → <outcome>[ etag <hexname> <id>] | <names handed to the FS: hex,… or .>
          outcome = notfound | passthru | forbidden | error | unavailable
                  | redirect [<hex Location>]   (Location only when <orig> starts with `/`)
                  | file <hexpath> <id> | listing <hexpath> <hexname,… or .>
                  | sidecar <hexpath> <id> <hexenc>
  site <cwd> <root> <hide> <index> <flags> <tries> <path> <tree> <caddyfile> [<policy 0|1|L|S|M>]
        a Caddyfile site — `root * <root>` (omitted when `-`), `try_files …` (omitted when `.`),
        `file_server [browse] { hide …; index … (omitted when `.`); pass_thru; disable_canonical_uris }`
        — adapted by the real adapter under the file name <caddyfile>, served by the real http app
        → like serve (Site.lean: siteHide, matcher → rewrite → file server)
  two <mode p|e> <cwd> <rootA> <hideA> <indexA> <flagsA> <rootB> <hideB> <indexB> <flagsB> <path> <tree>
        two file_server handlers on ONE request through the real adapter and http app:
        p: `route { file_server {A}; file_server {B} }`   e: `file_server {A}; handle_errors { file_server {B} }`
        → like serve (Site.lean: chainServe / errServe; each handler uses its own hide list)
  pair <fault> <serve fields A> // <serve fields B>
        fault         n: none; t | w<k>: request A's listing is rendered but not delivered (failing template /
                      client connection fails after k bytes); then B is served by another instance
        → B's serve answer (Props.browse_history_independent)
  matchfile <cwd> <root> <tries> <policy> <path> <tree> [<split_path>]
        tries         `.` | pre:use:suf;…   (hex, 0/1, hex)
        → nomatch | <trace>   or   match <abs> <rel> file|directory | <trace>

The tree is turned into the `FS` parameter of the model by `treeFS`; harness/internal/c07
implements the same lookup as an `fs.FS` (memfs).
-/
import CaddyModel.C07.Model
import CaddyModel.C07.Site

namespace CaddyModel.C07

inductive Kind where
  | d
  | f (id : Nat)
  | p
  | e
deriving DecidableEq, Repr

abbrev Tree := List (Bytes × Kind)

def lookupTree (tree : Tree) (key : Bytes) : Option Kind := (tree.find? (·.1 = key)).map (·.2)

def childPrefix (cur : Bytes) : Bytes := if cur = [slash] then cur else cur ++ [slash]

def children (tree : Tree) (cur : Bytes) : List Entry :=
  tree.filterMap fun (p, k) =>
    if (childPrefix cur).isPrefixOf p ∧ p.length > (childPrefix cur).length
        ∧ !hasSlash (p.drop (childPrefix cur).length) then
      some ⟨p.drop (childPrefix cur).length, k = .d⟩
    else none

def walkTree (tree : Tree) : Bytes → List Bytes → Node
  | cur, [] => .dir (children tree cur)
  | cur, c :: cs =>
    match lookupTree tree (childPrefix cur ++ c) with
    | none => .missing
    | some .d => walkTree tree (childPrefix cur ++ c) cs
    | some (.f id) => if cs = [] then .file id else .other
    | some .p => .perm
    | some .e => .other

/-- the filesystem a tree denotes: `""` does not exist, NUL is invalid, everything else is
    resolved lexically against `cwd` and walked down from `/` -/
def treeFS (cwd : Bytes) (tree : Tree) : FS := fun name =>
  if name = [] then .missing
  else if name.contains 0 then .invalid
  else walkTree tree [slash] (cleanStack (fastAbs cwd name))

def bytesLt : Bytes → Bytes → Bool
  | [], [] => false
  | [], _ :: _ => true
  | _ :: _, [] => false
  | a :: as, b :: bs => if a < b then true else if b < a then false else bytesLt as bs

def sortedStrict : List Bytes → Bool
  | [] => true
  | [_] => true
  | a :: b :: t => bytesLt a b && sortedStrict (b :: t)

def validTree (t : Tree) : Bool :=
  t.all (fun (p, _) => isRooted p && p ≠ [slash] && pathClean p = p) && sortedStrict (t.map (·.1))

def parseList (s : String) : Option (List Bytes) :=
  if s == "." then some [] else (s.splitOn ",").mapM Hex.decode

def parseKind (s : String) : Option Kind :=
  if s == "d" then some .d
  else if s == "p" then some .p
  else if s == "e" then some .e
  else match s.toList with
    | 'f' :: ds => if ds.isEmpty then none else (String.ofList ds).toNat?.map .f
    | _ => none

def parseTree (s : String) : Option Tree :=
  if s == "." then some [] else
  (s.splitOn ";").mapM fun ent =>
    match ent.splitOn ":" with
    | [p, k] => do pure ((← Hex.decode p), (← parseKind k))
    | _ => none

def parseBit (c : Char) : Option Bool := if c = '0' then some false else if c = '1' then some true else none

def parseTries (s : String) : Option (List TryFile) :=
  if s == "." then some [] else
  (s.splitOn ";").mapM fun ent =>
    match ent.splitOn ":" with
    | [a, u, b] => do
      let pre ← Hex.decode a
      let suf ← Hex.decode b
      let use ← (match u.toList with | [c] => parseBit c | _ => none)
      pure ⟨pre, use, suf, []⟩
    | _ => none

/-- literal parts must not interfere with the placeholder syntax -/
def validTry (t : TryFile) : Bool :=
  !(t.pre.contains 123 || t.pre.contains 125 || t.suf.contains 123 || t.suf.contains 125)
  && t.pre.getLast? ≠ some 92 && t.raw.head? ≠ some 61

def showList (l : List Bytes) : String :=
  if l.isEmpty then "." else ",".intercalate (l.map Hex.encode)

def showOutcome : Outcome → String
  | .notFound => "notfound"
  | .passThru => "passthru"
  | .forbidden => "forbidden"
  | .serverError => "error"
  | .unavailable => "unavailable"
  | .redirect none => "redirect"
  | .redirect (some l) => "redirect " ++ Hex.encode l
  | .file p id => "file " ++ Hex.encode p ++ " " ++ toString id
  | .listing p ns => "listing " ++ Hex.encode p ++ " " ++ showList ns
  | .sidecar p id enc => "sidecar " ++ Hex.encode p ++ " " ++ toString id ++ " " ++ Hex.encode enc
  | .withEtag o n id => showOutcome o ++ " etag " ++ Hex.encode n ++ " " ++ toString id

/-- the precompressed modules that exist: gzip ↦ .gz, br ↦ .br, zstd ↦ .zst -/
def precompressors (g b z : Bool) : List (Bytes × Bytes) :=
  (if g then [(str "gzip", str ".gz")] else []) ++ (if b then [(str "br", str ".br")] else []) ++
  (if z then [(str "zstd", str ".zst")] else [])

def showMatch : MatchRes → String
  | .noMatch => "nomatch"
  | .matched a r d => "match " ++ Hex.encode a ++ " " ++ Hex.encode r ++ (if d then " directory" else " file")

def showGlob : Option Bool → String
  | none => "badpattern"
  | some true => "true"
  | some false => "false"

/-- the `via` field: how the configuration reached the FileServer (struct literal, JSON through
    `LoadModuleByID`, Caddyfile tokens through `UnmarshalCaddyfile`) — the model is the same for
    all three — optionally followed by `d`: `index_names` omitted (the index field must be `.`) -/
def parseVia (s : String) : Option Bool :=
  match s.toList with
  | [c] => if c = 's' ∨ c = 'j' ∨ c = 'c' then some false else none
  | [c, 'd'] => if c = 's' ∨ c = 'j' ∨ c = 'c' then some true else none
  | _ => none

def handleServe (cwd root hide index flags path orig tree pre enc : String) (query : String := "-")
    (via : String := "s") (etag : String := ".") : String :=
  match parseList enc, pre.toList.mapM parseBit, Hex.decode query, parseVia via, parseList etag with
  | some accepted, some [pg, pb, pz], some query, some dflt, some etagExt =>
    if dflt && index != "." then "bad-op" else
    if query.any (fun c => isCTL c || c = 35 || c = 32 || c ≥ 128 || c = 116) then "bad-op" else
    (match Hex.decode cwd, Hex.decode root, parseList hide, parseList index, flags.toList.mapM parseBit,
          Hex.decode path, Hex.decode orig, parseTree tree with
    | some cwd, some root, some hide, some index, some (b :: pt :: cn :: ph), some path, some orig, some tree =>
      -- three more bits: root / hide / index were configured as `{http.vars.…}` placeholders that
      -- expand to the values given; the model is about the expanded values
      if ph.length ≠ 0 ∧ ph.length ≠ 3 then "bad-op" else
      if !isRooted cwd || pathClean cwd ≠ cwd || !validTree tree then "bad-op"
      else
        let r := serve (treeFS cwd tree)
          { cwd := cwd, root := root, hide := hide, index := if dflt then defaultIndexNames else index,
            browse := b, passThru := pt, canonical := cn, pre := precompressors pg pb pz,
            accepted := accepted, etagExt := etagExt, query := query } path orig
        showOutcome r.1 ++ " | " ++ showList r.2
    | _, _, _, _, _, _, _, _ => "bad-op")
  | _, _, _, _, _ => "bad-op"

def handleServeFields : List String → String
  | [cwd, root, hide, index, flags, path, orig, tree] =>
    handleServe cwd root hide index flags path orig tree "000" "."
  | [cwd, root, hide, index, flags, path, orig, tree, pre, enc] =>
    handleServe cwd root hide index flags path orig tree pre enc
  | [cwd, root, hide, index, flags, path, orig, tree, pre, enc, query] =>
    handleServe cwd root hide index flags path orig tree pre enc query
  | [cwd, root, hide, index, flags, path, orig, tree, pre, enc, query, via] =>
    handleServe cwd root hide index flags path orig tree pre enc query via
  | [cwd, root, hide, index, flags, path, orig, tree, pre, enc, query, via, etag] =>
    handleServe cwd root hide index flags path orig tree pre enc query via etag
  | _ => "bad-op"

/-- `n` (no fault), `t` (failing template) or `w<k>` (client takes k bytes), k in canonical decimal -/
def validFault (s : String) : Bool :=
  s == "t" || s == "n" ||
  (match s.toList with
   | 'w' :: ds => !ds.isEmpty && (match (String.ofList ds).toNat? with
                                  | some k => toString k == String.ofList ds && k ≤ 1048576
                                  | none => false)
   | _ => false)

/-- split the fields of a `pair` case at the single `//` -/
def splitAtSep (l : List String) : Option (List String × List String) :=
  match l.span (· ≠ "//") with
  | (a, _ :: b) => if b.contains "//" then none else some (a, b)
  | _ => none

/-- a configuration string the `site` op can write into Caddyfile text between backticks -/
def safeCfg (s : Bytes) : Bool :=
  !s.isEmpty && s.all fun c => !(c = 96 || c = 34 || c = 10 || c = 13 || c = 0 || c = 123 || c = 125 || c = 92)

/-- `site <cwd> <root> <hide> <index> <flags> <tries> <path> <tree> <caddyfile name>`: a Caddyfile
    site (`root *`, `try_files`, `file_server`) adapted by the real adapter and served by the real
    http app; index `.` = not configured (defaults), root `-` = no `root` directive -/
def parsePolicy (s : String) : Option (Option ScanPolicy × Bool) :=
  if s == "0" then some (none, false) else if s == "1" then some (none, true)
  else if s == "L" then some (some .largest, false) else if s == "S" then some (some .smallest, false)
  else if s == "M" then some (some .recent, false) else none

def handleSite (cwd root hide index flags tries path tree cfname : String) (pol : String := "0") : String :=
  match parsePolicy pol with
  | none => "bad-op"
  | some (sp, fb) =>
  match Hex.decode cwd, Hex.decode root, parseList hide, parseList index, flags.toList.mapM parseBit,
        parseTries tries, Hex.decode path, parseTree tree, Hex.decode cfname with
  | some cwd, some root, some hide, some index, some [b, pt, cn], some tries, some path, some tree, some cfname =>
    if !isRooted cwd || pathClean cwd ≠ cwd || !validTree tree || !tries.all validTry then "bad-op"
    else if !(root.isEmpty || safeCfg root) || !hide.all safeCfg || !index.all safeCfg || !safeCfg cfname
        || !tries.all (fun t => (t.pre.isEmpty || safeCfg t.pre) && (t.suf.isEmpty || safeCfg t.suf)
                                && !(t.raw.isEmpty) && !t.raw.contains 63) then "bad-op"
    else
      let r := siteServe (treeFS cwd tree)
        { cwd := cwd, root := root, hide := siteHide cwd hide (some cfname),
          index := if index.isEmpty then defaultIndexNames else index,
          browse := b, passThru := pt, canonical := cn }
        (if tries.isEmpty then none else some tries) path sp fb
      showOutcome r.1 ++ " | " ++ showList r.2
  | _, _, _, _, _, _, _, _, _ => "bad-op"

/-- `matchfile <cwd> <root> <tries> <policy> <path> <tree> [<split_path>]`: policy `0` first_exist,
    `1` first_exist_fallback, `L` largest_size, `S` smallest_size, `M` most_recently_modified;
    split_path entries are non-empty ASCII -/
def handleMatch (cwd root tries pol path tree splits : String) : String :=
  match Hex.decode cwd, Hex.decode root, parseTries tries, Hex.decode path, parseTree tree, parseList splits with
  | some cwd, some root, some tries, some path, some tree, some splits =>
    if !isRooted cwd || pathClean cwd ≠ cwd || !validTree tree || !tries.all validTry
        || !splits.all (fun s => !s.isEmpty && s.all (· < 128)) then "bad-op"
    else
      let tries := tries.map fun t => { t with splits := splits }
      let r := if pol == "0" then some (matchFile (treeFS cwd tree) root tries false path)
        else if pol == "1" then some (matchFile (treeFS cwd tree) root tries true path)
        else if pol == "L" then some (matchFileScan (treeFS cwd tree) root tries .largest path)
        else if pol == "S" then some (matchFileScan (treeFS cwd tree) root tries .smallest path)
        else if pol == "M" then some (matchFileScan (treeFS cwd tree) root tries .recent path)
        else none
      match r with
      | some r => showMatch r.1 ++ " | " ++ showList r.2
      | none => "bad-op"
  | _, _, _, _, _, _ => "bad-op"

/-- one `file_server` block of op `two` -/
def parseBlock (cwd : Bytes) (root hide index flags : String) : Option Cfg :=
  match Hex.decode root, parseList hide, parseList index, flags.toList.mapM parseBit with
  | some root, some hide, some index, some [b, pt, cn] =>
    if !(root.isEmpty || safeCfg root) || !hide.all safeCfg || !index.all safeCfg then none
    else some { cwd := cwd, root := root, hide := siteHide cwd hide (some (str "/etc/caddy/Caddyfile")),
                index := if index.isEmpty then defaultIndexNames else index,
                browse := b, passThru := pt, canonical := cn }
  | _, _, _, _ => none

/-- `two <mode> <cwd> <rootA> <hideA> <indexA> <flagsA> <rootB> <hideB> <indexB> <flagsB> <path> <tree>`:
    two `file_server` handlers on one request — mode `p`: `route { A; B }` (A usually with pass_thru),
    mode `e`: A in the site, B inside `handle_errors` (B without pass_thru) -/
def handleTwo (mode cwd rootA hideA indexA flagsA rootB hideB indexB flagsB path tree : String) : String :=
  match Hex.decode cwd, Hex.decode path, parseTree tree with
  | some cwd, some path, some tree =>
    if !isRooted cwd || pathClean cwd ≠ cwd || !validTree tree then "bad-op"
    else match parseBlock cwd rootA hideA indexA flagsA, parseBlock cwd rootB hideB indexB flagsB with
      | some a, some b =>
        if mode == "p" then
          let r := chainServe (treeFS cwd tree) [a, b] path
          showOutcome r.1 ++ " | " ++ showList r.2
        else if mode == "e" then
          if b.passThru then "bad-op"
          else
            let r := errServe (treeFS cwd tree) a b path
            showOutcome r.1 ++ " | " ++ showList r.2
        else "bad-op"
      | _, _ => "bad-op"
  | _, _, _ => "bad-op"

def handle : List String → String
  | ["clean", p] =>
    match Hex.decode p with
    | some p => "ok " ++ Hex.encode (pathClean p)
    | none => "bad-op"
  | ["join", root, req] =>
    match Hex.decode root, Hex.decode req with
    | some r, some q => "ok " ++ Hex.encode (sanitizedPathJoin r q)
    | _, _ => "bad-op"
  | ["match", pat, name] =>
    match Hex.decode pat, Hex.decode name with
    | some p, some n => showGlob (globMatch p n)
    | _, _ => "bad-op"
  | ["serve", cwd, root, hide, index, flags, path, orig, tree] =>
    handleServe cwd root hide index flags path orig tree "000" "."
  | ["serve", cwd, root, hide, index, flags, path, orig, tree, pre, enc] =>
    handleServe cwd root hide index flags path orig tree pre enc
  | ["serve", cwd, root, hide, index, flags, path, orig, tree, pre, enc, query] =>
    handleServe cwd root hide index flags path orig tree pre enc query
  | ["serve", cwd, root, hide, index, flags, path, orig, tree, pre, enc, query, via] =>
    handleServe cwd root hide index flags path orig tree pre enc query via
  | ["serve", cwd, root, hide, index, flags, path, orig, tree, pre, enc, query, via, etag] =>
    handleServe cwd root hide index flags path orig tree pre enc query via etag
  | ["site", cwd, root, hide, index, flags, tries, path, tree, cfname] =>
    handleSite cwd root hide index flags tries path tree cfname
  | ["site", cwd, root, hide, index, flags, tries, path, tree, cfname, pol] =>
    handleSite cwd root hide index flags tries path tree cfname pol
  | ["two", mode, cwd, rootA, hideA, indexA, flagsA, rootB, hideB, indexB, flagsB, path, tree] =>
    handleTwo mode cwd rootA hideA indexA flagsA rootB hideB indexB flagsB path tree
  | "pair" :: fault :: rest =>
    -- a faulted browse request A, then request B on another instance; by
    -- `Props.browse_history_independent` the answer is B's own answer
    if !validFault fault then "bad-op" else
    match splitAtSep rest with
    | some (a, b) =>
      if handleServeFields a = "bad-op" then "bad-op" else handleServeFields b
    | none => "bad-op"
  | ["matchfile", cwd, root, tries, pol, path, tree] => handleMatch cwd root tries pol path tree "."
  | ["matchfile", cwd, root, tries, pol, path, tree, splits] => handleMatch cwd root tries pol path tree splits
  | _ => "bad-op"

end CaddyModel.C07

namespace CaddyModel.C07
/-- counter-example lines replayed on the implementation on every run (see Witness.lean) -/
def witnessLines : List String := []
end CaddyModel.C07
