import CaddyModel.C07.Props
open CaddyModel.C07
#print axioms join_contained
#print axioms join_contained_prefix
#print axioms join_contained_slash_root
#print axioms join_no_dotdot
#print axioms isLocal_rejection_never_fires
#print axioms served_path_under_root
#print axioms listed_dir_under_root
#print axioms listing_omits_hidden
#print axioms listing_is_exactly_the_unhidden_entries
#print axioms otherwise_not_found_or_passthru
#print axioms error_outcomes_come_from_the_filesystem
#print axioms fs_accesses_contained
#print axioms matcher_candidates_contained
#print axioms matcher_result_contained
#print axioms glob_from_request_partial
#print axioms pathClean_idem
#print axioms globMatch_never_runs_out_of_fuel
#print axioms chunkMatch_never_runs_out_of_fuel
#print axioms fsGlob_never_runs_out_of_fuel
#print axioms listing_omits_hidden_full_fails
#print axioms listing_hypothesis_needed
#print axioms glob_from_request_full_fails
