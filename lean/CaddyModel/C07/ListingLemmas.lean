/-
C07 — helper lemmas for the listing filter (fix cfacd08): `path.Clean` is a congruence for
further cleaning, so the entry path `SanitizedPathJoin(root, path.Join(Clean(urlPath), name))`
and the entry's real path `dir/name` have the same absolute form whenever `dir` is the file
the request itself mapped to.
-/
import CaddyModel.C07.Lemmas

namespace CaddyModel.C07

/-- the elements of a path summarised: `k` steps up, then the real elements `ns` — and for every
    flag and every stack, processing the path equals processing its summary -/
theorem clean_congruence : ∀ (l : List Bytes), (∀ c ∈ l, slash ∉ c) →
    ∃ (k : Nat) (ns : List Bytes), (∀ c ∈ ns, Normal c) ∧
      l.foldl (cleanStep false) [] = ns.reverse ++ List.replicate k dotdot ∧
      ∀ (r : Bool) (st : List Bytes),
        l.foldl (cleanStep r) st = (List.replicate k dotdot ++ ns).foldl (cleanStep r) st := by
  suffices H : ∀ (n : Nat) (l : List Bytes), l.length = n → (∀ c ∈ l, slash ∉ c) →
      ∃ (k : Nat) (ns : List Bytes), (∀ c ∈ ns, Normal c) ∧
        l.foldl (cleanStep false) [] = ns.reverse ++ List.replicate k dotdot ∧
        ∀ (r : Bool) (st : List Bytes),
          l.foldl (cleanStep r) st = (List.replicate k dotdot ++ ns).foldl (cleanStep r) st from
    fun l => H l.length l rfl
  intro n
  induction n with
  | zero =>
    intro l hlen _
    have : l = [] := List.length_eq_zero_iff.mp hlen
    subst this
    exact ⟨0, [], by simp, by simp, by simp⟩
  | succ m ih =>
    intro l hlen hl
    rcases List.eq_nil_or_concat l with hnil | ⟨l', c, hcat⟩
    · subst hnil; simp at hlen
    rw [List.concat_eq_append] at hcat
    subst hcat
    obtain ⟨k, ns, hns, heff, hcong⟩ := ih l' (by simp at hlen; omega) (fun x hx => hl x (by simp [hx]))
    have hc : slash ∉ c := hl c (by simp)
    by_cases h1 : c = []
    · refine ⟨k, ns, hns, ?_, ?_⟩
      · simp [List.foldl_append, heff, cleanStep, h1]
      · intro r st; simp [List.foldl_append, hcong, cleanStep, h1]
    by_cases h2 : c = dotB
    · refine ⟨k, ns, hns, ?_, ?_⟩
      · simp [List.foldl_append, heff, cleanStep, h2, dotB]
      · intro r st; simp [List.foldl_append, hcong, cleanStep, h2, dotB]
    by_cases h3 : c = dotdot
    · subst h3
      rcases List.eq_nil_or_concat ns with hnil | ⟨ns', t, hcat⟩
      · subst hnil
        simp only [List.reverse_nil, List.nil_append, List.append_nil] at heff hcong
        refine ⟨k + 1, [], by simp, ?_, ?_⟩
        · simp only [List.foldl_append, heff, List.foldl_cons, List.foldl_nil, List.reverse_nil, List.nil_append]
          exact cleanStep_dotdots k
        · intro r st
          simp only [List.foldl_append, hcong, List.foldl_cons, List.foldl_nil, List.append_nil]
          rw [show List.replicate (k + 1) dotdot = List.replicate k dotdot ++ [dotdot] by
            simp [List.replicate_succ']]
          simp [List.foldl_append]
      · rw [List.concat_eq_append] at hcat
        subst hcat
        have ht : Normal t := hns t (by simp)
        refine ⟨k, ns', fun x hx => hns x (by simp [hx]), ?_, ?_⟩
        · simp only [List.foldl_append, heff, List.foldl_cons, List.foldl_nil]
          have hne : ¬ t = [46, 46] := ht.2.2.1
          simp [cleanStep, dotdot, dotB, hne]
        · intro r st
          simp only [List.foldl_append, hcong, List.foldl_cons, List.foldl_nil]
          rw [foldl_cleanStep_normals r ns' _ (fun x hx => hns x (by simp [hx]))]
          rw [cleanStep_normal r _ t ht]
          have hne : ¬ t = [46, 46] := ht.2.2.1
          simp [cleanStep, dotdot, dotB, hne]
    · have hn : Normal c := ⟨h1, h2, h3, hc⟩
      refine ⟨k, ns ++ [c], ?_, ?_, ?_⟩
      · intro x hx
        simp at hx
        rcases hx with hx | hx
        · exact hns x hx
        · subst hx; exact hn
      · simp only [List.foldl_append, heff, List.foldl_cons, List.foldl_nil]
        rw [cleanStep_normal _ _ c hn]; simp
      · intro r st
        simp only [List.foldl_append, hcong, List.foldl_cons, List.foldl_nil]

theorem foldl_rooted_dotdots (k : Nat) : (List.replicate k dotdot).foldl (cleanStep true) [] = [] := by
  induction k with
  | zero => rfl
  | succ n ih =>
    rw [show List.replicate (n + 1) dotdot = List.replicate n dotdot ++ [dotdot] by simp [List.replicate_succ'],
      List.foldl_append, ih]
    decide

/-- `cleanStack ("/" ++ y)`: the rooted fold over the elements of `y` -/
theorem cleanStack_slash (y : Bytes) : cleanStack (slash :: y) = ((splitSlash y).foldl (cleanStep true) []).reverse := by
  have := splitSlash_append [] y
  simp only [List.nil_append] at this
  unfold cleanStack
  rw [this]
  simp [isRooted, splitSlash, cleanStep]

/-- summary of a path `x`: what `Clean` makes of it, rooted and not -/
theorem clean_summary (x : Bytes) (hx : x ≠ []) :
    ∃ (k : Nat) (ns : List Bytes), (∀ c ∈ ns, Normal c) ∧
      cleanStack (slash :: x) = ns ∧
      (isRooted x = true → pathClean x = slash :: joinSlash ns) ∧
      (isRooted x = false → pathClean x = render false (List.replicate k dotdot ++ ns)) ∧
      ∀ (r : Bool) (st : List Bytes),
        (splitSlash x).foldl (cleanStep r) st = (List.replicate k dotdot ++ ns).foldl (cleanStep r) st := by
  obtain ⟨k, ns, hns, heff, hcong⟩ := clean_congruence (splitSlash x) (mem_splitSlash_noSlash x)
  have hroot : (splitSlash x).foldl (cleanStep true) [] = ns.reverse := by
    rw [hcong true [], List.foldl_append, foldl_rooted_dotdots, foldl_cleanStep_normals _ _ _ hns]; simp
  refine ⟨k, ns, hns, ?_, ?_, ?_, hcong⟩
  · rw [cleanStack_slash, hroot]; simp
  · intro hr
    rw [pathClean_eq_render x hx, hr]
    simp only [cleanStack, hr, hroot, render, if_true]; simp
  · intro hr
    rw [pathClean_eq_render x hx, hr]
    simp only [cleanStack, hr, heff]; simp

theorem splitSlash_render_false (k : Nat) (ns : List Bytes) (hns : ∀ c ∈ ns, Normal c) (r : Bool) (st : List Bytes) :
    (splitSlash (render false (List.replicate k dotdot ++ ns))).foldl (cleanStep r) st
      = (List.replicate k dotdot ++ ns).foldl (cleanStep r) st := by
  by_cases hnil : List.replicate k dotdot ++ ns = []
  · rw [hnil, show render false [] = dotB from rfl, show splitSlash dotB = [dotB] by decide]
    simp [cleanStep, dotB]
  · have : render false (List.replicate k dotdot ++ ns) = joinSlash (List.replicate k dotdot ++ ns) := by
      simp only [render]; rw [if_neg hnil]; simp
    rw [this, splitSlash_join _ hnil (fun c hc => (shape_comp k ns hns c hc).2.2)]

/-- **K.** cleaning first does not change what a rooted clean makes of a path -/
theorem cleanStack_slash_pathClean (x : Bytes) : cleanStack (slash :: pathClean x) = cleanStack (slash :: x) := by
  by_cases hx : x = []
  · subst hx; decide
  · obtain ⟨k, ns, hns, hst, hr1, hr0, hcong⟩ := clean_summary x hx
    rw [hst]
    cases hr : isRooted x with
    | true =>
      rw [hr1 hr]
      have := cleanStack_join [slash] (by simp) ns hns
      simp only [List.cons_append, List.nil_append] at this
      rw [this]
      simp [show cleanStack [slash] = [] by decide]
    | false =>
      rw [hr0 hr, cleanStack_slash, splitSlash_render_false k ns hns, List.foldl_append, foldl_rooted_dotdots,
        foldl_cleanStep_normals _ _ _ hns]
      simp

/-- **F.** for a relative `x`, cleaning it first does not change the clean of `w/x` -/
theorem pathClean_join_pathClean (w x : Bytes) (hx : x ≠ []) (hr : isRooted x = false) :
    pathClean (w ++ slash :: pathClean x) = pathClean (w ++ slash :: x) := by
  obtain ⟨k, ns, hns, _, _, hr0, hcong⟩ := clean_summary x hx
  have hroot : isRooted (w ++ slash :: pathClean x) = isRooted (w ++ slash :: x) := by
    cases w with
    | nil => simp [isRooted]
    | cons a t => simp [isRooted]
  rw [pathClean_eq_render (w ++ slash :: pathClean x) (by simp), pathClean_eq_render (w ++ slash :: x) (by simp), hroot]
  congr 1
  unfold cleanStack
  rw [hroot, splitSlash_append, splitSlash_append, List.foldl_append, List.foldl_append, hr0 hr,
    splitSlash_render_false k ns hns, hcong]

theorem isRooted_pathClean (x : Bytes) (hx : x ≠ []) : isRooted (pathClean x) = isRooted x := by
  obtain ⟨k, ns, hs, hns, hk⟩ := cleanStack_shape x
  rw [pathClean_eq_render x hx, hs]
  exact (cleanStack_render (isRooted x) k ns hns hk).1

/-- `FastAbs` does not see whether its argument was cleaned before -/
theorem fastAbs_pathClean (cwd x : Bytes) (hx : x ≠ []) : fastAbs cwd (pathClean x) = fastAbs cwd x := by
  unfold fastAbs
  rw [isRooted_pathClean x hx]
  cases hr : isRooted x with
  | true => simp [pathClean_idem]
  | false => simp; exact pathClean_join_pathClean cwd x hx hr

/-! ### the entry path of the listing filter -/

theorem rootE_fix (c : Cfg) : pathClean (rootOrDot c.rootE) = c.rootC := by
  have h := rootOrDot_ne_nil c.root
  show pathClean (rootOrDot (rootOrDot c.root)) = pathClean (rootOrDot c.root)
  generalize rootOrDot c.root = y at h
  simp [rootOrDot, h]

theorem sanitizedPathJoin_eq (root req : Bytes) :
    sanitizedPathJoin root req =
      attach (pathClean (rootOrDot root)) (cleanStack (slash :: req)) ++ (if wantsTrailingSlash req then [slash] else []) := by
  have hj : joinUnder (rootOrDot root) (relOf req) = attach (pathClean (rootOrDot root)) (cleanStack (slash :: req)) := by
    unfold joinUnder; rw [relOf_eq]
    exact pathClean_join _ (rootOrDot_ne_nil root) _ (relOf_normal req)
  unfold sanitizedPathJoin
  rw [never_rejected]
  simp only [Bool.false_eq_true, if_false]
  split <;> simp [hj]

/-- the request file, when it is not the empty name, is the clean root followed by the cleaned
    request's elements -/
theorem requestFile_eq (c : Cfg) (path : Bytes) (hne : requestFile c path ≠ []) :
    requestFile c path = attach c.rootC (cleanStack (slash :: path)) := by
  have hl := relOf_normal path
  have hs := sanitizedPathJoin_eq c.rootE path
  rw [rootE_fix] at hs
  unfold requestFile trimSlashSuffix at hne ⊢
  rw [hs] at hne ⊢
  by_cases hw : wantsTrailingSlash path = true
  · simp only [hw, if_true] at hne ⊢
    have : endsWithSlash (attach c.rootC (cleanStack (slash :: path)) ++ [slash]) = true := by simp [endsWithSlash]
    rw [if_pos this]; simp
  · simp only [hw, Bool.false_eq_true, if_false, List.append_nil] at hne ⊢
    split
    · rename_i he
      exfalso
      have := attach_endsWithSlash c.rootE _ hl he
      apply hne
      rw [if_pos he]
      show (attach (pathClean c.rootE) (cleanStack (slash :: path))).dropLast = []
      rw [this]; rfl
    · rfl

theorem entryPathUrl_eq (c : Cfg) (path name : Bytes) (hn : Normal name) :
    entryPathUrl c path name = attach c.rootC (cleanStack (slash :: path) ++ [name]) := by
  have hq : pathClean path ≠ [] := pathClean_ne_nil path
  have h1 : ∀ x ∈ [name], Normal x := by intro x hx; simp at hx; subst hx; exact hn
  -- J = path.Join(Clean(path), name) = Clean(path) followed by `name`
  have hJ : pathJoin2 (pathClean path) name = attach (pathClean path) [name] := by
    simp only [pathJoin2, hq, if_false]
    have := pathClean_join (pathClean path) hq [name] h1
    simp only [joinSlash] at this
    rw [this, pathClean_idem]
  -- it does not end with a slash
  have hnots : wantsTrailingSlash (pathJoin2 (pathClean path) name) = false := by
    unfold wantsTrailingSlash
    cases he : endsWithSlash (pathJoin2 (pathClean path) name) with
    | false => rfl
    | true =>
      exfalso
      rw [hJ] at he
      have hs := attach_endsWithSlash path [name] h1 he
      obtain ⟨r, k, ns, hns, _, hp⟩ := pathClean_shape path
      rw [hp, attach_render r k ns [name] hns h1] at hs
      have hcomp := shape_comp k (ns ++ [name]) (mem_append_normal hns h1)
      have hnil : List.replicate k dotdot ++ (ns ++ [name]) ≠ [] := by simp
      cases r with
      | true =>
        simp only [render, if_true] at hs
        simp at hs
        exact joinSlash_ne_nil _ hnil (fun x hx => (hcomp x hx).1) hs
      | false =>
        simp only [render] at hs
        rw [if_neg hnil] at hs
        simp at hs
        exact joinSlash_ne_slash _ hnil hcomp hs
  -- its rooted clean: the request's elements followed by `name`
  have hstack : cleanStack (slash :: pathJoin2 (pathClean path) name) = cleanStack (slash :: path) ++ [name] := by
    simp only [pathJoin2, hq, if_false]
    rw [cleanStack_slash_pathClean]
    have := cleanStack_join (slash :: pathClean path) (by simp) [name] h1
    simp only [joinSlash, List.cons_append] at this
    rw [this, cleanStack_slash_pathClean]
  unfold entryPathUrl
  rw [sanitizedPathJoin_eq, rootE_fix, hnots, hstack]
  simp

/-- the cfacd08 filter looks at the entry's real path *when* the listed directory is the file
    the request mapped to, `fileHidden` gives the same answer for the path the filter builds from
    the URL and for `dir/name` -/
theorem entry_hidden_url_eq (c : Cfg) (path name : Bytes) (hn : Normal name) (hne : requestFile c path ≠ []) :
    c.hidden (entryPathUrl c path name) = c.hidden (requestFile c path ++ slash :: name) := by
  have hl := relOf_normal path
  have h1 : ∀ x ∈ [name], Normal x := by intro x hx; simp at hx; subst hx; exact hn
  have hB : pathClean (requestFile c path ++ slash :: name) = entryPathUrl c path name := by
    have := pathClean_join (requestFile c path) hne [name] h1
    simp only [joinSlash] at this
    rw [this, requestFile_eq c path hne, entryPathUrl_eq c path name hn]
    unfold Cfg.rootC
    rw [pathClean_attach c.rootE _ hl, attach_attach c.rootE _ [name] hl h1]
  have : fastAbs c.cwd (entryPathUrl c path name) = fastAbs c.cwd (requestFile c path ++ slash :: name) := by
    rw [← hB]; exact fastAbs_pathClean c.cwd _ (by simp)
  unfold Cfg.hidden fileHidden
  rw [this]

/-- **the listing filter looks at the entry's real path**: `fileHidden` gives the same answer for
    `filepath.Join(dirPath, name)` and for `dirPath/name` -/
theorem entry_hidden_eq (c : Cfg) (dir name : Bytes) (hne : dir ≠ []) :
    c.hidden (pathJoin2 dir name) = c.hidden (dir ++ slash :: name) := by
  have : fastAbs c.cwd (pathJoin2 dir name) = fastAbs c.cwd (dir ++ slash :: name) := by
    simp only [pathJoin2, hne, if_false]
    exact fastAbs_pathClean c.cwd _ (by simp)
  unfold Cfg.hidden fileHidden
  rw [this]

end CaddyModel.C07
