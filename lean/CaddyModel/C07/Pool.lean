/-
C07 — the render buffer of `serveBrowse` (browse.go): listings are rendered into a `bytes.Buffer`
taken from the package-level `bufPool` (a `sync.Pool` shared by every file_server instance of
the process) and then copied to the client with `buf.WriteTo(w)`.

    buf := bufPool.Get().(*bytes.Buffer)
    buf.Reset()
    defer bufPool.Put(buf)
    … render the listing into buf …          (may return early with an error)
    _, _ = buf.WriteTo(w)                     (stops at the first write error, keeps the rest)

`WriteTo` empties the buffer only when the client took everything; a listing that was rendered
but not (completely) delivered goes back into the pool.  What `Get` hands out next is any buffer
that was ever put back — the model takes it as an arbitrary byte string.  `Reset` is what makes
the response a function of the request alone.
-/
import CaddyModel.C07.Model

namespace CaddyModel.C07

/-- one browse request as the buffer sees it -/
structure BufUse where
  rendered : Bytes      -- what the request renders: a function of its own configuration and directory
  deliver : Nat         -- how many bytes the client takes before its connection fails (≥ length: all;
                        -- 0 also stands for an early return before `WriteTo`)

/-- one use of a pooled buffer `got`: (bytes sent to the client, buffer put back).
    `reset = true` is the code; `reset = false` is the code without `buf.Reset()`. -/
def bufStep (reset : Bool) (got : Bytes) (u : BufUse) : Bytes × Bytes :=
  (((if reset then [] else got) ++ u.rendered).take u.deliver,
   ((if reset then [] else got) ++ u.rendered).drop u.deliver)

/-- a request of a sequence: its filesystem, instance configuration, paths, and the client's fault -/
structure SeqReq where
  fs : FS
  cfg : Cfg
  path : Bytes
  orig : Bytes
  deliver : Nat

/-- the body a browse request renders (`render` = JSON / text / template rendering of the listing) -/
def listingBody (render : Bytes → List Bytes → Bytes) (q : SeqReq) : Option Bytes :=
  match (serve q.fs q.cfg q.path q.orig).1 with
  | .listing d ns => some (render d ns)
  | _ => none

/-- a sequence of requests served by one process.  `pool` is the buffer the pool holds (what the
    next `Get` returns); requests that do not end in a listing do not touch it. -/
def serveSeq (reset : Bool) (render : Bytes → List Bytes → Bytes) : Bytes → List SeqReq → List (Option Bytes)
  | _, [] => []
  | pool, q :: qs =>
    match listingBody render q with
    | none => none :: serveSeq reset render pool qs
    | some b => some (bufStep reset pool ⟨b, q.deliver⟩).1 :: serveSeq reset render (bufStep reset pool ⟨b, q.deliver⟩).2 qs

theorem bufStep_reset (got : Bytes) (u : BufUse) : (bufStep true got u).1 = u.rendered.take u.deliver := by
  simp [bufStep]

/-- the answer each request gets when served alone by a fresh process -/
def aloneAnswers (render : Bytes → List Bytes → Bytes) (qs : List SeqReq) : List (Option Bytes) :=
  qs.map fun q => (listingBody render q).map (·.take q.deliver)

theorem serveSeq_reset (render : Bytes → List Bytes → Bytes) : ∀ (qs : List SeqReq) (pool : Bytes),
    serveSeq true render pool qs = aloneAnswers render qs := by
  intro qs
  induction qs with
  | nil => intro _; rfl
  | cons q rest ih =>
    intro pool
    unfold serveSeq aloneAnswers
    cases h : listingBody render q with
    | none => simp [h]; exact ih pool
    | some b => simp [h, bufStep]; exact ih _

end CaddyModel.C07
