/-
C07 — helper lemmas for the Caddyfile-site glue (Site.lean).
-/
import CaddyModel.C07.Site
import CaddyModel.C07.ListingLemmas
import CaddyModel.C07.GlobLemmas

namespace CaddyModel.C07

theorem globSafe_id : ∀ (p : Bytes), hasMeta p = false → globSafe p = p := by
  intro p
  induction p with
  | nil => intro _; rfl
  | cons c cs ih =>
    intro h
    simp only [hasMeta, List.any_cons, Bool.or_eq_false_iff, decide_eq_false_iff_not] at h
    have hc : ¬ (c = 42 ∨ c = 91 ∨ c = 63) := by
      intro e; apply h.1
      rcases e with e | e | e
      · exact Or.inl e
      · exact Or.inr (Or.inr (Or.inl e))
      · exact Or.inr (Or.inl e)
    simp only [globSafe, hc, if_false]
    rw [ih (by simpa [hasMeta] using h.2)]

theorem not_bs_of_noMeta (p : Bytes) (h : hasMeta p = false) : (92 : UInt8) ∉ p := by
  intro hm
  have : hasMeta p = true := by
    simp only [hasMeta, List.any_eq_true]
    exact ⟨92, hm, by simp⟩
  rw [h] at this; cases this

/-- a glob-free text, used as a pattern, matches itself -/
theorem globMatch_self (p : Bytes) (h : hasMeta p = false) : globMatch p p = some true := by
  have := globMatch_globSafe p p (not_bs_of_noMeta p h)
  rw [globSafe_id p h] at this
  simpa using this

theorem cutAt_none (c : UInt8) : ∀ (s : Bytes), c ∉ s → cutAt c s = (s, []) := by
  intro s
  induction s with
  | nil => intro _; rfl
  | cons x xs ih =>
    intro h
    have hx : x ≠ c := fun e => h (by simp [e])
    have := ih (fun e => h (by simp [e]))
    simp [cutAt, hx, this]

theorem validEsc_cons_ne (x : UInt8) (xs : Bytes) (hx : x ≠ 37) : validEsc (x :: xs) = validEsc xs := by
  rw [validEsc.eq_def]
  split <;> simp_all

theorem validEsc_noPercent : ∀ (s : Bytes), (37 : UInt8) ∉ s → validEsc s = true := by
  intro s
  induction s with
  | nil => intro _; rfl
  | cons x xs ih =>
    intro h
    rw [validEsc_cons_ne x xs (fun e => h (by simp [e]))]
    exact ih (fun e => h (by simp [e]))

theorem unescapeAll_cons_ne (x : UInt8) (xs : Bytes) (hx : x ≠ 37) : unescapeAll (x :: xs) = x :: unescapeAll xs := by
  rw [unescapeAll.eq_def]
  split <;> simp_all

theorem unescapeAll_noPercent : ∀ (s : Bytes), (37 : UInt8) ∉ s → unescapeAll s = s := by
  intro s
  induction s with
  | nil => intro _; rfl
  | cons x xs ih =>
    intro h
    rw [unescapeAll_cons_ne x xs (fun e => h (by simp [e])), ih (fun e => h (by simp [e]))]

/-- `./name` and `name` have the same absolute form -/
theorem fastAbs_dotSlash (cwd f : Bytes) (hf : Normal f) : fastAbs cwd ([46, 47] ++ f) = fastAbs cwd f := by
  have h1 : ∀ x ∈ [f], Normal x := by intro x hx; simp at hx; subst hx; exact hf
  have hclean : pathClean ([46, 47] ++ f) = f := by
    have := pathClean_join dotB (by decide) [f] h1
    have hj : joinSlash [f] = f := rfl
    rw [hj] at this
    have e : ([46, 47] ++ f : Bytes) = dotB ++ slash :: f := rfl
    rw [e, this, show pathClean dotB = dotB by decide]
    simp [attach, dotB, slash, joinSlash]
  have hr1 : isRooted ([46, 47] ++ f) = false := by simp [isRooted, slash]
  have hr2 : isRooted f = false := by
    cases f with
    | nil => exact absurd rfl hf.1
    | cons a t =>
      simp [isRooted]
      intro e; exact hf.2.2.2 (by simp [e])
  unfold fastAbs
  rw [hr1, hr2]
  simp only [Bool.false_eq_true, if_false]
  rw [← pathClean_join_pathClean cwd ([46, 47] ++ f) (by simp) hr1, hclean]

end CaddyModel.C07
