/-
C07 — the `Location` of a canonical-URI redirect starts with exactly one `/`: it is a path on
the same origin, never a scheme-relative `//host/…` reference.
-/
import CaddyModel.C07.Lemmas

namespace CaddyModel.C07

/-- starts with `/`, and the next byte (if any) is not `/` -/
def SingleSlashStart (s : Bytes) : Prop := ∃ rest, s = slash :: rest ∧ rest.head? ≠ some slash

theorem stripDoubleSlash_single : ∀ (t : Bytes), SingleSlashStart (stripDoubleSlash (slash :: t)) := by
  intro t
  induction t with
  | nil => exact ⟨[], by simp [stripDoubleSlash, slash], by simp⟩
  | cons x xs ih =>
    by_cases hx : x = 47
    · subst hx
      have : stripDoubleSlash (slash :: 47 :: xs) = stripDoubleSlash (slash :: xs) := by
        simp [stripDoubleSlash, slash]
      rw [this]; exact ih
    · refine ⟨x :: xs, ?_, by simp [slash]; exact hx⟩
      unfold stripDoubleSlash
      split
      · rename_i h; simp [slash] at h; exact absurd h.1 hx
      · rfl

theorem single_append {s q : Bytes} (h : SingleSlashStart s) (hq : q.head? ≠ some slash) :
    SingleSlashStart (s ++ q) := by
  obtain ⟨rest, rfl, hr⟩ := h
  refine ⟨rest ++ q, by simp, ?_⟩
  cases rest with
  | nil => simpa using hq
  | cons a t => simpa using hr

theorem hexEscape_single {s : Bytes} (h : SingleSlashStart s) : SingleSlashStart (hexEscapeNonASCII s) := by
  obtain ⟨rest, rfl, hr⟩ := h
  refine ⟨hexEscapeNonASCII rest, by simp [hexEscapeNonASCII, slash], ?_⟩
  cases rest with
  | nil => simp [hexEscapeNonASCII]
  | cons a t =>
    simp only [hexEscapeNonASCII]
    split
    · simp [slash]
    · simpa using hr

theorem splitQuery_fst_cons (rest : Bytes) : (splitQuery (slash :: rest)).1 = slash :: (splitQuery rest).1 ∧
    (splitQuery (slash :: rest)).2 = (splitQuery rest).2 := by
  simp [splitQuery, slash]

theorem splitQuery_snd_head : ∀ (s : Bytes), (splitQuery s).2.head? ≠ some slash := by
  intro s
  induction s with
  | nil => simp [splitQuery]
  | cons x xs ih =>
    simp only [splitQuery]
    split
    · rename_i h; subst h; simp [slash]
    · exact ih

theorem pathClean_rooted_single (p : Bytes) : SingleSlashStart (pathClean (slash :: p)) ∨ pathClean (slash :: p) = [slash] := by
  rw [pathClean_eq_render _ (by simp)]
  have hr : isRooted (slash :: p) = true := by simp [isRooted]
  rw [hr]
  simp only [render, if_true]
  by_cases hnil : cleanStack (slash :: p) = []
  · right; rw [hnil]; rfl
  · left
    obtain ⟨x, rest, hj, hx⟩ := joinSlash_head _ hnil (cleanStack_comp _)
    exact ⟨joinSlash (cleanStack (slash :: p)), rfl, by rw [hj]; simpa using hx⟩

theorem cleanKeepSlash_single (p : Bytes) : SingleSlashStart (cleanKeepSlash (slash :: p)) := by
  unfold cleanKeepSlash
  rcases pathClean_rooted_single p with h | h
  · split
    · rename_i hc
      obtain ⟨rest, e, hr⟩ := h
      refine ⟨rest ++ [slash], by rw [e]; simp, ?_⟩
      cases rest with
      | nil =>
        -- then pathClean = "/" ends with a slash: the branch condition is false
        rw [e] at hc; simp [endsWithSlash] at hc
      | cons a t => simpa using hr
    · exact h
  · rw [h]
    have : endsWithSlash [slash] = true := by decide
    simp [this]
    exact ⟨[], rfl, by simp⟩

/-- **the Location of every canonical redirect is a same-origin path** -/
theorem goRedirect_single (oldpath to query : Bytes) (h : to.head? = some slash) :
    SingleSlashStart (goRedirect oldpath (redirectTo to query)) := by
  obtain ⟨t, rfl⟩ : ∃ t, to = slash :: t := by
    cases to with
    | nil => simp at h
    | cons a t => simp at h; exact ⟨t, by rw [h]⟩
  have hu : SingleSlashStart (redirectTo (slash :: t) query) := by
    unfold redirectTo
    apply single_append (stripDoubleSlash_single t)
    split <;> simp [slash]
  unfold goRedirect
  split
  · apply hexEscape_single
    obtain ⟨rest, e, _⟩ := hu
    have hh : (redirectTo (slash :: t) query).head? = some slash := by rw [e]; rfl
    simp only [hh, if_true]
    rw [e, (splitQuery_fst_cons rest).1, (splitQuery_fst_cons rest).2]
    exact single_append (cleanKeepSlash_single _) (splitQuery_snd_head rest)
  · exact hexEscape_single hu

end CaddyModel.C07
