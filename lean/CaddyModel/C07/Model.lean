/-
C07 — model of the static file server's path handling, as the code is (unix build):

* `pathClean`            Go `path.Clean` / `filepath.Clean` (identical on unix)
* `isLocal`              `filepath.IsLocal` (unix)
* `sanitizedPathJoin`    `caddyhttp.SanitizedPathJoin`            (caddyhttp.go)
* `fastAbs`              `caddy.FastAbs` against the cached working directory `cwd`
* `fileHidden`           `fileserver.fileHidden` + `transformHidePaths` (staticfiles.go)
* `serve`                decision skeleton of `FileServer.ServeHTTP` + `serveBrowse` +
                         `directoryListing` over an abstract filesystem `FS`
* `matchFile`            `MatchFile.selectFile` (first_exist / first_exist_fallback): candidate
                         construction, `fs.Glob`, `strictFileExists`

Byte strings are `List UInt8`.  The filesystem is a parameter `fs : Bytes → Node`: what
`Open(name)` answers for the exact string handed to it.  Every function that touches the
filesystem also returns the list of names it handed to `Open`, in order (the *trace*).
The glob matcher (`path.Match`) lives in `Glob.lean`.
-/
import CaddyModel.Util.Hex
import CaddyModel.C07.Glob
import CaddyModel.Gen.Glue

namespace CaddyModel.C07

/-! ### path.Clean -/

/-- `strings.Split(s, "/")` -/
def consHead (c : UInt8) : List Bytes → List Bytes
  | [] => [[c]]
  | h :: t => (c :: h) :: t

def splitSlash : Bytes → List Bytes
  | [] => [[]]
  | c :: cs => if c = slash then [] :: splitSlash cs else consHead c (splitSlash cs)

/-- `strings.Join(l, "/")` -/
def joinSlash : List Bytes → Bytes
  | [] => []
  | [a] => a
  | a :: b :: t => a ++ slash :: joinSlash (b :: t)

def dotB : Bytes := [46]
def dotdot : Bytes := [46, 46]

/-- one path element processed by `Clean`; `st` is the output so far as a stack of elements,
    top first.  `..` pops a real element, is dropped at the root of a rooted path and is kept
    at the front of a relative one. -/
def cleanStep (rooted : Bool) (st : List Bytes) (c : Bytes) : List Bytes :=
  if c = [] then st
  else if c = dotB then st
  else if c = dotdot then
    match st with
    | [] => if rooted then [] else [dotdot]
    | t :: r => if t = dotdot then dotdot :: t :: r else r
  else c :: st

def isRooted (p : Bytes) : Bool := p.head? = some slash

def cleanStack (p : Bytes) : List Bytes :=
  ((splitSlash p).foldl (cleanStep (isRooted p)) []).reverse

/-- the cleaned path for a given element list -/
def render (rooted : Bool) (st : List Bytes) : Bytes :=
  if rooted then slash :: joinSlash st
  else if st = [] then dotB else joinSlash st

def pathClean (p : Bytes) : Bytes :=
  if p = [] then dotB else render (isRooted p) (cleanStack p)

/-! ### filepath.IsLocal (unix), filepath.Join, SanitizedPathJoin -/

def hasDots (p : Bytes) : Bool := (splitSlash p).any (fun c => c = dotB ∨ c = dotdot)

def dotdotSlash : Bytes := [46, 46, 47]

def isLocal (p : Bytes) : Bool :=
  if isRooted p ∨ p = [] then false
  else if hasDots p then
    !(pathClean p = dotdot ∨ dotdotSlash.isPrefixOf (pathClean p))
  else !(p = dotdot ∨ dotdotSlash.isPrefixOf p)

/-- `root == "" → "."` -/
def rootOrDot (root : Bytes) : Bytes := if root = [] then dotB else root

/-- `path.Clean("/" + reqPath)[1:]` -/
def relOf (req : Bytes) : Bytes := (pathClean (slash :: req)).drop 1

def endsWithSlash (p : Bytes) : Bool := p.getLast? = some slash

/-- `strings.HasSuffix(reqPath, "/") && len(reqPath) > 1` -/
def wantsTrailingSlash (req : Bytes) : Bool := endsWithSlash req && decide (req.length > 1)

/-- `filepath.Join(root, rel)` for a non-empty `root` -/
def joinUnder (root rel : Bytes) : Bytes := pathClean (root ++ slash :: rel)

def rejectedAsNonLocal (req : Bytes) : Bool := relOf req ≠ [] && !isLocal (relOf req)

def sanitizedPathJoin (root req : Bytes) : Bytes :=
  if rejectedAsNonLocal req then rootOrDot root
  else if wantsTrailingSlash req then joinUnder (rootOrDot root) (relOf req) ++ [slash]
  else joinUnder (rootOrDot root) (relOf req)

/-! ### FastAbs, fileHidden -/

/-- `caddy.FastAbs` with `wd = cwd`, `wderr = nil` -/
def fastAbs (cwd p : Bytes) : Bytes :=
  if isRooted p then pathClean p else pathClean (cwd ++ slash :: p)

def hasSlash (p : Bytes) : Bool := p.contains slash

/-- `Provision` / `transformHidePaths`: entries with a separator are made absolute -/
def transformHide (cwd : Bytes) (hide : List Bytes) : List Bytes :=
  hide.map fun h => if hasSlash h then fastAbs cwd h else h

/-- `filepath.Match(h, s)` with the error dropped -/
def fmatch (h s : Bytes) : Bool := globMatch h s = some true

/-- `strings.HasPrefix(fn, h) && strings.HasPrefix(strings.TrimPrefix(fn, h), "/")` -/
def prefixRule (h fn : Bytes) : Bool := h.isPrefixOf fn && (fn.drop h.length).head? = some slash

/-- one hide entry against an (absolute) file name -/
def hiddenBy (fn h : Bytes) : Bool :=
  (if hasSlash h then prefixRule h fn else (splitSlash fn).any (fmatch h)) || fmatch h fn

/-- `fileHidden(filename, hide)`; `hide` is the already transformed list -/
def fileHidden (cwd filename : Bytes) (hide : List Bytes) : Bool :=
  if hide = [] then false else hide.any (hiddenBy (fastAbs cwd filename))

/-! ### the abstract filesystem -/

structure Entry where
  name : Bytes
  isDir : Bool
deriving DecidableEq, Repr

/-- what `Open(name)` (and hence `fs.Stat`) answers -/
inductive Node where
  | missing                       -- fs.ErrNotExist
  | perm                          -- fs.ErrPermission
  | invalid                       -- fs.ErrInvalid
  | other                         -- any other error (ENOTDIR, EIO, …)
  | file (id : Nat)
  | dir (entries : List Entry)
deriving DecidableEq, Repr

abbrev FS := Bytes → Node

def Node.isDirB : Node → Bool
  | .dir _ => true
  | _ => false

def Node.isErr : Node → Bool
  | .file _ => false
  | .dir _ => false
  | _ => true

/-- result paired with the names handed to the filesystem -/
abbrev Traced (α : Type) := α × List Bytes

def withTrace {α : Type} (p : Bytes) (r : Traced α) : Traced α := (r.1, p :: r.2)

def appendTrace {α : Type} (t : List Bytes) (r : Traced α) : Traced α := (r.1, t ++ r.2)

/-! ### mapDirOpenError -/

/-- the names `mapDirOpenError` stats: for every non-empty part `i`, `parts[:i+1]` joined -/
def prefixNames (parts : List Bytes) : List Bytes :=
  (List.range parts.length).filterMap fun i =>
    if parts.getD i [] = [] then none else some (joinSlash (parts.take (i + 1)))

def walkPrefixes (fs : FS) (orig : Node) : List Bytes → Traced Node
  | [] => (orig, [])
  | p :: ps =>
    match fs p with
    | .dir _ => withTrace p (walkPrefixes fs orig ps)
    | .file _ => (.missing, [p])
    | _ => (orig, [p])

/-- `mapDirOpenError(fs, err, name)`; `orig` is an error node -/
def mapDirOpenError (fs : FS) (orig : Node) (name : Bytes) : Traced Node :=
  match orig with
  | .missing => (.missing, [])
  | .perm => (.perm, [])
  | _ => walkPrefixes fs orig (prefixNames (splitSlash name))

/-! ### FileServer.ServeHTTP -/

structure Cfg where
  cwd : Bytes
  root : Bytes              -- after placeholder expansion; "" means "."
  hide : List Bytes         -- as configured
  index : List Bytes
  browse : Bool
  passThru : Bool
  canonical : Bool
  pre : List (Bytes × Bytes) := []   -- precompressed: Accept-Encoding name ↦ file suffix (a Go map: keys unique)
  accepted : List Bytes := []        -- what `encode.AcceptedEncodings(r, order)` returned, in order
  etagExt : List Bytes := []         -- `etag_file_extensions`
  query : Bytes := []                -- request data: `r.URL.RawQuery` (kept here so that `serve` keeps its signature)
deriving Repr

inductive Outcome where
  | notFound                                  -- 404
  | passThru                                  -- next handler invoked
  | forbidden                                 -- 403
  | serverError                               -- 500
  | unavailable                               -- 503 (open failed with an unclassified error)
  | redirect (location : Option Bytes)        -- 308 canonical-URI redirect; the `Location` header value
                                              -- (`none`: original path not rooted, outside `locationOf`)
  | file (path : Bytes) (id : Nat)            -- bytes of file `id`, opened as `path`
  | listing (path : Bytes) (names : List Bytes)  -- directory listing of `path`
  | sidecar (path : Bytes) (id : Nat) (enc : Bytes)  -- bytes of precompressed file `id`, opened as `path`,
                                                     -- sent with `Content-Encoding: enc`
  | withEtag (o : Outcome) (name : Bytes) (id : Nat)   -- `o` (a file or a sidecar), with the `Etag` header taken
                                                     -- from the content of file `id`, read as `name`
deriving DecidableEq, Repr

def Cfg.rootE (c : Cfg) : Bytes := rootOrDot c.root
def Cfg.hideT (c : Cfg) : List Bytes := transformHide c.cwd c.hide
def Cfg.hidden (c : Cfg) (p : Bytes) : Bool := fileHidden c.cwd p c.hideT

/-- `defaultIndexNames` (staticfiles.go), what `Provision` puts in place of an omitted `index_names`;
    read off the source on every run (`Gen.defaultIndexNames`) -/
def defaultIndexNames : List Bytes := CaddyModel.Gen.defaultIndexNames.map str

def notFoundOut (c : Cfg) : Outcome := if c.passThru then .passThru else .notFound

def trimSlashSuffix (p : Bytes) : Bytes := if endsWithSlash p then p.dropLast else p

/-- the name ServeHTTP stats first -/
def requestFile (c : Cfg) (path : Bytes) : Bytes := trimSlashSuffix (sanitizedPathJoin c.rootE path)

/-- index lookup: the first index name that is not hidden and can be stat'ed -/
def findIndex (fs : FS) (c : Cfg) (filename : Bytes) : List Bytes → Traced (Option (Bytes × Node))
  | [] => (none, [])
  | ix :: rest =>
    if c.hidden (sanitizedPathJoin filename ix) then findIndex fs c filename rest
    else match fs (sanitizedPathJoin filename ix) with
      | .file id => (some (sanitizedPathJoin filename ix, .file id), [sanitizedPathJoin filename ix])
      | .dir es => (some (sanitizedPathJoin filename ix, .dir es), [sanitizedPathJoin filename ix])
      | _ => withTrace (sanitizedPathJoin filename ix) (findIndex fs c filename rest)

/-- `path.Base` -/
def pathBase (p : Bytes) : Bytes :=
  if p = [] then dotB
  else match ((splitSlash p).filter (· ≠ [])).getLast? with
    | none => [slash]
    | some b => b

def sameBase (orig path : Bytes) : Bool := pathBase orig = pathBase path

/-- `path.Join(dir, n)` -/
def pathJoin2 (d n : Bytes) : Bytes :=
  if d = [] then (if n = [] then [] else pathClean n) else pathClean (d ++ slash :: n)

def showEntry (e : Entry) : Bytes := if e.isDir then e.name ++ [slash] else e.name

/-- the filter `directoryListing` applied before the fix cfacd08: `fileHidden(entry.Name(), …)`
    on the bare name only (resolved against the working directory).  Kept for `Witness.lean`. -/
def listingNamesOld (c : Cfg) (es : List Entry) : List Bytes :=
  (es.filter fun e => !c.hidden e.name).map showEntry

/-- the entry path of the filter of /repo cfacd08 (before the fix that hands `dirPath` down):
    `SanitizedPathJoin(root, path.Join(dirURLPath, name))`, `dirURLPath` = the cleaned request
    path.  Kept for `Witness.lean`. -/
def entryPathUrl (c : Cfg) (path name : Bytes) : Bytes :=
  sanitizedPathJoin c.rootE (pathJoin2 (pathClean path) name)

/-- the filter of /repo cfacd08.  Kept for `Witness.lean`. -/
def listingNamesUrl (c : Cfg) (path : Bytes) (es : List Entry) : List Bytes :=
  (es.filter fun e => !(c.hidden e.name || c.hidden (entryPathUrl c path e.name))).map showEntry

/-- the entry names a listing shows: an entry is skipped if
    `fileHidden(name, hide) || fileHidden(filepath.Join(dirPath, name), hide)`, `dirPath` being the
    directory `serveBrowse` opened -/
def listingNames (c : Cfg) (dirPath : Bytes) (es : List Entry) : List Bytes :=
  (es.filter fun e => !(c.hidden e.name || c.hidden (pathJoin2 dirPath e.name))).map showEntry

/-- `path.Split`: everything up to and including the last slash, and the rest -/
def pathSplit : Bytes → Bytes × Bytes
  | [] => ([], [])
  | c :: cs =>
    if hasSlash (c :: cs) then (c :: (pathSplit cs).1, (pathSplit cs).2)
    else ([], c :: cs)

/-! ### the canonical-URI redirect: `redirect` (staticfiles.go) + `http.Redirect` -/

/-- `for strings.HasPrefix(toPath, "//") { toPath = strings.TrimPrefix(toPath, "/") }` -/
def stripDoubleSlash : Bytes → Bytes
  | 47 :: 47 :: rest => stripDoubleSlash (47 :: rest)
  | p => p

/-- `toPath` as handed to `http.Redirect`: leading double slashes collapsed, query re-attached -/
def redirectTo (to query : Bytes) : Bytes :=
  stripDoubleSlash to ++ (if query = [] then [] else 63 :: query)

def isCTL (c : UInt8) : Bool := c < 32 || c = 127
def isHex (c : UInt8) : Bool := (48 ≤ c && c ≤ 57) || (97 ≤ c && c ≤ 102) || (65 ≤ c && c ≤ 70)

/-- `url.unescape` accepts the string: every `%` is followed by two hex digits -/
def validEsc : Bytes → Bool
  | [] => true
  | 37 :: a :: b :: rest => isHex a && isHex b && validEsc rest
  | 37 :: _ => false
  | _ :: rest => validEsc rest

/-- `strings.Cut(s, c)`: before, after (after = [] also when `c` does not occur) -/
def cutAt (c : UInt8) : Bytes → Bytes × Bytes
  | [] => ([], [])
  | x :: xs => if x = c then ([], xs) else ((cutAt c xs).1.cons x, (cutAt c xs).2)

/-- `url.Parse(u)` succeeds — for `u` empty or starting with `?` or with a single `/` (then no
    scheme and no authority can be found): no control byte before `#`, valid escapes in the path
    and in the fragment -/
def urlParseOK (u : Bytes) : Bool :=
  !(cutAt 35 u).1.any isCTL && validEsc (cutAt 63 (cutAt 35 u).1).1 && validEsc (cutAt 35 u).2

/-- `strings.Index(url, "?")` split: the part before, and the rest including the `?` -/
def splitQuery : Bytes → Bytes × Bytes
  | [] => ([], [])
  | x :: xs => if x = 63 then ([], x :: xs) else ((splitQuery xs).1.cons x, (splitQuery xs).2)

/-- "clean up but preserve trailing slash" -/
def cleanKeepSlash (p : Bytes) : Bytes :=
  if endsWithSlash p && !endsWithSlash (pathClean p) then pathClean p ++ [slash] else pathClean p

def hexDigitLower (n : UInt8) : UInt8 := if n < 10 then 48 + n else 87 + n

/-- `hexEscapeNonASCII` -/
def hexEscapeNonASCII : Bytes → Bytes
  | [] => []
  | c :: cs => if c ≥ 128 then 37 :: hexDigitLower (c / 16) :: hexDigitLower (c % 16) :: hexEscapeNonASCII cs
               else c :: hexEscapeNonASCII cs

/-- `path.Split(p)`'s directory part -/
def dirOf (p : Bytes) : Bytes := (pathSplit p).1

/-- the `Location` header `http.Redirect(w, r, url, 308)` sets (`oldpath` = `r.URL.Path`) -/
def goRedirect (oldpath url : Bytes) : Bytes :=
  if urlParseOK url then
    hexEscapeNonASCII
      (cleanKeepSlash (splitQuery (if url.head? = some slash then url
                                    else dirOf (if oldpath = [] then [slash] else oldpath) ++ url)).1 ++
       (splitQuery (if url.head? = some slash then url
                    else dirOf (if oldpath = [] then [slash] else oldpath) ++ url)).2)
  else hexEscapeNonASCII url

/-- the `Location` of a canonical redirect to `to`; defined when the original request path is
    rooted (every origin-form request target is) -/
def locationOf (c : Cfg) (path orig to : Bytes) : Option Bytes :=
  if isRooted orig then some (goRedirect path (redirectTo to c.query)) else none

/-- `serveBrowse` -/
def serveBrowse (c : Cfg) (dirPath : Bytes) (es : List Entry) (path orig : Bytes) : Traced Outcome :=
  if (path = [] || sameBase orig path) && !endsWithSlash orig then (.redirect (locationOf c path orig (orig ++ [slash])), [])
  else (.listing dirPath (listingNames c dirPath es), [dirPath])

/-- `openFile` + `http.ServeContent` on the chosen file -/
def openAndServe (fs : FS) (c : Cfg) (filename : Bytes) : Traced Outcome :=
  match fs filename with
  | .file id => (.file filename id, [filename])
  | .dir _ => (.serverError, [filename])      -- cannot happen on a static filesystem: stat said "file"
  | e =>
    withTrace filename <|
      match mapDirOpenError fs e filename with
      | (.missing, t) => (notFoundOut c, t)
      | (.perm, t) => (.forbidden, t)
      | (_, t) => (.unavailable, t)

/-- `fsrv.precompressors[ae]` -/
def sidecarSuffix (c : Cfg) (ae : Bytes) : Option Bytes := (c.pre.find? (·.1 = ae)).map (·.2)

/-- the sidecar lookup before the sidecar's own name was tested against the hide list.
    Kept for `Props.sidecar_honours_hide_old_code_fails`. -/
def findSidecarOld (fs : FS) (c : Cfg) (filename : Bytes) : List Bytes → Traced (Option (Bytes × Nat × Bytes))
  | [] => (none, [])
  | ae :: rest =>
    match sidecarSuffix c ae with
    | none => findSidecarOld fs c filename rest
    | some suf =>
      match fs (filename ++ suf) with
      | .file id => (some (filename ++ suf, id, ae), [filename ++ suf, filename ++ suf])
      | _ => withTrace (filename ++ suf) (findSidecarOld fs c filename rest)

/-- "check for precompressed files": the first accepted encoding with a configured precompressor
    whose sidecar `filename + suffix` is not hidden, can be stat'ed and is not a directory -/
def findSidecar (fs : FS) (c : Cfg) (filename : Bytes) : List Bytes → Traced (Option (Bytes × Nat × Bytes))
  | [] => (none, [])
  | ae :: rest =>
    match sidecarSuffix c ae with
    | none => findSidecar fs c filename rest
    | some suf =>
      if c.hidden (filename ++ suf) then findSidecar fs c filename rest
      else
        match fs (filename ++ suf) with
        | .file id => (some (filename ++ suf, id, ae), [filename ++ suf, filename ++ suf])
        | _ => withTrace (filename ++ suf) (findSidecar fs c filename rest)

/-- the etag-file lookup before the etag file's own name was tested against the hide list.
    Kept for `Props.etag_honours_hide_old_code_fails`. -/
def findEtagOld (fs : FS) (name : Bytes) : List Bytes → Traced (Option (Option (Bytes × Nat)))
  | [] => (some none, [])
  | ext :: rest =>
    match fs (name ++ ext) with
    | .missing => withTrace (name ++ ext) (findEtagOld fs name rest)
    | .file id => (some (some (name ++ ext, id)), [name ++ ext])
    | _ => (none, [name ++ ext])

/-- `getEtagFromFile(fileSystem, name, filesToHide)`: the first of `name + ext` that is not hidden
    and can be read; `none` = a read error other than "does not exist" (ServeHTTP returns it:
    500); `some none` = no etag file -/
def findEtag (fs : FS) (c : Cfg) (name : Bytes) : List Bytes → Traced (Option (Option (Bytes × Nat)))
  | [] => (some none, [])
  | ext :: rest =>
    if c.hidden (name ++ ext) then findEtag fs c name rest
    else
      match fs (name ++ ext) with
      | .missing => withTrace (name ++ ext) (findEtag fs c name rest)
      | .file id => (some (some (name ++ ext, id)), [name ++ ext])
      | _ => (none, [name ++ ext])

/-- "try to get the etag from pre computed files if an etag suffix list was provided" -/
def withEtagOf (fs : FS) (c : Cfg) (name : Bytes) (o : Outcome) : Traced Outcome :=
  match findEtag fs c name c.etagExt with
  | (none, t) => (.serverError, t)
  | (some none, t) => (o, t)
  | (some (some (n, id)), t) => (.withEtag o n id, t)

/-- sidecar or the file itself, then the etag file of whichever was opened -/
def serveContent (fs : FS) (c : Cfg) (filename : Bytes) : Traced Outcome :=
  match findSidecar fs c filename c.accepted with
  | (some (p, id, ae), t) => appendTrace t (withEtagOf fs c p (.sidecar p id ae))
  | (none, t) =>
    appendTrace t <|
      match openAndServe fs c filename with
      | (.file f id, t2) => appendTrace t2 (withEtagOf fs c f (.file f id))
      | r => r

/-- hidden check, canonical-URI redirect, open (everything after the directory branch) -/
def serveFile (fs : FS) (c : Cfg) (filename : Bytes) (implicitIndex : Bool) (path orig : Bytes) : Traced Outcome :=
  if c.hidden filename then (notFoundOut c, [])
  else if c.canonical && sameBase orig path && implicitIndex && !endsWithSlash orig then
    (.redirect (locationOf c path orig (orig ++ [slash])), [])
  else if c.canonical && sameBase orig path && !implicitIndex && endsWithSlash orig then
    (.redirect (locationOf c path orig orig.dropLast), [])
  else serveContent fs c filename

/-- directory or file? -/
def serveNode (fs : FS) (c : Cfg) (filename : Bytes) (info : Node) (implicitIndex : Bool)
    (path orig : Bytes) : Traced Outcome :=
  match info with
  | .dir es =>
    if c.browse && !c.hidden filename then serveBrowse c filename es path orig
    else (notFoundOut c, [])
  | _ => serveFile fs c filename implicitIndex path orig


/-- after a successful first stat -/
def serveStatOk (fs : FS) (c : Cfg) (filename : Bytes) (info : Node) (path orig : Bytes) : Traced Outcome :=
  if info.isDirB && c.index ≠ [] then
    match findIndex fs c filename c.index with
    | (some (ip, inode), t) => appendTrace t (serveNode fs c ip inode true path orig)
    | (none, t) => appendTrace t (serveNode fs c filename info false path orig)
  else serveNode fs c filename info false path orig

/-- `FileServer.ServeHTTP`: `path` = `r.URL.Path`, `orig` = the original request's path -/
def serve (fs : FS) (c : Cfg) (path orig : Bytes) : Traced Outcome :=
  withTrace (requestFile c path) <|
    match fs (requestFile c path) with
    | .file id => serveStatOk fs c (requestFile c path) (.file id) path orig
    | .dir es => serveStatOk fs c (requestFile c path) (.dir es) path orig
    | e =>
      match mapDirOpenError fs e (requestFile c path) with
      | (.missing, t) => (notFoundOut c, t)
      | (.invalid, t) => (notFoundOut c, t)
      | (.perm, t) => (.forbidden, t)
      | (_, t) => (.serverError, t)

/-! ### MatchFile.selectFile -/

/-- `globSafeRepl`: `*`, `[`, `?` from a placeholder value get a backslash -/
def globSafe : Bytes → Bytes
  | [] => []
  | c :: cs => if c = 42 ∨ c = 91 ∨ c = 63 then 92 :: c :: globSafe cs else c :: globSafe cs

/-- a `try_files` entry: literal prefix, optionally `{http.request.uri.path}`, literal suffix -/
structure TryFile where
  pre : Bytes
  usePath : Bool
  suf : Bytes
  splits : List Bytes   -- the matcher's `split_path` (the same list in every entry of one matcher)
deriving Repr

def TryFile.raw (t : TryFile) : Bytes := t.pre ++ (if t.usePath then str "{http.request.uri.path}" else []) ++ t.suf

def TryFile.expand (t : TryFile) (path : Bytes) : Bytes :=
  t.pre ++ (if t.usePath then globSafe path else []) ++ t.suf

def asciiLower (c : UInt8) : UInt8 := if 65 ≤ c ∧ c ≤ 90 then c + 32 else c

/-- `strings.EqualFold(a, needle)` for an ASCII `needle` and `a` of the same byte length -/
def eqFoldAscii (a needle : Bytes) : Bool := a.map asciiLower == needle.map asciiLower

/-- `indexFold(haystack, needle)`: note the loop condition `i+nlen < len(haystack)` — a needle
    at the very end of the haystack is not found -/
def indexFold (needle : Bytes) : Bytes → Option Nat
  | [] => none
  | c :: cs =>
    if needle.length < (c :: cs).length ∧ eqFoldAscii ((c :: cs).take needle.length) needle then some 0
    else (indexFold needle cs).map (· + 1)

/-- `firstSplit(path)`'s first result: the path up to and including the first usable split -/
def firstSplit (p : Bytes) : List Bytes → Bytes
  | [] => p
  | sp :: rest =>
    match indexFold sp p with
    | some idx =>
      if idx + sp.length ≠ p.length ∧ (p.drop (idx + sp.length)).head? ≠ some slash then firstSplit p rest
      else p.take (idx + sp.length)
    | none => firstSplit p rest

/-- `beforeSplit` (+ restored trailing slash) -/
def candidateRel (t : TryFile) (path : Bytes) : Bytes :=
  if endsWithSlash t.raw then firstSplit (pathClean (t.expand path)) t.splits ++ [slash]
  else firstSplit (pathClean (t.expand path)) t.splits

/-- `fullPattern` -/
def candidatePattern (rootC : Bytes) (t : TryFile) (path : Bytes) : Bytes :=
  sanitizedPathJoin rootC (candidateRel t path)

def hasMeta (p : Bytes) : Bool := p.any fun c => c = 42 ∨ c = 63 ∨ c = 91 ∨ c = 92

def cleanGlobPath (d : Bytes) : Bytes := if d = [] then dotB else d.dropLast

/-- the loop of `fs.glob` over the sorted entries; `none` = `path.Match` reported an error -/
def globEntries (d pat : Bytes) : List Entry → List Bytes → Option (List Bytes)
  | [], acc => some acc
  | e :: es, acc =>
    match globMatch pat e.name with
    | none => none
    | some true => globEntries d pat es (acc ++ [pathJoin2 d e.name])
    | some false => globEntries d pat es acc

/-- `fs.glob(fs, dir, pattern, matches)` -/
def globDir (fs : FS) (d pat : Bytes) (acc : List Bytes) : Traced (Option (List Bytes)) :=
  match fs d with
  | .dir es => (globEntries d pat es acc, [d])
  | _ => (some acc, [d])

def globDirs (fs : FS) (pat : Bytes) : List Bytes → List Bytes → Traced (Option (List Bytes))
  | [], acc => (some acc, [])
  | d :: ds, acc =>
    match globDir fs d pat acc with
    | (some acc', t) => appendTrace t (globDirs fs pat ds acc')
    | (none, t) => (none, t)

/-- `fs.Glob(fs, pattern)`; `none` = error (caddy then has no candidates) -/
def fsGlob (fs : FS) : Nat → Bytes → Traced (Option (List Bytes))
  | 0, _ => (none, [])
  | fuel + 1, pattern =>
    if globMatch pattern [] = none then (none, [])
    else if !hasMeta pattern then
      (if (fs pattern).isErr then some [] else some [pattern], [pattern])
    else if !hasMeta (cleanGlobPath (pathSplit pattern).1) then
      globDir fs (cleanGlobPath (pathSplit pattern).1) (pathSplit pattern).2 []
    else if cleanGlobPath (pathSplit pattern).1 = pattern then (none, [])
    else
      match fsGlob fs fuel (cleanGlobPath (pathSplit pattern).1) with
      | (some m, t) => appendTrace t (globDirs fs (pathSplit pattern).2 m [])
      | (none, t) => (none, t)

inductive MatchRes where
  | noMatch
  | matched (abs rel : Bytes) (isDir : Bool)
deriving DecidableEq, Repr

/-- `strings.TrimPrefix` -/
def trimPrefix (pre s : Bytes) : Bytes := if pre.isPrefixOf s then s.drop pre.length else s

/-- `strictFileExists` over the candidates of one pattern -/
def firstExisting (fs : FS) (rootC : Bytes) : List Bytes → Traced MatchRes
  | [] => (.noMatch, [])
  | c :: cs =>
    withTrace c <|
      match fs c with
      | .file _ => if endsWithSlash c then firstExisting fs rootC cs else (.matched c (trimPrefix rootC c) false, [])
      | .dir _ => if endsWithSlash c then (.matched c (trimPrefix rootC c) true, []) else firstExisting fs rootC cs
      | _ => firstExisting fs rootC cs

def globFuel (p : Bytes) : Nat := p.length + 2

/-- the `first_exist` loop; `fallbackLast`: policy `first_exist_fallback` -/
def tryLoop (fs : FS) (rootC path : Bytes) (fallback : Bool) : List TryFile → Traced MatchRes
  | [] => (.noMatch, [])
  | t :: ts =>
    match fsGlob fs (globFuel (candidatePattern rootC t path)) (candidatePattern rootC t path) with
    | (some (c :: cs), tr) =>
      if fallback && ts.isEmpty then (.matched c (trimPrefix rootC c) false, tr)
      else
        match firstExisting fs rootC (c :: cs) with
        | (.noMatch, tr2) => appendTrace (tr ++ tr2) (tryLoop fs rootC path fallback ts)
        | (r, tr2) => (r, tr ++ tr2)
    | (_, tr) => appendTrace tr (tryLoop fs rootC path fallback ts)

/-! ### the scanning policies: largest_size, smallest_size, most_recently_modified -/

inductive ScanPolicy where
  | largest | smallest | recent
deriving DecidableEq, Repr

def digits : Nat → Nat → Nat
  | 0, _ => 1
  | fuel + 1, n => if n < 10 then 1 else 1 + digits fuel (n / 10)

/-- `info.Size()` as the harness' filesystem reports it: the marker `FILE:<id>:END\n` of a file, 0
    for a directory -/
def nodeSize : Node → Nat
  | .file id => 10 + digits id id
  | _ => 0

/-- `info.ModTime()` in seconds after the filesystem's epoch: the file id; 0 for a directory -/
def nodeTime : Node → Nat
  | .file id => id
  | _ => 0

/-- the loop body of the three policies; `best = (candidate, isDir, key)`:
      largest   `err == nil && info.Size() > largestSize`                       (largestSize starts at 0)
      smallest  `err == nil && (smallestSize == 0 || info.Size() < smallestSize)`
      recent    `err == nil && (recentInfo == nil || info.ModTime().After(recentInfo.ModTime()))` -/
def scanStep (pol : ScanPolicy) (best : Option (Bytes × Bool × Nat)) (c : Bytes) (n : Node) : Option (Bytes × Bool × Nat) :=
  if n.isErr then best
  else match pol, best with
    | .largest, none => if nodeSize n > 0 then some (c, n.isDirB, nodeSize n) else none
    | .largest, some (b, d, k) => if nodeSize n > k then some (c, n.isDirB, nodeSize n) else some (b, d, k)
    | .smallest, none => some (c, n.isDirB, nodeSize n)
    | .smallest, some (b, d, k) => if k = 0 ∨ nodeSize n < k then some (c, n.isDirB, nodeSize n) else some (b, d, k)
    | .recent, none => some (c, n.isDirB, nodeTime n)
    | .recent, some (b, d, k) => if nodeTime n > k then some (c, n.isDirB, nodeTime n) else some (b, d, k)

def scanCandidates (fs : FS) (pol : ScanPolicy) : List Bytes → Option (Bytes × Bool × Nat) → Traced (Option (Bytes × Bool × Nat))
  | [], best => (best, [])
  | c :: cs, best => withTrace c (scanCandidates fs pol cs (scanStep pol best c (fs c)))

def scanLoop (fs : FS) (rootC path : Bytes) (pol : ScanPolicy) : List TryFile → Option (Bytes × Bool × Nat) → Traced (Option (Bytes × Bool × Nat))
  | [], best => (best, [])
  | t :: ts, best =>
    match fsGlob fs (globFuel (candidatePattern rootC t path)) (candidatePattern rootC t path) with
    | (some cs, tr) =>
      match scanCandidates fs pol cs best with
      | (best', tr2) => appendTrace (tr ++ tr2) (scanLoop fs rootC path pol ts best')
    | (none, tr) => appendTrace tr (scanLoop fs rootC path pol ts best)

/-- `MatchFile.selectFile` with one of the scanning policies -/
def matchFileScan (fs : FS) (root : Bytes) (tries : List TryFile) (pol : ScanPolicy) (path : Bytes) : Traced MatchRes :=
  match scanLoop fs (pathClean (rootOrDot root)) path pol tries none with
  | (some (c, d, _), tr) => (.matched c (trimPrefix (pathClean (rootOrDot root)) c) d, tr)
  | (none, tr) => (.noMatch, tr)

/-- `MatchFile.selectFile`: `root` after placeholder expansion (`""` → `"."`) -/
def matchFile (fs : FS) (root : Bytes) (tries : List TryFile) (fallback : Bool) (path : Bytes) : Traced MatchRes :=
  tryLoop fs (pathClean (rootOrDot root)) path fallback tries

end CaddyModel.C07
