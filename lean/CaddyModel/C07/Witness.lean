/-
C07 — clauses the unchanged tree violates, with kernel-checked counter-examples.

1. *Listings honour hide rules.*  Full statement: no listing shows an entry whose path matches
   a hide rule.  `directoryListing` calls `fileHidden(entry.Name(), …)` with the bare entry
   name, which `FastAbs` resolves against the *working directory*, not the listed directory —
   so a hide rule that is a path (`/srv/secret.txt`, `./site/.git`, `/srv/*/x`) never hides a
   listing entry, although the same rule does make the file itself 404.
2. *Globs cannot come from the request.*  Full statement: the `try_files` pattern
   `{http.request.uri.path}` can only match the file the request names.  `globSafeRepl`
   escapes `*`, `[`, `?` but not `\`, so the request `/\*` becomes the pattern `/\\*`
   (escaped backslash, live star).
-/
import CaddyModel.C07.Spec

namespace CaddyModel.C07

/-- `/srv` with `a.txt` and `secret.txt` -/
def wFS : FS := fun n =>
  if n = str "/srv" then .dir [⟨str "a.txt", false⟩, ⟨str "secret.txt", false⟩]
  else if n = str "/srv/a.txt" then .file 1
  else if n = str "/srv/secret.txt" then .file 2
  else .missing

/-- root `/srv`, hide `/srv/secret.txt`, browse on -/
def wCfg : Cfg := ⟨str "/w", str "/srv", [str "/srv/secret.txt"], [], true, false, true⟩

/-- the file itself is refused … -/
theorem witness_file_is_hidden : (serve wFS wCfg (str "/secret.txt") (str "/secret.txt")).1 = .notFound := by decide

/-- … but the listing of `/srv` shows it -/
theorem listing_omits_hidden_full_fails :
    ∃ (fs : FS) (c : Cfg) (path orig dir : Bytes) (names : List Bytes) (es : List Entry) (e : Entry),
      (serve fs c path orig).1 = .listing dir names ∧ fs dir = .dir es ∧ e ∈ es ∧
      e.name ∈ names ∧ entryHiddenByPath c dir e = true :=
  ⟨wFS, wCfg, str "/", str "/", str "/srv", [str "a.txt", str "secret.txt"],
    [⟨str "a.txt", false⟩, ⟨str "secret.txt", false⟩], ⟨str "secret.txt", false⟩, by decide⟩

/-- request `/\*`: the escaped pattern still matches a different name -/
theorem glob_from_request_full_fails :
    ∃ (p name : Bytes), name ≠ p ∧ globMatch (globSafe p) name = some true :=
  ⟨[92, 42], [92, 120], by decide⟩

end CaddyModel.C07
