/-
C07 — kernel-checked concrete facts next to the theorems.

1. *The old listing filter.*  Before /repo cfacd08 `directoryListing` called
   `fileHidden(entry.Name(), …)` with the bare entry name only (`listingNamesOld`), which
   `FastAbs` resolves against the working directory — a hide rule that is a path never hid a
   listing entry.  `listing_omits_hidden_full_fails` shows the clause is not vacuous: the old
   filter violates it, the current one (`listingNames`) does not, on the same input.
2. *The residual hypothesis of `Props.listing_omits_hidden` is needed.*  The fixed filter builds
   the entry's path from the request URL; when the listed directory was reached through an index
   name that is itself a directory, URL and directory differ and a path rule is still missed
   (`listing_hypothesis_needed`, replayed on the implementation on every run).
3. *Glob syntax from the request* (a model fact, not a C07 violation: the match stays below the
   root).  `globSafeRepl` escapes `*`, `[`, `?` but not `\`, so the request `/\*` becomes the
   pattern `/\\*` (escaped backslash, live star).
-/
import CaddyModel.C07.Spec

namespace CaddyModel.C07

/-- `/srv` with `a.txt` and `secret.txt` -/
def wFS : FS := fun n =>
  if n = str "/srv" then .dir [⟨str "a.txt", false⟩, ⟨str "secret.txt", false⟩]
  else if n = str "/srv/a.txt" then .file 1
  else if n = str "/srv/secret.txt" then .file 2
  else .missing

/-- root `/srv`, hide `/srv/secret.txt`, browse on -/
def wCfg : Cfg := ⟨str "/w", str "/srv", [str "/srv/secret.txt"], [], true, false, true⟩

/-- the file itself is refused … -/
theorem witness_file_is_hidden : (serve wFS wCfg (str "/secret.txt") (str "/secret.txt")).1 = .notFound := by decide

/-- the OLD filter shows `secret.txt` in the listing of `/srv` although its path is hidden -/
theorem listing_omits_hidden_full_fails :
    ∃ (c : Cfg) (dir : Bytes) (es : List Entry) (e : Entry),
      e ∈ es ∧ showEntry e ∈ listingNamesOld c es ∧ entryHiddenByPath c dir e = true :=
  ⟨wCfg, str "/srv", [⟨str "a.txt", false⟩, ⟨str "secret.txt", false⟩], ⟨str "secret.txt", false⟩, by decide⟩

/-- the current filter omits it -/
theorem witness_listing_now_filtered :
    (serve wFS wCfg (str "/") (str "/")).1 = .listing (str "/srv") [str "a.txt"] := by decide

/-- `/srv/sub` with `a.txt` and `secret.txt` -/
def wFS2 : FS := fun n =>
  if n = str "/srv" then .dir [⟨str "sub", true⟩]
  else if n = str "/srv/sub" then .dir [⟨str "a.txt", false⟩, ⟨str "secret.txt", false⟩]
  else if n = str "/srv/sub/a.txt" then .file 1
  else if n = str "/srv/sub/secret.txt" then .file 2
  else .missing

/-- root `/srv`, index name `sub`, hide `/srv/sub/secret.txt`, browse on -/
def wCfg2 : Cfg := ⟨str "/w", str "/srv", [str "/srv/sub/secret.txt"], [str "sub"], true, false, true⟩

/-- without `dir = requestFile c path` the listing clause fails: `GET /` lists `/srv/sub` (the
    index name is a directory) and shows `secret.txt`, whose path is hidden -/
theorem listing_hypothesis_needed :
    ∃ (fs : FS) (c : Cfg) (path orig dir : Bytes) (names : List Bytes) (es : List Entry) (e : Entry),
      fs [] = .missing ∧ (serve fs c path orig).1 = .listing dir names ∧ fs dir = .dir es ∧ e ∈ es ∧
      Normal e.name ∧ showEntry e ∈ names ∧ entryHiddenByPath c dir e = true ∧ dir ≠ requestFile c path :=
  ⟨wFS2, wCfg2, str "/", str "/", str "/srv/sub", [str "a.txt", str "secret.txt"],
    [⟨str "a.txt", false⟩, ⟨str "secret.txt", false⟩], ⟨str "secret.txt", false⟩, by decide⟩

/-- request `/\*`: the escaped pattern still matches a different name -/
theorem glob_from_request_full_fails :
    ∃ (p name : Bytes), name ≠ p ∧ globMatch (globSafe p) name = some true :=
  ⟨[92, 42], [92, 120], by decide⟩

end CaddyModel.C07
