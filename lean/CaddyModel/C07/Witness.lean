/-
C07 — kernel-checked concrete facts next to the theorems.

1. *The old listing filter.*  Before /repo cfacd08 `directoryListing` called
   `fileHidden(entry.Name(), …)` with the bare entry name only (`listingNamesOld`), which
   `FastAbs` resolves against the working directory — a hide rule that is a path never hid a
   listing entry.  `listing_omits_hidden_full_fails` shows the clause is not vacuous: the old
   filter violates it, the current one (`listingNames`) does not, on the same input.
2. *The filter of cfacd08.*  It built the entry's path from the request URL (`listingNamesUrl`);
   when the listed directory was reached through an index name that is itself a directory, URL
   and directory differ and a path rule was still missed
   (`listing_omits_hidden_old_code_fails`).  The current filter joins the listed directory with
   the entry name.
3. *Glob syntax from the request* (a model fact, not a C07 violation: the match stays below the
   root).  `globSafeRepl` escapes `*`, `[`, `?` but not `\`, so the request `/\*` becomes the
   pattern `/\\*` (escaped backslash, live star).
-/
import CaddyModel.C07.Spec

namespace CaddyModel.C07

/-- `/srv` with `a.txt` and `secret.txt` -/
def wFS : FS := fun n =>
  if n = str "/srv" then .dir [⟨str "a.txt", false⟩, ⟨str "secret.txt", false⟩]
  else if n = str "/srv/a.txt" then .file 1
  else if n = str "/srv/secret.txt" then .file 2
  else .missing

/-- root `/srv`, hide `/srv/secret.txt`, browse on -/
def wCfg : Cfg := ⟨str "/w", str "/srv", [str "/srv/secret.txt"], [], true, false, true, [], [], [], []⟩

/-- the file itself is refused … -/
theorem witness_file_is_hidden : (serve wFS wCfg (str "/secret.txt") (str "/secret.txt")).1 = .notFound := by decide

/-- the OLD filter shows `secret.txt` in the listing of `/srv` although its path is hidden -/
theorem listing_omits_hidden_full_fails :
    ∃ (c : Cfg) (dir : Bytes) (es : List Entry) (e : Entry),
      e ∈ es ∧ showEntry e ∈ listingNamesOld c es ∧ entryHiddenByPath c dir e = true :=
  ⟨wCfg, str "/srv", [⟨str "a.txt", false⟩, ⟨str "secret.txt", false⟩], ⟨str "secret.txt", false⟩, by decide⟩

/-- the current filter omits it -/
theorem witness_listing_now_filtered :
    (serve wFS wCfg (str "/") (str "/")).1 = .listing (str "/srv") [str "a.txt"] := by decide

/-- `/srv/sub` with `a.txt` and `secret.txt` -/
def wFS2 : FS := fun n =>
  if n = str "/srv" then .dir [⟨str "sub", true⟩]
  else if n = str "/srv/sub" then .dir [⟨str "a.txt", false⟩, ⟨str "secret.txt", false⟩]
  else if n = str "/srv/sub/a.txt" then .file 1
  else if n = str "/srv/sub/secret.txt" then .file 2
  else .missing

/-- root `/srv`, index name `sub`, hide `/srv/sub/secret.txt`, browse on -/
def wCfg2 : Cfg := ⟨str "/w", str "/srv", [str "/srv/sub/secret.txt"], [str "sub"], true, false, true, [], [], [], []⟩

/-- the filter of cfacd08 on `GET /`, which lists `/srv/sub` (the index name is a directory):
    it shows `secret.txt`, whose path is hidden -/
theorem listing_omits_hidden_old_code_fails :
    ∃ (c : Cfg) (path dir : Bytes) (es : List Entry) (e : Entry),
      e ∈ es ∧ showEntry e ∈ listingNamesUrl c path es ∧ entryHiddenByPath c dir e = true :=
  ⟨wCfg2, str "/", str "/srv/sub", [⟨str "a.txt", false⟩, ⟨str "secret.txt", false⟩],
    ⟨str "secret.txt", false⟩, by decide⟩

/-- the current filter omits it -/
theorem witness_index_dir_listing_now_filtered :
    (serve wFS2 wCfg2 (str "/") (str "/")).1 = .listing (str "/srv/sub") [str "a.txt"] := by decide

/-- request `/\*`: the escaped pattern still matches a different name -/
theorem glob_from_request_full_fails :
    ∃ (p name : Bytes), name ≠ p ∧ globMatch (globSafe p) name = some true :=
  ⟨[92, 42], [92, 120], by decide⟩

end CaddyModel.C07
