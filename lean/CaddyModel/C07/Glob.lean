/-
C07 — model of Go's `path.Match` (and, on unix, `filepath.Match`, which differs only in not
re-validating the rest of the pattern after a mismatch; the boolean result is the same),
transliterated from go1.24 `path/match.go`: `scanChunk`, `matchChunk`, `getEsc`, the star
loop, and `utf8.DecodeRuneInString` for `?` and character classes.

`globMatch pattern name : Option Bool` — `none` is `ErrBadPattern`.
Loops run on an explicit fuel (pattern length + 1, see `matchFuel`); `GlobFuel.lean` proves that
the result does not depend on the fuel above that budget.
-/
import CaddyModel.Util.Hex

namespace CaddyModel.C07

def slash : UInt8 := 47

/-! ### utf8.DecodeRuneInString -/

def runeError : Nat := 0xFFFD

def contByte (b : Nat) : Bool := 0x80 ≤ b && b ≤ 0xBF

/-- second-byte accept range of a multi-byte lead byte -/
def acceptLo (p0 : Nat) : Nat := if p0 = 0xE0 then 0xA0 else if p0 = 0xF0 then 0x90 else 0x80
def acceptHi (p0 : Nat) : Nat := if p0 = 0xED then 0x9F else if p0 = 0xF4 then 0x8F else 0xBF

/-- `(rune, size)`; size 0 only for the empty string -/
def decodeRune (s : Bytes) : Nat × Nat :=
  match s with
  | [] => (runeError, 0)
  | b0 :: rest =>
    if b0.toNat < 0x80 then (b0.toNat, 1)
    else if b0.toNat < 0xC2 ∨ 0xF4 < b0.toNat then (runeError, 1)
    else
      match rest with
      | [] => (runeError, 1)
      | b1 :: rest1 =>
        if b1.toNat < acceptLo b0.toNat ∨ acceptHi b0.toNat < b1.toNat then (runeError, 1)
        else if b0.toNat < 0xE0 then ((b0.toNat % 32) * 64 + b1.toNat % 64, 2)
        else
          match rest1 with
          | [] => (runeError, 1)
          | b2 :: rest2 =>
            if !contByte b2.toNat then (runeError, 1)
            else if b0.toNat < 0xF0 then ((b0.toNat % 16) * 4096 + (b1.toNat % 64) * 64 + b2.toNat % 64, 3)
            else
              match rest2 with
              | [] => (runeError, 1)
              | b3 :: _ =>
                if !contByte b3.toNat then (runeError, 1)
                else ((b0.toNat % 8) * 262144 + (b1.toNat % 64) * 4096 + (b2.toNat % 64) * 64 + b3.toNat % 64, 4)

/-! ### scanChunk -/

def cStar : UInt8 := 42      -- '*'
def cQuest : UInt8 := 63     -- '?'
def cOpen : UInt8 := 91      -- '['
def cClose : UInt8 := 93     -- ']'
def cEsc : UInt8 := 92       -- '\\'
def cCaret : UInt8 := 94     -- '^'
def cDash : UInt8 := 45      -- '-'

def pair1 (c : UInt8) (r : Bytes × Bytes) : Bytes × Bytes := (c :: r.1, r.2)

/-- the `Scan:` loop: split before the first `*` that is outside a class and not escaped -/
def scanSplit : Bytes → Bool → Bytes × Bytes
  | [], _ => ([], [])
  | [c], inr => if c = cStar ∧ inr = false then ([], [c]) else ([c], [])
  | c :: d :: ds, inr =>
    if c = cEsc then pair1 c (pair1 d (scanSplit ds inr))
    else if c = cOpen then pair1 c (scanSplit (d :: ds) true)
    else if c = cClose then pair1 c (scanSplit (d :: ds) false)
    else if c = cStar ∧ inr = false then ([], c :: d :: ds)
    else pair1 c (scanSplit (d :: ds) inr)

def dropStars : Bytes → Bytes
  | [] => []
  | c :: cs => if c = cStar then dropStars cs else c :: cs

/-- `scanChunk`: (star, chunk, rest) -/
def scanChunk (p : Bytes) : Bool × Bytes × Bytes :=
  (p.head? = some cStar, (scanSplit (dropStars p) false).1, (scanSplit (dropStars p) false).2)

/-! ### getEsc, the class loop, matchChunk -/

/-- `getEsc` after the optional backslash: decode one rune; it must be valid and not the end -/
def getEscBody (body : Bytes) : Option (Nat × Bytes) :=
  if body = [] then none
  else if (decodeRune body).1 = runeError ∧ (decodeRune body).2 = 1 then none
  else if body.drop (decodeRune body).2 = [] then none
  else some ((decodeRune body).1, body.drop (decodeRune body).2)

/-- `getEsc`: `none` = ErrBadPattern, else (rune, rest of chunk) -/
def getEsc (chunk : Bytes) : Option (Nat × Bytes) :=
  match chunk with
  | [] => none
  | c :: ct =>
    if c = cDash ∨ c = cClose then none
    else getEscBody (if c = cEsc then ct else c :: ct)

/-- the `for { … }` range loop of a character class; returns (rest of chunk, match) -/
def classLoop : Nat → Bytes → Nat → Bool → Nat → Option (Bytes × Bool)
  | 0, _, _, _, _ => none
  | fuel + 1, chunk, r, m, nrange =>
    if chunk.head? = some cClose ∧ nrange > 0 then some (chunk.drop 1, m)
    else
      match getEsc chunk with
      | none => none
      | some (lo, c1) =>
        if c1.head? = some cDash then
          match getEsc (c1.drop 1) with
          | none => none
          | some (hi, c2) => classLoop fuel c2 r (m || (decide (lo ≤ r) && decide (r ≤ hi))) (nrange + 1)
        else classLoop fuel c1 r (m || decide (lo = r)) (nrange + 1)

/-- `matchChunk`: `none` = ErrBadPattern, `some none` = no match, `some (some rest)` = ok -/
def matchChunk : Nat → Bytes → Bytes → Bool → Option (Option Bytes)
  | 0, _, _, _ => none
  | fuel + 1, chunk, s, failed0 =>
    match chunk with
    | [] => some (if failed0 then none else some s)
    | c :: ct =>
      let failed := failed0 || s.isEmpty
      if c = cOpen then
        let r := if failed then 0 else (decodeRune s).1
        let s' := if failed then s else s.drop (decodeRune s).2
        let negated := ct.head? = some cCaret
        let ct' := if negated then ct.drop 1 else ct
        match classLoop fuel ct' r false 0 with
        | none => none
        | some (rest, m) => matchChunk fuel rest s' (failed || (m == negated))
      else if c = cQuest then
        if failed then matchChunk fuel ct s true
        else matchChunk fuel ct (s.drop (decodeRune s).2) (s.head? = some slash)
      else if c = cEsc then
        match ct with
        | [] => none
        | c2 :: ct2 =>
          if failed then matchChunk fuel ct2 s true
          else matchChunk fuel ct2 (s.drop 1) (s.head? ≠ some c2)
      else
        if failed then matchChunk fuel ct s true
        else matchChunk fuel ct (s.drop 1) (s.head? ≠ some c)

def chunkMatch (chunk s : Bytes) : Option (Option Bytes) := matchChunk (chunk.length + 1) chunk s false

/-! ### Match -/

/-- "check that the remainder of the pattern is syntactically valid" -/
def validateRest : Nat → Bytes → Option Bool
  | 0, _ => none
  | fuel + 1, p =>
    if p = [] then some false
    else
      match chunkMatch (scanChunk p).2.1 [] with
      | none => none
      | some _ => validateRest fuel (scanChunk p).2.2

/-- "Look for match skipping i+1 bytes. Cannot skip /." — `k` continues with the next chunk -/
def starLoop (chunk : Bytes) (last : Bool) (k : Bytes → Option Bool) (onFail : Option Bool) :
    Bytes → Option Bool
  | [] => onFail
  | c :: name' =>
    if c = slash then onFail
    else
      match chunkMatch chunk name' with
      | none => none
      | some (some t) => if last ∧ t ≠ [] then starLoop chunk last k onFail name' else k t
      | some none => starLoop chunk last k onFail name'

/-- what `Match` does when the chunk did not match at the current position -/
def failPath (star : Bool) (chunk rest name : Bytes) (k : Bytes → Option Bool) (fuel : Nat) : Option Bool :=
  if star then starLoop chunk (rest = []) k (validateRest fuel rest) name else validateRest fuel rest

def matchLoop : Nat → Bytes → Bytes → Option Bool
  | 0, _, _ => none
  | fuel + 1, pattern, name =>
    if pattern = [] then some (name = [])
    else if (scanChunk pattern).1 ∧ (scanChunk pattern).2.1 = [] then some (!name.contains slash)
    else
      match chunkMatch (scanChunk pattern).2.1 name with
      | none => none
      | some (some t) =>
        if t = [] ∨ (scanChunk pattern).2.2 ≠ [] then matchLoop fuel (scanChunk pattern).2.2 t
        else failPath (scanChunk pattern).1 (scanChunk pattern).2.1 (scanChunk pattern).2.2 name
              (matchLoop fuel (scanChunk pattern).2.2) fuel
      | some none =>
        failPath (scanChunk pattern).1 (scanChunk pattern).2.1 (scanChunk pattern).2.2 name
          (matchLoop fuel (scanChunk pattern).2.2) fuel

def matchFuel (pattern : Bytes) : Nat := pattern.length + 1

/-- `path.Match(pattern, name)` -/
def globMatch (pattern name : Bytes) : Option Bool := matchLoop (matchFuel pattern) pattern name

end CaddyModel.C07
