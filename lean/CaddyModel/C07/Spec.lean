/-
C07 — the small vocabulary the property is stated in.

* `Normal c`      a path element a request may contribute: non-empty, not `.`, not `..`, no `/`
* `attach rc l`   the clean path `rc` extended downwards by the elements `l`
* `Under rc p`    `p` is `rc` or lies (lexically) below it, reached through `Normal` elements only
* `UnderS rc p`   the same, allowing one trailing `/` (the code re-adds it in `SanitizedPathJoin`)
* `SlashPrefix f n`  `n` is `f` cut at a `/` boundary (what `mapDirOpenError` stats)
-/
import CaddyModel.C07.Model

namespace CaddyModel.C07

def Normal (c : Bytes) : Prop := c ≠ [] ∧ c ≠ dotB ∧ c ≠ dotdot ∧ slash ∉ c

instance (c : Bytes) : Decidable (Normal c) := by unfold Normal; infer_instance

/-- `rc` followed by the elements `l` -/
def attach (rc : Bytes) (l : List Bytes) : Bytes :=
  if l = [] then rc
  else if rc = [slash] then slash :: joinSlash l
  else if rc = dotB then joinSlash l
  else rc ++ slash :: joinSlash l

def Under (rc p : Bytes) : Prop := ∃ l : List Bytes, (∀ c ∈ l, Normal c) ∧ p = attach rc l

def UnderS (rc p : Bytes) : Prop := Under rc p ∨ ∃ q, Under rc q ∧ p = q ++ [slash]

def SlashPrefix (f n : Bytes) : Prop := ∃ k, n = joinSlash ((splitSlash f).take k)

/-- the cleaned site root of a configuration -/
def Cfg.rootC (c : Cfg) : Bytes := pathClean c.rootE

/-- a filesystem without error answers: every name is missing, a file or a directory -/
def NoErrors (fs : FS) : Prop := ∀ n, fs n = .missing ∨ (∃ id, fs n = .file id) ∨ (∃ es, fs n = .dir es)

/-- what the hide rules say about the entry `name` of directory `dir` (its full path) -/
def entryHiddenByPath (c : Cfg) (dir : Bytes) (e : Entry) : Bool := c.hidden (dir ++ slash :: e.name)

end CaddyModel.C07
