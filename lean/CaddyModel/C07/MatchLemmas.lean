/-
C07 — helper lemmas about `MatchFile.selectFile`: candidates are below the root; with a
glob-free candidate pattern the only possible match is the candidate itself.
-/
import CaddyModel.C07.ServeLemmas

namespace CaddyModel.C07

theorem candidatePattern_under (root : Bytes) (t : TryFile) (path : Bytes) :
    UnderS (pathClean (rootOrDot root)) (candidatePattern (pathClean (rootOrDot root)) t path) := by
  unfold candidatePattern
  have := sanitizedPathJoin_under (rootOrDot root) (pathClean (rootOrDot root)) (candidateRel t path) (under_refl _)
  exact this

theorem fsGlob_nometa (fs : FS) (n : Nat) (p : Bytes) (h : hasMeta p = false) :
    (fsGlob fs (n + 1) p).1 = none ∨ (fsGlob fs (n + 1) p).1 = some [] ∨ (fsGlob fs (n + 1) p).1 = some [p] := by
  unfold fsGlob
  split
  · left; rfl
  · simp only [h, Bool.not_false, if_true]
    split
    · right; left; rfl
    · right; right; rfl

theorem firstExisting_matched (fs : FS) (rc : Bytes) : ∀ (cs : List Bytes) (a r : Bytes) (d : Bool),
    (firstExisting fs rc cs).1 = .matched a r d → a ∈ cs := by
  intro cs
  induction cs with
  | nil => intro a r d h; simp [firstExisting] at h
  | cons c rest ih =>
    intro a r d h
    unfold firstExisting at h
    rw [withTrace_fst] at h
    split at h
    · split at h
      · simp [ih a r d h]
      · simp at h; simp [h.1]
    · split at h
      · simp at h; simp [h.1]
      · simp [ih a r d h]
    · simp [ih a r d h]

theorem tryLoop_matched (fs : FS) (rc path : Bytes) (fb : Bool) : ∀ (ts : List TryFile) (a r : Bytes) (d : Bool),
    (∀ t ∈ ts, hasMeta (candidatePattern rc t path) = false) →
    (tryLoop fs rc path fb ts).1 = .matched a r d → ∃ t ∈ ts, a = candidatePattern rc t path := by
  intro ts
  induction ts with
  | nil => intro a r d _ h; simp [tryLoop] at h
  | cons t rest ih =>
    intro a r d hm h
    have ih' := ih a r d (fun t' ht' => hm t' (by simp [ht']))
    have hg := fsGlob_nometa fs ((candidatePattern rc t path).length + 1) (candidatePattern rc t path) (hm t (by simp))
    unfold tryLoop at h
    unfold globFuel at h
    split at h
    · rename_i c cs tr hgl
      have hc : c = candidatePattern rc t path ∧ cs = [] := by
        rw [hgl] at hg
        simp at hg
        exact ⟨hg.1, hg.2⟩
      split at h
      · simp at h
        exact ⟨t, by simp, by rw [← h.1, hc.1]⟩
      · split at h
        · rw [appendTrace_fst] at h
          obtain ⟨t', ht', e⟩ := ih' h
          exact ⟨t', by simp [ht'], e⟩
        · rename_i r2 tr2 hne hfe
          simp at h
          have : (firstExisting fs rc (c :: cs)).1 = .matched a r d := by rw [hfe]; exact h
          have hmem := firstExisting_matched fs rc _ a r d this
          rw [hc.2] at hmem
          simp at hmem
          exact ⟨t, by simp, by rw [hmem, hc.1]⟩
    · rw [appendTrace_fst] at h
      obtain ⟨t', ht', e⟩ := ih' h
      exact ⟨t', by simp [ht'], e⟩

/-! ### the scanning policies -/

theorem scanStep_cases (pol : ScanPolicy) (best : Option (Bytes × Bool × Nat)) (c : Bytes) (n : Node) :
    scanStep pol best c n = best ∨ ∃ d k, scanStep pol best c n = some (c, d, k) := by
  unfold scanStep
  split
  · left; rfl
  · split
    · split
      · right; exact ⟨_, _, rfl⟩
      · left; rfl
    · split
      · right; exact ⟨_, _, rfl⟩
      · left; rfl
    · right; exact ⟨_, _, rfl⟩
    · split
      · right; exact ⟨_, _, rfl⟩
      · left; rfl
    · right; exact ⟨_, _, rfl⟩
    · split
      · right; exact ⟨_, _, rfl⟩
      · left; rfl

theorem scanCandidates_mem (fs : FS) (pol : ScanPolicy) : ∀ (cs : List Bytes) (best : Option (Bytes × Bool × Nat)) (a : Bytes) (d : Bool) (k : Nat),
    (scanCandidates fs pol cs best).1 = some (a, d, k) → a ∈ cs ∨ ∃ d' k', best = some (a, d', k') := by
  intro cs
  induction cs with
  | nil => intro best a d k h; simp [scanCandidates] at h; exact Or.inr ⟨d, k, h⟩
  | cons c rest ih =>
    intro best a d k h
    unfold scanCandidates at h
    rw [withTrace_fst] at h
    rcases ih _ a d k h with hm | ⟨d', k', hb⟩
    · left; simp [hm]
    · rcases scanStep_cases pol best c (fs c) with e | ⟨d2, k2, e⟩
      · right; rw [e] at hb; exact ⟨d', k', hb⟩
      · rw [e] at hb; simp at hb; left; simp [hb.1]

theorem scanLoop_mem (fs : FS) (rc path : Bytes) (pol : ScanPolicy) : ∀ (ts : List TryFile) (best : Option (Bytes × Bool × Nat)) (a : Bytes) (d : Bool) (k : Nat),
    (∀ t ∈ ts, hasMeta (candidatePattern rc t path) = false) →
    (scanLoop fs rc path pol ts best).1 = some (a, d, k) →
      (∃ t ∈ ts, a = candidatePattern rc t path) ∨ ∃ d' k', best = some (a, d', k') := by
  intro ts
  induction ts with
  | nil => intro best a d k _ h; simp [scanLoop] at h; exact Or.inr ⟨d, k, h⟩
  | cons t rest ih =>
    intro best a d k hm h
    have hg := fsGlob_nometa fs ((candidatePattern rc t path).length + 1) (candidatePattern rc t path) (hm t (by simp))
    unfold scanLoop globFuel at h
    split at h
    · rename_i cs tr hgl
      rw [hgl] at hg
      simp only [appendTrace_fst] at h
      rcases ih _ a d k (fun t' ht' => hm t' (by simp [ht'])) h with ⟨t', ht', e⟩ | ⟨d', k', hb⟩
      · left; exact ⟨t', by simp [ht'], e⟩
      · rcases scanCandidates_mem fs pol cs best a d' k' hb with hmem | hb'
        · left
          refine ⟨t, by simp, ?_⟩
          rcases hg with hg | hg | hg
          · simp at hg
          · simp at hg; rw [hg] at hmem; cases hmem
          · simp at hg; rw [hg] at hmem; simpa using hmem
        · right; exact hb'
    · rw [appendTrace_fst] at h
      rcases ih _ a d k (fun t' ht' => hm t' (by simp [ht'])) h with ⟨t', ht', e⟩ | hb
      · left; exact ⟨t', by simp [ht'], e⟩
      · right; exact hb

end CaddyModel.C07
