/-
C07 — property theorems (kept apart from the helper lemmas).

Statement: for every request path, however encoded or malformed, the file server returns only
the contents or listing of files located under the configured site root, and never the contents
or a listing entry of anything matching a hide rule; every other request ends in not-found (or
is passed on when pass-through is set).  The same containment holds for the file-existence
matcher used by try_files.

All theorems quantify over ALL byte strings (NUL, `\`, `%`, invalid UTF-8 …), all
configurations and all filesystems `fs : Bytes → Node`; nothing is bounded.  Containment is
lexical (`Under`): symlinks, `net/http`'s URL decoding and `http.ServeContent` are outside the
model.  `Witness.lean` holds the concrete counter-examples: the two earlier listing filters, and glob syntax surviving `globSafeRepl`.
-/
import CaddyModel.C07.MatchLemmas
import CaddyModel.C07.ListingLemmas
import CaddyModel.C07.GlobLemmas
import CaddyModel.C07.GlobFuel
import CaddyModel.C07.Pool
import CaddyModel.C07.RedirectLemmas
import CaddyModel.C07.SiteLemmas
import CaddyModel.C07.Witness

namespace CaddyModel.C07

/-! ## SanitizedPathJoin -/

/-- **join_contained.** Whatever the request path is, `SanitizedPathJoin(root, req)` is the
    cleaned root followed by `Normal` elements only (plus possibly one trailing `/`). -/
theorem join_contained (root req : Bytes) : UnderS (pathClean (rootOrDot root)) (sanitizedPathJoin root req) := by
  obtain ⟨l, hl, h | h⟩ := sanitizedPathJoin_shape root req
  · exact Or.inl ⟨l, hl, h⟩
  · exact Or.inr ⟨_, ⟨l, hl, rfl⟩, h⟩

example : sanitizedPathJoin (str "/srv/site/") (str "/a/../../..\\/%2e%2e/\x00/../../etc/passwd/")
    = str "/srv/site/..\\/etc/passwd/" := by decide
example : sanitizedPathJoin (str "") (str "/../../x") = str "x" := by decide

/-- the same, in the familiar prefix form, for a root that is neither `/` nor `.` -/
theorem join_contained_prefix (root req : Bytes)
    (h1 : pathClean (rootOrDot root) ≠ [slash]) (h2 : pathClean (rootOrDot root) ≠ dotB) :
    sanitizedPathJoin root req = pathClean (rootOrDot root) ∨
      (pathClean (rootOrDot root) ++ [slash]) <+: sanitizedPathJoin root req := by
  obtain ⟨l, _, h | h⟩ := sanitizedPathJoin_shape root req <;> rw [h] <;> unfold attach
  · by_cases hl : l = []
    · left; simp [hl]
    · right; simp only [hl, h1, h2, if_false]
      exact ⟨joinSlash l, by simp⟩
  · right
    by_cases hl : l = []
    · simp [hl]
    · simp only [hl, h1, h2, if_false]
      exact ⟨joinSlash l ++ [slash], by simp⟩

example : pathClean (rootOrDot (str "/srv/site/")) ≠ [slash] ∧ pathClean (rootOrDot (str "/srv/site/")) ≠ dotB := by decide

/-- roots `/` and `.`: the result is absolute, resp. relative -/
theorem join_contained_slash_root (root req : Bytes) (h : pathClean (rootOrDot root) = [slash]) :
    [slash] <+: sanitizedPathJoin root req := by
  obtain ⟨l, _, hs | hs⟩ := sanitizedPathJoin_shape root req <;> rw [hs, h] <;> unfold attach <;>
    by_cases hl : l = [] <;> simp [hl]

example : pathClean (rootOrDot (str "//")) = [slash] := by decide

/-- **join_no_dotdot.** Below a root without `..` elements the result has no `..` element:
    no request can make the joined path step upwards. -/
theorem join_no_dotdot (root req : Bytes) (hroot : dotdot ∉ splitSlash (pathClean (rootOrDot root))) :
    dotdot ∉ splitSlash (sanitizedPathJoin root req) := by
  have key : ∀ l : List Bytes, (∀ c ∈ l, Normal c) → dotdot ∉ splitSlash (attach (pathClean (rootOrDot root)) l) := by
    intro l hl
    have hn : dotdot ∉ l := fun hm => (hl _ hm).2.2.1 rfl
    unfold attach
    by_cases hnil : l = []
    · simp [hnil]; exact hroot
    · have hsp := splitSlash_join l hnil (fun c hc => (hl c hc).2.2.2)
      simp only [hnil, if_false]
      split
      · have := splitSlash_append [] (joinSlash l)
        simp only [List.nil_append] at this
        rw [this, hsp]
        simp [splitSlash]; exact ⟨by decide, hn⟩
      split
      · rw [hsp]; exact hn
      · rw [splitSlash_append, hsp]
        simp; exact ⟨hroot, hn⟩
  obtain ⟨l, hl, h | h⟩ := sanitizedPathJoin_shape root req
  · rw [h]; exact key l hl
  · rw [h]
    have := splitSlash_append (attach (pathClean (rootOrDot root)) l) []
    rw [this]
    simp [splitSlash]
    exact ⟨key l hl, by decide⟩

example : dotdot ∉ splitSlash (pathClean (rootOrDot (str "/srv/x/../site"))) := by decide

/-- the `filepath.IsLocal` rejection inside `SanitizedPathJoin` is dead code on unix: the
    cleaned request is always local -/
theorem isLocal_rejection_never_fires (req : Bytes) : rejectedAsNonLocal req = false := never_rejected req

example : relOf (str "/../..//a/./../b") = str "b" := by decide

/-! ## FileServer.ServeHTTP -/

/-- **served_path_under_root.** If the handler answers with the bytes of a file, that file was
    opened under a name below the site root, the name is not hidden, and the bytes are those the
    filesystem holds for exactly that name.  (`fs [] = .missing`: the empty name does not exist,
    as on POSIX.) -/
theorem served_path_under_root (fs : FS) (c : Cfg) (path orig p : Bytes) (id : Nat) (hfs : fs [] = .missing)
    (h : (serve fs c path orig).1 = .file p id) :
    UnderS c.rootC p ∧ c.hidden p = false ∧ fs p = .file id := by
  have := serve_justified fs c path orig hfs
  rw [h] at this
  exact this

/-- a directory listing is the listing of a non-hidden directory below the site root, and its
    names are the directory's entries filtered by `listingNames` -/
theorem listed_dir_under_root (fs : FS) (c : Cfg) (path orig p : Bytes) (ns : List Bytes) (hfs : fs [] = .missing)
    (h : (serve fs c path orig).1 = .listing p ns) :
    UnderS c.rootC p ∧ c.hidden p = false ∧ ∃ es, fs p = .dir es ∧ ns = listingNames c p es := by
  have := serve_justified fs c path orig hfs
  rw [h] at this
  exact this

example : (serve wFS wCfg (str "/a.txt") (str "/a.txt")).1 = .file (str "/srv/a.txt") 1 := by decide
example : (serve wFS wCfg (str "/sub/..\\/../../.././a.txt") (str "/x")).1 = .file (str "/srv/a.txt") 1 := by decide
example : wFS [] = .missing := by decide

/-- **listing_omits_hidden.** Every name a listing shows belongs to an entry of the listed
    directory that is hidden neither as a bare name nor by its path `dir/name` — for every request,
    every index configuration (also when an index name that is itself a directory led to the
    listed directory; the two earlier filters fail there or everywhere, see
    `Witness.listing_omits_hidden_old_code_fails`) and every entry name.  The only hypothesis:
    the empty name does not exist. -/
theorem listing_omits_hidden (fs : FS) (c : Cfg) (path orig dir : Bytes) (names : List Bytes)
    (hfs : fs [] = .missing) (h : (serve fs c path orig).1 = .listing dir names) :
    ∃ es, fs dir = .dir es ∧
      ∀ n ∈ names, ∃ e ∈ es, n = showEntry e ∧ c.hidden e.name = false ∧ entryHiddenByPath c dir e = false := by
  obtain ⟨hu, _, es, hes, hn⟩ := listed_dir_under_root fs c path orig dir names hfs h
  have hne : dir ≠ [] := by
    rcases hu with hu | ⟨q, _, e⟩
    · exact under_ne_nil hu
    · rw [e]; simp
  refine ⟨es, hes, ?_⟩
  intro n hmem
  rw [hn] at hmem
  simp only [listingNames, List.mem_map, List.mem_filter] at hmem
  obtain ⟨e, ⟨he, hh⟩, rfl⟩ := hmem
  simp only [Bool.not_eq_true', Bool.or_eq_false_iff] at hh
  refine ⟨e, he, rfl, hh.1, ?_⟩
  unfold entryHiddenByPath
  rw [← entry_hidden_eq c dir e.name hne]
  exact hh.2

/-- … and conversely the listing is *exactly* the entries hidden neither way (nothing else is
    dropped) -/
theorem listing_is_exactly_the_unhidden_entries (fs : FS) (c : Cfg) (path orig dir : Bytes) (names : List Bytes)
    (hfs : fs [] = .missing) (h : (serve fs c path orig).1 = .listing dir names) :
    ∃ es, fs dir = .dir es ∧
      names = (es.filter fun e => !(c.hidden e.name || entryHiddenByPath c dir e)).map showEntry := by
  obtain ⟨hu, _, es, hes, hn⟩ := listed_dir_under_root fs c path orig dir names hfs h
  have hne : dir ≠ [] := by
    rcases hu with hu | ⟨q, _, e⟩
    · exact under_ne_nil hu
    · rw [e]; simp
  refine ⟨es, hes, ?_⟩
  rw [hn, listingNames]
  congr 1
  apply List.filter_congr
  intro e _
  unfold entryHiddenByPath
  rw [entry_hidden_eq c dir e.name hne]

-- a path rule and a component rule both filter the listing
example : (serve wFS wCfg (str "/") (str "/")).1 = .listing (str "/srv") [str "a.txt"] := by decide
example : (serve wFS { wCfg with hide := [str "secret.txt"] } (str "//./x/..") (str "/")).1
    = .listing (str "/srv") [str "a.txt"] := by decide
-- also when the listed directory was reached through an index name that is a directory
example : (serve wFS2 wCfg2 (str "/") (str "/")).1 = .listing (str "/srv/sub") [str "a.txt"] := by decide
example : entryHiddenByPath wCfg (str "/srv") ⟨str "secret.txt", false⟩ = true := by decide

/-- **otherwise_not_found_or_passthru.** On a filesystem that answers every name with "missing",
    a file or a directory, a request ends in exactly one of: the bytes of a non-hidden file below
    the root (or of its precompressed sidecar, see `sidecar_only_for_servable_file`), the listing
    of a non-hidden directory below the root, the canonical-URI redirect, or — every other
    request — 404 when pass-thru is off and the next handler when it is on.  (With
    `etag_file_extensions`: such a file or sidecar with the Etag of its etag file, see
    `etag_only_from_the_served_files_etag_file`, or 500 when an etag file exists but cannot be read.) -/
theorem otherwise_not_found_or_passthru (fs : FS) (c : Cfg) (path orig : Bytes) (hfs : fs [] = .missing)
    (hne : NoErrors fs) :
    (∃ p id, (serve fs c path orig).1 = .file p id ∧ UnderS c.rootC p ∧ c.hidden p = false ∧ fs p = .file id) ∨
    (∃ p id enc, (serve fs c path orig).1 = .sidecar p id enc) ∨
    (∃ o n id, (serve fs c path orig).1 = .withEtag o n id) ∨
    ((serve fs c path orig).1 = .serverError ∧ c.etagExt ≠ []) ∨
    (∃ p ns, (serve fs c path orig).1 = .listing p ns ∧ UnderS c.rootC p ∧ c.hidden p = false) ∨
    (∃ l, (serve fs c path orig).1 = .redirect l) ∨
    ((serve fs c path orig).1 = .notFound ∧ c.passThru = false) ∨
    ((serve fs c path orig).1 = .passThru ∧ c.passThru = true) := by
  have hj := serve_justified fs c path orig hfs
  cases ho : (serve fs c path orig).1 with
  | file p id => rw [ho] at hj; exact Or.inl ⟨p, id, rfl, hj⟩
  | sidecar p id enc => exact Or.inr (Or.inl ⟨p, id, enc, rfl⟩)
  | withEtag o n id => exact Or.inr (Or.inr (Or.inl ⟨o, n, id, rfl⟩))
  | listing p ns => rw [ho] at hj; exact Or.inr (Or.inr (Or.inr (Or.inr (Or.inl ⟨p, ns, rfl, hj.1, hj.2.1⟩))))
  | redirect l => exact Or.inr (Or.inr (Or.inr (Or.inr (Or.inr (Or.inl ⟨l, rfl⟩)))))
  | notFound => rw [ho] at hj; exact Or.inr (Or.inr (Or.inr (Or.inr (Or.inr (Or.inr (Or.inl ⟨rfl, hj⟩))))))
  | passThru => rw [ho] at hj; exact Or.inr (Or.inr (Or.inr (Or.inr (Or.inr (Or.inr (Or.inr ⟨rfl, hj⟩))))))
  | forbidden =>
    rw [ho] at hj; obtain ⟨n, hn⟩ := hj
    rcases hne n with h | ⟨_, h⟩ | ⟨_, h⟩ <;> rw [h] at hn <;> cases hn
  | serverError =>
    rw [ho] at hj; obtain ⟨n, hn | ⟨he, _⟩⟩ := hj
    · rcases hne n with h | ⟨_, h⟩ | ⟨_, h⟩ <;> rw [h] at hn <;> cases hn
    · exact Or.inr (Or.inr (Or.inr (Or.inl ⟨rfl, he⟩)))
  | unavailable => rw [ho] at hj; exact absurd hj id

/-- with filesystem errors: 403 only if some name answered "permission", 500 only if some name
    answered with an unclassified error (or an etag file exists and cannot be read), 503 never
    (static filesystem) -/
theorem error_outcomes_come_from_the_filesystem (fs : FS) (c : Cfg) (path orig : Bytes) (hfs : fs [] = .missing) :
    ((serve fs c path orig).1 = .forbidden → ∃ n, fs n = .perm) ∧
    ((serve fs c path orig).1 = .serverError →
      ∃ n, fs n = .other ∨ (c.etagExt ≠ [] ∧ fs n ≠ .missing ∧ ∀ id, fs n ≠ .file id)) ∧
    (serve fs c path orig).1 ≠ .unavailable := by
  have hj := serve_justified fs c path orig hfs
  refine ⟨fun h => by rw [h] at hj; exact hj, fun h => by rw [h] at hj; exact hj, fun h => by rw [h] at hj; exact hj⟩

example : NoErrors wFS := by
  intro n; unfold wFS
  split; · exact Or.inr (Or.inr ⟨_, rfl⟩)
  split; · exact Or.inr (Or.inl ⟨_, rfl⟩)
  split; · exact Or.inr (Or.inl ⟨_, rfl⟩)
  exact Or.inl rfl
example : (serve wFS wCfg (str "/../etc/passwd") (str "/")).1 = .notFound := by decide
example : (serve wFS { wCfg with passThru := true } (str "/secret.txt") (str "/")).1 = .passThru := by decide

/-- **fs_accesses_contained.** Every name the handler hands to the filesystem is the empty name,
    a name below the site root, such a name extended by the suffix of a configured precompressor
    and / or a configured etag extension (`SidecarName`), or a `/`-boundary prefix of the requested file (stat'ed only, by
    `mapDirOpenError`, to turn ENOTDIR into not-found). -/
theorem fs_accesses_contained (fs : FS) (c : Cfg) (path orig : Bytes) (hfs : fs [] = .missing) :
    ∀ n ∈ (serve fs c path orig).2,
      n = [] ∨ UnderS c.rootC n ∨ (∃ f, UnderS c.rootC f ∧ SidecarName c f n) ∨
        SlashPrefix (requestFile c path) n :=
  serve_trace fs c path orig hfs

/-! ## etag files -/

/-- **etag_only_from_the_served_files_etag_file.** When the `Etag` header is taken from a file, that
    file is `name ++ ext` for a configured `etag_file_extensions` entry, where `name` is exactly
    the name under which the served bytes were opened (the file, or its sidecar), the etag file is
    not hidden, and the served outcome itself is justified as without the etag. -/
theorem etag_only_from_the_served_files_etag_file (fs : FS) (c : Cfg) (path orig n : Bytes) (o : Outcome) (id : Nat)
    (hfs : fs [] = .missing) (h : (serve fs c path orig).1 = .withEtag o n id) :
    Justified fs c path o ∧
      ∃ f ext, o.servedName = some f ∧ ext ∈ c.etagExt ∧ n = f ++ ext ∧ fs n = .file id ∧ c.hidden n = false := by
  have := serve_justified fs c path orig hfs
  rw [h] at this
  exact this

/-- **etag_honours_hide.** The content of an etag file that matches a hide rule is never sent. -/
theorem etag_honours_hide (fs : FS) (c : Cfg) (path orig n : Bytes) (o : Outcome) (id : Nat)
    (hfs : fs [] = .missing) (h : (serve fs c path orig).1 = .withEtag o n id) : c.hidden n = false := by
  obtain ⟨_, _, _, _, _, _, _, hh⟩ := etag_only_from_the_served_files_etag_file fs c path orig n o id hfs h
  exact hh

/-- `/srv/a.txt` with its etag file -/
def etFS : FS := fun n =>
  if n = str "/srv" then .dir [⟨str "a.txt", false⟩, ⟨str "a.txt.etag", false⟩]
  else if n = str "/srv/a.txt" then .file 1
  else if n = str "/srv/a.txt.etag" then .file 2
  else .missing

def etCfg : Cfg :=
  { cwd := str "/w", root := str "/srv", hide := [str "*.etag"], index := [], browse := true, passThru := false,
    canonical := true, etagExt := [str ".md5", str ".etag"] }

example : (serve etFS { etCfg with hide := [] } (str "/a.txt") (str "/a.txt")).1
    = .withEtag (.file (str "/srv/a.txt") 1) (str "/srv/a.txt.etag") 2 := by decide

-- hidden by `*.etag`: no etag file is used
example : (serve etFS etCfg (str "/a.txt") (str "/a.txt")).1 = .file (str "/srv/a.txt") 1 := by decide

/-- **etag_honours_hide_old_code_fails.** The lookup as it was (`findEtagOld`): the etag file
    matches the hide rule `*.etag` — requested directly it is 404, it is not listed — and its
    content was still chosen for the `Etag` header of `/a.txt`. -/
theorem etag_honours_hide_old_code_fails :
    etCfg.hidden (str "/srv/a.txt.etag") = true ∧
    (serve etFS etCfg (str "/a.txt.etag") (str "/a.txt.etag")).1 = .notFound ∧
    (serve etFS etCfg (str "/") (str "/")).1 = .listing (str "/srv") [str "a.txt"] ∧
    (findEtagOld etFS (str "/srv/a.txt") etCfg.etagExt).1 = some (some (str "/srv/a.txt.etag", 2)) := by decide

/-! ## precompressed sidecars -/

/-- **sidecar_only_for_servable_file.** A precompressed sidecar is served only in place of a file
    that would itself be served: its name is `f ++ suffix` for a configured precompressor whose
    encoding `AcceptedEncodings` returned, where `f` is below the root, not hidden and an existing
    file; the sidecar itself is not hidden, and the bytes are what the filesystem holds under
    exactly that name. -/
theorem sidecar_only_for_servable_file (fs : FS) (c : Cfg) (path orig p : Bytes) (id : Nat) (enc : Bytes)
    (hfs : fs [] = .missing) (h : (serve fs c path orig).1 = .sidecar p id enc) :
    ∃ f suf, p = f ++ suf ∧ (enc, suf) ∈ c.pre ∧ enc ∈ c.accepted ∧
      UnderS c.rootC f ∧ c.hidden f = false ∧ (∃ id0, fs f = .file id0) ∧ fs p = .file id ∧ c.hidden p = false := by
  have := serve_justified fs c path orig hfs
  rw [h] at this
  exact this

/-- **sidecar_honours_hide.** The bytes of a precompressed sidecar that matches a hide rule are
    never sent. -/
theorem sidecar_honours_hide (fs : FS) (c : Cfg) (path orig p : Bytes) (id : Nat) (enc : Bytes)
    (hfs : fs [] = .missing) (h : (serve fs c path orig).1 = .sidecar p id enc) : c.hidden p = false := by
  obtain ⟨_, _, _, _, _, _, _, _, _, hh⟩ := sidecar_only_for_servable_file fs c path orig p id enc hfs h
  exact hh

/-- without a configured precompressor, or without an accepted encoding, no sidecar is served -/
theorem no_sidecar_unless_negotiated (fs : FS) (c : Cfg) (path orig p : Bytes) (id : Nat) (enc : Bytes)
    (hfs : fs [] = .missing) (h : c.pre = [] ∨ c.accepted = []) : (serve fs c path orig).1 ≠ .sidecar p id enc := by
  intro hs
  obtain ⟨_, suf, _, h1, h2, _⟩ := sidecar_only_for_servable_file fs c path orig p id enc hfs hs
  rcases h with h | h
  · rw [h] at h1; cases h1
  · rw [h] at h2; cases h2

/-- `/srv` with `a.txt` and its gzip sidecar -/
def gzFS : FS := fun n =>
  if n = str "/srv" then .dir [⟨str "a.txt", false⟩, ⟨str "a.txt.gz", false⟩]
  else if n = str "/srv/a.txt" then .file 1
  else if n = str "/srv/a.txt.gz" then .file 2
  else .missing

def gzCfg : Cfg :=
  { cwd := str "/w", root := str "/srv", hide := [str "*.gz"], index := [], browse := true, passThru := false,
    canonical := true, pre := [(str "gzip", str ".gz")], accepted := [str "br", str "gzip"] }

-- not hidden: the sidecar is served
example : (serve gzFS { gzCfg with hide := [] } (str "/a.txt") (str "/a.txt")).1
    = .sidecar (str "/srv/a.txt.gz") 2 (str "gzip") := by decide
-- hidden by `*.gz`: the file itself is served
example : (serve gzFS gzCfg (str "/a.txt") (str "/a.txt")).1 = .file (str "/srv/a.txt") 1 := by decide

/-- **sidecar_honours_hide_old_code_fails.** The lookup as it was (`findSidecarOld`): the sidecar
    matches the hide rule `*.gz` — requested directly it is 404, it is not listed — and it was
    still chosen as what a gzip-accepting client gets for `/a.txt`. -/
theorem sidecar_honours_hide_old_code_fails :
    gzCfg.hidden (str "/srv/a.txt.gz") = true ∧
    (serve gzFS gzCfg (str "/a.txt.gz") (str "/a.txt.gz")).1 = .notFound ∧
    (serve gzFS gzCfg (str "/") (str "/")).1 = .listing (str "/srv") [str "a.txt"] ∧
    (findSidecarOld gzFS gzCfg (str "/srv/a.txt") gzCfg.accepted).1 = some (str "/srv/a.txt.gz", 2, str "gzip") := by decide
example : (serve gzFS { gzCfg with accepted := [] } (str "/a.txt") (str "/a.txt")).1 = .file (str "/srv/a.txt") 1 := by decide

example : (serve wFS wCfg (str "/") (str "/")).2 = [str "/srv", str "/srv"] := by decide

/-! ## MatchFile (try_files) -/

/-- **matcher_candidates_contained.** Every pattern the matcher builds from a `try_files` entry
    and the request path is below the (cleaned) root. -/
theorem matcher_candidates_contained (root : Bytes) (t : TryFile) (path : Bytes) :
    UnderS (pathClean (rootOrDot root)) (candidatePattern (pathClean (rootOrDot root)) t path) :=
  candidatePattern_under root t path

example : candidatePattern (pathClean (rootOrDot (str "/srv/"))) ⟨[], true, str ".html", []⟩ (str "/../../etc/x*")
    = str "/srv/etc/x\\*.html" := by decide

/-- when no candidate pattern contains a glob character, a match is one of the candidates
    themselves — in particular it is below the root -/
theorem matcher_result_contained (fs : FS) (root : Bytes) (tries : List TryFile) (fb : Bool) (path a r : Bytes) (d : Bool)
    (hm : ∀ t ∈ tries, hasMeta (candidatePattern (pathClean (rootOrDot root)) t path) = false)
    (h : (matchFile fs root tries fb path).1 = .matched a r d) :
    UnderS (pathClean (rootOrDot root)) a := by
  obtain ⟨t, _, e⟩ := tryLoop_matched fs _ path fb tries a r d hm h
  rw [e]; exact candidatePattern_under root t path

example : (matchFile wFS (str "/srv") [⟨[], true, [], []⟩] false (str "/x/../a.txt")).1
    = .matched (str "/srv/a.txt") (str "/a.txt") false := by decide

/-- **matcher_scan_result_contained.** The same for the scanning policies (`largest_size`,
    `smallest_size`, `most_recently_modified`) and with any `split_path`: the selected file is one
    of the candidates, hence below the root. -/
theorem matcher_scan_result_contained (fs : FS) (root : Bytes) (tries : List TryFile) (pol : ScanPolicy) (path a r : Bytes) (d : Bool)
    (hm : ∀ t ∈ tries, hasMeta (candidatePattern (pathClean (rootOrDot root)) t path) = false)
    (h : (matchFileScan fs root tries pol path).1 = .matched a r d) :
    UnderS (pathClean (rootOrDot root)) a := by
  unfold matchFileScan at h
  split at h
  · rename_i c d' k tr hs
    simp at h
    have hl : (scanLoop fs (pathClean (rootOrDot root)) path pol tries none).1 = some (c, d', k) := by rw [hs]
    rcases scanLoop_mem fs _ path pol tries none c d' k hm hl with ⟨t, _, e⟩ | ⟨_, _, hb⟩
    · rw [← h.1, e]; exact candidatePattern_under root t path
    · cases hb
  · simp at h

example : (matchFileScan wFS (str "/srv") [⟨str "/secret.txt", false, [], []⟩, ⟨str "/a.txt", false, [], []⟩] .recent (str "/")).1
    = .matched (str "/srv/secret.txt") (str "/secret.txt") false := by decide
-- split_path: `/a.txt/more` is tried as `/a.txt`; a split at the very end of the path is not found
example : candidateRel ⟨[], true, [], [str ".txt"]⟩ (str "/a.txt/more") = str "/a.txt" ∧
    candidateRel ⟨[], true, [], [str ".TXT"]⟩ (str "/x/a.txt") = str "/x/a.txt" := by decide

/-
**glob_from_request** — full statement (violated, see `Witness.glob_from_request_full_fails`):
    globMatch (globSafe p) name = some true → name = p
The containment clause of the property does not depend on it (`matcher_candidates_contained`).
-/

/-- **glob_from_request_partial.** For a request text without a backslash (decidable exclusion),
    the text escaped by `globSafeRepl` is a pattern that matches exactly that text: no `*`, `?`
    or `[…]` of the request is ever live, and the pattern is never malformed. -/
theorem glob_from_request_partial (p name : Bytes) (h : (92 : UInt8) ∉ p) :
    globMatch (globSafe p) name = some (decide (name = p)) := globMatch_globSafe p name h

example : (92 : UInt8) ∉ str "a*b[c-d]?^-]" := by decide
example : globMatch (globSafe (str "a*b[c-d]?")) (str "a*b[c-d]?") = some true := by decide
example : globMatch (globSafe (str "a*")) (str "ab") = some false := by decide
example : globMatch (str "a*") (str "ab") = some true := by decide

/-! ## defaults -/

/-- **default_index_names_match_source.** The index names the examples and the driver use for an
    omitted `index_names` are the literals of `var defaultIndexNames` in staticfiles.go, regenerated
    from the source on every run: if the source changes, this theorem (and whatever depends on
    the two names) is re-examined. -/
theorem default_index_names_match_source : defaultIndexNames = [str "index.html", str "index.txt"] := by decide

example : (serve wFS2 { wCfg2 with index := defaultIndexNames, browse := false } (str "/") (str "/")).1 = .notFound := by decide

/-- **provision_defaults_match_source.** What `FileServer.Provision` and `MatchFile.Provision` put in
    place of empty fields, read off the source on every run: both read the filesystem and the root
    from the SAME request variables (`{http.vars.fs}`, `{http.vars.root}` — what the `fs` and `root`
    directives set), which is what makes `try_files` and `file_server` agree on the root (op `site`
    exercises it dynamically). -/
theorem provision_defaults_match_source :
    CaddyModel.Gen.fileserverProvisionDefaults =
      [("FileServer", "FileSystem", "\"{http.vars.fs}\""), ("FileServer", "Root", "\"{http.vars.root}\""),
       ("FileServer", "IndexNames", "defaultIndexNames"),
       ("MatchFile", "Root", "\"{http.vars.root}\""), ("MatchFile", "FileSystem", "\"{http.vars.fs}\""),
       ("MatchFile", "TryFiles", "[{http.request.uri.path}]")] := by decide

/-- walks the calls of `ServeHTTP` in source order, remembering which variables have been handed
    to `fileHidden`: every `openFile x`, `serveBrowse x` and every `fs.Stat` of a derived name
    (index file, sidecar) needs an earlier `fileHidden x` -/
def guardedCalls : List (String × String) → List String → Bool
  | [], _ => true
  | (f, x) :: rest, seen =>
    if f = "fileHidden" then guardedCalls rest (x :: seen)
    else if f = "fsrv.openFile" ∨ f = "fsrv.serveBrowse" ∨ (f = "fs.Stat" ∧ x ≠ "filename") then
      seen.contains x && guardedCalls rest seen
    else guardedCalls rest seen

/-- **serve_http_hide_checks_precede_opens.** A static second line behind the dynamic checks: in the
    source of `FileServer.ServeHTTP` (regenerated call list) no file is opened, no directory
    listed and no derived name stat'ed without an earlier `fileHidden` on the same variable. -/
theorem serve_http_hide_checks_precede_opens : guardedCalls CaddyModel.Gen.serveHTTPCalls [] = true := by decide

example : guardedCalls [("fs.Stat", "filename"), ("fsrv.openFile", "filename")] [] = false := by decide

/-! ## the canonical-URI redirect -/

/-- **redirect_location_same_origin.** The `Location` of every canonical redirect (trailing slash
    added for a directory or an index file, removed for a file; from `ServeHTTP` and from
    `serveBrowse`) starts with exactly one `/`: whatever the original request path and query are
    (`//evil.example/dir`, bytes `url.Parse` rejects, `#`, `?`, non-ASCII), the client is sent to a
    path on the same origin, never to a scheme-relative `//host` reference.  `some l`: the
    original path is rooted, as every origin-form request target is; `orig ≠ "/"`: removing the
    slash of `/` itself (the site root being a regular file) yields a relative reference that
    depends on the rewritten path — not covered. -/
theorem redirect_location_same_origin (fs : FS) (c : Cfg) (path orig l : Bytes)
    (h : (serve fs c path orig).1 = .redirect (some l)) (hne : orig ≠ [slash]) : SingleSlashStart l := by
  have hshape := serve_redirect fs c path orig (some l) h
  have hroot : isRooted orig = true := by
    cases hr : isRooted orig with
    | true => rfl
    | false => rcases hshape with e | ⟨e, _⟩ <;> simp [locationOf, hr] at e
  obtain ⟨t, rfl⟩ : ∃ t, orig = slash :: t := by
    cases orig with
    | nil => simp [isRooted] at hroot
    | cons a t => simp [isRooted] at hroot; exact ⟨t, by rw [hroot]⟩
  rcases hshape with e | ⟨e, hs⟩
  · simp only [locationOf, hroot, if_true, Option.some.injEq] at e
    rw [e]; exact goRedirect_single _ _ _ (by simp)
  · simp only [locationOf, hroot, if_true, Option.some.injEq] at e
    rw [e]
    apply goRedirect_single
    cases t with
    | nil => exact absurd rfl hne
    | cons a t' => simp [List.dropLast]

-- a directory requested as `//evil.example/sub` (original path), no trailing slash
example : (serve wFS2 { wCfg2 with index := [], query := str "a=//x" } (str "/sub") (str "//evil.example/sub")).1
    = .redirect (some (str "/evil.example/sub/?a=//x")) := by decide
-- bytes `url.Parse` rejects: the target is passed through, minus the doubled slash
example : goRedirect (str "/") (redirectTo (str "//%zz/") []) = str "/%zz/" := by decide
example : stripDoubleSlash (str "////a//b") = str "/a//b" := by decide

/-! ## request sequences: the pooled render buffer -/

/-- **browse_history_independent.** Whatever the process served before — whichever instances,
    roots, hide lists, and however those responses failed to be delivered — and whatever buffer
    the shared pool therefore hands out, every request of a sequence gets exactly the answer it
    gets when served alone: the listing of its own directory under its own hide rules, cut where
    its own client stopped reading. -/
theorem browse_history_independent (render : Bytes → List Bytes → Bytes) (pool : Bytes) (qs : List SeqReq) :
    serveSeq true render pool qs = aloneAnswers render qs :=
  serveSeq_reset render qs pool

/-- in particular a probe request's answer does not depend on the faulted request before it -/
theorem probe_after_fault_unchanged (render : Bytes → List Bytes → Bytes) (pool pool' : Bytes) (a b : SeqReq) :
    (serveSeq true render pool [a, b])[1]? = (serveSeq true render pool' [b])[0]? := by
  rw [browse_history_independent, browse_history_independent]
  simp [aloneAnswers]

/-- a toy renderer for the examples: the names, each followed by `;` -/
def toyRender (_ : Bytes) (ns : List Bytes) : Bytes := (ns.map (· ++ [59])).flatten

/-- instance A shows everything of `/srv`, its client hangs up after 2 bytes; instance B hides
    `secret.txt` -/
def seqA : SeqReq := ⟨wFS, { wCfg with hide := [] }, str "/", str "/", 2⟩
def seqB : SeqReq := ⟨wFS, wCfg, str "/", str "/", 1000⟩

example : serveSeq true toyRender [] [seqA, seqB] = [some (str "a."), some (str "a.txt;")] := by decide
/-- **the `Reset` is what the theorem rests on**: without it B's response carries the rest of A's
    listing — `secret.txt`, which B hides -/
theorem pool_without_reset_leaks :
    serveSeq false toyRender [] [seqA, seqB] = [some (str "a."), some (str "txt;secret.txt;a.txt;")] := by decide

/-! ## the Caddyfile site: root → vars, try_files → matcher → rewrite, file_server + its Caddyfile -/

/-- **site_outcome_justified.** Whatever `try_files` matched and whatever `rewrite` made of the
    matched relative path, the answer of the site is an answer the file server could give for
    SOME path: a non-hidden file / listing below the root, a redirect, 404 / pass-thru … — the
    matcher and the rewrite can change WHICH file is served, never widen what may be served. -/
theorem site_outcome_justified (fs : FS) (c : Cfg) (tries : Option (List TryFile)) (path : Bytes)
    (pol : Option ScanPolicy) (fb : Bool)
    (hfs : fs [] = .missing) : ∃ p', Justified fs c p' (siteServe fs c tries path pol fb).1 := by
  unfold siteServe
  split
  · exact ⟨_, serve_justified fs c path path hfs⟩
  · split
    · rw [appendTrace_fst]; exact ⟨_, serve_justified fs c _ path hfs⟩
    · rw [appendTrace_fst]; exact ⟨_, serve_justified fs c path path hfs⟩

/-- **site_serves_no_hidden_file.** … in particular the bytes the site sends are never those of a
    hidden file or of a file outside the root. -/
theorem site_serves_no_hidden_file (fs : FS) (c : Cfg) (tries : Option (List TryFile)) (path p : Bytes) (id : Nat)
    (pol : Option ScanPolicy) (fb : Bool)
    (hfs : fs [] = .missing) (h : (siteServe fs c tries path pol fb).1 = .file p id) :
    UnderS c.rootC p ∧ c.hidden p = false ∧ fs p = .file id := by
  obtain ⟨_, this⟩ := site_outcome_justified fs c tries path pol fb hfs
  rw [h] at this
  exact this

/-- **caddyfile_entry_hides_it.** The entry `FinalizeUnmarshalCaddyfile` appends for the site's
    Caddyfile hides exactly that file once `Provision` has made it absolute — for a Caddyfile
    name that is a plain name (it gets `./` in front) or contains a separator, and whose absolute
    path has no glob character (the entry is also a pattern). -/
theorem caddyfile_entry_hides_it (cwd f : Bytes) (hide : List Bytes)
    (hf : Normal (pathClean f) ∨ hasSlash (pathClean f) = true)
    (hm : hasMeta (fastAbs cwd (pathClean f)) = false) :
    fileHidden cwd (pathClean f) (transformHide cwd (hide ++ [cfHideEntry (pathClean f)])) = true := by
  have hs : hasSlash (cfHideEntry (pathClean f)) = true := by
    unfold cfHideEntry
    split
    · assumption
    · simp [hasSlash, slash]
  have habs : fastAbs cwd (cfHideEntry (pathClean f)) = fastAbs cwd (pathClean f) := by
    unfold cfHideEntry
    split
    · rfl
    · rename_i hns
      rcases hf with hf | hf
      · exact fastAbs_dotSlash cwd _ hf
      · exact absurd hf hns
  have hmem : fastAbs cwd (pathClean f) ∈ transformHide cwd (hide ++ [cfHideEntry (pathClean f)]) := by
    simp only [transformHide, List.map_append, List.map_cons, List.map_nil, hs, if_true, habs]
    simp
  have hne : transformHide cwd (hide ++ [cfHideEntry (pathClean f)]) ≠ [] := by
    intro e; rw [e] at hmem; cases hmem
  unfold fileHidden
  rw [if_neg hne, List.any_eq_true]
  refine ⟨_, hmem, ?_⟩
  unfold hiddenBy fmatch
  rw [globMatch_self _ hm]
  simp

/-- the hide list of a site: either the Caddyfile was already hidden by the list as written, or
    the entry of `caddyfile_entry_hides_it` is in it -/
theorem siteHide_cases (cwd f : Bytes) (hide : List Bytes) :
    (fileHidden cwd (pathClean f) hide = true ∧ siteHide cwd hide (some f) = hide) ∨
    siteHide cwd hide (some f) = hide ++ [cfHideEntry (pathClean f)] := by
  simp only [siteHide]
  split
  · left; exact ⟨by assumption, rfl⟩
  · right; rfl

/-- **rewrite_target_plain.** For a matched relative path without `%` and `?` the rewrite hands the
    file server exactly that path (otherwise `url.PathUnescape` / the query cut change it — the
    file server then decides about the changed path, see `site_outcome_justified`). -/
theorem rewrite_target_plain (rel : Bytes) (h1 : (37 : UInt8) ∉ rel) (h2 : (63 : UInt8) ∉ rel) : rewriteTarget rel = rel := by
  unfold rewriteTarget
  rw [cutAt_none 63 rel h2]
  simp only [validEsc_noPercent rel h1, if_true]
  exact unescapeAll_noPercent rel h1

-- `try_files {path} /index.html` on the site of `wFS`: `/nope` is rewritten to `/a.txt`-style targets
example : (siteServe wFS { wCfg with hide := siteHide (str "/w") [] (some (str "/srv/a.txt")) }
    (some [⟨[], true, [], []⟩]) (str "/a.txt")).1 = .notFound := by decide
example : (siteServe wFS wCfg (some [⟨[], true, [], []⟩, ⟨str "/a.txt", false, [], []⟩]) (str "/nope")).1
    = .file (str "/srv/a.txt") 1 := by decide
example : rewriteTarget (str "/a%41?x") = str "/aA" := by decide
example : siteHide (str "/w") [str "*.txt"] (some (str "Caddyfile")) = [str "*.txt", str "./Caddyfile"] := by decide
example : Normal (pathClean (str "Caddyfile")) ∧ hasMeta (fastAbs (str "/w") (pathClean (str "Caddyfile"))) = false := by decide

/-! ## several file servers on one request (pass_thru overlays, handle_errors) -/

/-- the answer of a pass_thru chain is the answer one of its handlers gives ALONE (or every
    handler passed the request on) -/
theorem chainServe_outcome (fs : FS) (path : Bytes) : ∀ (cs : List Cfg),
    (chainServe fs cs path).1 = .passThru ∨ ∃ c ∈ cs, (serve fs c path path).1 = (chainServe fs cs path).1 := by
  intro cs
  induction cs with
  | nil => left; rfl
  | cons c rest ih =>
    unfold chainServe
    split
    · rename_i t hs
      rw [appendTrace_fst]
      rcases ih with h | ⟨c', hc', e⟩
      · left; exact h
      · right; exact ⟨c', by simp [hc'], e⟩
    · right; exact ⟨c, by simp, rfl⟩

/-- **chain_serves_by_the_serving_handlers_own_rules.** Through any number of `file_server`
    handlers on one request (an overlay of roots joined by pass_thru), the bytes of a file are sent
    only by a handler below whose OWN root the file lies and whose OWN hide list does not hide it —
    whatever handlers ran before on the same request, with whatever roots and hide lists; the
    answer is exactly what that handler gives when it is the only one. -/
theorem chain_serves_by_the_serving_handlers_own_rules (fs : FS) (cs : List Cfg) (path p : Bytes) (id : Nat)
    (hfs : fs [] = .missing) (h : (chainServe fs cs path).1 = .file p id) :
    ∃ c ∈ cs, (serve fs c path path).1 = .file p id ∧ UnderS c.rootC p ∧ c.hidden p = false ∧ fs p = .file id := by
  rcases chainServe_outcome fs path cs with e | ⟨c, hc, e⟩
  · rw [h] at e; cases e
  · rw [h] at e
    exact ⟨c, hc, e, served_path_under_root fs c path path p id hfs e⟩

/-- … and a listing is the listing of a directory that handler may list, filtered by that handler's
    own hide list -/
theorem chain_lists_by_the_serving_handlers_own_rules (fs : FS) (cs : List Cfg) (path p : Bytes) (ns : List Bytes)
    (hfs : fs [] = .missing) (h : (chainServe fs cs path).1 = .listing p ns) :
    ∃ c ∈ cs, UnderS c.rootC p ∧ c.hidden p = false ∧
      ∃ es, fs p = .dir es ∧ ns = (es.filter fun e => !(c.hidden e.name || entryHiddenByPath c p e)).map showEntry := by
  rcases chainServe_outcome fs path cs with e | ⟨c, hc, e⟩
  · rw [h] at e; cases e
  · rw [h] at e
    obtain ⟨hu, hh, _⟩ := listed_dir_under_root fs c path path p ns hfs e
    obtain ⟨es, hes, hn⟩ := listing_is_exactly_the_unhidden_entries fs c path path p ns hfs e
    exact ⟨c, hc, hu, hh, es, hes, hn⟩

/-- the same for a `file_server` inside `handle_errors`: the answer is the answer of the site's
    handler alone or of the error route's handler alone -/
theorem errServe_outcome (fs : FS) (c1 c2 : Cfg) (path : Bytes) :
    (errServe fs c1 c2 path).1 = (serve fs c1 path path).1 ∨ (errServe fs c1 c2 path).1 = (serve fs c2 path path).1 := by
  unfold errServe
  cases h1 : serve fs c1 path path with
  | mk o t =>
    simp only []
    split
    · cases h2 : serve fs c2 path path with
      | mk o2 t2 =>
        simp only []
        split
        · left; rfl
        · right; rfl
    · left; rfl

theorem error_route_serves_by_its_own_rules (fs : FS) (c1 c2 : Cfg) (path p : Bytes) (id : Nat)
    (hfs : fs [] = .missing) (h : (errServe fs c1 c2 path).1 = .file p id) :
    ∃ c, (c = c1 ∨ c = c2) ∧ UnderS c.rootC p ∧ c.hidden p = false ∧ fs p = .file id := by
  rcases errServe_outcome fs c1 c2 path with e | e <;> rw [h] at e
  · exact ⟨c1, Or.inl rfl, served_path_under_root fs c1 path path p id hfs e.symm⟩
  · exact ⟨c2, Or.inr rfl, served_path_under_root fs c2 path path p id hfs e.symm⟩

/-- **fileserver_keeps_no_state_in_request_vars.** A static second line behind op `two`: the only
    write of the fileserver package into the request's variable table (which every handler of the
    request shares) is the matcher's error slot — no hide list, root or other per-handler value is
    parked there under a key that does not name the handler. Regenerated from the source. -/
theorem fileserver_keeps_no_state_in_request_vars :
    CaddyModel.Gen.fileserverVarWrites = [("matcher.go", "Match", "caddyhttp.MatcherErrorVarKey")] := by decide

/-- root A (`/w`, no hide rules, pass_thru) in front of the site of `wCfg` (hide `/srv/secret.txt`) -/
def overlayA : Cfg := { wCfg with root := str "/w", hide := [], passThru := true, browse := false }

example : (chainServe wFS [overlayA, wCfg] (str "/a.txt")).1 = .file (str "/srv/a.txt") 1 := by decide
-- the second handler still hides what ITS list hides, although the first one has no hide rules
example : (chainServe wFS [overlayA, wCfg] (str "/secret.txt")).1 = .notFound := by decide
example : (chainServe wFS [overlayA, wCfg] (str "/")).1 = .listing (str "/srv") [str "a.txt"] := by decide
example : (errServe wFS { overlayA with passThru := false } wCfg (str "/secret.txt")).1 = .notFound := by decide
example : (errServe wFS { overlayA with passThru := false } wCfg (str "/a.txt")).1 = .file (str "/srv/a.txt") 1 := by decide

/-! ## model sanity: fuel

`globMatch_never_runs_out_of_fuel`, `chunkMatch_never_runs_out_of_fuel` and
`fsGlob_never_runs_out_of_fuel` (GlobFuel.lean): above the initial budget the results of the
fuelled loops do not depend on the fuel, so `none` from `globMatch` always means
`ErrBadPattern`.  They are listed in `Audit.lean`. -/

example : globMatch (str "[a-") (str "a") = none ∧ matchLoop 1000 (str "[a-") (str "a") = none := by decide

end CaddyModel.C07
