import CaddyModel.Util.DrvMain
import CaddyModel.C07.Driver

def main (args : List String) : IO Unit :=
  CaddyModel.drvMain "C07" CaddyModel.C07.handle CaddyModel.C07.witnessLines args
