/-
C07 — `globSafeRepl` does its job for request paths without a backslash: the escaped text,
used as a `path.Match` pattern, matches exactly the original text and nothing else.
-/
import CaddyModel.C07.Model

namespace CaddyModel.C07

def special (c : UInt8) : Prop := c = 42 ∨ c = 91 ∨ c = 63

instance (c : UInt8) : Decidable (special c) := by unfold special; infer_instance

theorem globSafe_cons (c : UInt8) (cs : Bytes) :
    globSafe (c :: cs) = if special c then 92 :: c :: globSafe cs else c :: globSafe cs := by
  simp [globSafe, special]

theorem scanSplit_globSafe : ∀ (p : Bytes) (inr : Bool), (92 : UInt8) ∉ p →
    scanSplit (globSafe p) inr = (globSafe p, []) := by
  intro p
  induction p with
  | nil => intro inr _; simp [globSafe, scanSplit]
  | cons c cs ih =>
    intro inr h
    have hc : c ≠ 92 := fun e => h (by simp [e])
    have hcs : (92 : UInt8) ∉ cs := fun e => h (by simp [e])
    rw [globSafe_cons]
    split
    · -- escaped: `\` c
      rw [scanSplit]
      simp only [cEsc, if_true, pair1, ih inr hcs]
    · rename_i hs
      have h42 : c ≠ 42 := fun e => hs (Or.inl e)
      have h91 : c ≠ 91 := fun e => hs (Or.inr (Or.inl e))
      cases hg : globSafe cs with
      | nil => simp [scanSplit, cStar, h42]
      | cons d ds =>
        rw [scanSplit]
        simp only [cEsc, cOpen, cStar, cClose, hc, h91, h42, if_false, false_and]
        split
        · have := ih false hcs
          rw [hg] at this
          simp [pair1, this]
        · have := ih inr hcs
          rw [hg] at this
          simp [pair1, this]

theorem globSafe_head (p : Bytes) : (globSafe p).head? ≠ some cStar := by
  cases p with
  | nil => simp [globSafe]
  | cons c cs =>
    rw [globSafe_cons]
    split
    · simp [cStar]
    · rename_i hs
      simp [cStar]
      exact fun e => hs (Or.inl e)

theorem dropStars_globSafe (p : Bytes) : dropStars (globSafe p) = globSafe p := by
  have := globSafe_head p
  cases h : globSafe p with
  | nil => rfl
  | cons x xs =>
    rw [h] at this
    simp at this
    simp [dropStars, this]

theorem scanChunk_globSafe (p : Bytes) (h : (92 : UInt8) ∉ p) : scanChunk (globSafe p) = (false, globSafe p, []) := by
  unfold scanChunk
  rw [dropStars_globSafe, scanSplit_globSafe p false h]
  simp [globSafe_head p]

/-- what `matchChunk` computes on an escaped literal: a prefix test -/
def litResult (p s : Bytes) (failed : Bool) : Option Bytes :=
  if failed then none else if p.isPrefixOf s then some (s.drop p.length) else none

theorem matchChunk_globSafe : ∀ (p s : Bytes) (fuel : Nat) (failed : Bool), (92 : UInt8) ∉ p →
    (globSafe p).length + 1 ≤ fuel → matchChunk fuel (globSafe p) s failed = some (litResult p s failed) := by
  intro p
  induction p with
  | nil =>
    intro s fuel failed _ hf
    cases fuel with
    | zero => omega
    | succ f => simp [globSafe, matchChunk, litResult]
  | cons c cs ih =>
    intro s fuel failed h hf
    have hc : c ≠ 92 := fun e => h (by simp [e])
    have hcs : (92 : UInt8) ∉ cs := fun e => h (by simp [e])
    -- both shapes of the chunk reduce to "compare one literal byte, continue"
    have step : ∀ (f : Nat), (globSafe cs).length + 1 ≤ f →
        (if (failed || s.isEmpty) = true then matchChunk f (globSafe cs) s true
         else matchChunk f (globSafe cs) (s.drop 1) (decide (s.head? ≠ some c)))
        = some (litResult (c :: cs) s failed) := by
      intro f hf'
      cases failed with
      | true => simp [ih s f true hcs hf', litResult]
      | false =>
        cases s with
        | nil => simp [ih [] f true hcs hf', litResult]
        | cons x xs =>
          simp only [Bool.false_or, List.isEmpty_cons, Bool.false_eq_true, if_false, List.drop_one, List.tail_cons,
            List.head?_cons]
          rw [ih xs f _ hcs hf']
          by_cases hx : x = c
          · subst hx; simp [litResult]
          · have : c ≠ x := fun e => hx e.symm
            simp [litResult, hx, this]
    rw [globSafe_cons] at hf ⊢
    split
    · rename_i hs
      simp only [hs, if_true, List.length_cons] at hf
      cases fuel with
      | zero => omega
      | succ f =>
        rw [matchChunk]
        simp only [cOpen, cQuest, cEsc, show (92 : UInt8) ≠ 91 by decide, show (92 : UInt8) ≠ 63 by decide, if_false, if_true]
        exact step f (by omega)
    · rename_i hs
      simp only [hs, if_false, List.length_cons] at hf
      have h91 : c ≠ 91 := fun e => hs (Or.inr (Or.inl e))
      have h63 : c ≠ 63 := fun e => hs (Or.inr (Or.inr e))
      cases fuel with
      | zero => omega
      | succ f =>
        rw [matchChunk.eq_def]
        simp only [cOpen, cQuest, cEsc, h91, h63, hc, if_false]
        exact step f (by omega)

theorem isPrefixOf_drop_nil {p n : Bytes} (h : p.isPrefixOf n = true) (hd : n.drop p.length = []) : n = p := by
  obtain ⟨t, ht⟩ := List.isPrefixOf_iff_prefix.mp h
  subst ht
  simp at hd
  simp [hd]

/-- **the escaping works when the request has no backslash** -/
theorem globMatch_globSafe (p n : Bytes) (h : (92 : UInt8) ∉ p) :
    globMatch (globSafe p) n = some (decide (n = p)) := by
  unfold globMatch matchFuel
  by_cases hp : p = []
  · subst hp; simp [globSafe, matchLoop]
  · have hq : globSafe p ≠ [] := by
      cases p with
      | nil => exact absurd rfl hp
      | cons c cs => rw [globSafe_cons]; split <;> simp
    have hlen : ∃ m, (globSafe p).length = m + 1 := by
      cases hg : globSafe p with
      | nil => exact absurd hg hq
      | cons x xs => exact ⟨xs.length, by simp⟩
    obtain ⟨m, hm⟩ := hlen
    rw [matchLoop]
    simp only [hq, if_false, scanChunk_globSafe p h, Bool.false_eq_true, false_and]
    unfold chunkMatch
    rw [matchChunk_globSafe p n _ false h (by omega)]
    simp only [litResult, Bool.false_eq_true, if_false]
    have vr : validateRest (globSafe p).length [] = some false := by rw [hm]; simp [validateRest]
    by_cases hpre : p.isPrefixOf n = true
    · simp only [hpre, if_true]
      by_cases hd : n.drop p.length = []
      · have := isPrefixOf_drop_nil hpre hd
        subst this
        simp only [hd, true_or, if_true]
        rw [hm]; simp [matchLoop]
      · have hne : n ≠ p := by
          intro e; subst e; simp at hd
        simp only [hd, ne_eq, not_true_eq_false, or_self, if_false, failPath, Bool.false_eq_true, vr]
        simp [hne]
    · have hne : n ≠ p := by
        intro e; subst e; simp at hpre
      simp only [hpre, Bool.false_eq_true, if_false, failPath, vr]
      simp [hne]

end CaddyModel.C07
