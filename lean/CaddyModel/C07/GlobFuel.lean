/-
C07 — the fuel of the glob model is never the limiting factor: above the initial budget the
result does not depend on the fuel (so `none` always means `ErrBadPattern`, never "out of fuel").
-/
import CaddyModel.C07.Model

namespace CaddyModel.C07

/-! ### sizes -/

theorem decodeRune_size_pos (s : Bytes) (h : s ≠ []) : 1 ≤ (decodeRune s).2 := by
  unfold decodeRune
  split
  · exact absurd rfl h
  · split; · simp
    split; · simp
    split; · simp
    split; · simp
    split; · simp
    split; · simp
    split; · simp
    split; · simp
    split; · simp
    split <;> simp

theorem getEscBody_length {body : Bytes} {r : Nat} {c' : Bytes} (h : getEscBody body = some (r, c')) :
    c'.length < body.length := by
  unfold getEscBody at h
  split at h
  · cases h
  · rename_i hb
    split at h
    · cases h
    · split at h
      · cases h
      · simp only [Option.some.injEq, Prod.mk.injEq] at h
        obtain ⟨_, rfl⟩ := h
        have := decodeRune_size_pos _ hb
        have hl : body.length ≠ 0 := by
          intro e; exact hb (List.length_eq_zero_iff.mp e)
        simp only [List.length_drop]
        omega

theorem getEsc_length {chunk : Bytes} {r : Nat} {c' : Bytes} (h : getEsc chunk = some (r, c')) :
    c'.length < chunk.length := by
  unfold getEsc at h
  split at h
  · cases h
  · rename_i c ct
    split at h
    · cases h
    · have := getEscBody_length h
      split at this <;> simp <;> omega

theorem classLoop_length : ∀ (fuel : Nat) (chunk : Bytes) (r : Nat) (m : Bool) (nr : Nat) (rest : Bytes) (m' : Bool),
    classLoop fuel chunk r m nr = some (rest, m') → rest.length < chunk.length := by
  intro fuel
  induction fuel with
  | zero => intro chunk r m nr rest m' h; simp [classLoop] at h
  | succ f ih =>
    intro chunk r m nr rest m' h
    rw [classLoop] at h
    split at h
    · rename_i hc
      simp at h
      obtain ⟨rfl, _⟩ := h
      cases chunk with
      | nil => simp at hc
      | cons x xs => simp
    · split at h
      · cases h
      · rename_i lo c1 hg
        have h1 := getEsc_length hg
        split at h
        · split at h
          · cases h
          · rename_i hi c2 hg2
            have h2 := getEsc_length hg2
            have := ih _ _ _ _ _ _ h
            simp only [List.length_drop] at h2
            omega
        · have := ih _ _ _ _ _ _ h
          omega

theorem scanSplit_length (l : Bytes) (inr : Bool) :
    (scanSplit l inr).1.length + (scanSplit l inr).2.length = l.length := by
  fun_induction scanSplit l inr <;> simp_all [pair1] <;> omega

/-! ### fuel stability -/

theorem classLoop_stable : ∀ (f1 f2 : Nat) (chunk : Bytes) (r : Nat) (m : Bool) (nr : Nat),
    chunk.length + 1 ≤ f1 → chunk.length + 1 ≤ f2 → classLoop f1 chunk r m nr = classLoop f2 chunk r m nr := by
  intro f1
  induction f1 with
  | zero => intro f2 chunk r m nr h1; omega
  | succ a ih =>
    intro f2 chunk r m nr h1 h2
    cases f2 with
    | zero => omega
    | succ b =>
      simp only [classLoop]
      split
      · rfl
      · split
        · rfl
        · rename_i lo c1 hg
          have l1 := getEsc_length hg
          split
          · split
            · rfl
            · rename_i hi c2 hg2
              have l2 := getEsc_length hg2
              simp only [List.length_drop] at l2
              exact ih b c2 r _ _ (by omega) (by omega)
          · exact ih b c1 r _ _ (by omega) (by omega)

theorem matchChunk_stable : ∀ (f1 f2 : Nat) (chunk s : Bytes) (failed : Bool),
    chunk.length + 1 ≤ f1 → chunk.length + 1 ≤ f2 → matchChunk f1 chunk s failed = matchChunk f2 chunk s failed := by
  intro f1
  induction f1 with
  | zero => intro f2 chunk s failed h1; omega
  | succ a ih =>
    intro f2 chunk s failed h1 h2
    cases f2 with
    | zero => omega
    | succ b =>
      cases chunk with
      | nil => simp [matchChunk]
      | cons c ct =>
        simp only [List.length_cons] at h1 h2
        rw [matchChunk.eq_def, matchChunk.eq_def]
        simp only
        split
        · -- class
          have hd : (if ct.head? = some cCaret then ct.drop 1 else ct).length ≤ ct.length := by
            split <;> simp
          rw [classLoop_stable a b _ _ _ _ (by omega) (by omega)]
          split
          · rfl
          · rename_i rest m hcl
            have := classLoop_length _ _ _ _ _ _ _ hcl
            exact ih b rest _ _ (by omega) (by omega)
        · split
          · split
            · exact ih b ct _ _ (by omega) (by omega)
            · exact ih b ct _ _ (by omega) (by omega)
          · split
            · cases ct with
              | nil => rfl
              | cons c2 ct2 =>
                simp only [List.length_cons] at h1 h2
                simp only
                split
                · exact ih b ct2 _ _ (by omega) (by omega)
                · exact ih b ct2 _ _ (by omega) (by omega)
            · split
              · exact ih b ct _ _ (by omega) (by omega)
              · exact ih b ct _ _ (by omega) (by omega)

theorem dropStars_length (p : Bytes) : (dropStars p).length ≤ p.length := by
  induction p with
  | nil => simp [dropStars]
  | cons c cs ih => simp only [dropStars]; split <;> simp <;> omega

theorem dropStars_of_not_star (c : UInt8) (cs : Bytes) (h : c ≠ cStar) : dropStars (c :: cs) = c :: cs := by
  simp [dropStars, h]

theorem scanSplit_fst_pos (c : UInt8) (cs : Bytes) (h : c ≠ cStar) : 1 ≤ (scanSplit (c :: cs) false).1.length := by
  cases cs with
  | nil => simp [scanSplit, h]
  | cons d ds =>
    rw [scanSplit]
    split; · simp [pair1]
    split; · simp [pair1]
    split; · simp [pair1]
    split
    · rename_i hh; exact absurd hh.1 h
    · simp [pair1]

theorem scanChunk_rest_lt (p : Bytes) (hp : p ≠ []) : (scanChunk p).2.2.length < p.length := by
  unfold scanChunk
  have hsum := scanSplit_length (dropStars p) false
  cases p with
  | nil => exact absurd rfl hp
  | cons c cs =>
    by_cases hc : c = cStar
    · have : (dropStars (c :: cs)).length ≤ cs.length := by
        simp only [dropStars, hc, if_true]; exact dropStars_length cs
      simp only [List.length_cons] at hsum ⊢
      omega
    · rw [dropStars_of_not_star c cs hc] at hsum ⊢
      have := scanSplit_fst_pos c cs hc
      simp only [List.length_cons] at hsum ⊢
      omega

theorem validateRest_stable : ∀ (f1 f2 : Nat) (p : Bytes),
    p.length + 1 ≤ f1 → p.length + 1 ≤ f2 → validateRest f1 p = validateRest f2 p := by
  intro f1
  induction f1 with
  | zero => intro f2 p h1; omega
  | succ a ih =>
    intro f2 p h1 h2
    cases f2 with
    | zero => omega
    | succ b =>
      simp only [validateRest]
      split
      · rfl
      · rename_i hp
        have := scanChunk_rest_lt p hp
        split
        · rfl
        · exact ih b _ (by omega) (by omega)

theorem matchLoop_stable : ∀ (f1 f2 : Nat) (pattern name : Bytes),
    pattern.length + 1 ≤ f1 → pattern.length + 1 ≤ f2 → matchLoop f1 pattern name = matchLoop f2 pattern name := by
  intro f1
  induction f1 with
  | zero => intro f2 pattern name h1; omega
  | succ a ih =>
    intro f2 pattern name h1 h2
    cases f2 with
    | zero => omega
    | succ b =>
      simp only [matchLoop]
      split
      · rfl
      · rename_i hp
        have hlt := scanChunk_rest_lt pattern hp
        have hk : matchLoop a (scanChunk pattern).2.2 = matchLoop b (scanChunk pattern).2.2 :=
          funext fun t => ih b _ t (by omega) (by omega)
        have hv : validateRest a (scanChunk pattern).2.2 = validateRest b (scanChunk pattern).2.2 :=
          validateRest_stable a b _ (by omega) (by omega)
        have hf : ∀ nm, failPath (scanChunk pattern).1 (scanChunk pattern).2.1 (scanChunk pattern).2.2 nm
              (matchLoop a (scanChunk pattern).2.2) a
            = failPath (scanChunk pattern).1 (scanChunk pattern).2.1 (scanChunk pattern).2.2 nm
              (matchLoop b (scanChunk pattern).2.2) b := by
          intro nm; simp only [failPath, hk, hv]
        split
        · rfl
        · split
          · rfl
          · split
            · rw [hk]
            · exact hf name
          · exact hf name

/-- **the fuel of `globMatch` is never the limiting factor** -/
theorem globMatch_never_runs_out_of_fuel (pattern name : Bytes) (extra : Nat) :
    matchLoop (matchFuel pattern + extra) pattern name = globMatch pattern name := by
  unfold globMatch matchFuel
  exact matchLoop_stable _ _ pattern name (by omega) (by omega)

theorem chunkMatch_never_runs_out_of_fuel (chunk s : Bytes) (extra : Nat) :
    matchChunk (chunk.length + 1 + extra) chunk s false = chunkMatch chunk s := by
  unfold chunkMatch
  exact matchChunk_stable _ _ chunk s false (by omega) (by omega)

/-! ### fs.Glob -/

theorem pathSplit_length (p : Bytes) : (pathSplit p).1.length + (pathSplit p).2.length = p.length := by
  induction p with
  | nil => simp [pathSplit]
  | cons c cs ih =>
    simp only [pathSplit]
    split <;> simp <;> omega

theorem globDir_length (p : Bytes) (h : hasMeta (cleanGlobPath (pathSplit p).1) = true) :
    (cleanGlobPath (pathSplit p).1).length < p.length := by
  have hs := pathSplit_length p
  unfold cleanGlobPath at h ⊢
  split
  · rename_i hd; rw [if_pos hd] at h; exact absurd h (by decide)
  · rename_i hd
    have : (pathSplit p).1.length ≠ 0 := fun e => hd (List.length_eq_zero_iff.mp e)
    simp only [List.length_dropLast]
    omega

theorem fsGlob_stable (fs : FS) : ∀ (f1 f2 : Nat) (p : Bytes),
    p.length + 1 ≤ f1 → p.length + 1 ≤ f2 → fsGlob fs f1 p = fsGlob fs f2 p := by
  intro f1
  induction f1 with
  | zero => intro f2 p h1; omega
  | succ a ih =>
    intro f2 p h1 h2
    cases f2 with
    | zero => omega
    | succ b =>
      simp only [fsGlob]
      split
      · rfl
      · split
        · rfl
        · split
          · rfl
          · rename_i hm
            split
            · rfl
            · have hl := globDir_length p (by simpa using hm)
              rw [ih b _ (by omega) (by omega)]

/-- the budget `globFuel` handed to `fsGlob` by `tryLoop` is never exhausted -/
theorem fsGlob_never_runs_out_of_fuel (fs : FS) (p : Bytes) (extra : Nat) :
    fsGlob fs (globFuel p + extra) p = fsGlob fs (globFuel p) p := by
  unfold globFuel
  exact fsGlob_stable fs _ _ p (by omega) (by omega)

end CaddyModel.C07
