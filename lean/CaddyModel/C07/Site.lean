/-
C07 — the glue of a Caddyfile site around the modelled core:

    root * <root>                      → vars handler → {http.vars.root}, read by BOTH the file
                                         matcher and the file server on every request
    try_files <files…>                 → route { file matcher (own Root "" → {http.vars.root});
                                                 rewrite {http.matchers.file.relative} }
    file_server [browse] { hide … }    → UnmarshalCaddyfile + FinalizeUnmarshalCaddyfile (the
                                         Caddyfile itself is appended to the hide list)

* `siteHide`        `FinalizeUnmarshalCaddyfile` (fileserver/caddyfile.go)
* `rewriteTarget`   what `rewrite.Rewrite` makes of the URI `{http.matchers.file.relative}`:
                    a `?` in the value starts an (ignored) query, the rest is `url.PathUnescape`d
* `siteServe`       matcher → rewrite → file server, with the original request kept for the
                    canonical-URI decisions
-/
import CaddyModel.C07.Model

namespace CaddyModel.C07

/-- "ensure there's always a path separator" -/
def cfHideEntry (f : Bytes) : Bytes := if hasSlash f then f else [46, 47] ++ f

/-- `FinalizeUnmarshalCaddyfile`: every Caddyfile of the site (`h.Caddyfiles()`; here: one) is
    cleaned and, unless `fileHidden(file, fsrv.Hide)` already holds for the hide list AS WRITTEN,
    appended to it -/
def siteHide (cwd : Bytes) (hide : List Bytes) : Option Bytes → List Bytes
  | none => hide
  | some f => if fileHidden cwd (pathClean f) hide then hide else hide ++ [cfHideEntry (pathClean f)]

def hexVal (c : UInt8) : UInt8 :=
  if 48 ≤ c ∧ c ≤ 57 then c - 48 else if 97 ≤ c ∧ c ≤ 102 then c - 87 else c - 55

/-- `url.PathUnescape` on a string with valid escapes -/
def unescapeAll : Bytes → Bytes
  | 37 :: a :: b :: rest => (hexVal a * 16 + hexVal b) :: unescapeAll rest
  | c :: rest => c :: unescapeAll rest
  | [] => []

/-- the path `rewrite` sets for the URI `{http.matchers.file.relative}` expanded to `rel`:
    "a query string snuck into the path component" is cut off, then
    `if path, err := url.PathUnescape(newPath); err != nil { newPath } else { path }` -/
def rewriteTarget (rel : Bytes) : Bytes :=
  if validEsc (cutAt 63 rel).1 then unescapeAll (cutAt 63 rel).1 else (cutAt 63 rel).1

/-- one request through the site: `tries = none`: no `try_files` directive; `pol` / `fallback`: the
    `policy` block of `try_files` -/
def siteServe (fs : FS) (c : Cfg) (tries : Option (List TryFile)) (path : Bytes)
    (pol : Option ScanPolicy := none) (fallback : Bool := false) : Traced Outcome :=
  match tries with
  | none => serve fs c path path
  | some ts =>
    match (match pol with
           | none => matchFile fs c.root ts fallback path
           | some sp => matchFileScan fs c.root ts sp path) with
    | (.matched _ rel _, t) => appendTrace t (serve fs c (rewriteTarget rel) path)
    | (.noMatch, t) => appendTrace t (serve fs c path path)

end CaddyModel.C07

namespace CaddyModel.C07

/-! ### several file servers on one request -/

/-- `file_server { … pass_thru }` handlers in a row (an overlay of roots): each handler decides
    with its OWN configuration; a handler that passes the request on is followed by the next one;
    behind the last one is the empty handler -/
def chainServe (fs : FS) : List Cfg → Bytes → Traced Outcome
  | [], _ => (.passThru, [])
  | c :: rest, path =>
    match serve fs c path path with
    | (.passThru, t) => appendTrace t (chainServe fs rest path)
    | r => r

/-- the outcomes with which `ServeHTTP` returns an error (the server then runs the error routes) -/
def Outcome.isError : Outcome → Bool
  | .notFound => true
  | .forbidden => true
  | .serverError => true
  | .unavailable => true
  | _ => false

/-- a site's `file_server` and a second one inside `handle_errors`: the error route sees the same
    request (same path, same variable table) -/
def errServe (fs : FS) (c1 c2 : Cfg) (path : Bytes) : Traced Outcome :=
  match serve fs c1 path path with
  | (o, t) =>
    if o.isError then
      match serve fs c2 path path with
      | (o2, t2) => if o2.isError then (o, t ++ t2)   -- "this is awkward": the first error's status is written
                    else (o2, t ++ t2)
    else (o, t)

end CaddyModel.C07
