/-
C07 — helper lemmas about the ServeHTTP skeleton: every outcome is justified by what the
filesystem answered for a name below the root; every name handed to the filesystem is below
the root (or a `/`-boundary prefix of the request file, stat'ed by `mapDirOpenError`).
-/
import CaddyModel.C07.Lemmas

namespace CaddyModel.C07

/-- the name under which the bytes of a served file / sidecar were opened -/
def Outcome.servedName : Outcome → Option Bytes
  | .file p _ => some p
  | .sidecar p _ _ => some p
  | _ => none

/-- what has to be true of the filesystem and the configuration for an outcome to be produced -/
def Justified (fs : FS) (c : Cfg) (_path : Bytes) : Outcome → Prop
  | .file p id => UnderS c.rootC p ∧ c.hidden p = false ∧ fs p = .file id
  | .listing p ns => UnderS c.rootC p ∧ c.hidden p = false ∧ ∃ es, fs p = .dir es ∧ ns = listingNames c p es
  | .redirect _ => True
  | .notFound => c.passThru = false
  | .passThru => c.passThru = true
  | .forbidden => ∃ n, fs n = .perm
  | .serverError => ∃ n, fs n = .other ∨ (c.etagExt ≠ [] ∧ fs n ≠ .missing ∧ ∀ id, fs n ≠ .file id)
  | .unavailable => False
  | .sidecar p id enc =>
    ∃ f suf, p = f ++ suf ∧ (enc, suf) ∈ c.pre ∧ enc ∈ c.accepted ∧
      UnderS c.rootC f ∧ c.hidden f = false ∧ (∃ id0, fs f = .file id0) ∧ fs p = .file id ∧ c.hidden p = false
  | .withEtag o n id =>
    Justified fs c _path o ∧
      ∃ f ext, o.servedName = some f ∧ ext ∈ c.etagExt ∧ n = f ++ ext ∧ fs n = .file id ∧ c.hidden n = false

theorem notFoundOut_justified (fs : FS) (c : Cfg) (path : Bytes) : Justified fs c path (notFoundOut c) := by
  unfold notFoundOut
  cases h : c.passThru <;> simp [Justified, h]

theorem openAndServe_of_file {fs : FS} {c : Cfg} {f : Bytes} {id : Nat} (h : fs f = .file id) :
    openAndServe fs c f = (.file f id, [f]) := by
  simp [openAndServe, h]

theorem withTrace_fst' {α : Type} (p : Bytes) (r : Traced α) : (withTrace p r).1 = r.1 := rfl
theorem appendTrace_fst' {α : Type} (t : List Bytes) (r : Traced α) : (appendTrace t r).1 = r.1 := rfl

theorem sidecarSuffix_mem {c : Cfg} {ae suf : Bytes} (h : sidecarSuffix c ae = some suf) : (ae, suf) ∈ c.pre := by
  unfold sidecarSuffix at h
  cases hf : c.pre.find? (·.1 = ae) with
  | none => simp [hf] at h
  | some x =>
    simp [hf] at h
    have hm := List.mem_of_find?_eq_some hf
    have hp := List.find?_some hf
    simp at hp
    cases x with
    | mk a b => simp at hp h; subst hp; subst h; exact hm

/-- `n` is `f` plus the suffix of a configured precompressor and / or a configured etag extension -/
def SidecarName (c : Cfg) (f n : Bytes) : Prop :=
  (∃ ae suf, (ae, suf) ∈ c.pre ∧ n = f ++ suf) ∨ (∃ ext, ext ∈ c.etagExt ∧ n = f ++ ext) ∨
  (∃ ae suf ext, (ae, suf) ∈ c.pre ∧ ext ∈ c.etagExt ∧ n = f ++ suf ++ ext)

theorem findSidecar_spec (fs : FS) (c : Cfg) (f : Bytes) : ∀ (l : List Bytes) (p : Bytes) (id : Nat) (ae : Bytes),
    (findSidecar fs c f l).1 = some (p, id, ae) →
      ∃ suf, p = f ++ suf ∧ (ae, suf) ∈ c.pre ∧ ae ∈ l ∧ fs p = .file id ∧ c.hidden p = false := by
  intro l
  induction l with
  | nil => intro p id ae h; simp [findSidecar] at h
  | cons a rest ih =>
    intro p id ae h
    unfold findSidecar at h
    split at h
    · obtain ⟨suf, h1, h2, h3, h4⟩ := ih p id ae h
      exact ⟨suf, h1, h2, by simp [h3], h4⟩
    · rename_i suf hs
      split at h
      · obtain ⟨suf', h1, h2, h3, h4⟩ := ih p id ae h
        exact ⟨suf', h1, h2, by simp [h3], h4⟩
      · rename_i hh
        split at h
        · rename_i id' hf
          simp at h
          obtain ⟨rfl, rfl, rfl⟩ := h
          exact ⟨suf, rfl, sidecarSuffix_mem hs, by simp, hf, by simpa using hh⟩
        · rw [withTrace_fst'] at h
          obtain ⟨suf', h1, h2, h3, h4⟩ := ih p id ae h
          exact ⟨suf', h1, h2, by simp [h3], h4⟩

theorem findSidecar_trace (fs : FS) (c : Cfg) (f : Bytes) : ∀ (l : List Bytes) (n : Bytes),
    n ∈ (findSidecar fs c f l).2 → SidecarName c f n := by
  intro l
  induction l with
  | nil => intro n h; simp [findSidecar] at h
  | cons a rest ih =>
    intro n h
    unfold findSidecar at h
    split at h
    · exact ih n h
    · rename_i suf hs
      split at h
      · exact ih n h
      · split at h
        · simp at h; exact Or.inl ⟨a, suf, sidecarSuffix_mem hs, h⟩
        · simp [withTrace] at h
          rcases h with h | h
          · exact Or.inl ⟨a, suf, sidecarSuffix_mem hs, h⟩
          · exact ih n h

theorem findEtag_some (fs : FS) (c : Cfg) (name : Bytes) : ∀ (exts : List Bytes) (n : Bytes) (id : Nat),
    (findEtag fs c name exts).1 = some (some (n, id)) →
      ∃ ext, ext ∈ exts ∧ n = name ++ ext ∧ fs n = .file id ∧ c.hidden n = false := by
  intro exts
  induction exts with
  | nil => intro n id h; simp [findEtag] at h
  | cons e rest ih =>
    intro n id h
    unfold findEtag at h
    split at h
    · obtain ⟨ext, h1, h2, h3⟩ := ih n id h
      exact ⟨ext, by simp [h1], h2, h3⟩
    · rename_i hh
      split at h
      · rw [withTrace_fst'] at h
        obtain ⟨ext, h1, h2, h3⟩ := ih n id h
        exact ⟨ext, by simp [h1], h2, h3⟩
      · rename_i id' hf
        simp at h
        obtain ⟨rfl, rfl⟩ := h
        exact ⟨e, by simp, rfl, hf, by simpa using hh⟩
      · simp at h

theorem findEtag_none (fs : FS) (c : Cfg) (name : Bytes) : ∀ (exts : List Bytes),
    (findEtag fs c name exts).1 = none → exts ≠ [] ∧ ∃ n, fs n ≠ .missing ∧ ∀ id, fs n ≠ .file id := by
  intro exts
  induction exts with
  | nil => intro h; simp [findEtag] at h
  | cons e rest ih =>
    intro h
    refine ⟨by simp, ?_⟩
    unfold findEtag at h
    split at h
    · exact (ih h).2
    · split at h
      · rw [withTrace_fst'] at h
        exact (ih h).2
      · simp at h
      · rename_i h1 h2
        exact ⟨name ++ e, h1, h2⟩

theorem findEtag_trace (fs : FS) (c : Cfg) (name : Bytes) : ∀ (exts : List Bytes) (n : Bytes),
    n ∈ (findEtag fs c name exts).2 → ∃ ext, ext ∈ exts ∧ n = name ++ ext := by
  intro exts
  induction exts with
  | nil => intro n h; simp [findEtag] at h
  | cons e rest ih =>
    intro n h
    unfold findEtag at h
    split at h
    · obtain ⟨ext, h1, h2⟩ := ih n h
      exact ⟨ext, by simp [h1], h2⟩
    · split at h
      · simp [withTrace] at h
        rcases h with h | h
        · exact ⟨e, by simp, h⟩
        · obtain ⟨ext, h1, h2⟩ := ih n h
          exact ⟨ext, by simp [h1], h2⟩
      · simp at h; exact ⟨e, by simp, h⟩
      · simp at h; exact ⟨e, by simp, h⟩

theorem withEtagOf_justified {fs : FS} {c : Cfg} (path name : Bytes) (o : Outcome)
    (ho : Justified fs c path o) (hn : o.servedName = some name) :
    Justified fs c path (withEtagOf fs c name o).1 := by
  unfold withEtagOf
  split
  · rename_i t he
    have : (findEtag fs c name c.etagExt).1 = none := by rw [he]
    obtain ⟨h1, n, h2, h3⟩ := findEtag_none fs c name c.etagExt this
    exact ⟨n, Or.inr ⟨h1, h2, h3⟩⟩
  · exact ho
  · rename_i n id t he
    have : (findEtag fs c name c.etagExt).1 = some (some (n, id)) := by rw [he]
    obtain ⟨ext, h1, h2, h3, h4⟩ := findEtag_some fs c name c.etagExt n id this
    exact ⟨ho, name, ext, hn, h1, h2, h3, h4⟩

theorem withEtagOf_trace {fs : FS} {c : Cfg} (name : Bytes) (o : Outcome) :
    ∀ n ∈ (withEtagOf fs c name o).2, ∃ ext, ext ∈ c.etagExt ∧ n = name ++ ext := by
  intro n hn
  unfold withEtagOf at hn
  split at hn <;> (rename_i he; exact findEtag_trace fs c name c.etagExt n (by rw [he]; exact hn))

theorem withEtagOf_ne_redirect {fs : FS} {c : Cfg} (name : Bytes) (o : Outcome) (x : Option Bytes)
    (ho : o ≠ .redirect x) : (withEtagOf fs c name o).1 ≠ .redirect x := by
  unfold withEtagOf
  split <;> simp [ho]

theorem serveContent_justified {fs : FS} {c : Cfg} {f : Bytes} {id : Nat} (path : Bytes)
    (h : fs f = .file id) (hu : UnderS c.rootC f) (hh : c.hidden f = false) :
    Justified fs c path (serveContent fs c f).1 := by
  unfold serveContent
  split
  · rename_i p id' ae t hfs
    have : (findSidecar fs c f c.accepted).1 = some (p, id', ae) := by rw [hfs]
    obtain ⟨suf, h1, h2, h3, h4, h5⟩ := findSidecar_spec fs c f c.accepted p id' ae this
    rw [appendTrace_fst']
    exact withEtagOf_justified path p _ ⟨f, suf, h1, h2, h3, hu, hh, ⟨id, h⟩, h4, h5⟩ rfl
  · rw [openAndServe_of_file h, appendTrace_fst']
    simp only []
    rw [appendTrace_fst']
    exact withEtagOf_justified path f _ ⟨hu, hh, h⟩ rfl

theorem serveContent_trace {fs : FS} {c : Cfg} {f : Bytes} {id : Nat} (h : fs f = .file id) :
    ∀ n ∈ (serveContent fs c f).2, n = f ∨ SidecarName c f n := by
  intro n hn
  unfold serveContent at hn
  split at hn
  · rename_i p id' ae t hfs
    have hsp : (findSidecar fs c f c.accepted).1 = some (p, id', ae) := by rw [hfs]
    obtain ⟨suf, h1, h2, _⟩ := findSidecar_spec fs c f c.accepted p id' ae hsp
    simp only [appendTrace, List.mem_append] at hn
    rcases hn with hn | hn
    · right; exact findSidecar_trace fs c f c.accepted n (by rw [hfs]; exact hn)
    · obtain ⟨ext, he, e⟩ := withEtagOf_trace p _ n hn
      right; right; right
      exact ⟨ae, suf, ext, h2, he, by rw [e, h1]⟩
  · rename_i t hfs
    rw [openAndServe_of_file h] at hn
    simp only [appendTrace, List.mem_append] at hn
    rcases hn with hn | hn | hn
    · right; exact findSidecar_trace fs c f c.accepted n (by rw [hfs]; exact hn)
    · left; simpa using hn
    · obtain ⟨ext, he, e⟩ := withEtagOf_trace f _ n hn
      right; right; left
      exact ⟨ext, he, e⟩

theorem serveFile_justified {fs : FS} {c : Cfg} {f : Bytes} {id : Nat} (imp : Bool) (path orig : Bytes)
    (h : fs f = .file id) (hu : UnderS c.rootC f) : Justified fs c path (serveFile fs c f imp path orig).1 := by
  unfold serveFile
  split
  · exact notFoundOut_justified fs c path
  split
  · trivial
  split
  · trivial
  · rename_i hh _ _
    exact serveContent_justified path h hu (by simpa using hh)

theorem serveBrowse_justified {fs : FS} {c : Cfg} {f : Bytes} {es : List Entry} (path orig : Bytes)
    (h : fs f = .dir es) (hu : UnderS c.rootC f) (hh : c.hidden f = false) :
    Justified fs c path (serveBrowse c f es path orig).1 := by
  unfold serveBrowse
  split
  · trivial
  · exact ⟨hu, hh, es, h, rfl⟩

theorem serveNode_justified {fs : FS} {c : Cfg} {f : Bytes} {info : Node} (imp : Bool) (path orig : Bytes)
    (h : fs f = info) (hk : (∃ id, info = .file id) ∨ (∃ es, info = .dir es)) (hu : UnderS c.rootC f) :
    Justified fs c path (serveNode fs c f info imp path orig).1 := by
  rcases hk with ⟨id, rfl⟩ | ⟨es, rfl⟩
  · simp only [serveNode]
    exact serveFile_justified imp path orig h hu
  · simp only [serveNode]
    split
    · rename_i hb
      simp at hb
      exact serveBrowse_justified path orig h hu hb.2
    · exact notFoundOut_justified fs c path

theorem findIndex_spec (fs : FS) (c : Cfg) (f : Bytes) : ∀ (ixs : List Bytes) (ip : Bytes) (inode : Node),
    (findIndex fs c f ixs).1 = some (ip, inode) →
      fs ip = inode ∧ ((∃ id, inode = .file id) ∨ (∃ es, inode = .dir es)) ∧ ∃ ix ∈ ixs, ip = sanitizedPathJoin f ix := by
  intro ixs
  induction ixs with
  | nil => intro ip inode h; simp [findIndex] at h
  | cons ix rest ih =>
    intro ip inode h
    unfold findIndex at h
    split at h
    · obtain ⟨a, b, ix', hm, e⟩ := ih ip inode h
      exact ⟨a, b, ix', by simp [hm], e⟩
    · split at h
      · rename_i id hfs
        simp at h
        obtain ⟨rfl, rfl⟩ := h
        exact ⟨hfs, Or.inl ⟨id, rfl⟩, ix, by simp, rfl⟩
      · rename_i es hfs
        simp at h
        obtain ⟨rfl, rfl⟩ := h
        exact ⟨hfs, Or.inr ⟨es, rfl⟩, ix, by simp, rfl⟩
      · simp only [withTrace] at h
        obtain ⟨a, b, ix', hm, e⟩ := ih ip inode h
        exact ⟨a, b, ix', by simp [hm], e⟩

theorem appendTrace_fst {α : Type} (t : List Bytes) (r : Traced α) : (appendTrace t r).1 = r.1 := rfl
theorem withTrace_fst {α : Type} (p : Bytes) (r : Traced α) : (withTrace p r).1 = r.1 := rfl

theorem serveStatOk_justified {fs : FS} {c : Cfg} {f : Bytes} {info : Node} (path orig : Bytes)
    (h : fs f = info) (hk : (∃ id, info = .file id) ∨ (∃ es, info = .dir es)) (hu : Under c.rootC f) :
    Justified fs c path (serveStatOk fs c f info path orig).1 := by
  unfold serveStatOk
  split
  · split
    · rename_i ip inode t hfi
      rw [appendTrace_fst]
      have hfi' : (findIndex fs c f c.index).1 = some (ip, inode) := by rw [hfi]
      obtain ⟨h1, h2, ix, _, h3⟩ := findIndex_spec fs c f c.index ip inode hfi'
      exact serveNode_justified true path orig h1 h2 (h3 ▸ sanitizedPathJoin_under c.rootE f ix hu)
    · rw [appendTrace_fst]
      exact serveNode_justified false path orig h hk (Or.inl hu)
  · exact serveNode_justified false path orig h hk (Or.inl hu)

theorem walkPrefixes_result (fs : FS) (orig : Node) : ∀ (ps : List Bytes),
    (walkPrefixes fs orig ps).1 = orig ∨ (walkPrefixes fs orig ps).1 = .missing := by
  intro ps
  induction ps with
  | nil => left; rfl
  | cons p rest ih =>
    unfold walkPrefixes
    split
    · rw [withTrace_fst]; exact ih
    · right; rfl
    · left; rfl

theorem mapDirOpenError_result (fs : FS) (orig : Node) (name : Bytes) :
    (mapDirOpenError fs orig name).1 = orig ∨ (mapDirOpenError fs orig name).1 = .missing := by
  unfold mapDirOpenError
  split
  · left; rfl
  · left; rfl
  · exact walkPrefixes_result fs orig _

/-- the whole handler: every outcome is justified -/
theorem serve_justified (fs : FS) (c : Cfg) (path orig : Bytes) (hfs : fs [] = .missing) :
    Justified fs c path (serve fs c path orig).1 := by
  unfold serve
  rw [withTrace_fst]
  rcases requestFile_cases c path with hnil | hu
  · rw [hnil, hfs]
    simp [mapDirOpenError]
    exact notFoundOut_justified fs c path
  · split
    · rename_i id hf
      exact serveStatOk_justified path orig hf (Or.inl ⟨id, rfl⟩) hu
    · rename_i es hf
      exact serveStatOk_justified path orig hf (Or.inr ⟨es, rfl⟩) hu
    · rename_i e hnf hnd
      have hres := mapDirOpenError_result fs (fs (requestFile c path)) (requestFile c path)
      split
      · exact notFoundOut_justified fs c path
      · exact notFoundOut_justified fs c path
      · rename_i t hm
        have : (mapDirOpenError fs (fs (requestFile c path)) (requestFile c path)).1 = .perm := by rw [hm]
        rw [this] at hres
        rcases hres with hres | hres
        · exact ⟨requestFile c path, hres.symm⟩
        · cases hres
      · rename_i r t h1 h2 h3 hm
        have hr : (mapDirOpenError fs (fs (requestFile c path)) (requestFile c path)).1 = r := by rw [hm]
        rw [hr] at hres
        refine ⟨requestFile c path, Or.inl ?_⟩
        rcases hres with hres | hres
        · rw [← hres]
          cases hrr : r with
          | other => rfl
          | missing => exact absurd hrr h1
          | invalid => exact absurd hrr h2
          | perm => exact absurd hrr h3
          | file id => exact absurd (hres ▸ hrr) (hnf id)
          | dir es => exact absurd (hres ▸ hrr) (hnd es)
        · exact absurd hres h1

/-! ### the names handed to the filesystem -/

theorem prefixNames_mem (parts : List Bytes) (n : Bytes) (h : n ∈ prefixNames parts) :
    ∃ k, n = joinSlash (parts.take k) := by
  unfold prefixNames at h
  rw [List.mem_filterMap] at h
  obtain ⟨i, _, hi⟩ := h
  split at hi
  · cases hi
  · simp at hi; exact ⟨i + 1, hi.symm⟩

theorem walkPrefixes_trace (fs : FS) (orig : Node) : ∀ (ps : List Bytes) (n : Bytes),
    n ∈ (walkPrefixes fs orig ps).2 → n ∈ ps := by
  intro ps
  induction ps with
  | nil => intro n h; simp [walkPrefixes] at h
  | cons p rest ih =>
    intro n h
    unfold walkPrefixes at h
    split at h
    · simp [withTrace] at h
      rcases h with h | h
      · simp [h]
      · simp [ih n h]
    · simp at h; simp [h]
    · simp at h; simp [h]

theorem mapDirOpenError_trace (fs : FS) (orig : Node) (name n : Bytes)
    (h : n ∈ (mapDirOpenError fs orig name).2) : SlashPrefix name n := by
  unfold mapDirOpenError at h
  split at h
  · simp at h
  · simp at h
  · exact prefixNames_mem _ n (walkPrefixes_trace fs orig _ n h)

theorem findIndex_trace (fs : FS) (c : Cfg) (f : Bytes) : ∀ (ixs : List Bytes) (n : Bytes),
    n ∈ (findIndex fs c f ixs).2 → ∃ ix, n = sanitizedPathJoin f ix := by
  intro ixs
  induction ixs with
  | nil => intro n h; simp [findIndex] at h
  | cons ix rest ih =>
    intro n h
    unfold findIndex at h
    split at h
    · exact ih n h
    · split at h
      · simp at h; exact ⟨ix, h⟩
      · simp at h; exact ⟨ix, h⟩
      · simp [withTrace] at h
        rcases h with h | h
        · exact ⟨ix, h⟩
        · exact ih n h

theorem serveNode_trace {fs : FS} {c : Cfg} {f : Bytes} {info : Node} (imp : Bool) (path orig : Bytes)
    (h : fs f = info) (hk : (∃ id, info = .file id) ∨ (∃ es, info = .dir es)) :
    ∀ n ∈ (serveNode fs c f info imp path orig).2, n = f ∨ SidecarName c f n := by
  intro n hn
  rcases hk with ⟨id, rfl⟩ | ⟨es, rfl⟩
  · simp only [serveNode, serveFile] at hn
    split at hn
    · simp at hn
    split at hn
    · simp at hn
    split at hn
    · simp at hn
    · exact serveContent_trace h n hn
  · simp only [serveNode, serveBrowse] at hn
    split at hn
    · split at hn
      · simp at hn
      · left; simpa using hn
    · simp at hn

theorem serveStatOk_trace {fs : FS} {c : Cfg} {f : Bytes} {info : Node} (path orig : Bytes)
    (h : fs f = info) (hk : (∃ id, info = .file id) ∨ (∃ es, info = .dir es)) :
    ∀ n ∈ (serveStatOk fs c f info path orig).2,
      (n = f ∨ SidecarName c f n) ∨ ∃ ix, n = sanitizedPathJoin f ix ∨ SidecarName c (sanitizedPathJoin f ix) n := by
  intro n hn
  unfold serveStatOk at hn
  split at hn
  · split at hn
    · rename_i ip inode t hfi
      have hfi' : (findIndex fs c f c.index).1 = some (ip, inode) := by rw [hfi]
      obtain ⟨h1, h2, ix, _, h3⟩ := findIndex_spec fs c f c.index ip inode hfi'
      simp only [appendTrace, List.mem_append] at hn
      rcases hn with hn | hn
      · right
        obtain ⟨ix', e⟩ := findIndex_trace fs c f c.index n (by rw [hfi]; exact hn)
        exact ⟨ix', Or.inl e⟩
      · right
        rcases serveNode_trace true path orig h1 h2 n hn with e | e
        · exact ⟨ix, Or.inl (e.trans h3)⟩
        · exact ⟨ix, Or.inr (h3 ▸ e)⟩
    · rename_i t hfi
      simp only [appendTrace, List.mem_append] at hn
      rcases hn with hn | hn
      · right
        obtain ⟨ix', e⟩ := findIndex_trace fs c f c.index n (by rw [hfi]; exact hn)
        exact ⟨ix', Or.inl e⟩
      · left; exact serveNode_trace false path orig h hk n hn
  · left; exact serveNode_trace false path orig h hk n hn

/-- a name handed to the filesystem while serving `path` -/
def TraceOK (c : Cfg) (path n : Bytes) : Prop :=
  n = [] ∨ UnderS c.rootC n ∨ (∃ f, UnderS c.rootC f ∧ SidecarName c f n) ∨ SlashPrefix (requestFile c path) n

theorem serve_trace (fs : FS) (c : Cfg) (path orig : Bytes) (hfs : fs [] = .missing) :
    ∀ n ∈ (serve fs c path orig).2, TraceOK c path n := by
  intro n hn
  unfold serve at hn
  simp only [withTrace, List.mem_cons] at hn
  rcases requestFile_cases c path with hnil | hu
  · rcases hn with hn | hn
    · left; rw [hn, hnil]
    · rw [hnil, hfs] at hn
      simp [mapDirOpenError] at hn
  · rcases hn with hn | hn
    · right; left; rw [hn]; exact Or.inl hu
    · have key : ∀ info, fs (requestFile c path) = info → ((∃ id, info = .file id) ∨ (∃ es, info = .dir es)) →
          n ∈ (serveStatOk fs c (requestFile c path) info path orig).2 → TraceOK c path n := by
        intro info hi hk hm
        rcases serveStatOk_trace path orig hi hk n hm with (e | e) | ⟨ix, e | e⟩
        · right; left; rw [e]; exact Or.inl hu
        · right; right; left; exact ⟨_, Or.inl hu, e⟩
        · right; left; rw [e]; exact sanitizedPathJoin_under c.rootE _ ix hu
        · right; right; left; exact ⟨_, sanitizedPathJoin_under c.rootE _ ix hu, e⟩
      split at hn
      · rename_i id hf
        exact key _ hf (Or.inl ⟨id, rfl⟩) hn
      · rename_i es hf
        exact key _ hf (Or.inr ⟨es, rfl⟩) hn
      · have hm : n ∈ (mapDirOpenError fs (fs (requestFile c path)) (requestFile c path)).2 := by
          split at hn <;> (rename_i hm; rw [hm]; exact hn)
        right; right; right
        exact mapDirOpenError_trace fs _ _ n hm

/-! ### which redirects there are -/

/-- the two canonical redirects: add a trailing slash, or remove the one that is there -/
def RedirShape (c : Cfg) (path orig : Bytes) (x : Option Bytes) : Prop :=
  x = locationOf c path orig (orig ++ [slash]) ∨
  (x = locationOf c path orig orig.dropLast ∧ endsWithSlash orig = true)

theorem notFoundOut_ne_redirect (c : Cfg) (x : Option Bytes) : notFoundOut c ≠ .redirect x := by
  unfold notFoundOut; split <;> simp

theorem serveContent_ne_redirect {fs : FS} {c : Cfg} {f : Bytes} {id : Nat} (h : fs f = .file id) (x : Option Bytes) :
    (serveContent fs c f).1 ≠ .redirect x := by
  unfold serveContent
  split
  · rw [appendTrace_fst']; exact withEtagOf_ne_redirect _ _ x (by simp)
  · rw [openAndServe_of_file h, appendTrace_fst']
    simp only []
    rw [appendTrace_fst']; exact withEtagOf_ne_redirect _ _ x (by simp)

theorem serveNode_redirect {fs : FS} {c : Cfg} {f : Bytes} {info : Node} (imp : Bool) (path orig : Bytes)
    (h : fs f = info) (hk : (∃ id, info = .file id) ∨ (∃ es, info = .dir es)) (x : Option Bytes)
    (hx : (serveNode fs c f info imp path orig).1 = .redirect x) : RedirShape c path orig x := by
  rcases hk with ⟨id, rfl⟩ | ⟨es, rfl⟩
  · simp only [serveNode, serveFile] at hx
    split at hx
    · exact absurd hx (notFoundOut_ne_redirect c x)
    split at hx
    · simp at hx; exact Or.inl hx.symm
    split at hx
    · rename_i hc
      simp at hx
      simp at hc
      exact Or.inr ⟨hx.symm, hc.2⟩
    · exact absurd hx (serveContent_ne_redirect h x)
  · simp only [serveNode, serveBrowse] at hx
    split at hx
    · split at hx
      · simp at hx; exact Or.inl hx.symm
      · simp at hx
    · exact absurd hx (notFoundOut_ne_redirect c x)

theorem serve_redirect (fs : FS) (c : Cfg) (path orig : Bytes) (x : Option Bytes)
    (hx : (serve fs c path orig).1 = .redirect x) : RedirShape c path orig x := by
  unfold serve at hx
  rw [withTrace_fst] at hx
  have key : ∀ info, fs (requestFile c path) = info → ((∃ id, info = .file id) ∨ (∃ es, info = .dir es)) →
      (serveStatOk fs c (requestFile c path) info path orig).1 = .redirect x → RedirShape c path orig x := by
    intro info hi hk hm
    unfold serveStatOk at hm
    split at hm
    · split at hm
      · rename_i ip inode t hfi
        have hfi' : (findIndex fs c (requestFile c path) c.index).1 = some (ip, inode) := by rw [hfi]
        obtain ⟨h1, h2, _⟩ := findIndex_spec fs c _ c.index ip inode hfi'
        rw [appendTrace_fst] at hm
        exact serveNode_redirect true path orig h1 h2 x hm
      · rw [appendTrace_fst] at hm
        exact serveNode_redirect false path orig hi hk x hm
    · exact serveNode_redirect false path orig hi hk x hm
  split at hx
  · rename_i id hf; exact key _ hf (Or.inl ⟨id, rfl⟩) hx
  · rename_i es hf; exact key _ hf (Or.inr ⟨es, rfl⟩) hx
  · split at hx
    · exact absurd hx (notFoundOut_ne_redirect c x)
    · exact absurd hx (notFoundOut_ne_redirect c x)
    · simp at hx
    · simp at hx

end CaddyModel.C07
