/-
Shared main loop of the per-property executable models `drv_<ID>`.
stdin: protocol lines `<ID> <op> <fields…>`; stdout: one canonical answer per line.
`drv_<ID> --witnesses` prints the counter-example lines proved in `<ID>/Witness.lean`.
-/
import CaddyModel.Util.Hex

namespace CaddyModel

partial def drvLoop (pid : String) (handle : List String → String) (h out : IO.FS.Stream) : IO Unit := do
  let line ← h.getLine
  if line.isEmpty then return ()
  let ans := match fields line.trimAsciiEnd.toString with
    | id :: rest => if id == pid then handle rest else "bad-op"
    | [] => "bad-op"
  out.putStrLn ans
  drvLoop pid handle h out

def drvMain (pid : String) (handle : List String → String) (witnesses : List String)
    (args : List String) : IO Unit := do
  match args with
  | ["--witnesses"] => for w in witnesses do IO.println w
  | _ =>
    let out ← IO.getStdout
    drvLoop pid handle (← IO.getStdin) out
    out.flush

end CaddyModel
