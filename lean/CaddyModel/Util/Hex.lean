/-
Line-protocol helpers shared by every driver: byte strings travel hex-encoded
(the empty string is the single character `-`), fields are separated by one
space. Core-only so that `drv` links as a native executable.
-/
namespace CaddyModel

abbrev Bytes := List UInt8

namespace Hex

def hexDigit (n : UInt8) : Char :=
  if n < 10 then Char.ofNat (48 + n.toNat) else Char.ofNat (87 + n.toNat)

def encode (b : Bytes) : String :=
  if b.isEmpty then "-" else
  String.ofList (b.foldr (fun (x : UInt8) acc => hexDigit (x >>> 4) :: hexDigit (x &&& 15) :: acc) [])

def digitVal (c : Char) : Option UInt8 :=
  if '0' ≤ c ∧ c ≤ '9' then some (c.toNat - 48).toUInt8
  else if 'a' ≤ c ∧ c ≤ 'f' then some (c.toNat - 87).toUInt8
  else if 'A' ≤ c ∧ c ≤ 'F' then some (c.toNat - 55).toUInt8
  else none

def decodeChars : List Char → Option Bytes
  | [] => some []
  | [_] => none
  | a :: b :: rest => do
    let x ← digitVal a
    let y ← digitVal b
    let r ← decodeChars rest
    pure ((x <<< 4 ||| y) :: r)

def decode (s : String) : Option Bytes :=
  if s == "-" then some [] else decodeChars s.toList

end Hex

/-- ASCII bytes of a Lean string literal (model constants are ASCII; kernel-reducible, so
    `decide` can evaluate models on literals — `String.toUTF8` is not). -/
def str (s : String) : Bytes := s.toList.map (fun c => c.toNat.toUInt8)

def bytesToString (b : Bytes) : String :=
  String.ofList (b.map (fun x => Char.ofNat x.toNat))

/-- split a protocol line into its space-separated fields -/
def fields (line : String) : List String :=
  (line.splitOn " ").filter (· ≠ "")

end CaddyModel
