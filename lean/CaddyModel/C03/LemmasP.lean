/-
C03 — helper lemmas, part 3: the guest / hosts usage pool is a function of the running config
(full strength since fix d6561d4), cancel with an empty callback list releases no writer.
-/
import CaddyModel.C03.LemmasS

set_option linter.unusedSimpArgs false
set_option linter.unusedVariables false

namespace CaddyModel.C03
open CaddyModel.Lifecycle

theorem decr_incr (f : Nat → Nat) (k : Nat) : decr (incr f k) k = f := by
  funext x; unfold decr incr; split <;> simp

theorem keys_append_some (live : List Live) (i : Inst) (k : Nat) (q : Bool) :
    keys (live ++ [⟨i, some k, q⟩]) = keys live ++ [k] := by simp [keys, List.filterMap_append]

theorem keys_append_none (live : List Live) (i : Inst) (q : Bool) :
    keys (live ++ [⟨i, none, q⟩]) = keys live := by simp [keys, List.filterMap_append]

/-- pool bookkeeping of a provisioning phase: what it adds to the pool is what it adds to `live` -/
def PB (s s' : State) (live live' : List Live) : Prop :=
  ∀ k, s'.mpool k + (keys live).count k = s.mpool k + (keys live').count k

theorem PB.rfl' (s : State) (live : List Live) : PB s s live live := fun _ => rfl

theorem PB.trans {a b c : State} {l1 l2 l3 : List Live} (h1 : PB a b l1 l2) (h2 : PB b c l2 l3) :
    PB a c l1 l3 := by
  intro k
  have := h1 k; have := h2 k; omega

theorem PB.of_mpool {s s' : State} {live : List Live} (h : s'.mpool = s.mpool) : PB s s' live live := by
  intro k; rw [h]

theorem loadMod_pb (cid app idx : Nat) (m : Mod) (s : State) (live : List Live) :
    PB s (loadMod cid app idx m s live).1 live (loadMod cid app idx m s live).2.1 := by
  unfold loadMod
  split
  · exact PB.rfl' _ _
  · unfold loadModAt
    split
    · split
      · intro k; simp [alloc]
      · split
        · intro k; simp [decr_incr, alloc]
        · intro k
          simp only [keys_append_some, List.count_append, alloc, incr]
          by_cases hk : k = m.key <;> simp [hk, List.count_cons] <;> omega
    · split
      · intro k; simp [decr_incr, alloc, ev]
      · split
        · intro k; simp [decr_incr, alloc, ev]
        · intro k
          simp only [keys_append_some, List.count_append, alloc, incr, ev]
          by_cases hk : k = m.key <;> simp [hk, List.count_cons] <;> omega

theorem loadMods_pb (cid app : Nat) : ∀ (ms : List Mod) (idx : Nat) (s : State) (live : List Live),
    PB s (loadMods cid app idx ms s live).1 live (loadMods cid app idx ms s live).2.1
  | [], _, s, live => PB.rfl' _ _
  | m :: ms, idx, s, live => by
    unfold loadMods
    have h1 := loadMod_pb cid app idx m s live
    generalize loadMod cid app idx m s live = r at h1
    obtain ⟨s', live', o⟩ := r
    cases o with
    | none => exact h1.trans (loadMods_pb cid app ms (idx + 1) s' live')
    | some r => exact h1

theorem loadApp_pb (cid : Nat) (a : App) (s : State) (live : List Live) :
    PB s (loadApp cid a s live).1 live (loadApp cid a s live).2.1 := by
  unfold loadApp
  split
  · exact PB.rfl' _ _
  · split
    · have h1 := loadMods_pb cid a.name a.mods 1 s live
      generalize loadMods cid a.name 1 a.mods s live = r at h1
      obtain ⟨s', live', o⟩ := r
      cases o with
      | some r => exact h1
      | none => dsimp only; split <;> exact h1
    · unfold loadProbeAppAt
      dsimp only
      have h1 : PB s _ live _ := (PB.of_mpool (s := s) (s' := ev (alloc s) [.prov ⟨s.nseq, cid, a.name, 0⟩]) rfl).trans
        (loadMods_pb cid a.name a.mods 1 (ev (alloc s) [.prov ⟨s.nseq, cid, a.name, 0⟩]) live)
      generalize loadMods cid a.name 1 a.mods (ev (alloc s) [.prov ⟨s.nseq, cid, a.name, 0⟩]) live = r at h1
      obtain ⟨s', live', o⟩ := r
      cases o with
      | some r => exact h1.trans (PB.of_mpool rfl)
      | none =>
        dsimp only
        split
        · exact h1.trans (PB.of_mpool rfl)
        · split
          · exact h1.trans (PB.of_mpool rfl)
          · refine h1.trans ?_
            intro k; simp [keys_append_none, ev]

theorem loadApps_pb (cid : Nat) : ∀ (as : List App) (s : State) (live : List Live),
    PB s (loadApps cid as s live).1 live (loadApps cid as s live).2.1
  | [], s, live => PB.rfl' _ _
  | a :: as, s, live => by
    unfold loadApps
    have h1 := loadApp_pb cid a s live
    generalize loadApp cid a s live = r at h1
    obtain ⟨s', live', o⟩ := r
    cases o with
    | none => exact h1.trans (loadApps_pb cid as s' live')
    | some r => exact h1

/-! logging never touches the guest pool and holds no guest keys -/

theorem openWriter_mpool (k : Nat) (s : State) : (openWriter k s).mpool = s.mpool := by
  unfold openWriter; split <;> rfl

theorem openLog_pb (cid idx : Nat) (m : Mod) (s : State) (live : List Live) (wk : List Nat) :
    PB s (openLog cid idx m s live wk).1 live (openLog cid idx m s live wk).2.1 := by
  unfold openLog
  split
  · exact PB.rfl' _ _
  · unfold openLogAt
    split
    · exact PB.of_mpool rfl
    · split
      · exact PB.of_mpool rfl
      · intro k; simp [keys_append_none, openWriter_mpool, ev, alloc]

theorem openLogsFrom_pb (cid : Nat) : ∀ (ms : List Mod) (idx : Nat) (s : State) (live : List Live)
    (wk : List Nat), PB s (openLogsFrom cid idx ms s live wk).1 live (openLogsFrom cid idx ms s live wk).2.1
  | [], _, s, live, _ => PB.rfl' _ _
  | m :: ms, idx, s, live, wk => by
    unfold openLogsFrom
    have h1 := openLog_pb cid idx m s live wk
    generalize openLog cid idx m s live wk = r at h1
    obtain ⟨s', live', wk', o⟩ := r
    cases o with
    | none => exact h1.trans (openLogsFrom_pb cid ms (idx + 1) s' live' wk')
    | some r => exact h1

theorem openLogs_pb (cid : Nat) (logs : List Mod) (s : State) :
    PB s (openLogs cid logs s).1 [] (openLogs cid logs s).2.1 := by
  unfold openLogs
  refine PB.trans (PB.of_mpool ?_) (openLogsFrom_pb cid logs 0 _ [] [0])
  show (openWriter 0 (ev s [.cbReg cid])).mpool = s.mpool
  rw [openWriter_mpool]; rfl

/-! cancel gives back exactly the keys of the list -/

theorem closeLogs_mpool : ∀ (ks : List Nat) (s : State), (closeLogs ks s).mpool = s.mpool
  | [], _ => rfl
  | k :: ks, s => by
    unfold closeLogs
    split <;> rw [closeLogs_mpool ks]
    rfl

theorem cleanupAll_mpool : ∀ (ls : List Live) (s : State) (k : Nat),
    (cleanupAll ls s).mpool k = s.mpool k - (keys ls).count k
  | [], s, k => by simp [cleanupAll, keys]
  | l :: ls, s, k => by
    unfold cleanupAll
    rw [cleanupAll_mpool ls]
    unfold cleanupOne
    cases hk : l.key with
    | none => simp [keys, List.filterMap_cons, hk, ev]
    | some k' =>
      simp only [keys, List.filterMap_cons, hk, ev, decr, List.count_cons]
      by_cases h : k = k'
      · subst h; simp; omega
      · have : ¬ k' = k := fun e => h e.symm
        simp [h, this]

theorem cancel_mpool (cid : Nat) (wk : List Nat) (live : List Live) (s : State) (k : Nat) :
    (cancel cid [] wk live s).mpool k = s.mpool k - (keys live).count k := by
  unfold cancel
  simp only [List.isEmpty_nil, if_true]
  exact cleanupAll_mpool live s k

/-! Start / Stop never touch the pool -/

theorem bindAll_mpool (cid : Nat) (a : App) (blocked l : List Nat) (s : State) :
    (bindAll cid a blocked l s).1.mpool = s.mpool := by
  obtain ⟨pre, suf, _, h2, _, _⟩ := C01.bindAll_spec cid a blocked l s
  rw [h2]

theorem startApp_mpool (cid : Nat) (blocked : List Nat) (a : App) (s : State) :
    (startApp cid blocked a s).1.mpool = s.mpool := by
  unfold startApp
  split
  · have h := bindAll_mpool cid a blocked a.listen s
    generalize bindAll cid a blocked a.listen s = r at h
    obtain ⟨s', b⟩ := r
    cases b with
    | true => dsimp only; split <;> exact h
    | false => exact h
  · split
    · rfl
    · have h := bindAll_mpool cid a blocked a.listen (evA s [.start cid a.name])
      generalize bindAll cid a blocked a.listen (evA s [.start cid a.name]) = r at h
      obtain ⟨s', b⟩ := r
      cases b <;> exact h

theorem stopApp_mpool (cid : Nat) (a : App) (s : State) : (stopApp cid a s).mpool = s.mpool := by
  unfold stopApp; split <;> rfl

theorem stopApps_mpool (cid : Nat) : ∀ (as : List App) (s : State), (stopApps cid as s).mpool = s.mpool
  | [], _ => rfl
  | a :: as, s => by unfold stopApps; rw [stopApps_mpool cid as, stopApp_mpool]

theorem startApps_mpool (cid : Nat) (blocked : List Nat) : ∀ (rest started : List App) (s : State),
    (startApps cid blocked started rest s).1.mpool = s.mpool
  | [], _, _ => rfl
  | a :: rest, started, s => by
    unfold startApps
    have h := startApp_mpool cid blocked a s
    generalize startApp cid blocked a s = r at h
    obtain ⟨s', b⟩ := r
    cases b with
    | true => dsimp only; rw [startApps_mpool cid blocked rest, h]
    | false => dsimp only; rw [stopApps_mpool, h]

/-! provisionContext, run -/

theorem loadStorAt_pb (i : Inst) (m : Mod) (s : State) (live : List Live) :
    PB s (loadStorAt i m s live).1 live (loadStorAt i m s live).2.1 := by
  unfold loadStorAt
  split
  · exact PB.of_mpool rfl
  · split
    · exact PB.of_mpool rfl
    · intro k; simp [keys_append_none, ev]

theorem setStorage_pb (cid : Nat) (m : Mod) (s : State) (live : List Live) :
    PB s (setStorage cid m s live).1 live (setStorage cid m s live).2.1 := by
  unfold setStorage
  split
  · exact PB.of_mpool rfl
  · split
    · exact PB.rfl' _ _
    · have h1 : PB s _ live _ := (PB.of_mpool (s := s) (s' := alloc s) rfl).trans
        (loadStorAt_pb ⟨s.nseq, cid, 102, 0⟩ m (alloc s) live)
      generalize loadStorAt ⟨s.nseq, cid, 102, 0⟩ m (alloc s) live = r at h1
      obtain ⟨s', live', o⟩ := r
      cases o with
      | none => exact h1.trans (PB.of_mpool rfl)
      | some r => exact h1

theorem restoreStorage_mpool (p : Nat) (s : State) : (restoreStorage p s).mpool = s.mpool := by
  unfold restoreStorage; split <;> rfl

theorem provisionContext_mp (cid : Nat) (c : Cfg) (pp : List Nat) (s : State) :
    (∀ r, (provisionContext cid c pp s).2.2 = some r → ∀ k, (provisionContext cid c pp s).1.mpool k = s.mpool k) ∧
    ((provisionContext cid c pp s).2.2 = none → ∃ ctx, (provisionContext cid c pp s).2.1 = some ctx ∧
      ctx.cbs = [] ∧ ∀ k, (provisionContext cid c pp s).1.mpool k = s.mpool k + (keys ctx.live).count k) := by
  unfold provisionContext
  have h1 := openLogs_pb cid c.logs s
  generalize openLogs cid c.logs s = r1 at h1
  obtain ⟨s1, live1, wk, o1⟩ := r1
  have e0 : ∀ k, (keys ([] : List Live)).count k = 0 := by intro k; simp [keys]
  cases o1 with
  | some r =>
    refine ⟨fun _ _ k => ?_, fun hh => by simp at hh⟩
    show (restoreStorage _ (cancel cid (onCancelOnCopy [] 0) wk live1 s1)).mpool k = _
    rw [restoreStorage_mpool, show onCancelOnCopy [] 0 = ([] : List Nat) from rfl, cancel_mpool]
    have := h1 k
    rw [e0] at this
    simp only at this
    omega
  | none =>
    dsimp only
    have h1' := h1.trans (setStorage_pb cid c.stor s1 live1)
    generalize setStorage cid c.stor s1 live1 = r1' at h1'
    obtain ⟨s1', live1', o1'⟩ := r1'
    cases o1' with
    | some r =>
      refine ⟨fun _ _ k => ?_, fun hh => by simp at hh⟩
      show (restoreStorage _ (cancel cid (onCancelOnCopy [] 0) wk live1' s1')).mpool k = _
      rw [restoreStorage_mpool, show onCancelOnCopy [] 0 = ([] : List Nat) from rfl, cancel_mpool]
      have := h1' k
      rw [e0] at this
      simp only at this
      omega
    | none =>
      dsimp only
      have h2 := h1'.trans (loadApps_pb cid (order pp c.apps) s1' live1')
      generalize loadApps cid (order pp c.apps) s1' live1' = r2 at h2
      obtain ⟨s2, live2, o2⟩ := r2
      cases o2 with
      | some r =>
        refine ⟨fun _ _ k => ?_, fun hh => by simp at hh⟩
        show (restoreStorage _ (cancel cid (onCancelOnCopy [] 0) wk live2 s2)).mpool k = _
        rw [restoreStorage_mpool, show onCancelOnCopy [] 0 = ([] : List Nat) from rfl, cancel_mpool]
        have := h2 k
        rw [e0] at this
        simp only at this
        omega
      | none =>
        refine ⟨fun r hh => by simp at hh, fun _ => ⟨_, rfl, rfl, fun k => ?_⟩⟩
        have := h2 k
        rw [e0] at this
        simpa using this

theorem finishSettingUp_mp (ctx : Ctx) (post : Bool) (s : State) :
    (finishSettingUp ctx post s).1.mpool = s.mpool ∧
    keys (finishSettingUp ctx post s).2.1.live = keys ctx.live ∧
    (finishSettingUp ctx post s).2.1.cbs = ctx.cbs := by
  unfold finishSettingUp finishSettingUpAt
  cases post with
  | true => exact ⟨rfl, rfl, rfl⟩
  | false => exact ⟨rfl, by simp [keys_append_none], rfl⟩

/-- run: a rejected run leaves the pool as it was, an accepted one adds exactly the keys held by
    the new context's modules -/
theorem run_mp (cid : Nat) (c : Cfg) (e : Env) (s : State) :
    match (run cid c e s).2.1 with
    | none => ∀ k, (run cid c e s).1.mpool k = s.mpool k
    | some ctx => ctx.cbs = [] ∧ ∀ k, (run cid c e s).1.mpool k = s.mpool k + (keys ctx.live).count k := by
  unfold run
  have h1 := provisionContext_mp cid c e.pp s
  generalize provisionContext cid c e.pp s = r1 at h1
  obtain ⟨s1, o1, e1⟩ := r1
  cases e1 with
  | some r => exact h1.1 r rfl
  | none =>
    obtain ⟨ctx, hctx, hcb, hmp⟩ := h1.2 rfl
    simp only at hctx
    subst hctx
    dsimp only
    by_cases hadm : e.adm = 2
    · simp only [hadm, if_true]
      intro k
      rw [restoreStorage_mpool, hcb, cancel_mpool, hmp k]; omega
    simp only [hadm, if_false]
    have h2 := startApps_mpool cid e.blocked (order e.ps ctx.apps) [] s1
    generalize startApps cid e.blocked [] (order e.ps ctx.apps) s1 = r2 at h2
    obtain ⟨s2, b⟩ := r2
    simp only at h2
    cases b with
    | false =>
      dsimp only
      intro k
      rw [restoreStorage_mpool, hcb, cancel_mpool, h2, hmp k]; omega
    | true =>
      dsimp only
      have h3 := finishSettingUp_mp ctx e.post s2
      generalize finishSettingUp ctx e.post s2 = r3 at h3
      obtain ⟨s3, ctx', b3⟩ := r3
      simp only at h3
      cases b3 with
      | false =>
        dsimp only
        intro k
        rw [restoreStorage_mpool]
        unfold unsyncedStop
        dsimp only
        rw [h3.2.2, hcb, cancel_mpool, stopApps_mpool, h3.1, h3.2.1, h2, hmp k]; omega
      | true =>
        dsimp only
        refine ⟨h3.2.2.trans hcb, fun k => ?_⟩
        rw [h3.1, h3.2.1, h2, hmp k]

/-- the pool invariant of reachable states -/
structure Inv5 (s : State) : Prop where
  pool : ∀ k, s.mpool k = (curKeys s).count k
  cbs : ∀ ctx, s.cur = some ctx → ctx.cbs = []

theorem inv5_init : Inv5 State.init :=
  ⟨by simp [State.init, curKeys], by simp [State.init]⟩

def keysOpt : Option Ctx → List Nat
  | none => []
  | some ctx => keys ctx.live

theorem curKeys_eq (s : State) : curKeys s = keysOpt s.cur := by
  unfold curKeys keysOpt; cases s.cur <;> rfl

theorem unsyncedStop_mp (old : Option Ctx) (s : State) (hc : ∀ ctx, old = some ctx → ctx.cbs = []) (k : Nat) :
    (unsyncedStop old s).mpool k = s.mpool k - (keysOpt old).count k := by
  cases old with
  | none => simp [unsyncedStop, keysOpt]
  | some ctx =>
    unfold unsyncedStop
    dsimp only
    rw [hc ctx rfl, cancel_mpool, stopApps_mpool]; rfl

theorem inv5_changeTo {s : State} (h : Inv5 s) (c : Cfg) (e : Env) :
    Inv5 (bump (changeTo c e s)).1 := by
  rcases C01.changeTo_cases c e s with ⟨_, h'⟩ | h' | ⟨s1, hq, h'⟩ | ⟨s1, r, hok, hq, h'⟩
  · rw [h']; exact ⟨h.pool, h.cbs⟩
  · rw [h']; exact ⟨h.pool, h.cbs⟩
  · rw [h']
    obtain ⟨s', ctx, hrun, rfl⟩ := C01.decodeAndRun_ok hq
    have hb := run_mp s.next c e { s with raw := some c }
    rw [hrun] at hb
    simp only at hb
    obtain ⟨hcb, hmp⟩ := hb
    have hu := C01.unsyncedStop_frame4 ({ s with raw := some c } : State).cur { s' with cur := some ctx }
    refine Inv5.mk (fun k => ?_) (fun ctx' hx => ?_)
    · show (unsyncedStop s.cur { s' with cur := some ctx }).mpool k =
        (match (unsyncedStop ({ s with raw := some c } : State).cur { s' with cur := some ctx }).cur with
          | none => [] | some ctx => keys ctx.live).count k
      rw [hu.cur, unsyncedStop_mp s.cur _ h.cbs k]
      show s'.mpool k - (keysOpt s.cur).count k = (keys ctx.live).count k
      rw [hmp k]
      show s.mpool k + (keys ctx.live).count k - (keysOpt s.cur).count k = (keys ctx.live).count k
      rw [h.pool k, curKeys_eq]; omega
    · have : (unsyncedStop ({ s with raw := some c } : State).cur { s' with cur := some ctx }).cur = some ctx' := hx
      rw [hu.cur] at this
      cases this
      exact hcb
  · rw [h']
    unfold decodeAndRun at hq
    split at hq
    · simp at hq
      obtain ⟨rfl, _⟩ := hq
      exact ⟨h.pool, h.cbs⟩
    · have hb := run_mp s.next c e { s with raw := some c }
      have hf := C01.run_frame4 s.next c e { s with raw := some c }
      have hnone := run_ctx_none s.next c e { s with raw := some c }
      generalize hrun : run s.next c e { s with raw := some c } = q at hq hb hf hnone
      obtain ⟨s', o, res⟩ := q
      by_cases hres : res = .ok
      · subst hres
        obtain ⟨ctx, rfl, _⟩ := C01.run_ok hrun
        simp at hq
        exact absurd hq.2.symm hok
      · have ho : o = none := hnone hres
        subst ho
        simp only at hb
        have : s1 = s' := by
          cases res <;> simp at hq hres ⊢ <;> exact hq.1.symm
        subst this
        refine Inv5.mk (fun k => ?_) (fun ctx hx => ?_)
        · show s1.mpool k = (match s1.cur with | none => [] | some ctx => keys ctx.live).count k
          rw [hf.cur, hb k]
          exact h.pool k
        · have : s1.cur = some ctx := hx
          rw [hf.cur] at this
          exact h.cbs ctx this

theorem inv5_same {s s' : State} (h : Inv5 s) (hm : s'.mpool = s.mpool) (hc : s'.cur = s.cur)
    (r : Res) : Inv5 (bump (s', r)).1 := by
  refine Inv5.mk (fun k => ?_) (fun ctx hx => h.cbs ctx (by have : s'.cur = some ctx := hx; rwa [hc] at this))
  show s'.mpool k = (match s'.cur with | none => [] | some ctx => keys ctx.live).count k
  rw [hm, hc]; exact h.pool k

theorem inv5_step {s : State} (h : Inv5 s) (op : Op) : Inv5 (step s op).1 := by
  cases op with
  | load c e => exact inv5_changeTo h c e
  | patch a e =>
    unfold step
    cases s.raw with
    | none => exact inv5_same h rfl rfl _
    | some c0 =>
      dsimp only
      cases replaceApp a c0.apps with
      | none => exact inv5_same h rfl rfl _
      | some apps => exact inv5_changeTo h _ e
  | del n e =>
    unfold step
    cases s.raw with
    | none => exact inv5_same h rfl rfl _
    | some c0 =>
      dsimp only
      cases removeApp n c0.apps with
      | none => exact inv5_same h rfl rfl _
      | some apps => exact inv5_changeTo h _ e
  | junk => exact inv5_same h rfl rfl _
  | validate c e =>
    have hf := C01.validate_frame c e s
    refine inv5_same h ?_ hf.cur _
    funext k
    unfold validate
    have h1 := provisionContext_mp s.next c e.pp s
    generalize provisionContext s.next c e.pp s = q at h1
    obtain ⟨s1, o, r⟩ := q
    cases r with
    | some r => exact h1.1 r rfl k
    | none =>
      obtain ⟨ctx, hctx, hcb, hmp⟩ := h1.2 rfl
      simp only at hctx
      subst hctx
      dsimp only
      rw [restoreStorage_mpool, hcb, cancel_mpool, hmp k]; omega
  | stop =>
    refine Inv5.mk (fun k => ?_) (fun ctx hx => ?_)
    · show (unsyncedStop s.cur s).mpool k = 0
      rw [unsyncedStop_mp s.cur s h.cbs k, h.pool k, curKeys_eq]; omega
    · have : (none : Option Ctx) = some ctx := hx
      cases this

theorem inv5_runOps : ∀ (ops : List Op) (s : State), Inv5 s → Inv5 (runOps s ops)
  | [], _, h => h
  | o :: os, s, h => inv5_runOps os _ (inv5_step h o)

/-! with an empty callback list, cancel releases no writer -/

theorem cleanupAll_writers : ∀ (ls : List Live) (s : State), (cleanupAll ls s).writers = s.writers
  | [], _ => rfl
  | l :: ls, s => by
    unfold cleanupAll
    rw [cleanupAll_writers ls]
    unfold cleanupOne
    split <;> rfl

theorem cancel_nil_writers (cid : Nat) (wk : List Nat) (live : List Live) (s : State) :
    (cancel cid [] wk live s).writers = s.writers := by
  unfold cancel
  simp only [List.isEmpty_nil, if_true]
  exact cleanupAll_writers live s

end CaddyModel.C03
