/-
C03 — helper lemmas, part 2: the balance between "Start returned nil" and "Stop" events.
Apps are identified by (context number, app name); the name is unique within a configuration.
-/
import CaddyModel.C03.Lemmas

set_option linter.unusedSimpArgs false
set_option linter.unusedVariables false

namespace CaddyModel.C03
open CaddyModel.Lifecycle

/-- `BalS E A n F`: in the app-event list `E`, with `A` the probe apps that are currently running,
    `n` the number of the context being built and `F` the names of its apps whose Start has
    already been attempted: no app finished Start twice, the running ones finished Start once and
    were never stopped, every other one was stopped exactly as often as it finished Start. -/
structure BalS (E : List Ev) (A : List (Nat × Nat)) (n : Nat) (F : List Nat) : Prop where
  fresh : ∀ c nm, (Ev.started c nm ∈ E ∨ Ev.stop c nm ∈ E) → c < n ∨ (c = n ∧ nm ∈ F)
  afresh : ∀ p ∈ A, p.1 < n ∨ (p.1 = n ∧ p.2 ∈ F)
  nodup : A.Nodup
  started1 : ∀ c nm, E.count (.started c nm) ≤ 1
  live : ∀ p ∈ A, E.count (.stop p.1 p.2) = 0 ∧ E.count (.started p.1 p.2) = 1
  dead : ∀ p, p ∉ A → E.count (.stop p.1 p.2) = E.count (.started p.1 p.2)

theorem BalS.perm {E : List Ev} {A A' : List (Nat × Nat)} {n : Nat} {F : List Nat}
    (h : BalS E A n F) (p : A.Perm A') : BalS E A' n F :=
  ⟨h.fresh, fun q hq => h.afresh q (p.mem_iff.mpr hq), p.nodup_iff.mp h.nodup, h.started1,
   fun q hq => h.live q (p.mem_iff.mpr hq), fun q hq => h.dead q (fun hh => hq (p.mem_iff.mp hh))⟩

theorem BalS.monoF {E : List Ev} {A : List (Nat × Nat)} {n : Nat} {F F' : List Nat}
    (h : BalS E A n F) (hf : ∀ x ∈ F, x ∈ F') : BalS E A n F' :=
  ⟨fun c nm hm => (h.fresh c nm hm).imp id (fun ⟨a, b⟩ => ⟨a, hf _ b⟩),
   fun p hp => (h.afresh p hp).imp id (fun ⟨a, b⟩ => ⟨a, hf _ b⟩), h.nodup, h.started1, h.live, h.dead⟩

theorem BalS.bump {E : List Ev} {A : List (Nat × Nat)} {n : Nat} {F : List Nat}
    (h : BalS E A n F) : BalS E A (n + 1) [] :=
  ⟨fun c nm hm => Or.inl (by rcases h.fresh c nm hm with h | ⟨h, _⟩ <;> omega),
   fun p hp => Or.inl (by rcases h.afresh p hp with h | ⟨h, _⟩ <;> omega), h.nodup, h.started1, h.live, h.dead⟩

def isSS : Ev → Bool
  | .started _ _ => true
  | .stop _ _ => true
  | _ => false

/-- events other than "started" / "stop" change nothing -/
theorem BalS.other {E : List Ev} {A : List (Nat × Nat)} {n : Nat} {F : List Nat} (h : BalS E A n F)
    (es : List Ev) (hes : ∀ e ∈ es, isSS e = false) : BalS (E ++ es) A n F := by
  have hc : ∀ c nm, es.count (.started c nm) = 0 ∧ es.count (.stop c nm) = 0 := by
    intro c nm
    constructor <;>
    · apply List.count_eq_zero.mpr
      intro hm
      have := hes _ hm
      simp [isSS] at this
  have hmem : ∀ c nm, (Ev.started c nm ∈ E ++ es ∨ Ev.stop c nm ∈ E ++ es) → (Ev.started c nm ∈ E ∨ Ev.stop c nm ∈ E) := by
    intro c nm hm
    rcases hm with hm | hm
    · rcases List.mem_append.mp hm with hm | hm
      · exact Or.inl hm
      · have := hes _ hm; simp [isSS] at this
    · rcases List.mem_append.mp hm with hm | hm
      · exact Or.inr hm
      · have := hes _ hm; simp [isSS] at this
  refine ⟨fun c nm hm => h.fresh c nm (hmem c nm hm), h.afresh, h.nodup, ?_, ?_, ?_⟩
  · intro c nm; rw [List.count_append, (hc c nm).1]; exact h.started1 c nm
  · intro p hp; rw [List.count_append, List.count_append, (hc p.1 p.2).1, (hc p.1 p.2).2]; exact h.live p hp
  · intro p hp; rw [List.count_append, List.count_append, (hc p.1 p.2).1, (hc p.1 p.2).2]; exact h.dead p hp

/-- app `nm` of the context being built finishes Start (its name was not attempted before) -/
theorem BalS.started {E : List Ev} {A : List (Nat × Nat)} {n : Nat} {F : List Nat} (h : BalS E A n F)
    (nm : Nat) (hnm : nm ∉ F) : BalS (E ++ [.started n nm]) ((n, nm) :: A) n (nm :: F) := by
  have hz1 : E.count (.started n nm) = 0 := by
    apply List.count_eq_zero.mpr
    intro hm
    rcases h.fresh n nm (Or.inl hm) with h | ⟨_, h⟩
    · omega
    · exact hnm h
  have hz2 : E.count (.stop n nm) = 0 := by
    apply List.count_eq_zero.mpr
    intro hm
    rcases h.fresh n nm (Or.inr hm) with h | ⟨_, h⟩
    · omega
    · exact hnm h
  have hnot : (n, nm) ∉ A := by
    intro hm
    rcases h.afresh _ hm with h | ⟨_, h⟩
    · simp at h
    · exact hnm h
  have cs : ∀ c m, [Ev.started n nm].count (.stop c m) = 0 := by intro c m; simp [List.count_cons]
  have cne : ∀ c m, (c, m) ≠ (n, nm) → [Ev.started n nm].count (.started c m) = 0 := by
    intro c m hne
    simp only [List.count_cons, List.count_nil, Nat.zero_add]
    split
    · rename_i heq
      simp at heq
      exact absurd (by rw [heq.1, heq.2]) hne
    · rfl
  refine ⟨?_, ?_, List.nodup_cons.mpr ⟨hnot, h.nodup⟩, ?_, ?_, ?_⟩
  · intro c m hm
    have : (Ev.started c m ∈ E ∨ Ev.stop c m ∈ E) ∨ (c = n ∧ m = nm) := by
      rcases hm with hm | hm
      · rcases List.mem_append.mp hm with hm | hm
        · exact Or.inl (Or.inl hm)
        · simp at hm; exact Or.inr hm
      · rcases List.mem_append.mp hm with hm | hm
        · exact Or.inl (Or.inr hm)
        · simp at hm
    rcases this with hm | ⟨rfl, rfl⟩
    · exact (h.fresh c m hm).imp id (fun ⟨a, b⟩ => ⟨a, List.mem_cons_of_mem _ b⟩)
    · exact Or.inr ⟨rfl, List.mem_cons_self⟩
  · intro p hp
    rcases List.mem_cons.mp hp with rfl | hp
    · exact Or.inr ⟨rfl, List.mem_cons_self⟩
    · exact (h.afresh p hp).imp id (fun ⟨a, b⟩ => ⟨a, List.mem_cons_of_mem _ b⟩)
  · intro c m
    rw [List.count_append]
    by_cases he : (c, m) = (n, nm)
    · cases he; simp [hz1]
    · rw [cne c m he]; exact h.started1 c m
  · intro p hp
    rw [List.count_append, List.count_append, cs]
    rcases List.mem_cons.mp hp with rfl | hp
    · simp [hz1, hz2]
    · have hne : (p.1, p.2) ≠ (n, nm) := fun e => hnot (by rw [← e]; exact hp)
      rw [cne p.1 p.2 hne]; exact h.live p hp
  · intro p hp
    rw [List.count_append, List.count_append, cs]
    have hne : (p.1, p.2) ≠ (n, nm) := fun e => hp (by rw [show p = (n, nm) from e]; exact List.mem_cons_self)
    rw [cne p.1 p.2 hne]
    exact h.dead p (fun hm => hp (List.mem_cons_of_mem _ hm))

/-- a running app is stopped -/
theorem BalS.stop {E : List Ev} {A : List (Nat × Nat)} {n : Nat} {F : List Nat} (h : BalS E A n F)
    (p : Nat × Nat) (hp : p ∈ A) : BalS (E ++ [.stop p.1 p.2]) (A.filter (· ≠ p)) n F := by
  have cs : ∀ c m, [Ev.stop p.1 p.2].count (.started c m) = 0 := by intro c m; simp [List.count_cons]
  have cne : ∀ q : Nat × Nat, q ≠ p → [Ev.stop p.1 p.2].count (.stop q.1 q.2) = 0 := by
    intro q hne
    simp only [List.count_cons, List.count_nil, Nat.zero_add]
    split
    · rename_i heq
      simp at heq
      exact absurd (Prod.ext heq.1.symm heq.2.symm) hne
    · rfl
  refine ⟨?_, fun q hq => h.afresh q (List.mem_filter.mp hq).1, h.nodup.filter _, ?_, ?_, ?_⟩
  · intro c m hm
    rcases hm with hm | hm
    · rcases List.mem_append.mp hm with hm | hm
      · exact h.fresh c m (Or.inl hm)
      · simp at hm
    · rcases List.mem_append.mp hm with hm | hm
      · exact h.fresh c m (Or.inr hm)
      · simp at hm
        obtain ⟨rfl, rfl⟩ := hm
        exact h.afresh p hp
  · intro c m; rw [List.count_append, cs]; exact h.started1 c m
  · intro q hq
    obtain ⟨hq1, hq2⟩ := List.mem_filter.mp hq
    have hne : q ≠ p := by simpa using hq2
    rw [List.count_append, List.count_append, cs, cne q hne]
    exact h.live q hq1
  · intro q hq
    rw [List.count_append, List.count_append, cs]
    by_cases he : q = p
    · subst he
      have := h.live q hp
      simp [this.1, this.2]
    · rw [cne q he]
      exact h.dead q (fun hm => hq (List.mem_filter.mpr ⟨hm, by simpa using he⟩))

/-! ### state level -/

theorem bindAll_aevents (cid : Nat) (a : App) (blocked l : List Nat) (s : State) :
    (bindAll cid a blocked l s).1.aevents = s.aevents := by
  obtain ⟨pre, suf, _, h2, _, _⟩ := C01.bindAll_spec cid a blocked l s
  rw [h2]

theorem probeApps_snoc (cid : Nat) (l : List App) (a : App) :
    probeApps cid (l ++ [a]) = probeApps cid l ++ (if a.isHttp then [] else [(cid, a.name)]) := by
  unfold probeApps
  cases h : a.isHttp <;> simp [List.filter_append, h]

theorem mem_probeApps {cid : Nat} {l : List App} {p : Nat × Nat} :
    p ∈ probeApps cid l ↔ ∃ a ∈ l, a.isHttp = false ∧ p = (cid, a.name) := by
  unfold probeApps
  simp only [List.mem_map, List.mem_filter]
  constructor
  · rintro ⟨a, ⟨h1, h2⟩, rfl⟩
    exact ⟨a, h1, by simpa using h2, rfl⟩
  · rintro ⟨a, h1, h2, rfl⟩
    exact ⟨a, ⟨h1, by simp [h2]⟩, rfl⟩

/-- one Start: a probe app that succeeds becomes a running app; anything else leaves the set -/
theorem startApp_balS (cid : Nat) (blocked : List Nat) (a : App) (s : State)
    (A : List (Nat × Nat)) (F : List Nat) (h : BalS s.aevents A cid F) (hn : a.name ∉ F) :
    BalS (startApp cid blocked a s).1.aevents
      (if (startApp cid blocked a s).2 = true ∧ a.isHttp = false then (cid, a.name) :: A else A) cid (a.name :: F) := by
  have hF : BalS s.aevents A cid (a.name :: F) := h.monoF (fun x hx => List.mem_cons_of_mem _ hx)
  unfold startApp
  split
  · rename_i hh
    simp only [hh, Bool.true_eq_false, and_false, if_false]
    have e1 := bindAll_aevents cid a blocked a.listen s
    generalize bindAll cid a blocked a.listen s = r at e1
    obtain ⟨s', b⟩ := r
    cases b with
    | true =>
      simp only at e1
      dsimp only
      split
      · simp only [Bool.false_eq_true, false_and, if_false]
        show BalS s'.aevents _ _ _; rw [e1]; exact hF
      · simp only [hh, Bool.true_eq_false, and_false, if_false]
        show BalS s'.aevents _ _ _; rw [e1]; exact hF
    | false => show BalS s'.aevents _ _ _; simp only at e1; rw [e1]; exact hF
  · rename_i hh
    have hh' : a.isHttp = false := by simpa using hh
    split
    · simp only [Bool.false_eq_true, false_and, if_false]
      exact hF.other _ (by simp [isSS])
    · have e1 := bindAll_aevents cid a blocked a.listen (evA s [.start cid a.name])
      generalize bindAll cid a blocked a.listen (evA s [.start cid a.name]) = r at e1
      obtain ⟨s', b⟩ := r
      cases b with
      | true =>
        simp only [hh', and_self, if_true]
        show BalS (s'.aevents ++ [Ev.started cid a.name]) _ _ _
        simp only at e1
        rw [e1]
        exact (h.other [.start cid a.name] (by simp [isSS])).started a.name hn
      | false =>
        simp only [Bool.false_eq_true, false_and, if_false]
        show BalS ((closeApp cid a.name s').aevents ++ [Ev.startFail cid a.name]) _ _ _
        simp only at e1
        show BalS (s'.aevents ++ [Ev.startFail cid a.name]) _ _ _
        rw [e1]
        have := (hF.other [.start cid a.name] (by simp [isSS])).other [.startFail cid a.name] (by simp [isSS])
        exact this

/-- Stop of a list of apps (distinct names) whose probe apps are all running -/
theorem stopApps_balS (cid n : Nat) (F : List Nat) : ∀ (l : List App) (s : State) (A : List (Nat × Nat)),
    BalS s.aevents A n F → (l.map (·.name)).Nodup → (∀ p ∈ probeApps cid l, p ∈ A) →
    BalS (stopApps cid l s).aevents (A.filter (fun p => p ∉ probeApps cid l)) n F
  | [], s, A, h, _, _ => by
    unfold stopApps
    have : A.filter (fun p => p ∉ probeApps cid []) = A := by
      apply List.filter_eq_self.mpr; intro p _; simp [probeApps]
    rw [this]; exact h
  | a :: l, s, A, h, hn, hm => by
    unfold stopApps
    obtain ⟨hn1, hn2⟩ := List.nodup_cons.mp hn
    cases hh : a.isHttp with
    | true =>
      have e : (stopApp cid a s).aevents = s.aevents := by unfold stopApp; simp [hh, closeApp]
      have hp : probeApps cid (a :: l) = probeApps cid l := by simp [probeApps, List.filter_cons, hh]
      rw [hp] at hm ⊢
      exact stopApps_balS cid n F l _ A (by rw [e]; exact h) hn2 hm
    | false =>
      have hp : probeApps cid (a :: l) = (cid, a.name) :: probeApps cid l := by
        simp [probeApps, List.filter_cons, hh]
      rw [hp] at hm ⊢
      have h1 : BalS (stopApp cid a s).aevents (A.filter (· ≠ (cid, a.name))) n F := by
        unfold stopApp
        simp only [hh, Bool.false_eq_true, if_false]
        exact h.stop (cid, a.name) (hm _ List.mem_cons_self)
      have hnot : (cid, a.name) ∉ probeApps cid l := by
        intro hx
        obtain ⟨b, hb1, _, hb3⟩ := mem_probeApps.mp hx
        simp at hb3
        exact hn1 (List.mem_map.mpr ⟨b, hb1, hb3.symm⟩)
      have h2 := stopApps_balS cid n F l _ _ h1 hn2 (by
        intro p hp'
        refine List.mem_filter.mpr ⟨hm p (List.mem_cons_of_mem _ hp'), ?_⟩
        have : p ≠ (cid, a.name) := fun e => hnot (e ▸ hp')
        simpa using this)
      rw [List.filter_filter] at h2
      have e : (fun p => decide (p ∉ probeApps cid l) && decide (p ≠ (cid, a.name))) =
          (fun p => decide (p ∉ (cid, a.name) :: probeApps cid l)) := by
        funext p
        by_cases h1 : p = (cid, a.name) <;> by_cases h2 : p ∈ probeApps cid l <;> simp [h1, h2]
      rw [e] at h2
      exact h2

theorem filter_notin_right {G X : List (Nat × Nat)} (h : (G ++ X).Nodup) :
    (G ++ X).filter (fun i => i ∉ X) = G := by
  rw [List.filter_append]
  have hd := (List.nodup_append.mp h).2.2
  have e1 : G.filter (fun i => decide (i ∉ X)) = G := by
    apply List.filter_eq_self.mpr
    intro i hi
    have : i ∉ X := fun hx => hd i hi i hx rfl
    simpa using this
  have e2 : X.filter (fun i => decide (i ∉ X)) = [] := by
    apply List.filter_eq_nil_iff.mpr
    intro i hi; simp [hi]
  rw [e1, e2, List.append_nil]

theorem filter_notin_left {G X : List (Nat × Nat)} (h : (G ++ X).Nodup) :
    (G ++ X).filter (fun i => i ∉ G) = X := by
  rw [List.filter_append]
  have hd := (List.nodup_append.mp h).2.2
  have e1 : X.filter (fun i => decide (i ∉ G)) = X := by
    apply List.filter_eq_self.mpr
    intro i hi
    have : i ∉ G := fun hx => hd i hx i hi rfl
    simpa using this
  have e2 : G.filter (fun i => decide (i ∉ G)) = [] := by
    apply List.filter_eq_nil_iff.mpr
    intro i hi; simp [hi]
  rw [e1, e2, List.nil_append]

/-- the start loop: on success every probe app of the list runs; on failure none of this context -/
theorem startApps_balS (cid : Nat) (blocked : List Nat) (A0 : List (Nat × Nat)) :
    ∀ (rest started : List App) (s : State),
    BalS s.aevents (A0 ++ probeApps cid started) cid (started.map (·.name)) →
    ((started ++ rest).map (·.name)).Nodup →
    ∃ F, BalS (startApps cid blocked started rest s).1.aevents
      (if (startApps cid blocked started rest s).2 = true then A0 ++ probeApps cid (started ++ rest) else A0) cid F
  | [], started, s, h, _ => by
    unfold startApps
    simp only [if_true, List.append_nil]
    exact ⟨_, h⟩
  | a :: rest, started, s, h, hn => by
    unfold startApps
    have hnF : a.name ∉ started.map (·.name) := by
      rw [List.map_append, List.map_cons] at hn
      have := (List.nodup_append.mp hn).2.2
      intro hx
      exact this _ hx _ List.mem_cons_self rfl
    have h1 := startApp_balS cid blocked a s _ _ h hnF
    generalize startApp cid blocked a s = r at h1
    obtain ⟨s', b⟩ := r
    cases b with
    | true =>
      dsimp only
      have hsn : (started ++ [a] ++ rest) = started ++ a :: rest := by simp
      have h2 : BalS s'.aevents (A0 ++ probeApps cid (started ++ [a])) cid ((started ++ [a]).map (·.name)) := by
        rw [probeApps_snoc]
        cases hh : a.isHttp with
        | true =>
          simp only [hh, true_and, Bool.true_eq_false, and_false, if_false, if_true, List.append_nil] at h1 ⊢
          exact h1.monoF (by intro x hx; simp at hx ⊢; rcases hx with h | h <;> simp [h])
        | false =>
          simp only [hh, and_self, if_true, Bool.false_eq_true, if_false] at h1 ⊢
          refine (h1.perm ?_).monoF (by intro x hx; simp at hx ⊢; rcases hx with h | h <;> simp [h])
          rw [← List.append_assoc]
          exact (List.perm_append_singleton _ _).symm
      have := startApps_balS cid blocked A0 rest (started ++ [a]) s' h2 (by rw [hsn]; exact hn)
      rw [hsn] at this
      exact this
    | false =>
      dsimp only
      simp only [Bool.false_eq_true, false_and, if_false] at h1 ⊢
      have hns : (started.map (·.name)).Nodup := by
        rw [List.map_append] at hn
        exact (List.nodup_append.mp hn).1
      have := stopApps_balS cid cid _ started s' _ h1 hns (fun p hp => List.mem_append_right _ hp)
      rw [filter_notin_right h1.nodup] at this
      exact ⟨_, this⟩

theorem probeApps_perm (cid : Nat) {l l' : List App} (p : l.Perm l') :
    (probeApps cid l).Perm (probeApps cid l') := (p.filter _).map _

theorem unsyncedStop_some_balS (ctx : Ctx) (s : State) (A0 : List (Nat × Nat)) (n : Nat) (F : List Nat)
    (hn : (ctx.apps.map (·.name)).Nodup) (h : BalS s.aevents (A0 ++ probeApps ctx.cid ctx.apps) n F) :
    BalS (unsyncedStop (some ctx) s).aevents A0 n F := by
  unfold unsyncedStop
  dsimp only
  rw [(C01.cancel_frame _ _ _ _ _).aevents]
  have := stopApps_balS ctx.cid n F ctx.apps s _ h hn (fun p hp => List.mem_append_right _ hp)
  rwa [filter_notin_right h.nodup] at this

theorem run_balS (cid : Nat) (c : Cfg) (e : Env) (s : State) (A0 : List (Nat × Nat))
    (h : BalS s.aevents A0 cid []) (hn : (c.apps.map (·.name)).Nodup) :
    ∃ F, match (run cid c e s).2.1 with
    | none => BalS (run cid c e s).1.aevents A0 cid F
    | some ctx => ctx.cid = cid ∧ ctx.apps = c.apps ∧
        BalS (run cid c e s).1.aevents (A0 ++ probeApps cid c.apps) cid F := by
  unfold run
  have h1 := C01.provisionContext_frame cid c e.pp s
  have hc := C01.provisionContext_ctx cid c e.pp s
  generalize provisionContext cid c e.pp s = r1 at h1 hc
  obtain ⟨s1, o1, e1⟩ := r1
  have hb1 : BalS s1.aevents A0 cid [] := by rw [h1.aevents]; exact h
  cases e1 with
  | some r => exact ⟨[], hb1⟩
  | none =>
    cases o1 with
    | none => exact ⟨[], hb1⟩
    | some ctx =>
      obtain ⟨hc1, hc2⟩ := hc s1 ctx rfl
      dsimp only
      by_cases hadm : e.adm = 2
      · simp only [hadm, if_true]
        refine ⟨[], ?_⟩
        show BalS (restoreStorage _ (cancel cid ctx.cbs ctx.wkeys ctx.live s1)).aevents A0 cid []
        rw [(C01.restoreStorage_frame _ _).aevents, (C01.cancel_frame _ _ _ _ _).aevents]; exact hb1
      simp only [hadm, if_false]
      have hno : ((order e.ps ctx.apps).map (·.name)).Nodup := by
        rw [hc2]
        exact ((C01.order_perm e.ps c.apps).map _).nodup_iff.mpr hn
      obtain ⟨F, h2⟩ := startApps_balS cid e.blocked A0 (order e.ps ctx.apps) [] s1
        (by simpa [probeApps] using hb1) (by simpa using hno)
      generalize startApps cid e.blocked [] (order e.ps ctx.apps) s1 = r2 at h2
      obtain ⟨s2, b⟩ := r2
      cases b with
      | false =>
        dsimp only
        simp only [Bool.false_eq_true, if_false] at h2
        refine ⟨F, ?_⟩
        show BalS (restoreStorage _ (cancel cid ctx.cbs ctx.wkeys ctx.live s2)).aevents A0 cid F
        rw [(C01.restoreStorage_frame _ _).aevents, (C01.cancel_frame _ _ _ _ _).aevents]; exact h2
      | true =>
        dsimp only
        simp only [if_true, List.nil_append] at h2
        have h2' : BalS s2.aevents (A0 ++ probeApps cid c.apps) cid F := by
          refine h2.perm (List.Perm.append_left _ ?_)
          rw [hc2]
          exact probeApps_perm cid (C01.order_perm e.ps c.apps)
        have h3 := C01.finishSettingUp_spec ctx e.post s2
        generalize finishSettingUp ctx e.post s2 = r3 at h3
        obtain ⟨s3, ctx', b3⟩ := r3
        have h3b : BalS s3.aevents (A0 ++ probeApps cid c.apps) cid F := by
          have := h3.1.aevents
          simp only at this
          rw [this]; exact h2'
        cases b3 with
        | false =>
          dsimp only
          refine ⟨F, ?_⟩
          have e1 : ctx'.cid = cid := h3.2.1.trans hc1
          have e2 : ctx'.apps = c.apps := h3.2.2.1.trans hc2
          show BalS (restoreStorage _ (unsyncedStop (some ctx') s3)).aevents A0 cid F
          rw [(C01.restoreStorage_frame _ _).aevents]
          exact unsyncedStop_some_balS ctx' s3 A0 cid F (by rw [e2]; exact hn) (by rw [e1, e2]; exact h3b)
        | true =>
          dsimp only
          exact ⟨F, h3.2.1.trans hc1, h3.2.2.1.trans hc2, h3b⟩

/-- the app-level invariant of reachable states -/
structure Inv4 (s : State) : Prop where
  bal : BalS s.aevents (curApps s) s.next []
  names : ∀ ctx, s.cur = some ctx → (ctx.apps.map (·.name)).Nodup
  rawWF : ∀ c, s.raw = some c → (c.apps.map (·.name)).Nodup
  jsonWF : ∀ c, s.rawJSON = some c → (c.apps.map (·.name)).Nodup

theorem inv4_init : Inv4 State.init :=
  ⟨⟨by simp [State.init], by simp [curApps, State.init], by simp [curApps, State.init],
    by simp [State.init], by simp [curApps, State.init], by simp [State.init]⟩,
   by simp [State.init], by simp [State.init], by simp [State.init]⟩

def probeOpt : Option Ctx → List (Nat × Nat)
  | none => []
  | some ctx => probeApps ctx.cid ctx.apps

theorem curApps_eq (s : State) : curApps s = probeOpt s.cur := by
  unfold curApps probeOpt; cases s.cur <;> rfl

theorem unsyncedStop_balS (old : Option Ctx) (s : State) (X : List (Nat × Nat)) (n : Nat) (F : List Nat)
    (hn : ∀ ctx, old = some ctx → (ctx.apps.map (·.name)).Nodup)
    (h : BalS s.aevents (probeOpt old ++ X) n F) : BalS (unsyncedStop old s).aevents X n F := by
  cases old with
  | none => simpa [unsyncedStop, probeOpt] using h
  | some ctx =>
    unfold unsyncedStop
    dsimp only
    rw [(C01.cancel_frame _ _ _ _ _).aevents]
    have h' : BalS s.aevents (probeApps ctx.cid ctx.apps ++ X) n F := h
    have := stopApps_balS ctx.cid n F ctx.apps s _ h' (hn ctx rfl) (fun p hp => List.mem_append_left _ hp)
    rwa [filter_notin_left h'.nodup] at this

theorem bal_of_cur (U : State) (ctx : Ctx) (n : Nat) (hcur : U.cur = some ctx) (hnext : U.next = n)
    (hb : BalS U.aevents (probeApps ctx.cid ctx.apps) (n + 1) []) :
    BalS (bump (U, Res.ok)).1.aevents (curApps (bump (U, Res.ok)).1) (bump (U, Res.ok)).1.next [] := by
  show BalS U.aevents (match U.cur with | none => [] | some ctx => probeApps ctx.cid ctx.apps) (U.next + 1) []
  rw [hcur, hnext]; exact hb

theorem inv4_changeTo {s : State} (h : Inv4 s) (c : Cfg) (e : Env) (hn : (c.apps.map (·.name)).Nodup) :
    Inv4 (bump (changeTo c e s)).1 := by
  have hraw : ∀ c', some c = some c' → (c'.apps.map (·.name)).Nodup := by
    intro c' hc; cases hc; exact hn
  rcases C01.changeTo_cases c e s with ⟨_, h'⟩ | h' | ⟨s1, hq, h'⟩ | ⟨s1, r, hok, hq, h'⟩
  · rw [h']
    exact ⟨h.bal.bump, h.names, hraw, h.jsonWF⟩
  · rw [h']
    exact ⟨h.bal.bump, h.names, h.jsonWF, h.jsonWF⟩
  · rw [h']
    obtain ⟨s', ctx, hrun, rfl⟩ := C01.decodeAndRun_ok hq
    obtain ⟨F, hb⟩ := run_balS s.next c e { s with raw := some c } (curApps s) h.bal hn
    rw [hrun] at hb
    simp only at hb
    obtain ⟨hcid, happs, hsb⟩ := hb
    have hu := C01.unsyncedStop_frame4 ({ s with raw := some c } : State).cur { s' with cur := some ctx }
    have hf := C01.run_frame4 s.next c e { s with raw := some c }
    rw [hrun] at hf
    have hstop := unsyncedStop_balS s.cur { s' with cur := some ctx } (probeApps s.next c.apps) s.next F h.names
      (by rw [← curApps_eq]; exact hsb)
    refine ⟨?_, ?_, ?_, hraw⟩
    rotate_left 2
    · intro c' hc'
      have : (unsyncedStop ({ s with raw := some c } : State).cur { s' with cur := some ctx }).raw = some c' := hc'
      rw [hu.raw] at this
      have e2 : s'.raw = some c' := this
      rw [hf.raw] at e2
      exact hraw c' e2
    · have hp : probeApps ctx.cid ctx.apps = probeApps s.next c.apps := by rw [hcid, happs]
      exact bal_of_cur _ ctx s.next hu.cur (hu.next.trans hf.next) (by rw [hp]; exact hstop.bump)
    · intro ctx' hx
      have : (unsyncedStop ({ s with raw := some c } : State).cur { s' with cur := some ctx }).cur = some ctx' := hx
      rw [hu.cur] at this
      cases this
      rw [happs]; exact hn
  · rw [h']
    unfold decodeAndRun at hq
    split at hq
    · simp at hq
      obtain ⟨rfl, _⟩ := hq
      exact ⟨h.bal.bump, h.names, h.jsonWF, h.jsonWF⟩
    · obtain ⟨F, hb⟩ := run_balS s.next c e { s with raw := some c } (curApps s) h.bal hn
      have hf := C01.run_frame4 s.next c e { s with raw := some c }
      have hnone := run_ctx_none s.next c e { s with raw := some c }
      generalize hrun : run s.next c e { s with raw := some c } = q at hq hb hf hnone
      obtain ⟨s', o, res⟩ := q
      by_cases hres : res = .ok
      · subst hres
        obtain ⟨ctx, rfl, _⟩ := C01.run_ok hrun
        simp at hq
        exact absurd hq.2.symm hok
      · have ho : o = none := hnone hres
        subst ho
        simp only at hb
        have : s1 = s' := by
          cases res <;> simp at hq hres ⊢ <;> exact hq.1.symm
        subst this
        refine ⟨?_, ?_, h.jsonWF, ?_⟩
        · show BalS s1.aevents (match s1.cur with | none => [] | some ctx => probeApps ctx.cid ctx.apps) (s1.next + 1) []
          rw [hf.cur, hf.next]
          exact hb.bump
        · intro ctx hx
          have : s1.cur = some ctx := hx
          rw [hf.cur] at this
          exact h.names ctx this
        · intro c' hc'
          have : s1.rawJSON = some c' := hc'
          rw [hf.rawJSON] at this
          exact h.jsonWF c' this

theorem replaceApp_names (a : App) : ∀ (l l' : List App), replaceApp a l = some l' →
    l'.map (·.name) = l.map (·.name)
  | [], _, h => by simp [replaceApp] at h
  | b :: rest, l', h => by
    unfold replaceApp at h
    split at h
    · rename_i hb
      simp at h; subst h; simp [hb]
    · generalize hr : replaceApp a rest = r at h
      cases r with
      | none => simp at h
      | some r' =>
        simp at h; subst h
        simp [replaceApp_names a rest r' hr]

theorem removeApp_sublist (n : Nat) : ∀ (l l' : List App), removeApp n l = some l' → l'.Sublist l
  | [], _, h => by simp [removeApp] at h
  | b :: rest, l', h => by
    unfold removeApp at h
    split at h
    · simp at h; subst h; exact List.sublist_cons_self _ _
    · generalize hr : removeApp n rest = r at h
      cases r with
      | none => simp at h
      | some r' =>
        simp at h; subst h
        exact (removeApp_sublist n rest r' hr).cons_cons _

/-- configurations that are submitted whole have distinct app names (JSON object keys) -/
def opWF : Op → Prop
  | .load c _ => (c.apps.map (·.name)).Nodup
  | _ => True

instance (op : Op) : Decidable (opWF op) := by
  cases op <;> unfold opWF <;> infer_instance

theorem inv4_frame {s s' : State} (h : Inv4 s) (hf : C01.FrameX s s') (r : Res) : Inv4 (bump (s', r)).1 := by
  refine ⟨?_, fun ctx hx => h.names ctx (by have : s'.cur = some ctx := hx; rwa [hf.cur] at this),
    fun c hx => h.rawWF c (by have : s'.raw = some c := hx; rwa [hf.raw] at this),
    fun c hx => h.jsonWF c (by have : s'.rawJSON = some c := hx; rwa [hf.rawJSON] at this)⟩
  show BalS s'.aevents (match s'.cur with | none => [] | some ctx => probeApps ctx.cid ctx.apps) (s'.next + 1) []
  rw [hf.aevents, hf.cur, hf.next]
  exact h.bal.bump

theorem inv4_step {s : State} (h : Inv4 s) (op : Op) (hw : opWF op) : Inv4 (step s op).1 := by
  cases op with
  | load c e => exact inv4_changeTo h c e hw
  | patch a e =>
    unfold step
    cases hr : s.raw with
    | none => exact inv4_frame h (C01.FrameX.rfl' s) _
    | some c0 =>
      dsimp only
      cases hra : replaceApp a c0.apps with
      | none => exact inv4_frame h (C01.FrameX.rfl' s) _
      | some apps =>
        refine inv4_changeTo h _ e ?_
        show (apps.map (·.name)).Nodup
        rw [replaceApp_names a c0.apps apps hra]
        exact h.rawWF c0 hr
  | del n e =>
    unfold step
    cases hr : s.raw with
    | none => exact inv4_frame h (C01.FrameX.rfl' s) _
    | some c0 =>
      dsimp only
      cases hra : removeApp n c0.apps with
      | none => exact inv4_frame h (C01.FrameX.rfl' s) _
      | some apps =>
        refine inv4_changeTo h _ e ?_
        show (apps.map (·.name)).Nodup
        exact ((removeApp_sublist n c0.apps apps hra).map _).nodup (h.rawWF c0 hr)
  | junk => exact inv4_frame h (C01.FrameX.rfl' s) _
  | validate c e => exact inv4_frame h (C01.validate_frame c e s) _
  | stop =>
    have hb := unsyncedStop_balS s.cur s [] s.next [] h.names (by rw [List.append_nil, ← curApps_eq]; exact h.bal)
    have hf := C01.unsyncedStop_frame4 s.cur s
    refine Inv4.mk ?_ (fun ctx hx => ?_) (fun c hx => ?_) (fun c hx => ?_)
    rotate_left 1
    · have : (none : Option Ctx) = some ctx := hx
      cases this
    · have : (none : Option Cfg) = some c := hx
      cases this
    · have : (none : Option Cfg) = some c := hx
      cases this
    show BalS (unsyncedStop s.cur s).aevents [] ((unsyncedStop s.cur s).next + 1) []
    rw [hf.next]
    exact hb.bump

theorem inv4_runOps : ∀ (ops : List Op) (s : State), Inv4 s → (∀ op ∈ ops, opWF op) → Inv4 (runOps s ops)
  | [], _, h, _ => h
  | o :: os, s, h, hw => inv4_runOps os _ (inv4_step h o (hw o List.mem_cons_self))
      (fun op hop => hw op (List.mem_cons_of_mem _ hop))

end CaddyModel.C03
