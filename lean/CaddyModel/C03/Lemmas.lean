/-
C03 — helper lemmas: the balance invariant between Provision and Cleanup events.
-/
import CaddyModel.C03.Model

set_option linter.unusedSimpArgs false
set_option linter.unusedVariables false

namespace CaddyModel.C03
open CaddyModel.Lifecycle

/-! ### Provision / Cleanup balance

`Bal E L n`: in the event list `E`, with `L` the instances that are currently alive (loaded into
some context that has not been cancelled) and `n` the instance counter: no instance was
provisioned twice, the live ones were provisioned once and never cleaned up, every other one was
cleaned up exactly as often as it was provisioned. -/
structure Bal (E : List Ev) (L : List Inst) (n : Nat) : Prop where
  fresh : ∀ e ∈ E, ∀ i, evInst e = some i → i.seq < n
  lfresh : ∀ i ∈ L, i.seq < n
  nodup : L.Nodup
  prov1 : ∀ i, E.count (.prov i) ≤ 1
  live : ∀ i ∈ L, E.count (.clean i) = 0 ∧ E.count (.prov i) = 1
  dead : ∀ i, i ∉ L → E.count (.clean i) = E.count (.prov i)

theorem Bal.perm {E : List Ev} {L L' : List Inst} {n : Nat} (h : Bal E L n) (p : L.Perm L') : Bal E L' n :=
  ⟨h.fresh, fun i hi => h.lfresh i (p.mem_iff.mpr hi), p.nodup_iff.mp h.nodup, h.prov1,
   fun i hi => h.live i (p.mem_iff.mpr hi), fun i hi => h.dead i (fun hh => hi (p.mem_iff.mp hh))⟩

theorem Bal.mono {E : List Ev} {L : List Inst} {n n' : Nat} (h : Bal E L n) (hn : n ≤ n') : Bal E L n' :=
  ⟨fun e he i hi => Nat.lt_of_lt_of_le (h.fresh e he i hi) hn,
   fun i hi => Nat.lt_of_lt_of_le (h.lfresh i hi) hn, h.nodup, h.prov1, h.live, h.dead⟩

theorem count_prov_fresh {E : List Ev} {L : List Inst} {n : Nat} (h : Bal E L n) (i : Inst)
    (hi : n ≤ i.seq) : E.count (.prov i) = 0 ∧ E.count (.clean i) = 0 := by
  constructor
  · apply List.count_eq_zero.mpr
    intro hm
    exact absurd (h.fresh _ hm i rfl) (Nat.not_lt.mpr hi)
  · apply List.count_eq_zero.mpr
    intro hm
    exact absurd (h.fresh _ hm i rfl) (Nat.not_lt.mpr hi)

/-- events that are about no instance change nothing -/
theorem Bal.other {E : List Ev} {L : List Inst} {n : Nat} (h : Bal E L n) (es : List Ev)
    (hes : ∀ e ∈ es, evInst e = none) : Bal (E ++ es) L n := by
  have hc : ∀ i, (es.count (.prov i) = 0) ∧ (es.count (.clean i) = 0) := by
    intro i
    constructor <;>
    · apply List.count_eq_zero.mpr
      intro hm
      have := hes _ hm
      simp [evInst] at this
  refine ⟨?_, h.lfresh, h.nodup, ?_, ?_, ?_⟩
  · intro e he i hi
    rcases List.mem_append.mp he with he | he
    · exact h.fresh e he i hi
    · rw [hes e he] at hi; cases hi
  · intro i; rw [List.count_append, (hc i).1]; exact h.prov1 i
  · intro i hi; rw [List.count_append, List.count_append, (hc i).1, (hc i).2]; exact h.live i hi
  · intro i hi; rw [List.count_append, List.count_append, (hc i).1, (hc i).2]; exact h.dead i hi

/-- `valid i` for an existing instance changes nothing -/
theorem Bal.valid {E : List Ev} {L : List Inst} {n : Nat} (h : Bal E L n) (i : Inst) (hi : i.seq < n) :
    Bal (E ++ [.valid i]) L n := by
  refine ⟨?_, h.lfresh, h.nodup, ?_, ?_, ?_⟩
  · intro e he j hj
    rcases List.mem_append.mp he with he | he
    · exact h.fresh e he j hj
    · simp at he; subst he; simp [evInst] at hj; subst hj; exact hi
  · intro j; simp [List.count_append]; exact h.prov1 j
  · intro j hj; simp [List.count_append]; exact h.live j hj
  · intro j hj; simp [List.count_append]; exact h.dead j hj

/-- a new instance is provisioned and alive -/
theorem Bal.prov {E : List Ev} {L : List Inst} {n : Nat} (h : Bal E L n) (i : Inst) (hi : i.seq = n) :
    Bal (E ++ [.prov i]) (i :: L) (n + 1) := by
  have hz := count_prov_fresh h i (Nat.le_of_eq hi.symm)
  have hnot : i ∉ L := fun hm => absurd (h.lfresh i hm) (by omega)
  refine ⟨?_, ?_, List.nodup_cons.mpr ⟨hnot, h.nodup⟩, ?_, ?_, ?_⟩
  · intro e he j hj
    rcases List.mem_append.mp he with he | he
    · exact Nat.lt_succ_of_lt (h.fresh e he j hj)
    · simp at he; subst he; simp [evInst] at hj; subst hj; omega
  · intro j hj
    rcases List.mem_cons.mp hj with rfl | hj
    · omega
    · exact Nat.lt_succ_of_lt (h.lfresh j hj)
  · intro j
    rw [List.count_append]
    by_cases hji : j = i
    · subst hji; simp [hz.1]
    · have : [Ev.prov i].count (.prov j) = 0 := by simp [List.count_cons, hji, Ne.symm hji]
      rw [this]; exact h.prov1 j
  · intro j hj
    rw [List.count_append, List.count_append]
    have hc : [Ev.prov i].count (.clean j) = 0 := by simp [List.count_cons]
    rcases List.mem_cons.mp hj with rfl | hj
    · simp [hz.1, hz.2, hc]
    · have hji : j ≠ i := fun e => hnot (e ▸ hj)
      have : [Ev.prov i].count (.prov j) = 0 := by simp [List.count_cons, hji, Ne.symm hji]
      rw [hc, this]; exact h.live j hj
  · intro j hj
    rw [List.count_append, List.count_append]
    have hc : [Ev.prov i].count (.clean j) = 0 := by simp [List.count_cons]
    have hji : j ≠ i := fun e => hj (e ▸ List.mem_cons_self)
    have : [Ev.prov i].count (.prov j) = 0 := by simp [List.count_cons, hji, Ne.symm hji]
    rw [hc, this]
    exact h.dead j (fun hm => hj (List.mem_cons_of_mem _ hm))

/-- a live instance is cleaned up: it is no longer alive, and balanced -/
theorem Bal.clean {E : List Ev} {L : List Inst} {n : Nat} (h : Bal E L n) (i : Inst) (hi : i ∈ L) :
    Bal (E ++ [.clean i]) (L.filter (· ≠ i)) n := by
  refine ⟨?_, ?_, h.nodup.filter _, ?_, ?_, ?_⟩
  · intro e he j hj
    rcases List.mem_append.mp he with he | he
    · exact h.fresh e he j hj
    · simp at he; subst he; simp [evInst] at hj; subst hj; exact h.lfresh _ hi
  · intro j hj; exact h.lfresh j (List.mem_filter.mp hj).1
  · intro j; simp [List.count_append, List.count_cons]; exact h.prov1 j
  · intro j hj
    obtain ⟨hj1, hj2⟩ := List.mem_filter.mp hj
    have hji : j ≠ i := by simpa using hj2
    rw [List.count_append, List.count_append]
    have : [Ev.clean i].count (.clean j) = 0 := by simp [List.count_cons, hji, Ne.symm hji]
    have hp : [Ev.clean i].count (.prov j) = 0 := by simp [List.count_cons]
    rw [this, hp]; exact h.live j hj1
  · intro j hj
    rw [List.count_append, List.count_append]
    have hp : [Ev.clean i].count (.prov j) = 0 := by simp [List.count_cons]
    rw [hp]
    by_cases hji : j = i
    · subst hji
      have := h.live j hi
      simp [this.1, this.2]
    · have : [Ev.clean i].count (.clean j) = 0 := by simp [List.count_cons, hji, Ne.symm hji]
      rw [this]
      apply h.dead j
      intro hm
      exact hj (List.mem_filter.mpr ⟨hm, by simpa using hji⟩)

theorem filter_ne_cons_self {i : Inst} {L : List Inst} (h : i ∉ L) : (i :: L).filter (· ≠ i) = L := by
  simp only [List.filter_cons, ne_eq, not_true_eq_false, decide_false, Bool.false_eq_true, if_false]
  apply List.filter_eq_self.mpr
  intro j hj
  have : j ≠ i := fun e => h (e ▸ hj)
  simpa using this

/-! derived steps for the event lists the model appends -/

theorem Bal.prov_valid {E : List Ev} {L : List Inst} {n : Nat} (h : Bal E L n) (i : Inst) (hi : i.seq = n) :
    Bal (E ++ [.prov i, .valid i]) (i :: L) (n + 1) := by
  have := (h.prov i hi).valid i (by omega)
  simpa [List.append_assoc] using this

theorem Bal.prov_clean {E : List Ev} {L : List Inst} {n : Nat} (h : Bal E L n) (i : Inst) (hi : i.seq = n) :
    Bal (E ++ [.prov i, .clean i]) L (n + 1) := by
  have hnot : i ∉ L := fun hm => absurd (h.lfresh i hm) (by omega)
  have := (h.prov i hi).clean i List.mem_cons_self
  rw [filter_ne_cons_self hnot] at this
  simpa [List.append_assoc] using this

theorem Bal.prov_valid_clean {E : List Ev} {L : List Inst} {n : Nat} (h : Bal E L n) (i : Inst) (hi : i.seq = n) :
    Bal (E ++ [.prov i, .valid i, .clean i]) L (n + 1) := by
  have hnot : i ∉ L := fun hm => absurd (h.lfresh i hm) (by omega)
  have := ((h.prov i hi).valid i (by omega)).clean i List.mem_cons_self
  rw [filter_ne_cons_self hnot] at this
  simpa [List.append_assoc] using this

theorem Bal.valid_clean {E : List Ev} {L : List Inst} {n : Nat} (i : Inst) (hnot : i ∉ L)
    (h : Bal E (i :: L) n) : Bal (E ++ [.valid i, .clean i]) L n := by
  have := (h.valid i (h.lfresh i List.mem_cons_self)).clean i List.mem_cons_self
  rw [filter_ne_cons_self hnot] at this
  simpa [List.append_assoc] using this

theorem Bal.clean_head {E : List Ev} {L : List Inst} {n : Nat} (i : Inst) (hnot : i ∉ L)
    (h : Bal E (i :: L) n) : Bal (E ++ [.clean i]) L n := by
  have := h.clean i List.mem_cons_self
  rwa [filter_ne_cons_self hnot] at this

/-! ### state level -/

/-- the balance invariant of a state, for a given set of live instances -/
def SB (s : State) (L : List Inst) : Prop := Bal s.events L s.nseq

theorem nq_append_probe (live : List Live) (i : Inst) (k : Option Nat) :
    nq (live ++ [⟨i, k, false⟩]) = nq live ++ [i] := by simp [nq, List.filter_append]

theorem nq_append_quiet (live : List Live) (i : Inst) (k : Option Nat) :
    nq (live ++ [⟨i, k, true⟩]) = nq live := by simp [nq, List.filter_append]

theorem perm_snoc (G X : List Inst) (i : Inst) : (i :: (G ++ X)).Perm (G ++ (X ++ [i])) := by
  rw [← List.append_assoc]
  exact (List.perm_append_singleton i (G ++ X)).symm

theorem loadMod_bal (cid app idx : Nat) (m : Mod) (s : State) (live : List Live) (G : List Inst)
    (h : SB s (G ++ nq live)) :
    SB (loadMod cid app idx m s live).1 (G ++ nq (loadMod cid app idx m s live).2.1) := by
  unfold loadMod
  split
  · exact h
  · unfold loadModAt
    have hm : SB (alloc s) (G ++ nq live) := Bal.mono h (Nat.le_succ _)
    split
    · split
      · exact hm
      · split
        · exact hm
        · simp only [nq_append_quiet]; exact hm
    · split
      · exact Bal.prov_clean h _ rfl
      · split
        · exact Bal.prov_valid_clean h _ rfl
        · simp only [nq_append_probe]
          exact (Bal.prov_valid h _ rfl).perm (perm_snoc _ _ _)

theorem loadMods_bal (cid app : Nat) (G : List Inst) : ∀ (ms : List Mod) (idx : Nat) (s : State)
    (live : List Live), SB s (G ++ nq live) →
    SB (loadMods cid app idx ms s live).1 (G ++ nq (loadMods cid app idx ms s live).2.1)
  | [], _, _, _, h => h
  | m :: ms, idx, s, live, h => by
    unfold loadMods
    have h1 := loadMod_bal cid app idx m s live G h
    generalize loadMod cid app idx m s live = r at h1
    obtain ⟨s', live', o⟩ := r
    cases o with
    | none => exact loadMods_bal cid app G ms (idx + 1) s' live' h1
    | some r => exact h1

theorem loadProbeAppAt_bal (i : Inst) (a : App) (s : State) (live : List Live) (G : List Inst)
    (hi : i.seq + 1 = s.nseq) (h : Bal s.events (G ++ nq live) i.seq) :
    SB (loadProbeAppAt i a s live).1 (G ++ nq (loadProbeAppAt i a s live).2.1) := by
  unfold loadProbeAppAt
  have h0 : SB (ev s [.prov i]) ((i :: G) ++ nq live) := by
    have := h.prov i rfl
    unfold SB
    show Bal (s.events ++ [Ev.prov i]) (i :: G ++ nq live) s.nseq
    rw [← hi]
    exact this
  have h1 := loadMods_bal i.cid a.name (i :: G) a.mods 1 _ live h0
  generalize loadMods i.cid a.name 1 a.mods (ev s [.prov i]) live = r at h1
  obtain ⟨s', live', o⟩ := r
  have hnot : i ∉ G ++ nq live' := by
    have := h1.nodup
    simp only [List.cons_append, List.nodup_cons] at this
    exact this.1
  cases o with
  | some r => exact Bal.clean_head i hnot h1
  | none =>
    dsimp only
    split
    · exact Bal.clean_head i hnot h1
    · split
      · exact Bal.valid_clean i hnot h1
      · simp only [nq_append_probe]
        exact (Bal.valid h1 i (h1.lfresh i List.mem_cons_self)).perm (perm_snoc _ _ _)

theorem loadApp_bal (cid : Nat) (a : App) (s : State) (live : List Live) (G : List Inst)
    (h : SB s (G ++ nq live)) :
    SB (loadApp cid a s live).1 (G ++ nq (loadApp cid a s live).2.1) := by
  unfold loadApp
  split
  · exact h
  · split
    · have h1 := loadMods_bal cid a.name G a.mods 1 s live h
      generalize loadMods cid a.name 1 a.mods s live = r at h1
      obtain ⟨s', live', o⟩ := r
      cases o with
      | some r => exact h1
      | none => dsimp only; split <;> exact h1
    · exact loadProbeAppAt_bal _ a (alloc s) live G rfl h

theorem loadApps_bal (cid : Nat) (G : List Inst) : ∀ (as : List App) (s : State) (live : List Live),
    SB s (G ++ nq live) → SB (loadApps cid as s live).1 (G ++ nq (loadApps cid as s live).2.1)
  | [], _, _, h => h
  | a :: as, s, live, h => by
    unfold loadApps
    have h1 := loadApp_bal cid a s live G h
    generalize loadApp cid a s live = r at h1
    obtain ⟨s', live', o⟩ := r
    cases o with
    | none => exact loadApps_bal cid G as s' live' h1
    | some r => exact h1

end CaddyModel.C03
