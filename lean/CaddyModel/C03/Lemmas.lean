/-
C03 — helper lemmas: the balance invariant between Provision and Cleanup events.
-/
import CaddyModel.C03.Model
import CaddyModel.C01.Lemmas

set_option linter.unusedSimpArgs false
set_option linter.unusedVariables false

namespace CaddyModel.C03
open CaddyModel.Lifecycle

/-! ### Provision / Cleanup balance

`Bal E L n`: in the event list `E`, with `L` the instances that are currently alive (loaded into
some context that has not been cancelled) and `n` the instance counter: no instance was
provisioned twice, the live ones were provisioned once and never cleaned up, every other one was
cleaned up exactly as often as it was provisioned. -/
structure Bal (E : List Ev) (L : List Inst) (n : Nat) : Prop where
  fresh : ∀ e ∈ E, ∀ i, evInst e = some i → i.seq < n
  lfresh : ∀ i ∈ L, i.seq < n
  nodup : L.Nodup
  prov1 : ∀ i, E.count (.prov i) ≤ 1
  live : ∀ i ∈ L, E.count (.clean i) = 0 ∧ E.count (.prov i) = 1
  dead : ∀ i, i ∉ L → E.count (.clean i) = E.count (.prov i)

theorem Bal.perm {E : List Ev} {L L' : List Inst} {n : Nat} (h : Bal E L n) (p : L.Perm L') : Bal E L' n :=
  ⟨h.fresh, fun i hi => h.lfresh i (p.mem_iff.mpr hi), p.nodup_iff.mp h.nodup, h.prov1,
   fun i hi => h.live i (p.mem_iff.mpr hi), fun i hi => h.dead i (fun hh => hi (p.mem_iff.mp hh))⟩

theorem Bal.mono {E : List Ev} {L : List Inst} {n n' : Nat} (h : Bal E L n) (hn : n ≤ n') : Bal E L n' :=
  ⟨fun e he i hi => Nat.lt_of_lt_of_le (h.fresh e he i hi) hn,
   fun i hi => Nat.lt_of_lt_of_le (h.lfresh i hi) hn, h.nodup, h.prov1, h.live, h.dead⟩

theorem count_prov_fresh {E : List Ev} {L : List Inst} {n : Nat} (h : Bal E L n) (i : Inst)
    (hi : n ≤ i.seq) : E.count (.prov i) = 0 ∧ E.count (.clean i) = 0 := by
  constructor
  · apply List.count_eq_zero.mpr
    intro hm
    exact absurd (h.fresh _ hm i rfl) (Nat.not_lt.mpr hi)
  · apply List.count_eq_zero.mpr
    intro hm
    exact absurd (h.fresh _ hm i rfl) (Nat.not_lt.mpr hi)

/-- events that are about no instance change nothing -/
theorem Bal.other {E : List Ev} {L : List Inst} {n : Nat} (h : Bal E L n) (es : List Ev)
    (hes : ∀ e ∈ es, evInst e = none) : Bal (E ++ es) L n := by
  have hc : ∀ i, (es.count (.prov i) = 0) ∧ (es.count (.clean i) = 0) := by
    intro i
    constructor <;>
    · apply List.count_eq_zero.mpr
      intro hm
      have := hes _ hm
      simp [evInst] at this
  refine ⟨?_, h.lfresh, h.nodup, ?_, ?_, ?_⟩
  · intro e he i hi
    rcases List.mem_append.mp he with he | he
    · exact h.fresh e he i hi
    · rw [hes e he] at hi; cases hi
  · intro i; rw [List.count_append, (hc i).1]; exact h.prov1 i
  · intro i hi; rw [List.count_append, List.count_append, (hc i).1, (hc i).2]; exact h.live i hi
  · intro i hi; rw [List.count_append, List.count_append, (hc i).1, (hc i).2]; exact h.dead i hi

/-- `valid i` for an existing instance changes nothing -/
theorem Bal.valid {E : List Ev} {L : List Inst} {n : Nat} (h : Bal E L n) (i : Inst) (hi : i.seq < n) :
    Bal (E ++ [.valid i]) L n := by
  refine ⟨?_, h.lfresh, h.nodup, ?_, ?_, ?_⟩
  · intro e he j hj
    rcases List.mem_append.mp he with he | he
    · exact h.fresh e he j hj
    · simp at he; subst he; simp [evInst] at hj; subst hj; exact hi
  · intro j; simp [List.count_append]; exact h.prov1 j
  · intro j hj; simp [List.count_append]; exact h.live j hj
  · intro j hj; simp [List.count_append]; exact h.dead j hj

/-- a new instance is provisioned and alive -/
theorem Bal.prov {E : List Ev} {L : List Inst} {n : Nat} (h : Bal E L n) (i : Inst) (hi : i.seq = n) :
    Bal (E ++ [.prov i]) (i :: L) (n + 1) := by
  have hz := count_prov_fresh h i (Nat.le_of_eq hi.symm)
  have hnot : i ∉ L := fun hm => absurd (h.lfresh i hm) (by omega)
  refine ⟨?_, ?_, List.nodup_cons.mpr ⟨hnot, h.nodup⟩, ?_, ?_, ?_⟩
  · intro e he j hj
    rcases List.mem_append.mp he with he | he
    · exact Nat.lt_succ_of_lt (h.fresh e he j hj)
    · simp at he; subst he; simp [evInst] at hj; subst hj; omega
  · intro j hj
    rcases List.mem_cons.mp hj with rfl | hj
    · omega
    · exact Nat.lt_succ_of_lt (h.lfresh j hj)
  · intro j
    rw [List.count_append]
    by_cases hji : j = i
    · subst hji; simp [hz.1]
    · have : [Ev.prov i].count (.prov j) = 0 := by simp [List.count_cons, hji, Ne.symm hji]
      rw [this]; exact h.prov1 j
  · intro j hj
    rw [List.count_append, List.count_append]
    have hc : [Ev.prov i].count (.clean j) = 0 := by simp [List.count_cons]
    rcases List.mem_cons.mp hj with rfl | hj
    · simp [hz.1, hz.2, hc]
    · have hji : j ≠ i := fun e => hnot (e ▸ hj)
      have : [Ev.prov i].count (.prov j) = 0 := by simp [List.count_cons, hji, Ne.symm hji]
      rw [hc, this]; exact h.live j hj
  · intro j hj
    rw [List.count_append, List.count_append]
    have hc : [Ev.prov i].count (.clean j) = 0 := by simp [List.count_cons]
    have hji : j ≠ i := fun e => hj (e ▸ List.mem_cons_self)
    have : [Ev.prov i].count (.prov j) = 0 := by simp [List.count_cons, hji, Ne.symm hji]
    rw [hc, this]
    exact h.dead j (fun hm => hj (List.mem_cons_of_mem _ hm))

/-- a live instance is cleaned up: it is no longer alive, and balanced -/
theorem Bal.clean {E : List Ev} {L : List Inst} {n : Nat} (h : Bal E L n) (i : Inst) (hi : i ∈ L) :
    Bal (E ++ [.clean i]) (L.filter (· ≠ i)) n := by
  refine ⟨?_, ?_, h.nodup.filter _, ?_, ?_, ?_⟩
  · intro e he j hj
    rcases List.mem_append.mp he with he | he
    · exact h.fresh e he j hj
    · simp at he; subst he; simp [evInst] at hj; subst hj; exact h.lfresh _ hi
  · intro j hj; exact h.lfresh j (List.mem_filter.mp hj).1
  · intro j; simp [List.count_append, List.count_cons]; exact h.prov1 j
  · intro j hj
    obtain ⟨hj1, hj2⟩ := List.mem_filter.mp hj
    have hji : j ≠ i := by simpa using hj2
    rw [List.count_append, List.count_append]
    have : [Ev.clean i].count (.clean j) = 0 := by simp [List.count_cons, hji, Ne.symm hji]
    have hp : [Ev.clean i].count (.prov j) = 0 := by simp [List.count_cons]
    rw [this, hp]; exact h.live j hj1
  · intro j hj
    rw [List.count_append, List.count_append]
    have hp : [Ev.clean i].count (.prov j) = 0 := by simp [List.count_cons]
    rw [hp]
    by_cases hji : j = i
    · subst hji
      have := h.live j hi
      simp [this.1, this.2]
    · have : [Ev.clean i].count (.clean j) = 0 := by simp [List.count_cons, hji, Ne.symm hji]
      rw [this]
      apply h.dead j
      intro hm
      exact hj (List.mem_filter.mpr ⟨hm, by simpa using hji⟩)

theorem filter_ne_cons_self {i : Inst} {L : List Inst} (h : i ∉ L) : (i :: L).filter (· ≠ i) = L := by
  simp only [List.filter_cons, ne_eq, not_true_eq_false, decide_false, Bool.false_eq_true, if_false]
  apply List.filter_eq_self.mpr
  intro j hj
  have : j ≠ i := fun e => h (e ▸ hj)
  simpa using this

/-! derived steps for the event lists the model appends -/

theorem Bal.prov_valid {E : List Ev} {L : List Inst} {n : Nat} (h : Bal E L n) (i : Inst) (hi : i.seq = n) :
    Bal (E ++ [.prov i, .valid i]) (i :: L) (n + 1) := by
  have := (h.prov i hi).valid i (by omega)
  simpa [List.append_assoc] using this

theorem Bal.prov_clean {E : List Ev} {L : List Inst} {n : Nat} (h : Bal E L n) (i : Inst) (hi : i.seq = n) :
    Bal (E ++ [.prov i, .clean i]) L (n + 1) := by
  have hnot : i ∉ L := fun hm => absurd (h.lfresh i hm) (by omega)
  have := (h.prov i hi).clean i List.mem_cons_self
  rw [filter_ne_cons_self hnot] at this
  simpa [List.append_assoc] using this

theorem Bal.prov_valid_clean {E : List Ev} {L : List Inst} {n : Nat} (h : Bal E L n) (i : Inst) (hi : i.seq = n) :
    Bal (E ++ [.prov i, .valid i, .clean i]) L (n + 1) := by
  have hnot : i ∉ L := fun hm => absurd (h.lfresh i hm) (by omega)
  have := ((h.prov i hi).valid i (by omega)).clean i List.mem_cons_self
  rw [filter_ne_cons_self hnot] at this
  simpa [List.append_assoc] using this

theorem Bal.valid_clean {E : List Ev} {L : List Inst} {n : Nat} (i : Inst) (hnot : i ∉ L)
    (h : Bal E (i :: L) n) : Bal (E ++ [.valid i, .clean i]) L n := by
  have := (h.valid i (h.lfresh i List.mem_cons_self)).clean i List.mem_cons_self
  rw [filter_ne_cons_self hnot] at this
  simpa [List.append_assoc] using this

theorem Bal.clean_head {E : List Ev} {L : List Inst} {n : Nat} (i : Inst) (hnot : i ∉ L)
    (h : Bal E (i :: L) n) : Bal (E ++ [.clean i]) L n := by
  have := h.clean i List.mem_cons_self
  rwa [filter_ne_cons_self hnot] at this

/-! ### state level -/

/-- the balance invariant of a state, for a given set of live instances -/
def SB (s : State) (L : List Inst) : Prop := Bal s.events L s.nseq

theorem nq_append_probe (live : List Live) (i : Inst) (k : Option Nat) :
    nq (live ++ [⟨i, k, false⟩]) = nq live ++ [i] := by simp [nq, List.filter_append]

theorem nq_append_quiet (live : List Live) (i : Inst) (k : Option Nat) :
    nq (live ++ [⟨i, k, true⟩]) = nq live := by simp [nq, List.filter_append]

theorem perm_snoc (G X : List Inst) (i : Inst) : (i :: (G ++ X)).Perm (G ++ (X ++ [i])) := by
  rw [← List.append_assoc]
  exact (List.perm_append_singleton i (G ++ X)).symm

theorem loadMod_bal (cid app idx : Nat) (m : Mod) (s : State) (live : List Live) (G : List Inst)
    (h : SB s (G ++ nq live)) :
    SB (loadMod cid app idx m s live).1 (G ++ nq (loadMod cid app idx m s live).2.1) := by
  unfold loadMod
  split
  · exact h
  · unfold loadModAt
    have hm : SB (alloc s) (G ++ nq live) := Bal.mono h (Nat.le_succ _)
    split
    · split
      · exact hm
      · split
        · exact hm
        · simp only [nq_append_quiet]; exact hm
    · split
      · exact Bal.prov_clean h _ rfl
      · split
        · exact Bal.prov_valid_clean h _ rfl
        · simp only [nq_append_probe]
          exact (Bal.prov_valid h _ rfl).perm (perm_snoc _ _ _)

theorem loadMods_bal (cid app : Nat) (G : List Inst) : ∀ (ms : List Mod) (idx : Nat) (s : State)
    (live : List Live), SB s (G ++ nq live) →
    SB (loadMods cid app idx ms s live).1 (G ++ nq (loadMods cid app idx ms s live).2.1)
  | [], _, _, _, h => h
  | m :: ms, idx, s, live, h => by
    unfold loadMods
    have h1 := loadMod_bal cid app idx m s live G h
    generalize loadMod cid app idx m s live = r at h1
    obtain ⟨s', live', o⟩ := r
    cases o with
    | none => exact loadMods_bal cid app G ms (idx + 1) s' live' h1
    | some r => exact h1

theorem loadProbeAppAt_bal (i : Inst) (a : App) (s : State) (live : List Live) (G : List Inst)
    (hi : i.seq + 1 = s.nseq) (h : Bal s.events (G ++ nq live) i.seq) :
    SB (loadProbeAppAt i a s live).1 (G ++ nq (loadProbeAppAt i a s live).2.1) := by
  unfold loadProbeAppAt
  have h0 : SB (ev s [.prov i]) ((i :: G) ++ nq live) := by
    have := h.prov i rfl
    unfold SB
    show Bal (s.events ++ [Ev.prov i]) (i :: G ++ nq live) s.nseq
    rw [← hi]
    exact this
  have h1 := loadMods_bal i.cid a.name (i :: G) a.mods 1 _ live h0
  generalize loadMods i.cid a.name 1 a.mods (ev s [.prov i]) live = r at h1
  obtain ⟨s', live', o⟩ := r
  have hnot : i ∉ G ++ nq live' := by
    have := h1.nodup
    simp only [List.cons_append, List.nodup_cons] at this
    exact this.1
  cases o with
  | some r => exact Bal.clean_head i hnot h1
  | none =>
    dsimp only
    split
    · exact Bal.clean_head i hnot h1
    · split
      · exact Bal.valid_clean i hnot h1
      · simp only [nq_append_probe]
        exact (Bal.valid h1 i (h1.lfresh i List.mem_cons_self)).perm (perm_snoc _ _ _)

theorem loadApp_bal (cid : Nat) (a : App) (s : State) (live : List Live) (G : List Inst)
    (h : SB s (G ++ nq live)) :
    SB (loadApp cid a s live).1 (G ++ nq (loadApp cid a s live).2.1) := by
  unfold loadApp
  split
  · exact h
  · split
    · have h1 := loadMods_bal cid a.name G a.mods 1 s live h
      generalize loadMods cid a.name 1 a.mods s live = r at h1
      obtain ⟨s', live', o⟩ := r
      cases o with
      | some r => exact h1
      | none => dsimp only; split <;> exact h1
    · exact loadProbeAppAt_bal _ a (alloc s) live G rfl h

theorem loadApps_bal (cid : Nat) (G : List Inst) : ∀ (as : List App) (s : State) (live : List Live),
    SB s (G ++ nq live) → SB (loadApps cid as s live).1 (G ++ nq (loadApps cid as s live).2.1)
  | [], _, _, h => h
  | a :: as, s, live, h => by
    unfold loadApps
    have h1 := loadApp_bal cid a s live G h
    generalize loadApp cid a s live = r at h1
    obtain ⟨s', live', o⟩ := r
    cases o with
    | none => exact loadApps_bal cid G as s' live' h1
    | some r => exact h1

/-! phases that append only events about no instance and create no instance -/

structure Quiet (s s' : State) : Prop where
  ev : ∃ es, s'.events = s.events ++ es ∧ ∀ e ∈ es, evInst e = none
  nseq : s'.nseq = s.nseq

theorem Quiet.rfl' (s : State) : Quiet s s := ⟨⟨[], by simp, by simp⟩, rfl⟩

theorem Quiet.trans {a b c : State} (h1 : Quiet a b) (h2 : Quiet b c) : Quiet a c := by
  obtain ⟨⟨e1, h11, h12⟩, h13⟩ := h1
  obtain ⟨⟨e2, h21, h22⟩, h23⟩ := h2
  refine ⟨⟨e1 ++ e2, by rw [h21, h11, List.append_assoc], ?_⟩, h23.trans h13⟩
  intro e he
  rcases List.mem_append.mp he with he | he
  · exact h12 e he
  · exact h22 e he

theorem quiet_ev (s : State) (es : List Ev) (h : ∀ e ∈ es, evInst e = none) : Quiet s (ev s es) :=
  ⟨⟨es, rfl, h⟩, rfl⟩

theorem Quiet.sb {s s' : State} {L : List Inst} (q : Quiet s s') (h : SB s L) : SB s' L := by
  obtain ⟨⟨es, h1, h2⟩, h3⟩ := q
  unfold SB
  rw [h1, h3]
  exact Bal.other h es h2

theorem openWriter_quiet (k : Nat) (s : State) : Quiet s (openWriter k s) := by
  unfold openWriter
  split
  · exact ⟨⟨[.wopen k], rfl, by simp [evInst]⟩, rfl⟩
  · exact ⟨⟨[], by simp, by simp⟩, rfl⟩

theorem closeLogs_quiet : ∀ (ks : List Nat) (s : State), Quiet s (closeLogs ks s)
  | [], s => Quiet.rfl' s
  | k :: ks, s => by
    unfold closeLogs
    split
    · refine Quiet.trans ?_ (closeLogs_quiet ks _)
      exact ⟨⟨[.wclose k], rfl, by simp [evInst]⟩, rfl⟩
    · refine Quiet.trans ?_ (closeLogs_quiet ks _)
      exact ⟨⟨[], by simp, by simp⟩, rfl⟩

theorem bindAll_quiet (cid : Nat) (a : App) (blocked : List Nat) : ∀ (l : List Nat) (s : State),
    Quiet s (bindAll cid a blocked l s).1
  | [], s => Quiet.rfl' s
  | ad :: rest, s => by
    unfold bindAll
    split
    · exact Quiet.rfl' s
    · refine Quiet.trans ?_ (bindAll_quiet cid a blocked rest _)
      exact ⟨⟨[], by simp, by simp⟩, rfl⟩

theorem closeApp_quiet (cid n : Nat) (s : State) : Quiet s (closeApp cid n s) :=
  ⟨⟨[], by simp [closeApp], by simp⟩, rfl⟩

theorem quiet_evA (s : State) (es : List Ev) : Quiet s (evA s es) :=
  ⟨⟨[], by simp [evA], by simp⟩, rfl⟩

theorem startApp_quiet (cid : Nat) (blocked : List Nat) (a : App) (s : State) :
    Quiet s (startApp cid blocked a s).1 := by
  unfold startApp
  split
  · have h := bindAll_quiet cid a blocked a.listen s
    generalize bindAll cid a blocked a.listen s = r at h
    obtain ⟨s', b⟩ := r
    cases b with
    | true => dsimp only; split; exact h.trans (closeApp_quiet _ _ _); exact h
    | false => exact h.trans (closeApp_quiet _ _ _)
  · split
    · exact quiet_evA _ _
    · have h := (quiet_evA s [.start cid a.name]).trans
        (bindAll_quiet cid a blocked a.listen (evA s [.start cid a.name]))
      generalize bindAll cid a blocked a.listen (evA s [.start cid a.name]) = r at h
      obtain ⟨s', b⟩ := r
      cases b with
      | true => exact h.trans (quiet_evA _ _)
      | false => exact (h.trans (closeApp_quiet _ _ _)).trans (quiet_evA _ _)

theorem stopApp_quiet (cid : Nat) (a : App) (s : State) : Quiet s (stopApp cid a s) := by
  unfold stopApp; split
  · exact closeApp_quiet _ _ _
  · exact (closeApp_quiet _ _ _).trans (quiet_evA _ _)

theorem stopApps_quiet (cid : Nat) : ∀ (as : List App) (s : State), Quiet s (stopApps cid as s)
  | [], s => Quiet.rfl' s
  | a :: as, s => by
    unfold stopApps
    exact (stopApp_quiet cid a s).trans (stopApps_quiet cid as _)

theorem startApps_quiet (cid : Nat) (blocked : List Nat) : ∀ (rest started : List App) (s : State),
    Quiet s (startApps cid blocked started rest s).1
  | [], _, s => Quiet.rfl' s
  | a :: rest, started, s => by
    unfold startApps
    have h := startApp_quiet cid blocked a s
    generalize startApp cid blocked a s = r at h
    obtain ⟨s', b⟩ := r
    cases b with
    | true => exact h.trans (startApps_quiet cid blocked rest _ s')
    | false => exact h.trans (stopApps_quiet _ _ _)

/-! logging -/

theorem openLog_bal (cid idx : Nat) (m : Mod) (s : State) (live : List Live) (wk : List Nat)
    (G : List Inst) (h : SB s (G ++ nq live)) :
    SB (openLog cid idx m s live wk).1 (G ++ nq (openLog cid idx m s live wk).2.1) := by
  unfold openLog
  split
  · exact h
  · unfold openLogAt
    split
    · exact Bal.prov_clean h _ rfl
    · split
      · exact Bal.prov_valid_clean h _ rfl
      · simp only [nq_append_probe]
        refine (openWriter_quiet _ _).sb ?_
        exact (Bal.prov_valid h _ rfl).perm (perm_snoc _ _ _)

theorem openLogsFrom_bal (cid : Nat) (G : List Inst) : ∀ (ms : List Mod) (idx : Nat) (s : State)
    (live : List Live) (wk : List Nat), SB s (G ++ nq live) →
    SB (openLogsFrom cid idx ms s live wk).1 (G ++ nq (openLogsFrom cid idx ms s live wk).2.1)
  | [], _, _, _, _, h => h
  | m :: ms, idx, s, live, wk, h => by
    unfold openLogsFrom
    have h1 := openLog_bal cid idx m s live wk G h
    generalize openLog cid idx m s live wk = r at h1
    obtain ⟨s', live', wk', o⟩ := r
    cases o with
    | none => exact openLogsFrom_bal cid G ms (idx + 1) s' live' wk' h1
    | some r => exact h1

theorem openLogs_bal (cid : Nat) (logs : List Mod) (s : State) (G : List Inst) (h : SB s G) :
    SB (openLogs cid logs s).1 (G ++ nq (openLogs cid logs s).2.1) := by
  unfold openLogs
  apply openLogsFrom_bal
  have : SB (openWriter 0 (ev s [.cbReg cid])) G :=
    ((quiet_ev s [.cbReg cid] (by simp [evInst])).trans (openWriter_quiet _ _)).sb h
  have h' : SB { openWriter 0 (ev s [.cbReg cid]) with dlogger := cid + 1 } G := this
  simpa [nq] using h'

/-! cancel -/

theorem cleanupOne_bal (l : Live) (s : State) (L : List Inst) (h : SB s L)
    (hl : l.quiet = false → l.inst ∈ L) :
    SB (cleanupOne l s) (if l.quiet then L else L.filter (· ≠ l.inst)) := by
  unfold cleanupOne
  cases hq : l.quiet with
  | true =>
    simp only [if_true]
    split
    · exact Quiet.sb (s := s) ⟨⟨[], by simp [ev], by simp⟩, rfl⟩ h
    · exact Quiet.sb (s := s) ⟨⟨[], by simp [ev], by simp⟩, rfl⟩ h
  | false =>
    simp only [Bool.false_eq_true, if_false]
    split <;> exact Bal.clean h _ (hl hq)

theorem nq_cons (l : Live) (ls : List Live) :
    nq (l :: ls) = if l.quiet then nq ls else l.inst :: nq ls := by
  cases hq : l.quiet <;> simp [nq, List.filter_cons, hq]

/-- cleaning up a whole `moduleInstances` list removes exactly its probe instances from the
    live set -/
theorem cleanupAll_bal : ∀ (ls : List Live) (s : State) (L : List Inst), SB s L →
    (∀ i ∈ nq ls, i ∈ L) → (nq ls).Nodup →
    SB (cleanupAll ls s) (L.filter (fun i => i ∉ nq ls))
  | [], s, L, h, _, _ => by
    unfold cleanupAll
    have : L.filter (fun i => i ∉ nq []) = L := by
      apply List.filter_eq_self.mpr; intro i _; simp [nq]
    rw [this]; exact h
  | l :: ls, s, L, h, hm, hn => by
    unfold cleanupAll
    rw [nq_cons] at hm hn
    cases hq : l.quiet with
    | true =>
      simp only [hq, if_true] at hm hn
      have h1 := cleanupOne_bal l s L h (by simp [hq])
      simp only [hq, if_true] at h1
      have := cleanupAll_bal ls _ L h1 hm hn
      rw [nq_cons]; simp only [hq, if_true]; exact this
    | false =>
      simp only [hq, Bool.false_eq_true, if_false] at hm hn
      have h1 := cleanupOne_bal l s L h (fun _ => hm _ List.mem_cons_self)
      simp only [hq, Bool.false_eq_true, if_false] at h1
      obtain ⟨hn1, hn2⟩ := List.nodup_cons.mp hn
      have h2 := cleanupAll_bal ls _ _ h1 (by
        intro i hi
        refine List.mem_filter.mpr ⟨hm i (List.mem_cons_of_mem _ hi), ?_⟩
        have : i ≠ l.inst := fun e => hn1 (e ▸ hi)
        simpa using this) hn2
      rw [nq_cons]; simp only [hq, Bool.false_eq_true, if_false]
      rw [List.filter_filter] at h2
      have e : (fun i => decide (i ∉ nq ls) && decide (i ≠ l.inst)) = (fun i => decide (i ∉ l.inst :: nq ls)) := by
        funext i
        by_cases h1 : i = l.inst <;> by_cases h2 : i ∈ nq ls <;> simp [h1, h2]
      rw [e] at h2
      exact h2

theorem cancel_bal (cid : Nat) (wk : List Nat) (live : List Live) (s : State) (L : List Inst)
    (h : SB s L) (hm : ∀ i ∈ nq live, i ∈ L) (hn : (nq live).Nodup) :
    SB (cancel cid [] wk live s) (L.filter (fun i => i ∉ nq live)) := by
  unfold cancel
  simp only [List.isEmpty_nil, if_true]
  exact cleanupAll_bal live s L h hm hn

theorem filter_append_right {G X : List Inst} (h : (G ++ X).Nodup) :
    (G ++ X).filter (fun i => i ∉ X) = G := by
  rw [List.filter_append]
  have hd := (List.nodup_append.mp h).2.2
  have e1 : G.filter (fun i => decide (i ∉ X)) = G := by
    apply List.filter_eq_self.mpr
    intro i hi
    have : i ∉ X := fun hx => hd i hi i hx rfl
    simpa using this
  have e2 : X.filter (fun i => decide (i ∉ X)) = [] := by
    apply List.filter_eq_nil_iff.mpr
    intro i hi; simp [hi]
  rw [e1, e2, List.append_nil]

theorem filter_append_left {G X : List Inst} (h : (G ++ X).Nodup) :
    (G ++ X).filter (fun i => i ∉ G) = X := by
  rw [List.filter_append]
  have hd := (List.nodup_append.mp h).2.2
  have e1 : X.filter (fun i => decide (i ∉ G)) = X := by
    apply List.filter_eq_self.mpr
    intro i hi
    have : i ∉ G := fun hx => hd i hx i hi rfl
    simpa using this
  have e2 : G.filter (fun i => decide (i ∉ G)) = [] := by
    apply List.filter_eq_nil_iff.mpr
    intro i hi; simp [hi]
  rw [e1, e2, List.nil_append]

/-! provisionContext, run -/

theorem cancel_all_bal (cid : Nat) (wk : List Nat) (live : List Live) (s : State) (G : List Inst)
    (h : SB s (G ++ nq live)) : SB (cancel cid [] wk live s) G := by
  have hn := h.nodup
  have := cancel_bal cid wk live s _ h (fun i hi => List.mem_append_right _ hi) (List.nodup_append.mp hn).2.1
  rwa [filter_append_right hn] at this

theorem loadStorAt_bal (cid : Nat) (m : Mod) (s : State) (live : List Live) (G : List Inst)
    (h : SB s (G ++ nq live)) :
    SB (loadStorAt ⟨s.nseq, cid, 102, 0⟩ m (alloc s) live).1
      (G ++ nq (loadStorAt ⟨s.nseq, cid, 102, 0⟩ m (alloc s) live).2.1) := by
  unfold loadStorAt
  split
  · exact Bal.prov_clean h _ rfl
  · split
    · exact Bal.prov_valid_clean h _ rfl
    · simp only [nq_append_probe]
      exact (Bal.prov_valid h _ rfl).perm (perm_snoc _ _ _)

theorem setStorage_bal (cid : Nat) (m : Mod) (s : State) (live : List Live) (G : List Inst)
    (h : SB s (G ++ nq live)) :
    SB (setStorage cid m s live).1 (G ++ nq (setStorage cid m s live).2.1) := by
  unfold setStorage
  split
  · exact h
  · split
    · exact h
    · have h1 := loadStorAt_bal cid m s live G h
      generalize loadStorAt ⟨s.nseq, cid, 102, 0⟩ m (alloc s) live = r at h1
      obtain ⟨s', live', o⟩ := r
      cases o with
      | none => exact h1
      | some r => exact h1

theorem restoreStorage_sb {p : Nat} {s : State} {L : List Inst} (h : SB s L) : SB (restoreStorage p s) L := by
  unfold restoreStorage; split <;> exact h

theorem restoreStorage_cur (p : Nat) (s : State) : (restoreStorage p s).cur = s.cur := (C01.restoreStorage_frame p s).cur

theorem provisionContext_bal (cid : Nat) (c : Cfg) (pp : List Nat) (s : State) (G : List Inst)
    (h : SB s G) :
    (∀ r, (provisionContext cid c pp s).2.2 = some r → SB (provisionContext cid c pp s).1 G) ∧
    ((provisionContext cid c pp s).2.2 = none → ∃ ctx, (provisionContext cid c pp s).2.1 = some ctx ∧
      ctx.cbs = [] ∧ ctx.cid = cid ∧ ctx.apps = c.apps ∧ SB (provisionContext cid c pp s).1 (G ++ nq ctx.live)) := by
  unfold provisionContext
  have h1 := openLogs_bal cid c.logs s G h
  generalize openLogs cid c.logs s = r1 at h1
  obtain ⟨s1, live1, wk, o1⟩ := r1
  cases o1 with
  | some r =>
    refine ⟨fun _ _ => ?_, fun hh => by simp at hh⟩
    exact restoreStorage_sb (cancel_all_bal cid wk live1 s1 G h1)
  | none =>
    dsimp only
    have h1' := setStorage_bal cid c.stor s1 live1 G h1
    generalize setStorage cid c.stor s1 live1 = r1' at h1'
    obtain ⟨s1', live1', o1'⟩ := r1'
    cases o1' with
    | some r =>
      refine ⟨fun _ _ => ?_, fun hh => by simp at hh⟩
      exact restoreStorage_sb (cancel_all_bal cid wk live1' s1' G h1')
    | none =>
      dsimp only
      have h2 := loadApps_bal cid G (order pp c.apps) s1' live1' h1'
      generalize loadApps cid (order pp c.apps) s1' live1' = r2 at h2
      obtain ⟨s2, live2, o2⟩ := r2
      cases o2 with
      | some r =>
        refine ⟨fun _ _ => ?_, fun hh => by simp at hh⟩
        exact restoreStorage_sb (cancel_all_bal cid wk live2 s2 G h2)
      | none =>
        refine ⟨fun r hh => by simp at hh, fun _ => ⟨_, rfl, rfl, rfl, rfl, h2⟩⟩

theorem finishSettingUp_bal (ctx : Ctx) (post : Bool) (s : State) (G : List Inst)
    (h : SB s (G ++ nq ctx.live)) :
    SB (finishSettingUp ctx post s).1 (G ++ nq (finishSettingUp ctx post s).2.1.live) ∧
    (finishSettingUp ctx post s).2.1.cbs = ctx.cbs ∧ (finishSettingUp ctx post s).2.1.cid = ctx.cid ∧
    (finishSettingUp ctx post s).2.1.apps = ctx.apps ∧ (finishSettingUp ctx post s).2.1.wkeys = ctx.wkeys := by
  unfold finishSettingUp finishSettingUpAt
  cases post with
  | true => exact ⟨Bal.prov_clean h _ rfl, rfl, rfl, rfl, rfl⟩
  | false =>
    refine ⟨?_, rfl, rfl, rfl, rfl⟩
    simp only [Bool.false_eq_true, if_false, nq_append_probe]
    have := (Bal.prov h ⟨s.nseq, ctx.cid, 101, 0⟩ rfl).perm (perm_snoc _ _ _)
    exact this

theorem unsyncedStop_some_bal (ctx : Ctx) (s : State) (G : List Inst) (hc : ctx.cbs = [])
    (h : SB s (G ++ nq ctx.live)) : SB (unsyncedStop (some ctx) s) G := by
  unfold unsyncedStop
  dsimp only
  rw [hc]
  exact cancel_all_bal _ _ _ _ G ((stopApps_quiet _ _ _).sb h)

/-- run: a rejected run leaves the live set as it was, an accepted one adds exactly the probe
    instances of the new context -/
theorem run_bal (cid : Nat) (c : Cfg) (e : Env) (s : State) (G : List Inst) (h : SB s G) :
    match (run cid c e s).2.1 with
    | none => SB (run cid c e s).1 G
    | some ctx => ctx.cbs = [] ∧ ctx.cid = cid ∧ ctx.apps = c.apps ∧ SB (run cid c e s).1 (G ++ nq ctx.live) := by
  unfold run
  have h1 := provisionContext_bal cid c e.pp s G h
  generalize provisionContext cid c e.pp s = r1 at h1
  obtain ⟨s1, o1, e1⟩ := r1
  cases e1 with
  | some r => exact h1.1 r rfl
  | none =>
    obtain ⟨ctx, hctx, hcb, hcid, happs, hb⟩ := h1.2 rfl
    simp only at hctx
    subst hctx
    dsimp only
    by_cases hadm : e.adm = 2
    · simp only [hadm, if_true]
      rw [hcb]
      exact restoreStorage_sb (cancel_all_bal cid ctx.wkeys ctx.live s1 G hb)
    simp only [hadm, if_false]
    have h2 := (startApps_quiet cid e.blocked (order e.ps ctx.apps) [] s1).sb hb
    generalize startApps cid e.blocked [] (order e.ps ctx.apps) s1 = r2 at h2
    obtain ⟨s2, b⟩ := r2
    cases b with
    | false =>
      dsimp only
      rw [hcb]
      exact restoreStorage_sb (cancel_all_bal cid ctx.wkeys ctx.live s2 G h2)
    | true =>
      dsimp only
      have h3 := finishSettingUp_bal ctx e.post s2 G h2
      generalize finishSettingUp ctx e.post s2 = r3 at h3
      obtain ⟨s3, ctx', b3⟩ := r3
      cases b3 with
      | false =>
        dsimp only
        exact restoreStorage_sb (unsyncedStop_some_bal ctx' s3 G (h3.2.1.trans hcb) h3.1)
      | true =>
        dsimp only
        exact ⟨h3.2.1.trans hcb, h3.2.2.1.trans hcid, h3.2.2.2.1.trans happs, h3.1⟩

/-! ### one operation -/

def nqOpt : Option Ctx → List Inst
  | none => []
  | some ctx => nq ctx.live

theorem curLive_eq (s : State) : curLive s = nqOpt s.cur := by
  unfold curLive nqOpt; cases s.cur <;> rfl

theorem unsyncedStop_bal (old : Option Ctx) (s : State) (X : List Inst)
    (hc : ∀ ctx, old = some ctx → ctx.cbs = []) (h : SB s (nqOpt old ++ X)) :
    SB (unsyncedStop old s) X := by
  cases old with
  | none => simpa [unsyncedStop, nqOpt] using h
  | some ctx =>
    unfold unsyncedStop
    dsimp only
    rw [hc ctx rfl]
    have h1 : SB (stopApps ctx.cid ctx.apps s) (nq ctx.live ++ X) := (stopApps_quiet _ _ _).sb h
    have hn := h1.nodup
    have := cancel_bal ctx.cid ctx.wkeys ctx.live _ _ h1 (fun i hi => List.mem_append_left _ hi)
      (List.nodup_append.mp hn).1
    rwa [filter_append_left hn] at this

theorem run_ctx_none (cid : Nat) (c : Cfg) (e : Env) (s : State) (h : (run cid c e s).2.2 ≠ .ok) :
    (run cid c e s).2.1 = none := by
  unfold run at h ⊢
  generalize provisionContext cid c e.pp s = r1 at h ⊢
  obtain ⟨s1, o1, e1⟩ := r1
  cases e1 with
  | some r => rfl
  | none =>
    cases o1 with
    | none => rfl
    | some ctx =>
      dsimp only at h ⊢
      split
      · rfl
      rename_i hadm
      simp only [hadm, if_false] at h
      generalize startApps cid e.blocked [] (order e.ps ctx.apps) s1 = r2 at h ⊢
      obtain ⟨s2, b⟩ := r2
      cases b with
      | false => rfl
      | true =>
        dsimp only at h ⊢
        generalize finishSettingUp ctx e.post s2 = r3 at h ⊢
        obtain ⟨s3, ctx', b3⟩ := r3
        cases b3 with
        | false => rfl
        | true => exact absurd rfl h

/-- the invariant of reachable states -/
structure Inv3 (s : State) : Prop where
  bal : SB s (curLive s)
  cbs : ∀ ctx, s.cur = some ctx → ctx.cbs = []

theorem inv3_init : Inv3 State.init :=
  ⟨⟨by simp [State.init], by simp [curLive, State.init], by simp [curLive, State.init],
    by simp [State.init], by simp [curLive, State.init], by simp [State.init]⟩, by simp [State.init]⟩

theorem Inv3.of_events {s s' : State} (h : Inv3 s) (he : s'.events = s.events) (hn : s'.nseq = s.nseq)
    (hc : s'.cur = s.cur) : Inv3 s' := by
  refine ⟨?_, fun ctx hx => h.cbs ctx (hc ▸ hx)⟩
  unfold SB curLive
  rw [he, hn, hc]
  exact h.bal

theorem inv3_changeTo {s : State} (h : Inv3 s) (c : Cfg) (e : Env) : Inv3 (changeTo c e s).1 := by
  rcases C01.changeTo_cases c e s with ⟨_, h'⟩ | h' | ⟨s1, hq, h'⟩ | ⟨s1, r, hok, hq, h'⟩
  · rw [h']; exact h.of_events rfl rfl rfl
  · rw [h']; exact h.of_events rfl rfl rfl
  · rw [h']
    obtain ⟨s', ctx, hrun, rfl⟩ := C01.decodeAndRun_ok hq
    have hb := run_bal s.next c e { s with raw := some c } (curLive s) (by exact h.bal)
    rw [hrun] at hb
    simp only at hb
    obtain ⟨hcb, _, _, hsb⟩ := hb
    have hu := C01.unsyncedStop_frame4 ({ s with raw := some c } : State).cur { s' with cur := some ctx }
    have hstop := unsyncedStop_bal s.cur { s' with cur := some ctx } (nq ctx.live) h.cbs
      (by rw [← curLive_eq]; exact hsb)
    refine ⟨?_, ?_⟩
    · unfold SB curLive
      show Bal (unsyncedStop _ _).events (match (unsyncedStop _ _).cur with | none => [] | some ctx => nq ctx.live) (unsyncedStop _ _).nseq
      rw [hu.cur]
      exact hstop
    · intro ctx' hx
      have : (unsyncedStop ({ s with raw := some c } : State).cur { s' with cur := some ctx }).cur = some ctx' := hx
      rw [hu.cur] at this
      cases this
      exact hcb
  · rw [h']
    -- a rejected attempt: decodeAndRun either did not run anything or ran and returned no context
    unfold decodeAndRun at hq
    split at hq
    · simp at hq
      obtain ⟨rfl, _⟩ := hq
      exact h.of_events rfl rfl rfl
    · have hb := run_bal s.next c e { s with raw := some c } (curLive s) (by exact h.bal)
      have hf := C01.run_frame4 s.next c e { s with raw := some c }
      have hnone := run_ctx_none s.next c e { s with raw := some c }
      generalize hrun : run s.next c e { s with raw := some c } = q at hq hb hf hnone
      obtain ⟨s', o, res⟩ := q
      by_cases hres : res = .ok
      · subst hres
        obtain ⟨ctx, rfl, _⟩ := C01.run_ok hrun
        simp at hq
        exact absurd hq.2.symm hok
      · have ho : o = none := hnone hres
        subst ho
        simp only at hb
        have : s1 = s' := by
          cases res <;> simp at hq hres ⊢ <;> exact hq.1.symm
        subst this
        refine ⟨?_, ?_⟩
        · unfold SB curLive
          show Bal s1.events (match s1.cur with | none => [] | some ctx => nq ctx.live) s1.nseq
          rw [hf.cur]
          exact hb
        · intro ctx hx
          have : s1.cur = some ctx := hx
          rw [hf.cur] at this
          exact h.cbs ctx this

theorem inv3_bump {p : State × Res} (h : Inv3 p.1) : Inv3 (bump p).1 := h.of_events rfl rfl rfl

theorem inv3_step {s : State} (h : Inv3 s) (op : Op) : Inv3 (step s op).1 := by
  cases op with
  | load c e => exact inv3_bump (inv3_changeTo h c e)
  | patch a e =>
    unfold step
    cases s.raw with
    | none => exact inv3_bump (p := (s, .errPath)) h
    | some c0 =>
      dsimp only
      cases replaceApp a c0.apps with
      | none => exact inv3_bump (p := (s, .errPath)) h
      | some apps => exact inv3_bump (inv3_changeTo h _ e)
  | del n e =>
    unfold step
    cases s.raw with
    | none => exact inv3_bump (p := (s, .errPath)) h
    | some c0 =>
      dsimp only
      cases removeApp n c0.apps with
      | none => exact inv3_bump (p := (s, .errPath)) h
      | some apps => exact inv3_bump (inv3_changeTo h _ e)
  | junk => exact inv3_bump (p := (s, .errBody)) h
  | validate c e =>
    refine inv3_bump (p := validate c e s) ?_
    unfold validate
    have h1 := provisionContext_bal s.next c e.pp s (curLive s) h.bal
    have hf := C01.provisionContext_frame s.next c e.pp s
    generalize provisionContext s.next c e.pp s = q at h1 hf
    obtain ⟨s1, o, r⟩ := q
    cases r with
    | some r =>
      refine ⟨?_, fun ctx hx => h.cbs ctx (by have : s1.cur = some ctx := hx; rwa [hf.cur] at this)⟩
      unfold SB curLive
      show Bal s1.events (match s1.cur with | none => [] | some ctx => nq ctx.live) s1.nseq
      rw [hf.cur]; exact h1.1 r rfl
    | none =>
      obtain ⟨ctx, hctx, hcb, _, _, hsb⟩ := h1.2 rfl
      simp only at hctx
      subst hctx
      dsimp only
      have hc := C01.cancel_frame ctx.cid ctx.cbs ctx.wkeys ctx.live s1
      have hrc := restoreStorage_cur s.dlogger (cancel ctx.cid ctx.cbs ctx.wkeys ctx.live s1)
      refine ⟨?_, fun ctx' hx => h.cbs ctx' (by
        have : (restoreStorage _ (cancel ctx.cid ctx.cbs ctx.wkeys ctx.live s1)).cur = some ctx' := hx
        rwa [hrc, hc.cur, hf.cur] at this)⟩
      unfold SB curLive
      show Bal (restoreStorage _ (cancel _ _ _ _ s1)).events (match (restoreStorage _ (cancel _ _ _ _ s1)).cur with | none => [] | some ctx => nq ctx.live) (restoreStorage _ (cancel _ _ _ _ s1)).nseq
      rw [hrc, hc.cur, hf.cur, hcb]
      exact restoreStorage_sb (cancel_all_bal _ _ _ _ _ hsb)
  | stop =>
    refine inv3_bump (p := (_, .ok)) ?_
    refine ⟨?_, fun ctx hx => by cases hx⟩
    have := unsyncedStop_bal s.cur s [] h.cbs (by rw [List.append_nil, ← curLive_eq]; exact h.bal)
    exact this

theorem inv3_runOps : ∀ (ops : List Op) (s : State), Inv3 s → Inv3 (runOps s ops)
  | [], _, h => h
  | o :: os, s, h => inv3_runOps os _ (inv3_step h o)

end CaddyModel.C03
