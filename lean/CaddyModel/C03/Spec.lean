/-
C03 — the abstract account: resources held by the process are a function of the configuration
that is running, not of the history.
-/
import CaddyModel.C03.Model

namespace CaddyModel.C03
open CaddyModel.Lifecycle

namespace Spec

/-- references the running configuration accounts for in the guest / hosts usage pool:
    one per guest module that uses the entry -/
def wantPool (running : Option Cfg) (k : Nat) : Nat :=
  match running with
  | none => 0
  | some c => ((c.apps.flatMap (·.mods)).map (·.key)).count k

/-- references the running configuration accounts for in the writers pool: the default log's
    stderr writer (key 0) and one per custom log -/
def wantWriters (running : Option Cfg) (k : Nat) : Nat :=
  match running with
  | none => 0
  | some c => (if k = 0 then 1 else 0) + (c.logs.map (·.key)).count k

end Spec

end CaddyModel.C03
