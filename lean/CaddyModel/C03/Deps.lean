/-
Deps — a small separate model of LAZY APP LOADING (context.go: Context.App → LoadModuleByID, with the
`ctx.cfg.apps[id] = app` entry made BEFORE Provision; caddy.go: provisionContext's loop over AppsRaw,
run's start loop and failure handler, unsyncedStop). Apps ask for other apps from inside their
Provision (`ctx.App(name)`), which provisions those on the spot — also apps that are not configured
at all (an empty instance is made, and it is started and stopped like any other). Dependency graphs
may be cyclic: an app that is already in the map is returned as it is, provisioned or not.
Core Lean only; structural recursion (fuel for the nesting depth).
-/
namespace CaddyModel.Deps

/-- a configured app: the apps it asks for at the beginning of its Provision, in order, and a fault:
    0 none · 3 own Provision fails (after its dependencies were loaded) · 4 Validate fails ·
    5 Start fails -/
structure DApp where
  name : Nat
  needs : List Nat
  fault : Nat
deriving DecidableEq, Repr

inductive DEv
  | prov (n : Nat) | valid (n : Nat) | clean (n : Nat)
  | start (n : Nat) | started (n : Nat) | startFail (n : Nat) | stop (n : Nat)
deriving DecidableEq, Repr

structure DSt where
  apps : List Nat      -- keys of ctx.cfg.apps, in insertion order
  live : List Nat      -- ctx.moduleInstances: apps whose Provision and Validate succeeded
  events : List DEv
deriving DecidableEq, Repr

inductive DRes | ok | errProvision | errValidate | errStart | fuel
deriving DecidableEq, Repr

/-- the app `n` as configured; an app nobody configured is an empty instance -/
def lookup (defs : List DApp) (n : Nat) : DApp :=
  match defs.find? (fun a => a.name == n) with
  | some a => a
  | none => ⟨n, [], 0⟩

def dev (s : DSt) (es : List DEv) : DSt := { s with events := s.events ++ es }

/-- call `f` (= ctx.App) for every name, in order; stop at the first error -/
def loadNeeds (f : Nat → DSt → DSt × Option DRes) : List Nat → DSt → DSt × Option DRes
  | [], s => (s, none)
  | n :: ns, s =>
    match f n s with
    | (s', none) => loadNeeds f ns s'
    | (s', some r) => (s', some r)

/-- ctx.App(n): return the app if it is in the map; otherwise LoadModuleByID: map entry, Provision
    (which first asks for its own dependencies), Validate, moduleInstances entry; a module whose
    Provision or Validate failed is cleaned up on the spot -/
def appLoad (defs : List DApp) : Nat → Nat → DSt → DSt × Option DRes
  | 0, _, s => (s, some .fuel)
  | fuel + 1, n, s =>
    if s.apps.contains n then (s, none)
    else
      match loadNeeds (appLoad defs fuel) (lookup defs n).needs
          (dev { s with apps := s.apps ++ [n] } [.prov n]) with
      | (s', some r) => (dev s' [.clean n], some r)
      | (s', none) =>
        if (lookup defs n).fault = 3 then (dev s' [.clean n], some .errProvision)
        else if (lookup defs n).fault = 4 then (dev s' [.valid n, .clean n], some .errValidate)
        else (dev { s' with live := s'.live ++ [n] } [.valid n], none)

/-- the cancel function: Cleanup of every entry of moduleInstances -/
def cancelAll : List Nat → DSt → DSt
  | [], s => s
  | n :: ns, s => cancelAll ns (dev s [.clean n])

def stopAll : List Nat → DSt → DSt
  | [], s => s
  | n :: ns, s => stopAll ns (dev s [.stop n])

/-- run's start loop over cfg.apps with its failure handler -/
def startAll (defs : List DApp) : List Nat → List Nat → DSt → DSt × Bool
  | _, [], s => (s, true)
  | started, n :: rest, s =>
    if (lookup defs n).fault = 5 then (stopAll started (dev s [.start n, .startFail n]), false)
    else startAll defs (started ++ [n]) rest (dev s [.start n, .started n])

/-- names in the order a Go map with these keys is ranged, as dictated by `π` -/
def orderNames : List Nat → List Nat → List Nat
  | [], rest => rest
  | n :: ns, rest => if rest.contains n then n :: orderNames ns (rest.erase n) else orderNames ns rest

/-- one load: provisionContext's loop over the configured apps (`pp` = map order), then the start
    loop over everything that is in cfg.apps by then (`ps`); on any failure everything is rolled back -/
def load (defs : List DApp) (pp ps : List Nat) (fuel : Nat) : DSt × DRes :=
  match loadNeeds (appLoad defs fuel) (orderNames pp (defs.map (·.name))) ⟨[], [], []⟩ with
  | (s, some r) => ({ cancelAll s.live s with live := [] }, r)
  | (s, none) =>
    match startAll defs [] (orderNames ps s.apps) s with
    | (s', false) => ({ cancelAll s'.live s' with live := [] }, .errStart)
    | (s', true) => (s', .ok)

/-- unsyncedStop of the loaded configuration -/
def unload (s : DSt) : DSt := { cancelAll s.live (stopAll s.apps s) with apps := [], live := [] }

/-- enough fuel: one unit per app that can ever get into the map -/
def enough (defs : List DApp) : Nat := (defs.map (·.name)).length + (defs.flatMap (·.needs)).length + 1

end CaddyModel.Deps
