import CaddyModel.Util.DrvMain
import CaddyModel.C03.Driver

def main (args : List String) : IO Unit :=
  CaddyModel.drvMain "C03" CaddyModel.C03.handle CaddyModel.C03.witnessLines args
