/-
C03 — a module's Cleanup seen from inside: several release steps, each of which may report an
error. The lifecycle (context.go: the cancel function made by NewContext) calls Cleanup exactly
once and only LOGS the error it returns; it cannot retry. So the clause "everything a
configuration acquires is released exactly once" needs, of every module:

    an error of one release step does not stop the remaining releases.

The real case: reverseproxy.(*Handler).Cleanup = [close the streaming connections that are still
open (may fail: EPIPE on a client that has gone away), give back one `hosts` reference per
upstream]. It remembers the first error, carries on, and returns it at the end (`runSteps`).
Returning at the first error (`runStepsEarly`, seeded mutant
C03-proxy-cleanup-returns-before-releasing-hosts) leaves the upstream entries in the pool for ever.

The shared model's `cleanupOne` (Lifecycle.lean) is the pool effect of `runSteps`, whichever steps
fail (`cleanupOne_is_runSteps`); in the line protocol guest fault 5 on reverse proxy key 6 says
"the stream-closing step fails when the configuration ends", and the harness makes it so on the
real handler (an upgraded stream through the proxy whose client connection reports EPIPE).
-/
import CaddyModel.C03.Props

namespace CaddyModel.C03
open CaddyModel.Lifecycle CaddyModel.C01

/-- one release step of a Cleanup: the pool reference it gives back (none: it closes something
    that is not pooled, e.g. streams) and whether it reports an error -/
structure RStep where
  key : Option Nat
  fails : Bool
deriving DecidableEq, Repr

def release (pool : Nat → Nat) : Option Nat → Nat → Nat
  | some k => decr pool k
  | none => pool

/-- Cleanup done right: every step runs; the first error is remembered and returned at the end -/
def runSteps : List RStep → (Nat → Nat) → (Nat → Nat) × Bool
  | [], pool => (pool, false)
  | st :: rest, pool =>
    let r := runSteps rest (release pool st.key)
    (r.1, st.fails || r.2)

/-- Cleanup that returns at the first error: the steps after it never run -/
def runStepsEarly : List RStep → (Nat → Nat) → (Nat → Nat) × Bool
  | [], pool => (pool, false)
  | st :: rest, pool =>
    if st.fails then (pool, true)   -- (the failing step itself released nothing either)
    else runStepsEarly rest (release pool st.key)

/-- the steps of the Cleanup of a loaded module: reverse proxy (and probe guests alike) — close
    what is open, then give back the pool reference -/
def stepsOf (l : Live) (closeFails : Bool) : List RStep := [⟨none, closeFails⟩, ⟨l.key, false⟩]

/-- **cleanup_errors_do_not_stop_releases** (full strength): what `runSteps` gives back to the pool
    does not depend on which steps report an error — for every list of steps and every pool -/
theorem cleanup_errors_do_not_stop_releases (steps : List RStep) (pool : Nat → Nat) :
    (runSteps steps pool).1 = steps.foldl (fun p st => release p st.key) pool := by
  induction steps generalizing pool with
  | nil => rfl
  | cons st rest ih => simp [runSteps, ih]

/-- … and it reports an error iff some step did -/
theorem runSteps_reports (steps : List RStep) (pool : Nat → Nat) :
    (runSteps steps pool).2 = steps.any (·.fails) := by
  induction steps generalizing pool with
  | nil => rfl
  | cons st rest ih => simp [runSteps, ih]

/-- the model's Cleanup of a loaded module is exactly the pool effect of its steps, whether or not
    closing the streams fails -/
theorem cleanupOne_is_runSteps (l : Live) (closeFails : Bool) (s : State) :
    (cleanupOne l s).mpool = (runSteps (stepsOf l closeFails) s.mpool).1 := by
  unfold cleanupOne stepsOf
  cases h : l.key <;> simp [runSteps, release, ev]

/-- hence: cancelling a context gives back the same references whatever subset of its modules'
    Cleanups report an error (`fails` says which) -/
theorem cancel_pool_ignores_cleanup_errors (fails : Live → Bool) :
    ∀ (live : List Live) (s : State),
      (cleanupAll live s).mpool
        = live.foldl (fun p l => (runSteps (stepsOf l (fails l)) p).1) s.mpool
  | [], _ => rfl
  | l :: ls, s => by
    show (cleanupAll ls (cleanupOne l s)).mpool = _
    rw [cancel_pool_ignores_cleanup_errors fails ls, cleanupOne_is_runSteps l (fails l)]
    rfl

/-- the negation for the early-returning Cleanup: a reverse proxy holding upstream entry 6 whose
    stream-closing step fails keeps its reference (pool 1 → 1), while the code as it is gives it
    back (1 → 0) and still reports the error -/
theorem early_return_leaks :
    let pool : Nat → Nat := fun k => if k = 6 then 1 else 0
    let l : Live := ⟨⟨0, 0, 3, 1⟩, some 6, true⟩
    (runStepsEarly (stepsOf l true) pool).1 6 = 1 ∧ (runStepsEarly (stepsOf l true) pool).2 = true ∧
    (runSteps (stepsOf l true) pool).1 6 = 0 ∧ (runSteps (stepsOf l true) pool).2 = true ∧
    (runStepsEarly (stepsOf l false) pool).1 6 = 0 := by decide

-- non-vacuity: three steps, the first two failing — everything is released all the same
example : (runSteps [⟨some 1, true⟩, ⟨none, true⟩, ⟨some 2, false⟩] (fun _ => 3)).1 1 = 2 ∧
    (runSteps [⟨some 1, true⟩, ⟨none, true⟩, ⟨some 2, false⟩] (fun _ => 3)).1 2 = 2 ∧
    (runSteps [⟨some 1, true⟩, ⟨none, true⟩, ⟨some 2, false⟩] (fun _ => 3)).2 = true := by decide

end CaddyModel.C03
