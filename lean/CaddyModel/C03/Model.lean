/-
C03 — the model is the shared Lifecycle machine (C01/Lifecycle.lean: instances, events, the guest
/ hosts usage pool, the writers pool, cleanupFuncs as the code implements them). This file adds the
vocabulary the property talks about.
-/
import CaddyModel.C01.Lifecycle

namespace CaddyModel.C03
open CaddyModel.Lifecycle

/-- the module instance a probe event is about -/
def evInst : Ev → Option Inst
  | .prov i => some i
  | .valid i => some i
  | .clean i => some i
  | _ => none

/-- the app (context, name) a start/stop event is about -/
def evApp : Ev → Option (Nat × Nat)
  | .start c n => some (c, n)
  | .started c n => some (c, n)
  | .startFail c n => some (c, n)
  | .stop c n => some (c, n)
  | _ => none

/-- the probe instances among the entries of a `moduleInstances` list -/
def nq (live : List Live) : List Inst := (live.filter (fun l => !l.quiet)).map (·.inst)

/-- the pool keys held by the entries of a `moduleInstances` list -/
def keys (live : List Live) : List Nat := live.filterMap (·.key)

/-- the probe instances of the configuration that is running -/
def curLive (s : State) : List Inst :=
  match s.cur with
  | none => []
  | some ctx => nq ctx.live

def curKeys (s : State) : List Nat :=
  match s.cur with
  | none => []
  | some ctx => keys ctx.live

/-- the probe apps (context, name) of the configuration that is running -/
def probeApps (cid : Nat) (apps : List App) : List (Nat × Nat) :=
  (apps.filter (fun a => !a.isHttp)).map fun a => (cid, a.name)

def curApps (s : State) : List (Nat × Nat) :=
  match s.cur with
  | none => []
  | some ctx => probeApps ctx.cid ctx.apps

end CaddyModel.C03
