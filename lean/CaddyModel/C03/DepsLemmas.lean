/-
Deps — invariant of lazy app loading: whatever the dependency graph (cycles, unconfigured apps,
failing dependencies), every app is provisioned at most once, and Cleanup is balanced.
-/
import CaddyModel.C03.Deps

set_option linter.unusedSimpArgs false
set_option linter.unusedVariables false

namespace CaddyModel.Deps

def isStartEv : DEv → Bool
  | .start _ => true | .started _ => true | .startFail _ => true | .stop _ => true
  | _ => false

/-- `DInv s stk`: `stk` = the apps whose Provision is in progress (the call stack of ctx.App) -/
structure DInv (s : DSt) (stk : List Nat) : Prop where
  nodup : s.apps.Nodup
  lnodup : s.live.Nodup
  provc : ∀ n, s.events.count (.prov n) = if n ∈ s.apps then 1 else 0
  liveSub : ∀ n ∈ s.live, n ∈ s.apps
  stkSub : ∀ n ∈ stk, n ∈ s.apps ∧ n ∉ s.live
  cleanc : ∀ n, s.events.count (.clean n) = if n ∈ s.apps ∧ n ∉ s.live ∧ n ∉ stk then 1 else 0
  nostart : ∀ e ∈ s.events, isStartEv e = false

/-- how a state may grow while apps are being loaded -/
structure Ext (s s' : DSt) : Prop where
  apps : ∀ m ∈ s.apps, m ∈ s'.apps
  live : ∀ m ∈ s'.live, m ∈ s.live ∨ m ∉ s.apps

theorem Ext.rfl' (s : DSt) : Ext s s := ⟨fun _ h => h, fun _ h => Or.inl h⟩

theorem Ext.dev {s s' : DSt} (h : Ext s s') (es : List DEv) : Ext s (dev s' es) := ⟨h.apps, h.live⟩

theorem Ext.trans {a b c : DSt} (h1 : Ext a b) (h2 : Ext b c) : Ext a c :=
  ⟨fun m h => h2.apps m (h1.apps m h), fun m h => by
    rcases h2.live m h with h | h
    · exact h1.live m h
    · exact Or.inr (fun hm => h (h1.apps m hm))⟩

/-- no failure so far: every app in the map is loaded or being loaded -/
def AllGood (s : DSt) (stk : List Nat) : Prop := ∀ m ∈ s.apps, m ∈ s.live ∨ m ∈ stk

/-- what one call of ctx.App guarantees -/
def Good (f : Nat → DSt → DSt × Option DRes) : Prop :=
  ∀ n s stk, DInv s stk → DInv (f n s).1 stk ∧ Ext s (f n s).1 ∧
    (AllGood s stk → (f n s).2 = none → AllGood (f n s).1 stk ∧ (n ∈ (f n s).1.live ∨ n ∈ stk))

theorem loadNeeds_good (f : Nat → DSt → DSt × Option DRes) (hf : Good f) :
    ∀ (ns : List Nat) (s : DSt) (stk : List Nat), DInv s stk →
      DInv (loadNeeds f ns s).1 stk ∧ Ext s (loadNeeds f ns s).1 ∧
      (AllGood s stk → (loadNeeds f ns s).2 = none → AllGood (loadNeeds f ns s).1 stk)
  | [], s, stk, h => ⟨h, Ext.rfl' s, fun hg _ => hg⟩
  | n :: ns, s, stk, h => by
    unfold loadNeeds
    obtain ⟨h1, h2, h3⟩ := hf n s stk h
    generalize f n s = r at h1 h2 h3
    obtain ⟨s', o⟩ := r
    cases o with
    | some r => exact ⟨h1, h2, fun _ hh => by simp at hh⟩
    | none =>
      obtain ⟨g1, g2, g3⟩ := loadNeeds_good f hf ns s' stk h1
      exact ⟨g1, h2.trans g2, fun hg hh => g3 (h3 hg rfl).1 hh⟩

theorem count_single_ne {a b : DEv} (h : a ≠ b) : [a].count b = 0 := by
  simp [List.count_cons, h]

theorem appLoad_good (defs : List DApp) : ∀ fuel, Good (appLoad defs fuel)
  | 0 => by
    intro n s stk h
    exact ⟨h, Ext.rfl' s, fun _ hh => by simp [appLoad] at hh⟩
  | fuel + 1 => by
    intro n s stk h
    unfold appLoad
    split
    · rename_i hin
      have hin' : n ∈ s.apps := by simpa using hin
      exact ⟨h, Ext.rfl' s, fun hg _ => ⟨hg, hg n hin'⟩⟩
    · rename_i hnin
      have hn : n ∉ s.apps := by simpa using hnin
      have hnstk : n ∉ stk := fun hm => hn (h.stkSub n hm).1
      have hnlive : n ∉ s.live := fun hm => hn (h.liveSub n hm)
      -- the state in which Provision of n begins
      have h1 : DInv (dev { s with apps := s.apps ++ [n] } [.prov n]) (n :: stk) := by
        refine ⟨?_, h.lnodup, ?_, ?_, ?_, ?_, ?_⟩
        · exact List.nodup_append.mpr ⟨h.nodup, (List.nodup_cons.mpr ⟨by simp, List.nodup_nil⟩), by
            intro a ha b hb
            have hb' : b = n := List.mem_singleton.mp hb
            subst hb'
            exact fun e => hn (e ▸ ha)⟩
        · intro m
          simp only [dev, List.count_append, List.mem_append, List.mem_singleton]
          rw [h.provc m]
          by_cases hm : m = n
          · subst hm; simp [hn]
          · have : [DEv.prov n].count (.prov m) = 0 := count_single_ne (by simp [Ne.symm hm])
            rw [this]; simp [hm]
        · intro m hm; exact List.mem_append_left _ (h.liveSub m hm)
        · intro m hm
          rcases List.mem_cons.mp hm with rfl | hm
          · exact ⟨List.mem_append_right _ (List.mem_singleton.mpr rfl), hnlive⟩
          · exact ⟨List.mem_append_left _ (h.stkSub m hm).1, (h.stkSub m hm).2⟩
        · intro m
          simp only [dev, List.count_append]
          have : [DEv.prov n].count (.clean m) = 0 := count_single_ne (by simp)
          rw [this, h.cleanc m]
          by_cases hm : m = n
          · subst hm; simp [hn]
          · simp [hm]
        · intro e he
          simp only [dev, List.mem_append, List.mem_singleton] at he
          rcases he with he | rfl
          · exact h.nostart e he
          · rfl
      have hext1 : Ext s (dev { s with apps := s.apps ++ [n] } [.prov n]) :=
        ⟨fun m hm => List.mem_append_left _ hm, fun m hm => Or.inl hm⟩
      obtain ⟨g1, g2, g3⟩ := loadNeeds_good (appLoad defs fuel) (appLoad_good defs fuel)
        (lookup defs n).needs _ (n :: stk) h1
      generalize loadNeeds (appLoad defs fuel) (lookup defs n).needs
        (dev { s with apps := s.apps ++ [n] } [.prov n]) = r at g1 g2 g3
      obtain ⟨s', o⟩ := r
      have hns' : n ∈ s'.apps := g2.apps n (by simp [dev])
      have hnl' : n ∉ s'.live := (g1.stkSub n List.mem_cons_self).2
      have hext : Ext s s' := hext1.trans g2
      -- n's Provision / Validate failed: immediate Cleanup
      have hfail : ∀ (es : List DEv), (∀ e ∈ es, isStartEv e = false) → (∀ m, es.count (.prov m) = 0) →
          (∀ m, es.count (.clean m) = if m = n then 1 else 0) → DInv (dev s' es) stk := by
        intro es hes hp hc
        refine ⟨g1.nodup, g1.lnodup, ?_, g1.liveSub, ?_, ?_, ?_⟩
        · intro m; simp only [dev, List.count_append, hp m]; exact g1.provc m
        · intro m hm; exact g1.stkSub m (List.mem_cons_of_mem _ hm)
        · intro m
          simp only [dev, List.count_append, hc m]
          have hcm := g1.cleanc m
          by_cases hm : m = n
          · subst hm
            rw [hcm]
            simp [hns', hnl', hnstk]
          · simp only [List.mem_cons, hm, false_or] at hcm
            simp only [hm, if_false, Nat.add_zero]
            exact hcm
        · intro e he
          simp only [dev, List.mem_append] at he
          rcases he with he | he
          · exact g1.nostart e he
          · exact hes e he
      have c1 : ∀ m, [DEv.clean n].count (.clean m) = if m = n then 1 else 0 := by
        intro m
        by_cases hm : m = n
        · subst hm; simp
        · rw [count_single_ne (by simp [Ne.symm hm])]; simp [hm]
      have c2 : ∀ m, [DEv.valid n, DEv.clean n].count (.clean m) = if m = n then 1 else 0 := by
        intro m
        have : [DEv.valid n, DEv.clean n] = [DEv.valid n] ++ [DEv.clean n] := rfl
        rw [this, List.count_append, count_single_ne (by simp), Nat.zero_add]
        exact c1 m
      cases o with
      | some r =>
        exact ⟨hfail [.clean n] (by simp [isStartEv]) (by intro m; simp [List.count_cons]) c1, hext.dev _,
          fun _ hh => by simp at hh⟩
      | none =>
        dsimp only
        split
        · exact ⟨hfail [.clean n] (by simp [isStartEv]) (by intro m; simp [List.count_cons]) c1, hext.dev _,
            fun _ hh => by simp at hh⟩
        · split
          · exact ⟨hfail [.valid n, .clean n] (by simp [isStartEv]) (by intro m; simp [List.count_cons]) c2,
              hext.dev _, fun _ hh => by simp at hh⟩
          · -- success: n is loaded
            refine ⟨⟨g1.nodup, ?_, ?_, ?_, ?_, ?_, ?_⟩, ⟨hext.apps, ?_⟩, ?_⟩
            · exact List.nodup_append.mpr ⟨g1.lnodup, (List.nodup_cons.mpr ⟨by simp, List.nodup_nil⟩), by
                intro a ha b hb
                have hb' : b = n := List.mem_singleton.mp hb
                subst hb'
                exact fun e => hnl' (e ▸ ha)⟩
            · intro m
              simp only [dev, List.count_append]
              rw [count_single_ne (by simp), Nat.add_zero]
              exact g1.provc m
            · intro m hm
              rcases List.mem_append.mp hm with hm | hm
              · exact g1.liveSub m hm
              · simp at hm; subst hm; exact hns'
            · intro m hm
              have := g1.stkSub m (List.mem_cons_of_mem _ hm)
              refine ⟨this.1, ?_⟩
              intro hl
              rcases List.mem_append.mp hl with hl | hl
              · exact this.2 hl
              · simp at hl; subst hl; exact hnstk hm
            · intro m
              simp only [dev, List.count_append]
              rw [count_single_ne (by simp), Nat.add_zero, g1.cleanc m]
              by_cases hm : m = n
              · subst hm; simp [hns', hnl']
              · simp [hm]
            · intro e he
              simp only [dev, List.mem_append, List.mem_singleton] at he
              rcases he with he | rfl
              · exact g1.nostart e he
              · rfl
            · intro m hm
              rcases List.mem_append.mp hm with hm | hm
              · exact hext.live m hm
              · simp at hm; subst hm; exact Or.inr hn
            · intro hg _
              have hg1 : AllGood (dev { s with apps := s.apps ++ [n] } [.prov n]) (n :: stk) := by
                intro m hm
                simp only [dev, List.mem_append, List.mem_singleton] at hm
                rcases hm with hm | rfl
                · rcases hg m hm with h | h
                  · exact Or.inl h
                  · exact Or.inr (List.mem_cons_of_mem _ h)
                · exact Or.inr List.mem_cons_self
              have hg2 := g3 hg1 rfl
              have hnew : n ∈ (dev { s' with live := s'.live ++ [n] } [.valid n]).live :=
                List.mem_append_right _ (List.mem_singleton.mpr rfl)
              refine ⟨?_, Or.inl hnew⟩
              intro m hm
              rcases hg2 m hm with h | h
              · exact Or.inl (List.mem_append_left _ h)
              · rcases List.mem_cons.mp h with rfl | h
                · exact Or.inl (List.mem_append_right _ (List.mem_singleton.mpr rfl))
                · exact Or.inr h

/-- ctx.App never reports the error "ok" -/
theorem loadNeeds_ne_ok (f : Nat → DSt → DSt × Option DRes) (hf : ∀ n s, (f n s).2 ≠ some .ok) :
    ∀ (ns : List Nat) (s : DSt), (loadNeeds f ns s).2 ≠ some .ok
  | [], s => by simp [loadNeeds]
  | n :: ns, s => by
    unfold loadNeeds
    have h := hf n s
    generalize f n s = r at h
    obtain ⟨s', o⟩ := r
    cases o with
    | none => exact loadNeeds_ne_ok f hf ns s'
    | some r => exact h

theorem appLoad_ne_ok (defs : List DApp) : ∀ fuel n s, (appLoad defs fuel n s).2 ≠ some .ok
  | 0, n, s => by simp [appLoad]
  | fuel + 1, n, s => by
    unfold appLoad
    split
    · simp
    · have h := loadNeeds_ne_ok (appLoad defs fuel) (appLoad_ne_ok defs fuel) (lookup defs n).needs
        (dev { s with apps := s.apps ++ [n] } [.prov n])
      generalize loadNeeds (appLoad defs fuel) (lookup defs n).needs
        (dev { s with apps := s.apps ++ [n] } [.prov n]) = r at h
      obtain ⟨s', o⟩ := r
      cases o with
      | some r => exact h
      | none => dsimp only; split; simp; split <;> simp

end CaddyModel.Deps
