/-
Deps — the nesting depth of ctx.App is bounded: with one unit of fuel per app that can ever get into
the map (`enough`), the model never runs out of fuel.
-/
import CaddyModel.C03.DepsProps

set_option linter.unusedSimpArgs false
set_option linter.unusedVariables false

namespace CaddyModel.Deps

/-- every name that can ever be asked for -/
def allNames (defs : List DApp) : List Nat := defs.map (·.name) ++ defs.flatMap (·.needs)

theorem nodup_subset_length : ∀ (l u : List Nat), l.Nodup → (∀ a ∈ l, a ∈ u) → l.length ≤ u.length
  | [], _, _, _ => Nat.zero_le _
  | a :: l, u, hn, hs => by
    obtain ⟨ha, hl⟩ := List.nodup_cons.mp hn
    have hau : a ∈ u := hs a List.mem_cons_self
    have := nodup_subset_length l (u.erase a) hl (by
      intro b hb
      have hne : b ≠ a := fun e => ha (e ▸ hb)
      exact (List.mem_erase_of_ne hne).mpr (hs b (List.mem_cons_of_mem _ hb)))
    rw [List.length_erase_of_mem hau] at this
    have hpos : 0 < u.length := List.length_pos_of_mem hau
    simp only [List.length_cons]
    omega

theorem needs_in_allNames (defs : List DApp) (n : Nat) : ∀ d ∈ (lookup defs n).needs, d ∈ allNames defs := by
  intro d hd
  unfold lookup at hd
  cases hf : defs.find? (fun a => a.name == n) with
  | none => rw [hf] at hd; simp at hd
  | some a =>
    rw [hf] at hd
    have ha : a ∈ defs := List.mem_of_find?_eq_some hf
    exact List.mem_append_right _ (List.mem_flatMap.mpr ⟨a, ha, hd⟩)

/-- enough fuel is left in state `s` -/
structure FInv (U : List Nat) (k : Nat) (s : DSt) : Prop where
  nodup : s.apps.Nodup
  sub : ∀ m ∈ s.apps, m ∈ U
  room : U.length < k + s.apps.length

def FGood (U : List Nat) (k : Nat) (f : Nat → DSt → DSt × Option DRes) : Prop :=
  ∀ n s, n ∈ U → FInv U k s → (f n s).2 ≠ some .fuel ∧ FInv U k (f n s).1

theorem loadNeeds_fuel (U : List Nat) (k : Nat) (f : Nat → DSt → DSt × Option DRes) (hf : FGood U k f) :
    ∀ (ns : List Nat) (s : DSt), (∀ n ∈ ns, n ∈ U) → FInv U k s →
      (loadNeeds f ns s).2 ≠ some .fuel ∧ FInv U k (loadNeeds f ns s).1
  | [], s, _, h => ⟨by simp [loadNeeds], h⟩
  | n :: ns, s, hn, h => by
    unfold loadNeeds
    obtain ⟨h1, h2⟩ := hf n s (hn n List.mem_cons_self) h
    generalize f n s = r at h1 h2
    obtain ⟨s', o⟩ := r
    cases o with
    | some r => exact ⟨h1, h2⟩
    | none => exact loadNeeds_fuel U k f hf ns s' (fun m hm => hn m (List.mem_cons_of_mem _ hm)) h2

theorem appLoad_fuel (defs : List DApp) : ∀ k, FGood (allNames defs) k (appLoad defs k)
  | 0 => by
    intro n s _ h
    exfalso
    have := nodup_subset_length s.apps (allNames defs) h.nodup h.sub
    have := h.room
    omega
  | k + 1 => by
    intro n s hn h
    unfold appLoad
    split
    · exact ⟨by simp, h⟩
    · rename_i hnin
      have hn' : n ∉ s.apps := by simpa using hnin
      have h1 : FInv (allNames defs) k (dev { s with apps := s.apps ++ [n] } [.prov n]) := by
        refine ⟨?_, ?_, ?_⟩
        · exact List.nodup_append.mpr ⟨h.nodup, List.nodup_cons.mpr ⟨by simp, List.nodup_nil⟩, by
            intro a ha b hb
            have hb' : b = n := List.mem_singleton.mp hb
            subst hb'
            exact fun e => hn' (e ▸ ha)⟩
        · intro m hm
          rcases List.mem_append.mp hm with hm | hm
          · exact h.sub m hm
          · rw [List.mem_singleton.mp hm]; exact hn
        · have := h.room
          simp only [dev, List.length_append, List.length_singleton]
          omega
      obtain ⟨g1, g2⟩ := loadNeeds_fuel (allNames defs) k (appLoad defs k) (appLoad_fuel defs k)
        (lookup defs n).needs _ (needs_in_allNames defs n) h1
      generalize loadNeeds (appLoad defs k) (lookup defs n).needs
        (dev { s with apps := s.apps ++ [n] } [.prov n]) = r at g1 g2
      obtain ⟨s', o⟩ := r
      have up : ∀ (t : DSt), t.apps = s'.apps → FInv (allNames defs) (k + 1) t := by
        intro t ht
        refine ⟨ht ▸ g2.nodup, fun m hm => g2.sub m (ht ▸ hm), ?_⟩
        have := g2.room
        simp only at this
        rw [ht]; omega
      cases o with
      | some r => exact ⟨g1, up _ rfl⟩
      | none =>
        dsimp only
        split
        · exact ⟨by simp, up _ rfl⟩
        · split
          · exact ⟨by simp, up _ rfl⟩
          · exact ⟨by simp, up _ rfl⟩

/-- **the model never runs out of fuel**: with `enough defs` units — one per app that can ever get
    into the map, plus one — a load never answers `fuel`, whatever the graph and the orders. -/
theorem load_never_runs_out_of_fuel (defs : List DApp) (pp ps : List Nat) :
    (load defs pp ps (enough defs)).2 ≠ .fuel := by
  unfold load
  have h0 : FInv (allNames defs) (enough defs) ⟨[], [], []⟩ := by
    refine ⟨List.nodup_nil, by simp, ?_⟩
    simp [enough, allNames, List.length_append]
  obtain ⟨g1, _⟩ := loadNeeds_fuel (allNames defs) (enough defs) (appLoad defs (enough defs))
    (appLoad_fuel defs (enough defs)) (orderNames pp (defs.map (·.name))) ⟨[], [], []⟩ (by
      intro n hn
      exact List.mem_append_left _ ((orderNames_perm pp (defs.map (·.name))).mem_iff.mp hn)) h0
  generalize loadNeeds (appLoad defs (enough defs)) (orderNames pp (defs.map (·.name))) ⟨[], [], []⟩ = r at g1
  obtain ⟨s, o⟩ := r
  cases o with
  | some r => intro h; simp at h; exact g1 (by rw [h])
  | none =>
    dsimp only
    generalize startAll defs [] (orderNames ps s.apps) s = q
    obtain ⟨s', b⟩ := q
    cases b <;> simp

-- non-vacuity: a three-cycle plus an unconfigured app needs depth 4; `enough` gives 7
example : (load exDefs [0] [] 2).2 = .fuel ∧ (load exDefs [0] [] (enough exDefs)).2 ≠ .fuel := by decide

end CaddyModel.Deps
