/-
C03 — property theorems.

Statement: for every module instance set up for a configuration, its cleanup runs exactly once,
after that configuration has been rejected or its apps have been stopped and never earlier; every
app that was started is stopped exactly once; cleanup callbacks registered for the configuration's
lifetime are invoked when it ends. Consequently the shared resources held by the process are a
function of the currently running configuration only.

Quantifiers: every history of load / partial change / validate / stop / malformed operations
(`runOps State.init ops`), every configuration, every fault at every provision / validate / start
/ bind / post-start point, every map order — no bound on anything.

Apps that are provisioned on demand from inside other apps' Provision (ctx.App: dependency graphs with
cycles, unconfigured apps, failing dependencies) have their own small model and theorems:
Deps.lean / DepsProps.lean (provisioned_at_most_once, rejected_rolled_back,
accepted_runs_everything_once, load_never_runs_out_of_fuel), tied to the real code by the `G=` cases.

Clauses the unchanged tree violates are refuted in Witness.lean (F4: OnCancel callbacks, writers
pool). The hosts-pool clause holds at full strength since fix d6561d4 (F20).
-/
import CaddyModel.C03.Witness
import CaddyModel.C03.DepsProps
import CaddyModel.C03.DepsFuel
import CaddyModel.C03.LemmasO
import CaddyModel.C01.Props

namespace CaddyModel.C03
open CaddyModel.Lifecycle

/-! ### Cleanup -/

/-- **at most once.** No module instance is ever cleaned up twice — whatever the history. -/
theorem cleanup_at_most_once (ops : List Op) (i : Inst) :
    (runOps State.init ops).events.count (.clean i) ≤ 1 := by
  have h := (inv3_runOps ops State.init inv3_init).bal
  by_cases hi : i ∈ curLive (runOps State.init ops)
  · rw [(h.live i hi).1]; exact Nat.zero_le _
  · rw [h.dead i hi]; exact h.prov1 i

/-- **exactly once, and never earlier** (full strength — holds since fix dd15951). After any
    history, every instance that was ever provisioned either belongs to the configuration that
    is running right now and has not been cleaned up, or belongs to a configuration that was
    rejected, replaced, validated or stopped and has been cleaned up exactly once. -/
theorem every_instance_cleaned_exactly_once (ops : List Op) (i : Inst)
    (hp : Ev.prov i ∈ (runOps State.init ops).events) :
    (i ∈ curLive (runOps State.init ops) ∧ (runOps State.init ops).events.count (.clean i) = 0) ∨
    (i ∉ curLive (runOps State.init ops) ∧ (runOps State.init ops).events.count (.clean i) = 1) := by
  have h := (inv3_runOps ops State.init inv3_init).bal
  by_cases hi : i ∈ curLive (runOps State.init ops)
  · exact Or.inl ⟨hi, (h.live i hi).1⟩
  · refine Or.inr ⟨hi, ?_⟩
    rw [h.dead i hi]
    have h1 := h.prov1 i
    have h2 : 0 < (runOps State.init ops).events.count (.prov i) := List.count_pos_iff.mpr hp
    omega

/-- no instance is provisioned twice, and nothing is cleaned up that was not provisioned -/
theorem cleanup_only_of_provisioned (ops : List Op) (i : Inst) :
    (runOps State.init ops).events.count (.prov i) ≤ 1 ∧
    (runOps State.init ops).events.count (.clean i) ≤ (runOps State.init ops).events.count (.prov i) := by
  have h := (inv3_runOps ops State.init inv3_init).bal
  refine ⟨h.prov1 i, ?_⟩
  by_cases hi : i ∈ curLive (runOps State.init ops)
  · rw [(h.live i hi).1]; exact Nat.zero_le _
  · rw [h.dead i hi]; exact Nat.le_refl _

/-- **a failed Provision / Validate is cleaned up on the spot** (LoadModuleByID): the events of a
    probe guest whose Provision (fault 3) or Validate (fault 4) fails end with its own Cleanup, and
    the instance is not recorded in `moduleInstances` — it will not be cleaned up again. -/
theorem failed_provision_cleaned_immediately (cid app idx : Nat) (m : Mod) (s : State) (live : List Live)
    (hrp : m.isRp = false) (hf : m.fault = 3 ∨ m.fault = 4) :
    (loadMod cid app idx m s live).2.1 = live ∧
    ((loadMod cid app idx m s live).1.events = s.events ++ [.prov ⟨s.nseq, cid, app, idx⟩, .clean ⟨s.nseq, cid, app, idx⟩] ∨
     (loadMod cid app idx m s live).1.events =
       s.events ++ [.prov ⟨s.nseq, cid, app, idx⟩, .valid ⟨s.nseq, cid, app, idx⟩, .clean ⟨s.nseq, cid, app, idx⟩]) := by
  unfold loadMod loadModAt
  rcases hf with hf | hf <;> simp [hf, hrp, ev, alloc]

/-- **Cleanup comes after Stop**: stopping a context is "Stop every app, then cancel"; the Stop
    phase produces no module event, the cancel phase no app event. -/
theorem stop_then_cleanup (ctx : Ctx) (s : State) :
    unsyncedStop (some ctx) s = cancel ctx.cid ctx.cbs ctx.wkeys ctx.live (stopApps ctx.cid ctx.apps s) ∧
    (stopApps ctx.cid ctx.apps s).events = s.events ∧
    (unsyncedStop (some ctx) s).aevents = (stopApps ctx.cid ctx.apps s).aevents := by
  refine ⟨rfl, ?_, (C01.cancel_frame _ _ _ _ _).aevents⟩
  obtain ⟨⟨es, h1, h2⟩, _⟩ := stopApps_quiet ctx.cid ctx.apps s
  -- the Stop phase appends nothing to the module events
  have : ∀ (l : List App) (s : State), (stopApps ctx.cid l s).events = s.events := by
    intro l
    induction l with
    | nil => intro s; rfl
    | cons a l ih =>
      intro s
      unfold stopApps
      rw [ih]
      unfold stopApp
      split <;> rfl
  exact this _ _

/-- **the order of the Cleanups inside one cancel does not matter.** The cancel function ranges a Go
    map (`moduleInstances`), so the order in which it calls the modules' Cleanup is arbitrary; the
    model uses load order. For ANY other order (any permutation of the list) the resulting state is
    the same in every field — pool references, writers, sockets, … — and the appended events are the
    same multiset. This is what entitles the correspondence check to compare events as multisets. -/
theorem cleanup_order_irrelevant (cid : Nat) (wk : List Nat) (live live' : List Live) (s : State)
    (p : live.Perm live') : Sim (cancel cid [] wk live s) (cancel cid [] wk live' s) := by
  unfold cancel
  simp only [List.isEmpty_nil, if_true]
  exact cleanupAll_perm p (Sim.rfl' s)

/-! ### Start / Stop -/

/-- **every started app is stopped exactly once** — and not while its configuration runs. After
    any history of well-formed operations (`opWF`: app names of a submitted configuration are
    distinct), every app whose Start returned nil either belongs to the running configuration and
    has not been stopped, or has been stopped exactly once. -/
theorem started_stopped_exactly_once (ops : List Op) (hw : ∀ op ∈ ops, opWF op) (c n : Nat)
    (hs : Ev.started c n ∈ (runOps State.init ops).aevents) :
    ((c, n) ∈ curApps (runOps State.init ops) ∧ (runOps State.init ops).aevents.count (.stop c n) = 0) ∨
    ((c, n) ∉ curApps (runOps State.init ops) ∧ (runOps State.init ops).aevents.count (.stop c n) = 1) := by
  have h := (inv4_runOps ops State.init inv4_init hw).bal
  by_cases hi : (c, n) ∈ curApps (runOps State.init ops)
  · exact Or.inl ⟨hi, (h.live (c, n) hi).1⟩
  · refine Or.inr ⟨hi, ?_⟩
    have := h.dead (c, n) hi
    simp only at this
    rw [this]
    have h1 := h.started1 c n
    have h2 : 0 < (runOps State.init ops).aevents.count (.started c n) := List.count_pos_iff.mpr hs
    omega

/-- no app is stopped twice, and no app is stopped whose Start did not return nil -/
theorem stop_only_of_started (ops : List Op) (hw : ∀ op ∈ ops, opWF op) (c n : Nat) :
    (runOps State.init ops).aevents.count (.started c n) ≤ 1 ∧
    (runOps State.init ops).aevents.count (.stop c n) ≤ (runOps State.init ops).aevents.count (.started c n) := by
  have h := (inv4_runOps ops State.init inv4_init hw).bal
  refine ⟨h.started1 c n, ?_⟩
  by_cases hi : (c, n) ∈ curApps (runOps State.init ops)
  · rw [(h.live (c, n) hi).1]; exact Nat.zero_le _
  · have := h.dead (c, n) hi
    simp only at this
    rw [this]; exact Nat.le_refl _

/-! ### resources are a function of the running configuration -/

/-- **pools_function_of_current** for the guest / hosts usage pool — FULL strength (since fix
    d6561d4; the old reverse_proxy Cleanup breaks it: Witness.hosts_function_of_current_old_code_fails;
    for the writers pool the clause is refuted: F4). For every history, with every fault anywhere —
    including reverse proxies failing before or after they set up their upstreams: the pool
    holds, for every key, exactly as many references as the modules of the running configuration
    hold — nothing for rejected, replaced, validated or stopped ones. -/
theorem pools_function_of_current (ops : List Op) (k : Nat) :
    (runOps State.init ops).mpool k = (curKeys (runOps State.init ops)).count k :=
  (inv5_runOps ops State.init inv5_init).pool k

/-- bound sockets are a function of the running configuration — full strength, for every history
    (C01.history_atomic, restated for this property) -/
theorem sockets_function_of_current (ops : List Op) :
    (C01.answers (C01.runBoth State.init none ops).1).Perm (C01.Spec.cfgAnswers (C01.runBoth State.init none ops).2) ∧
    ((C01.runBoth State.init none ops).2 = none → (C01.runBoth State.init none ops).1.socks = []) :=
  (C01.history_atomic ops).2

/-- **why the callbacks never run** (the mechanism behind F4, for every history): the cancel
    function of every context that ever becomes current ranges over an EMPTY callback list, and
    cancelling with an empty list releases no log writer. -/
theorem oncancel_list_always_empty (ops : List Op) (ctx : Ctx)
    (hc : (runOps State.init ops).cur = some ctx) :
    ctx.cbs = [] ∧ ∀ s : State, (cancel ctx.cid ctx.cbs ctx.wkeys ctx.live s).writers = s.writers := by
  have h := (inv3_runOps ops State.init inv3_init).cbs ctx hc
  exact ⟨h, fun s => by rw [h]; exact cancel_nil_writers _ _ _ _⟩

/-! ### non-vacuity: concrete instances (kernel-evaluated) -/

/-- probe app 0 (guest keys 0,1), HTTP app with a probe handler (key 0) and a reverse proxy (4) -/
def exA : Cfg := ⟨0, [⟨0, 1⟩], [⟨0, 1, 0, [0], [⟨0, 0⟩, ⟨0, 1⟩]⟩, ⟨3, 2, 0, [1], [⟨0, 0⟩, ⟨0, 4⟩]⟩], ⟨0, 0⟩⟩
/-- a config whose second guest of app 1 fails to provision -/
def exB : Cfg := ⟨0, [], [⟨0, 5, 0, [2], [⟨0, 2⟩]⟩, ⟨1, 6, 0, [], [⟨0, 3⟩, ⟨3, 3⟩]⟩], ⟨0, 0⟩⟩
/-- a config whose app 1 fails in Start after app 0 started -/
def exC : Cfg := ⟨0, [], [⟨0, 5, 0, [2], [⟨0, 2⟩]⟩, ⟨1, 6, 5, [], []⟩], ⟨0, 0⟩⟩
def exE : Env := ⟨true, false, 0, [], [0, 1, 3], [0, 1, 3]⟩
/-- healthy, but the post-start step will fail -/
def exD : Cfg := ⟨0, [], [⟨0, 5, 0, [2], [⟨0, 2⟩]⟩, ⟨1, 6, 0, [], []⟩], ⟨0, 0⟩⟩
/-- its reverse proxy to upstream 4 (shared with exA) fails before setting up its upstreams -/
def exF : Cfg := ⟨0, [], [⟨3, 9, 0, [], [⟨3, 4⟩]⟩], ⟨0, 0⟩⟩
def exOps : List Op := [.load exA exE, .load exB exE, .load exC exE, .validate exB exE,
  .load exD ⟨true, true, 0, [], [0, 1], [0, 1]⟩, .load exF exE, .load exD ⟨true, false, 2, [], [0, 1], [0, 1]⟩]

-- the history has rejected loads in every phase and satisfies the hypotheses
example : (trace State.init exOps).map (·.1) =
    [.ok, .errProvision, .errStart, .errProvision, .errPost, .errProvision, .errAdmin] := by decide
example : ∀ op ∈ exOps, opWF op := by decide
-- an instance of a rejected config that was provisioned and then cleaned at cancel, exactly once
example : Ev.prov ⟨8, 1, 0, 1⟩ ∈ (runOps State.init exOps).events ∧
    (runOps State.init exOps).events.count (.clean ⟨8, 1, 0, 1⟩) = 1 ∧
    (⟨8, 1, 0, 1⟩ : Inst) ∉ curLive (runOps State.init exOps) := by decide
-- an instance of the running config: provisioned, alive, not cleaned
example : (⟨2, 0, 0, 1⟩ : Inst) ∈ curLive (runOps State.init exOps) ∧
    (runOps State.init exOps).events.count (.clean ⟨2, 0, 0, 1⟩) = 0 := by decide
-- app 0 of the config rejected in Start (context 2) started and was stopped once; app 0 of the
-- running config (context 0) started and runs
example : Ev.started 2 0 ∈ (runOps State.init exOps).aevents ∧
    (runOps State.init exOps).aevents.count (.stop 2 0) = 1 ∧
    (0, 0) ∈ curApps (runOps State.init exOps) ∧ (runOps State.init exOps).aevents.count (.stop 0 0) = 0 := by decide
-- the pool after all that is the running config's: keys 0 (twice), 1, 4
example : (runOps State.init exOps).mpool 0 = 2 ∧ (runOps State.init exOps).mpool 4 = 1 ∧
    (runOps State.init exOps).mpool 2 = 0 ∧ (runOps State.init exOps).mpool 3 = 0 := by decide
-- cleanup_order_irrelevant: two different orders of three instances holding pool keys
example : ([⟨⟨0, 0, 0, 1⟩, some 0, false⟩, ⟨⟨1, 0, 0, 2⟩, some 1, false⟩, ⟨⟨2, 0, 3, 1⟩, some 0, true⟩] : List Live).Perm
    [⟨⟨2, 0, 3, 1⟩, some 0, true⟩, ⟨⟨0, 0, 0, 1⟩, some 0, false⟩, ⟨⟨1, 0, 0, 2⟩, some 1, false⟩] := by decide
-- failed_provision_cleaned_immediately: hypotheses inhabited
example : (⟨3, 3⟩ : Mod).isRp = false ∧ ((⟨3, 3⟩ : Mod).fault = 3 ∨ (⟨3, 3⟩ : Mod).fault = 4) := by decide
-- oncancel_list_always_empty: there is a current context after the history
example : ((runOps State.init exOps).cur.map (·.cid)) = some 0 := by decide

end CaddyModel.C03
