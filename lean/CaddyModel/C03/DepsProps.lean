/-
Deps — property theorems of lazy app loading (C03: "every module instance … cleanup exactly once;
every app that was started is stopped exactly once", for apps that are provisioned on demand from
inside other apps' Provision). All for EVERY dependency graph (cycles, self-dependencies, apps nobody
configured, failing dependencies), every fault, every map order `pp` / `ps`, every fuel.
-/
import CaddyModel.C03.DepsLemmas

set_option linter.unusedSimpArgs false
set_option linter.unusedVariables false

namespace CaddyModel.Deps

theorem dinv_init : DInv ⟨[], [], []⟩ [] :=
  ⟨List.nodup_nil, List.nodup_nil, by simp, by simp, by simp, by simp, by simp⟩

/-- the state after provisionContext's loop -/
theorem provision_inv (defs : List DApp) (fuel : Nat) (names : List Nat) :
    DInv (loadNeeds (appLoad defs fuel) names ⟨[], [], []⟩).1 [] ∧
    ((loadNeeds (appLoad defs fuel) names ⟨[], [], []⟩).2 = none →
      AllGood (loadNeeds (appLoad defs fuel) names ⟨[], [], []⟩).1 []) := by
  obtain ⟨h1, _, h3⟩ := loadNeeds_good (appLoad defs fuel) (appLoad_good defs fuel) names ⟨[], [], []⟩ [] dinv_init
  exact ⟨h1, h3 (by intro m hm; simp at hm)⟩

/-! counting through cancel / stop / start -/

theorem cancelAll_spec : ∀ (l : List Nat) (s : DSt),
    (cancelAll l s).apps = s.apps ∧ (cancelAll l s).live = s.live ∧
    (∀ e, (∀ n, e ≠ .clean n) → (cancelAll l s).events.count e = s.events.count e) ∧
    (∀ n, (cancelAll l s).events.count (.clean n) = s.events.count (.clean n) + l.count n)
  | [], s => by simp [cancelAll]
  | m :: l, s => by
    unfold cancelAll
    obtain ⟨h1, h2, h3, h4⟩ := cancelAll_spec l (dev s [.clean m])
    refine ⟨h1, h2, fun e he => ?_, fun n => ?_⟩
    · rw [h3 e he]
      simp only [dev, List.count_append]
      rw [count_single_ne (fun h => he m h.symm)]; rfl
    · rw [h4 n]
      simp only [dev, List.count_append, List.count_cons]
      by_cases hn : m = n
      · subst hn; simp; omega
      · have : ¬ n = m := fun e => hn e.symm
        simp [hn, this]

theorem stopAll_spec : ∀ (l : List Nat) (s : DSt),
    (stopAll l s).apps = s.apps ∧ (stopAll l s).live = s.live ∧
    (∀ e, (∀ n, e ≠ .stop n) → (stopAll l s).events.count e = s.events.count e) ∧
    (∀ n, (stopAll l s).events.count (.stop n) = s.events.count (.stop n) + l.count n)
  | [], s => by simp [stopAll]
  | m :: l, s => by
    unfold stopAll
    obtain ⟨h1, h2, h3, h4⟩ := stopAll_spec l (dev s [.stop m])
    refine ⟨h1, h2, fun e he => ?_, fun n => ?_⟩
    · rw [h3 e he]
      simp only [dev, List.count_append]
      rw [count_single_ne (fun h => he m h.symm)]; rfl
    · rw [h4 n]
      simp only [dev, List.count_append, List.count_cons]
      by_cases hn : m = n
      · subst hn; simp; omega
      · have : ¬ n = m := fun e => hn e.symm
        simp [hn, this]

/-- the start loop: on success every app of the list finished Start once more and nothing was
    stopped; on failure everything that had finished Start was stopped; no Provision / Cleanup -/
theorem startAll_spec (defs : List DApp) : ∀ (rest started : List Nat) (s : DSt),
    (startAll defs started rest s).1.apps = s.apps ∧ (startAll defs started rest s).1.live = s.live ∧
    (∀ n, (startAll defs started rest s).1.events.count (.prov n) = s.events.count (.prov n)) ∧
    (∀ n, (startAll defs started rest s).1.events.count (.clean n) = s.events.count (.clean n)) ∧
    ((startAll defs started rest s).2 = true →
      (∀ n, (startAll defs started rest s).1.events.count (.started n) = s.events.count (.started n) + rest.count n) ∧
      (∀ n, (startAll defs started rest s).1.events.count (.stop n) = s.events.count (.stop n))) ∧
    ((startAll defs started rest s).2 = false →
      ∃ done : List Nat, (∀ n, (startAll defs started rest s).1.events.count (.started n) = s.events.count (.started n) + done.count n) ∧
        (∀ n, (startAll defs started rest s).1.events.count (.stop n) =
          s.events.count (.stop n) + started.count n + done.count n))
  | [], started, s => by simp [startAll]
  | m :: rest, started, s => by
    unfold startAll
    split
    · obtain ⟨h1, h2, h3, h4⟩ := stopAll_spec started (dev s [.start m, .startFail m])
      refine ⟨h1, h2, fun n => ?_, fun n => ?_, fun hh => by simp at hh, fun _ => ⟨[], fun n => ?_, fun n => ?_⟩⟩
      · rw [h3 _ (by simp)]; simp [dev, List.count_append, List.count_cons]
      · rw [h3 _ (by simp)]; simp [dev, List.count_append, List.count_cons]
      · rw [h3 _ (by simp)]; simp [dev, List.count_append, List.count_cons]
      · rw [h4 n]; simp [dev, List.count_append, List.count_cons]
    · obtain ⟨h1, h2, h3, h4, h5, h6⟩ := startAll_spec defs rest (started ++ [m]) (dev s [.start m, .started m])
      have cst : ∀ n, (dev s [.start m, .started m]).events.count (.started n) =
          s.events.count (.started n) + [m].count n := by
        intro n
        simp only [dev, List.count_append, List.count_cons, List.count_nil]
        by_cases hn : m = n
        · subst hn; simp
        · have : ¬ n = m := fun e => hn e.symm
          simp [hn, this]
      refine ⟨h1, h2, fun n => ?_, fun n => ?_, fun hh => ⟨fun n => ?_, fun n => ?_⟩, fun hh => ?_⟩
      · rw [h3 n]; simp [dev, List.count_append, List.count_cons]
      · rw [h4 n]; simp [dev, List.count_append, List.count_cons]
      · rw [(h5 hh).1 n, cst n]; simp [List.count_cons]; omega
      · rw [(h5 hh).2 n]; simp [dev, List.count_append, List.count_cons]
      · obtain ⟨done, d1, d2⟩ := h6 hh
        refine ⟨m :: done, fun n => ?_, fun n => ?_⟩
        · rw [d1 n, cst n]; simp [List.count_cons]; omega
        · rw [d2 n]
          simp only [dev, List.count_append, List.count_cons, List.count_nil]
          by_cases hn : m = n
          · subst hn; simp; omega
          · have : ¬ n = m := fun e => hn e.symm
            simp [hn, this]

theorem orderNames_perm : ∀ (π rest : List Nat), (orderNames π rest).Perm rest
  | [], rest => List.Perm.refl _
  | n :: ns, rest => by
    unfold orderNames
    split
    · rename_i h
      have hn : n ∈ rest := by simpa using h
      exact ((orderNames_perm ns (rest.erase n)).cons n).trans (List.perm_cons_erase hn).symm
    · exact orderNames_perm ns rest

theorem count_of_nodup {l : List Nat} (h : l.Nodup) (n : Nat) : l.count n = if n ∈ l then 1 else 0 := by
  exact h.count

theorem count_start_zero {s : DSt} {stk : List Nat} (h : DInv s stk) (n : Nat) :
    s.events.count (.started n) = 0 ∧ s.events.count (.stop n) = 0 := by
  constructor <;>
  · apply List.count_eq_zero.mpr
    intro hm
    have := h.nostart _ hm
    simp [isStartEv] at this

/-! ### the theorems -/

/-- **provisioned at most once.** Whatever the dependency graph — cycles, self-dependencies, an app
    asked for by several others, apps nobody configured — no app is provisioned twice. -/
theorem provisioned_at_most_once (defs : List DApp) (pp ps : List Nat) (fuel n : Nat) :
    (load defs pp ps fuel).1.events.count (.prov n) ≤ 1 := by
  unfold load
  obtain ⟨h, _⟩ := provision_inv defs fuel (orderNames pp (defs.map (·.name)))
  generalize loadNeeds (appLoad defs fuel) (orderNames pp (defs.map (·.name))) ⟨[], [], []⟩ = r at h
  obtain ⟨s, o⟩ := r
  have hp : s.events.count (.prov n) ≤ 1 := by rw [h.provc n]; split <;> omega
  cases o with
  | some r =>
    show (cancelAll s.live s).events.count _ ≤ 1
    rw [(cancelAll_spec s.live s).2.2.1 _ (by simp)]; exact hp
  | none =>
    dsimp only
    obtain ⟨_, _, h3, _⟩ := startAll_spec defs (orderNames ps s.apps) [] s
    generalize startAll defs [] (orderNames ps s.apps) s = q at h3
    obtain ⟨s', b⟩ := q
    cases b with
    | false =>
      show (cancelAll s'.live s').events.count _ ≤ 1
      rw [(cancelAll_spec s'.live s').2.2.1 _ (by simp), h3 n]; exact hp
    | true => show s'.events.count _ ≤ 1; rw [h3 n]; exact hp

/-- **a rejected load is rolled back completely.** If the load is rejected — a dependency of a
    dependency fails to provision or validate, some app fails in Start — then every app that was
    provisioned (on demand or from the list) has been cleaned up exactly as often (once), and every
    app that finished Start has been stopped exactly once. -/
theorem rejected_rolled_back (defs : List DApp) (pp ps : List Nat) (fuel : Nat)
    (hr : (load defs pp ps fuel).2 ≠ .ok) (n : Nat) :
    (load defs pp ps fuel).1.events.count (.clean n) = (load defs pp ps fuel).1.events.count (.prov n) ∧
    (load defs pp ps fuel).1.events.count (.stop n) = (load defs pp ps fuel).1.events.count (.started n) := by
  unfold load at hr ⊢
  obtain ⟨h, hg⟩ := provision_inv defs fuel (orderNames pp (defs.map (·.name)))
  generalize loadNeeds (appLoad defs fuel) (orderNames pp (defs.map (·.name))) ⟨[], [], []⟩ = r at h hg hr
  obtain ⟨s, o⟩ := r
  have hz := count_start_zero h n
  have hbal : ∀ (t : DSt), t.live = s.live → t.apps = s.apps →
      t.events.count (.clean n) = s.events.count (.clean n) → t.events.count (.prov n) = s.events.count (.prov n) →
      (cancelAll t.live t).events.count (.clean n) = (cancelAll t.live t).events.count (.prov n) := by
    intro t hl ha hc hp
    rw [(cancelAll_spec t.live t).2.2.2 n, (cancelAll_spec t.live t).2.2.1 _ (by simp), hc, hp, hl,
      h.cleanc n, h.provc n, count_of_nodup h.lnodup n]
    by_cases hl' : n ∈ s.live
    · simp [hl', h.liveSub n hl']
    · by_cases ha' : n ∈ s.apps <;> simp [hl', ha']
  cases o with
  | some r =>
    refine ⟨hbal s rfl rfl rfl rfl, ?_⟩
    show (cancelAll s.live s).events.count _ = (cancelAll s.live s).events.count _
    rw [(cancelAll_spec s.live s).2.2.1 _ (by simp), (cancelAll_spec s.live s).2.2.1 _ (by simp), hz.1, hz.2]
  | none =>
    dsimp only at hr ⊢
    obtain ⟨a1, a2, a3, a4, _, a6⟩ := startAll_spec defs (orderNames ps s.apps) [] s
    generalize startAll defs [] (orderNames ps s.apps) s = q at a1 a2 a3 a4 a6 hr
    obtain ⟨s', b⟩ := q
    cases b with
    | true => exact absurd rfl hr
    | false =>
      refine ⟨hbal s' a2 a1 (a4 n) (a3 n), ?_⟩
      obtain ⟨done, d1, d2⟩ := a6 rfl
      show (cancelAll s'.live s').events.count _ = (cancelAll s'.live s').events.count _
      rw [(cancelAll_spec s'.live s').2.2.1 _ (by simp), (cancelAll_spec s'.live s').2.2.1 _ (by simp),
        d1 n, d2 n, hz.1, hz.2]
      simp

/-- **an accepted load runs everything it provisioned, once.** If the load is accepted, the apps
    in the map are exactly the loaded ones; each was provisioned once, finished Start once, and was
    neither cleaned up nor stopped; and unloading the configuration stops and cleans up each of them
    exactly once. -/
theorem accepted_runs_everything_once (defs : List DApp) (pp ps : List Nat) (fuel : Nat)
    (hr : (load defs pp ps fuel).2 = .ok) (n : Nat) :
    (n ∈ (load defs pp ps fuel).1.apps ↔ n ∈ (load defs pp ps fuel).1.live) ∧
    (load defs pp ps fuel).1.events.count (.prov n) = (load defs pp ps fuel).1.apps.count n ∧
    (load defs pp ps fuel).1.events.count (.started n) = (load defs pp ps fuel).1.events.count (.prov n) ∧
    (load defs pp ps fuel).1.events.count (.clean n) = 0 ∧
    (load defs pp ps fuel).1.events.count (.stop n) = 0 ∧
    (unload (load defs pp ps fuel).1).events.count (.clean n) = (load defs pp ps fuel).1.events.count (.prov n) ∧
    (unload (load defs pp ps fuel).1).events.count (.stop n) = (load defs pp ps fuel).1.events.count (.prov n) := by
  unfold load at hr ⊢
  obtain ⟨h, hg⟩ := provision_inv defs fuel (orderNames pp (defs.map (·.name)))
  have hne := loadNeeds_ne_ok (appLoad defs fuel) (appLoad_ne_ok defs fuel)
    (orderNames pp (defs.map (·.name))) ⟨[], [], []⟩
  generalize loadNeeds (appLoad defs fuel) (orderNames pp (defs.map (·.name))) ⟨[], [], []⟩ = r at h hg hr hne
  obtain ⟨s, o⟩ := r
  cases o with
  | some r =>
    exfalso
    simp at hr
    exact hne (by rw [hr])
  | none =>
    dsimp only at hr ⊢
    have hgood := hg rfl
    have hz := count_start_zero h n
    obtain ⟨a1, a2, a3, a4, a5, _⟩ := startAll_spec defs (orderNames ps s.apps) [] s
    generalize startAll defs [] (orderNames ps s.apps) s = q at a1 a2 a3 a4 a5 hr
    obtain ⟨s', b⟩ := q
    cases b with
    | false => simp at hr
    | true =>
      obtain ⟨b1, b2⟩ := a5 rfl
      have hiff : n ∈ s.apps ↔ n ∈ s.live := ⟨fun hm => by
        rcases hgood n hm with h' | h'
        · exact h'
        · simp at h', fun hm => h.liveSub n hm⟩
      have hcnt : (orderNames ps s.apps).count n = if n ∈ s.apps then 1 else 0 := by
        rw [(orderNames_perm ps s.apps).count_eq, count_of_nodup h.nodup]
      have hc0 : s.events.count (.clean n) = 0 := by
        rw [h.cleanc n]
        by_cases ha : n ∈ s.apps
        · simp [hiff.mp ha]
        · simp [ha]
      simp only at a1 a2
      refine ⟨by rw [a1, a2]; exact hiff, by rw [a3 n, a1, count_of_nodup h.nodup]; exact h.provc n, ?_, by rw [a4 n]; exact hc0,
        by rw [b2 n]; exact hz.2, ?_, ?_⟩
      · rw [b1 n, a3 n, hz.1, hcnt, h.provc n]; simp
      · show (cancelAll s'.live (stopAll s'.apps s')).events.count _ = _
        obtain ⟨c1, c2, c3, c4⟩ := cancelAll_spec s'.live (stopAll s'.apps s')
        obtain ⟨e1, e2, e3, e4⟩ := stopAll_spec s'.apps s'
        rw [c4 n, e3 _ (by simp), a4 n, hc0, a3 n, h.provc n, a2, count_of_nodup h.lnodup]
        by_cases ha : n ∈ s.apps
        · simp [ha, hiff.mp ha]
        · have : n ∉ s.live := fun hl => ha (hiff.mpr hl)
          simp [ha, this]
      · show (cancelAll s'.live (stopAll s'.apps s')).events.count _ = _
        obtain ⟨c1, c2, c3, c4⟩ := cancelAll_spec s'.live (stopAll s'.apps s')
        obtain ⟨e1, e2, e3, e4⟩ := stopAll_spec s'.apps s'
        rw [c3 _ (by simp), e4 n, b2 n, hz.2, a3 n, h.provc n, a1, count_of_nodup h.nodup]
        simp

/-! ### non-vacuity (kernel-evaluated) -/

-- 0 needs 1 and 2; 1 needs 0 (a cycle) and 3 (configured by nobody); 2 fails in Start
def exDefs : List DApp := [⟨0, [1, 2], 0⟩, ⟨1, [0, 3], 0⟩, ⟨2, [], 5⟩]
example : (load exDefs [0, 1, 2] [0, 1, 3, 2] (enough exDefs)).2 = .errStart ∧
    (load exDefs [0, 1, 2] [0, 1, 3, 2] (enough exDefs)).1.events.count (.prov 3) = 1 ∧
    (load exDefs [0, 1, 2] [0, 1, 3, 2] (enough exDefs)).1.events.count (.clean 3) = 1 ∧
    (load exDefs [0, 1, 2] [0, 1, 3, 2] (enough exDefs)).1.events.count (.stop 3) = 1 := by decide
-- the same graph without the fault is accepted, the unconfigured app 3 runs
example : (load [⟨0, [1, 2], 0⟩, ⟨1, [0, 3], 0⟩, ⟨2, [], 0⟩] [2, 0] [] 9).2 = .ok ∧
    (load [⟨0, [1, 2], 0⟩, ⟨1, [0, 3], 0⟩, ⟨2, [], 0⟩] [2, 0] [] 9).1.apps = [2, 0, 1, 3] := by decide
-- a dependency of a dependency fails to provision: rejected
example : (load [⟨0, [1], 0⟩, ⟨1, [2], 0⟩, ⟨2, [], 3⟩] [0] [] 9).2 = .errProvision := by decide

end CaddyModel.Deps
