/-
C03 — clauses of the property the unchanged tree violates, refuted with concrete witnesses
(kernel-evaluated). Protocol lines: Driver.witnessLines, replayed on the real code on every run.

F4  `Context.OnCancel` is a no-op: openLogs calls it on a by-value copy of the context, the
    cancel function ranges over the slice of the value NewContext was called with. closeLogs never
    runs; the writers pool gains one reference per context and never loses one.
F20 (FIXED by d6561d4) reverseproxy.Handler.Cleanup used to release a hosts-pool reference per
    configured upstream even if Provision had failed before it took them: a rejected load stole
    the running configuration's reference. The old Cleanup is kept below as a separate
    definition, with the theorem that it breaks the pool clause (non-vacuity of the fix).
-/
import CaddyModel.C03.LemmasP
import CaddyModel.C03.Spec

namespace CaddyModel.C03
open CaddyModel.Lifecycle

/-- probe app 0 with one custom log writing to probe writer 1 -/
def wLog : Cfg := ⟨0, [⟨0, 1⟩], [⟨0, 1, 0, [], []⟩], ⟨0, 0⟩⟩
def wEnv : Env := ⟨true, false, 0, [], [0], [0]⟩

/-- Full clause: "cleanup callbacks registered for the configuration's lifetime are invoked when
    it ends":  ∀ ops c, cbReg c ∈ events → (context c has ended) → cbRun c ∈ events.
    Refuted: load a config, stop — the callback was registered, the config is gone, it never ran;
    the probe writer was opened and never closed. -/
theorem oncancel_callbacks_run_full_fails :
    ∃ ops : List Op, ∃ c : Nat,
      Ev.cbReg c ∈ (runOps State.init ops).events ∧ (runOps State.init ops).cur = none ∧
      Ev.cbRun c ∉ (runOps State.init ops).events ∧
      Ev.wopen 1 ∈ (runOps State.init ops).events ∧ Ev.wclose 1 ∉ (runOps State.init ops).events :=
  ⟨[.load wLog wEnv, .stop], 0, by decide⟩

/-- Full clause: "shared resources are a function of the currently running configuration only":
    ∀ ops k, writers k = Spec.wantWriters running k.
    Refuted: the same configuration loaded twice — one configuration runs, the writers pool holds
    two references to the stderr writer and two to probe writer 1; after Stop, still two. -/
theorem writers_function_of_current_full_fails :
    ∃ ops : List Op,
      (runOps State.init ops).rawJSON = some wLog ∧
      (runOps State.init ops).writers 1 = 2 ∧ Spec.wantWriters (some wLog) 1 = 1 ∧
      (runOps State.init ops).writers 0 = 2 ∧ Spec.wantWriters (some wLog) 0 = 1 ∧
      (runOps State.init (ops ++ [.stop])).writers 1 = 2 ∧ Spec.wantWriters none 1 = 0 :=
  ⟨[.load wLog wEnv, .load wLog wEnv], by decide⟩

/-- HTTP app with a reverse proxy to upstream 4 -/
def wRpA : Cfg := ⟨0, [], [⟨3, 1, 0, [], [⟨0, 4⟩]⟩], ⟨0, 0⟩⟩
/-- the same with a reverse proxy whose Provision fails early -/
def wRpB : Cfg := ⟨0, [], [⟨3, 2, 0, [], [⟨3, 4⟩]⟩], ⟨0, 0⟩⟩
def wEnvH : Env := ⟨true, false, 0, [], [3], []⟩

/-- what LoadModuleByID's immediate Cleanup did to the hosts pool BEFORE fix d6561d4 when a reverse
    proxy with upstream `key` failed early: hosts.Delete for an upstream it never acquired -/
def oldEarlyRpCleanup (key : Nat) (s : State) : State := { s with mpool := decr s.mpool key }

/-- with the old Cleanup the pool clause fails: config A (reverse proxy to upstream 4) runs; the
    rejected config B's early-failing reverse proxy to the same upstream would leave the entry
    with 0 references although A still holds it. With the code as it is now the same history
    keeps the reference (regression case in corpus/C03). -/
theorem hosts_function_of_current_old_code_fails :
    curKeys (runOps State.init [.load wRpA wEnvH]) = [4] ∧
    (runOps State.init [.load wRpA wEnvH]).mpool 4 = 1 ∧
    (oldEarlyRpCleanup 4 (runOps State.init [.load wRpA wEnvH])).mpool 4 = 0 ∧
    (trace State.init [.load wRpA wEnvH, .load wRpB wEnvH]).map (·.1) = [.ok, .errProvision] ∧
    (runOps State.init [.load wRpA wEnvH, .load wRpB wEnvH]).mpool 4 = 1 := by decide

end CaddyModel.C03
