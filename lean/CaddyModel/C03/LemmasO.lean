/-
C03 — helper lemmas, part 4: the ORDER in which one cancel calls the Cleanups (Go ranges a map) does
not matter: any two orders end in the same state up to the order of the events they append.
-/
import CaddyModel.C03.LemmasP

set_option linter.unusedSimpArgs false
set_option linter.unusedVariables false

namespace CaddyModel.C03
open CaddyModel.Lifecycle

/-- equal in every field, the module events up to order -/
structure Sim (s s' : State) : Prop where
  raw : s.raw = s'.raw
  rawJSON : s.rawJSON = s'.rawJSON
  cur : s.cur = s'.cur
  socks : s.socks = s'.socks
  mpool : s.mpool = s'.mpool
  writers : s.writers = s'.writers
  events : s.events.Perm s'.events
  aevents : s.aevents = s'.aevents
  next : s.next = s'.next
  nseq : s.nseq = s'.nseq
  dstor : s.dstor = s'.dstor
  dlogger : s.dlogger = s'.dlogger

theorem Sim.rfl' (s : State) : Sim s s := ⟨rfl, rfl, rfl, rfl, rfl, rfl, List.Perm.refl _, rfl, rfl, rfl, rfl, rfl⟩

theorem Sim.trans {a b c : State} (h1 : Sim a b) (h2 : Sim b c) : Sim a c :=
  ⟨h1.raw.trans h2.raw, h1.rawJSON.trans h2.rawJSON, h1.cur.trans h2.cur, h1.socks.trans h2.socks,
   h1.mpool.trans h2.mpool, h1.writers.trans h2.writers, h1.events.trans h2.events,
   h1.aevents.trans h2.aevents, h1.next.trans h2.next, h1.nseq.trans h2.nseq, h1.dstor.trans h2.dstor,
   h1.dlogger.trans h2.dlogger⟩

theorem cleanupOne_sim (l : Live) {s s' : State} (h : Sim s s') : Sim (cleanupOne l s) (cleanupOne l s') := by
  unfold cleanupOne
  cases l.key with
  | none => exact ⟨h.raw, h.rawJSON, h.cur, h.socks, h.mpool, h.writers, h.events.append_right _,
      h.aevents, h.next, h.nseq, h.dstor, h.dlogger⟩
  | some k => exact ⟨h.raw, h.rawJSON, h.cur, h.socks, by show decr s.mpool k = decr s'.mpool k; rw [h.mpool],
      h.writers, h.events.append_right _, h.aevents, h.next, h.nseq, h.dstor, h.dlogger⟩

theorem cleanupAll_sim : ∀ (ls : List Live) {s s' : State}, Sim s s' → Sim (cleanupAll ls s) (cleanupAll ls s')
  | [], _, _, h => h
  | l :: ls, _, _, h => by unfold cleanupAll; exact cleanupAll_sim ls (cleanupOne_sim l h)

theorem decr_comm (f : Nat → Nat) (a b : Nat) : decr (decr f a) b = decr (decr f b) a := by
  funext x
  unfold decr
  by_cases h1 : x = a <;> by_cases h2 : x = b
  · subst h1; subst h2; simp
  · subst h1; have : ¬ x = b := h2; simp [this]
  · subst h2; have : ¬ x = a := h1; simp [this]
  · simp [h1, h2]

theorem cleanupOne_comm (a b : Live) (s : State) :
    Sim (cleanupOne a (cleanupOne b s)) (cleanupOne b (cleanupOne a s)) := by
  have hp : ∀ (x y : List Ev), (s.events ++ x ++ y).Perm (s.events ++ y ++ x) := by
    intro x y
    rw [List.append_assoc, List.append_assoc]
    exact List.Perm.append_left _ List.perm_append_comm
  unfold cleanupOne
  cases a.key <;> cases b.key <;>
    first
    | exact ⟨rfl, rfl, rfl, rfl, rfl, rfl, hp _ _, rfl, rfl, rfl, rfl, rfl⟩
    | exact ⟨rfl, rfl, rfl, rfl, decr_comm _ _ _, rfl, hp _ _, rfl, rfl, rfl, rfl, rfl⟩

theorem cleanupAll_perm {l1 l2 : List Live} (p : l1.Perm l2) :
    ∀ {s s' : State}, Sim s s' → Sim (cleanupAll l1 s) (cleanupAll l2 s') := by
  induction p with
  | nil => intro s s' h; exact h
  | cons x _ ih => intro s s' h; unfold cleanupAll; exact ih (cleanupOne_sim x h)
  | swap x y l =>
    intro s s' h
    show Sim (cleanupAll l (cleanupOne x (cleanupOne y s))) (cleanupAll l (cleanupOne y (cleanupOne x s')))
    exact cleanupAll_sim l ((cleanupOne_comm x y s).trans (cleanupOne_sim y (cleanupOne_sim x h)))
  | trans _ _ ih1 ih2 => intro s s' h; exact (ih1 (Sim.rfl' _)).trans (ih2 h)

end CaddyModel.C03
