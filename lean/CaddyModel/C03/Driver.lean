/-
C03 line-protocol driver (grammar: C01/Proto.lean). Answer: for every operation of the history
  <result>|<probe events of this operation, sorted>|<guest/hosts pool refs>|<writers pool refs>|<sockets>
joined by spaces; `bad-op` for anything malformed.
-/
import CaddyModel.C01.Proto
import CaddyModel.C03.Deps
import CaddyModel.C01.StdApps

namespace CaddyModel.C03
open CaddyModel.Lifecycle CaddyModel.Lifecycle.Proto

/-- the states before and after every operation, with the result -/
def trace3 : State → List Op → List (State × Res × State)
  | _, [] => []
  | s, o :: os => (s, (step s o).2, (step s o).1) :: trace3 (step s o).1 os

def showStep (p : State × Res × State) : String :=
  showRes p.2.1 ++ "|" ++ showEvents (p.2.2.events.drop p.1.events.length ++ p.2.2.aevents.drop p.1.aevents.length) ++ "|" ++
    showPool p.2.2.mpool ++ "|" ++ showPool p.2.2.writers ++ "|" ++ showSocks p.2.2.socks

/-! lazy app loading: one field `G=<app>;<app>…=<pp>=<ps>`, app = `<name>,<needs>,<fault>` -/

def parseDApp (s : String) : Option Deps.DApp :=
  match s.splitOn "," with
  | [n, d, f] => do
    let n ← n.toNat?
    let d ← natList d
    let f ← f.toNat?
    if n < 4 ∧ d.length ≤ 4 ∧ d.all (· < 4) ∧ (f = 0 ∨ f = 3 ∨ f = 4 ∨ f = 5) then some ⟨n, d, f⟩ else none
  | _ => none

def showDEv : Deps.DEv → String
  | .prov n => s!"p{n}" | .valid n => s!"v{n}" | .clean n => s!"c{n}"
  | .start n => s!"s{n}" | .started n => s!"o{n}" | .startFail n => s!"f{n}" | .stop n => s!"x{n}"

def showDEvs (l : List Deps.DEv) : String :=
  if l.isEmpty then "-" else ",".intercalate (sortStrs (l.map showDEv))

def showDRes : Deps.DRes → String
  | .ok => "ok" | .errProvision => "err:provision" | .errValidate => "err:validate"
  | .errStart => "err:start" | .fuel => "model-out-of-fuel"

def handleDeps (s : String) : String :=
  match s.splitOn "=" with
  | ["G", d, pp, ps] =>
    match (if d == "-" then some [] else (d.splitOn ";").mapM parseDApp), natList pp, natList ps with
    | some defs, some pp, some ps =>
      if strictlySorted (defs.map (·.name)) ∧ namesOk pp ∧ namesOk ps then
        let r := Deps.load defs pp ps (Deps.enough defs)
        let u := Deps.unload r.1
        showDRes r.2 ++ "|" ++ showDEvs r.1.events ++ "|" ++
          (if r.2 = .ok then showDEvs (u.events.drop r.1.events.length) else "-")
      else "bad-op"
    | _, _, _ => "bad-op"
  | _ => "bad-op"

def handle (fs : List String) : String :=
  match fs with
  | "E" :: _ => CaddyModel.C01.Std.handle fs   -- the standard apps on the load path (C01/StdApps.lean)
  | [g] => if g.startsWith "G=" then handleDeps g else
    match parseCase fs with
    | none => "bad-op"
    | some ops => " ".intercalate ((trace3 State.init ops).map showStep)
  | _ =>
  match parseCase fs with
  | none => "bad-op"
  | some ops => " ".intercalate ((trace3 State.init ops).map showStep)

/-- counter-example lines replayed on the implementation on every run (proved in Witness.lean):
    F4 — the same config with a probe log writer loaded twice, then Stop: the writer is never
    closed, its pool count is 2 after the second load and stays 2 after Stop. -/
def witnessLines : List String :=
  ["L=0~0:1~0,1,0,-,-=1,0,0,-,0,0 L=0~0:1~0,1,0,-,-=1,0,0,-,0,0 S"]

end CaddyModel.C03
