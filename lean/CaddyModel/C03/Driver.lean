/-
C03 line-protocol driver (grammar: C01/Proto.lean). Answer: for every operation of the history
  <result>|<probe events of this operation, sorted>|<guest/hosts pool refs>|<writers pool refs>|<sockets>
joined by spaces; `bad-op` for anything malformed.
-/
import CaddyModel.C01.Proto

namespace CaddyModel.C03
open CaddyModel.Lifecycle CaddyModel.Lifecycle.Proto

/-- the states before and after every operation, with the result -/
def trace3 : State → List Op → List (State × Res × State)
  | _, [] => []
  | s, o :: os => (s, (step s o).2, (step s o).1) :: trace3 (step s o).1 os

def showStep (p : State × Res × State) : String :=
  showRes p.2.1 ++ "|" ++ showEvents (p.2.2.events.drop p.1.events.length ++ p.2.2.aevents.drop p.1.aevents.length) ++ "|" ++
    showPool p.2.2.mpool ++ "|" ++ showPool p.2.2.writers ++ "|" ++ showSocks p.2.2.socks

def handle (fs : List String) : String :=
  match parseCase fs with
  | none => "bad-op"
  | some ops => " ".intercalate ((trace3 State.init ops).map showStep)

/-- counter-example lines replayed on the implementation on every run (proved in Witness.lean):
    F4 — the same config with a probe log writer loaded twice, then Stop: the writer is never
    closed, its pool count is 2 after the second load and stays 2 after Stop. -/
def witnessLines : List String :=
  ["L=0~0:1~0,1,0,-,-=1,0,0,-,0,0 L=0~0:1~0,1,0,-,-=1,0,0,-,0,0 S"]

end CaddyModel.C03
