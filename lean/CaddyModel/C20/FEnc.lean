/-
C20 — model of the filter encoder's dispatch (modules/logging/filterencoder.go).

A log entry is a tree of fields: scalars / arrays (`leaf`) and objects (`obj`, a zap
ObjectMarshaler such as LoggableHTTPRequest or LoggableHTTPHeader).  `FilterEncoder` receives every
field through its `Add*` methods with the path walked so far in `keyPrefix`:

* `AddString/AddInt/…/AddArray(key, v)`: `if filter, ok := fe.Fields[fe.keyPrefix+key]` → the filter's
  result is added to the wrapped encoder, otherwise the field itself;
* `AddObject(key, m)`: a filter configured on the object's own path receives the whole object; if its
  result is not an object (deleted, replaced) it goes to the wrapped encoder; in every other case
  `fe.keyPrefix += key + ">"` and the object (under the key the filter gave it) is marshalled through the
  filter encoder again (`logObjectMarshalerWrapper`), so the fields inside meet their own filters.
  (Before fix 5e69734 a kept object went to the wrapped encoder directly: `encNodeOld`.)

* `OpenNamespace(key)` (a `zap.Namespace` field): forwarded to the wrapped encoder, which nests every later
  field of that level under `key`; `keyPrefix` is not extended, so those fields are still looked up under
  the path WITHOUT the namespace.

`Fields` is a Go map from path to filter: an association list with distinct paths here.
-/
import CaddyModel.C20.Model

namespace CaddyModel.C20

inductive Node where
  | leaf (key : Bytes) (v : FVal)          -- string, LoggableStringArray or any other scalar field
  | obj (key : Bytes) (kids : List Node)   -- an ObjectMarshaler field
  | ns (key : Bytes)                       -- zap.Namespace: every LATER field of the same level is nested under `key`
deriving Repr

abbrev FCfg := List (Bytes × Filter)

/-- `fe.Fields[path]` -/
def lookupF (cfg : FCfg) (p : Bytes) : Option Filter := (cfg.find? (·.1 == p)).map (·.2)

def pathSep : Bytes := [62]   -- ">"

/-- the field type tag under which a filter sees an object (it is none of string / string array) -/
def objTag : Nat := 2

/-- what reaches the wrapped encoder for a filtered scalar / array field -/
def emitLeaf (f : Field) : List Node :=
  match f.val with
  | .skip => []
  | v => [.leaf f.key v]

/-- …and for a filtered object BEFORE fix 5e69734: deleted, replaced by a string, or handed on as it is
    (possibly renamed) with everything inside UNFILTERED -/
def emitObjOld (f : Field) (kids : List Node) : List Node :=
  match f.val with
  | .skip => []
  | .other _ => [.obj f.key kids]
  | v => [.leaf f.key v]

/-- …and as it is now: `kids` are the fields inside, already encoded through the filter encoder under the
    ORIGINAL key path (`fe.keyPrefix += key + ">"`, whatever the filter renamed the object to) -/
def emitObj (f : Field) (encodedKids : List Node) : List Node :=
  match f.val with
  | .skip => []
  | .other _ => [.obj f.key encodedKids]
  | v => [.leaf f.key v]

mutual
/-- one field arriving at `FilterEncoder.Add*` with `keyPrefix = pre` -/
def encNode (o : Oracles) (cfg : FCfg) (pre : Bytes) : Node → List Node
  | .leaf k v =>
    match lookupF cfg (pre ++ k) with
    | none => [.leaf k v]
    | some f => emitLeaf (applyFilter o f ⟨k, v⟩)
  | .obj k kids =>
    match lookupF cfg (pre ++ k) with
    | none => [.obj k (encList o cfg (pre ++ k ++ pathSep) kids)]
    | some f => emitObj (applyFilter o f ⟨k, .other objTag⟩) (encList o cfg (pre ++ k ++ pathSep) kids)
  -- `OpenNamespace(key)`: `fe.wrapped.OpenNamespace(key)` — the key path of the following fields is NOT extended
  | .ns k => [.ns k]
/-- the fields of an entry (or of an object), in order -/
def encList (o : Oracles) (cfg : FCfg) (pre : Bytes) : List Node → List Node
  | [] => []
  | n :: r => encNode o cfg pre n ++ encList o cfg pre r
end

mutual
/-- the dispatch BEFORE fix 5e69734 (`if fe.filtered(key, marshaler) { return nil }`) -/
def encNodeOld (o : Oracles) (cfg : FCfg) (pre : Bytes) : Node → List Node
  | .leaf k v =>
    match lookupF cfg (pre ++ k) with
    | none => [.leaf k v]
    | some f => emitLeaf (applyFilter o f ⟨k, v⟩)
  | .obj k kids =>
    match lookupF cfg (pre ++ k) with
    | none => [.obj k (encListOld o cfg (pre ++ k ++ pathSep) kids)]
    | some f => emitObjOld (applyFilter o f ⟨k, .other objTag⟩) kids
  | .ns k => [.ns k]
def encListOld (o : Oracles) (cfg : FCfg) (pre : Bytes) : List Node → List Node
  | [] => []
  | n :: r => encNodeOld o cfg pre n ++ encListOld o cfg pre r
end

/-- `FilterEncoder.EncodeEntry` / `Clone` + `With`: all fields of the entry, top-level prefix empty -/
def filterEncode (o : Oracles) (cfg : FCfg) (fields : List Node) : List Node := encList o cfg [] fields

mutual
/-- every byte string of an emitted tree -/
def nodeStrings : Node → List Bytes
  | .leaf k v =>
    match v with
    | .str s => [k, s]
    | .arr l => k :: l
    | _ => [k]
  | .obj k kids => k :: listStrings kids
  | .ns k => [k]
def listStrings : List Node → List Bytes
  | [] => []
  | n :: r => nodeStrings n ++ listStrings r
end

mutual
/-- a filter encoder that is the WRAPPED encoder of another filter encoder, as it behaved BEFORE fix 6641767:
    the outer encoder's `logObjectMarshalerWrapper.MarshalLogObject(_)` ignored the encoder it was handed and
    marshalled the fields of an object into the outer encoder's own `wrapped` — the inner encoder's top-level
    copy — so the inner encoder saw the fields of EVERY level with an empty key prefix -/
def encNode0 (o : Oracles) (cfg : FCfg) : Node → List Node
  | .leaf k v =>
    match lookupF cfg k with
    | none => [.leaf k v]
    | some f => emitLeaf (applyFilter o f ⟨k, v⟩)
  | .obj k kids =>
    match lookupF cfg k with
    | none => [.obj k (encList0 o cfg kids)]
    | some f => emitObj (applyFilter o f ⟨k, .other objTag⟩) (encList0 o cfg kids)
  | .ns k => [.ns k]
def encList0 (o : Oracles) (cfg : FCfg) : List Node → List Node
  | [] => []
  | n :: r => encNode0 o cfg n ++ encList0 o cfg r
end

/-- `format filter { fields outer; wrap filter { fields inner; wrap json } }`: the outer encoder's results are
    added to the inner encoder, which — the outer wrapper now marshals into the encoder it is handed, i.e. the
    inner encoder's copy that carries the key path of the object — treats them like any entry -/
def filterEncode2 (o : Oracles) (outer inner : FCfg) (fields : List Node) : List Node :=
  encList o inner [] (encList o outer [] fields)

/-- the same BEFORE fix 6641767 -/
def filterEncode2Old (o : Oracles) (outer inner : FCfg) (fields : List Node) : List Node :=
  encList0 o inner (encList o outer [] fields)

mutual
/-- the entry as the wrapped encoder renders it: the fields after a namespace become an object -/
def nestNode : Node → Node
  | .leaf k v => .leaf k v
  | .obj k kids => .obj k (nestList kids)
  | .ns k => .ns k
def nestList : List Node → List Node
  | [] => []
  | .ns k :: r => [.obj k (nestList r)]
  | .leaf k v :: r => .leaf k v :: nestList r
  | .obj k kids :: r => .obj k (nestList kids) :: nestList r
end

end CaddyModel.C20
