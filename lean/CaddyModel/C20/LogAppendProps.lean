/-
C20 — theorems about operator-defined extra log fields (`log_append`), see LogAppend.lean.
-/
import CaddyModel.C20.LogAppend

namespace CaddyModel.C20

theorem hdrLookup_nonCreds (h : Hdr) (k : Bytes) (hk : isCred k = false) :
    hdrLookup (nonCreds h) k = hdrLookup h k := by
  induction h with
  | nil => rfl
  | cons kv t ih =>
    unfold hdrLookup nonCreds at ih ⊢
    by_cases hc : isCred kv.1 = true
    · have hne : (kv.1 == k) = false := by
        cases hb : (kv.1 == k) with
        | false => rfl
        | true =>
          have := eq_of_beq hb
          rw [this, hk] at hc
          exact absurd hc (by decide)
      simp only [List.filter_cons, hc, Bool.not_true, Bool.false_eq_true, if_false, List.find?_cons, hne]
      exact ih
    · have hc' : isCred kv.1 = false := by simpa using hc
      simp only [List.filter_cons, hc', Bool.not_false, if_true, List.find?_cons]
      cases hb : (kv.1 == k) with
      | true => rfl
      | false => exact ih

theorem hdrLookup_congr (h h' : Hdr) (k : Bytes) (hk : isCred k = false) (hh : nonCreds h = nonCreds h') :
    hdrLookup h k = hdrLookup h' k := by
  rw [← hdrLookup_nonCreds h k hk, ← hdrLookup_nonCreds h' k hk, hh]

/-- **log_append never leaks a credential header it was not asked for (non-interference).**  Two requests /
    responses that differ ONLY in their credential headers (Cookie, Set-Cookie, Authorization,
    Proxy-Authorization in any spelling, `Trailer:` forms) give the same extra log field — for every configured
    value (constant, variable name, placeholder of any modelled key, malformed brace strings), every `vars`
    map — unless the configured value is a placeholder that names a credential header itself. -/
theorem log_append_ignores_unnamed_credentials (method host : Bytes) (vars : Vars) (h h' rh rh' : Hdr) (v : Bytes)
    (hreq : nonCreds h = nonCreds h') (hresp : nonCreds rh = nonCreds rh') (hn : namesCredential v = false) :
    logAppendValue method host vars h rh v = logAppendValue method host vars h' rh' v := by
  unfold logAppendValue
  by_cases hp : looksPlaceholder v = true
  · simp only [hp, if_true]
    unfold namesCredential at hn
    simp only [hp, Bool.true_and] at hn
    unfold namesCredentialKey at hn
    have h1 := (Bool.or_eq_false_iff.mp hn).1
    have h2 := (Bool.or_eq_false_iff.mp hn).2
    unfold replGet
    by_cases ha : reqHeaderPrefix.isPrefixOf (trimBraces v) = true
    · simp only [ha, Bool.true_and] at h1
      simp only [ha, if_true]
      rw [hdrLookup_congr h h' _ h1 hreq]
    · simp only [ha, Bool.false_eq_true, if_false]
      by_cases hb : respHeaderPrefix.isPrefixOf (trimBraces v) = true
      · simp only [hb, Bool.true_and] at h2
        simp only [hb, if_true]
        rw [hdrLookup_congr rh rh' _ h2 hresp]
      · simp only [hb, Bool.false_eq_true, if_false]
  · simp only [hp, Bool.false_eq_true, if_false]

def laHdrA : Hdr := [(str "Authorization", [str "Bearer SECRET1"]), (str "Cookie", [str "sid=SECRET2", str "b=1"]), (str "X-Id", [str "7"])]
def laHdrB : Hdr := [(str "Authorization", [str "Bearer other"]), (str "X-Id", [str "7"])]
def laResp : Hdr := [(str "Set-Cookie", [str "sid=SECRET3"]), (str "Etag", [str "e"])]

example : nonCreds laHdrA = nonCreds laHdrB ∧ namesCredential (str "{http.request.header.x-id}") = false ∧
    logAppendValue (str "GET") (str "h") [] laHdrA laResp (str "{http.request.header.x-id}") = .s (str "7") := by decide

/-- **what "explicitly enabled" means for an extra field.**  A placeholder that names a credential header — in
    any casing `textproto.CanonicalMIMEHeaderKey` folds, with extra braces `strings.Trim` removes, request or
    response side — is evaluated verbatim: all values joined by commas, not redacted, whatever the server's
    log_credentials flag (the flag is not an input of the extra field at all). -/
theorem log_append_named_credential_is_logged_verbatim :
    logAppendValue (str "GET") (str "h") [] laHdrA laResp (str "{http.request.header.cOOKIE}}") = .s (str "sid=SECRET2,b=1") ∧
    namesCredential (str "{http.request.header.cOOKIE}}") = true ∧
    logAppendValue (str "GET") (str "h") [] laHdrA laResp (str "{http.response.header.set-cookie}") = .s (str "sid=SECRET3") ∧
    namesCredential (str "{http.response.header.set-cookie}") = true := by decide

/-- **the value's three readings.**  One opening brace at the start and a closing brace at the end make a
    placeholder; otherwise a name found in `vars` is that variable; otherwise the text is a constant — a brace
    string that is no placeholder (two opening braces, text after the brace) is never expanded. -/
theorem log_append_reads_value_three_ways (method host : Bytes) (vars : Vars) (h rh : Hdr) (v : Bytes) :
    logAppendValue method host vars h rh v =
      (if looksPlaceholder v then replGet method host vars h rh (trimBraces v)
       else match varLookup vars v with
         | some x => varVal (some x)
         | none => .s v) := rfl

example : logAppendValue (str "GET") (str "h") [(str "u", some (str "bob")), (str "t", none)] laHdrA laResp (str "u") = .s (str "bob") ∧
    logAppendValue (str "GET") (str "h") [(str "u", some (str "bob")), (str "t", none)] laHdrA laResp (str "t") = .other ∧
    logAppendValue (str "GET") (str "h") [] laHdrA laResp (str "{{http.request.header.Cookie}}") = .s (str "{{http.request.header.Cookie}}") ∧
    logAppendValue (str "GET") (str "h") [] laHdrA laResp (str "{nope}") = .nil ∧
    logAppendValue (str "GET") (str "h") [] laHdrA laResp (str "{http.request.header.Coo kie}") = .s [] := by decide

/-- a header name with a non-token byte is looked up as written: it never canonicalises INTO a credential name -/
theorem canonicalKey_keeps_non_token_keys (k : Bytes) (hk : k.all tokenByte = false) : canonicalKey k = k := by
  unfold canonicalKey; simp [hk]

example : (str "Coo kie").all tokenByte = false ∧ canonicalKey (str "pROXY-authorization") = str "Proxy-Authorization" := by decide

end CaddyModel.C20
