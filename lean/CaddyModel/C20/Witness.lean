/-
C20 — clauses of the property the unchanged tree does NOT satisfy, stated at full strength and
refuted by a concrete witness.  Each witness is exported as a protocol line (`Driver.witnessLines`)
and replayed on the real code on every run; the provable parts are the `…_partial` theorems of
`Props.lean`.

The oracle `wO` answers what the Go standard library answers on the witness inputs
(`url.Parse("/a?token=…#%zz")` fails with `invalid URL escape "%zz"`; `url.ParseQuery("token=…")` is
`token ↦ […]`; `net.ParseIP("fe80::1%eth0")` is nil) — the harness recomputes those answers when the line is replayed and reports
`table-mismatch` if they ever differ.
-/
import CaddyModel.C20.Spec

namespace CaddyModel.C20

def wO : Oracles where
  H := fun _ => str "e3b0c442"
  trim := id
  shp := fun _ => none
  parseIP := fun _ => none
  ipStr := fun _ => str "<nil>"
  parseURL := fun _ => none
  parseQuery := fun s => if s = str "token=0123456789abcdef0123456789abcdef" then
    [(str "token", [str "0123456789abcdef0123456789abcdef"])] else []
  cookies := fun _ => []
  reSpans := fun _ => []

def wTok : Bytes := str "0123456789abcdef0123456789abcdef"

/-- Why the fallback was needed (non-vacuity of the `url.Parse`-fails branch of `Props.query_filter_hides_param`):
    `url.Parse` rejects `/a?token=T#%zz` (the HTTP server accepts it as a request target); the OLD
    `processQueryString` then returned its input unchanged, token included; the function as it is now cuts
    the value at its first `?` and filters that query. -/
theorem query_filter_old_code_fails :
    ∃ (o : Oracles) (acts : List Act) (s tok : Bytes),
      hiddenBy acts (str "token") = true ∧ s = str "/a?token=" ++ tok ++ str "#%zz" ∧
      o.parseURL s = none ∧ queryStrOld o acts s = s ∧ occurs tok (queryStrOld o acts s) = true ∧
      queryStr o acts s = str "/a#%zz" ∧ occurs tok (queryStr o acts s) = false :=
  ⟨wO, [⟨.delete, str "token", []⟩], str "/a?token=" ++ wTok ++ str "#%zz", wTok, by decide⟩

/-- what the standard library answers around `fe80::1%eth0`: `net.ParseIP` accepts `fe80::1` and rejects the
    zoned spelling; `IP.String()` of the /32-masked address is `fe80::` -/
def wZ : Oracles where
  H := fun _ => str "e3b0c442"
  trim := id
  shp := fun _ => none
  parseIP := fun s => if s = str "fe80::1" then some (.v6 [0xfe, 0x80, 0, 0, 0, 0, 0, 0, 0, 0, 0, 0, 0, 0, 0, 1]) else none
  ipStr := fun m => if m = some [0xfe, 0x80, 0, 0, 0, 0, 0, 0, 0, 0, 0, 0, 0, 0, 0, 0] then str "fe80::" else str "?"
  parseURL := fun _ => none
  parseQuery := fun _ => []
  cookies := fun _ => []
  reSpans := fun _ => []

/-- Why the zone fix was needed (non-vacuity of `Props.ipmask_hides_host_bits` / `ipmask_zone_independent`):
    the OLD element function handed the host to `net.ParseIP` with its zone; `net.ParseIP` rejects a zoned
    IPv6 address (`fe80::1%eth0`, what `RemoteAddr` holds for a link-local client) and the element was copied
    unchanged; the function as it is now cuts the zone off first and emits the masked address. -/
theorem ipmask_old_code_fails :
    ∃ (o : Oracles) (v : Bytes), v = str "fe80::1%eth0" ∧ o.parseIP (hostOf o v) = none ∧
      maskValueOld o (cidr4 16) (cidr6 32) v = v ∧
      (o.parseIP (cutZone (hostOf o v))).isSome = true ∧ maskValue o (cidr4 16) (cidr6 32) v = str "fe80::" :=
  ⟨wZ, str "fe80::1%eth0", by decide⟩

/-- FULL STATEMENT (false): hash / ip_mask / query / regexp never emit the field they are configured on
    unchanged, for every field type.  Refuted: on a field that is neither a string nor a
    `LoggableStringArray` (an integer such as `status`, an object such as `request>headers`) these
    filters assign to `in.String`, which such a field does not use — it is emitted unchanged; the cookie
    filter returns a non-array field unchanged. (Documented: "operates on string fields, or on arrays of strings".) -/
theorem hash_full_fails :
    ∃ (o : Oracles) (f : Field), f.val = .other 0 ∧ stringy f.val = false ∧
      (applyFilter o .hash f).val = f.val ∧ (applyFilter o (.ipMask 16 32) f).val = f.val ∧
      (applyFilter o (.query [⟨.delete, str "token", []⟩]) f).val = f.val ∧ (applyFilter o .regexp f).val = f.val ∧
      (applyFilter o (.cookie [⟨.delete, str "sid", []⟩]) ⟨f.key, .str (str "sid=S")⟩).val = .str (str "sid=S") :=
  ⟨wO, ⟨str "status", .other 0⟩, by decide⟩

/-- the header object as the code built it BEFORE fix 48df0ef (key test `strings.ToLower(key)`) -/
def loggableHeaderOld (h : Hdr) : Hdr :=
  h.map fun kv => (kv.1, if isCredOld kv.1 then redactedVal else kv.2)

/-- Why the fix was needed (non-vacuity of the trailer clause of `Props.redacted_trailer_any_casing_any_count`):
    a trailer field the upstream did not announce is copied by reverse_proxy into the response header map
    under `http.TrailerPrefix + name` = `Trailer:Set-Cookie`; the OLD key test does not recognise it and the
    old code logged the secret, the key test as it is now redacts it. -/
theorem trailer_key_old_code_fails :
    ∃ (h : Hdr) (secret : Bytes), h = [(str "Trailer:Set-Cookie", [str "sid=" ++ secret])] ∧
      isCredOld (str "Trailer:Set-Cookie") = false ∧ loggableHeaderOld h = h ∧
      occurs secret ((loggableHeaderOld h).flatMap fun kv => kv.2).flatten = true ∧
      isCred (str "Trailer:Set-Cookie") = true ∧
      loggableHeader h false = [(str "Trailer:Set-Cookie", [str "REDACTED"])] :=
  ⟨[(str "Trailer:Set-Cookie", [str "sid=" ++ wTok])], wTok, by decide⟩

end CaddyModel.C20
