/-
C20 — how `log_credentials` gets from the configuration to the flag the log sites read.

* Caddyfile: every `servers [listener] { … log_credentials … }` global option is a `serverOptions` value;
  `applyServerOptions` (caddyconfig/httpcaddyfile/serveroptions.go) gives each server the FIRST option
  block whose listener address is empty or among the server's listen addresses, and
  `if opts.ShouldLogCredentials { if server.Logs == nil { server.Logs = new(…) }; server.Logs.ShouldLogCredentials = true }`.
* JSON: `logs.should_log_credentials`, absent = false.
* at run time every log site evaluates `s.Logs != nil && s.Logs.ShouldLogCredentials`.
-/
import CaddyModel.Util.Hex

namespace CaddyModel.C20

/-- one `servers` global option block -/
structure OptBlock where
  listener : Bytes      -- "" = applies to every server
  logCreds : Bool       -- the block contains `log_credentials`
deriving DecidableEq, Repr

/-- one server before the options are applied -/
structure Srv where
  listen : List Bytes
  hasLogs : Bool        -- a `log` directive gave it a `logs` object already
deriving DecidableEq, Repr

def blockApplies (s : Srv) (b : OptBlock) : Bool := b.listener.isEmpty || s.listen.contains b.listener

/-- `slices.IndexFunc(serverOpts, …)`: the first block that applies -/
def firstBlock (blocks : List OptBlock) (s : Srv) : Option OptBlock := blocks.find? (blockApplies s)

/-- insertion into a list ordered by listener-address length, longest first; equal lengths keep their order -/
def insertBlock (b : OptBlock) : List OptBlock → List OptBlock
  | [] => [b]
  | c :: r => if c.listener.length ≤ b.listener.length then b :: c :: r else c :: insertBlock b r

/-- httptype.go: `sort.Slice(serverOpts, len(ListenerAddress) descending)` — the most specific block first, the
    catch-all (empty address) last.  (sort.Slice is an insertion sort, hence stable, up to 12 elements.) -/
def sortBlocks : List OptBlock → List OptBlock
  | [] => []
  | b :: r => insertBlock b (sortBlocks r)

/-- `applyServerOptions` given the option blocks in the order `sort.Slice` left them in -/
def applyOptsOrder (order : List OptBlock) (s : Srv) : Bool × Bool :=
  match firstBlock order s with
  | none => (s.hasLogs, false)
  | some b => if b.logCreds then (true, true) else (s.hasLogs, false)

/-- (`server.Logs != nil`, `server.Logs.ShouldLogCredentials`) after `applyServerOptions` -/
def applyOpts (blocks : List OptBlock) (s : Srv) : Bool × Bool := applyOptsOrder (sortBlocks blocks) s

/-- `s.Logs != nil && s.Logs.ShouldLogCredentials` — what server.go, reverseproxy.go, fastcgi.go and
    push/handler.go compute -/
def effectiveCreds (logs : Bool × Bool) : Bool := logs.1 && logs.2

/-! ### the redirect server of automatic HTTPS (modules/caddyhttp/autohttps.go)

Phase 1 walks the servers in name order; for every server that qualifies for automatic HTTPS
`if srv.Logs != nil { logCfg = srv.Logs.clone() }`, and the server it creates for the HTTP->HTTPS redirects
(`remaining_auto_https_redirects`) gets `Logs: logCfg` — the clone (flag included) of the LAST such server. -/

/-- one configured server in name order: does it qualify for automatic HTTPS, and its `logs.should_log_credentials`
    (none = no `logs` object) -/
structure TlsSrv where
  qualifies : Bool
  logs : Option Bool
deriving DecidableEq, Repr

/-- `logCfg` after the loop; none = the redirect server has no `logs` object -/
def redirectLogs : List TlsSrv → Option Bool
  | [] => none
  | s :: r =>
    match redirectLogs r with
    | some f => some f                 -- a later server overwrote it
    | none => if s.qualifies then s.logs else none

/-- the flag the redirect server's log sites read -/
def redirectCreds (srvs : List TlsSrv) : Bool :=
  match redirectLogs srvs with
  | some f => f
  | none => false

end CaddyModel.C20
