/-
C20 — model of the code that decides what reaches the logs.

* `loggableHeader`  = `LoggableHTTPHeader.MarshalLogObject` (modules/caddyhttp/marshalers.go):
  every header is emitted as an array; unless `ShouldLogCredentials`, a header whose
  `strings.ToLower(strings.TrimPrefix(key, "Trailer:"))` is one of the four credential names is emitted as `["REDACTED"]`,
  whatever its casing and however many values it has.
* `loggableRequest` = `LoggableHTTPRequest.MarshalLogObject` (flattened, `>` joins a path).
* `siteEntries`     = which log entries the server (access / error), the reverse proxy
  ("upstream roundtrip") and the rewrite handler ("rewrote request") build, from which header
  map and with which credentials flag.
* `applyFilter`     = the eight log field filters of modules/logging/filters.go as functions on
  the field they receive from the filter encoder.  Library calls (`strings.TrimSpace`,
  `net.SplitHostPort`, `net.ParseIP`, `IP.String`, `url.Parse`/`Query`/`String`,
  `Request.Cookies`, regexp matching/expansion, SHA-256) are the parameter `Oracles`; the glue
  around them (splitting, choosing the mask, pass-through on failure, joining, escaping) is here.

Byte strings are `List UInt8`.  A Go map (`http.Header`, `url.Values`) is an association list
with distinct keys; everything that is emitted from a map is emitted per key, so order is the
order of the list (the harness sorts both sides).
-/
import CaddyModel.Util.Hex

namespace CaddyModel.C20

/-! ### header redaction (marshalers.go) -/

abbrev Hdr := List (Bytes × List Bytes)

/-- ASCII upper → lower -/
def lowerByte (b : UInt8) : UInt8 := if 65 ≤ b ∧ b ≤ 90 then b + 32 else b

/-- `strings.ToLower` as far as equality with an ASCII name is concerned: ASCII letters are
    folded; the only two non-ASCII runes whose lower case is an ASCII letter are U+212A KELVIN
    SIGN (`E2 84 AA` → `k`) and U+0130 (`C4 B0` → `i`); every other byte ≥ 0x80 stays ≥ 0x80
    (and therefore never equals a byte of an ASCII name). -/
def foldAux : Nat → Bytes → Bytes
  | _, [] => []
  | n + 1, _ :: r => foldAux n r          -- continuation bytes of a rune already folded
  | 0, a :: r =>
    if a = 0xE2 ∧ r.take 2 = [0x84, 0xAA] then 107 :: foldAux 2 r
    else if a = 0xC4 ∧ r.take 1 = [0xB0] then 105 :: foldAux 1 r
    else lowerByte a :: foldAux 0 r

def foldName (k : Bytes) : Bytes := foldAux 0 k

/-- the names of marshalers.go's `switch strings.ToLower(key)` -/
def credNames : List Bytes :=
  [str "cookie", str "set-cookie", str "authorization", str "proxy-authorization"]

/-- the key test of marshalers.go BEFORE fix 48df0ef: `switch strings.ToLower(key)` -/
def isCredOld (key : Bytes) : Bool := credNames.contains (foldName key)

/-- `http.TrailerPrefix`: reverse_proxy keeps a trailer the upstream did not announce in the response
    header map under `Trailer:<name>` -/
def trailerPrefix : Bytes := str "Trailer:"

/-- `strings.TrimPrefix(key, http.TrailerPrefix)`: exact case, at most once -/
def stripTrailer (key : Bytes) : Bytes :=
  if trailerPrefix.isPrefixOf key then key.drop trailerPrefix.length else key

/-- the key test as it is now: `switch strings.ToLower(strings.TrimPrefix(key, http.TrailerPrefix))` -/
def isCred (key : Bytes) : Bool := isCredOld (stripTrailer key)

def redactedVal : List Bytes := [str "REDACTED"]

/-- the array emitted for one header -/
def logVal (creds : Bool) (key : Bytes) (vals : List Bytes) : List Bytes :=
  if !creds && isCred key then redactedVal else vals

/-- `LoggableHTTPHeader{h, creds}.MarshalLogObject`: one array per key (a nil map emits nothing) -/
def loggableHeader (h : Hdr) (creds : Bool) : Hdr :=
  h.map fun kv => (kv.1, logVal creds kv.1 kv.2)

/-! ### the request object -/

structure Req where
  remoteAddr : Bytes
  split : Option (Bytes × Bytes)   -- net.SplitHostPort(RemoteAddr); none = error
  clientIP : Option Bytes          -- the `client_ip` var, when it is a string
  proto : Bytes
  method : Bytes
  host : Bytes
  uri : Bytes
  hdr : Hdr
  te : Option (List Bytes)         -- TransferEncoding, none = nil

/-- what a zap field carries, as far as the filters are concerned -/
inductive FVal where
  | str (s : Bytes)            -- StringType
  | arr (l : List Bytes)       -- ArrayMarshalerType holding a caddyhttp.LoggableStringArray
  | other (tag : Nat)          -- every other field type (ints, bools, durations, objects, zap.Strings …)
  | skip                       -- SkipType: nothing is emitted
deriving DecidableEq, Repr

structure Field where
  key : Bytes
  val : FVal
deriving DecidableEq, Repr

def remoteIP (r : Req) : Bytes := match r.split with | some (ip, _) => ip | none => r.remoteAddr
def remotePort (r : Req) : Bytes := match r.split with | some (_, p) => p | none => []

def optField (k : Bytes) : Option Bytes → List Field
  | some v => [⟨k, .str v⟩]
  | none => []

def optArr (k : Bytes) : Option (List Bytes) → List Field
  | some v => [⟨k, .arr v⟩]
  | none => []

def hdrPrefix : Bytes := str "headers>"

/-- `LoggableHTTPRequest{r, creds}.MarshalLogObject`, flattened (`headers>Name`); TLS state left out -/
def loggableRequest (r : Req) (creds : Bool) : List Field :=
  [⟨str "remote_ip", .str (remoteIP r)⟩, ⟨str "remote_port", .str (remotePort r)⟩]
  ++ optField (str "client_ip") r.clientIP
  ++ [⟨str "proto", .str r.proto⟩, ⟨str "method", .str r.method⟩, ⟨str "host", .str r.host⟩,
      ⟨str "uri", .str r.uri⟩]
  ++ (loggableHeader r.hdr creds).map (fun kv => ⟨hdrPrefix ++ kv.1, .arr kv.2⟩)
  ++ optArr (str "transfer_encoding") r.te

/-! ### log sites (server.go, reverseproxy.go, rewrite.go) -/

inductive Route where
  | respond      -- a handler writes the response
  | fail         -- a handler returns an error (plain or HandlerError)
  | proxyOk      -- reverse_proxy, the round trip succeeds (a normal response, a response handled by handle_response
                 -- routes, or 101 Switching Protocols: the upgrade path logs no further header object)
  | proxyErr     -- reverse_proxy, the round trip fails
  | fcgiErr      -- reverse_proxy with the fastcgi transport: its own "roundtrip" debug entry, then the dial fails
  | proxyRetry   -- reverse_proxy, the first round trip fails and is retried, the second succeeds
deriving DecidableEq, Repr

structure Scn where
  creds : Bool            -- server.Logs.ShouldLogCredentials
  skipAccess : Bool       -- host is in skip_hosts (no access log; error logs unaffected)
  names : List Bytes      -- logger name suffixes wrapLogger yields for the host ("" = default logger)
  rewrote : Bool          -- a rewrite handler ran before and changed the request
  route : Route
  tIn : Hdr               -- request headers when the server was entered (the clone that is logged)
  tMid : Hdr              -- request headers when the rewrite handler ran
  tOut : Hdr              -- headers of the outgoing (upstream) request
  tUp : Hdr               -- headers of the upstream response
  tResp : Hdr             -- response headers when the access log is written

/-- one logged header object: (logger name, object path, logged headers) -/
structure Entry where
  logger : Bytes
  obj : Bytes
  hdr : Hdr
deriving DecidableEq, Repr

def named (base : Bytes) (n : Bytes) : Bytes := if n.isEmpty then base else base ++ [46] ++ n

def rewriteEntries (s : Scn) : List Entry :=
  if s.rewrote then
    -- rewrite.go:146  `LoggableHTTPRequest{Request: r}` — the flag is the zero value
    [⟨str "http.handlers.rewrite", str "request>headers", loggableHeader s.tMid false⟩]
  else []

def proxyEntries (s : Scn) : List Entry :=
  match s.route with
  | .proxyOk =>
    [⟨str "http.handlers.reverse_proxy", str "request>headers", loggableHeader s.tOut s.creds⟩,
     ⟨str "http.handlers.reverse_proxy", str "headers", loggableHeader s.tUp s.creds⟩]
  | .proxyErr =>
    [⟨str "http.handlers.reverse_proxy", str "request>headers", loggableHeader s.tOut s.creds⟩]
  | .proxyRetry =>
    -- one "upstream roundtrip" entry per attempt: the failed one without, the successful one with the response headers
    [⟨str "http.handlers.reverse_proxy", str "request>headers", loggableHeader s.tOut s.creds⟩,
     ⟨str "http.handlers.reverse_proxy", str "request>headers", loggableHeader s.tOut s.creds⟩,
     ⟨str "http.handlers.reverse_proxy", str "headers", loggableHeader s.tUp s.creds⟩]
  | .fcgiErr =>
    -- fastcgi.go:141  `LoggableHTTPRequest{Request: r, ShouldLogCredentials: logCreds}` logged before dialing
    [⟨str "http.reverse_proxy.transport.fastcgi", str "request>headers", loggableHeader s.tOut s.creds⟩,
     ⟨str "http.handlers.reverse_proxy", str "request>headers", loggableHeader s.tOut s.creds⟩]
  | _ => []

def failed (s : Scn) : Bool := s.route = .fail || s.route = .proxyErr || s.route = .fcgiErr

def errorEntries (s : Scn) : List Entry :=
  if failed s then
    s.names.map fun n => ⟨named (str "http.log.error") n, str "request>headers", loggableHeader s.tIn s.creds⟩
  else []

def accessEntries (s : Scn) : List Entry :=
  if s.skipAccess then [] else
  s.names.flatMap fun n =>
    [⟨named (str "http.log.access") n, str "request>headers", loggableHeader s.tIn s.creds⟩,
     ⟨named (str "http.log.access") n, str "resp_headers", loggableHeader s.tResp s.creds⟩]

/-- every header object logged while one request is served, in the order of emission -/
def siteEntries (s : Scn) : List Entry :=
  rewriteEntries s ++ proxyEntries s ++ errorEntries s ++ accessEntries s

/-! ### field filters (modules/logging/filters.go) -/

inductive IPAddr where
  | v4 (b : List UInt8)    -- `To4() != nil`, the 4 bytes
  | v6 (b : List UInt8)    -- otherwise, the 16 bytes
deriving DecidableEq, Repr

structure URLParts where
  pre : Bytes                        -- `u.String()` up to (not including) `?`
  post : Bytes                       -- `#fragment` or empty
  force : Bool                       -- `u.ForceQuery`
  q : List (Bytes × List Bytes)      -- `u.Query()`, keys distinct and sorted
deriving DecidableEq, Repr

structure Cookie where
  name : Bytes
  value : Bytes
  quoted : Bool
deriving DecidableEq, Repr

/-- one effective regexp match: `[s, e)` and the expanded replacement -/
structure Span where
  s : Nat
  e : Nat
  exp : Bytes
deriving DecidableEq, Repr

/-- library functions the filters call (supplied per case by the harness) -/
structure Oracles where
  H : Bytes → Bytes                              -- `hash`: hex of the first 4 bytes of SHA-256
  trim : Bytes → Bytes                           -- strings.TrimSpace
  shp : Bytes → Option (Bytes × Bytes)           -- net.SplitHostPort
  parseIP : Bytes → Option IPAddr                -- net.ParseIP
  ipStr : Option (List UInt8) → Bytes            -- IP.String() (none = nil IP)
  parseURL : Bytes → Option URLParts             -- url.Parse
  parseQuery : Bytes → List (Bytes × List Bytes)  -- url.ParseQuery (what parses; keys distinct and sorted)
  cookies : List Bytes → List Cookie             -- (&http.Request{Header: {"Cookie": l}}).Cookies()
  reSpans : Bytes → List Span                    -- matches ReplaceAllString replaces, with expansions

inductive ActT where
  | replace | hash | delete
deriving DecidableEq, Repr

/-- `queryFilterAction` / `cookieFilterAction` -/
structure Act where
  typ : ActT
  name : Bytes
  value : Bytes
deriving DecidableEq, Repr

inductive Filter where
  | delete
  | replace (v : Bytes)
  | hash
  | ipMask (v4raw v6raw : Int)
  | query (acts : List Act)
  | cookie (acts : List Act)
  | regexp
  | rename (name : Bytes)
deriving DecidableEq, Repr

/-- `if array, ok := in.Interface.(LoggableStringArray) {…each…} else { in.String = f(in.String) }`:
    for a field that is neither a string nor such an array the assignment to `in.String` has no
    effect on what is emitted. -/
def mapStr (f : Bytes → Bytes) : FVal → FVal
  | .str s => .str (f s)
  | .arr l => .arr (l.map f)
  | .other t => .other t
  | .skip => .skip

/-! ip_mask -/

def maskByte (ones : Nat) : UInt8 := if ones ≥ 8 then 255 else UInt8.ofNat (256 - 2 ^ (8 - ones))

def cidrBytes : (len ones : Nat) → List UInt8
  | 0, _ => []
  | n + 1, ones => maskByte ones :: cidrBytes n (ones - 8)

/-- `parseRawToMask`: 0 ⇒ nil; `net.CIDRMask` returns nil when ones ∉ [0, bits] -/
def cidrMask (raw : Int) (bits : Nat) : Option (List UInt8) :=
  if raw ≤ 0 ∨ raw > (bits : Int) then none else some (cidrBytes (bits / 8) raw.toNat)

def andBytes (ip mask : List UInt8) : List UInt8 := List.zipWith (· &&& ·) ip mask

/-- `ipAddr.Mask(mask)` with the mask chosen by `ipAddr.To4() == nil`; none = nil IP -/
def maskedOf (m4 m6 : Option (List UInt8)) : IPAddr → Option (List UInt8)
  | .v4 b => m4.map (andBytes b)
  | .v6 b => m6.map (andBytes b)

def hostOf (o : Oracles) (value : Bytes) : Bytes :=
  match o.shp value with | some (h, _) => h | none => value

def portOf (o : Oracles) (value : Bytes) : Bytes :=
  match o.shp value with | some (_, p) => p | none => []

/-- net.JoinHostPort -/
def joinHostPort (host port : Bytes) : Bytes :=
  if host.contains 58 then [91] ++ host ++ [93, 58] ++ port else host ++ [58] ++ port

/-- `strings.Cut(host, "%")`: an IPv6 zone is not part of the address -/
def cutZone (host : Bytes) : Bytes := host.takeWhile (· ≠ 37)

/-- one comma-separated element, already trimmed -/
def maskValue (o : Oracles) (m4 m6 : Option (List UInt8)) (value : Bytes) : Bytes :=
  match o.parseIP (cutZone (hostOf o value)) with
  | none => value                        -- `output += value + ", "; continue`
  | some ip =>
    if (portOf o value).isEmpty then o.ipStr (maskedOf m4 m6 ip)
    else joinHostPort (o.ipStr (maskedOf m4 m6 ip)) (portOf o value)

/-- the same element BEFORE the zone fix: `net.ParseIP(host)` on the host with its zone -/
def maskValueOld (o : Oracles) (m4 m6 : Option (List UInt8)) (value : Bytes) : Bytes :=
  match o.parseIP (hostOf o value) with
  | none => value
  | some ip =>
    if (portOf o value).isEmpty then o.ipStr (maskedOf m4 m6 ip)
    else joinHostPort (o.ipStr (maskedOf m4 m6 ip)) (portOf o value)

/-- strings.Split(s, ",") -/
def splitOn (c : UInt8) : Bytes → List Bytes
  | [] => [[]]
  | b :: r =>
    if b = c then [] :: splitOn c r
    else match splitOn c r with
      | p :: ps => (b :: p) :: ps
      | [] => [[b]]

def commaSpace : Bytes := [44, 32]

/-- strings.TrimSuffix -/
def trimSuffix (s suf : Bytes) : Bytes :=
  if suf.isSuffixOf s then s.take (s.length - suf.length) else s

def ipMaskStr (o : Oracles) (m4 m6 : Option (List UInt8)) (s : Bytes) : Bytes :=
  trimSuffix (((splitOn 44 s).map fun p => maskValue o m4 m6 (o.trim p) ++ commaSpace).flatten) commaSpace

/-! query -/

def isUnreserved (b : UInt8) : Bool :=
  (48 ≤ b && b ≤ 57) || (65 ≤ b && b ≤ 90) || (97 ≤ b && b ≤ 122) || b = 45 || b = 95 || b = 46 || b = 126

def upperHex (n : UInt8) : UInt8 := if n < 10 then 48 + n else 55 + n

/-- url.QueryEscape -/
def queryEscape : Bytes → Bytes
  | [] => []
  | b :: r =>
    if isUnreserved b then b :: queryEscape r
    else if b = 32 then 43 :: queryEscape r
    else 37 :: upperHex (b >>> 4) :: upperHex (b &&& 15) :: queryEscape r

def applyAct (H : Bytes → Bytes) (q : List (Bytes × List Bytes)) (a : Act) : List (Bytes × List Bytes) :=
  match a.typ with
  | .replace => q.map fun kv => if kv.1 = a.name then (kv.1, kv.2.map fun _ => a.value) else kv
  | .hash => q.map fun kv => if kv.1 = a.name then (kv.1, kv.2.map fun _ => H a.value) else kv   -- sic: hash(a.Value)
  | .delete => q.filter fun kv => kv.1 ≠ a.name

def applyActs (H : Bytes → Bytes) (acts : List Act) (q : List (Bytes × List Bytes)) : List (Bytes × List Bytes) :=
  acts.foldl (applyAct H) q

def pairStr (k v : Bytes) : Bytes := queryEscape k ++ [61] ++ queryEscape v

/-- url.Values.Encode (keys already sorted) -/
def encodeQuery (q : List (Bytes × List Bytes)) : Bytes :=
  [38].intercalate (q.flatMap fun kv => kv.2.map (pairStr kv.1))

def urlString (u : URLParts) (rawq : Bytes) : Bytes :=
  u.pre ++ (if u.force || !rawq.isEmpty then 63 :: rawq else []) ++ u.post

/-- strings.Cut(s, c): text before and after the first `c`; none = not found -/
def cutAt (c : UInt8) : Bytes → Option (Bytes × Bytes)
  | [] => none
  | b :: r => if b = c then some ([], r) else
    match cutAt c r with
    | some (x, y) => some (b :: x, y)
    | none => none

/-- the part after the first `?`: raw query up to a `#`, and the rest -/
def splitQuery (o : Oracles) (before after : Bytes) : URLParts :=
  match cutAt 35 after with
  | none => ⟨before, [], after.isEmpty, o.parseQuery after⟩
  | some (rawq, frag) => ⟨before, 35 :: frag, rawq.isEmpty, o.parseQuery rawq⟩

/-- what `processQueryString` works on when `url.Parse` fails: the value cut at its first `?`;
    none = there is no `?` -/
def fallbackParts (o : Oracles) (s : Bytes) : Option URLParts :=
  match cutAt 63 s with
  | none => none
  | some (before, after) => some (splitQuery o before after)

def queryStr (o : Oracles) (acts : List Act) (s : Bytes) : Bytes :=
  match o.parseURL s with
  | some u => urlString u (encodeQuery (applyActs o.H acts u.q))
  | none =>
    match fallbackParts o s with
    | none => s                                  -- `if !found { return s }`
    | some u => urlString u (encodeQuery (applyActs o.H acts u.q))

/-- the same BEFORE the fallback fix: `if err != nil { return s }` -/
def queryStrOld (o : Oracles) (acts : List Act) (s : Bytes) : Bytes :=
  match o.parseURL s with
  | none => s
  | some u => urlString u (encodeQuery (applyActs o.H acts u.q))

/-! cookie -/

def validCookieValueByte (b : UInt8) : Bool := 0x20 ≤ b && b < 0x7f && b ≠ 34 && b ≠ 59 && b ≠ 92

/-- sanitizeCookieValue -/
def sanitizeValue (v : Bytes) (quoted : Bool) : Bytes :=
  if (v.filter validCookieValueByte).isEmpty then []
  else if (v.filter validCookieValueByte).contains 32 || (v.filter validCookieValueByte).contains 44 || quoted then
    [34] ++ v.filter validCookieValueByte ++ [34]
  else v.filter validCookieValueByte

/-- sanitizeCookieName: `\n` and `\r` become `-` -/
def sanitizeName (n : Bytes) : Bytes := n.map fun b => if b = 10 ∨ b = 13 then 45 else b

def renderCookie (c : Cookie) : Bytes := sanitizeName c.name ++ [61] ++ sanitizeValue c.value c.quoted

/-- the inner `for _, a := range m.Actions` loop: the first action with the cookie's name decides;
    none = the cookie is dropped -/
def cookieAct (H : Bytes → Bytes) : List Act → Cookie → Option Cookie
  | [], c => some c
  | a :: rest, c =>
    if c.name ≠ a.name then cookieAct H rest c
    else match a.typ with
      | .replace => some { c with value := a.value }
      | .hash => some { c with value := H c.value }
      | .delete => none

def semiSpace : Bytes := [59, 32]

def cookieVal (o : Oracles) (acts : List Act) : FVal → FVal
  | .arr l =>
    match (o.cookies l).filterMap (cookieAct o.H acts) with
    | [] => .arr []
    | cs => .arr [semiSpace.intercalate (cs.map renderCookie)]
  | v => v                                       -- `if !ok { return in }`

/-! regexp -/

/-- `Regexp.ReplaceAllString`'s copy loop: unmatched text before each match, the expansion, and
    finally the rest -/
def reLoop (src : Bytes) : List Span → Nat → Bytes
  | [], last => src.drop last
  | sp :: r, last => (src.drop last).take (sp.s - last) ++ sp.exp ++ reLoop src r sp.e

def reStr (o : Oracles) (s : Bytes) : Bytes := reLoop s (o.reSpans s) 0

/-! all filters -/

def cidr4 (raw : Int) : Option (List UInt8) := cidrMask raw 32
def cidr6 (raw : Int) : Option (List UInt8) := cidrMask raw 128

/-- `filter.Filter(field)`; the result with `.skip` is not emitted -/
def applyFilter (o : Oracles) : Filter → Field → Field
  | .delete, f => ⟨f.key, .skip⟩
  | .replace v, f => ⟨f.key, .str v⟩
  | .hash, f => ⟨f.key, mapStr o.H f.val⟩
  | .ipMask a b, f => ⟨f.key, mapStr (ipMaskStr o (cidr4 a) (cidr6 b)) f.val⟩
  | .query acts, f => ⟨f.key, mapStr (queryStr o acts) f.val⟩
  | .cookie acts, f => ⟨f.key, cookieVal o acts f.val⟩
  | .regexp, f => ⟨f.key, mapStr (reStr o) f.val⟩
  | .rename n, f => ⟨n, f.val⟩

end CaddyModel.C20
