import CaddyModel.C20.Props
open CaddyModel.C20
#print axioms cred_any_casing
#print axioms redacted
#print axioms redacted_any_casing_any_count
#print axioms logged_keys_are_header_keys
#print axioms enabled_logs_everything
#print axioms secret_absent_from_header_object
#print axioms secret_absent_from_header_object_occurs
#print axioms secret_absent_from_request_object
#print axioms secret_absent_from_fields
#print axioms rewrite_site_always_redacts
#print axioms sites_use_server_flag
#print axioms delete_never_emits
#print axioms replace_never_emits_original
#print axioms hash_never_emits_original_partial
#print axioms cookie_filter_hides_named
#print axioms regexp_filter_hides_matched_spans
#print axioms query_filter_hides_param_partial
#print axioms query_filter_keeps_other_params
#print axioms query_hash_action_is_constant
#print axioms ipmask_hides_host_bits_partial
#print axioms cidr_mask_table
#print axioms rename_keeps_value
#print axioms query_filter_full_fails
#print axioms ipmask_full_fails
#print axioms hash_full_fails
