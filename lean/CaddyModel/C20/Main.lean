import CaddyModel.Util.DrvMain
import CaddyModel.C20.Driver

def main (args : List String) : IO Unit :=
  CaddyModel.drvMain "C20" CaddyModel.C20.handle CaddyModel.C20.witnessLines args
