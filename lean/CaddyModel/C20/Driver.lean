/-
C20 line-protocol driver.   (`.` = empty/absent, `=`+payload = present, byte strings hex, `-` = "")

  hdr  <c> <H>                                   LoggableHTTPHeader{H, c}.MarshalLogObject
  req  <c> <remote> <split> <clientip> <proto> <method> <host> <uri> <H> <te>
                                                 LoggableHTTPRequest{…, c}.MarshalLogObject
  flt  <filter> <key> <kind> <val> <tables>      one field filter on one field
  site <c> <E> <hostclass> <rw> <route> <status> <remote> <qs> <Tin> <Tadd> <Tset> <Tup>
       <Tmid> <Tout> <Tupo> <Tresp>              one request through a provisioned server
  opts <blocks> <sites>                          Caddyfile `servers { log_credentials }` global options adapted for the
                                                 given sites; blocks = `.` | listener:flag;… ; sites = port,port:haslog;…
  fenc <nwith> <cfg> <tree> <tables>             one log entry through a provisioned FilterEncoder
  fenc2 <nwith> <outer> <inner> <tree>           …through a FilterEncoder whose wrapped encoder is another FilterEncoder
                                                 (delete / replace / hash / rename filters only: no tables)
                                                 cfg = `.` | path@filter+path@filter ; tree = `.` | tokens joined by `/`:
                                                 o:<key> … c (object), l:<key>:<kind>:<val> (leaf), n:<key> (zap.Namespace);
                                                 keys ascending per object

H = `.` | `k:v,v;k:.;…` (keys strictly ascending).  split = `.` | `ip:port`.
filter = delete | replace:<v> | hash | ipmask:<v4>:<v6> | query:<acts> | cookie:<acts> | regexp:<pat>:<repl> | rename:<n>
acts = `.` | `t,name,value;…`, t ∈ r h d.   kind/val = s <hex> | a <L> | o <tag>.
tables = `.` | rows joined by `;` (see `Tables`).
-/
import CaddyModel.C20.Model
import CaddyModel.C20.FEnc
import CaddyModel.C20.Plumb
import CaddyModel.C20.LogAppend
import CaddyModel.C10.Glue

namespace CaddyModel.C20

/-! parsing helpers -/

def bytesLt : Bytes → Bytes → Bool
  | [], [] => false
  | [], _ :: _ => true
  | _ :: _, [] => false
  | a :: as, b :: bs => if a < b then true else if b < a then false else bytesLt as bs

def strictlySorted : List Bytes → Bool
  | [] => true
  | [_] => true
  | a :: b :: r => bytesLt a b && strictlySorted (b :: r)

/-- `.` | hex,hex,… -/
def parseList (s : String) : Option (List Bytes) :=
  if s == "." then some [] else (s.splitOn ",").mapM Hex.decode

def parseHdr (s : String) : Option Hdr :=
  if s == "." then some [] else do
    let rows ← (s.splitOn ";").mapM fun kv =>
      match kv.splitOn ":" with
      | [k, v] => do pure ((← Hex.decode k), (← parseList v))
      | _ => none
    if strictlySorted (rows.map (·.1)) then some rows else none

def parseBool (s : String) : Option Bool :=
  if s == "0" then some false else if s == "1" then some true else none

def parseOptBytes (s : String) : Option (Option Bytes) :=
  if s == "." then some none
  else if s.startsWith "=" then (Hex.decode (s.drop 1).toString).map some else none

def parseOptList (s : String) : Option (Option (List Bytes)) :=
  if s == "." then some none
  else if s.startsWith "=" then (parseList (s.drop 1).toString).map some else none

def parseSplit (s : String) : Option (Option (Bytes × Bytes)) :=
  if s == "." then some none else
  match s.splitOn ":" with
  | [a, b] => do pure (some ((← Hex.decode a), (← Hex.decode b)))
  | _ => none

def parseInt (s : String) : Option Int :=
  if s.startsWith "-" then (s.drop 1).toString.toNat?.map fun n => -(n : Int) else s.toNat?.map fun n => (n : Int)

def parseActs (s : String) : Option (List Act) :=
  if s == "." then some [] else
  (s.splitOn ";").mapM fun a =>
    match a.splitOn "," with
    | [t, n, v] => do
      let typ ← (if t == "r" then some ActT.replace else if t == "h" then some ActT.hash
                 else if t == "d" then some ActT.delete else none)
      pure ⟨typ, (← Hex.decode n), (← Hex.decode v)⟩
    | _ => none

def parseFilter (s : String) : Option Filter :=
  match s.splitOn ":" with
  | ["delete"] => some .delete
  | ["replace", v] => (Hex.decode v).map .replace
  | ["hash"] => some .hash
  | ["ipmask", a, b] => do pure (.ipMask (← parseInt a) (← parseInt b))
  | ["query", acts] => (parseActs acts).map .query
  | ["cookie", acts] => (parseActs acts).map .cookie
  | ["regexp", p, r] => do let _ ← Hex.decode p; let _ ← Hex.decode r; pure .regexp
  | ["rename", n] => (Hex.decode n).map .rename
  | _ => none

def parseVal (kind val : String) : Option FVal :=
  if kind == "s" then (Hex.decode val).map .str
  else if kind == "a" then (parseList val).map .arr
  else if kind == "o" then val.toNat?.map .other
  else none

/-! oracle tables:
  T,… / S,…                      (accepted and ignored: strings.TrimSpace and net.SplitHostPort are byte-level models now)
  P,<host>[,<ipbytes>]           net.ParseIP (4 bytes when To4() != nil, else 16; 2 columns = nil)
  M,<masked|nil>,<string>        IP.String() of the masked address
  U,<s>[,<pre>,<post>,<force>,<q>]   url.Parse; q = `.` | k=v|v&k=v
  Q,<rawquery>,<q>               url.ParseQuery of the text after the first `?` (when url.Parse fails)
  C,<cookies>                    Request.Cookies(): `.` | name=value=q|…
  R,<s>,<spans>                  regexp: `.` | start~end~exp|…
-/
structure Tables where
  trim : List (Bytes × Bytes) := []
  shp : List (Bytes × Option (Bytes × Bytes)) := []
  ip : List (Bytes × Option IPAddr) := []
  ipStr : List (Option (List UInt8) × Bytes) := []
  url : List (Bytes × Option URLParts) := []
  pq : List (Bytes × List (Bytes × List Bytes)) := []
  cookies : List Cookie := []
  re : List (Bytes × List Span) := []

def parseQ (s : String) : Option (List (Bytes × List Bytes)) :=
  if s == "." then some [] else do
    let rows ← (s.splitOn "&").mapM fun kv =>
      match kv.splitOn "=" with
      | [k, vs] => do pure ((← Hex.decode k), (← (vs.splitOn "|").mapM Hex.decode))
      | _ => none
    if strictlySorted (rows.map (·.1)) then some rows else none

def parseCookies (s : String) : Option (List Cookie) :=
  if s == "." then some [] else
  (s.splitOn "|").mapM fun c =>
    match c.splitOn "=" with
    | [n, v, q] => do pure ⟨(← Hex.decode n), (← Hex.decode v), (← parseBool q)⟩
    | _ => none

def parseSpans (s : String) : Option (List Span) :=
  if s == "." then some [] else
  (s.splitOn "|").mapM fun c =>
    match c.splitOn "~" with
    | [a, b, e] => do pure ⟨(← a.toNat?), (← b.toNat?), (← Hex.decode e)⟩
    | _ => none

def addRow (t : Tables) (row : String) : Option Tables :=
  match row.splitOn "," with
  | ["T", a, b] => do pure { t with trim := t.trim ++ [((← Hex.decode a), (← Hex.decode b))] }
  | ["S", a] => do pure { t with shp := t.shp ++ [((← Hex.decode a), none)] }
  | ["S", a, h, p] => do pure { t with shp := t.shp ++ [((← Hex.decode a), some ((← Hex.decode h), (← Hex.decode p)))] }
  | ["P", h] => do pure { t with ip := t.ip ++ [((← Hex.decode h), none)] }
  | ["P", h, b] => do
    let bs ← Hex.decode b
    if bs.length = 4 then pure { t with ip := t.ip ++ [((← Hex.decode h), some (.v4 bs))] }
    else if bs.length = 16 then pure { t with ip := t.ip ++ [((← Hex.decode h), some (.v6 bs))] }
    else none
  | ["M", m, s] => do
    let key ← (if m == "nil" then some none else (Hex.decode m).map some)
    pure { t with ipStr := t.ipStr ++ [(key, (← Hex.decode s))] }
  | ["U", s] => do pure { t with url := t.url ++ [((← Hex.decode s), none)] }
  | ["U", s, pre, post, force, q] => do
    pure { t with url := t.url ++ [((← Hex.decode s), some ⟨(← Hex.decode pre), (← Hex.decode post), (← parseBool force), (← parseQ q)⟩)] }
  | ["Q", rq, q] => do pure { t with pq := t.pq ++ [((← Hex.decode rq), (← parseQ q))] }
  | ["C", cs] => do pure { t with cookies := (← parseCookies cs) }
  | ["R", s, sp] => do pure { t with re := t.re ++ [((← Hex.decode s), (← parseSpans sp))] }
  | _ => none

def parseTables (s : String) : Option Tables :=
  if s == "." then some {} else (s.splitOn ";").foldlM addRow {}

def lookup {α β : Type} [BEq α] (l : List (α × β)) (k : α) : Option β := (l.find? (·.1 == k)).map (·.2)

/-! SHA-256 (driver only: the model and the theorems are parametric in `H`) -/

def shaK : Array UInt32 := #[
  0x428a2f98, 0x71374491, 0xb5c0fbcf, 0xe9b5dba5, 0x3956c25b, 0x59f111f1, 0x923f82a4, 0xab1c5ed5,
  0xd807aa98, 0x12835b01, 0x243185be, 0x550c7dc3, 0x72be5d74, 0x80deb1fe, 0x9bdc06a7, 0xc19bf174,
  0xe49b69c1, 0xefbe4786, 0x0fc19dc6, 0x240ca1cc, 0x2de92c6f, 0x4a7484aa, 0x5cb0a9dc, 0x76f988da,
  0x983e5152, 0xa831c66d, 0xb00327c8, 0xbf597fc7, 0xc6e00bf3, 0xd5a79147, 0x06ca6351, 0x14292967,
  0x27b70a85, 0x2e1b2138, 0x4d2c6dfc, 0x53380d13, 0x650a7354, 0x766a0abb, 0x81c2c92e, 0x92722c85,
  0xa2bfe8a1, 0xa81a664b, 0xc24b8b70, 0xc76c51a3, 0xd192e819, 0xd6990624, 0xf40e3585, 0x106aa070,
  0x19a4c116, 0x1e376c08, 0x2748774c, 0x34b0bcb5, 0x391c0cb3, 0x4ed8aa4a, 0x5b9cca4f, 0x682e6ff3,
  0x748f82ee, 0x78a5636f, 0x84c87814, 0x8cc70208, 0x90befffa, 0xa4506ceb, 0xbef9a3f7, 0xc67178f2]

def rotr (x : UInt32) (n : UInt32) : UInt32 := (x >>> n) ||| (x <<< (32 - n))

def shaPad (msg : Bytes) : Array UInt8 := Id.run do
  let mut a : Array UInt8 := msg.toArray
  a := a.push 0x80
  while a.size % 64 ≠ 56 do
    a := a.push 0
  let bits : Nat := msg.length * 8
  for i in [0:8] do
    a := a.push (UInt8.ofNat ((bits >>> (8 * (7 - i))) % 256))
  return a

/-- first word of the SHA-256 digest (= its first 4 bytes) -/
def sha256Word0 (msg : Bytes) : UInt32 := Id.run do
  let p := shaPad msg
  let mut h : Array UInt32 := #[0x6a09e667, 0xbb67ae85, 0x3c6ef372, 0xa54ff53a, 0x510e527f, 0x9b05688c, 0x1f83d9ab, 0x5be0cd19]
  for blk in [0:p.size / 64] do
    let mut w : Array UInt32 := Array.replicate 64 0
    for i in [0:16] do
      let o := blk * 64 + i * 4
      w := w.set! i ((p[o]!.toUInt32 <<< 24) ||| (p[o+1]!.toUInt32 <<< 16) ||| (p[o+2]!.toUInt32 <<< 8) ||| p[o+3]!.toUInt32)
    for i in [16:64] do
      let x := w[i-15]!
      let y := w[i-2]!
      let s0 := rotr x 7 ^^^ rotr x 18 ^^^ (x >>> 3)
      let s1 := rotr y 17 ^^^ rotr y 19 ^^^ (y >>> 10)
      w := w.set! i (w[i-16]! + s0 + w[i-7]! + s1)
    let mut a := h[0]!
    let mut b := h[1]!
    let mut c := h[2]!
    let mut d := h[3]!
    let mut e := h[4]!
    let mut f := h[5]!
    let mut g := h[6]!
    let mut hh := h[7]!
    for i in [0:64] do
      let s1 := rotr e 6 ^^^ rotr e 11 ^^^ rotr e 25
      let ch := (e &&& f) ^^^ ((~~~ e) &&& g)
      let t1 := hh + s1 + ch + shaK[i]! + w[i]!
      let s0 := rotr a 2 ^^^ rotr a 13 ^^^ rotr a 22
      let mj := (a &&& b) ^^^ (a &&& c) ^^^ (b &&& c)
      let t2 := s0 + mj
      hh := g; g := f; f := e; e := d + t1; d := c; c := b; b := a; a := t1 + t2
    h := #[h[0]! + a, h[1]! + b, h[2]! + c, h[3]! + d, h[4]! + e, h[5]! + f, h[6]! + g, h[7]! + hh]
  return h[0]!

def lowerHexDigit (n : Nat) : UInt8 := if n < 10 then UInt8.ofNat (48 + n) else UInt8.ofNat (87 + n)

/-- filters.go `hash`: `fmt.Sprintf("%.4x", sha256.Sum256([]byte(s)))` -/
def hash4 (s : Bytes) : Bytes :=
  let w := (sha256Word0 s).toNat
  (List.range 8).map fun i => lowerHexDigit ((w >>> (4 * (7 - i))) % 16)

def oraclesOf (t : Tables) : Oracles where
  H := hash4
  -- byte-level models shared with C10 (no table): strings.TrimSpace, net.SplitHostPort
  trim := CaddyModel.C10.trimSpace
  shp := CaddyModel.C10.splitHostPort
  parseIP := fun s => (lookup t.ip s).getD none
  ipStr := fun m => (lookup t.ipStr m).getD (str "?oracle-miss")
  parseURL := fun s => (lookup t.url s).getD none
  parseQuery := fun s => (lookup t.pq s).getD [(str "?oracle-miss", [[]])]
  cookies := fun _ => t.cookies
  reSpans := fun s => (lookup t.re s).getD []

/-! printing -/

def showList (l : List Bytes) : String := if l.isEmpty then "." else ",".intercalate (l.map Hex.encode)

def showHdr (h : Hdr) : String :=
  if h.isEmpty then "." else ";".intercalate (h.map fun kv => Hex.encode kv.1 ++ ":" ++ showList kv.2)

def showField (f : Field) : String :=
  match f.val with
  | .skip => "skip"
  | .str s => Hex.encode f.key ++ " s " ++ Hex.encode s
  | .arr l => Hex.encode f.key ++ " a " ++ showList l
  | .other t => Hex.encode f.key ++ " o " ++ toString t

def showReqField (f : Field) : String :=
  match f.val with
  | .str s => bytesToString f.key ++ "=" ++ Hex.encode s
  | .arr l => bytesToString f.key ++ "=[" ++ showList l ++ "]"
  | _ => "?"

/-- the request object is printed with its headers folded back into one `headers=<H>` item -/
def showReq (r : Req) (creds : Bool) : String :=
  let fs := loggableRequest r creds
  let plain := fs.filter fun f => !(hdrPrefix.isPrefixOf f.key)
  let pre := plain.filter fun f => f.key != str "transfer_encoding"
  let te := plain.filter fun f => f.key == str "transfer_encoding"
  " ".intercalate (pre.map showReqField ++ ["headers=" ++ showHdr (loggableHeader r.hdr creds)] ++ te.map showReqField)

def showEntry (e : Entry) : String := bytesToString e.logger ++ "/" ++ bytesToString e.obj ++ "=" ++ showHdr e.hdr

/-- access-logger names configured for the harness' hosts (logger_names / skip_hosts of its config) -/
def hostClass (s : String) : Option (Bool × List Bytes) :=
  if s == "d" then some (false, [[]])
  else if s == "n" then some (false, [str "n1", str "n2"])
  else if s == "k" then some (true, [[]])
  else if s == "w" then some (false, [str "w1"])
  else if s == "m" then some (false, [[], str "m1"])
  -- the `access_logger_names` variable (log_name directive) overrides the host mapping; `log_skip` drops the access log
  else if s == "v" then some (false, [str "v1", []])
  else if s == "s" then some (true, [[]])
  -- the HTTP->HTTPS redirect server of automatic HTTPS: a clone of the last qualifying server's log configuration
  else if s == "r" then some (false, [[]])
  else if s == "q" then some (false, [str "rb"])
  else none

def parseRoute (s : String) : Option Route :=
  if s == "ok" then some .respond
  else if s == "err" || s == "herr" then some .fail
  else if s == "px" || s == "rl" || s == "up" || s == "rlu" || s == "hr" then some .proxyOk
  else if s == "rt" then some .proxyRetry
  else if s == "ic" then some .respond
  else if s == "pxe" || s == "rle" then some .proxyErr
  else if s == "fcg" then some .fcgiErr
  else none

/-! filter-encoder trees -/

def parseCfg (s : String) : Option FCfg :=
  if s == "." then some [] else
  (s.splitOn "+").mapM fun e =>
    match e.splitOn "@" with
    | [p, f] => do pure ((← Hex.decode p), (← parseFilter f))
    | _ => none

/-- stack of open objects: (key, children so far, reversed) -/
def treeStep (st : Option (List (Bytes × List Node))) (tok : String) : Option (List (Bytes × List Node)) :=
  match st with
  | none => none
  | some stack =>
    match tok.splitOn ":" with
    | ["o", k] => do pure ((← Hex.decode k, []) :: stack)
    | ["c"] =>
      match stack with
      | (k, kids) :: (pk, pkids) :: rest => some ((pk, Node.obj k kids.reverse :: pkids) :: rest)
      | _ => none
    | ["n", k] =>
      match stack with
      | (pk, pkids) :: rest => do pure ((pk, Node.ns (← Hex.decode k) :: pkids) :: rest)
      | [] => none
    | ["l", k, kind, v] =>
      match stack with
      | (pk, pkids) :: rest => do pure ((pk, Node.leaf (← Hex.decode k) (← parseVal kind v) :: pkids) :: rest)
      | [] => none
    | _ => none

def nodeKey : Node → Bytes
  | .leaf k _ => k
  | .obj k _ => k
  | .ns k => k

mutual
def keysSortedNode : Node → Bool
  | .leaf _ _ => true
  | .obj _ kids => strictlySorted (kids.map nodeKey) && keysSortedList kids
  | .ns _ => true
def keysSortedList : List Node → Bool
  | [] => true
  | n :: r => keysSortedNode n && keysSortedList r
end

def parseTree (s : String) : Option (List Node) :=
  if s == "." then some [] else
  match (s.splitOn "/").foldl treeStep (some [([], [])]) with
  | some [(_, kids)] =>
    if strictlySorted (kids.reverse.map nodeKey) && keysSortedList kids then some kids.reverse else none
  | _ => none

def insertNode (n : Node) : List Node → List Node
  | [] => [n]
  | m :: r => if bytesLt (nodeKey n) (nodeKey m) then n :: m :: r else m :: insertNode n r

def sortNodes (l : List Node) : List Node := l.foldl (fun acc n => insertNode n acc) []

def showVal : FVal → String
  | .str s => "s:" ++ Hex.encode s
  | .arr l => "a:" ++ showList l
  | .other t => "o:" ++ toString t
  | .skip => "skip"

mutual
def showNode : Node → List String
  | .leaf k v => ["l:" ++ Hex.encode k ++ ":" ++ showVal v]
  | .obj k kids => ["o:" ++ Hex.encode k] ++ showNodes kids ++ ["c"]
  | .ns k => ["n:" ++ Hex.encode k]
def showNodes : List Node → List String
  | [] => []
  | n :: r => showNode n ++ showNodes r
end

mutual
def sortDeepNode : Node → Node
  | .leaf k v => .leaf k v
  | .obj k kids => .obj k (sortNodes (sortDeepList kids))
  | .ns k => .ns k
def sortDeepList : List Node → List Node
  | [] => []
  | n :: r => sortDeepNode n :: sortDeepList r
end

def showTree (l : List Node) : String :=
  match showNodes (sortNodes (sortDeepList (nestList l))) with
  | [] => "."
  | toks => "/".intercalate toks

def parseBlocks (s : String) : Option (List OptBlock) :=
  if s == "." then some [] else
  (s.splitOn ";").mapM fun e =>
    match e.splitOn ":" with
    | [a, f] => do pure ⟨(← Hex.decode a), (← parseBool f)⟩
    | _ => none

def parseSites (s : String) : Option (List Srv) :=
  (s.splitOn ";").mapM fun e =>
    match e.splitOn ":" with
    | [ports, f] => do
      let l ← (ports.splitOn ",").mapM Hex.decode
      if l.any (·.isEmpty) then none else pure ⟨l, (← parseBool f)⟩
    | _ => none

def showB (b : Bool) : String := if b then "1" else "0"

def parseVars (s : String) : Option Vars :=
  if s == "." then some [] else do
    let rows ← (s.splitOn ";").mapM fun e =>
      match e.splitOn ":" with
      | [k, "s", v] => do pure ((← Hex.decode k), some (← Hex.decode v))
      | [k, "o"] => do pure ((← Hex.decode k), none)
      | _ => none
    if strictlySorted (rows.map (·.1)) then some rows else none

def showLaVal : LaVal → String
  | .s v => "ok s " ++ Hex.encode v
  | .nil => "ok nil"
  | .other => "ok other"

def handle : List String → String
  | ["la", v, vars, h, rh] =>
    match Hex.decode v, parseVars vars, parseHdr h, parseHdr rh with
    | some v, some vars, some h, some rh => showLaVal (logAppendValue (str "GET") (str "example.com") vars h rh v)
    | _, _, _, _ => "bad-op"
  | ["lax", k, h, rh] =>
    -- implementation-only taint run over replacer keys the model does not evaluate
    match Hex.decode k, parseHdr h, parseHdr rh with
    | some k, some _, some _ => if k.any isBrace then "bad-op" else "ok"
    | _, _, _ => "bad-op"
  | ["hdr", c, h] =>
    match parseBool c, parseHdr h with
    | some c, some h => "ok " ++ showHdr (loggableHeader h c)
    | _, _ => "bad-op"
  | ["req", c, remote, split, cip, proto, method, host, uri, h, te] =>
    match parseBool c, Hex.decode remote, parseSplit split, parseOptBytes cip, Hex.decode proto,
          Hex.decode method, Hex.decode host, Hex.decode uri, parseHdr h, parseOptList te with
    | some c, some remote, some _, some cip, some proto, some method, some host, some uri, some h, some te =>
      -- the <split> field is only checked by the harness; the model computes net.SplitHostPort itself
      "ok " ++ showReq ⟨remote, CaddyModel.C10.splitHostPort remote, cip, proto, method, host, uri, h, te⟩ c
    | _, _, _, _, _, _, _, _, _, _ => "bad-op"
  | ["flt", filter, key, kind, val, tables] =>
    match parseFilter filter, Hex.decode key, parseVal kind val, parseTables tables with
    | some f, some k, some v, some t => "ok " ++ showField (applyFilter (oraclesOf t) f ⟨k, v⟩)
    | _, _, _, _ => "bad-op"
  | ["opts", blocks, sites] =>
    match parseBlocks blocks, parseSites sites with
    | some bs, some ss =>
      " ".intercalate ("ok" :: ss.map fun s => showB (applyOpts bs s).1 ++ showB (applyOpts bs s).2 ++ showB (effectiveCreds (applyOpts bs s)))
    | _, _ => "bad-op"
  | ["fenc", nwith, cfg, tree, tables] =>
    match nwith.toNat?, parseCfg cfg, parseTree tree, parseTables tables with
    | some _, some cfg, some tree, some t => "ok " ++ showTree (filterEncode (oraclesOf t) cfg tree)
    | _, _, _, _ => "bad-op"
  | ["fenc2", nwith, outer, inner, tree] =>
    match nwith.toNat?, parseCfg outer, parseCfg inner, parseTree tree with
    | some _, some co, some ci, some tree => "ok " ++ showTree (filterEncode2 (oraclesOf {}) co ci tree)
    | _, _, _, _ => "bad-op"
  | ["site", c, e, hc, rw, route, status, remote, qs, tin, tadd, tset, tup, tmid, tout, tupo, tresp] =>
    match parseBool c, hostClass hc, parseRoute route, parseHdr tin, parseHdr tmid, parseHdr tout,
          parseHdr tupo, parseHdr tresp with
    | some c, some (skip, names), some route, some tin, some tmid, some tout, some tupo, some tresp =>
      if (e == "0" || e == "1" || e == "2") && (rw == "0" || rw == "1" || rw == "2")
          && status.toNat?.isSome && (Hex.decode remote).isSome && (Hex.decode qs).isSome
          && (parseHdr tadd).isSome && (parseHdr tset).isSome && (parseHdr tup).isSome then
        " ".intercalate ("ok" :: (siteEntries ⟨c, skip, names, rw == "1", route, tin, tmid, tout, tupo, tresp⟩).map showEntry)
      else "bad-op"
    | _, _, _, _, _, _, _, _ => "bad-op"
  | _ => "bad-op"

end CaddyModel.C20

namespace CaddyModel.C20
/-- counter-example lines replayed on the implementation on every run (see Witness.lean):
    1 hash on an integer field (passed through)                             hash_full_fails
    2 cookie filter on a string field (passed through)                      hash_full_fails
    3 filter encoder: `first_error>msg → delete` does not run for a field under zap.Namespace("first_error")   fenc_namespace_full_fails
    (the former query / ip_mask / trailer / filter-encoder witnesses are regression cases in corpus/C20/ now) -/
def witnessLines : List String := [
  "C20 flt hash 737461747573 o 0 .",
  "C20 flt cookie:d,736964,- 636f6f6b6965 s 7369643d3031323334353637383961626364656630313233343536373839616263646566 .",
  "C20 fenc 0 66697273745f6572726f723e6d7367@delete n:66697273745f6572726f72/l:6d7367:s:757073747265616d2073616964203031323334353637383961626364656630313233343536373839616263646566 ."]
end CaddyModel.C20
