/-
C20 — the producer/consumer contract between `LoggableHTTPRequest` (producer of `remote_ip`) and the
`ip_mask` filter (consumer): whatever peer address net/http delivers, `remote_ip` is the bare address — no
brackets, no port — i.e. a value `net.ParseIP` accepts once the zone is cut off, so the mask applies.

`RemoteAddr` is `net.JoinHostPort(ip+zone, port)` for TCP peers (`TCPAddr.String()`), and `@` or the empty
string for the peer of a unix socket.
-/
import CaddyModel.C20.Model
import CaddyModel.C10.Glue

namespace CaddyModel.C20

open CaddyModel.C10 (splitHostPort indexByte lastIndexByte colon lbr rbr)

theorem indexByte_append_cons (c : UInt8) : ∀ (a b : Bytes), c ∉ a → indexByte c (a ++ c :: b) = some a.length
  | [], b, _ => by simp [indexByte]
  | x :: a, b, h => by
    have hx : x ≠ c := fun e => h (by simp [e])
    have ha : c ∉ a := fun m => h (by simp [m])
    simp [indexByte, hx, indexByte_append_cons c a b ha]

theorem lastIndexByte_none' (c : UInt8) : ∀ (s : Bytes), c ∉ s → lastIndexByte c s = none
  | [], _ => rfl
  | x :: s, h => by
    have hx : x ≠ c := fun e => h (by simp [e])
    have hs : c ∉ s := fun m => h (by simp [m])
    simp [lastIndexByte, lastIndexByte_none' c s hs, hx]

theorem lastIndexByte_append_cons (c : UInt8) : ∀ (a b : Bytes), c ∉ b → lastIndexByte c (a ++ c :: b) = some a.length
  | [], b, h => by simp [lastIndexByte, lastIndexByte_none' c b h]
  | x :: a, b, h => by simp [lastIndexByte, lastIndexByte_append_cons c a b h]

/-- a TCP peer whose address has no colon (IPv4): `ip:port` -/
theorem splitHostPort_plain_peer (ip port : Bytes)
    (hi : (58 : UInt8) ∉ ip ∧ (91 : UInt8) ∉ ip ∧ (93 : UInt8) ∉ ip)
    (hp : (58 : UInt8) ∉ port ∧ (91 : UInt8) ∉ port ∧ (93 : UInt8) ∉ port) :
    splitHostPort (ip ++ 58 :: port) = some (ip, port) := by
  unfold splitHostPort
  have hl := lastIndexByte_append_cons 58 ip port hp.1
  simp only [colon] at *
  rw [hl]
  have hhead : (ip ++ (58 : UInt8) :: port).head? ≠ some lbr := by
    cases ip with
    | nil => simp [lbr]
    | cons x r =>
      simp [lbr]
      intro e
      exact hi.2.1 (by simp [e])
  simp only [hhead, if_false]
  simp [List.take_left', hi.1, hi.2.1, hi.2.2, hp.2.1, hp.2.2, lbr, rbr]

/-- a TCP peer whose address contains colons (IPv6, with or without a zone): `[ip]:port` -/
theorem splitHostPort_bracketed_peer (ip port : Bytes)
    (hi : (91 : UInt8) ∉ ip ∧ (93 : UInt8) ∉ ip)
    (hp : (58 : UInt8) ∉ port ∧ (91 : UInt8) ∉ port ∧ (93 : UInt8) ∉ port) :
    splitHostPort (91 :: (ip ++ 93 :: 58 :: port)) = some (ip, port) := by
  unfold splitHostPort
  have hl : lastIndexByte 58 (91 :: (ip ++ 93 :: 58 :: port)) = some (ip.length + 2) := by
    have := lastIndexByte_append_cons 58 (91 :: (ip ++ [93])) port hp.1
    simpa using this
  have hr : indexByte 93 (91 :: (ip ++ 93 :: 58 :: port)) = some (ip.length + 1) := by
    have := indexByte_append_cons 93 (91 :: ip) (58 :: port) (by simp [hi.2])
    simpa using this
  simp only [colon, rbr] at *
  rw [hl, hr]
  simp [lbr, hi.1, hp.2.1, hp.2.2, List.take_left']

/-- `net.JoinHostPort(ip, port)` — how net/http renders the peer of a TCP connection — is undone by the
    `net.SplitHostPort` in `LoggableHTTPRequest.MarshalLogObject`: brackets and port never reach `remote_ip` -/
theorem splitHostPort_joinHostPort (ip port : Bytes)
    (hi : (91 : UInt8) ∉ ip ∧ (93 : UInt8) ∉ ip)
    (hp : (58 : UInt8) ∉ port ∧ (91 : UInt8) ∉ port ∧ (93 : UInt8) ∉ port) :
    splitHostPort (joinHostPort ip port) = some (ip, port) := by
  unfold joinHostPort
  cases hc : ip.contains 58 with
  | true =>
    simp only [if_true]
    have := splitHostPort_bracketed_peer ip port hi hp
    simpa using this
  | false =>
    simp only [Bool.false_eq_true, if_false]
    have h58 : (58 : UInt8) ∉ ip := by simpa using hc
    have := splitHostPort_plain_peer ip port ⟨h58, hi.1, hi.2⟩ hp
    simpa using this

/-! ### the contract -/

/-- **producer.** For a TCP peer `ip` (IPv4, IPv6, IPv6 with zone, IPv4-mapped — anything without brackets) and
    `port`, `RemoteAddr = net.JoinHostPort(ip, port)` and the request object's `remote_ip` is exactly `ip`:
    no brackets, no port. -/
theorem remote_ip_is_bare_address (r : Req) (ip port : Bytes)
    (hsplit : r.split = splitHostPort r.remoteAddr) (haddr : r.remoteAddr = joinHostPort ip port)
    (hi : (91 : UInt8) ∉ ip ∧ (93 : UInt8) ∉ ip)
    (hp : (58 : UInt8) ∉ port ∧ (91 : UInt8) ∉ port ∧ (93 : UInt8) ∉ port) :
    remoteIP r = ip ∧ remotePort r = port := by
  unfold remoteIP remotePort
  rw [hsplit, haddr, splitHostPort_joinHostPort ip port hi hp]
  simp

/-- the peer of a unix socket (`@`, or the empty string): `remote_ip` is that string, `remote_port` is empty -/
theorem remote_ip_of_unix_peer (r : Req) (hsplit : r.split = splitHostPort r.remoteAddr)
    (hc : (58 : UInt8) ∉ r.remoteAddr) : remoteIP r = r.remoteAddr ∧ remotePort r = [] := by
  have : splitHostPort r.remoteAddr = none := by
    unfold splitHostPort
    simp only [colon]
    rw [lastIndexByte_none' 58 r.remoteAddr hc]
  unfold remoteIP remotePort
  rw [hsplit, this]
  simp

/-- **consumer.** …hence an `ip_mask` filter on `request>remote_ip` applies to every TCP peer: if `net.ParseIP`
    accepts the bare address (zone cut off), what is logged is the masked address — never the peer's. -/
theorem remote_ip_mask_applies (o : Oracles) (m4 m6 : Option (List UInt8)) (r : Req) (ip port : Bytes) (a : IPAddr)
    (hsplit : r.split = splitHostPort r.remoteAddr) (haddr : r.remoteAddr = joinHostPort ip port)
    (hi : (91 : UInt8) ∉ ip ∧ (93 : UInt8) ∉ ip)
    (hp : (58 : UInt8) ∉ port ∧ (91 : UInt8) ∉ port ∧ (93 : UInt8) ∉ port)
    (hshp : o.shp ip = none) (hparse : o.parseIP (cutZone ip) = some a) :
    maskValue o m4 m6 (remoteIP r) = o.ipStr (maskedOf m4 m6 a) := by
  rw [(remote_ip_is_bare_address r ip port hsplit haddr hi hp).1]
  simp [maskValue, hostOf, portOf, hshp, hparse]

/-- **observation on the unchanged tree: the filter fails open.** A value `net.ParseIP` does not accept is
    emitted unchanged — which is what turns a producer that hands over `[2001:db8::1]` (brackets kept) into a
    leak of the full client address through the filter. -/
theorem ipmask_emits_unparsable_value_unchanged (o : Oracles) (m4 m6 : Option (List UInt8)) (v : Bytes)
    (h : o.parseIP (cutZone (hostOf o v)) = none) : maskValue o m4 m6 v = v := by
  simp [maskValue, h]

/-- what the standard library answers around `2001:db8::1`: the bare address parses, the bracketed one does not -/
def wB : Oracles where
  H := id
  trim := id
  shp := splitHostPort
  parseIP := fun s => if s = str "2001:db8::1" then
    some (.v6 [0x20, 0x01, 0x0d, 0xb8, 0, 0, 0, 0, 0, 0, 0, 0, 0, 0, 0, 1]) else none
  ipStr := fun m => if m = some [0x20, 0x01, 0x0d, 0xb8, 0, 0, 0, 0, 0, 0, 0, 0, 0, 0, 0, 0] then str "2001:db8::" else str "?"
  parseURL := fun _ => none
  parseQuery := fun _ => []
  cookies := fun _ => []
  reSpans := fun _ => []

/-- witness: the producer's value is masked, the bracketed variant would be logged in full -/
theorem remote_ip_brackets_would_leak :
    splitHostPort (joinHostPort (str "2001:db8::1") (str "443")) = some (str "2001:db8::1", str "443") ∧
    maskValue wB (cidr4 16) (cidr6 32) (str "2001:db8::1") = str "2001:db8::" ∧
    maskValue wB (cidr4 16) (cidr6 32) (str "[2001:db8::1]") = str "[2001:db8::1]" := by decide

example : joinHostPort (str "fe80::1%eth0") (str "9") = str "[fe80::1%eth0]:9" ∧
    joinHostPort (str "10.1.2.3") (str "80") = str "10.1.2.3:80" := by decide

end CaddyModel.C20
