/-
C20 — helper lemmas.
-/
import CaddyModel.C20.Spec

namespace CaddyModel.C20

/-! ### case folding -/

theorem lowerByte_lt {b : UInt8} (h : lowerByte b < 128) : b < 128 := by
  unfold lowerByte at h
  split at h
  · rename_i hb
    have := hb.2
    exact Nat.lt_of_le_of_lt (UInt8.le_iff_toNat_le.mp this) (by decide)
  · exact h

/-- on ASCII keys `foldName` is plain ASCII lower-casing -/
theorem foldAux_ascii : ∀ (k : Bytes), (∀ b ∈ k, b < 128) → foldAux 0 k = k.map lowerByte
  | [], _ => by simp [foldAux]
  | a :: r, h => by
    have ha : a < 128 := h a (by simp)
    have h1 : a ≠ 0xE2 := by intro e; subst e; exact absurd ha (by decide)
    have h2 : a ≠ 0xC4 := by intro e; subst e; exact absurd ha (by decide)
    have ih := foldAux_ascii r (fun b hb => h b (by simp [hb]))
    simp [foldAux, h1, h2, ih]

theorem credNames_ascii : ∀ n ∈ credNames, ∀ b ∈ n, b < 128 := by decide

theorem credNames_no_colon : ∀ n ∈ credNames, (58 : UInt8) ∉ n := by decide

/-- a key without `:` does not start with `Trailer:` -/
theorem stripTrailer_no_colon (k : Bytes) (h : (58 : UInt8) ∉ k) : stripTrailer k = k := by
  unfold stripTrailer
  split
  · rename_i hp
    rcases List.isPrefixOf_iff_prefix.mp hp with ⟨t, rfl⟩
    exact absurd (by simp [trailerPrefix, str]) h
  · rfl

theorem stripTrailer_prefixed (k : Bytes) : stripTrailer (trailerPrefix ++ k) = k := by
  unfold stripTrailer
  have : trailerPrefix.isPrefixOf (trailerPrefix ++ k) = true :=
    List.isPrefixOf_iff_prefix.mpr (List.prefix_append _ _)
  simp [this]

/-! ### header objects -/

theorem loggableHeader_eq_spec (h : Hdr) : loggableHeader h false = redactSpec h := by
  unfold loggableHeader redactSpec logVal
  apply List.map_congr_left
  intro kv _
  cases hc : isCred kv.1 <;> simp

theorem loggableHeader_creds (h : Hdr) : loggableHeader h true = h := by
  unfold loggableHeader logVal
  simp

theorem mem_loggableHeader {h : Hdr} {c : Bool} {kv : Bytes × List Bytes} (hm : kv ∈ loggableHeader h c) :
    ∃ v, (kv.1, v) ∈ h ∧ kv.2 = logVal c kv.1 v := by
  unfold loggableHeader at hm
  rcases List.mem_map.mp hm with ⟨⟨k, v⟩, hin, rfl⟩
  exact ⟨v, hin, rfl⟩

/-- the core of the taint argument: nothing `Bad` in a header object that was built without credentials -/
theorem loggableHeader_clean (Bad : Bytes → Prop) (h : Hdr) (hh : OnlyInCreds Bad h)
    (hred : ¬ Bad (str "REDACTED")) :
    ∀ b ∈ hdrStrings (loggableHeader h false), ¬ Bad b := by
  intro b hb
  unfold hdrStrings at hb
  rcases List.mem_flatMap.mp hb with ⟨kv, hkv, hb⟩
  rcases mem_loggableHeader hkv with ⟨v, hin, hval⟩
  have := hh (kv.1, v) hin
  rcases List.mem_cons.mp hb with rfl | hb
  · exact this.1
  · rw [hval] at hb
    unfold logVal at hb
    cases hc : isCred kv.1
    · simp [hc] at hb
      exact this.2 hc b hb
    · simp [hc, redactedVal] at hb
      subst hb
      exact hred

/-! ### query actions -/

theorem applyAct_untouched (H : Bytes → Bytes) (q : List (Bytes × List Bytes)) (a : Act) (kv : Bytes × List Bytes)
    (hm : kv ∈ applyAct H q a) (hk : kv.1 ≠ a.name) : kv ∈ q := by
  unfold applyAct at hm
  cases ht : a.typ <;> simp [ht] at hm
  · rcases hm with ⟨k, v, hin, heq⟩
    split at heq
    · rename_i hkn; subst heq; exact absurd hkn hk
    · subst heq; exact hin
  · rcases hm with ⟨k, v, hin, heq⟩
    split at heq
    · rename_i hkn; subst heq; exact absurd hkn hk
    · subst heq; exact hin
  · exact hm.1

theorem applyAct_touched (H : Bytes → Bytes) (q : List (Bytes × List Bytes)) (a : Act) (kv : Bytes × List Bytes)
    (hm : kv ∈ applyAct H q a) (hk : kv.1 = a.name) : ∀ v ∈ kv.2, v = a.value ∨ v = H a.value := by
  unfold applyAct at hm
  cases ht : a.typ <;> simp [ht] at hm
  · rcases hm with ⟨k, v, hin, heq⟩
    split at heq
    · subst heq
      intro x hx
      simp at hx
      exact Or.inl hx.2.symm
    · rename_i hkn; subst heq; exact absurd hk hkn
  · rcases hm with ⟨k, v, hin, heq⟩
    split at heq
    · subst heq
      intro x hx
      simp at hx
      exact Or.inr hx.2.symm
    · rename_i hkn; subst heq; exact absurd hk hkn
  · exact absurd hk hm.2

theorem applyActs_untouched (H : Bytes → Bytes) : ∀ (acts : List Act) (q : List (Bytes × List Bytes)) (kv : Bytes × List Bytes),
    kv ∈ applyActs H acts q → hiddenBy acts kv.1 = false → kv ∈ q
  | [], q, kv, hm, _ => by simpa [applyActs] using hm
  | a :: rest, q, kv, hm, hh => by
    have hh' : ¬ (a.name = kv.1) ∧ hiddenBy rest kv.1 = false := by
      simpa [hiddenBy] using hh
    have := applyActs_untouched H rest (applyAct H q a) kv (by simpa [applyActs] using hm) hh'.2
    exact applyAct_untouched H q a kv this (fun e => hh'.1 e.symm)

theorem applyActs_hidden (H : Bytes → Bytes) : ∀ (acts : List Act) (q : List (Bytes × List Bytes)) (kv : Bytes × List Bytes),
    kv ∈ applyActs H acts q → hiddenBy acts kv.1 = true → ∀ v ∈ kv.2, v ∈ actConsts H acts
  | [], _, _, _, hh => by simp [hiddenBy] at hh
  | a :: rest, q, kv, hm, hh => by
    have hm' : kv ∈ applyActs H rest (applyAct H q a) := by simpa [applyActs] using hm
    intro v hv
    cases hr : hiddenBy rest kv.1
    · -- only `a` names this key: later actions leave the entry alone
      have hin := applyActs_untouched H rest _ kv hm' hr
      have hk : kv.1 = a.name := by
        have : a.name = kv.1 ∨ hiddenBy rest kv.1 = true := by simpa [hiddenBy] using hh
        rcases this with h | h
        · exact h.symm
        · rw [hr] at h; cases h
      rcases applyAct_touched H q a kv hin hk v hv with h | h <;> simp [actConsts, h]
    · have := applyActs_hidden H rest _ kv hm' hr v hv
      simp [actConsts] at this ⊢
      exact Or.inr (Or.inr this)

/-! ### strings.Cut -/

theorem cutAt_none (c : UInt8) : ∀ s, cutAt c s = none → c ∉ s
  | [], _ => by simp
  | b :: r, h => by
    unfold cutAt at h
    split at h
    · cases h
    · rename_i hb
      cases hr : cutAt c r with
      | none =>
        have := cutAt_none c r hr
        simp
        exact ⟨fun e => hb e.symm, this⟩
      | some xy => simp [hr] at h

theorem cutAt_some (c : UInt8) : ∀ s x y, cutAt c s = some (x, y) → s = x ++ c :: y ∧ c ∉ x
  | [], _, _, h => by simp [cutAt] at h
  | b :: r, x, y, h => by
    unfold cutAt at h
    split at h
    · rename_i hb
      simp at h
      rcases h with ⟨rfl, rfl⟩
      simp [hb]
    · rename_i hb
      cases hr : cutAt c r with
      | none => simp [hr] at h
      | some xy =>
        rcases xy with ⟨x', y'⟩
        simp [hr] at h
        rcases h with ⟨rfl, rfl⟩
        have := cutAt_some c r x' y' hr
        refine ⟨by rw [this.1]; simp, ?_⟩
        simp
        exact ⟨fun e => hb e.symm, this.2⟩

/-! ### cookies -/

theorem cookieAct_some (H : Bytes → Bytes) : ∀ (acts : List Act) (c c' : Cookie), cookieAct H acts c = some c' →
    c'.name = c.name ∧
    ((hiddenBy acts c.name = false ∧ c' = c) ∨
     (∃ a ∈ acts, a.name = c.name ∧ (c'.value = a.value ∨ c'.value = H c.value)))
  | [], c, c', h => by
    simp [cookieAct] at h
    subst h
    simp [hiddenBy]
  | a :: rest, c, c', h => by
    unfold cookieAct at h
    split at h
    · rename_i hne
      rcases cookieAct_some H rest c c' h with ⟨h1, h2 | ⟨a', ha', h3⟩⟩
      · refine ⟨h1, Or.inl ⟨?_, h2.2⟩⟩
        have : ¬ a.name = c.name := fun e => hne e.symm
        simp [hiddenBy, this]
        simpa [hiddenBy] using h2.1
      · exact ⟨h1, Or.inr ⟨a', by simp [ha'], h3⟩⟩
    · rename_i heq
      have heq : c.name = a.name := by simpa using heq
      cases ht : a.typ <;> simp [ht] at h
      · subst h
        exact ⟨rfl, Or.inr ⟨a, by simp, heq.symm, Or.inl rfl⟩⟩
      · subst h
        exact ⟨rfl, Or.inr ⟨a, by simp, heq.symm, Or.inr rfl⟩⟩

/-! ### regexp -/

theorem take_drop_congr (l1 l2 : Bytes) (a n : Nat)
    (h : ∀ i, a ≤ i → i < a + n → l1[i]? = l2[i]?) : (l1.drop a).take n = (l2.drop a).take n := by
  apply List.ext_getElem?
  intro i
  simp only [List.getElem?_take, List.getElem?_drop]
  split
  · apply h <;> omega
  · rfl

theorem drop_congr (l1 l2 : Bytes) (a : Nat) (h : ∀ i, a ≤ i → l1[i]? = l2[i]?) : l1.drop a = l2.drop a := by
  apply List.ext_getElem?
  intro i
  simp only [List.getElem?_drop]
  apply h; omega

theorem wfSpans_ge : ∀ (spans : List Span) (last : Nat), wfSpans last spans = true → ∀ sp ∈ spans, last ≤ sp.s
  | [], _, _, _, h => by simp at h
  | sp0 :: r, last, hw, sp, hm => by
    simp [wfSpans] at hw
    rcases List.mem_cons.mp hm with rfl | hm
    · exact hw.1.1
    · have := wfSpans_ge r sp0.e hw.2 sp hm
      omega

theorem reLoop_congr (src1 src2 : Bytes) : ∀ (spans : List Span) (last : Nat), wfSpans last spans = true →
    (∀ i, last ≤ i → covered spans i = false → src1[i]? = src2[i]?) →
    reLoop src1 spans last = reLoop src2 spans last
  | [], last, _, h => by
    simp only [reLoop]
    exact drop_congr _ _ _ (fun i hi => h i hi (by simp [covered]))
  | sp :: r, last, hw, h => by
    have hw' := hw
    simp [wfSpans] at hw'
    simp only [reLoop]
    have h1 : (src1.drop last).take (sp.s - last) = (src2.drop last).take (sp.s - last) := by
      apply take_drop_congr
      intro i hi1 hi2
      apply h i hi1
      simp only [covered, List.any_cons, Bool.or_eq_false_iff]
      constructor
      · simp; omega
      · simp only [List.any_eq_false]
        intro sp' hsp'
        have := wfSpans_ge r sp.e hw'.2 sp' hsp'
        simp; omega
    have h2 := reLoop_congr src1 src2 r sp.e hw'.2 (by
      intro i hi hc
      apply h i (by omega)
      simp only [covered, List.any_cons, Bool.or_eq_false_iff]
      constructor
      · simp; omega
      · exact hc)
    rw [h1, h2]

/-! ### ip_mask: the trailing `, ` glue -/

theorem splitOn_ne_nil (c : UInt8) : ∀ s, splitOn c s ≠ []
  | [] => by simp [splitOn]
  | b :: r => by
    unfold splitOn
    split
    · simp
    · split <;> simp

theorem flatten_sep (sep : Bytes) : ∀ (l : List Bytes), l ≠ [] →
    (l.map (· ++ sep)).flatten = sep.intercalate l ++ sep
  | [], h => absurd rfl h
  | [x], _ => by simp [List.intercalate]
  | x :: y :: r, _ => by
    have ih := flatten_sep sep (y :: r) (by simp)
    simp only [List.map_cons, List.flatten_cons] at ih ⊢
    rw [ih]
    simp [List.intercalate, List.intersperse]

theorem trimSuffix_append (x sep : Bytes) : trimSuffix (x ++ sep) sep = x := by
  unfold trimSuffix
  have : sep.isSuffixOf (x ++ sep) = true := by
    rw [List.isSuffixOf_iff_suffix]; exact List.suffix_append x sep
  simp [this]

theorem ipMaskStr_eq (o : Oracles) (m4 m6 : Option (List UInt8)) (s : Bytes) :
    ipMaskStr o m4 m6 s = commaSpace.intercalate ((splitOn 44 s).map fun p => maskValue o m4 m6 (o.trim p)) := by
  unfold ipMaskStr
  have h := flatten_sep commaSpace ((splitOn 44 s).map fun p => maskValue o m4 m6 (o.trim p))
    (by simpa using splitOn_ne_nil 44 s)
  rw [List.map_map] at h
  rw [show ((fun p => maskValue o m4 m6 (o.trim p) ++ commaSpace) = ((· ++ commaSpace) ∘ fun p => maskValue o m4 m6 (o.trim p))) from rfl, h]
  exact trimSuffix_append _ _
end CaddyModel.C20
