/-
C20 — theorems about the filter encoder's dispatch (`FEnc.lean`).
-/
import CaddyModel.C20.FEnc
import CaddyModel.C20.Spec

namespace CaddyModel.C20

/-! ### the flat view: one entry per field, with the prefix it is reached under -/

structure Flat where
  pre : Bytes          -- keyPrefix when the field reaches the encoder
  key : Bytes
  val : FVal
  isObj : Bool         -- the entry stands for an object (its fields follow)
deriving DecidableEq, Repr

/-- the value under which a `zap.Namespace` field shows in the flat view -/
def nsTag : Nat := 99

mutual
def flat3Node (pre : Bytes) : Node → List Flat
  | .leaf k v => [⟨pre, k, v, false⟩]
  | .obj k kids => ⟨pre, k, .other objTag, true⟩ :: flat3List (pre ++ k ++ pathSep) kids
  | .ns k => [⟨pre, k, .other nsTag, true⟩]     -- a structural entry; `pre` of the later fields is the encoder's, unchanged
def flat3List (pre : Bytes) : List Node → List Flat
  | [] => []
  | n :: r => flat3Node pre n ++ flat3List pre r
end

/-- what the property expects of one flattened field: an object entry stays, a field whose full path
    `pre ++ key` has a configured filter is replaced by that filter's result, any other field stays -/
def specStep (o : Oracles) (cfg : FCfg) (e : Flat) : List Flat :=
  if e.isObj then [e] else
  match lookupF cfg (e.pre ++ e.key) with
  | none => [e]
  | some f =>
    match (applyFilter o f ⟨e.key, e.val⟩).val with
    | .skip => []
    | v => [⟨e.pre, (applyFilter o f ⟨e.key, e.val⟩).key, v, false⟩]

mutual
/-- no filter is configured on the path of an object (then the flat view of the output is a `flatMap`) -/
def noObjFilterNode (cfg : FCfg) (pre : Bytes) : Node → Bool
  | .leaf _ _ => true
  | .obj k kids => (lookupF cfg (pre ++ k)).isNone && noObjFilterList cfg (pre ++ k ++ pathSep) kids
  | .ns _ => true
def noObjFilterList (cfg : FCfg) (pre : Bytes) : List Node → Bool
  | [] => true
  | n :: r => noObjFilterNode cfg pre n && noObjFilterList cfg pre r
end

theorem flat3_emitLeaf (pre : Bytes) (f : Field) :
    flat3List pre (emitLeaf f) = (match f.val with | .skip => [] | v => [⟨pre, f.key, v, false⟩]) := by
  unfold emitLeaf
  cases f.val <;> simp [flat3List, flat3Node]

theorem flat3List_append (pre : Bytes) : ∀ (a b : List Node), flat3List pre (a ++ b) = flat3List pre a ++ flat3List pre b
  | [], b => by simp [flat3List]
  | n :: r, b => by
    simp only [List.cons_append, flat3List, List.append_assoc]
    rw [flat3List_append pre r b]

mutual
theorem flat3_encNode (o : Oracles) (cfg : FCfg) (pre : Bytes) : ∀ (n : Node), noObjFilterNode cfg pre n = true →
    flat3List pre (encNode o cfg pre n) = (flat3Node pre n).flatMap (specStep o cfg)
  | .leaf k v, _ => by
    simp only [encNode, flat3Node, List.flatMap_cons, List.flatMap_nil, List.append_nil, specStep]
    cases h : lookupF cfg (pre ++ k) with
    | none => simp [flat3List, flat3Node]
    | some f =>
      simp only []
      rw [flat3_emitLeaf]
      cases (applyFilter o f ⟨k, v⟩).val <;> simp
  | .obj k kids, h => by
    simp only [noObjFilterNode, Bool.and_eq_true] at h
    have hl : lookupF cfg (pre ++ k) = none := by
      cases hh : lookupF cfg (pre ++ k) with
      | none => rfl
      | some f => simp [hh] at h
    simp only [encNode, hl, flat3Node, List.flatMap_cons, specStep]
    simp only [flat3List, flat3Node, List.append_nil]
    have ih := flat3_encList o cfg (pre ++ k ++ pathSep) kids h.2
    simp only [ih]
    simp
  | .ns k, _ => by simp [encNode, flat3Node, flat3List, specStep]
theorem flat3_encList (o : Oracles) (cfg : FCfg) (pre : Bytes) : ∀ (ns : List Node), noObjFilterList cfg pre ns = true →
    flat3List pre (encList o cfg pre ns) = (flat3List pre ns).flatMap (specStep o cfg)
  | [], _ => by simp [encList, flat3List]
  | n :: r, h => by
    simp only [noObjFilterList, Bool.and_eq_true] at h
    simp only [encList, flat3List, List.flatMap_append]
    rw [← flat3_encNode o cfg pre n h.1, ← flat3_encList o cfg pre r h.2]
    exact flat3List_append pre _ _
end

/-! ### property theorems -/

/-- **the filter encoder is per-path filtering.** When no filter sits on the path of an object, encoding an
    entry is exactly: walk its fields at every depth, and replace each field whose full path
    (`outer>…>key`, compared byte for byte) has a configured filter by that filter's result — applied once,
    to that field only; every other field, and the object structure, is unchanged.  It does not matter
    which fields came through `logger.With` and which with the entry. -/
theorem filter_encoder_is_per_path_filtering (o : Oracles) (cfg : FCfg) (fields : List Node)
    (h : noObjFilterList cfg [] fields = true) :
    flat3List [] (filterEncode o cfg fields) = (flat3List [] fields).flatMap (specStep o cfg) :=
  flat3_encList o cfg [] fields h

/-- how an emitted field `e'` relates to the input field `e` it stems from: untouched when no filter is
    configured on `e`'s full key path (or `e` is a namespace marker), otherwise the result of exactly that filter (for an object that
    the filter kept: the object under the key the filter gave it) -/
def StemsFrom (o : Oracles) (cfg : FCfg) (e e' : Flat) : Prop :=
  ((lookupF cfg (e.pre ++ e.key) = none ∨ e.val = .other nsTag) ∧ e'.key = e.key ∧ e'.val = e.val ∧ e'.isObj = e.isObj) ∨
  (∃ f, lookupF cfg (e.pre ++ e.key) = some f ∧ e'.key = (applyFilter o f ⟨e.key, e.val⟩).key ∧
        ((e.isObj = true ∧ e'.isObj = true) ∨ e'.val = (applyFilter o f ⟨e.key, e.val⟩).val))

theorem stems_emitLeaf (o : Oracles) (cfg : FCfg) (pre pre' k : Bytes) (v : FVal) (f : Filter)
    (hl : lookupF cfg (pre ++ k) = some f) :
    ∀ e' ∈ flat3List pre' (emitLeaf (applyFilter o f ⟨k, v⟩)), StemsFrom o cfg ⟨pre, k, v, false⟩ e' := by
  intro e' he'
  rw [flat3_emitLeaf] at he'
  cases hv : (applyFilter o f ⟨k, v⟩).val <;> simp [hv] at he' <;> subst he' <;>
    exact Or.inr ⟨f, hl, rfl, Or.inr hv.symm⟩

mutual
theorem stems_encNode (o : Oracles) (cfg : FCfg) : ∀ (pre pre' : Bytes) (n : Node),
    ∀ e' ∈ flat3List pre' (encNode o cfg pre n), ∃ e ∈ flat3Node pre n, StemsFrom o cfg e e'
  | pre, pre', .leaf k v => by
    intro e' he'
    simp only [encNode] at he'
    cases hl : lookupF cfg (pre ++ k) with
    | none =>
      simp [hl, flat3List, flat3Node] at he'
      subst he'
      exact ⟨⟨pre, k, v, false⟩, by simp [flat3Node], Or.inl ⟨Or.inl hl, rfl, rfl, rfl⟩⟩
    | some f =>
      simp only [hl] at he'
      exact ⟨⟨pre, k, v, false⟩, by simp [flat3Node], stems_emitLeaf o cfg pre pre' k v f hl e' he'⟩
  | pre, pre', .obj k kids => by
    intro e' he'
    simp only [encNode] at he'
    cases hl : lookupF cfg (pre ++ k) with
    | none =>
      simp only [hl, flat3List, flat3Node, List.append_nil, List.mem_cons] at he'
      rcases he' with rfl | he'
      · exact ⟨⟨pre, k, .other objTag, true⟩, by simp [flat3Node], Or.inl ⟨Or.inl hl, rfl, rfl, rfl⟩⟩
      · rcases stems_encList o cfg (pre ++ k ++ pathSep) (pre' ++ k ++ pathSep) kids e' he' with ⟨e, he, hs⟩
        exact ⟨e, by simpa [flat3Node, List.append_assoc] using Or.inr he, hs⟩
    | some f =>
      simp only [hl, emitObj] at he'
      cases hv : (applyFilter o f ⟨k, .other objTag⟩).val with
      | skip => simp [hv, flat3List] at he'
      | other t =>
        simp only [hv, flat3List, flat3Node, List.append_nil, List.mem_cons] at he'
        rcases he' with rfl | he'
        · exact ⟨⟨pre, k, .other objTag, true⟩, by simp [flat3Node],
            Or.inr ⟨f, hl, rfl, Or.inl ⟨rfl, rfl⟩⟩⟩
        · rcases stems_encList o cfg (pre ++ k ++ pathSep) _ kids e' he' with ⟨e, he, hs⟩
          exact ⟨e, by simpa [flat3Node, List.append_assoc] using Or.inr he, hs⟩
      | str x =>
        simp [hv, flat3List, flat3Node] at he'
        subst he'
        exact ⟨⟨pre, k, .other objTag, true⟩, by simp [flat3Node], Or.inr ⟨f, hl, rfl, Or.inr hv.symm⟩⟩
      | arr x =>
        simp [hv, flat3List, flat3Node] at he'
        subst he'
        exact ⟨⟨pre, k, .other objTag, true⟩, by simp [flat3Node], Or.inr ⟨f, hl, rfl, Or.inr hv.symm⟩⟩
  | pre, pre', .ns k => by
    intro e' he'
    simp [encNode, flat3List, flat3Node] at he'
    subst he'
    exact ⟨⟨pre, k, .other nsTag, true⟩, by simp [flat3Node], Or.inl ⟨Or.inr rfl, rfl, rfl, rfl⟩⟩
theorem stems_encList (o : Oracles) (cfg : FCfg) : ∀ (pre pre' : Bytes) (ns : List Node),
    ∀ e' ∈ flat3List pre' (encList o cfg pre ns), ∃ e ∈ flat3List pre ns, StemsFrom o cfg e e'
  | _, _, [] => by simp [encList, flat3List]
  | pre, pre', n :: r => by
    intro e' he'
    simp only [encList, flat3List_append, List.mem_append] at he'
    rcases he' with he' | he'
    · rcases stems_encNode o cfg pre pre' n e' he' with ⟨e, he, hs⟩
      exact ⟨e, by simp [flat3List, he], hs⟩
    · rcases stems_encList o cfg pre pre' r e' he' with ⟨e, he, hs⟩
      exact ⟨e, by simp [flat3List, he], hs⟩
end

/-- a field with a `delete` filter on its path contributes nothing, at any depth -/
theorem fenc_delete_hides_at_any_depth (o : Oracles) (cfg : FCfg) (e : Flat) (ho : e.isObj = false)
    (hf : lookupF cfg (e.pre ++ e.key) = some .delete) : specStep o cfg e = [] := by
  simp [specStep, ho, hf, applyFilter]

/-- a field with a `replace` filter on its path contributes exactly the replacement, at any depth -/
theorem fenc_replace_hides_at_any_depth (o : Oracles) (cfg : FCfg) (e : Flat) (v : Bytes) (ho : e.isObj = false)
    (hf : lookupF cfg (e.pre ++ e.key) = some (.replace v)) : specStep o cfg e = [⟨e.pre, e.key, .str v, false⟩] := by
  simp [specStep, ho, hf, applyFilter]

mutual
theorem encNode_no_config (o : Oracles) (pre : Bytes) : ∀ n, encNode o [] pre n = [n]
  | .leaf k v => by simp [encNode, lookupF]
  | .obj k kids => by
    have ih := encList_no_config o (pre ++ k ++ pathSep) kids
    simp only [encNode, lookupF, List.find?_nil, Option.map_none, ih]
  | .ns k => by simp [encNode]
theorem encList_no_config (o : Oracles) (pre : Bytes) : ∀ ns, encList o [] pre ns = ns
  | [] => by simp [encList]
  | n :: r => by simp [encList, encNode_no_config o pre n, encList_no_config o pre r]
end

/-- without configured fields the filter encoder is the wrapped encoder -/
theorem fenc_no_config_identity (o : Oracles) (fields : List Node) : filterEncode o [] fields = fields :=
  encList_no_config o [] fields

/-- **every field meets the filter of its own path, wherever it is nested** (full strength, no exclusion):
    each field of the encoded entry stems from an input field and is either that field untouched — and then
    no filter is configured on its original full path — or the result of exactly the filter configured on
    that path; in particular a filter on an enclosing object (rename, or one that does not apply to objects)
    does not switch the filters inside it off. -/
theorem fenc_every_field_stems_from_its_path_filter (o : Oracles) (cfg : FCfg) (fields : List Node) :
    ∀ e' ∈ flat3List [] (filterEncode o cfg fields), ∃ e ∈ flat3List [] fields, StemsFrom o cfg e e' :=
  stems_encList o cfg [] [] fields

/-- an object that its own filter keeps is emitted under the key the filter gave it, with the fields inside
    encoded under the ORIGINAL key path -/
theorem fenc_kept_object_still_filters_inside (o : Oracles) (cfg : FCfg) (pre k : Bytes) (kids : List Node)
    (f : Filter) (t : Nat) (hl : lookupF cfg (pre ++ k) = some f)
    (hk : (applyFilter o f ⟨k, .other objTag⟩).val = .other t) :
    encNode o cfg pre (.obj k kids) =
      [.obj (applyFilter o f ⟨k, .other objTag⟩).key (encList o cfg (pre ++ k ++ pathSep) kids)] := by
  simp [encNode, hl, emitObj, hk]

/-- Why fix 5e69734 was needed (non-vacuity of the object case of `fenc_every_field_stems_from_its_path_filter`):
    the OLD dispatch handed an object that its own filter kept straight to the wrapped encoder, so no filter
    configured on a path inside it ran: `request → rename rq` switched `request>uri → delete` off and the URI
    was logged; the dispatch as it is now emits `rq{}`. -/
theorem fenc_object_filter_old_code_fails :
    ∃ (o : Oracles) (cfg : FCfg) (fields : List Node) (secret : Bytes),
      lookupF cfg (str "request>uri") = some .delete ∧
      flat3List [] fields = [⟨[], str "request", .other objTag, true⟩, ⟨str "request>", str "uri", .str secret, false⟩] ∧
      flat3List [] (encListOld o cfg [] fields) =
        [⟨[], str "rq", .other objTag, true⟩, ⟨str "rq>", str "uri", .str secret, false⟩] ∧
      flat3List [] (filterEncode o cfg fields) = [⟨[], str "rq", .other objTag, true⟩] :=
  ⟨⟨id, id, fun _ => none, fun _ => none, fun _ => [], fun _ => none, fun _ => [], fun _ => [], fun _ => []⟩,
   [(str "request", .rename (str "rq")), (str "request>uri", .delete)],
   [.obj (str "request") [.leaf (str "uri") (.str (str "SECRET"))]], str "SECRET", by decide⟩

/-! ### namespaces: the path a field is SHOWN under vs. the key path it is looked up under -/

/-- what a field adds to the visible path of the LATER fields of its level -/
def nsExt : Node → Bytes
  | .ns k => k ++ pathSep
  | _ => []

mutual
/-- the leaves of an entry with the path they are nested under in the written entry — what the documented
    `outer>inner` addressing of `fields` refers to: objects AND open namespaces are levels -/
def visNode (vis : Bytes) : Node → List (Bytes × FVal)
  | .leaf k v => [(vis ++ k, v)]
  | .obj k kids => visList (vis ++ k ++ pathSep) kids
  | .ns _ => []
def visList (vis : Bytes) : List Node → List (Bytes × FVal)
  | [] => []
  | n :: r => visNode vis n ++ visList (vis ++ nsExt n) r
end

mutual
/-- the entry contains no `zap.Namespace` field (explicit, decidable exclusion) -/
def noNsNode : Node → Bool
  | .leaf _ _ => true
  | .obj _ kids => noNsList kids
  | .ns _ => false
def noNsList : List Node → Bool
  | [] => true
  | n :: r => noNsNode n && noNsList r
end

/-- the leaf entries of the flat view with their key path -/
def keyPathLeaves (l : List Flat) : List (Bytes × FVal) :=
  l.filterMap fun e => if e.isObj then none else some (e.pre ++ e.key, e.val)

theorem keyPathLeaves_append (a b : List Flat) : keyPathLeaves (a ++ b) = keyPathLeaves a ++ keyPathLeaves b := by
  simp [keyPathLeaves]

mutual
theorem vis_eq_key_path_node (pre : Bytes) : ∀ (n : Node), noNsNode n = true →
    visNode pre n = keyPathLeaves (flat3Node pre n)
  | .leaf k v, _ => by simp [visNode, flat3Node, keyPathLeaves]
  | .obj k kids, h => by
    simp only [noNsNode] at h
    simp only [visNode, flat3Node]
    rw [vis_eq_key_path_list (pre ++ k ++ pathSep) kids h]
    simp [keyPathLeaves]
  | .ns _, h => by simp [noNsNode] at h
theorem vis_eq_key_path_list (pre : Bytes) : ∀ (ns : List Node), noNsList ns = true →
    visList pre ns = keyPathLeaves (flat3List pre ns)
  | [], _ => by simp [visList, flat3List, keyPathLeaves]
  | n :: r, h => by
    simp only [noNsList, Bool.and_eq_true] at h
    have hext : nsExt n = [] := by
      cases n with
      | ns k => simp [noNsNode] at h
      | leaf k v => rfl
      | obj k kids => rfl
    simp only [visList, flat3List, keyPathLeaves_append, hext, List.append_nil]
    rw [vis_eq_key_path_node pre n h.1, vis_eq_key_path_list pre r h.2]
end

/-- **without namespaces the key path is the visible path** (`…_partial`): for an entry that contains no
    `zap.Namespace` field, the path under which the encoder looks a field up (and about which
    `fenc_every_field_stems_from_its_path_filter` speaks) is the path under which the field is shown. -/
theorem fenc_key_path_is_visible_path_partial (fields : List Node) (h : noNsList fields = true) :
    visList [] fields = keyPathLeaves (flat3List [] fields) :=
  vis_eq_key_path_list [] fields h

/-- FULL STATEMENT (false on the unchanged tree): the same without the exclusion — a filter configured for the
    path a field is shown under is the filter the field meets.  Refuted: `OpenNamespace` is only forwarded to
    the wrapped encoder, the key path is not extended; the error log of a failed error route is
    `{…, "first_error": {"msg": …}}`, yet `first_error>msg → delete` never runs and the message is logged. -/
theorem fenc_namespace_full_fails :
    ∃ (o : Oracles) (cfg : FCfg) (fields : List Node) (secret : Bytes),
      visList [] fields = [(str "first_error>msg", .str secret)] ∧
      lookupF cfg (str "first_error>msg") = some .delete ∧ noNsList fields = false ∧
      keyPathLeaves (flat3List [] fields) = [(str "msg", .str secret)] ∧
      listStrings (filterEncode o cfg fields) = [str "first_error", str "msg", secret] :=
  ⟨⟨id, id, fun _ => none, fun _ => none, fun _ => [], fun _ => none, fun _ => [], fun _ => [], fun _ => []⟩,
   [(str "first_error>msg", .delete)], [.ns (str "first_error"), .leaf (str "msg") (.str (str "SECRET"))],
   str "SECRET", by decide⟩

/-! ### a filter encoder wrapped in a filter encoder -/

/-- **wrapping composes** (full strength): a filter encoder wrapped in a filter encoder is the inner encoder
    applied to what the outer encoder emits — every field meets the inner filter of its own key path, at any
    depth (`fenc_every_field_stems_from_its_path_filter` applies to each stage). -/
theorem fenc_wrapped_encoder_composes (o : Oracles) (outer inner : FCfg) (fields : List Node) :
    filterEncode2 o outer inner fields = filterEncode o inner (filterEncode o outer fields) := rfl

/-- …so each field of the result stems, through the inner filter of its path, from a field the outer encoder emitted -/
theorem fenc_wrapped_encoder_inner_filters_by_path (o : Oracles) (outer inner : FCfg) (fields : List Node) :
    ∀ e' ∈ flat3List [] (filterEncode2 o outer inner fields),
      ∃ e ∈ flat3List [] (filterEncode o outer fields), StemsFrom o inner e e' :=
  fenc_every_field_stems_from_its_path_filter o inner (filterEncode o outer fields)

/-- Why fix 6641767 was needed (non-vacuity): the OLD outer encoder marshalled the fields of an object into the
    inner encoder's TOP-LEVEL copy, so the inner encoder looked every nested field up without its key path:
    with no outer filter at all, the inner `request>uri → delete` did not run; now it does. -/
theorem fenc_wrapped_encoder_old_code_fails :
    ∃ (o : Oracles) (inner : FCfg) (fields : List Node) (secret : Bytes),
      lookupF inner (str "request>uri") = some .delete ∧
      visList [] fields = [(str "request>uri", .str secret)] ∧
      listStrings (filterEncode2Old o [] inner fields) = [str "request", str "uri", secret] ∧
      listStrings (filterEncode2 o [] inner fields) = [str "request"] :=
  ⟨⟨id, id, fun _ => none, fun _ => none, fun _ => [], fun _ => none, fun _ => [], fun _ => [], fun _ => []⟩,
   [(str "request>uri", .delete)], [.obj (str "request") [.leaf (str "uri") (.str (str "SECRET"))]],
   str "SECRET", by decide⟩

/-! ### non-vacuity -/

def exFO : Oracles := ⟨fun s => 104 :: s, id, fun _ => none, fun _ => none, fun _ => [], fun _ => none, fun _ => [], fun _ => [], fun _ => []⟩

/-- `request{uri, headers{Cookie[…], X[…]}}, status` -/
def exEntry : List Node :=
  [.obj (str "request") [.leaf (str "uri") (.str (str "/x?token=S")),
     .obj (str "headers") [.leaf (str "Cookie") (.arr [str "sid=S"]), .leaf (str "X") (.arr [str "1"])]],
   .leaf (str "status") (.other 0)]

def exCfg : FCfg := [(str "request>headers>Cookie", .delete), (str "request>uri", .replace (str "R")),
  (str "request>headers>X", .hash), (str "Cookie", .delete), (str "request>headers>cookie", .replace (str "no"))]

example : noObjFilterList exCfg [] exEntry = true := by decide
example : flat3List [] (filterEncode exFO exCfg exEntry) =
    [⟨[], str "request", .other objTag, true⟩, ⟨str "request>", str "uri", .str (str "R"), false⟩,
     ⟨str "request>", str "headers", .other objTag, true⟩,
     ⟨str "request>headers>", str "X", .arr [str "h1"], false⟩, ⟨[], str "status", .other 0, false⟩] := by decide
example : listStrings (filterEncode exFO exCfg exEntry) =
    [str "request", str "uri", str "R", str "headers", str "X", str "h1", str "status"] := by decide

-- a filter on the object itself: `request → rename rq`, `request>headers → hash` (kept), and the filters inside still run
example : flat3List [] (filterEncode exFO ((str "request", .rename (str "rq")) :: (str "request>headers", .hash) :: exCfg) exEntry) =
    [⟨[], str "rq", .other objTag, true⟩, ⟨str "rq>", str "uri", .str (str "R"), false⟩,
     ⟨str "rq>", str "headers", .other objTag, true⟩,
     ⟨str "rq>headers>", str "X", .arr [str "h1"], false⟩, ⟨[], str "status", .other 0, false⟩] := by decide
-- delete / replace on the object remove it with everything inside
example : listStrings (filterEncode exFO [(str "request", .delete)] exEntry) = [str "status"] ∧
    listStrings (filterEncode exFO [(str "request>headers", .replace (str "-"))] exEntry) =
      [str "request", str "uri", str "/x?token=S", str "headers", str "-", str "status"] := by decide

example : noNsList exEntry = true ∧ visList [] exEntry =
    [(str "request>uri", .str (str "/x?token=S")), (str "request>headers>Cookie", .arr [str "sid=S"]),
     (str "request>headers>X", .arr [str "1"]), (str "status", .other 0)] := by decide

end CaddyModel.C20
